(* C15 — proofs about the reader model (coq/C15/Reader.v) and its relation to the oracle
   (coq/C15/Spec_C15.v). *)
From Coq Require Import NArith List Bool Arith Lia.
From F8 Require Import C15.Reader C15.Spec_C15.
Import ListNotations.

(* ========================================================================================== *)
(* A. sockRead and chunking                                                                   *)

Lemma app_eq_split : forall (c x a rest : list N),
  c ++ x = a ++ rest -> length a <= length c ->
  firstn (length a) c = a /\ skipn (length a) c ++ x = rest.
Proof.
  intros c x a; revert c x.
  induction a as [|b a IH]; intros c x rest H L; cbn [length] in *.
  - cbn. split; [reflexivity | exact H].
  - destruct c as [|b' c]; cbn [length] in L; [lia|].
    cbn in H. injection H as -> H.
    destruct (IH c x rest H ltac:(lia)) as [E1 E2].
    cbn [firstn skipn]. rewrite E1. split; [reflexivity | exact E2].
Qed.

Lemma app_eq_split2 : forall (c x a rest : list N),
  c ++ x = a ++ rest -> length c <= length a ->
  exists a2, a = c ++ a2 /\ x = a2 ++ rest.
Proof.
  induction c as [|b c IH]; intros x a rest H L; cbn [length] in *.
  - exists a. split; [reflexivity | exact H].
  - destruct a as [|b' a]; cbn [length] in L; [lia|].
    cbn in H. injection H as -> H.
    destruct (IH x a rest H ltac:(lia)) as [a2 [E1 E2]].
    exists a2. subst a. split; [reflexivity | exact E2].
Qed.

(* reading exactly the next |a| bytes of the stream, whatever the chunking *)
Lemma sock_read_app : forall (s : sock) (a rest : list N),
  concat s = a ++ rest ->
  exists s', sock_read (length a) s = (Some a, s') /\ concat s' = rest.
Proof.
  induction s as [|c s IH]; intros a rest H.
  - cbn in H. destruct a; [|discriminate]. cbn in H. subst rest.
    exists []. split; reflexivity.
  - destruct a as [|b a].
    + exists (c :: s). split; [reflexivity | exact H].
    + cbn [concat] in H. cbn [sock_read length].
      destruct (S (length a) <? length c) eqn:LT.
      * apply Nat.ltb_lt in LT.
        destruct (app_eq_split c (concat s) (b :: a) rest H) as [E1 E2]; [cbn [length]; lia|].
        cbn [length] in E1, E2.
        exists (skipn (S (length a)) c :: s). rewrite E1. split; [reflexivity|].
        cbn [concat]. exact E2.
      * apply Nat.ltb_ge in LT.
        destruct (app_eq_split2 c (concat s) (b :: a) rest H) as [a2 [E1 E2]]; [cbn [length]; lia|].
        destruct (IH a2 rest E2) as [s' [R C]].
        assert (LA : S (length a) - length c = length a2).
        { change (S (length a)) with (length (b :: a)). rewrite E1, app_length. lia. }
        rewrite LA, R. exists s'. rewrite E1. split; [reflexivity | exact C].
Qed.

(* asking for more than the stream holds: the stream ends first, everything is consumed *)
Lemma sock_read_short : forall (s : sock) (n : nat),
  length (concat s) < n -> sock_read n s = (None, []).
Proof.
  induction s as [|c s IH]; intros n H.
  - destruct n; [cbn in H; lia | reflexivity].
  - destruct n as [|n]; [lia|].
    cbn [concat] in H. rewrite app_length in H.
    cbn [sock_read].
    destruct (S n <? length c) eqn:LT.
    + apply Nat.ltb_lt in LT. lia.
    + rewrite (IH (S n - length c)) by lia. reflexivity.
Qed.

Lemma sockread_chunking_lemma : forall (chunks : sock) (n : nat),
  n <= length (concat chunks) ->
  exists rest, sock_read n chunks = (Some (firstn n (concat chunks)), rest) /\
               concat rest = skipn n (concat chunks).
Proof.
  intros chunks n H.
  destruct (sock_read_app chunks (firstn n (concat chunks)) (skipn n (concat chunks))) as [s' [R C]].
  - symmetry. apply firstn_skipn.
  - rewrite firstn_length_le in R by exact H. exists s'. split; assumption.
Qed.

(* two sockets holding the same byte stream *)
Definition same_stream (s t : sock) : Prop := concat s = concat t.

Lemma sock_read_same : forall n s t, same_stream s t ->
  fst (sock_read n s) = fst (sock_read n t) /\ same_stream (snd (sock_read n s)) (snd (sock_read n t)).
Proof.
  intros n s t H. unfold same_stream in *.
  destruct (le_lt_dec n (length (concat s))) as [L|L].
  - destruct (sockread_chunking_lemma s n L) as [r1 [E1 C1]].
    rewrite H in L.
    destruct (sockread_chunking_lemma t n L) as [r2 [E2 C2]].
    rewrite E1, E2. cbn [fst snd]. rewrite H. split; [reflexivity|]. rewrite C1, C2, H. reflexivity.
  - rewrite (sock_read_short s n L). rewrite H in L. rewrite (sock_read_short t n L).
    split; reflexivity.
Qed.

(* ========================================================================================== *)
(* B. the whole reader depends only on the concatenated stream                                *)

Lemma pre_loop_same : forall fuel p racc offs s t, same_stream s t ->
  fst (pre_loop fuel p racc offs s) = fst (pre_loop fuel p racc offs t) /\
  same_stream (snd (pre_loop fuel p racc offs s)) (snd (pre_loop fuel p racc offs t)).
Proof.
  induction fuel as [|f IH]; intros p racc offs s t H.
  - cbn. split; [reflexivity | exact H].
  - cbn [pre_loop].
    destruct (sock_read_same 1 s t H) as [E HS].
    destruct (sock_read 1 s) as [r1 s1], (sock_read 1 t) as [r2 s2]. cbn [fst snd] in E, HS. subst r2.
    destruct r1 as [[|bt [|b2 l]]|]; try (cbn [fst snd]; split; [reflexivity | exact HS]).
    destruct (negb (isdigit bt) && negb (bt =? SOH)%N); [cbn [fst snd]; split; [reflexivity | exact HS]|].
    destruct (p_max p <=? offs); [cbn [fst snd]; split; [reflexivity | exact HS]|].
    destruct (negb (bt =? SOH)%N && (S offs <? p_max p)).
    + apply IH. exact HS.
    + cbn [fst snd]. split; [reflexivity | exact HS].
Qed.

Lemma read_body_same : forall p to mlen s t, same_stream s t ->
  fst (read_body p to mlen s) = fst (read_body p to mlen t) /\
  same_stream (snd (read_body p to mlen s)) (snd (read_body p to mlen t)).
Proof.
  intros p to mlen s t H. unfold read_body.
  destruct ((mlen =? 0)%N || (len_limit p <? mlen)%N); [cbn [fst snd]; split; [reflexivity | exact H]|].
  destruct (p_max p <? N.to_nat mlen + chksum_sz); [cbn [fst snd]; split; [reflexivity | exact H]|].
  destruct (sock_read_same (N.to_nat mlen) s t H) as [E HS].
  destruct (sock_read (N.to_nat mlen) s) as [r1 s1], (sock_read (N.to_nat mlen) t) as [r2 s2].
  cbn [fst snd] in E, HS. subst r2.
  destruct r1 as [body|]; [|cbn [fst snd]; split; [reflexivity | exact HS]].
  destruct (sock_read_same chksum_sz s1 s2 HS) as [E' HS'].
  destruct (sock_read chksum_sz s1) as [r1 s3], (sock_read chksum_sz s2) as [r2 s4].
  cbn [fst snd] in E', HS'. subst r2.
  destruct r1; cbn [fst snd]; split; try reflexivity; exact HS'.
Qed.

Lemma read_fields_same : forall p to s t, same_stream s t ->
  fst (read_fields p to s) = fst (read_fields p to t) /\
  same_stream (snd (read_fields p to s)) (snd (read_fields p to t)).
Proof.
  intros p to s t H. unfold read_fields.
  destruct (extract_element p to) as [st|r1 tag1 val1]; [cbn [fst snd]; split; [reflexivity | exact H]|].
  destruct (r1 =? 0); [cbn [fst snd]; split; [reflexivity | exact H]|].
  destruct (negb (tag_exact tag1 56%N)); [cbn [fst snd]; split; [reflexivity | exact H]|].
  destruct (negb (list_eqb (cstr val1) (p_begin p))); [cbn [fst snd]; split; [reflexivity | exact H]|].
  destruct (extract_element p (skipn r1 to)) as [st|r2 tag2 val2]; [cbn [fst snd]; split; [reflexivity | exact H]|].
  destruct (r2 =? 0); [cbn [fst snd]; split; [reflexivity | exact H]|].
  destruct (negb (tag_exact tag2 57%N)); [cbn [fst snd]; split; [reflexivity | exact H]|].
  destruct (first_not_digit val2); [cbn [fst snd]; split; [reflexivity | exact H]|].
  apply read_body_same. exact H.
Qed.

Lemma read_msg_same : forall p s t, same_stream s t ->
  fst (read_msg p s) = fst (read_msg p t) /\ same_stream (snd (read_msg p s)) (snd (read_msg p t)).
Proof.
  intros p s t H. unfold read_msg.
  destruct (sock_read_same (bg_sz p) s t H) as [E HS].
  destruct (sock_read (bg_sz p) s) as [r1 s1], (sock_read (bg_sz p) t) as [r2 s2].
  cbn [fst snd] in E, HS. subst r2.
  destruct r1 as [pre|]; [|cbn [fst snd]; split; [reflexivity | exact HS]].
  destruct (p_max p <? bg_sz p); [cbn [fst snd]; split; [reflexivity | exact HS]|].
  destruct (pre_loop_same (p_max p) p (rev pre) (bg_sz p) s1 s2 HS) as [E' HS'].
  destruct (pre_loop (p_max p) p (rev pre) (bg_sz p) s1) as [r1 s3],
           (pre_loop (p_max p) p (rev pre) (bg_sz p) s2) as [r2 s4].
  cbn [fst snd] in E', HS'. subst r2.
  destruct r1; try (cbn [fst snd]; split; [reflexivity | exact HS']).
  apply read_fields_same. exact HS'.
Qed.

Lemma read_all_same : forall fuel p s t, same_stream s t -> read_all fuel p s = read_all fuel p t.
Proof.
  induction fuel as [|f IH]; intros p s t H; [reflexivity|].
  cbn [read_all].
  destruct (read_msg_same p s t H) as [E HS].
  destruct (read_msg p s) as [o1 s1], (read_msg p t) as [o2 s2]. cbn [fst snd] in E, HS. subst o2.
  destruct o1; try reflexivity.
  rewrite (IH p s1 s2 HS). reflexivity.
Qed.

Lemma chunking_independent_lemma : forall p chunks1 chunks2 closed,
  concat chunks1 = concat chunks2 -> run p chunks1 closed = run p chunks2 closed.
Proof.
  intros p c1 c2 closed H. unfold run, total. rewrite H.
  rewrite (read_all_same (S (length (concat c2))) p c1 c2 H). reflexivity.
Qed.

(* ========================================================================================== *)
(* C. valid frames are handed on exactly                                                      *)

Definition nosoh (b : N) : bool := negb (b =? SOH)%N.
Definition nonul (b : N) : bool := negb (b =? 0)%N.

(* what the theorems assume about the reader's constants (true of the pinned tree, see
   [wf_std_params]): BeginString without SOH/NUL and shorter than val[], room for tag "8"/"9",
   the buffer holds a preamble with a BodyLength field as long as val[] allows, no size_t / 32-bit
   wrap of the constants *)
Definition wf_params (p : params) : bool :=
  forallb (fun b => nosoh b && nonul b) (p_begin p) &&
  (2 <=? p_tagcap p) && (length (p_begin p) <? p_valcap p) &&
  (bg_sz p + p_valcap p <=? p_max p) && (bg_sz p + 8 <=? p_max p) &&
  (N.of_nat (p_max p) <? W32)%N.

Lemma wf_std_params : wf_params (std_params fix42) = true.
Proof. vm_compute. reflexivity. Qed.

Lemma wf_inv : forall p, wf_params p = true ->
  Forall (fun b => nosoh b = true) (p_begin p) /\ Forall (fun b => nonul b = true) (p_begin p) /\
  2 <= p_tagcap p /\ length (p_begin p) < p_valcap p /\ bg_sz p + p_valcap p <= p_max p /\
  bg_sz p + 8 <= p_max p /\ (N.of_nat (p_max p) < W32)%N.
Proof.
  intros p H. unfold wf_params in H.
  repeat (apply andb_true_iff in H; destruct H as [H ?]).
  rewrite forallb_forall in H.
  repeat split.
  - apply Forall_forall. intros b Hb. apply H in Hb. apply andb_true_iff in Hb. tauto.
  - apply Forall_forall. intros b Hb. apply H in Hb. apply andb_true_iff in Hb. tauto.
  - apply Nat.leb_le; assumption.
  - apply Nat.ltb_lt; assumption.
  - apply Nat.leb_le; assumption.
  - apply Nat.leb_le; assumption.
  - apply N.ltb_lt; assumption.
Qed.

Lemma digit_nosoh : forall b, isdigit b = true -> nosoh b = true.
Proof.
  intros b H. unfold isdigit in H. apply andb_true_iff in H. destruct H as [H _].
  apply N.leb_le in H. unfold nosoh, SOH. destruct (b =? 1)%N eqn:E; [|reflexivity].
  apply N.eqb_eq in E. subst b. lia.
Qed.

Lemma digit_nonul : forall b, isdigit b = true -> nonul b = true.
Proof.
  intros b H. unfold isdigit in H. apply andb_true_iff in H. destruct H as [H _].
  apply N.leb_le in H. unfold nonul. destruct (b =? 0)%N eqn:E; [|reflexivity].
  apply N.eqb_eq in E. subst b. lia.
Qed.

Lemma cstr_nonul : forall l, Forall (fun b => nonul b = true) l -> cstr l = l.
Proof.
  induction 1 as [|b l Hb _ IH]; [reflexivity|].
  cbn [cstr]. unfold nonul in Hb. destruct (b =? 0)%N; [discriminate|]. rewrite IH. reflexivity.
Qed.

Lemma list_eqb_refl : forall l, list_eqb l l = true.
Proof. induction l as [|b l IH]; [reflexivity|]. cbn. rewrite N.eqb_refl, IH. reflexivity. Qed.

Lemma list_eqb_eq : forall a b, list_eqb a b = true -> a = b.
Proof.
  induction a as [|x a IH]; destruct b as [|y b]; cbn; intros H; try discriminate; [reflexivity|].
  apply andb_true_iff in H. destruct H as [H1 H2]. apply N.eqb_eq in H1. subst y. f_equal. apply IH, H2.
Qed.

(* ---- extract_element on a well-formed field ---------------------------------------------- *)

Lemma ee_val_run : forall v p more ii rtag rval,
  Forall (fun b => nosoh b = true) v -> length rval + length v < p_valcap p ->
  ee_val p (v ++ SOH :: more) ii rtag rval = ee_term p (S (ii + length v)) rtag (rev v ++ rval).
Proof.
  induction v as [|b v IH]; intros p more ii rtag rval Hv L.
  - cbn [app ee_val length rev]. rewrite N.eqb_refl. rewrite Nat.add_0_r. reflexivity.
  - inversion Hv as [|? ? Hb Hv']; subst.
    cbn [app ee_val length]. unfold nosoh in Hb.
    destruct (b =? SOH)%N; [discriminate|].
    cbn [length] in L.
    destruct (length rval =? p_valcap p - 1) eqn:E0; [apply Nat.eqb_eq in E0; lia|].
    destruct (p_valcap p <=? length rval) eqn:E; [apply Nat.leb_le in E; lia|].
    rewrite IH; [|assumption|cbn [length]; lia].
    cbn [rev]. rewrite <- app_assoc. cbn [app]. f_equal. lia.
Qed.

Lemma ee_tag_run : forall t p r ii rtag,
  Forall (fun b => isdigit b = true) t -> length rtag + length t < p_tagcap p ->
  ee_tag p (t ++ EQS :: r) ii rtag = ee_val p r (S (ii + length t)) (rev t ++ rtag) [].
Proof.
  induction t as [|b t IH]; intros p r ii rtag Ht L.
  - cbn [app ee_tag length rev]. change (isdigit EQS) with false. rewrite N.eqb_refl.
    rewrite Nat.add_0_r. reflexivity.
  - inversion Ht as [|? ? Hb Ht']; subst.
    cbn [app ee_tag length]. rewrite Hb. cbn [length] in L.
    destruct (length rtag =? p_tagcap p - 1) eqn:E0; [apply Nat.eqb_eq in E0; lia|].
    destruct (p_tagcap p <=? length rtag) eqn:E; [apply Nat.leb_le in E; lia|].
    rewrite IH; [|assumption|cbn [length]; lia].
    cbn [rev]. rewrite <- app_assoc. cbn [app]. f_equal. lia.
Qed.

Lemma ee_field : forall p t v more,
  Forall (fun b => isdigit b = true) t -> length t < p_tagcap p ->
  Forall (fun b => nosoh b = true) v -> length v < p_valcap p ->
  extract_element p (t ++ EQS :: v ++ SOH :: more) = EERet (length t + 1 + length v + 1) t v.
Proof.
  intros p t v more Ht Lt Hv Lv. unfold extract_element.
  rewrite ee_tag_run by (cbn [length]; (assumption || lia)).
  rewrite ee_val_run by (cbn [length]; (assumption || lia)).
  unfold ee_term. rewrite !app_nil_r, !rev_length.
  destruct (p_tagcap p <=? length t) eqn:E1; [apply Nat.leb_le in E1; lia|].
  destruct (p_valcap p <=? length v) eqn:E2; [apply Nat.leb_le in E2; lia|].
  rewrite !rev_involutive. f_equal. lia.
Qed.

(* ---- fast_atoi<unsigned> on digits -------------------------------------------------------- *)

Definition dec_step (acc : N) (b : N) : N := (acc * 10 + (b - 48))%N.

Lemma dec_fold : forall ds, dec ds = fold_left dec_step ds 0%N.
Proof. reflexivity. Qed.

Lemma atoi_step_digit : forall a b, isdigit b = true ->
  atoi_step (a mod W32) b = (dec_step a b mod W32)%N.
Proof.
  intros a b H. unfold isdigit in H. apply andb_true_iff in H. destruct H as [H1 H2].
  apply N.leb_le in H1. apply N.leb_le in H2.
  unfold atoi_step, dec_step.
  destruct (b <? 128)%N eqn:E; [|apply N.ltb_ge in E; lia].
  assert (W : W32 <> 0%N) by (unfold W32; discriminate).
  replace (a mod W32 * 10 + b + 4294967248)%N with ((a mod W32 * 10 + (b - 48)) + 1 * W32)%N
    by (unfold W32; lia).
  rewrite N.mod_add by exact W.
  rewrite <- (N.add_mod_idemp_l (a * 10)) by exact W.
  rewrite <- (N.mul_mod_idemp_l a 10) by exact W.
  rewrite N.add_mod_idemp_l by exact W. reflexivity.
Qed.

Lemma atoi_fold_digits : forall ds a, Forall (fun b => isdigit b = true) ds ->
  fold_left atoi_step ds (a mod W32)%N = (fold_left dec_step ds a mod W32)%N.
Proof.
  induction ds as [|b ds IH]; intros a H; [reflexivity|].
  inversion H as [|? ? Hb H']; subst. cbn [fold_left].
  rewrite atoi_step_digit by exact Hb. apply IH. exact H'.
Qed.

Lemma atoi_digits : forall ds, Forall (fun b => isdigit b = true) ds ->
  atoi_u32 ds = (dec ds mod W32)%N.
Proof.
  intros ds H. unfold atoi_u32. rewrite dec_fold.
  change 0%N with (0 mod W32)%N at 1. apply atoi_fold_digits. exact H.
Qed.

(* ---- the preamble loop over the remaining BodyLength digits ------------------------------ *)

Lemma digit_SOH : isdigit SOH = false.
Proof. reflexivity. Qed.

Lemma pre_loop_digits : forall ds' fuel p racc offs s R,
  concat s = ds' ++ SOH :: R -> Forall (fun b => isdigit b = true) ds' ->
  offs + length ds' < p_max p -> length ds' < fuel ->
  exists s', pre_loop fuel p racc offs s = (PDone (rev racc ++ ds' ++ [SOH]), s') /\ concat s' = R.
Proof.
  induction ds' as [|d ds' IH]; intros fuel p racc offs s R C Hd Lo Lf.
  - destruct fuel as [|f]; [cbn [length] in Lf; lia|].
    destruct (sock_read_app s [SOH] R C) as [s' [E C']].
    cbn [length] in E. cbn [pre_loop]. rewrite E.
    rewrite digit_SOH, N.eqb_refl. cbn [negb andb].
    cbn [length] in Lo.
    destruct (p_max p <=? offs) eqn:E1; [apply Nat.leb_le in E1; lia|].
    exists s'. split; [|exact C']. cbn [rev app]. reflexivity.
  - destruct fuel as [|f]; [cbn [length] in Lf; lia|].
    inversion Hd as [|? ? Hb Hd']; subst.
    destruct (sock_read_app s [d] (ds' ++ SOH :: R) C) as [s' [E C']].
    cbn [length] in E. cbn [pre_loop]. rewrite E. rewrite Hb. cbn [negb andb].
    cbn [length] in Lo, Lf.
    destruct (p_max p <=? offs) eqn:E1; [apply Nat.leb_le in E1; lia|].
    pose proof (digit_nosoh d Hb) as Hn. unfold nosoh in Hn. rewrite Hn. cbn [andb].
    destruct (S offs <? p_max p) eqn:E2; [|apply Nat.ltb_ge in E2; lia].
    destruct (IH f p (d :: racc) (S offs) s' R C' Hd' ltac:(lia) ltac:(lia)) as [s'' [P C'']].
    exists s''. split; [|exact C'']. rewrite P. cbn [rev]. rewrite <- app_assoc. reflexivity.
Qed.

(* ---- the oracle's frame rule, inverted ---------------------------------------------------- *)

Lemma strip_some : forall pre s r, strip pre s = Some r -> s = pre ++ r.
Proof.
  induction pre as [|x pre IH]; intros s r H; cbn in H.
  - injection H as ->. reflexivity.
  - destruct s as [|y s]; [discriminate|].
    destruct (x =? y)%N eqn:E; [|discriminate]. apply N.eqb_eq in E. subst y.
    cbn. f_equal. apply IH, H.
Qed.

Lemma strip_app : forall pre r, strip pre (pre ++ r) = Some r.
Proof.
  induction pre as [|x pre IH]; intros r; cbn; [reflexivity|]. rewrite N.eqb_refl. apply IH.
Qed.

Lemma take_drop_digits : forall r, take_digits r ++ drop_digits r = r.
Proof.
  induction r as [|b r IH]; [reflexivity|]. cbn. destruct (sp_digit b); cbn; [rewrite IH|]; reflexivity.
Qed.

Lemma take_digits_all : forall r, Forall (fun b => isdigit b = true) (take_digits r).
Proof.
  induction r as [|b r IH]; cbn; [constructor|].
  destruct (sp_digit b) eqn:E; [|constructor]. constructor; [exact E | exact IH].
Qed.

Lemma take_drop_app : forall ds c x, Forall (fun b => isdigit b = true) ds -> isdigit c = false ->
  take_digits (ds ++ c :: x) = ds /\ drop_digits (ds ++ c :: x) = c :: x.
Proof.
  induction ds as [|d ds IH]; intros c x H Hc.
  - cbn. change (sp_digit c) with (isdigit c). rewrite Hc. split; reflexivity.
  - inversion H as [|? ? Hd H']; subst. cbn. change (sp_digit d) with (isdigit d). rewrite Hd.
    destruct (IH c x H' Hc) as [E1 E2]. rewrite E1, E2. split; reflexivity.
Qed.

Lemma trailer_ok_length : forall t, trailer_ok t = true -> length t = 7.
Proof.
  intros t H. unfold trailer_ok in H.
  do 7 (destruct t as [|? t]; [discriminate|]). destruct t; [reflexivity | discriminate].
Qed.

(* a valid frame, decomposed *)
Record shape (p : params) (m ds body trl : list N) : Prop := mk_shape {
  sh_m : m = header (p_begin p) ++ ds ++ [SOH] ++ body ++ trl;
  sh_ds : ds <> [];
  sh_dig : Forall (fun b => isdigit b = true) ds;
  sh_dec : dec ds = N.of_nat (length body);
  sh_pos : 1 <= length body;
  sh_lim : (N.of_nat (length body) <= len_limit p)%N;
  sh_trl : trailer_ok trl = true;
  sh_w : length ds <= max_width p
}.

Lemma valid_frame_shape : forall p m, valid_frame (p_begin p) (len_limit p) (max_width p) m = true ->
  exists ds body trl, shape p m ds body trl.
Proof.
  intros p m H. unfold valid_frame, spec_frame in H.
  destruct (strip (header (p_begin p)) m) as [r|] eqn:St.
  2:{ destruct (is_prefix m (header (p_begin p))); discriminate. }
  apply strip_some in St.
  pose proof (take_drop_digits r) as TD. pose proof (take_digits_all r) as TA.
  destruct (max_width p <? length (take_digits r)) eqn:Ew; [discriminate|]. apply Nat.ltb_ge in Ew.
  destruct (drop_digits r) as [|c more] eqn:Dr; [discriminate|].
  destruct (c =? sp_soh)%N eqn:Ec; cbn [negb] in H; [|discriminate].
  apply N.eqb_eq in Ec. subst c.
  destruct (take_digits r) as [|d ds0] eqn:Tk; [discriminate|].
  set (ds := d :: ds0) in *.
  destruct (dec ds =? 0)%N eqn:Ez; [discriminate|].
  destruct (len_limit p <? dec ds)%N eqn:El; [discriminate|].
  destruct (N.of_nat (length more) <? dec ds + 7)%N eqn:Em; [discriminate|].
  destruct (trailer_ok (firstn 7 (skipn (N.to_nat (dec ds)) more))) eqn:Et; [|discriminate].
  destruct (skipn (N.to_nat (dec ds) + 7) more) as [|? ?] eqn:Sk; [|discriminate].
  apply N.eqb_neq in Ez. apply N.ltb_ge in El. apply N.ltb_ge in Em.
  set (k := N.to_nat (dec ds)) in *.
  assert (Lm : length more = k + 7).
  { assert (length (skipn (k + 7) more) = 0) by (rewrite Sk; reflexivity).
    rewrite skipn_length in H0. subst k. lia. }
  exists ds, (firstn k more), (skipn k more).
  assert (Lb : length (firstn k more) = k) by (rewrite firstn_length; lia).
  constructor.
  - rewrite St, <- TD. unfold SOH, sp_soh.
    cbn [app]. rewrite (firstn_skipn k more). reflexivity.
  - subst ds. discriminate.
  - exact TA.
  - rewrite Lb. subst k. rewrite N2Nat.id. reflexivity.
  - rewrite Lb. subst k. lia.
  - rewrite Lb. subst k. rewrite N2Nat.id. exact El.
  - rewrite <- Et. f_equal.
    rewrite firstn_all2; [reflexivity|]. rewrite skipn_length. lia.
  - exact Ew.
Qed.

(* ---- FIXReader::read on a well-formed preamble --------------------------------------------- *)

Lemma header_length : forall b, length (header b) = length b + 5.
Proof. intros b. unfold header. rewrite !app_length. cbn [length]. lia. Qed.

Lemma bg_header : forall p, bg_sz p = length (header (p_begin p)) + 1.
Proof. intros p. unfold bg_sz. rewrite header_length. lia. Qed.

Lemma skipn_app_exact : forall (a b : list N), skipn (length a) (a ++ b) = b.
Proof. induction a as [|x a IH]; intros b; cbn; [reflexivity | apply IH]. Qed.

Lemma first_not_digit_digits : forall ds, Forall (fun b => isdigit b = true) ds -> first_not_digit ds = false.
Proof.
  intros ds H. destruct ds as [|d ds]; [reflexivity|]. inversion H as [|? ? Hd _]; subst.
  cbn [first_not_digit]. rewrite Hd. apply andb_false_r.
Qed.

(* the two extract_element calls on "8=<begin>|9=<ds>|" *)
Lemma read_fields_preamble : forall p ds s2,
  wf_params p = true -> Forall (fun b => isdigit b = true) ds -> length ds < p_valcap p ->
  read_fields p (header (p_begin p) ++ ds ++ [SOH]) s2 =
  read_body p (header (p_begin p) ++ ds ++ [SOH]) (dec ds mod W32)%N s2.
Proof.
  intros p ds s2 W Hd Ld.
  destruct (wf_inv p W) as (Bs & Bn & Tc & Bl & _ & _ & _).
  unfold read_fields.
  set (more := [57; 61]%N ++ ds ++ [SOH]).
  assert (E : header (p_begin p) ++ ds ++ [SOH] = [56%N] ++ EQS :: p_begin p ++ SOH :: more).
  { unfold header, more, EQS, SOH. cbn [app]. rewrite <- !app_assoc. reflexivity. }
  rewrite E at 1.
  rewrite ee_field; [|repeat constructor|cbn [length]; lia|exact Bs|exact Bl].
  cbn [length]. replace (1 + 1 + length (p_begin p) + 1 =? 0) with false
    by (symmetry; apply Nat.eqb_neq; lia).
  cbn [tag_exact]. rewrite N.eqb_refl. cbn [negb].
  rewrite (cstr_nonul _ Bn), list_eqb_refl. cbn [negb].
  assert (E2 : header (p_begin p) ++ ds ++ [SOH] = ([56; 61]%N ++ p_begin p ++ [SOH]) ++ more).
  { unfold header, more, SOH. rewrite <- !app_assoc. reflexivity. }
  assert (L2 : 1 + 1 + length (p_begin p) + 1 = length ([56; 61]%N ++ p_begin p ++ [SOH])).
  { rewrite !app_length. cbn [length]. lia. }
  rewrite L2. rewrite E2 at 1. rewrite skipn_app_exact.
  assert (E3 : more = [57%N] ++ EQS :: ds ++ SOH :: []).
  { unfold more, EQS, SOH. reflexivity. }
  rewrite E3.
  rewrite ee_field; [|repeat constructor|cbn [length]; lia| |exact Ld].
  2:{ eapply Forall_impl; [|exact Hd]. intros b Hb. apply digit_nosoh, Hb. }
  cbn [length]. replace (1 + 1 + length ds + 1 =? 0) with false
    by (symmetry; apply Nat.eqb_neq; lia).
  cbn [tag_exact]. rewrite N.eqb_refl. cbn [negb].
  rewrite (first_not_digit_digits ds Hd).
  rewrite cstr_nonul by (eapply Forall_impl; [|exact Hd]; intros b Hb; apply digit_nonul, Hb).
  rewrite atoi_digits by exact Hd. reflexivity.
Qed.

Lemma read_msg_preamble : forall p s ds R,
  wf_params p = true ->
  concat s = header (p_begin p) ++ ds ++ [SOH] ++ R ->
  ds <> [] -> Forall (fun b => isdigit b = true) ds -> length ds < p_valcap p ->
  exists s2, concat s2 = R /\
    read_msg p s = read_body p (header (p_begin p) ++ ds ++ [SOH]) (dec ds mod W32)%N s2.
Proof.
  intros p s ds R W C Hne Hd Ld.
  destruct (wf_inv p W) as (_ & _ & _ & _ & Mx & Mx8 & _).
  destruct ds as [|d1 ds']; [congruence|].
  inversion Hd as [|? ? Hd1 Hd']; subst.
  assert (C1 : concat s = (header (p_begin p) ++ [d1]) ++ (ds' ++ SOH :: R)).
  { rewrite C. rewrite <- !app_assoc. reflexivity. }
  destruct (sock_read_app s _ _ C1) as [s1 [E1 C1']].
  assert (Lbg : length (header (p_begin p) ++ [d1]) = bg_sz p).
  { rewrite app_length, bg_header. reflexivity. }
  rewrite Lbg in E1.
  unfold read_msg. rewrite E1.
  destruct (p_max p <? bg_sz p) eqn:E0; [apply Nat.ltb_lt in E0; lia|].
  cbn [length] in Ld.
  destruct (pre_loop_digits ds' (p_max p) p (rev (header (p_begin p) ++ [d1])) (bg_sz p) s1 R C1' Hd')
    as [s2 [P C2]]; [lia|lia|].
  rewrite P. exists s2. split; [exact C2|].
  rewrite rev_involutive.
  replace ((header (p_begin p) ++ [d1]) ++ ds' ++ [SOH]) with (header (p_begin p) ++ (d1 :: ds') ++ [SOH])
    by (rewrite <- !app_assoc; reflexivity).
  apply read_fields_preamble; [exact W | exact Hd | cbn [length]; lia].
Qed.

Lemma len_limit_eq : forall p, wf_params p = true ->
  len_limit p = N.of_nat (p_max p - bg_sz p - chksum_sz).
Proof.
  intros p W. destruct (wf_inv p W) as (_ & _ & _ & _ & _ & Mx8 & M32).
  unfold len_limit, chksum_sz in *.
  assert (W32 < W64)%N by (unfold W32, W64; lia).
  replace (N.of_nat (p_max p) + W64 - N.of_nat (bg_sz p) - N.of_nat 7)%N
    with (N.of_nat (p_max p - bg_sz p - 7) + 1 * W64)%N by lia.
  rewrite N.mod_add by (unfold W64; discriminate).
  apply N.mod_small. lia.
Qed.

(* body and trailer of a frame whose BodyLength is right *)
Lemma read_body_ok : forall p to body trl s2 rest,
  wf_params p = true -> 1 <= length body -> (N.of_nat (length body) <= len_limit p)%N ->
  length trl = 7 -> concat s2 = body ++ trl ++ rest ->
  exists s4, concat s4 = rest /\
    read_body p to (N.of_nat (length body)) s2 = (OMsg (to ++ body ++ trl), s4).
Proof.
  intros p to body trl s2 rest W Pos Lim Lt C.
  pose proof (len_limit_eq p W) as LE. rewrite LE in Lim.
  destruct (wf_inv p W) as (_ & _ & _ & _ & _ & Mx8 & _).
  unfold read_body. rewrite LE.
  destruct (N.of_nat (length body) =? 0)%N eqn:E0; [apply N.eqb_eq in E0; lia|].
  destruct (N.of_nat (p_max p - bg_sz p - chksum_sz) <? N.of_nat (length body))%N eqn:E1;
    [apply N.ltb_lt in E1; lia|].
  cbn [orb]. rewrite Nat2N.id.
  unfold chksum_sz in *.
  destruct (p_max p <? length body + 7) eqn:E2; [apply Nat.ltb_lt in E2; lia|].
  destruct (sock_read_app s2 body (trl ++ rest) C) as [s3 [R3 C3]]. rewrite R3.
  destruct (sock_read_app s3 trl rest C3) as [s4 [R4 C4]]. rewrite Lt in R4. rewrite R4.
  exists s4. split; [exact C4 | reflexivity].
Qed.

Lemma read_msg_valid : forall p s m ds body trl rest,
  wf_params p = true -> shape p m ds body trl -> length ds < p_valcap p ->
  concat s = m ++ rest ->
  exists s', concat s' = rest /\ read_msg p s = (OMsg m, s').
Proof.
  intros p s m ds body trl rest W Sh Ld C.
  destruct Sh as [Em Hne Hd Hdec Pos Lim Trl Hw].
  pose proof (trailer_ok_length _ Trl) as Lt.
  assert (C' : concat s = header (p_begin p) ++ ds ++ [SOH] ++ (body ++ trl ++ rest)).
  { rewrite C, Em. rewrite <- !app_assoc. reflexivity. }
  destruct (read_msg_preamble p s ds _ W C' Hne Hd Ld) as [s2 [C2 E]].
  rewrite E, Hdec.
  assert (M32 : (N.of_nat (length body) mod W32 = N.of_nat (length body))%N).
  { apply N.mod_small. pose proof (len_limit_eq p W) as LE. rewrite LE in Lim.
    destruct (wf_inv p W) as (_ & _ & _ & _ & _ & _ & M). lia. }
  rewrite M32.
  destruct (read_body_ok p (header (p_begin p) ++ ds ++ [SOH]) body trl s2 rest W Pos Lim Lt C2) as [s4 [C4 R]].
  exists s4. split; [exact C4|]. rewrite R. rewrite Em. rewrite <- !app_assoc. reflexivity.
Qed.

(* the hypothesis of the exactness theorem, as a boolean: a valid frame for the oracle, with the
   reader's limits (largest BodyLength, longest field value) as the oracle's parameters *)
Definition frame_ok (p : params) (m : list N) : bool :=
  valid_frame (p_begin p) (len_limit p) (max_width p) m.

Lemma frame_ok_shape : forall p m, frame_ok p m = true ->
  exists ds body trl, shape p m ds body trl /\ length ds <= max_width p.
Proof.
  intros p m H. destruct (valid_frame_shape p m H) as (ds & body & trl & Sh).
  exists ds, body, trl. split; [exact Sh | exact (sh_w _ _ _ _ _ Sh)].
Qed.

Lemma width_lt : forall p n, wf_params p = true -> n <= max_width p -> n < p_valcap p.
Proof.
  intros p n W H. destruct (wf_inv p W) as (_ & _ & _ & Bl & _). unfold max_width in H. lia.
Qed.

Lemma read_all_valid : forall p msgs s rest fuel,
  wf_params p = true -> Forall (fun m => frame_ok p m = true) msgs ->
  concat s = concat msgs ++ rest -> length msgs <= fuel ->
  exists s', concat s' = rest /\
    read_all fuel p s = (let (d, e) := read_all (fuel - length msgs) p s' in (msgs ++ d, e)).
Proof.
  intros p msgs. induction msgs as [|m msgs IH]; intros s rest fuel W Hv C Lf.
  - exists s. split; [exact C|]. cbn [length app]. rewrite Nat.sub_0_r.
    destruct (read_all fuel p s). reflexivity.
  - inversion Hv as [|? ? Hm Hv']; subst.
    destruct (frame_ok_shape p m Hm) as (ds & body & trl & Sh & Ld0).
    pose proof (width_lt p _ W Ld0) as Ld.
    cbn [concat] in C. rewrite <- app_assoc in C.
    destruct (read_msg_valid p s m ds body trl _ W Sh Ld C) as [s1 [C1 R1]].
    cbn [length] in Lf. destruct fuel as [|f]; [lia|].
    destruct (IH s1 rest f W Hv' C1 ltac:(lia)) as [s' [C' R']].
    exists s'. split; [exact C'|].
    cbn [read_all]. rewrite R1, R'. cbn [length Nat.sub].
    destruct (read_all (f - length msgs) p s'). reflexivity.
Qed.

Lemma read_msg_empty : forall p s, concat s = [] -> read_msg p s = (OEos, []).
Proof.
  intros p s C. unfold read_msg. rewrite sock_read_short; [reflexivity|].
  rewrite C. unfold bg_sz. cbn [length]. lia.
Qed.

Lemma shape_nonempty : forall p m ds body trl, shape p m ds body trl -> 1 <= length m.
Proof.
  intros p m ds body trl Sh. destruct Sh as [Em _ _ _ _ _ _ _]. rewrite Em, app_length, header_length. lia.
Qed.

Lemma concat_length_ge : forall p msgs, Forall (fun m => frame_ok p m = true) msgs ->
  length msgs <= length (concat msgs).
Proof.
  intros p msgs H. induction H as [|m msgs Hm _ IH]; [cbn; lia|].
  destruct (frame_ok_shape p m Hm) as (ds & body & trl & Sh & _).
  pose proof (shape_nonempty _ _ _ _ _ Sh). cbn [concat length]. rewrite app_length. lia.
Qed.

Lemma frames_exact_lemma : forall p msgs chunks closed,
  wf_params p = true -> Forall (fun m => frame_ok p m = true) msgs ->
  concat chunks = concat msgs ->
  run p chunks closed = (msgs, if closed then EPeerReset else EWait).
Proof.
  intros p msgs chunks closed W Hv C. unfold run, total.
  assert (C' : concat chunks = concat msgs ++ []) by (rewrite app_nil_r; exact C).
  pose proof (concat_length_ge p msgs Hv) as L.
  destruct (read_all_valid p msgs chunks [] (S (length (concat chunks))) W Hv C' ltac:(rewrite C; lia))
    as [s' [Cs R]].
  rewrite R.
  replace (S (length (concat chunks)) - length msgs) with (S (length (concat chunks) - length msgs))
    by (rewrite C; lia).
  cbn [read_all]. rewrite (read_msg_empty p s' Cs). rewrite app_nil_r. reflexivity.
Qed.

(* ---- the oracle on streams of valid frames ------------------------------------------------- *)

Lemma spec_frame_app : forall p m ds body trl rest, shape p m ds body trl ->
  spec_frame (p_begin p) (len_limit p) (max_width p) (m ++ rest) = FFrame m rest.
Proof.
  intros p m ds body trl rest Sh. destruct Sh as [Em Hne Hd Hdec Pos Lim Trl Hw].
  pose proof (trailer_ok_length _ Trl) as Lt.
  unfold spec_frame.
  assert (E : m ++ rest = header (p_begin p) ++ (ds ++ SOH :: (body ++ trl ++ rest))).
  { rewrite Em. rewrite <- !app_assoc. reflexivity. }
  rewrite E, strip_app.
  destruct (take_drop_app ds SOH (body ++ trl ++ rest) Hd eq_refl) as [E1 E2].
  rewrite E1, E2.
  destruct (max_width p <? length ds) eqn:Ew; [apply Nat.ltb_lt in Ew; lia|].
  change (SOH =? sp_soh)%N with true. cbn [negb].
  destruct ds as [|d ds0]; [congruence|]. set (ds := d :: ds0) in *.
  rewrite Hdec.
  destruct (N.of_nat (length body) =? 0)%N eqn:E0; [apply N.eqb_eq in E0; lia|].
  destruct (len_limit p <? N.of_nat (length body))%N eqn:E3; [apply N.ltb_lt in E3; lia|].
  destruct (N.of_nat (length (body ++ trl ++ rest)) <? N.of_nat (length body) + 7)%N eqn:E4.
  { apply N.ltb_lt in E4. rewrite !app_length in E4. lia. }
  rewrite Nat2N.id.
  assert (S1 : skipn (length body) (body ++ trl ++ rest) = trl ++ rest) by apply skipn_app_exact.
  rewrite S1.
  assert (F1 : firstn 7 (trl ++ rest) = trl).
  { rewrite <- Lt. rewrite firstn_app, Nat.sub_diag, firstn_all. cbn [firstn]. apply app_nil_r. }
  rewrite F1, Trl.
  assert (F2 : firstn (length body + 7) (body ++ trl ++ rest) = body ++ trl).
  { rewrite app_assoc. rewrite <- Lt, <- app_length. rewrite firstn_app, Nat.sub_diag, firstn_all.
    cbn [firstn]. apply app_nil_r. }
  assert (S2 : skipn (length body + 7) (body ++ trl ++ rest) = rest).
  { rewrite app_assoc. rewrite <- Lt, <- app_length. apply skipn_app_exact. }
  rewrite F2, S2. f_equal. rewrite Em. unfold SOH, sp_soh. rewrite <- ?app_assoc. reflexivity.
Qed.

Lemma spec_parse_valid : forall p msgs fuel,
  Forall (fun m => frame_ok p m = true) msgs -> length (concat msgs) <= fuel ->
  spec_parse fuel (p_begin p) (len_limit p) (max_width p) (concat msgs) = (msgs, TClean).
Proof.
  intros p msgs. induction msgs as [|m msgs IH]; intros fuel Hv L.
  - cbn. destruct fuel; reflexivity.
  - inversion Hv as [|? ? Hm Hv']; subst.
    destruct (frame_ok_shape p m Hm) as (ds & body & trl & Sh & _).
    pose proof (shape_nonempty _ _ _ _ _ Sh) as Ln.
    cbn [concat] in *. rewrite app_length in L.
    destruct (m ++ concat msgs) as [|x xs] eqn:Ex.
    { apply (f_equal (@length N)) in Ex. rewrite app_length in Ex. cbn in Ex. lia. }
    destruct fuel as [|f]; [lia|].
    cbn [spec_parse]. rewrite <- Ex. rewrite (spec_frame_app p m ds body trl _ Sh).
    rewrite IH; [reflexivity | exact Hv' | lia].
Qed.

Lemma sp_eqb_refl : forall l, sp_eqb l l = true.
Proof. induction l as [|b l IH]; [reflexivity|]. cbn. rewrite N.eqb_refl, IH. reflexivity. Qed.

Lemma sp_eqbb_refl : forall l, sp_eqbb l l = true.
Proof. induction l as [|b l IH]; [reflexivity|]. cbn. rewrite sp_eqb_refl, IH. reflexivity. Qed.

(* model ending -> the oracle's vocabulary (the same map as in ocaml/c15_driver.ml) *)
Definition rd_of (e : ending) : rd_end :=
  match e with
  | EWait => RWait
  | EPeerReset => RPeerReset
  | EIllegal _ | EBadVersion _ | EBadLen _ => RError
  | EOob => RMemory
  | EOther => ROther
  end.

(* the oracle applied to a model run *)
Definition model_ok (p : params) (chunks : sock) (closed : bool) : bool :=
  let (d, e) := run p chunks closed in
  c15_ok (p_begin p) (len_limit p) (max_width p) (concat chunks) closed d (rd_of e).

Lemma valid_streams_ok_lemma : forall p msgs chunks closed,
  wf_params p = true -> Forall (fun m => frame_ok p m = true) msgs ->
  concat chunks = concat msgs ->
  model_ok p chunks closed = true.
Proof.
  intros p msgs chunks closed W Hv C. unfold model_ok.
  rewrite (frames_exact_lemma p msgs chunks closed W Hv C).
  unfold c15_ok. rewrite C.
  rewrite (spec_parse_valid p msgs _ Hv) by lia.
  rewrite sp_eqbb_refl. destruct closed; reflexivity.
Qed.

(* ========================================================================================== *)
(* D. corrupted preambles                                                                     *)

Definition err_or_eos (o : outcome) : bool :=
  match o with OEos | OIllegal _ | OBadVersion _ | OBadLen _ => true | _ => false end.

Lemma same_stream_single : forall s, same_stream s [concat s].
Proof. intros s. unfold same_stream. cbn. rewrite app_nil_r. reflexivity. Qed.

(* what the reader does after a sequence of valid frames is what it does on the rest alone *)
Lemma run_after_valid : forall p msgs chunks rest closed,
  wf_params p = true -> Forall (fun m => frame_ok p m = true) msgs ->
  concat chunks = concat msgs ++ rest ->
  err_or_eos (fst (read_msg p [rest])) = true ->
  run p chunks closed = (msgs, ending_of (fst (read_msg p [rest])) closed).
Proof.
  intros p msgs chunks rest closed W Hv C He. unfold run, total.
  pose proof (concat_length_ge p msgs Hv) as L.
  assert (Lf : length msgs <= length (concat chunks)) by (rewrite C, app_length; lia).
  destruct (read_all_valid p msgs chunks rest (S (length (concat chunks))) W Hv C ltac:(lia)) as [s' [Cs R]].
  rewrite R.
  replace (S (length (concat chunks)) - length msgs) with (S (length (concat chunks) - length msgs)) by lia.
  cbn [read_all].
  assert (SS : same_stream s' [rest]).
  { unfold same_stream. cbn. rewrite app_nil_r. exact Cs. }
  destruct (read_msg_same p s' [rest] SS) as [E _].
  destruct (read_msg p s') as [o s'']. cbn [fst] in E. subst o.
  destruct (fst (read_msg p [rest])); try discriminate; rewrite app_nil_r; reflexivity.
Qed.

Lemma spec_parse_after_valid : forall p msgs rest fuel,
  Forall (fun m => frame_ok p m = true) msgs -> length (concat msgs) < fuel -> rest <> [] ->
  spec_frame (p_begin p) (len_limit p) (max_width p) rest = FBad ->
  spec_parse fuel (p_begin p) (len_limit p) (max_width p) (concat msgs ++ rest) = (msgs, TBad).
Proof.
  intros p msgs. induction msgs as [|m msgs IH]; intros rest fuel Hv L Hne Hb.
  - cbn [concat app]. destruct rest as [|x xs]; [congruence|].
    destruct fuel as [|f]; [lia|]. cbn [spec_parse]. rewrite Hb. reflexivity.
  - inversion Hv as [|? ? Hm Hv']; subst.
    destruct (frame_ok_shape p m Hm) as (ds & body & trl & Sh & _).
    pose proof (shape_nonempty _ _ _ _ _ Sh) as Ln.
    cbn [concat] in *. rewrite app_length in L. rewrite <- app_assoc.
    destruct (m ++ concat msgs ++ rest) as [|x xs] eqn:Ex.
    { apply (f_equal (@length N)) in Ex. rewrite app_length in Ex. cbn in Ex. lia. }
    destruct fuel as [|f]; [lia|].
    cbn [spec_parse]. rewrite <- Ex. rewrite (spec_frame_app p m ds body trl _ Sh).
    rewrite IH; [reflexivity | exact Hv' | lia | exact Hne | exact Hb].
Qed.

(* a corrupted preamble after valid frames: if the reader's call on the rest ends in an error (or
   runs out of bytes), the run satisfies the oracle *)
Lemma bad_after_valid_ok : forall p msgs chunks rest closed,
  wf_params p = true -> Forall (fun m => frame_ok p m = true) msgs ->
  concat chunks = concat msgs ++ rest -> rest <> [] ->
  spec_frame (p_begin p) (len_limit p) (max_width p) rest = FBad ->
  err_or_eos (fst (read_msg p [rest])) = true ->
  run p chunks closed = (msgs, ending_of (fst (read_msg p [rest])) closed) /\
  model_ok p chunks closed = true.
Proof.
  intros p msgs chunks rest closed W Hv C Hne Hb He.
  pose proof (run_after_valid p msgs chunks rest closed W Hv C He) as R.
  split; [exact R|].
  unfold model_ok. rewrite R. unfold c15_ok. rewrite C.
  rewrite (spec_parse_after_valid p msgs rest _ Hv) by (try assumption; rewrite app_length; lia).
  rewrite sp_eqbb_refl.
  destruct (fst (read_msg p [rest])); try discriminate; destruct closed; reflexivity.
Qed.

(* ---- zero / oversized BodyLength ----------------------------------------------------------- *)

Lemma bad_bodylength_read : forall p s w tail,
  wf_params p = true -> concat s = header (p_begin p) ++ w ++ [SOH] ++ tail ->
  w <> [] -> Forall (fun b => isdigit b = true) w -> length w < p_valcap p ->
  ((dec w mod W32 =? 0) || (len_limit p <? dec w mod W32))%N = true ->
  fst (read_msg p s) = OBadLen (dec w mod W32)%N.
Proof.
  intros p s w tail W C Hne Hd Lw Hb.
  destruct (read_msg_preamble p s w tail W C Hne Hd Lw) as [s2 [_ E]].
  rewrite E. unfold read_body. rewrite Hb. reflexivity.
Qed.

Lemma bad_bodylength_spec : forall p w tail,
  wf_params p = true -> w <> [] -> Forall (fun b => isdigit b = true) w ->
  ((dec w mod W32 =? 0) || (len_limit p <? dec w mod W32))%N = true ->
  spec_frame (p_begin p) (len_limit p) (max_width p) (header (p_begin p) ++ w ++ [SOH] ++ tail) = FBad.
Proof.
  intros p w tail W Hne Hd Hb. unfold spec_frame. rewrite strip_app.
  destruct (take_drop_app w SOH tail Hd eq_refl) as [E1 E2].
  cbn [app]. rewrite E1, E2.
  destruct (max_width p <? length w); [reflexivity|].
  change (SOH =? sp_soh)%N with true. cbn [negb].
  destruct w as [|d w0]; [congruence|]. set (w := d :: w0) in *.
  pose proof (len_limit_eq p W) as LE.
  destruct (wf_inv p W) as (_ & _ & _ & _ & _ & _ & M32).
  assert (Wn : W32 <> 0%N) by (unfold W32; discriminate).
  pose proof (N.mod_le (dec w) W32 Wn) as Hle.
  pose proof (N.mod_upper_bound (dec w) W32 Wn) as Hub.
  destruct (dec w =? 0)%N eqn:E0; [reflexivity|].
  destruct (len_limit p <? dec w)%N eqn:E3; [reflexivity|].
  exfalso. apply N.eqb_neq in E0. apply N.ltb_ge in E3.
  assert (Sm : (dec w mod W32 = dec w)%N) by (apply N.mod_small; lia).
  rewrite Sm in Hb. apply orb_true_iff in Hb. destruct Hb as [Hb|Hb].
  - apply N.eqb_eq in Hb. lia.
  - apply N.ltb_lt in Hb. lia.
Qed.

Lemma app_nonempty_r : forall (a b : list N), b <> [] -> a ++ b <> [].
Proof. intros a b H E. apply app_eq_nil in E. tauto. Qed.

Lemma bad_bodylength_lemma : forall p msgs chunks w tail closed,
  wf_params p = true -> Forall (fun m => frame_ok p m = true) msgs ->
  concat chunks = concat msgs ++ header (p_begin p) ++ w ++ [SOH] ++ tail ->
  w <> [] -> Forall (fun b => isdigit b = true) w -> length w < p_valcap p ->
  ((dec w mod W32 =? 0) || (len_limit p <? dec w mod W32))%N = true ->
  run p chunks closed = (msgs, EBadLen (dec w mod W32)%N) /\ model_ok p chunks closed = true.
Proof.
  intros p msgs chunks w tail closed W Hv C Hne Hd Lw Hb.
  set (rest := header (p_begin p) ++ w ++ [SOH] ++ tail) in *.
  assert (R : fst (read_msg p [rest]) = OBadLen (dec w mod W32)%N).
  { apply (bad_bodylength_read p [rest] w tail W); try assumption. cbn [concat]. apply app_nil_r. }
  destruct (bad_after_valid_ok p msgs chunks rest closed W Hv C) as [R1 R2].
  - unfold rest, header. cbn. discriminate.
  - apply bad_bodylength_spec; assumption.
  - rewrite R. reflexivity.
  - rewrite R in R1. split; assumption.
Qed.

(* ---- non-numeric BodyLength: a non-digit after the first character ------------------------ *)

Lemma pre_loop_illegal : forall ds' fuel p racc offs s c R,
  concat s = ds' ++ c :: R -> Forall (fun b => isdigit b = true) ds' ->
  isdigit c = false -> nosoh c = true ->
  offs + length ds' < p_max p -> length ds' < fuel ->
  fst (pre_loop fuel p racc offs s) = PIllegal (rev racc ++ ds').
Proof.
  induction ds' as [|d ds' IH]; intros fuel p racc offs s c R C Hd Hc Hs Lo Lf.
  - destruct fuel as [|f]; [cbn [length] in Lf; lia|].
    destruct (sock_read_app s [c] R C) as [s' [E C']].
    cbn [length] in E. cbn [pre_loop]. rewrite E. rewrite Hc. unfold nosoh in Hs. rewrite Hs.
    cbn [negb andb fst]. rewrite app_nil_r. reflexivity.
  - destruct fuel as [|f]; [cbn [length] in Lf; lia|].
    inversion Hd as [|? ? Hb Hd']; subst.
    destruct (sock_read_app s [d] (ds' ++ c :: R) C) as [s' [E C']].
    cbn [length] in E. cbn [pre_loop]. rewrite E. rewrite Hb. cbn [negb andb].
    cbn [length] in Lo, Lf.
    destruct (p_max p <=? offs) eqn:E1; [apply Nat.leb_le in E1; lia|].
    pose proof (digit_nosoh d Hb) as Hn. unfold nosoh in Hn. rewrite Hn. cbn [andb].
    destruct (S offs <? p_max p) eqn:E2; [|apply Nat.ltb_ge in E2; lia].
    rewrite (IH f p (d :: racc) (S offs) s' c R C' Hd' Hc Hs ltac:(lia) ltac:(lia)).
    cbn [rev]. rewrite <- app_assoc. reflexivity.
Qed.

Lemma nonnumeric_read : forall p s c0 ds' c tail,
  wf_params p = true ->
  concat s = header (p_begin p) ++ [c0] ++ ds' ++ [c] ++ tail ->
  Forall (fun b => isdigit b = true) ds' -> isdigit c = false -> nosoh c = true ->
  length ds' < p_valcap p ->
  fst (read_msg p s) = OIllegal (cstr (header (p_begin p) ++ [c0] ++ ds')).
Proof.
  intros p s c0 ds' c tail W C Hd Hc Hs Ld.
  destruct (wf_inv p W) as (_ & _ & _ & _ & Mx & Mx8 & _).
  assert (C1 : concat s = (header (p_begin p) ++ [c0]) ++ (ds' ++ c :: tail)).
  { rewrite C. rewrite <- !app_assoc. reflexivity. }
  destruct (sock_read_app s _ _ C1) as [s1 [E1 C1']].
  assert (Lbg : length (header (p_begin p) ++ [c0]) = bg_sz p).
  { rewrite app_length, bg_header. reflexivity. }
  rewrite Lbg in E1.
  unfold read_msg. rewrite E1.
  destruct (p_max p <? bg_sz p) eqn:E0; [apply Nat.ltb_lt in E0; lia|].
  pose proof (pre_loop_illegal ds' (p_max p) p (rev (header (p_begin p) ++ [c0])) (bg_sz p) s1 c tail
                C1' Hd Hc Hs ltac:(lia) ltac:(lia)) as P.
  destruct (pre_loop (p_max p) p (rev (header (p_begin p) ++ [c0])) (bg_sz p) s1) as [r s2].
  cbn [fst] in P. subst r. cbn [fst]. rewrite rev_involutive. rewrite <- app_assoc. reflexivity.
Qed.

(* the oracle's view: "9=" followed by digits and then a byte that is neither a digit nor SOH.
   (the first character c0 of the value may be anything but SOH) *)
Lemma nonnumeric_spec : forall p c0 ds' c tail,
  nosoh c0 = true -> Forall (fun b => isdigit b = true) ds' -> isdigit c = false -> nosoh c = true ->
  spec_frame (p_begin p) (len_limit p) (max_width p) (header (p_begin p) ++ [c0] ++ ds' ++ [c] ++ tail) = FBad.
Proof.
  intros p c0 ds' c tail H0 Hd Hc Hs. unfold spec_frame. rewrite strip_app.
  destruct (isdigit c0) eqn:D0.
  - destruct (take_drop_app (c0 :: ds') c tail) as [E1 E2]; [constructor; assumption | exact Hc|].
    cbn [app] in *. rewrite E2.
    match goal with |- context [?a <? ?b] => destruct (a <? b); [reflexivity|] end.
    unfold nosoh, SOH in Hs. change sp_soh with 1%N.
    destruct (c =? 1)%N; [discriminate|]. reflexivity.
  - cbn [app take_digits drop_digits]. change (sp_digit c0) with (isdigit c0). rewrite D0.
    match goal with |- context [?a <? ?b] => destruct (a <? b); [reflexivity|] end.
    unfold nosoh, SOH in H0. change sp_soh with 1%N.
    destruct (c0 =? 1)%N; [discriminate|]. reflexivity.
Qed.

Lemma nonnumeric_lemma : forall p msgs chunks c0 ds' c tail closed,
  wf_params p = true -> Forall (fun m => frame_ok p m = true) msgs ->
  concat chunks = concat msgs ++ header (p_begin p) ++ [c0] ++ ds' ++ [c] ++ tail ->
  nosoh c0 = true -> Forall (fun b => isdigit b = true) ds' -> isdigit c = false -> nosoh c = true ->
  length ds' < p_valcap p ->
  run p chunks closed = (msgs, EIllegal (cstr (header (p_begin p) ++ [c0] ++ ds'))) /\
  model_ok p chunks closed = true.
Proof.
  intros p msgs chunks c0 ds' c tail closed W Hv C H0 Hd Hc Hs Ld.
  set (rest := header (p_begin p) ++ [c0] ++ ds' ++ [c] ++ tail) in *.
  assert (R : fst (read_msg p [rest]) = OIllegal (cstr (header (p_begin p) ++ [c0] ++ ds'))).
  { apply (nonnumeric_read p [rest] c0 ds' c tail W); try assumption. cbn [concat]. apply app_nil_r. }
  destruct (bad_after_valid_ok p msgs chunks rest closed W Hv C) as [R1 R2].
  - unfold rest, header. cbn. discriminate.
  - apply nonnumeric_spec; assumption.
  - rewrite R. reflexivity.
  - rewrite R in R1. cbn [ending_of] in R1.
    assert (CC : forall l, cstr (cstr l) = cstr l).
    { induction l as [|b l IH]; [reflexivity|]. cbn [cstr]. destruct (b =? 0)%N eqn:E; [reflexivity|].
      cbn [cstr]. rewrite E, IH. reflexivity. }
    rewrite CC in R1. split; assumption.
Qed.

(* ---- wrong BeginString (first field complete within the fixed-size first read) ------------- *)

(* whatever follows, the preamble loop only appends to msg_buf, stays inside it and terminates *)
Lemma pre_loop_shape : forall fuel p racc offs s,
  offs < p_max p -> p_max p - offs <= fuel ->
  match fst (pre_loop fuel p racc offs s) with
  | PDone to => exists x, to = rev racc ++ x
  | PEos | PIllegal _ => True
  | POob | PFuel => False
  end.
Proof.
  induction fuel as [|f IH]; intros p racc offs s Lo Lf; [lia|].
  cbn [pre_loop].
  destruct (sock_read 1 s) as [[[|bt [|b2 l]]|] s']; cbn [fst]; try exact I.
  destruct (negb (isdigit bt) && negb (bt =? SOH)%N); cbn [fst]; [exact I|].
  destruct (p_max p <=? offs) eqn:E1; [apply Nat.leb_le in E1; lia|].
  destruct (negb (bt =? SOH)%N && (S offs <? p_max p)) eqn:E2.
  - apply andb_true_iff in E2. destruct E2 as [_ E2]. apply Nat.ltb_lt in E2.
    specialize (IH p (bt :: racc) (S offs) s' E2 ltac:(lia)).
    destruct (fst (pre_loop f p (bt :: racc) (S offs) s')); try exact IH.
    destruct IH as [x Hx]. exists (bt :: x). rewrite Hx. cbn [rev]. rewrite <- app_assoc. reflexivity.
  - cbn [fst]. exists [bt]. reflexivity.
Qed.

Lemma first_soh_unique : forall a b x y,
  Forall (fun c => nosoh c = true) a -> Forall (fun c => nosoh c = true) b ->
  a ++ SOH :: x = b ++ SOH :: y -> a = b.
Proof.
  induction a as [|c a IH]; intros b x y Ha Hb E.
  - destruct b as [|d b]; [reflexivity|]. cbn in E. injection E as E _. subst d.
    inversion Hb as [|? ? Hd _]. discriminate Hd.
  - destruct b as [|d b].
    + cbn in E. injection E as E _. subst c. inversion Ha as [|? ? Hc _]. discriminate Hc.
    + cbn in E. injection E as -> E. inversion Ha; inversion Hb; subst. f_equal. eapply IH; eassumption.
Qed.

Lemma is_prefix_app : forall s l, is_prefix s l = true -> exists r, l = s ++ r.
Proof.
  induction s as [|x s IH]; intros l H.
  - exists l. reflexivity.
  - destruct l as [|y l]; [discriminate|]. cbn in H. apply andb_true_iff in H. destruct H as [H1 H2].
    apply N.eqb_eq in H1. subst y. destruct (IH l H2) as [r ->]. exists r. reflexivity.
Qed.

Lemma bad_beginstring_spec : forall p v tail,
  wf_params p = true -> Forall (fun c => nosoh c = true) v -> v <> p_begin p ->
  spec_frame (p_begin p) (len_limit p) (max_width p) ([56; 61]%N ++ v ++ [SOH] ++ tail) = FBad.
Proof.
  intros p v tail W Hv Hne. destruct (wf_inv p W) as (Bs & _).
  unfold spec_frame.
  destruct (strip (header (p_begin p)) ([56; 61]%N ++ v ++ [SOH] ++ tail)) as [r|] eqn:St.
  - exfalso. apply strip_some in St. unfold header in St. cbn [app] in St.
    injection St as St. apply Hne. rewrite <- app_assoc in St. cbn [app] in St.
    eapply (first_soh_unique v (p_begin p)); [exact Hv | exact Bs | exact St].
  - destruct (is_prefix ([56; 61]%N ++ v ++ [SOH] ++ tail) (header (p_begin p))) eqn:Pf; [|reflexivity].
    exfalso. apply is_prefix_app in Pf. destruct Pf as [r Pf]. unfold header in Pf.
    rewrite <- !app_assoc in Pf. cbn [app] in Pf. injection Pf as Pf. apply Hne.
    symmetry. eapply (first_soh_unique (p_begin p) v); [exact Bs | exact Hv | exact Pf].
Qed.

Definition bad_version_outcome (v : list N) (o : outcome) : Prop :=
  match o with
  | OEos | OIllegal _ => True
  | OBadVersion t => t = cstr v
  | _ => False
  end.

Lemma bad_beginstring_read : forall p s v tail,
  wf_params p = true -> concat s = [56; 61]%N ++ v ++ [SOH] ++ tail ->
  Forall (fun c => nosoh c = true) v -> length v + 3 <= bg_sz p -> length v < p_valcap p ->
  list_eqb (cstr v) (p_begin p) = false ->
  bad_version_outcome v (fst (read_msg p s)).
Proof.
  intros p s v tail W C Hv Lv Lc Hne.
  destruct (wf_inv p W) as (_ & _ & Tc & _ & Mx & Mx8 & _).
  unfold read_msg.
  destruct (le_lt_dec (bg_sz p) (length (concat s))) as [L|L].
  2:{ rewrite (sock_read_short s _ L). exact I. }
  destruct (sockread_chunking_lemma s (bg_sz p) L) as [s1 [E1 C1]]. rewrite E1.
  destruct (p_max p <? bg_sz p) eqn:E0; [apply Nat.ltb_lt in E0; lia|].
  set (a := [56; 61]%N ++ v ++ [SOH]).
  assert (La : length a = length v + 3) by (unfold a; rewrite !app_length; cbn [length]; lia).
  assert (Pre : firstn (bg_sz p) (concat s) = a ++ firstn (bg_sz p - length a) tail).
  { rewrite C. replace ([56; 61]%N ++ v ++ [SOH] ++ tail) with (a ++ tail)
      by (unfold a; rewrite <- !app_assoc; reflexivity).
    rewrite firstn_app. rewrite firstn_all2 by lia. reflexivity. }
  rewrite Pre. set (x0 := firstn (bg_sz p - length a) tail).
  pose proof (pre_loop_shape (p_max p) p (rev (a ++ x0)) (bg_sz p) s1 ltac:(lia) ltac:(lia)) as Sh.
  destruct (pre_loop (p_max p) p (rev (a ++ x0)) (bg_sz p) s1) as [r s2]. cbn [fst] in Sh.
  destruct r as [to| |buf| |]; cbn [fst]; try exact I; try contradiction.
  destruct Sh as [x Hx]. rewrite rev_involutive in Hx.
  unfold read_fields.
  assert (E : to = [56%N] ++ EQS :: v ++ SOH :: (x0 ++ x)).
  { rewrite Hx. unfold a, EQS, SOH. rewrite <- !app_assoc. reflexivity. }
  rewrite E.
  rewrite ee_field; [|repeat constructor|cbn [length]; lia|exact Hv|exact Lc].
  cbn [length]. replace (1 + 1 + length v + 1 =? 0) with false by (symmetry; apply Nat.eqb_neq; lia).
  cbn [tag_exact]. rewrite N.eqb_refl. cbn [negb]. rewrite Hne. cbn [negb fst]. reflexivity.
Qed.

Lemma bad_beginstring_lemma : forall p msgs chunks v tail closed,
  wf_params p = true -> Forall (fun m => frame_ok p m = true) msgs ->
  concat chunks = concat msgs ++ [56; 61]%N ++ v ++ [SOH] ++ tail ->
  Forall (fun c => nosoh c = true) v -> length v + 3 <= bg_sz p -> length v < p_valcap p ->
  list_eqb (cstr v) (p_begin p) = false ->
  (exists e, run p chunks closed = (msgs, e) /\
             match e with
             | EWait | EPeerReset | EIllegal _ => True
             | EBadVersion t => t = cstr v
             | _ => False
             end) /\
  model_ok p chunks closed = true.
Proof.
  intros p msgs chunks v tail closed W Hv C Hs Lv Lc Hne.
  set (rest := [56; 61]%N ++ v ++ [SOH] ++ tail) in *.
  pose proof (bad_beginstring_read p [rest] v tail W ltac:(cbn [concat]; apply app_nil_r) Hs Lv Lc Hne) as R.
  assert (Hvb : v <> p_begin p).
  { intros ->. destruct (wf_inv p W) as (_ & Bn & _). rewrite (cstr_nonul _ Bn), list_eqb_refl in Hne. discriminate. }
  destruct (bad_after_valid_ok p msgs chunks rest closed W Hv C) as [R1 R2].
  - unfold rest. cbn. discriminate.
  - apply bad_beginstring_spec; assumption.
  - destruct (fst (read_msg p [rest])); cbn in R; try contradiction; reflexivity.
  - split; [|exact R2].
    exists (ending_of (fst (read_msg p [rest])) closed). split; [exact R1|].
    destruct (fst (read_msg p [rest])); cbn in R |- *; try contradiction; try exact I.
    + destruct closed; exact I.
    + exact R.
Qed.

(* ========================================================================================== *)
(* D'. the fuel of the model's loops is always enough (for every stream and configuration)       *)

Lemma sock_read_total : forall n s,
  match fst (sock_read n s) with
  | Some bs => length bs = n /\ total s = n + total (snd (sock_read n s))
  | None => total (snd (sock_read n s)) = 0
  end.
Proof.
  intros n s. unfold total.
  destruct (le_lt_dec n (length (concat s))) as [L|L].
  - destruct (sockread_chunking_lemma s n L) as [r [E C]]. rewrite E. cbn [fst snd].
    rewrite C, firstn_length_le, skipn_length by exact L. lia.
  - rewrite (sock_read_short s n L). reflexivity.
Qed.

Lemma sock_read_total_le : forall n s, total (snd (sock_read n s)) <= total s.
Proof.
  intros n s. pose proof (sock_read_total n s) as H.
  destruct (fst (sock_read n s)); lia.
Qed.

Lemma pre_loop_total : forall fuel p racc offs s,
  total (snd (pre_loop fuel p racc offs s)) <= total s.
Proof.
  induction fuel as [|f IH]; intros p racc offs s; cbn [pre_loop]; [cbn [snd]; lia|].
  pose proof (sock_read_total_le 1 s) as T.
  destruct (sock_read 1 s) as [[[|bt [|b2 l]]|] s']; cbn [snd] in *; try exact T.
  destruct (negb (isdigit bt) && negb (bt =? SOH)%N); cbn [snd]; [exact T|].
  destruct (p_max p <=? offs); cbn [snd]; [exact T|].
  destruct (negb (bt =? SOH)%N && (S offs <? p_max p)); cbn [snd]; [|exact T].
  specialize (IH p (bt :: racc) (S offs) s'). lia.
Qed.

Lemma pre_loop_no_fuel : forall fuel p racc offs s,
  1 <= fuel -> p_max p - offs <= fuel -> fst (pre_loop fuel p racc offs s) <> PFuel.
Proof.
  induction fuel as [|f IH]; intros p racc offs s L1 L2; [lia|].
  cbn [pre_loop].
  destruct (sock_read 1 s) as [[[|bt [|b2 l]]|] s']; cbn [fst]; try discriminate.
  destruct (negb (isdigit bt) && negb (bt =? SOH)%N); cbn [fst]; [discriminate|].
  destruct (p_max p <=? offs); cbn [fst]; [discriminate|].
  destruct (negb (bt =? SOH)%N && (S offs <? p_max p)) eqn:E; cbn [fst]; [|discriminate].
  apply andb_true_iff in E. destruct E as [_ E]. apply Nat.ltb_lt in E.
  apply IH; lia.
Qed.

Lemma read_body_total : forall p to mlen s,
  total (snd (read_body p to mlen s)) <= total s /\ fst (read_body p to mlen s) <> OFuel.
Proof.
  intros p to mlen s. unfold read_body.
  destruct ((mlen =? 0)%N || (len_limit p <? mlen)%N); [cbn [fst snd]; split; [lia|discriminate]|].
  destruct (p_max p <? N.to_nat mlen + chksum_sz); [cbn [fst snd]; split; [lia|discriminate]|].
  pose proof (sock_read_total_le (N.to_nat mlen) s) as T1.
  destruct (sock_read (N.to_nat mlen) s) as [[body|] s3]; cbn [snd] in T1; [|cbn [fst snd]; split; [lia|discriminate]].
  pose proof (sock_read_total_le chksum_sz s3) as T2.
  destruct (sock_read chksum_sz s3) as [[chk|] s4]; cbn [fst snd] in *; split; try lia; discriminate.
Qed.

Lemma read_fields_total : forall p to s,
  total (snd (read_fields p to s)) <= total s /\ fst (read_fields p to s) <> OFuel.
Proof.
  intros p to s. unfold read_fields.
  destruct (extract_element p to) as [st|r1 tag1 val1]; [cbn [fst snd]; split; [lia|discriminate]|].
  destruct (r1 =? 0); [cbn [fst snd]; split; [lia|discriminate]|].
  destruct (negb (tag_exact tag1 56%N)); [cbn [fst snd]; split; [lia|discriminate]|].
  destruct (negb (list_eqb (cstr val1) (p_begin p))); [cbn [fst snd]; split; [lia|discriminate]|].
  destruct (extract_element p (skipn r1 to)) as [st|r2 tag2 val2]; [cbn [fst snd]; split; [lia|discriminate]|].
  destruct (r2 =? 0); [cbn [fst snd]; split; [lia|discriminate]|].
  destruct (negb (tag_exact tag2 57%N)); [cbn [fst snd]; split; [lia|discriminate]|].
  destruct (first_not_digit val2); [cbn [fst snd]; split; [lia|discriminate]|].
  apply read_body_total.
Qed.

Lemma bg_pos : forall p, 6 <= bg_sz p.
Proof. intros p. unfold bg_sz. lia. Qed.

(* one call of read never runs out of fuel, and a call that hands a message on has consumed bytes *)
Lemma read_msg_total : forall p s,
  fst (read_msg p s) <> OFuel /\
  (forall m, fst (read_msg p s) = OMsg m -> total (snd (read_msg p s)) < total s).
Proof.
  intros p s. unfold read_msg. pose proof (bg_pos p) as B.
  pose proof (sock_read_total (bg_sz p) s) as T.
  destruct (sock_read (bg_sz p) s) as [[pre|] s1]; cbn [fst snd] in T; [|cbn [fst]; split; [discriminate|intros; discriminate]].
  destruct T as [_ T].
  destruct (p_max p <? bg_sz p) eqn:E0; [cbn [fst]; split; [discriminate|intros; discriminate]|].
  apply Nat.ltb_ge in E0.
  pose proof (pre_loop_total (p_max p) p (rev pre) (bg_sz p) s1) as T2.
  pose proof (pre_loop_no_fuel (p_max p) p (rev pre) (bg_sz p) s1 ltac:(lia) ltac:(lia)) as NF.
  destruct (pre_loop (p_max p) p (rev pre) (bg_sz p) s1) as [r s2]. cbn [fst snd] in T2, NF.
  destruct r as [to| |buf| |]; cbn [fst snd]; try (split; [discriminate|intros; discriminate]).
  - destruct (read_fields_total p to s2) as [T3 NF3]. split; [exact NF3|]. intros m _. lia.
  - congruence.
Qed.

Lemma read_all_never_msg : forall fuel p s m, snd (read_all fuel p s) <> OMsg m.
Proof.
  induction fuel as [|f IH]; intros p s m; cbn [read_all]; [cbn; discriminate|].
  destruct (read_msg p s) as [o s'] eqn:E.
  destruct o; cbn [snd]; try discriminate.
  specialize (IH p s' m). destruct (read_all f p s'). cbn [snd] in *. exact IH.
Qed.

Lemma read_all_fuel_enough : forall fuel p s, total s < fuel -> snd (read_all fuel p s) <> OFuel.
Proof.
  induction fuel as [|f IH]; intros p s L; [lia|].
  cbn [read_all].
  destruct (read_msg_total p s) as [NF Dec].
  destruct (read_msg p s) as [o s']. cbn [fst snd] in NF, Dec.
  destruct o; cbn [snd]; try discriminate; try congruence.
  specialize (Dec m eq_refl). specialize (IH p s' ltac:(lia)).
  destruct (read_all f p s'). cbn [snd] in *. exact IH.
Qed.

Lemma fuel_enough_lemma : forall p chunks closed, snd (run p chunks closed) <> EOther.
Proof.
  intros p chunks closed. unfold run.
  pose proof (read_all_fuel_enough (S (total chunks)) p chunks ltac:(lia)) as NF.
  pose proof (read_all_never_msg (S (total chunks)) p chunks) as NM.
  destruct (read_all (S (total chunks)) p chunks) as [d o]. cbn [snd] in *.
  destruct o; cbn [ending_of]; try discriminate; try congruence;
    try (exfalso; eapply NM; reflexivity); destruct closed; discriminate.
Qed.

(* ========================================================================================== *)
(* D2. no out-of-bounds write, for every stream (extract_element as repaired by d48d8ce)       *)

(* the only assumptions: the buffers exist and the constants do not wrap *)
Definition safe_params (p : params) : bool :=
  (1 <=? p_tagcap p) && (1 <=? p_valcap p) && (bg_sz p + 7 <=? p_max p) && (N.of_nat (p_max p) <? W64)%N.

Lemma safe_inv : forall p, safe_params p = true ->
  1 <= p_tagcap p /\ 1 <= p_valcap p /\ bg_sz p + 7 <= p_max p /\ (N.of_nat (p_max p) < W64)%N.
Proof.
  intros p H. unfold safe_params in H.
  repeat (apply andb_true_iff in H; destruct H as [H ?]).
  repeat split; try (apply Nat.leb_le; assumption). apply N.ltb_lt; assumption.
Qed.

Lemma wf_safe : forall p, wf_params p = true -> safe_params p = true.
Proof.
  intros p W. destruct (wf_inv p W) as (_ & _ & Tc & Bl & _ & Mx8 & M32).
  unfold safe_params. repeat (apply andb_true_iff; split).
  - apply Nat.leb_le; lia.
  - apply Nat.leb_le; lia.
  - apply Nat.leb_le; lia.
  - apply N.ltb_lt. unfold W32, W64 in *. lia.
Qed.

Definition ee_ret (r : ee_res) : Prop := exists c t v, r = EERet c t v.

Lemma ee_term_ret : forall p ret rtag rval,
  length rtag < p_tagcap p -> length rval < p_valcap p -> ee_ret (ee_term p ret rtag rval).
Proof.
  intros p ret rtag rval Lt Lv. unfold ee_term.
  destruct (p_tagcap p <=? length rtag) eqn:E1; [apply Nat.leb_le in E1; lia|].
  destruct (p_valcap p <=? length rval) eqn:E2; [apply Nat.leb_le in E2; lia|].
  do 3 eexists. reflexivity.
Qed.

Lemma ee_val_no_oob : forall from p ii rtag rval,
  length rtag < p_tagcap p -> length rval < p_valcap p -> ee_ret (ee_val p from ii rtag rval).
Proof.
  induction from as [|b r IH]; intros p ii rtag rval Lt Lv; cbn [ee_val].
  - apply ee_term_ret; assumption.
  - destruct (b =? SOH)%N; [apply ee_term_ret; assumption|].
    destruct (length rval =? p_valcap p - 1) eqn:E0; [apply ee_term_ret; assumption|].
    apply Nat.eqb_neq in E0.
    destruct (p_valcap p <=? length rval) eqn:E; [apply Nat.leb_le in E; lia|].
    apply IH; [assumption | cbn [length]; lia].
Qed.

Lemma ee_tag_no_oob : forall from p ii rtag,
  length rtag < p_tagcap p -> 1 <= p_valcap p -> ee_ret (ee_tag p from ii rtag).
Proof.
  induction from as [|b r IH]; intros p ii rtag Lt Lv; cbn [ee_tag].
  - apply ee_term_ret; [assumption | cbn [length]; lia].
  - destruct (isdigit b).
    + destruct (length rtag =? p_tagcap p - 1) eqn:E0; [apply ee_term_ret; [assumption | cbn [length]; lia]|].
      apply Nat.eqb_neq in E0.
      destruct (p_tagcap p <=? length rtag) eqn:E; [apply Nat.leb_le in E; lia|].
      apply IH; [cbn [length]; lia | assumption].
    + destruct (b =? EQS)%N; [apply ee_val_no_oob; [assumption | cbn [length]; lia]|].
      apply ee_term_ret; [assumption | cbn [length]; lia].
Qed.

Lemma extract_element_no_oob : forall p from, 1 <= p_tagcap p -> 1 <= p_valcap p ->
  ee_ret (extract_element p from).
Proof. intros p from Lt Lv. unfold extract_element. apply ee_tag_no_oob; [cbn [length]; lia | assumption]. Qed.

Lemma len_limit_safe : forall p, safe_params p = true ->
  len_limit p = N.of_nat (p_max p - bg_sz p - chksum_sz).
Proof.
  intros p W. destruct (safe_inv p W) as (_ & _ & Mx & M64).
  unfold len_limit, chksum_sz in *.
  replace (N.of_nat (p_max p) + W64 - N.of_nat (bg_sz p) - N.of_nat 7)%N
    with (N.of_nat (p_max p - bg_sz p - 7) + 1 * W64)%N by lia.
  rewrite N.mod_add by (unfold W64; discriminate).
  apply N.mod_small. lia.
Qed.

Definition not_oob (o : outcome) : Prop := forall st, o <> OOob st.

Lemma read_body_no_oob : forall p to mlen s, safe_params p = true -> not_oob (fst (read_body p to mlen s)).
Proof.
  intros p to mlen s W st. pose proof (len_limit_safe p W) as LE.
  destruct (safe_inv p W) as (_ & _ & Mx & _).
  unfold read_body.
  destruct ((mlen =? 0)%N || (len_limit p <? mlen)%N) eqn:E; [cbn [fst]; discriminate|].
  apply orb_false_iff in E. destruct E as [_ E]. apply N.ltb_ge in E. rewrite LE in E.
  destruct (p_max p <? N.to_nat mlen + chksum_sz) eqn:E2.
  { apply Nat.ltb_lt in E2. unfold chksum_sz in *. lia. }
  destruct (sock_read (N.to_nat mlen) s) as [[body|] s3]; cbn [fst]; [|discriminate].
  destruct (sock_read chksum_sz s3) as [[chk|] s4]; cbn [fst]; discriminate.
Qed.

Lemma read_fields_no_oob : forall p to s, safe_params p = true -> not_oob (fst (read_fields p to s)).
Proof.
  intros p to s W st. destruct (safe_inv p W) as (Lt & Lv & _ & _).
  unfold read_fields.
  destruct (extract_element_no_oob p to Lt Lv) as (r1 & tag1 & val1 & E1). rewrite E1.
  destruct (r1 =? 0); [cbn [fst]; discriminate|].
  destruct (negb (tag_exact tag1 56%N)); [cbn [fst]; discriminate|].
  destruct (negb (list_eqb (cstr val1) (p_begin p))); [cbn [fst]; discriminate|].
  destruct (extract_element_no_oob p (skipn r1 to) Lt Lv) as (r2 & tag2 & val2 & E2). rewrite E2.
  destruct (r2 =? 0); [cbn [fst]; discriminate|].
  destruct (negb (tag_exact tag2 57%N)); [cbn [fst]; discriminate|].
  destruct (first_not_digit val2); [cbn [fst]; discriminate|].
  apply read_body_no_oob. exact W.
Qed.

Lemma read_msg_no_oob : forall p s, safe_params p = true -> not_oob (fst (read_msg p s)).
Proof.
  intros p s W st. destruct (safe_inv p W) as (_ & _ & Mx & _).
  unfold read_msg.
  destruct (sock_read (bg_sz p) s) as [[pre|] s1]; cbn [fst]; [|discriminate].
  destruct (p_max p <? bg_sz p) eqn:E0; [apply Nat.ltb_lt in E0; lia|].
  pose proof (pre_loop_shape (p_max p) p (rev pre) (bg_sz p) s1 ltac:(lia) ltac:(lia)) as Sh.
  destruct (pre_loop (p_max p) p (rev pre) (bg_sz p) s1) as [r s2]. cbn [fst] in Sh.
  destruct r as [to| |buf| |]; cbn [fst]; try discriminate; try contradiction.
  apply read_fields_no_oob. exact W.
Qed.

Lemma read_all_no_oob : forall fuel p s, safe_params p = true -> not_oob (snd (read_all fuel p s)).
Proof.
  induction fuel as [|f IH]; intros p s W st; cbn [read_all]; [cbn [snd]; discriminate|].
  pose proof (read_msg_no_oob p s W) as NO.
  destruct (read_msg p s) as [o s']. cbn [fst] in NO.
  destruct o; cbn [snd]; try discriminate.
  - specialize (IH p s' W st). destruct (read_all f p s'). cbn [snd] in *. exact IH.
  - apply NO.
Qed.

Lemma no_oob_lemma : forall p chunks closed, safe_params p = true -> snd (run p chunks closed) <> EOob.
Proof.
  intros p chunks closed W. unfold run.
  pose proof (read_all_no_oob (S (total chunks)) p chunks W) as NO.
  destruct (read_all (S (total chunks)) p chunks) as [d o]. cbn [snd] in *.
  destruct o; cbn [ending_of]; try discriminate.
  - destruct closed; discriminate.
  - exfalso. eapply NO. reflexivity.
Qed.

(* ========================================================================================== *)
(* D3. over-long tags and values in the preamble: IllegalMessage, nothing handed on            *)

Lemma sock_read_some : forall n s bs s', sock_read n s = (Some bs, s') -> concat s = bs ++ concat s'.
Proof.
  intros n s bs s' H.
  destruct (le_lt_dec n (length (concat s))) as [L|L].
  - destruct (sockread_chunking_lemma s n L) as [r [E C]]. rewrite E in H. injection H as <- <-.
    rewrite C. symmetry. apply firstn_skipn.
  - rewrite (sock_read_short s n L) in H. discriminate.
Qed.

(* when the preamble loop completes: what it appended is a run of digits and one last byte taken
   from the stream; it stopped at SOH or because msg_buf is full *)
Lemma pre_loop_done_inv : forall fuel p racc offs s to s',
  pre_loop fuel p racc offs s = (PDone to, s') -> offs < p_max p ->
  exists y l, to = rev racc ++ y ++ [l] /\ concat s = y ++ l :: concat s' /\
              Forall (fun b => isdigit b = true) y /\ (l = SOH \/ offs + length y + 1 = p_max p).
Proof.
  induction fuel as [|f IH]; intros p racc offs s to s' H Lo; [discriminate|].
  cbn [pre_loop] in H.
  destruct (sock_read 1 s) as [r s1] eqn:R.
  destruct r as [[|bt [|b2 l0]]|]; try discriminate.
  apply sock_read_some in R. cbn [app] in R.
  destruct (negb (isdigit bt) && negb (bt =? SOH)%N) eqn:E1; [discriminate|].
  destruct (p_max p <=? offs) eqn:E2; [discriminate|].
  destruct (negb (bt =? SOH)%N && (S offs <? p_max p)) eqn:E3.
  - apply andb_true_iff in E3. destruct E3 as [E3 E4]. apply Nat.ltb_lt in E4.
    rewrite E3 in E1. rewrite andb_true_r in E1. apply negb_false_iff in E1.
    destruct (IH p (bt :: racc) (S offs) s1 to s' H E4) as (y & l & Et & Ec & Hy & Hl).
    exists (bt :: y), l. split; [|split; [|split]].
    + rewrite Et. cbn [rev]. rewrite <- !app_assoc. reflexivity.
    + rewrite R, Ec. reflexivity.
    + constructor; assumption.
    + cbn [length]. destruct Hl as [Hl|Hl]; [left; exact Hl | right; lia].
  - injection H as <- <-. exists [], bt. split; [reflexivity|]. split; [exact R|]. split; [constructor|].
    + apply andb_false_iff in E3. destruct E3 as [E3|E3].
      * left. apply negb_false_iff in E3. apply N.eqb_eq in E3. exact E3.
      * right. apply Nat.ltb_ge in E3. cbn [length]. lia.
Qed.

(* one call of read: out of bytes, IllegalMessage from the loop, or the two extract_element calls on a
   prefix [to] of the stream that extends the first _bg_sz bytes by digits and one last byte *)
Lemma read_msg_cases : forall p s, safe_params p = true ->
  fst (read_msg p s) = OEos \/ (exists t, fst (read_msg p s) = OIllegal t) \/
  exists to s2 y l, fst (read_msg p s) = fst (read_fields p to s2) /\
    concat s = to ++ concat s2 /\ to = firstn (bg_sz p) (concat s) ++ y ++ [l] /\
    bg_sz p <= length (concat s) /\
    Forall (fun b => isdigit b = true) y /\ (l = SOH \/ length to = p_max p).
Proof.
  intros p s W. destruct (safe_inv p W) as (_ & _ & Mx & _).
  unfold read_msg.
  destruct (le_lt_dec (bg_sz p) (length (concat s))) as [L|L].
  2:{ rewrite (sock_read_short s _ L). left. reflexivity. }
  destruct (sockread_chunking_lemma s (bg_sz p) L) as [s1 [E1 C1]]. rewrite E1.
  destruct (p_max p <? bg_sz p) eqn:E0; [apply Nat.ltb_lt in E0; lia|].
  pose proof (pre_loop_shape (p_max p) p (rev (firstn (bg_sz p) (concat s))) (bg_sz p) s1 ltac:(lia) ltac:(lia)) as Sh.
  destruct (pre_loop (p_max p) p (rev (firstn (bg_sz p) (concat s))) (bg_sz p) s1) as [r s2] eqn:P.
  cbn [fst] in Sh.
  destruct r as [to| |buf| |]; cbn [fst]; try contradiction.
  - right. right.
    destruct (pre_loop_done_inv _ _ _ _ _ _ _ P ltac:(lia)) as (y & l & Et & Ec & Hy & Hl).
    rewrite rev_involutive in Et.
    exists to, s2, y, l. repeat split; try assumption.
    + rewrite <- (firstn_skipn (bg_sz p) (concat s)) at 1. rewrite <- C1, Ec, Et.
      rewrite <- !app_assoc. reflexivity.
    + destruct Hl as [Hl|Hl]; [left; exact Hl|right].
      rewrite Et, !app_length, firstn_length_le by exact L. cbn [length]. lia.
  - left. reflexivity.
  - right. left. eexists. reflexivity.
Qed.

Lemma Forall_app_l : forall (P : N -> Prop) a b, Forall P (a ++ b) -> Forall P a.
Proof. intros P a b H. apply Forall_app in H. tauto. Qed.

Lemma Forall_skipn' : forall (P : N -> Prop) n l, Forall P l -> Forall P (skipn n l).
Proof.
  intros P n. induction n as [|n IH]; intros l H; [exact H|].
  destruct l as [|x l]; [constructor|]. inversion H; subst. cbn [skipn]. apply IH. assumption.
Qed.

(* if the stream starts with Z (at least _bg_sz bytes, fitting msg_buf) and Z has no SOH from
   offset _bg_sz on, then the loop cannot stop inside Z: [to] extends Z *)
Lemma to_covers : forall p (S0 Z tail to rest y : list N) l,
  S0 = Z ++ tail -> S0 = to ++ rest -> to = firstn (bg_sz p) S0 ++ y ++ [l] ->
  bg_sz p <= length Z -> length Z <= p_max p ->
  Forall (fun b => nosoh b = true) (skipn (bg_sz p) Z) ->
  (l = SOH \/ length to = p_max p) ->
  exists more, to = Z ++ more.
Proof.
  intros p S0 Z tail to rest y l HZ Hto Et Lb Lm Hns Hl.
  destruct (le_lt_dec (length Z) (length to)) as [L|L].
  - assert (E : Z ++ tail = to ++ rest) by (rewrite <- HZ; exact Hto).
    destruct (app_eq_split2 Z tail to rest E L) as [a2 [E1 _]]. exists a2. exact E1.
  - exfalso. destruct Hl as [Hl|Hl]; [|lia].
    assert (E : to ++ rest = Z ++ tail) by (rewrite <- HZ; symmetry; exact Hto).
    destruct (app_eq_split2 to rest Z tail E ltac:(lia)) as [a2 [E1 _]].
    assert (Lf : length (firstn (bg_sz p) S0) = bg_sz p).
    { apply firstn_length_le. rewrite HZ, app_length. lia. }
    rewrite E1, Et in Hns. rewrite <- !app_assoc in Hns.
    rewrite <- Lf in Hns at 1. rewrite skipn_app_exact in Hns.
    apply Forall_app in Hns. destruct Hns as [_ Hns]. cbn [app] in Hns.
    subst l. inversion Hns as [|? ? Hc _]; subst. discriminate Hc.
Qed.

Lemma ee_tag_overlong : forall u p x ii rtag,
  Forall (fun b => isdigit b = true) u -> p_tagcap p <= length rtag + length u ->
  length rtag < p_tagcap p -> 1 <= p_valcap p ->
  exists t v, ee_tag p (u ++ x) ii rtag = EERet 0 t v.
Proof.
  induction u as [|d u IH]; intros p x ii rtag Hu L Lt Lv; [cbn [length] in L; lia|].
  inversion Hu as [|? ? Hd Hu']; subst. cbn [app ee_tag]. rewrite Hd.
  destruct (length rtag =? p_tagcap p - 1) eqn:E0.
  - unfold ee_term.
    destruct (p_tagcap p <=? length rtag) eqn:E1; [apply Nat.leb_le in E1; lia|].
    destruct (p_valcap p <=? length (@nil N)) eqn:E2; [apply Nat.leb_le in E2; cbn [length] in E2; lia|].
    do 2 eexists. reflexivity.
  - apply Nat.eqb_neq in E0.
    destruct (p_tagcap p <=? length rtag) eqn:E1; [apply Nat.leb_le in E1; lia|].
    apply IH; [assumption | cbn [length] in *; lia | cbn [length]; lia | assumption].
Qed.

Lemma ee_val_overlong : forall u p x ii rtag rval,
  Forall (fun b => nosoh b = true) u -> p_valcap p <= length rval + length u ->
  length rval < p_valcap p -> length rtag < p_tagcap p ->
  exists t v, ee_val p (u ++ x) ii rtag rval = EERet 0 t v.
Proof.
  induction u as [|b u IH]; intros p x ii rtag rval Hu L Lv Lt; [cbn [length] in L; lia|].
  inversion Hu as [|? ? Hb Hu']; subst. cbn [app ee_val]. unfold nosoh in Hb.
  destruct (b =? SOH)%N; [discriminate|].
  destruct (length rval =? p_valcap p - 1) eqn:E0.
  - unfold ee_term.
    destruct (p_tagcap p <=? length rtag) eqn:E1; [apply Nat.leb_le in E1; lia|].
    destruct (p_valcap p <=? length rval) eqn:E2; [apply Nat.leb_le in E2; lia|].
    do 2 eexists. reflexivity.
  - apply Nat.eqb_neq in E0.
    destruct (p_valcap p <=? length rval) eqn:E1; [apply Nat.leb_le in E1; lia|].
    apply IH; [assumption | cbn [length] in *; lia | cbn [length]; lia | assumption].
Qed.

Definition illegal_or_eos (o : outcome) : Prop :=
  match o with OEos | OIllegal _ => True | _ => False end.

(* the common part: a stream starting with Z on which extract_element fails (first call, or second
   call after "8=<begin>|") *)
Lemma long_field_read : forall p s Z tail,
  safe_params p = true -> concat s = Z ++ tail ->
  bg_sz p <= length Z -> length Z <= p_max p ->
  Forall (fun b => nosoh b = true) (skipn (bg_sz p) Z) ->
  (forall more s2, illegal_or_eos (fst (read_fields p (Z ++ more) s2))) ->
  illegal_or_eos (fst (read_msg p s)).
Proof.
  intros p s Z tail W C Lb Lm Hns Hf.
  destruct (read_msg_cases p s W) as [E|[[t E]|(to & s2 & y & l & E & Ec & Et & _ & _ & Hl)]].
  - rewrite E. exact I.
  - rewrite E. exact I.
  - rewrite E.
    destruct (to_covers p (concat s) Z tail to (concat s2) y l C Ec Et Lb Lm Hns Hl) as [more Em].
    rewrite Em. apply Hf.
Qed.

Lemma long_tag1_read : forall p s t tail,
  wf_params p = true -> concat s = t ++ tail ->
  Forall (fun b => isdigit b = true) t ->
  p_tagcap p <= length t -> bg_sz p <= length t -> length t <= p_max p ->
  illegal_or_eos (fst (read_msg p s)).
Proof.
  intros p s t tail W C Ht Lt Lb Lm. pose proof (wf_safe p W) as Sf.
  destruct (safe_inv p Sf) as (Tc & Vc & _ & _).
  apply (long_field_read p s t tail Sf C Lb Lm).
  - apply Forall_skipn'. eapply Forall_impl; [|exact Ht]. intros b Hb. apply digit_nosoh, Hb.
  - intros more s2. unfold read_fields, extract_element.
    destruct (ee_tag_overlong t p more 0 [] Ht ltac:(cbn [length]; lia) ltac:(cbn [length]; lia) Vc) as (tg & vl & E).
    rewrite E. cbn [Nat.eqb fst]. exact I.
Qed.

Lemma long_val1_read : forall p s v tail,
  wf_params p = true -> concat s = [56; 61]%N ++ v ++ tail ->
  Forall (fun b => nosoh b = true) v ->
  p_valcap p <= length v -> bg_sz p <= length v + 2 -> length v + 2 <= p_max p ->
  illegal_or_eos (fst (read_msg p s)).
Proof.
  intros p s v tail W C Hv Lv Lb Lm. pose proof (wf_safe p W) as Sf.
  destruct (wf_inv p W) as (_ & _ & Tc & _). destruct (safe_inv p Sf) as (_ & Vc & _ & _).
  apply (long_field_read p s ([56; 61]%N ++ v) tail Sf).
  - rewrite C, <- app_assoc. reflexivity.
  - rewrite app_length. cbn [length]. lia.
  - rewrite app_length. cbn [length]. lia.
  - apply Forall_skipn'. constructor; [reflexivity|]. constructor; [reflexivity | exact Hv].
  - intros more s2. unfold read_fields, extract_element.
    replace (([56; 61]%N ++ v) ++ more) with ([56%N] ++ EQS :: (v ++ more)) by (rewrite <- app_assoc; reflexivity).
    rewrite ee_tag_run; [|repeat constructor|cbn [length]; lia].
    destruct (ee_val_overlong v p more (S (0 + length [56%N])) (rev [56%N] ++ []) [] Hv
                ltac:(cbn [length]; lia) ltac:(cbn [length]; lia) ltac:(cbn [length app rev]; lia)) as (tg & vl & E).
    rewrite E. cbn [Nat.eqb fst]. exact I.
Qed.

(* second field: after a correct "8=<begin>|" *)
Lemma first_field_ok : forall p rest0,
  wf_params p = true ->
  extract_element p ([56; 61]%N ++ p_begin p ++ [SOH] ++ rest0) =
  EERet (length (p_begin p) + 3) [56%N] (p_begin p).
Proof.
  intros p rest0 W. destruct (wf_inv p W) as (Bs & _ & Tc & Bl & _).
  replace ([56; 61]%N ++ p_begin p ++ [SOH] ++ rest0) with ([56%N] ++ EQS :: p_begin p ++ SOH :: rest0) by reflexivity.
  rewrite ee_field; [|repeat constructor|cbn [length]; lia|exact Bs|exact Bl].
  f_equal. cbn [length]. lia.
Qed.

Lemma read_fields_second : forall p rest0 s2,
  wf_params p = true ->
  (exists t v, extract_element p rest0 = EERet 0 t v) ->
  illegal_or_eos (fst (read_fields p ([56; 61]%N ++ p_begin p ++ [SOH] ++ rest0) s2)).
Proof.
  intros p rest0 s2 W (tg & vl & E). destruct (wf_inv p W) as (_ & Bn & _).
  unfold read_fields. rewrite (first_field_ok p rest0 W).
  replace (length (p_begin p) + 3 =? 0) with false by (symmetry; apply Nat.eqb_neq; lia).
  cbn [tag_exact]. rewrite N.eqb_refl. cbn [negb].
  rewrite (cstr_nonul _ Bn), list_eqb_refl. cbn [negb].
  replace (length (p_begin p) + 3) with (length ([56; 61]%N ++ p_begin p ++ [SOH]))
    by (rewrite !app_length; cbn [length]; lia).
  replace ([56; 61]%N ++ p_begin p ++ [SOH] ++ rest0) with (([56; 61]%N ++ p_begin p ++ [SOH]) ++ rest0)
    by (rewrite <- !app_assoc; reflexivity).
  rewrite skipn_app_exact, E. cbn [Nat.eqb fst]. exact I.
Qed.

Lemma long_tag2_read : forall p s t tail,
  wf_params p = true -> concat s = [56; 61]%N ++ p_begin p ++ [SOH] ++ t ++ tail ->
  Forall (fun b => isdigit b = true) t ->
  p_tagcap p <= length t -> 3 <= length t -> length (p_begin p) + 3 + length t <= p_max p ->
  illegal_or_eos (fst (read_msg p s)).
Proof.
  intros p s t tail W C Ht Lt L3 Lm. pose proof (wf_safe p W) as Sf.
  destruct (safe_inv p Sf) as (Tc & Vc & _ & _).
  set (Z := [56; 61]%N ++ p_begin p ++ [SOH] ++ t).
  assert (LZ : length Z = length (p_begin p) + 3 + length t).
  { unfold Z. rewrite !app_length. cbn [length]. lia. }
  apply (long_field_read p s Z tail Sf).
  - rewrite C. unfold Z. rewrite <- !app_assoc. reflexivity.
  - rewrite LZ. unfold bg_sz. lia.
  - lia.
  - assert (EZ : Z = ([56; 61]%N ++ p_begin p ++ [SOH] ++ firstn 3 t) ++ skipn 3 t).
    { unfold Z. rewrite <- !app_assoc. rewrite (firstn_skipn 3 t). reflexivity. }
    assert (L0 : length ([56; 61]%N ++ p_begin p ++ [SOH] ++ firstn 3 t) = bg_sz p).
    { rewrite !app_length, firstn_length_le by lia. cbn [length]. unfold bg_sz. lia. }
    rewrite EZ, <- L0, skipn_app_exact.
    apply Forall_skipn'. eapply Forall_impl; [|exact Ht]. intros b Hb. apply digit_nosoh, Hb.
  - intros more s2.
    replace (Z ++ more) with ([56; 61]%N ++ p_begin p ++ [SOH] ++ (t ++ more))
      by (unfold Z; rewrite <- !app_assoc; reflexivity).
    apply read_fields_second; [exact W|]. unfold extract_element.
    apply ee_tag_overlong; [exact Ht | cbn [length]; lia | cbn [length]; lia | exact Vc].
Qed.

Lemma long_val2_read : forall p s w tail,
  wf_params p = true -> concat s = header (p_begin p) ++ w ++ tail ->
  Forall (fun b => nosoh b = true) w ->
  p_valcap p <= length w -> 1 <= length w -> length (p_begin p) + 5 + length w <= p_max p ->
  illegal_or_eos (fst (read_msg p s)).
Proof.
  intros p s w tail W C Hw Lv L1 Lm. pose proof (wf_safe p W) as Sf.
  destruct (wf_inv p W) as (_ & _ & Tc & _). destruct (safe_inv p Sf) as (_ & Vc & _ & _).
  set (Z := header (p_begin p) ++ w).
  assert (LZ : length Z = length (p_begin p) + 5 + length w).
  { unfold Z. rewrite app_length, header_length. lia. }
  apply (long_field_read p s Z tail Sf).
  - rewrite C. unfold Z. rewrite <- app_assoc. reflexivity.
  - rewrite LZ. unfold bg_sz. lia.
  - lia.
  - assert (EZ : Z = (header (p_begin p) ++ firstn 1 w) ++ skipn 1 w).
    { unfold Z. rewrite <- app_assoc. rewrite (firstn_skipn 1 w). reflexivity. }
    assert (L0 : length (header (p_begin p) ++ firstn 1 w) = bg_sz p).
    { rewrite app_length, firstn_length_le by lia. rewrite bg_header. reflexivity. }
    rewrite EZ, <- L0, skipn_app_exact. apply Forall_skipn'. exact Hw.
  - intros more s2.
    replace (Z ++ more) with ([56; 61]%N ++ p_begin p ++ [SOH] ++ ([57%N] ++ EQS :: (w ++ more))).
    2:{ unfold Z, header, EQS, SOH. rewrite <- !app_assoc. reflexivity. }
    apply read_fields_second; [exact W|]. unfold extract_element.
    rewrite ee_tag_run; [|repeat constructor|cbn [length]; lia].
    apply ee_val_overlong; [exact Hw | cbn [length]; lia | cbn [length]; lia | cbn [length app rev]; lia].
Qed.

(* run level: after any valid frames, in any chunking.  The four places where an over-long field
   can stand: first tag, first value, second tag, second value (BodyLength). *)
Definition long_field_rest (p : params) (rest : list N) : Prop :=
  (exists t tail, rest = t ++ tail /\ Forall (fun b => isdigit b = true) t /\
                  p_tagcap p <= length t /\ bg_sz p <= length t /\ length t <= p_max p) \/
  (exists v tail, rest = [56; 61]%N ++ v ++ tail /\ Forall (fun b => nosoh b = true) v /\
                  p_valcap p <= length v /\ bg_sz p <= length v + 2 /\ length v + 2 <= p_max p) \/
  (exists t tail, rest = [56; 61]%N ++ p_begin p ++ [SOH] ++ t ++ tail /\
                  Forall (fun b => isdigit b = true) t /\
                  p_tagcap p <= length t /\ 3 <= length t /\ length (p_begin p) + 3 + length t <= p_max p) \/
  (exists w tail, rest = header (p_begin p) ++ w ++ tail /\ Forall (fun b => nosoh b = true) w /\
                  p_valcap p <= length w /\ 1 <= length w /\ length (p_begin p) + 5 + length w <= p_max p).

Lemma long_field_lemma : forall p msgs chunks rest closed,
  wf_params p = true -> Forall (fun m => frame_ok p m = true) msgs ->
  concat chunks = concat msgs ++ rest -> long_field_rest p rest ->
  exists e, run p chunks closed = (msgs, e) /\
            match e with EWait | EPeerReset | EIllegal _ => True | _ => False end.
Proof.
  intros p msgs chunks rest closed W Hv C HL.
  assert (R : illegal_or_eos (fst (read_msg p [rest]))).
  { assert (C1 : concat [rest] = rest) by (cbn [concat]; apply app_nil_r).
    destruct HL as [(t & tail & E0 & H1 & H2 & H3 & H4)|[(v & tail & E0 & H1 & H2 & H3 & H4)|
                   [(t & tail & E0 & H1 & H2 & H3 & H4)|(w & tail & E0 & H1 & H2 & H3 & H4)]]];
      subst rest.
    - eapply long_tag1_read; eassumption.
    - eapply long_val1_read; eassumption.
    - eapply long_tag2_read; eassumption.
    - eapply long_val2_read; eassumption. }
  exists (ending_of (fst (read_msg p [rest])) closed). split.
  - apply run_after_valid; try assumption.
    destruct (fst (read_msg p [rest])); cbn in R; try contradiction; reflexivity.
  - destruct (fst (read_msg p [rest])); cbn in R |- *; try contradiction; try exact I.
    destruct closed; exact I.
Qed.

(* ========================================================================================== *)
(* D4. wrong tags and a non-numeric BodyLength, with the field tests of cb750d0 / b287a2f       *)

Lemma ee_val_tag : forall from p ii rtag rval,
  length rtag < p_tagcap p -> length rval < p_valcap p ->
  exists c v, ee_val p from ii rtag rval = EERet c (rev rtag) v.
Proof.
  assert (T : forall p ret rtag rval, length rtag < p_tagcap p -> length rval < p_valcap p ->
              exists c v, ee_term p ret rtag rval = EERet c (rev rtag) v).
  { intros p ret rtag rval Lt Lv. unfold ee_term.
    destruct (p_tagcap p <=? length rtag) eqn:E1; [apply Nat.leb_le in E1; lia|].
    destruct (p_valcap p <=? length rval) eqn:E2; [apply Nat.leb_le in E2; lia|].
    do 2 eexists. reflexivity. }
  induction from as [|b r IH]; intros p ii rtag rval Lt Lv; cbn [ee_val].
  - apply T; assumption.
  - destruct (b =? SOH)%N; [apply T; assumption|].
    destruct (length rval =? p_valcap p - 1) eqn:E0; [apply T; assumption|].
    apply Nat.eqb_neq in E0.
    destruct (p_valcap p <=? length rval) eqn:E; [apply Nat.leb_le in E; lia|].
    apply IH; [assumption | cbn [length]; lia].
Qed.

(* a field whose tag fits: whatever the value does, the tag extracted is the tag written *)
Lemma ee_after_tag : forall p t z,
  Forall (fun b => isdigit b = true) t -> length t < p_tagcap p -> 1 <= p_valcap p ->
  exists c v, extract_element p (t ++ EQS :: z) = EERet c t v.
Proof.
  intros p t z Ht Lt Lv. unfold extract_element.
  rewrite ee_tag_run by (cbn [length]; (assumption || lia)).
  destruct (ee_val_tag z p (S (0 + length t)) (rev t ++ []) []) as (c & v & E).
  - rewrite app_nil_r, rev_length. exact Lt.
  - cbn [length]. lia.
  - rewrite E. rewrite app_nil_r, rev_involutive. do 2 eexists. reflexivity.
Qed.

Lemma ee_val_nosoh : forall u p ii rtag rval,
  Forall (fun b => nosoh b = true) u -> length rtag < p_tagcap p -> length rval < p_valcap p ->
  exists t v, ee_val p u ii rtag rval = EERet 0 t v.
Proof.
  assert (T : forall p rtag rval, length rtag < p_tagcap p -> length rval < p_valcap p ->
              exists t v, ee_term p 0 rtag rval = EERet 0 t v).
  { intros p rtag rval Lt Lv. unfold ee_term.
    destruct (p_tagcap p <=? length rtag) eqn:E1; [apply Nat.leb_le in E1; lia|].
    destruct (p_valcap p <=? length rval) eqn:E2; [apply Nat.leb_le in E2; lia|].
    do 2 eexists. reflexivity. }
  induction u as [|b u IH]; intros p ii rtag rval Hu Lt Lv; cbn [ee_val].
  - apply T; assumption.
  - inversion Hu as [|? ? Hb Hu']; subst. unfold nosoh in Hb.
    destruct (b =? SOH)%N; [discriminate|].
    destruct (length rval =? p_valcap p - 1) eqn:E0; [apply T; assumption|].
    apply Nat.eqb_neq in E0.
    destruct (p_valcap p <=? length rval) eqn:E; [apply Nat.leb_le in E; lia|].
    apply IH; [assumption | assumption | cbn [length]; lia].
Qed.

Lemma tag_exact_single : forall t c, t <> [c] -> tag_exact t c = false.
Proof.
  intros t c H. destruct t as [|a [|b t]]; cbn [tag_exact]; try reflexivity.
  destruct (a =? c)%N eqn:E; [|reflexivity]. apply N.eqb_eq in E. subst a. congruence.
Qed.

(* ---- first tag other than "8" ------------------------------------------------------------------ *)
Lemma bad_tag1_read : forall p s t z,
  wf_params p = true -> concat s = t ++ [EQS] ++ z ->
  Forall (fun b => isdigit b = true) t -> t <> [56%N] ->
  length t < p_tagcap p -> length t + 1 <= bg_sz p ->
  illegal_or_eos (fst (read_msg p s)).
Proof.
  intros p s t z W C Ht Hne Lt Lb. pose proof (wf_safe p W) as Sf.
  destruct (safe_inv p Sf) as (_ & Vc & _ & _).
  destruct (read_msg_cases p s Sf) as [E|[[x E]|(to & s2 & y & l & E & Ec & Et & Lbg & _ & _)]].
  - rewrite E. exact I.
  - rewrite E. exact I.
  - rewrite E.
    assert (Pre : firstn (bg_sz p) (concat s) = t ++ EQS :: firstn (bg_sz p - length t - 1) z).
    { rewrite C. rewrite firstn_app. rewrite firstn_all2 by lia.
      remember (bg_sz p - length t - 1) as k eqn:Hk.
      replace (bg_sz p - length t) with (S k) by lia. reflexivity. }
    rewrite Pre in Et. rewrite Et. rewrite <- app_assoc. cbn [app].
    unfold read_fields.
    destruct (ee_after_tag p t (firstn (bg_sz p - length t - 1) z ++ y ++ [l]) Ht Lt Vc) as (c & v & Ee).
    rewrite Ee. destruct (c =? 0); [exact I|].
    rewrite (tag_exact_single t 56%N Hne). exact I.
Qed.

(* ---- second tag other than "9" (the '=' has to stand within the fixed-size first read) ------- *)
Lemma bad_tag2_read : forall p s t z,
  wf_params p = true -> concat s = [56; 61]%N ++ p_begin p ++ [SOH] ++ t ++ [EQS] ++ z ->
  Forall (fun b => isdigit b = true) t -> t <> [57%N] ->
  length t < p_tagcap p -> length t <= 2 ->
  illegal_or_eos (fst (read_msg p s)).
Proof.
  intros p s t z W C Ht Hne Lt L2. pose proof (wf_safe p W) as Sf.
  destruct (safe_inv p Sf) as (_ & Vc & _ & _). destruct (wf_inv p W) as (_ & Bn & _).
  destruct (read_msg_cases p s Sf) as [E|[[x E]|(to & s2 & y & l & E & Ec & Et & Lbg & _ & _)]].
  - rewrite E. exact I.
  - rewrite E. exact I.
  - rewrite E.
    set (A := [56; 61]%N ++ p_begin p ++ [SOH]).
    assert (LA : length A = length (p_begin p) + 3) by (unfold A; rewrite !app_length; cbn [length]; lia).
    assert (CA : concat s = A ++ (t ++ EQS :: z)).
    { rewrite C. unfold A. rewrite <- !app_assoc. reflexivity. }
    assert (Pre : firstn (bg_sz p) (concat s) = A ++ t ++ EQS :: firstn (bg_sz p - length A - length t - 1) z).
    { rewrite CA. rewrite firstn_app. rewrite firstn_all2 by (unfold bg_sz; lia).
      f_equal. rewrite firstn_app. rewrite firstn_all2 by (unfold bg_sz; lia). f_equal.
      remember (bg_sz p - length A - length t - 1) as k eqn:Hk.
      replace (bg_sz p - length A - length t) with (S k) by (unfold bg_sz in *; lia).
      reflexivity. }
    rewrite Pre in Et.
    set (more := firstn (bg_sz p - length A - length t - 1) z ++ y ++ [l]).
    assert (Eto : to = [56; 61]%N ++ p_begin p ++ [SOH] ++ (t ++ EQS :: more)).
    { rewrite Et. unfold A, more. rewrite <- !app_assoc. reflexivity. }
    rewrite Eto. unfold read_fields. rewrite (first_field_ok p _ W).
    replace (length (p_begin p) + 3 =? 0) with false by (symmetry; apply Nat.eqb_neq; lia).
    cbn [tag_exact]. rewrite N.eqb_refl. cbn [negb].
    rewrite (cstr_nonul _ Bn), list_eqb_refl. cbn [negb].
    replace (length (p_begin p) + 3) with (length ([56; 61]%N ++ p_begin p ++ [SOH]))
      by (rewrite !app_length; cbn [length]; lia).
    replace ([56; 61]%N ++ p_begin p ++ [SOH] ++ t ++ EQS :: more) with (([56; 61]%N ++ p_begin p ++ [SOH]) ++ (t ++ EQS :: more))
      by (rewrite <- !app_assoc; reflexivity).
    rewrite skipn_app_exact.
    destruct (ee_after_tag p t more Ht Lt Vc) as (c & v & Ee). rewrite Ee.
    destruct (c =? 0); [exact I|].
    rewrite (tag_exact_single t 57%N Hne). exact I.
Qed.

(* the oracle: a first / second tag other than 8 / 9 is a corrupted preamble *)
Lemma tag_eq_inv : forall c0 (t x y : list N), isdigit c0 = true ->
  Forall (fun b => isdigit b = true) t -> t ++ 61%N :: x = c0 :: 61%N :: y -> t = [c0].
Proof.
  intros c0 t x y Hc Ht E. destruct t as [|a [|b t]]; cbn in E.
  - injection E as E _. subst c0. discriminate Hc.
  - injection E as -> _. reflexivity.
  - injection E as _ E _. subst b. inversion Ht as [|? ? _ Ht']; subst.
    inversion Ht' as [|? ? Hb _]; subst. discriminate Hb.
Qed.

Lemma bad_tag_strip : forall c0 (t z hd : list N), isdigit c0 = true ->
  Forall (fun b => isdigit b = true) t -> t <> [c0] ->
  strip (c0 :: 61%N :: hd) (t ++ 61%N :: z) = None /\
  is_prefix (t ++ 61%N :: z) (c0 :: 61%N :: hd) = false.
Proof.
  intros c0 t z hd Hc Ht Hne. split.
  - destruct (strip (c0 :: 61%N :: hd) (t ++ 61%N :: z)) as [r|] eqn:St; [|reflexivity].
    exfalso. apply strip_some in St. cbn [app] in St. apply Hne. eapply tag_eq_inv; eassumption.
  - destruct (is_prefix (t ++ 61%N :: z) (c0 :: 61%N :: hd)) eqn:Pf; [|reflexivity].
    exfalso. apply is_prefix_app in Pf. destruct Pf as [r Pf]. rewrite <- app_assoc in Pf. cbn [app] in Pf.
    apply Hne. eapply tag_eq_inv; [exact Hc | exact Ht | symmetry; exact Pf].
Qed.

Lemma strip_app2 : forall a b r, strip (a ++ b) (a ++ r) = strip b r.
Proof. induction a as [|x a IH]; intros b r; cbn; [reflexivity|]. rewrite N.eqb_refl. apply IH. Qed.

Lemma is_prefix_app2 : forall a r b, is_prefix (a ++ r) (a ++ b) = is_prefix r b.
Proof. induction a as [|x a IH]; intros r b; cbn; [reflexivity|]. rewrite N.eqb_refl. apply IH. Qed.

Lemma bad_tag1_spec : forall p t z,
  Forall (fun b => isdigit b = true) t -> t <> [56%N] ->
  spec_frame (p_begin p) (len_limit p) (max_width p) (t ++ [EQS] ++ z) = FBad.
Proof.
  intros p t z Ht Hne. unfold spec_frame, header, EQS. cbn [app].
  destruct (bad_tag_strip 56%N t z (p_begin p ++ [1; 57; 61]%N) eq_refl Ht Hne) as [E1 E2].
  rewrite E1, E2. reflexivity.
Qed.

Lemma bad_tag2_spec : forall p t z,
  Forall (fun b => isdigit b = true) t -> t <> [57%N] ->
  spec_frame (p_begin p) (len_limit p) (max_width p) ([56; 61]%N ++ p_begin p ++ [SOH] ++ t ++ [EQS] ++ z) = FBad.
Proof.
  intros p t z Ht Hne. unfold spec_frame.
  set (A := [56; 61]%N ++ p_begin p ++ [SOH]).
  assert (EH : header (p_begin p) = A ++ [57; 61]%N).
  { unfold header, A, SOH. rewrite <- !app_assoc. reflexivity. }
  assert (ES : [56; 61]%N ++ p_begin p ++ [SOH] ++ t ++ [EQS] ++ z = A ++ (t ++ 61%N :: z)).
  { unfold A, EQS. rewrite <- !app_assoc. reflexivity. }
  rewrite EH, ES, strip_app2, is_prefix_app2.
  destruct (bad_tag_strip 57%N t z [] eq_refl Ht Hne) as [E1 E2].
  rewrite E1, E2. reflexivity.
Qed.

Lemma illegal_or_eos_err : forall o, illegal_or_eos o -> err_or_eos o = true.
Proof. intros o H. destruct o; cbn in *; try contradiction; reflexivity. Qed.

Definition illegal_or_eos_end (e : ending) : Prop :=
  match e with EWait | EPeerReset | EIllegal _ => True | _ => False end.

Lemma illegal_or_eos_ending : forall o closed, illegal_or_eos o -> illegal_or_eos_end (ending_of o closed).
Proof. intros o closed H. destruct o; cbn in *; try contradiction; try exact I. destruct closed; exact I. Qed.

Lemma bad_tag_lemma : forall p msgs chunks t z closed,
  wf_params p = true -> Forall (fun m => frame_ok p m = true) msgs ->
  Forall (fun b => isdigit b = true) t -> length t < p_tagcap p ->
  ((concat chunks = concat msgs ++ t ++ [EQS] ++ z /\ t <> [56%N] /\ length t + 1 <= bg_sz p) \/
   (concat chunks = concat msgs ++ [56; 61]%N ++ p_begin p ++ [SOH] ++ t ++ [EQS] ++ z /\ t <> [57%N] /\ length t <= 2)) ->
  (exists e, run p chunks closed = (msgs, e) /\ illegal_or_eos_end e) /\ model_ok p chunks closed = true.
Proof.
  intros p msgs chunks t z closed W Hv Ht Lt [(C & Hne & Lb)|(C & Hne & L2)].
  - set (rest := t ++ [EQS] ++ z) in *.
    assert (R : illegal_or_eos (fst (read_msg p [rest]))).
    { apply (bad_tag1_read p [rest] t z W); try assumption. cbn [concat]. apply app_nil_r. }
    destruct (bad_after_valid_ok p msgs chunks rest closed W Hv C) as [R1 R2].
    + unfold rest, EQS. destruct t; discriminate.
    + apply bad_tag1_spec; assumption.
    + apply illegal_or_eos_err, R.
    + split; [|exact R2]. eexists. split; [exact R1|]. apply illegal_or_eos_ending, R.
  - set (rest := [56; 61]%N ++ p_begin p ++ [SOH] ++ t ++ [EQS] ++ z) in *.
    assert (R : illegal_or_eos (fst (read_msg p [rest]))).
    { apply (bad_tag2_read p [rest] t z W); try assumption. cbn [concat]. apply app_nil_r. }
    destruct (bad_after_valid_ok p msgs chunks rest closed W Hv C) as [R1 R2].
    + unfold rest. cbn. discriminate.
    + apply bad_tag2_spec; assumption.
    + apply illegal_or_eos_err, R.
    + split; [|exact R2]. eexists. split; [exact R1|]. apply illegal_or_eos_ending, R.
Qed.

(* ---- non-numeric BodyLength, wherever its first non-digit stands ------------------------------ *)
Definition nonnum_outcome (o : outcome) : Prop :=
  match o with OEos | OIllegal _ => True | OBadLen n => n = 0%N | _ => False end.

Lemma nonnumeric_first_read : forall p s c tail,
  wf_params p = true -> concat s = header (p_begin p) ++ [c] ++ tail ->
  isdigit c = false -> nosoh c = true ->
  nonnum_outcome (fst (read_msg p s)).
Proof.
  intros p s c tail W C Hc Hs. pose proof (wf_safe p W) as Sf.
  destruct (safe_inv p Sf) as (_ & Vc & _ & _).
  destruct (wf_inv p W) as (_ & Bn & Tc & _).
  destruct (read_msg_cases p s Sf) as [E|[[x E]|(to & s2 & y & l & E & Ec & Et & Lbg & Hy & _)]].
  - rewrite E. exact I.
  - rewrite E. exact I.
  - rewrite E.
    assert (Pre : firstn (bg_sz p) (concat s) = header (p_begin p) ++ [c]).
    { rewrite C, app_assoc. rewrite bg_header.
      replace (length (header (p_begin p)) + 1) with (length (header (p_begin p) ++ [c]))
        by (rewrite app_length; reflexivity).
      rewrite firstn_app, Nat.sub_diag, firstn_all. cbn [firstn]. apply app_nil_r. }
    rewrite Pre in Et.
    set (val := c :: y ++ [l]).
    assert (Eto : to = [56; 61]%N ++ p_begin p ++ [SOH] ++ ([57%N] ++ EQS :: val)).
    { rewrite Et. unfold header, val, EQS, SOH. rewrite <- !app_assoc. reflexivity. }
    rewrite Eto. unfold read_fields. rewrite (first_field_ok p _ W).
    replace (length (p_begin p) + 3 =? 0) with false by (symmetry; apply Nat.eqb_neq; lia).
    cbn [tag_exact]. rewrite N.eqb_refl. cbn [negb].
    rewrite (cstr_nonul _ Bn), list_eqb_refl. cbn [negb].
    replace (length (p_begin p) + 3) with (length ([56; 61]%N ++ p_begin p ++ [SOH]))
      by (rewrite !app_length; cbn [length]; lia).
    replace ([56; 61]%N ++ p_begin p ++ [SOH] ++ [57%N] ++ EQS :: val) with (([56; 61]%N ++ p_begin p ++ [SOH]) ++ ([57%N] ++ EQS :: val))
      by (rewrite <- !app_assoc; reflexivity).
    rewrite skipn_app_exact. unfold extract_element.
    rewrite ee_tag_run; [|repeat constructor|cbn [length]; lia].
    cbn [length rev app Nat.add].
    assert (Hyn : Forall (fun b => nosoh b = true) (c :: y)).
    { constructor; [exact Hs|]. eapply Forall_impl; [|exact Hy]. intros b Hb. apply digit_nosoh, Hb. }
    destruct (nosoh l) eqn:Hl.
    + (* no SOH at all: the value runs to the end of [to] *)
      destruct (ee_val_nosoh val p 2 [57%N] []) as (tg & vl & Ee).
      * unfold val. rewrite app_comm_cons. apply Forall_app. split; [exact Hyn | constructor; [exact Hl | constructor]].
      * cbn [length]; lia.
      * cbn [length]; lia.
      * rewrite Ee. cbn [Nat.eqb fst]. exact I.
    + unfold nosoh in Hl. apply negb_false_iff in Hl. apply N.eqb_eq in Hl. subst l.
      destruct (le_lt_dec (p_valcap p) (length (c :: y))) as [Lo|Lo].
      * (* the value does not fit val[] *)
        destruct (ee_val_overlong (c :: y) p [SOH] 2 [57%N] [] Hyn) as (tg & vl & Ee);
          [cbn [length] in *; lia | cbn [length]; lia | cbn [length]; lia|].
        unfold val. rewrite app_comm_cons. rewrite Ee. cbn [Nat.eqb fst]. exact I.
      * unfold val. rewrite app_comm_cons.
        rewrite ee_val_run by (cbn [length] in *; (assumption || lia)).
        unfold ee_term. cbn [length].
        destruct (p_tagcap p <=? 1) eqn:E1; [apply Nat.leb_le in E1; lia|].
        rewrite app_nil_r, rev_length.
        destruct (p_valcap p <=? length (c :: y)) eqn:E2; [apply Nat.leb_le in E2; lia|].
        rewrite rev_involutive. change (rev [57%N]) with [57%N].
        cbn [Nat.eqb tag_exact]. rewrite N.eqb_refl. cbn [negb].
        cbn [first_not_digit]. rewrite Hc. cbn [negb].
        destruct (c =? 0)%N eqn:E0; cbn [negb andb]; [|exact I].
        cbn [cstr]. rewrite E0. unfold read_body. cbn. reflexivity.
Qed.

Lemma nonnumeric_spec2 : forall p ds0 c tail,
  Forall (fun b => isdigit b = true) ds0 -> isdigit c = false -> nosoh c = true ->
  spec_frame (p_begin p) (len_limit p) (max_width p) (header (p_begin p) ++ ds0 ++ [c] ++ tail) = FBad.
Proof.
  intros p ds0 c tail Hd Hc Hs. unfold spec_frame. rewrite strip_app.
  destruct (take_drop_app ds0 c tail Hd Hc) as [E1 E2]. cbn [app]. rewrite E1, E2.
  match goal with |- context [?a <? ?b] => destruct (a <? b); [reflexivity|] end.
  unfold nosoh, SOH in Hs. change sp_soh with 1%N. destruct (c =? 1)%N; [discriminate|]. reflexivity.
Qed.

(* a BodyLength value with a byte that is neither digit nor SOH, at ANY position (the former
   hypothesis "the first character is a digit" is gone): error, nothing handed on *)
Lemma nonnumeric2_lemma : forall p msgs chunks ds0 c tail closed,
  wf_params p = true -> Forall (fun m => frame_ok p m = true) msgs ->
  concat chunks = concat msgs ++ header (p_begin p) ++ ds0 ++ [c] ++ tail ->
  Forall (fun b => isdigit b = true) ds0 -> isdigit c = false -> nosoh c = true ->
  length ds0 <= p_valcap p ->
  (exists e, run p chunks closed = (msgs, e) /\
             match e with EWait | EPeerReset | EIllegal _ => True | EBadLen n => n = 0%N | _ => False end) /\
  model_ok p chunks closed = true.
Proof.
  intros p msgs chunks ds0 c tail closed W Hv C Hd Hc Hs Ld.
  set (rest := header (p_begin p) ++ ds0 ++ [c] ++ tail) in *.
  assert (R : nonnum_outcome (fst (read_msg p [rest]))).
  { destruct ds0 as [|d1 ds'].
    - apply (nonnumeric_first_read p [rest] c tail W); try assumption. cbn [concat]. apply app_nil_r.
    - inversion Hd as [|? ? Hd1 Hd']; subst.
      assert (Rd : fst (read_msg p [rest]) = OIllegal (cstr (header (p_begin p) ++ [d1] ++ ds'))).
      { apply (nonnumeric_read p [rest] d1 ds' c tail W);
          [cbn [concat]; unfold rest; rewrite app_nil_r; reflexivity | assumption | assumption | assumption
          | cbn [length] in Ld; lia]. }
      rewrite Rd. exact I. }
  destruct (bad_after_valid_ok p msgs chunks rest closed W Hv C) as [R1 R2].
  - unfold rest, header. cbn. discriminate.
  - apply nonnumeric_spec2; assumption.
  - destruct (fst (read_msg p [rest])); cbn in R; try contradiction; reflexivity.
  - split; [|exact R2]. eexists. split; [exact R1|].
    destruct (fst (read_msg p [rest])); cbn in R |- *; try contradiction; try exact I; try exact R.
    destruct closed; exact I.
Qed.

(* ========================================================================================== *)
(* E. where the faithful model violates the property: witnesses                               *)

From Coq Require Import String Ascii.

Fixpoint bs (s : string) : list N :=
  match s with
  | EmptyString => []
  | String a r => N_of_ascii a :: bs r
  end.

Definition P42 : params := std_params fix42.
Definition hdr42 : list N := bs "8=FIX.4.2" ++ [SOH] ++ bs "9=".
Definition trl0 : list N := bs "10=000" ++ [SOH].

(* F19a: 32 digits and SOH (the 32nd digit does not fit tag[32]); 31 digits *)
Definition w_tag32 : list N := repeat 55%N 32 ++ [SOH].
Definition w_tag31 : list N := repeat 55%N 31 ++ [SOH].
(* F19b: a first / second field value of 2048 bytes does not fit val[2048]; 2047 bytes do *)
Definition w_val1 (n : N) : list N := bs "8=" ++ repeat 49%N (N.to_nat n) ++ [SOH].
Definition w_val2 (n : N) : list N := hdr42 ++ repeat 49%N (N.to_nat n) ++ [SOH].
(* F19c: BodyLength 2^32 + 5 is read as 5 *)
Definition w_wrap : list N := hdr42 ++ bs "4294967301" ++ [SOH] ++ bs "35=0" ++ [SOH] ++ trl0.
(* the 13th byte of the preamble is never inspected: "9=:" is BodyLength 10 *)
Definition w_colon : list N := hdr42 ++ bs ":" ++ [SOH] ++ bs "35=0" ++ [SOH] ++ bs "58=a" ++ [SOH] ++ trl0.
(* only the first character of the tags is compared *)
Definition w_tag88 : list N := bs "88=FIX.4.2" ++ [SOH] ++ bs "9=5" ++ [SOH] ++ bs "35=0" ++ [SOH] ++ trl0.
Definition w_tag93 : list N := bs "8=FIX.4.2" ++ [SOH] ++ bs "93=5" ++ [SOH] ++ bs "35=0" ++ [SOH] ++ trl0.
(* BeginString is compared as a C string *)
Definition w_nul : list N := bs "8=FIX.4.2" ++ [0%N; SOH] ++ bs "9=5" ++ [SOH] ++ bs "35=0" ++ [SOH] ++ trl0.

(* before d48d8ce extract_element had no bounds: 32 digits + SOH wrote the NUL of tag[32] out of
   bounds (31 did not), a value of 2048 bytes that of val[2048] (2047 did not).  With the repaired
   extract_element the same streams end in IllegalMessage, nothing is handed on, the oracle holds. *)
Lemma overflow_orig_refuted_lemma :
  (extract_element_orig P42 w_tag32 = EEOob SiteTag /\
   extract_element_orig P42 w_tag31 = EERet 0 (repeat 55%N 31) [] /\
   extract_element_orig P42 (w_val1 2048) = EEOob SiteVal /\
   extract_element_orig P42 (w_val1 2047) = EERet (N.to_nat 2050) [56%N] (repeat 49%N (N.to_nat 2047))) /\
  (run P42 [w_tag32] true = ([], EIllegal w_tag32) /\ model_ok P42 [w_tag32] true = true) /\
  (run P42 [w_val1 2048] true = ([], EIllegal (w_val1 2048)) /\ model_ok P42 [w_val1 2048] true = true) /\
  (run P42 [w_val2 2048] true = ([], EIllegal (w_val2 2048)) /\ model_ok P42 [w_val2 2048] true = true).
Proof. repeat split; vm_compute; reflexivity. Qed.

(* not repaired: 32-bit wrap of BodyLength: an oversized BodyLength is accepted and a frame of 5 bytes handed on *)
Lemma bodylength_wrap_refuted_lemma :
  run P42 [w_wrap] true = ([w_wrap], EPeerReset) /\
  spec_frame fix42 (len_limit P42) (max_width P42) w_wrap = FBad /\ model_ok P42 [w_wrap] true = false.
Proof. repeat split; vm_compute; reflexivity. Qed.

(* before cb750d0 / b287a2f: "9=:" was BodyLength 10, tags 88 / 93 passed for 8 / 9: frames with a
   corrupted preamble were handed on.  With the repaired tests the same streams are refused
   (IllegalMessage), nothing is handed on and the oracle holds. *)
Lemma lenient_orig_refuted_lemma :
  (run_orig P42 [w_colon] true = ([w_colon], EPeerReset) /\
   spec_frame fix42 (len_limit P42) (max_width P42) w_colon = FBad /\
   fst (run P42 [w_colon] true) = [] /\ model_ok P42 [w_colon] true = true) /\
  (run_orig P42 [w_tag88] true = ([w_tag88], EPeerReset) /\
   spec_frame fix42 (len_limit P42) (max_width P42) w_tag88 = FBad /\
   fst (run P42 [w_tag88] true) = [] /\ model_ok P42 [w_tag88] true = true) /\
  (run_orig P42 [w_tag93] true = ([w_tag93], EPeerReset) /\
   spec_frame fix42 (len_limit P42) (max_width P42) w_tag93 = FBad /\
   fst (run P42 [w_tag93] true) = [] /\ model_ok P42 [w_tag93] true = true).
Proof. repeat split; vm_compute; reflexivity. Qed.

(* not repaired: BeginString is compared as a C string *)
Lemma beginstring_nul_refuted_lemma :
  run P42 [w_nul] true = ([w_nul], EPeerReset) /\
  spec_frame fix42 (len_limit P42) (max_width P42) w_nul = FBad /\ model_ok P42 [w_nul] true = false.
Proof. repeat split; vm_compute; reflexivity. Qed.

(* ---- non-vacuity --------------------------------------------------------------------------- *)
Definition nv_m1 : list N := hdr42 ++ bs "5" ++ [SOH] ++ bs "35=0" ++ [SOH] ++ trl0.
Definition nv_m2 : list N := hdr42 ++ bs "012" ++ [SOH] ++ bs "35=D" ++ [SOH] ++ bs "11=ABC" ++ [SOH] ++ trl0.
Definition one_byte_chunks (l : list N) : sock := map (fun b => [b]) l.
Definition nv_badlen : list N := nv_m1 ++ hdr42 ++ bs "8173" ++ [SOH].
Definition nv_v44 : list N := bs "FIX.4.4".
Definition nv_badver : list N := nv_m1 ++ bs "8=" ++ nv_v44 ++ [SOH] ++ bs "9=5" ++ [SOH].

Lemma nonvacuous_lemma :
  wf_params P42 = true /\
  forallb (frame_ok P42) [nv_m1; nv_m2] = true /\
  List.concat (one_byte_chunks (nv_m1 ++ nv_m2)) = List.concat [nv_m1; nv_m2] /\
  run P42 (one_byte_chunks (nv_m1 ++ nv_m2)) false = ([nv_m1; nv_m2], EWait) /\
  (* and hypotheses of the corrupted-preamble theorems are satisfiable *)
  run P42 [nv_badlen] true = ([nv_m1], EBadLen 8173%N) /\
  run P42 [nv_badver] true = ([nv_m1], EBadVersion nv_v44).
Proof. repeat split; vm_compute; reflexivity. Qed.

(* the Forall hypothesis of the theorems from a boolean *)
Lemma forallb_Forall : forall p msgs, forallb (frame_ok p) msgs = true ->
  Forall (fun m => frame_ok p m = true) msgs.
Proof.
  intros p msgs H. apply Forall_forall. intros m Hm. rewrite forallb_forall in H. apply H, Hm.
Qed.
