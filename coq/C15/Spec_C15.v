(* C15 — the property as an executable predicate on observables, written from the property text and
   the FIX framing rules; it does not use the reader model (coq/C15/Reader.v) at all.

   A valid message on the wire (a frame) for BeginString [begin] is
        8=<begin> SOH 9=<n> SOH <body: exactly n bytes> 1 0 = d d d SOH
   where <n> is a non-empty string of decimal digits (leading zeros allowed, FIX "Length"),
   n >= 1, and n is not "oversized": n <= [limit], the largest BodyLength the reader admits
   (a parameter of the spec; for fix8 _max_msg_len - _bg_sz - 7), and written with at most [maxw]
   characters, the longest preamble field value the reader supports (for fix8
   FIX8_MAX_FLD_LENGTH - 1 = 2047; a longer BodyLength field counts as oversized).  The checksum VALUE is not
   part of framing (it is checked later, by the decoder: property C07/C04).

   The observables: the inbound byte stream, whether the peer closed it at the end, the byte
   strings handed to Session::process, and how the reader thread ended. *)
From Coq Require Import NArith List Bool Arith.
Import ListNotations.

Notation byte := N (only parsing).

Definition sp_soh : byte := 1%N.
Definition sp_digit (b : byte) : bool := (48 <=? b)%N && (b <=? 57)%N.

Fixpoint sp_eqb (a b : list byte) : bool :=
  match a, b with
  | [], [] => true
  | x :: a', y :: b' => (x =? y)%N && sp_eqb a' b'
  | _, _ => false
  end.

Fixpoint sp_eqbb (a b : list (list byte)) : bool :=
  match a, b with
  | [], [] => true
  | x :: a', y :: b' => sp_eqb x y && sp_eqbb a' b'
  | _, _ => false
  end.

(* [strip pre s] = Some r  iff  s = pre ++ r *)
Fixpoint strip (pre s : list byte) : option (list byte) :=
  match pre with
  | [] => Some s
  | x :: pre' => match s with
                 | y :: s' => if (x =? y)%N then strip pre' s' else None
                 | [] => None
                 end
  end.

(* [s] is a prefix of [l] *)
Fixpoint is_prefix (s l : list byte) : bool :=
  match s with
  | [] => true
  | x :: s' => match l with
               | y :: l' => (x =? y)%N && is_prefix s' l'
               | [] => false
               end
  end.

Fixpoint is_prefixx (a b : list (list byte)) : bool :=
  match a with
  | [] => true
  | x :: a' => match b with
               | y :: b' => sp_eqb x y && is_prefixx a' b'
               | [] => false
               end
  end.

Fixpoint take_digits (l : list byte) : list byte :=
  match l with
  | b :: r => if sp_digit b then b :: take_digits r else []
  | [] => []
  end.

Fixpoint drop_digits (l : list byte) : list byte :=
  match l with
  | b :: r => if sp_digit b then drop_digits r else l
  | [] => []
  end.

(* value of a decimal digit string, unbounded *)
Definition dec (ds : list byte) : N := fold_left (fun acc b => (acc * 10 + (b - 48))%N) ds 0%N.

(* "8=" begin SOH "9=" *)
Definition header (begin : list byte) : list byte := [56; 61]%N ++ begin ++ [1; 57; 61]%N.

(* "10=ddd" SOH *)
Definition trailer_ok (t : list byte) : bool :=
  match t with
  | [a; b; c; d1; d2; d3; e] =>
      (a =? 49)%N && (b =? 48)%N && (c =? 61)%N && sp_digit d1 && sp_digit d2 && sp_digit d3 && (e =? sp_soh)%N
  | _ => false
  end.

Inductive frame_res :=
| FFrame (m rest : list byte)     (* the stream starts with the valid frame m *)
| FIncomplete                     (* so far a proper prefix of something that can become a valid frame *)
| FBad                            (* corrupted preamble: wrong BeginString / first field, non-numeric, zero or oversized BodyLength *)
| FUnspec.                        (* well-formed preamble, but no 10=ddd SOH where the trailer must be: outside the property *)

Definition spec_frame (begin : list byte) (limit : N) (maxw : nat) (s : list byte) : frame_res :=
  let hdr := header begin in
  match strip hdr s with
  | None => if is_prefix s hdr then FIncomplete else FBad
  | Some r =>
    let ds := take_digits r in
    if maxw <? length ds then FBad                       (* BodyLength field too long: oversized *)
    else
    match drop_digits r with
    | [] => FIncomplete                                  (* BodyLength digits not terminated yet *)
    | c :: more =>
      if negb (c =? sp_soh)%N then FBad                  (* non-numeric BodyLength *)
      else match ds with
      | [] => FBad                                       (* empty BodyLength *)
      | _ =>
        let n := dec ds in
        if (n =? 0)%N then FBad                          (* zero *)
        else if (limit <? n)%N then FBad                 (* oversized *)
        else if (N.of_nat (length more) <? n + 7)%N then FIncomplete   (* body / trailer still to come *)
        else
          let k := N.to_nat n in
          if trailer_ok (firstn 7 (skipn k more))
          then FFrame (hdr ++ ds ++ [sp_soh] ++ firstn (k + 7) more) (skipn (k + 7) more)
          else FUnspec
      end
    end
  end.

Inductive tail_class := TClean | TIncomplete | TBad | TUnspec.

(* the maximal sequence of valid frames the stream starts with, and what follows it *)
Fixpoint spec_parse (fuel : nat) (begin : list byte) (limit : N) (maxw : nat) (s : list byte) : list (list byte) * tail_class :=
  match s with
  | [] => ([], TClean)
  | _ =>
    match fuel with
    | O => ([], TUnspec)
    | S f =>
      match spec_frame begin limit maxw s with
      | FFrame m rest => let (fs, t) := spec_parse f begin limit maxw rest in (m :: fs, t)
      | FIncomplete => ([], TIncomplete)
      | FBad => ([], TBad)
      | FUnspec => ([], TUnspec)
      end
    end
  end.

(* how the reader ended (same vocabulary as the harness) *)
Inductive rd_end :=
| RWait                 (* still blocked waiting for bytes, peer connected *)
| RPeerReset            (* stopped with PeerResetConnection *)
| RError                (* stopped with IllegalMessage / InvalidVersion / InvalidBodyLength *)
| RMemory               (* memory error (out-of-bounds write) *)
| ROther.               (* anything else *)

(* The property.
   - never a memory error;
   - the stream is a sequence of valid messages, possibly followed by the beginning of one more
     that has not arrived completely: exactly those messages are handed on, byte-identical and in
     order, and the reader is not in error: it waits for more (peer connected) or sees the close;
   - after the valid messages comes a corrupted preamble: exactly the valid messages are handed on
     (nothing corrupted) and the reader stops with an error -- a framing error, or the connection
     reset if the peer closed; while the peer is connected it may also still be waiting for the
     rest of the preamble (the oracle cannot know how many bytes a reader needs to decide);
   - after the valid messages comes something with a well-formed preamble but no trailer in
     place: the property only requires the valid messages before it to be handed on first. *)
Definition c15_ok (begin : list byte) (limit : N) (maxw : nat) (stream : list byte) (closed : bool)
                  (delivered : list (list byte)) (e : rd_end) : bool :=
  let (frames, t) := spec_parse (S (length stream)) begin limit maxw stream in
  let eos_ok := match e with RWait => negb closed | RPeerReset => closed | _ => false end in
  let err := match e with RError => true | _ => false end in
  match e with
  | RMemory | ROther => false
  | _ =>
    match t with
    | TClean | TIncomplete => sp_eqbb delivered frames && eos_ok
    | TBad => sp_eqbb delivered frames && (err || eos_ok)
    | TUnspec => is_prefixx frames delivered
    end
  end.

(* a single valid frame, as a boolean predicate *)
Definition valid_frame (begin : list byte) (limit : N) (maxw : nat) (m : list byte) : bool :=
  match spec_frame begin limit maxw m with
  | FFrame _ [] => true
  | _ => false
  end.

(* number of characters of the BodyLength field of a frame *)
Definition bodylen_width (begin : list byte) (m : list byte) : nat :=
  match strip (header begin) m with
  | Some r => length (take_digits r)
  | None => 0
  end.
