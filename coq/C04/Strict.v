(* C04, model side.  The model of strict decoding IS Codec/Decode.v's [factory] with
   permissive_mode = false and no_chksum = false; this file only adds
     - strict_factory: that instance, with the real buffer capacities;
     - obs_of_msg: the observable tree of a decoded message (what the harness dump shows: per
       part / element the (tag, printed value) pairs of _pos and the elements of _groups);
     - outcome_of: the model result as the oracle's [outcome];
     - wf_ctx: the well-formedness of the schema tables the theorems assume; the driver
       evaluates it on the metadata dumped from the compiled schema on every run.
   No proofs here. *)
From Coq Require Import NArith ZArith List Bool.
From F8 Require Import Codec.Bytes Codec.Meta Codec.Extract Codec.Decode Codec.Encode C04.Spec_C04.
Import ListNotations.
Local Open Scope N_scope.

Definition strict_factory (c : ctx) (bytes : list N) : res message :=
  factory c real_caps bytes false false.

(* Field<T>::print of the object a _pos entry points to (same as the dump of ocaml/c0x drivers) *)
Definition printed (c : ctx) (fp : list trait) (f : N) (v : list N) : list N :=
  c_render c (ftype_of c f (match find_trait fp f with Some tr => t_ftype tr | None => ft_string end)) v.

Fixpoint obs_of_mbase (c : ctx) (m : mbase) : obs :=
  match m with
  | MB fp _ _ pos groups _ =>
      Obs (map (fun e => (fst (snd e), printed c fp (fst (snd e)) (snd (snd e)))) pos)
          (map (fun g => (fst g, map (obs_of_mbase c) (snd g))) groups)
  end.
Definition obs_of_msg (c : ctx) (m : message) : obs_msg :=
  mkObs (obs_of_mbase c (m_hdr m)) (obs_of_mbase c (m_body m)) (obs_of_mbase c (m_trl m)).

Definition outcome_of (c : ctx) (r : res message) : outcome :=
  match r with
  | Ok m => Accepted (obs_of_msg c m)
  | Exc _ => Rejected
  | _ => Abnormal
  end.

(* ------------------------------------------------------------------ schema well-formedness *)
Fixpoint nodupN (l : list N) : bool :=
  match l with [] => true | x :: r => negb (memN x r) && nodupN r end.

(* what wf_table asks of one trait of a table whose nested classes are [subs]:
     fnum below 2^16; the field table knows it with the same type; a group trait has its nested
     table and an int type (the count); in [elem] tables (group elements) no trait is born
     present, all carry the position bit, none is automatic *)
Definition trait_ok (c : ctx) (subs : list (N * gmeta)) (elem : bool) (tr : trait) : bool :=
  (t_fnum tr <? 65536) &&
  match find_be (c_fields c) (t_fnum tr) with Some ty => ty =? t_ftype tr | None => false end &&
  (negb (t_group tr) ||
   (match find_sub subs (t_fnum tr) with Some _ => true | None => false end && is_int_type (t_ftype tr))) &&
  (negb elem || (negb (t_present tr) && t_haspos tr && negb (t_auto tr))).

(* a trait table and (recursively) its group tables: fnums distinct, every trait ok *)
Fixpoint wf_table (c : ctx) (elem : bool) (g : gmeta) {struct g} : bool :=
  match g with
  | GM ts subs _ =>
    nodupN (map t_fnum ts) &&
    forallb (trait_ok c subs elem) ts &&
    (fix all (l : list (N * gmeta)) : bool :=
       match l with [] => true | (_, sg) :: r => wf_table c true sg && all r end) subs
  end.

(* message level tables: groups below them are element tables; body tables are born without
   present bits and without automatic fields *)
Definition wf_body (c : ctx) (g : gmeta) : bool :=
  wf_table c false g &&
  forallb (fun tr => negb (t_present tr) && negb (t_auto tr)) (g_traits g).

(* header / trailer: the constructor's fields (8, 9, 35 / 10) are exactly the automatic traits,
   they are plain (no group, not mandatory, no Length but BodyLength) fields of the table, and
   nothing else is born present *)
Definition init_ok (g : gmeta) (init : list (N * (N * list N))) : bool :=
  let fs := map (fun e => fst (snd e)) init in
  nodupN fs &&
  forallb (fun f => match find_trait (g_traits g) f with
                    | Some tr => negb (t_group tr) && negb (t_mand tr) &&
                                 (negb (t_ftype tr =? ft_Length) || (f =? Common_BodyLength))
                    | None => false end) fs &&
  forallb (fun tr => (eqb (t_auto tr) (memN (t_fnum tr) fs)) &&
                     (negb (t_present tr) || memN (t_fnum tr) fs)) (g_traits g).

Definition wf_ctx (c : ctx) : bool :=
  wf_table c false (c_header c) && wf_table c false (c_trailer c) &&
  init_ok (c_header c) (c_hdr_init c) && init_ok (c_trailer c) (c_trl_init c) &&
  list_eqb (map (fun e => fst (snd e)) (c_hdr_init c)) [Common_BeginString; Common_BodyLength; Common_MsgType] &&
  list_eqb (map (fun e => fst (snd e)) (c_trl_init c)) [Common_CheckSum] &&
  match c_hdr_init c with (_, (_, v)) :: _ => list_eqb v (c_begin c) | [] => false end &&   (* 8 = BeginString *)
  match find_be (c_fields c) Common_BodyLength with Some ty => is_int_type ty | None => false end &&
  forallb (fun tr => negb (t_group tr)) (g_traits (c_trailer c)) &&      (* no repeating group in the trailer *)
  forallb (fun md => wf_body c (md_meta md)) (c_msgs c).
