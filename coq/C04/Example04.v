(* A small schema for the C04 witnesses and non-vacuity examples: Codec/Example.v's schema plus
   an optional header field 50 (SenderSubID), so that "a header-only tag placed in the body"
   can be shown without repeating a field.  No proofs here. *)
From Coq Require Import NArith ZArith List Bool.
From F8 Require Import Codec.Bytes Codec.Meta Codec.Render Codec.Example C04.Spec_C04 C04.Tokens.
Import ListNotations.
Local Open Scope N_scope.

Definition ex4_header : gmeta := GM
  [ tr 8 15 1 false false true true; tr 9 1 2 false false true true; tr 34 1 6 true false false false;
    tr 35 15 3 false false false true; tr 49 15 4 true false false false; tr 50 15 7 false false false false;
    tr 56 15 5 true false false false ]
  [] true.

Definition ex4_ctx : ctx := mkCtx
  ((50, 15) :: c_fields ex_ctx) (c_msgs ex_ctx) ex4_header (c_trailer ex_ctx)
  (c_hdr_init ex_ctx) (c_trl_init ex_ctx) (c_begin ex_ctx) render_default.

Definition fix42 : list N := [70; 73; 88; 46; 52; 46; 50].
Definition hdr_toks : list tok := [T 49 [65]; T 56 [66]; T 34 [55]].          (* 49=A 56=B 34=7 *)

(* Heartbeat: 8=FIX.4.2|9=..|35=0|49=A|56=B|34=7|112=TEST|10=..| *)
Definition w_valid : list N := mk_wire fix42 [48] (hdr_toks ++ [T 112 [84; 69; 83; 84]]).
(* (a) ...|34=7|9998=x|112=TESTID|10=..|  unknown tag after the last mandatory field *)
Definition toks_a : list tok := framed_toks fix42 [48] (hdr_toks ++ [T 9998 [120]; T 112 [84; 69; 83; 84; 73; 68]]).
(* (b) ...|34=7|65648=zz|10=..|   65648 = 65536 + 112 *)
Definition toks_b : list tok := framed_toks fix42 [48] (hdr_toks ++ [T 65648 [122; 122]]).
(* (c) ...|34=7|112=a|50=sub|10=..|   header-only tag 50 in the body *)
Definition toks_c : list tok := framed_toks fix42 [48] (hdr_toks ++ [T 112 [97]; T 50 [115; 117; 98]]).

(* NewOrderList "E": 66=L1|73=2|11=O1|38=1.5|11=O2|78=2|79=X|80=2.0|79=Y|58=hi|  two orders, the
   second with two nested allocations *)
Definition toks_list : list tok := framed_toks fix42 [69]
  (hdr_toks ++ [T 66 [76; 49]; T 73 [50]; T 11 [79; 49]; T 38 [49; 46; 53]; T 11 [79; 50]; T 78 [50];
                T 79 [88]; T 80 [50; 46; 48]; T 79 [89]; T 58 [104; 105]]).
