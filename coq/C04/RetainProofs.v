(* C04: retention -- on the inputs of c04_exact_partial the accepted object holds every token, and
   the whole oracle c04_ok holds on the model's result. *)
From Coq Require Import NArith ZArith List Bool Lia Permutation.
From F8 Require Import Codec.Bytes Codec.Meta Codec.Extract Codec.Decode Codec.Encode
                       C04.Spec_C04 C04.Strict C04.Tokens C04.Sound C04.SoundProofs C04.BytesFacts C04.Exact
                       C04.ExactProofs.
Import ListNotations.
Local Open Scope N_scope.

(* ------------------------------------------------------------------ induction on objects *)
Lemma mbase_ind' (P : mbase -> Prop) :
  (forall fp subs fields pos groups unk,
     Forall (fun g : N * list mbase => Forall P (snd g)) groups -> P (MB fp subs fields pos groups unk)) ->
  forall m, P m.
Proof.
  intros H. fix IH 1. intros [fp subs fields pos groups unk]. apply H.
  induction groups as [|[f els] r IHr]; constructor; [|exact IHr].
  cbn [snd]. induction els as [|e es IHe]; constructor; [apply IH | exact IHe].
Qed.

(* ------------------------------------------------------------------ the dump of an object *)
Definition known (c : ctx) (e : N * list N) : Prop := find_be (c_fields c) (fst e) <> None.
Definition rp (c : ctx) (e : N * list N) : N * list N := (fst e, c_render c (ftype c (fst e)) (snd e)).

Lemma printed_known c fp f v : find_be (c_fields c) f <> None -> printed c fp f v = c_render c (ftype c f) v.
Proof.
  intros H. unfold printed, ftype_of, ftype. destruct (find_be (c_fields c) f); [reflexivity | congruence].
Qed.

Lemma map_flat_map {A B C} (f : B -> C) (g : A -> list B) l :
  map f (flat_map g l) = flat_map (fun x => map f (g x)) l.
Proof. induction l as [|x r IH]; cbn [flat_map map]; [reflexivity|]. rewrite map_app, IH. reflexivity. Qed.
Lemma flat_map_map {A B C} (f : A -> B) (g : B -> list C) l :
  flat_map g (map f l) = flat_map (fun x => g (f x)) l.
Proof. induction l as [|x r IH]; cbn [flat_map map]; [reflexivity|]. rewrite IH. reflexivity. Qed.
Lemma flat_map_ext_in {A B} (f g : A -> list B) l : (forall x, In x l -> f x = g x) -> flat_map f l = flat_map g l.
Proof.
  induction l as [|x r IH]; intros H; cbn [flat_map]; [reflexivity|].
  rewrite (H x (or_introl eq_refl)), IH; [reflexivity|]. intros y Hy. apply H. right. assumption.
Qed.

Lemma flat_obs c : forall m, Forall (known c) (mflat m) -> flat (obs_of_mbase c m) = map (rp c) (mflat m).
Proof.
  induction m as [fp subs fields pos groups unk IH] using mbase_ind'. intros Hk.
  cbn [obs_of_mbase flat mflat] in *. rewrite map_app. apply Forall_app in Hk. destruct Hk as [Hkp Hkg]. f_equal.
  - rewrite map_map. apply map_ext_in. intros e He. unfold rp. cbn [fst snd]. f_equal.
    apply printed_known. rewrite Forall_forall in Hkp. apply (Hkp (snd e)). apply in_map. assumption.
  - rewrite flat_map_map, map_flat_map. apply flat_map_ext_in. intros g Hg. cbn [snd].
    rewrite flat_map_map, map_flat_map. apply flat_map_ext_in. intros e He.
    rewrite Forall_forall in IH. specialize (IH g Hg). rewrite Forall_forall in IH. apply (IH e He).
    rewrite Forall_forall in Hkg |- *. intros x Hx. apply Hkg. apply in_flat_map. exists g. split; [assumption|].
    apply in_flat_map. exists e. split; assumption.
Qed.

(* ------------------------------------------------------------------ matching is equality of keys *)
Definition cls (ty : N) (v : list N) : Z + list N :=
  if is_int_type ty then match int_value v with Some z => inl z | None => inr v end else inr v.
Definition key (c : ctx) (e : N * list N) : N * (Z + list N) := (fst e, cls (ftype c (fst e)) (snd e)).

Lemma val_eq_cls ty a b : val_eq ty a b = true <-> cls ty a = cls ty b.
Proof.
  unfold val_eq, cls. split.
  - intros H. apply orb_true_iff in H. destruct H as [H|H].
    + apply list_eqb_eq in H. subst. reflexivity.
    + apply andb_true_iff in H. destruct H as [Hi H]. rewrite Hi.
      destruct (int_value a), (int_value b); try discriminate. apply Z.eqb_eq in H. subst. reflexivity.
  - intros H. apply orb_true_iff. destruct (is_int_type ty).
    + destruct (int_value a) as [x|], (int_value b) as [y|]; try discriminate.
      * right. injection H as ->. cbn [andb]. apply Z.eqb_refl.
      * left. injection H as ->. apply list_eqb_refl.
    + left. injection H as ->. apply list_eqb_refl.
Qed.

Lemma tok_match_key c t e : tok_match c t e = true <-> key c (tok_pair t) = key c e.
Proof.
  unfold tok_match, key, tok_pair. cbn [fst snd]. split.
  - intros H. apply andb_true_iff in H. destruct H as [H1 H2]. apply N.eqb_eq in H1. rewrite <- H1.
    f_equal. apply val_eq_cls. assumption.
  - intros H. injection H as H1 H2. apply andb_true_iff. split; [apply N.eqb_eq; assumption|].
    apply val_eq_cls. rewrite H2, H1. reflexivity.
Qed.

Lemma remove_first_perm {A} (p : A -> bool) l l' :
  remove_first p l = Some l' -> exists x, p x = true /\ Permutation l (x :: l').
Proof.
  revert l'. induction l as [|y r IH]; intros l' H; cbn [remove_first] in H; [discriminate|].
  destruct (p y) eqn:E.
  - injection H as <-. exists y. split; [assumption | reflexivity].
  - destruct (remove_first p r) as [r'|]; [|discriminate]. injection H as <-.
    destruct (IH r' eq_refl) as (x & Hx & Hp). exists x. split; [assumption|].
    eapply perm_trans; [apply perm_skip; exact Hp | apply perm_swap].
Qed.
Lemma remove_first_some {A} (p : A -> bool) l x : In x l -> p x = true -> exists l', remove_first p l = Some l'.
Proof.
  induction l as [|y r IH]; intros Hin Hp; [destruct Hin|]. cbn [remove_first].
  destruct (p y) eqn:E; [eauto|]. destruct Hin as [->|Hin]; [congruence|].
  destruct (IH Hin Hp) as (l' & ->). eauto.
Qed.

Lemma ms_incl_complete c : forall toks pool extra,
  Permutation (map (key c) pool) (map (fun t => key c (tok_pair t)) toks ++ extra) ->
  ms_incl c toks pool = true.
Proof.
  induction toks as [|t r IH]; intros pool extra Hp; [reflexivity|]. cbn [ms_incl map app] in *.
  assert (Hin : In (key c (tok_pair t)) (map (key c) pool)).
  { apply (Permutation_in _ (Permutation_sym Hp)). left. reflexivity. }
  apply in_map_iff in Hin. destruct Hin as (e & He & Hine).
  destruct (remove_first_some (tok_match c t) pool e Hine ltac:(apply tok_match_key; symmetry; assumption)) as (pool' & Hrf).
  rewrite Hrf. destruct (remove_first_perm _ _ _ Hrf) as (x & Hx & Hperm).
  apply tok_match_key in Hx. apply (IH pool' extra).
  apply (Permutation_cons_inv (a := key c (tok_pair t))).
  eapply perm_trans; [|exact Hp]. rewrite Hx.
  apply Permutation_sym. apply (Permutation_map (key c)) in Hperm. exact Hperm.
Qed.

(* ------------------------------------------------------------------ the oracle on the model's result *)
Lemma rendered_facts c toks : rendered c toks = true ->
  (forall t, In t toks -> known c (tok_pair t) /\ key c (rp c (tok_pair t)) = key c (tok_pair t)) /\
  (forall t8 t9 r, toks = t8 :: t9 :: r ->
     k_val t8 = c_begin c /\
     cls (ftype c 9) (k_val t9) =
     cls (ftype c 9) (c_render c (ftype c 9) (itoa_Z (to_i32 (Z.of_N (fast_atoi_u32 (k_val t9))))))).
Proof.
  unfold rendered. intros H. apply andb_true_iff in H. destruct H as [H1 H2]. split.
  - intros t Ht. rewrite forallb_forall in H1. specialize (H1 _ Ht). unfold tok_rendered in H1.
    apply andb_true_iff in H1. destruct H1 as [Hk Hv]. split.
    + unfold known, tok_pair. cbn [fst]. destruct (find_be (c_fields c) (k_tag t)); [discriminate | discriminate].
    + unfold key, rp, tok_pair. cbn [fst snd]. f_equal. symmetry. apply val_eq_cls. assumption.
  - intros t8 t9 r ->. apply andb_true_iff in H2. destruct H2 as [H2 H3]. split; [apply list_eqb_eq; assumption|].
    apply val_eq_cls. assumption.
Qed.

Lemma c04_ok_lemma c toks :
  wf_ctx c = true -> exact_hyps c toks = true -> rendered c toks = true ->
  struct_verdict c toks <> VIllegal ->
  c04_ok c (ser toks) (outcome_of c (strict_factory c (ser toks))) = true.
Proof.
  intros Hwf Hhyp Hren Hill.
  pose proof (exact_full_lemma c toks Hwf Hhyp Hill) as HF.
  destruct (exact_hyps_facts _ _ Hhyp) as (Hfr & Hok & _).
  assert (Htk : tokenize (ser toks) = Some toks) by (eapply tokenize_ser; eassumption).
  destruct (strict_factory c (ser toks)) as [m|e| | |]; cbn [outcome_of c04_ok]; try contradiction.
  2:{ rewrite HF. reflexivity. }
  destruct HF as (Hconf & extra & Hperm & Hextra). rewrite Hconf, Htk. cbn [andb].
  destruct (rendered_facts _ _ Hren) as (Htoks & Hhead).
  destruct (frame_split _ Hfr) as (t8 & t9 & t35 & mid & t10 & Etoks & E8 & E9 & E35 & E10 & L10 & Elast & Emid).
  destruct (Hhead _ _ _ Etoks) as (Hb8 & Hb9).
  assert (Hexp : expected_pairs c toks =
                 [tok_pair t8; (9, itoa_Z (to_i32 (Z.of_N (fast_atoi_u32 (k_val t9))))); tok_pair t35; tok_pair t10]
                 ++ map tok_pair mid).
  { unfold expected_pairs. rewrite Etoks at 1. rewrite Elast, Emid. unfold tok_pair. rewrite E8, E35, E10, Hb8. reflexivity. }
  (* every entry of the object belongs to a known field *)
  assert (Hin : forall t, In t [t8; t9; t35; t10] \/ In t mid -> In t toks).
  { intros t Ht. rewrite Etoks. destruct Ht as [[<-|[<-|[<-|[<-|[]]]]]|Ht]; cbn [In]; auto.
    - right. right. right. apply in_or_app. right. left. reflexivity.
    - right. right. right. apply in_or_app. left. assumption. }
  assert (Hk9 : known c (9, itoa_Z (to_i32 (Z.of_N (fast_atoi_u32 (k_val t9)))))).
  { destruct (Htoks t9 (Hin t9 ltac:(left; cbn; auto))) as [Hk _]. unfold known, tok_pair in *. cbn [fst] in *.
    rewrite E9 in Hk. exact Hk. }
  assert (Hkall : Forall (known c) (mflat (m_hdr m) ++ mflat (m_body m) ++ mflat (m_trl m))).
  { apply Forall_forall. intros e He. apply (Permutation_in _ Hperm) in He. apply in_app_or in He.
    destruct He as [He|He].
    - rewrite Hexp in He. apply in_app_or in He. destruct He as [He|He].
      + destruct He as [<-|[<-|[<-|[<-|[]]]]]; try exact Hk9;
          match goal with |- known c (tok_pair ?t) => apply (Htoks t); apply Hin; left; cbn; auto end.
      + apply in_map_iff in He. destruct He as (t & <- & Ht). apply (Htoks t). apply Hin. right. assumption.
    - apply Hextra in He. apply in_map_iff in He. destruct He as (t & <- & Ht). apply (Htoks t Ht). }
  apply Forall_app in Hkall. destruct Hkall as [KH Hkall]. apply Forall_app in Hkall. destruct Hkall as [KB KT].
  unfold retains, flat_msg, obs_of_msg. cbn [o_hdr o_body o_trl].
  rewrite (flat_obs c _ KH), (flat_obs c _ KB), (flat_obs c _ KT), <- !map_app.
  apply (ms_incl_complete c toks _ (map (key c) (map (rp c) extra))).
  eapply perm_trans; [apply Permutation_map; apply Permutation_map; exact Hperm|].
  rewrite !map_app. apply Permutation_app_tail.
  rewrite Hexp, Etoks. rewrite !map_app. cbn [map app].
  destruct (Htoks t8 (Hin t8 ltac:(left; cbn; auto))) as [_ K8].
  destruct (Htoks t35 (Hin t35 ltac:(left; cbn; auto))) as [_ K35].
  destruct (Htoks t10 (Hin t10 ltac:(left; cbn; auto))) as [_ K10].
  rewrite K8, K35, K10.
  assert (K9 : key c (rp c (9, itoa_Z (to_i32 (Z.of_N (fast_atoi_u32 (k_val t9)))))) = key c (tok_pair t9)).
  { unfold key, rp, tok_pair. cbn [fst snd]. rewrite E9. f_equal. symmetry. exact Hb9. }
  rewrite K9.
  assert (KM : map (key c) (map (rp c) (map tok_pair mid)) = map (fun t => key c (tok_pair t)) mid).
  { rewrite !map_map. apply map_ext_in. intros t Ht. apply (Htoks t). apply Hin. right. assumption. }
  rewrite KM. do 3 apply perm_skip. rewrite map_app. cbn [map]. apply Permutation_cons_append.
Qed.
