(* C04: proof of c04_exact_partial -- the decoder model and the spec's greedy parse walk the
   token list in lockstep (induction on the model's fuel; the spec's fuel is any amount above
   three units per remaining token). *)
From Coq Require Import NArith ZArith List Bool Lia Permutation.
From F8 Require Import Codec.Bytes Codec.Meta Codec.Extract Codec.Decode Codec.Encode
                       C04.Spec_C04 C04.Strict C04.Tokens C04.Sound C04.SoundProofs C04.BytesFacts C04.Exact.
Import ListNotations.
Local Open Scope N_scope.

(* ------------------------------------------------------------------ what tok_ok gives *)
Lemma val_ok_facts v : val_ok v = true ->
  no_soh v /\ lenN v < 2048 /\ Forall (fun b => b <> 0) v /\ Forall (fun b => b < 256) v.
Proof.
  unfold val_ok. intros H. apply andb_true_iff in H. destruct H as [H Hl]. apply N.ltb_lt in Hl.
  rewrite forallb_forall in H.
  assert (Hall : forall b, In b v -> (b =? SOH) = false /\ b <> 0 /\ b < 256).
  { intros b Hb. specialize (H b Hb). apply andb_true_iff in H. destruct H as [H H3].
    apply andb_true_iff in H. destruct H as [H1 H2]. apply negb_true_iff in H1, H2.
    apply N.eqb_neq in H2. apply N.ltb_lt in H3. auto. }
  split; [apply Forall_forall; intros b Hb; apply Hall; assumption|]. split; [assumption|].
  split; apply Forall_forall; intros b Hb; apply Hall; assumption.
Qed.

Lemma tok_ok_facts c t : tok_ok c t = true ->
  k_tag t < 65536 /\ val_ok (k_val t) = true /\
  (is_int_type (ftype c (k_tag t)) = true -> canon_int (k_val t) = true) /\
  (ftype c (k_tag t) = ft_Length -> k_tag t = Common_BodyLength).
Proof.
  unfold tok_ok. intros H. apply andb_true_iff in H. destruct H as [H H4].
  apply andb_true_iff in H. destruct H as [H H3]. apply andb_true_iff in H. destruct H as [H1 H2].
  apply N.ltb_lt in H1. split; [assumption|]. split; [assumption|]. split.
  - intros Hi. rewrite Hi in H3. exact H3.
  - intros Hl. rewrite Hl, N.eqb_refl in H4. cbn [andb] in H4. apply negb_true_iff in H4.
    apply negb_false_iff in H4. apply N.eqb_eq. assumption.
Qed.

Lemma toks_ok_cons c t r : toks_ok c (t :: r) = true -> tok_ok c t = true /\ toks_ok c r = true.
Proof. unfold toks_ok. cbn [forallb]. intros H. apply andb_true_iff in H. exact H. Qed.
Lemma toks_ok_app c a b : toks_ok c (a ++ b) = true -> toks_ok c a = true /\ toks_ok c b = true.
Proof. unfold toks_ok. rewrite forallb_app. intros H. apply andb_true_iff in H. exact H. Qed.

(* ------------------------------------------------------------------ at_toks *)
Lemma at_nil from fsize off tail : at_toks from fsize off [] tail -> off = fsize.
Proof. intros (pre & _ & _ & H). cbn in H. lia. Qed.

Lemma tok_at_end cp from fsize : tok_at cp from fsize fsize = XFail [] [] \/ cap_tag cp = 0 \/ cap_val cp = 0.
Proof.
  unfold tok_at, extract_element. rewrite N.sub_diag.
  destruct (N.eq_dec (cap_tag cp) 0) as [E|E]; [right; left; assumption|].
  destruct (N.eq_dec (cap_val cp) 0) as [E2|E2]; [right; right; assumption|]. left.
  destruct (skipN fsize from); cbn [xe_loop]; change (0 <? 0) with false; cbn iota; unfold zero_write;
    (assert (E3 : (0 <? cap_tag cp) = true) by (apply N.ltb_lt; lia));
    (assert (E4 : (0 <? cap_val cp) = true) by (apply N.ltb_lt; lia)); rewrite E3, E4; reflexivity.
Qed.
Lemma tok_at_end_real from fsize : tok_at real_caps from fsize fsize = XFail [] [].
Proof. destruct (tok_at_end real_caps from fsize) as [H|[H|H]]; [assumption | discriminate | discriminate]. Qed.

Lemma at_cons from fsize off t r tail :
  at_toks from fsize off (t :: r) tail -> k_tag t < 65536 -> val_ok (k_val t) = true ->
  (off <? fsize) = true /\ (off <=? fsize) = true /\
  tok_at real_caps from fsize off = XOk (itoa_N (k_tag t)) (k_val t) (lenN (ser_tok t)) /\
  at_toks from fsize (off + lenN (ser_tok t)) r tail.
Proof.
  intros (pre & Hfrom & Hoff & Hfs) Htag Hval.
  destruct (val_ok_facts _ Hval) as (Hsoh & Hlen & _ & _).
  rewrite ser_cons, lenN_app in Hfs. pose proof (lenN_ser_tok_pos t) as Hpos.
  split; [apply N.ltb_lt; lia|]. split; [apply N.leb_le; lia|]. split.
  - unfold tok_at. rewrite Hfrom, Hoff, skipN_app. rewrite ser_cons, <- app_assoc.
    apply extract_ser_tok.
    + split; assumption.
    + cbn [real_caps cap_tag]. pose proof (itoa_len_small _ Htag). unfold MAX_FLD_LENGTH. lia.
    + lia.
  - exists (pre ++ ser_tok t). split; [|split].
    + rewrite Hfrom, ser_cons, <- !app_assoc. reflexivity.
    + rewrite lenN_app. lia.
    + lia.
Qed.

Lemma at_suffix from fsize off a b tail :
  at_toks from fsize off (a ++ b) tail -> at_toks from fsize (off + lenN (ser a)) b tail.
Proof.
  intros (pre & Hfrom & Hoff & Hfs). exists (pre ++ ser a). rewrite ser_app in *. split; [|split].
  - rewrite Hfrom, <- !app_assoc. reflexivity.
  - rewrite lenN_app. lia.
  - rewrite lenN_app in Hfs. lia.
Qed.

(* ------------------------------------------------------------------ counts *)
Lemma dec_digits_ge : forall l acc n, dec_digits l acc = Some n -> acc <= n.
Proof.
  induction l as [|x r IH]; intros acc n H; cbn [dec_digits] in H.
  - injection H as <-. lia.
  - destruct (is_digit x); [|discriminate]. apply IH in H. lia.
Qed.
Lemma dec_digits_all : forall l acc n, dec_digits l acc = Some n -> all_digits l.
Proof.
  induction l as [|x r IH]; intros acc n H; cbn [dec_digits] in H; [constructor|].
  destruct (is_digit x) eqn:E; [|discriminate]. constructor; [assumption | eapply IH; eassumption].
Qed.
Lemma atoi_digits (m : Z) : forall l acc n, dec_digits l acc = Some n -> (Z.of_N n < m)%Z ->
  fold_left (atoi_step m) l (Z.of_N acc) = Z.of_N n.
Proof.
  induction l as [|x r IH]; intros acc n H Hm; cbn [dec_digits fold_left] in *.
  - injection H as <-. reflexivity.
  - destruct (is_digit x) eqn:E; [|discriminate]. pose proof (dec_digits_ge _ _ _ H) as Hge.
    apply digit_range in E. unfold atoi_step at 2, schar.
    destruct (x <? 128) eqn:E2; [|apply N.ltb_ge in E2; lia].
    rewrite Z.mod_small by lia.
    replace (Z.of_N acc * 10 + Z.of_N x - 48)%Z with (Z.of_N (acc * 10 + (x - 48))) by lia.
    apply IH; assumption.
Qed.

Lemma canon_int_value v : canon_int v = true ->
  exists n, nat_value v = Some n /\ n < 2147483648 /\ fast_atoi_i32 v = Z.of_N n /\
            int_value v = Some (Z.of_N n) /\ all_digits v /\ v <> [].
Proof.
  unfold canon_int. destruct (nat_value v) as [n|] eqn:E; [|discriminate]. intros H. apply N.ltb_lt in H.
  exists n. split; [reflexivity|]. split; [assumption|].
  assert (Hne : v <> []) by (destruct v; [discriminate | discriminate]).
  assert (Hd : dec_digits v 0 = Some n) by (destruct v; [congruence | exact E]).
  pose proof (dec_digits_all _ _ _ Hd) as Hall.
  split.
  - unfold fast_atoi_i32, fast_atoi_mod. rewrite cstr_nonzero by (apply digits_nonzero; assumption).
    pose proof (atoi_digits two32 v 0 n Hd ltac:(unfold two32; lia)) as HA.
    change (Z.of_N 0) with 0%Z in HA. rewrite HA.
    unfold to_i32, two32, two31. rewrite Z.mod_small by lia.
    destruct (Z.of_N n <? 2147483648)%Z eqn:E2; [reflexivity | apply Z.ltb_ge in E2; lia].
  - split; [|split; assumption].
    unfold int_value. destruct v as [|x r]; [congruence|].
    inversion Hall as [|? ? Hx _]; subst. apply digit_range in Hx.
    destruct (N.eq_dec x 45) as [->|Hne45]; [lia|].
    assert (Hm : match x with 45 => false | _ => true end = true).
    { destruct x as [|p]; [reflexivity|]. do 6 (destruct p as [p|p|]; try reflexivity). congruence. }
    rewrite E. destruct x as [|p]; [reflexivity|]. do 6 (destruct p as [p|p|]; try reflexivity). congruence.
Qed.

Lemma count_agree v : canon_int v = true -> has_group_count (cstr v) = count_pos v.
Proof.
  intros H. destruct (canon_int_value v H) as (n & _ & _ & Ha & Hi & Hall & _).
  rewrite cstr_nonzero by (apply digits_nonzero; assumption).
  unfold has_group_count, count_pos. rewrite Ha, Hi. reflexivity.
Qed.

(* ------------------------------------------------------------------ seen sets and present bits *)
Definition seen_rel (fp : list trait) (seen : list N) : Prop :=
  forall f, memN f seen = true <-> present_in fp f.

Lemma memN_cons x y l : memN x (y :: l) = (x =? y) || memN x l.
Proof. reflexivity. Qed.

Lemma seen_rel_mark fp seen f tr :
  seen_rel fp seen -> find_trait fp f = Some tr ->
  seen_rel (upd_trait (set_present true) fp f) (f :: seen).
Proof.
  intros H Hf f'. rewrite memN_cons. split.
  - intros E. apply (present_mark _ _ _ f' Hf). apply orb_true_iff in E.
    destruct E as [E|E]; [left; apply N.eqb_eq; assumption | right; apply H; assumption].
  - intros P. apply (present_mark _ _ _ f' Hf) in P. apply orb_true_iff.
    destruct P as [->|P]; [left; apply N.eqb_refl | right; apply H; assumption].
Qed.

Lemma seen_present fp seen f tr :
  seen_rel fp seen -> find_trait fp f = Some tr -> t_present tr = memN f seen.
Proof.
  intros H Hf. destruct (memN f seen) eqn:E.
  - apply H in E. destruct E as (tr' & Hf' & Hp). congruence.
  - destruct (t_present tr) eqn:Hp; [|reflexivity].
    assert (E2 : memN f seen = true) by (apply H; exists tr; auto). congruence.
Qed.

Lemma find_trait_nodup ts x : NoDup (map t_fnum ts) -> In x ts -> find_trait ts (t_fnum x) = Some x.
Proof.
  induction ts as [|y r IH]; intros Hnd Hin; [destruct Hin|]. cbn [find_trait map] in *.
  inversion Hnd as [|? ? Hny Hnd']; subst. destruct Hin as [->|Hin].
  - rewrite N.eqb_refl. reflexivity.
  - destruct (t_fnum y =? t_fnum x) eqn:E; [|auto].
    apply N.eqb_eq in E. exfalso. apply Hny. rewrite E. apply in_map. assumption.
Qed.

Lemma same_table_fnums fp ts : same_table fp ts -> map t_fnum fp = map t_fnum ts.
Proof.
  unfold same_table. revert ts. induction fp as [|x r IH]; intros [|y s] H; cbn [map] in *; try discriminate; [reflexivity|].
  pose proof (f_equal (@hd trait (strip x)) H) as Hxy. pose proof (f_equal (@tl trait) H) as Hrs.
  cbn [hd tl] in Hxy, Hrs. rewrite (fnum_strip _ _ Hxy), (IH _ Hrs). reflexivity.
Qed.

Lemma find_missing_none ts : find_missing ts = None <-> forall x, In x ts -> t_mand x = true -> t_present x = true.
Proof.
  induction ts as [|y r IH]; cbn [find_missing]; [split; [intros _ x [] | reflexivity]|].
  destruct (t_mand y && negb (t_present y)) eqn:E.
  - split; [discriminate|]. intros H. apply andb_true_iff in E. destruct E as [E1 E2].
    apply negb_true_iff in E2. rewrite (H y (or_introl eq_refl) E1) in E2. discriminate.
  - rewrite IH. split.
    + intros H x [<-|Hin] Hm; [|auto]. rewrite Hm in E. cbn in E. apply negb_false_iff in E. assumption.
    + intros H x Hin. apply H. right. assumption.
Qed.

(* the mandatory test of the decoder on the object = the spec's mandatory test on the seen set *)
Lemma mand_rel g fp seen :
  nodupN (map t_fnum (g_traits g)) = true -> same_table fp (g_traits g) -> seen_rel fp seen ->
  (find_missing fp = None <-> mand_ok g seen = true).
Proof.
  intros Hnd Hst Hsr. apply nodupN_NoDup in Hnd.
  assert (Hnd' : NoDup (map t_fnum fp)) by (rewrite (same_table_fnums _ _ Hst); assumption).
  rewrite find_missing_none. unfold mand_ok. rewrite forallb_forall. split.
  - intros H tr Hin. destruct (t_mand tr) eqn:Hm; [|reflexivity]. cbn [negb orb].
    pose proof (find_trait_nodup _ _ Hnd Hin) as Hf.
    pose proof (same_table_find fp (g_traits g) (t_fnum tr) Hst) as E. rewrite Hf in E.
    destruct (find_trait fp (t_fnum tr)) as [x|] eqn:Hfx; cbn [option_map] in E; [|discriminate].
    assert (Hs : strip x = strip tr) by congruence.
    destruct (find_trait_fnum _ _ _ Hfx) as [_ Hinx].
    apply Hsr. exists x. split; [assumption|]. apply H; [assumption|]. rewrite (mand_strip _ _ Hs). assumption.
  - intros H x Hin Hm.
    pose proof (find_trait_nodup _ _ Hnd' Hin) as Hfx.
    destruct (same_table_find_some _ _ _ _ Hst Hfx) as (tr & Hf & Hs).
    destruct (find_trait_fnum _ _ _ Hf) as [Hn Hintr].
    specialize (H _ Hintr). rewrite <- (mand_strip _ _ Hs), Hm in H. cbn [negb orb] in H.
    rewrite Hn in H. apply Hsr in H. destruct H as (x' & Hfx' & Hp). congruence.
Qed.

(* ------------------------------------------------------------------ mflat *)
Definition gflat (gs : list (N * list mbase)) : list (N * list N) :=
  flat_map (fun g => flat_map mflat (snd g)) gs.
Lemma mflat_eq m : mflat m = map snd (mb_pos m) ++ gflat (mb_groups m).
Proof. destruct m; reflexivity. Qed.

Lemma mflat_add m f p v :
  Permutation (mflat (mark_present (add_field_decoder m f p v) f)) ((f, v) :: mflat m).
Proof.
  rewrite !mflat_eq, pos_mark, pos_afd, groups_mark, groups_afd. unfold pos_insert.
  change ((f, v) :: map snd (mb_pos m) ++ gflat (mb_groups m))
    with (((f, v) :: map snd (mb_pos m)) ++ gflat (mb_groups m)).
  apply Permutation_app_tail.
  change ((f, v) :: map snd (mb_pos m)) with (map snd ((pos_key p, (f, v)) :: mb_pos m)).
  apply Permutation_map. apply pos_insert_k_perm.
Qed.

Lemma gflat_insert f gs : gflat (map_insert f [] gs) = gflat gs.
Proof.
  induction gs as [|[k v] r IH]; cbn [map_insert]; [reflexivity|].
  destruct (f <? k); [reflexivity|]. destruct (f =? k); [reflexivity|].
  unfold gflat in *. cbn [flat_map]. rewrite IH. reflexivity.
Qed.
Lemma map_find_insert {A} f (v : A) gs : exists l, map_find f (map_insert f v gs) = Some l.
Proof.
  induction gs as [|[k w] r IH]; cbn [map_insert].
  - exists v. cbn [map_find]. rewrite N.eqb_refl. reflexivity.
  - destruct (f <? k) eqn:E1.
    + exists v. cbn [map_find]. rewrite N.eqb_refl. reflexivity.
    + destruct (f =? k) eqn:E2.
      * exists w. cbn [map_find]. rewrite E2. reflexivity.
      * destruct IH as (l & Hl). exists l. cbn [map_find]. rewrite E2. exact Hl.
Qed.
Lemma gflat_set f els0 new gs :
  map_find f gs = Some els0 ->
  Permutation (gflat (map_set f (els0 ++ new) gs)) (gflat gs ++ flat_map mflat new).
Proof.
  induction gs as [|[k v] r IH]; cbn [map_find map_set]; [discriminate|].
  destruct (f =? k) eqn:E.
  - intros H; injection H as ->. unfold gflat. cbn [flat_map snd]. rewrite flat_map_app.
    rewrite <- !app_assoc. apply Permutation_app_head. apply Permutation_app_comm.
  - intros H. unfold gflat in *. cbn [flat_map snd]. rewrite <- app_assoc.
    apply Permutation_app_head. apply IH. assumption.
Qed.

(* ------------------------------------------------------------------ schema facts *)
Lemma wf_trait2 c elem g f tr :
  wf_table c elem g = true -> find_trait (g_traits g) f = Some tr ->
  find_be (c_fields c) f = Some (t_ftype tr) /\
  (t_group tr = true -> is_int_type (t_ftype tr) = true /\
                        exists sg, find_sub (g_subs g) f = Some sg /\ wf_table c true sg = true) /\
  (elem = true -> t_haspos tr = true /\ t_auto tr = false /\ t_present tr = false).
Proof.
  intros Hwf Hf. destruct (wf_table_unfold _ _ _ Hwf) as (_ & Hall & Hsubs).
  destruct (find_trait_fnum _ _ _ Hf) as [Hn Hin].
  rewrite forallb_forall in Hall. specialize (Hall _ Hin). unfold trait_ok in Hall. rewrite Hn in Hall.
  apply andb_true_iff in Hall. destruct Hall as [Hall H4]. apply andb_true_iff in Hall. destruct Hall as [Hall H3].
  apply andb_true_iff in Hall. destruct Hall as [H1 H2].
  split.
  - destruct (find_be (c_fields c) f) as [ty|]; [|discriminate]. apply N.eqb_eq in H2. congruence.
  - split.
    + intros Hg. rewrite Hg in H3. cbn [negb orb] in H3. apply andb_true_iff in H3. destruct H3 as [H3 H5].
      split; [assumption|]. destruct (find_sub (g_subs g) f) as [sg|] eqn:E; [|discriminate].
      exists sg. split; [reflexivity | eapply Hsubs; eassumption].
    + intros ->. cbn [negb orb] in H4. apply andb_true_iff in H4. destruct H4 as [H4 H6].
      apply andb_true_iff in H4. destruct H4 as [H4 H5].
      apply negb_true_iff in H4, H6. auto.
Qed.

Lemma ftype_find c f ty : find_be (c_fields c) f = Some ty -> ftype c f = ty.
Proof. unfold ftype. intros ->. reflexivity. Qed.

(* ------------------------------------------------------------------ group elements in lockstep *)
Definition elem_rel (sg : gmeta) (grp : mbase) (seen : list N) (pos : N) : Prop :=
  same_table (mb_fp grp) (g_traits sg) /\ mb_subs grp = g_subs sg /\
  seen_rel (mb_fp grp) seen /\ (pos = 0 <-> seen = []).

Definition stopw (seen : list N) (rest : list tok) : stop :=
  match rest with [] => SEnd | t :: _ => if memN (k_tag t) seen then SDup else SForeign end.

Lemma elem_rel_add sg grp seen pos f tr v :
  elem_rel sg grp seen pos -> find_trait (mb_fp grp) f = Some tr ->
  elem_rel sg (mark_present (add_field_decoder grp f (pos + 1) v) f) (f :: seen) (pos + 1).
Proof.
  intros (H1 & H2 & H3 & H4) Hf. unfold elem_rel. rewrite fp_mark, fp_afd, subs_mark, subs_afd.
  split; [apply same_table_mark; assumption|]. split; [assumption|].
  split; [eapply seen_rel_mark; eassumption|]. split; [lia | discriminate].
Qed.
Lemma elem_rel_same sg m m' seen pos :
  mb_fp m' = mb_fp m -> mb_subs m' = mb_subs m -> elem_rel sg m seen pos -> elem_rel sg m' seen pos.
Proof. unfold elem_rel. intros -> ->. trivial. Qed.

Lemma mflat_add_tok grp t p :
  Permutation (mflat (mark_present (add_field_decoder grp (k_tag t) p (k_val t)) (k_tag t)))
              (mflat grp ++ tok_pair t :: map tok_pair []).
Proof.
  eapply perm_trans; [apply mflat_add|]. cbn [map]. apply Permutation_cons_append.
Qed.

Section Lockstep.
Variable c : ctx. Variable from : list N. Variable fsize : N.
Notation DGE := (dg_elem c real_caps from fsize).
Notation DGL := (dg_loop c real_caps from fsize).
Notation DGG := (decode_group c real_caps from fsize).

Definition stmtEL (mf : nat) : Prop := forall sg grp pos off ts tail seen sf,
  wf_table c true sg = true -> elem_rel sg grp seen pos -> toks_ok c ts = true ->
  at_toks from fsize off ts tail -> (3 * length ts + 1 <= sf)%nat ->
  DGE mf grp pos off <> Fuel ->
  match sp_fields sf sg true seen ts with
  | PViol => exists e, DGE mf grp pos off = Exc e
  | PRest seen' rest =>
      exists grp' pos' consumed, ts = consumed ++ rest /\
        DGE mf grp pos off = Ok (grp', pos', off + lenN (ser consumed), stopw seen' rest) /\
        elem_rel sg grp' seen' pos' /\ (consumed = [] -> seen' = seen) /\
        Permutation (mflat grp') (mflat grp ++ map tok_pair consumed)
  end.

Definition stmtGL (mf : nat) : Prop := forall gm els off ts tail sf,
  wf_table c true gm = true -> toks_ok c ts = true ->
  at_toks from fsize off ts tail -> (3 * length ts + 2 <= sf)%nat ->
  DGL mf gm els off <> Fuel ->
  match sp_elems sf gm ts with
  | None => exists e, DGL mf gm els off = Exc e
  | Some rest =>
      exists new consumed, ts = consumed ++ rest /\
        DGL mf gm els off = Ok (els ++ new, off + lenN (ser consumed)) /\
        Permutation (flat_map mflat new) (map tok_pair consumed)
  end.

Definition stmtDL (mf : nat) : Prop := forall m f sg off ts tail sf,
  find_sub (mb_subs m) f = Some sg -> wf_table c true sg = true -> toks_ok c ts = true ->
  at_toks from fsize off ts tail -> (3 * length ts + 2 <= sf)%nat ->
  DGG mf m f off <> Fuel ->
  match sp_elems sf sg ts with
  | None => exists e, DGG mf m f off = Exc e
  | Some rest =>
      exists m' consumed, ts = consumed ++ rest /\
        DGG mf m f off = Ok (m', off + lenN (ser consumed)) /\
        mb_fp m' = mb_fp m /\ mb_pos m' = mb_pos m /\ mb_subs m' = mb_subs m /\
        Permutation (mflat m') (mflat m ++ map tok_pair consumed)
  end.

Lemma lenN_ser_nil : lenN (ser []) = 0. Proof. reflexivity. Qed.

Lemma stepEL mf : stmtEL mf -> stmtDL mf -> stmtEL (S mf).
Proof.
  intros IHE IHD sg grp pos off ts tail seen sf Hwf Hrel Hok Hat Hsf Hnf.
  destruct sf as [|sf]; [lia|].
  rewrite dg_elem_S in *. cbv zeta in *.
  destruct ts as [|t r].
  { (* end of the decodable range *)
    rewrite (at_nil _ _ _ _ Hat) in *. rewrite N.ltb_irrefl in *. cbn [sp_fields].
    exists grp, pos, []. cbn [app map]. rewrite lenN_ser_nil, N.add_0_r, app_nil_r.
    split; [reflexivity|]. split; [reflexivity|]. split; [assumption|]. split; [reflexivity|]. reflexivity. }
  destruct (toks_ok_cons _ _ _ Hok) as [Hokt Hokr].
  destruct (tok_ok_facts _ _ Hokt) as (Htag & Hval & Hint & _).
  destruct (at_cons _ _ _ _ _ _ Hat Htag Hval) as (Hlt & _ & Htok & Hat1).
  rewrite Hlt, Htok in *.
  rewrite (atoi_u32_itoa (k_tag t)) in * by lia. rewrite (N.mod_small (k_tag t) 65536) in * by assumption.
  destruct (val_ok_facts _ Hval) as (_ & _ & Hnz & _).
  rewrite (cstr_nonzero _ Hnz) in *.
  cbn [sp_fields].
  destruct Hrel as (Hst & Hsubs & Hseen & Hpos).
  assert (Hrel : elem_rel sg grp seen pos) by (unfold elem_rel; auto).
  destruct (find_trait (mb_fp grp) (k_tag t)) as [tr|] eqn:Hf.
  2:{ (* foreign tag *)
    rewrite (same_table_find_none _ _ _ Hst Hf). cbn [andb].
    destruct seen as [|s0 seen0].
    - assert (E : pos = 0) by (apply Hpos; reflexivity). rewrite E in *. cbn [N.eqb isnil]. eauto.
    - assert (E : (pos =? 0) = false) by (apply N.eqb_neq; intros E; apply Hpos in E; discriminate).
      rewrite E in *. cbn [isnil]. exists grp, pos, []. cbn [app map]. rewrite lenN_ser_nil, N.add_0_r, app_nil_r.
      assert (Hm : memN (k_tag t) (s0 :: seen0) = false).
      { destruct (memN (k_tag t) (s0 :: seen0)) eqn:Em; [|reflexivity]. apply Hseen in Em.
        destruct Em as (x & Hx & _). congruence. }
      cbn [stopw]. rewrite Hm.
      split; [reflexivity|]. split; [reflexivity|]. split; [assumption|]. split; [reflexivity|]. reflexivity. }
  destruct (same_table_find_some _ _ _ _ Hst Hf) as (tr' & Hf' & Hs). rewrite Hf'.
  rewrite (seen_present _ _ _ _ Hseen Hf) in *.
  destruct (memN (k_tag t) seen) eqn:Hm.
  { (* the tag starts the next element *)
    exists grp, pos, []. cbn [app map stopw]. rewrite lenN_ser_nil, N.add_0_r, app_nil_r, Hm.
    split; [reflexivity|]. split; [reflexivity|]. split; [assumption|]. split; [reflexivity|]. reflexivity. }
  destruct (wf_trait2 _ _ _ _ _ Hwf Hf') as (Hbe & Hgrp & Helem). destruct (Helem eq_refl) as (Hhp & _ & _).
  assert (Hgp : getPos tr = t_pos tr').
  { unfold getPos. rewrite (haspos_strip _ _ Hs), Hhp. apply pos_strip. assumption. }
  rewrite Hgp in *.
  assert (Hnil : (pos =? 0) = isnil seen).
  { destruct seen; cbn [isnil].
    - apply N.eqb_eq. apply Hpos. reflexivity.
    - apply N.eqb_neq. intros E. apply Hpos in E. discriminate. }
  rewrite Hnil in *. cbn [andb].
  destruct (isnil seen && negb (t_pos tr' =? 1)) eqn:Efirst; [eauto|].
  rewrite Hbe in *.
  pose proof (elem_rel_add sg grp seen pos (k_tag t) tr (k_val t) Hrel Hf) as Hrel1.
  set (g1 := mark_present (add_field_decoder grp (k_tag t) (pos + 1) (k_val t)) (k_tag t)) in *.
  set (off1 := off + lenN (ser_tok t)) in *.
  (* the continuation after this field (and its elements, if it is a count field) *)
  assert (Hcont : forall g' cons1 r',
    r = cons1 ++ r' -> elem_rel sg g' (k_tag t :: seen) (pos + 1) ->
    Permutation (mflat g') (mflat grp ++ tok_pair t :: map tok_pair cons1) ->
    DGE mf g' (pos + 1) (off1 + lenN (ser cons1)) <> Fuel ->
    match sp_fields sf sg true (k_tag t :: seen) r' with
    | PViol => exists e, DGE mf g' (pos + 1) (off1 + lenN (ser cons1)) = Exc e
    | PRest seen' rest =>
        exists grp' pos' consumed, t :: r = consumed ++ rest /\
          DGE mf g' (pos + 1) (off1 + lenN (ser cons1)) = Ok (grp', pos', off + lenN (ser consumed), stopw seen' rest) /\
          elem_rel sg grp' seen' pos' /\ (consumed = [] -> seen' = seen) /\
          Permutation (mflat grp') (mflat grp ++ map tok_pair consumed)
    end).
  { intros g' cons1 r' Er Hrel' Hperm Hnf'.
    subst r. destruct (toks_ok_app _ _ _ Hokr) as [_ Hokr'].
    pose proof (at_suffix _ _ _ _ _ _ Hat1) as Hat'.
    assert (Hsf' : (3 * length r' + 1 <= sf)%nat).
    { cbn [length] in Hsf. rewrite app_length in Hsf. lia. }
    pose proof (IHE sg g' (pos + 1) (off1 + lenN (ser cons1)) r' tail (k_tag t :: seen) sf Hwf Hrel' Hokr' Hat' Hsf' Hnf') as HI.
    destruct (sp_fields sf sg true (k_tag t :: seen) r') as [|seen' rest]; [exact HI|].
    destruct HI as (grp' & pos' & cons2 & Er' & Hres & Hrel'' & _ & Hperm2).
    exists grp', pos', (t :: cons1 ++ cons2). split; [|split; [|split; [|split]]].
    - subst r'. cbn [app]. rewrite <- app_assoc. reflexivity.
    - rewrite Hres. f_equal. f_equal. f_equal. unfold off1.
      rewrite ser_cons, ser_app, !lenN_app. lia.
    - assumption.
    - discriminate.
    - eapply perm_trans; [exact Hperm2|].
      eapply perm_trans; [apply Permutation_app_tail; exact Hperm|].
      rewrite <- app_assoc. apply Permutation_app_head. cbn [map app]. rewrite map_app. reflexivity. }
  rewrite (group_strip _ _ Hs) in *.
  destruct (t_group tr') eqn:Hg; cbn [andb] in *.
  2:{ (* plain field *)
    specialize (Hcont g1 [] r eq_refl Hrel1). cbn [ser flat_map lenN map] in Hcont. rewrite N.add_0_r in Hcont.
    apply Hcont; [|assumption]. unfold g1. apply mflat_add_tok. }
  (* count field *)
  destruct (Hgrp eq_refl) as (Hit & sg' & Hsub & Hwf').
  assert (Hcnt : has_group_count (k_val t) = count_pos (k_val t)).
  { rewrite <- (cstr_nonzero _ Hnz) at 1. apply count_agree. apply Hint.
    rewrite (ftype_find _ _ _ Hbe). assumption. }
  rewrite Hcnt in *.
  destruct (count_pos (k_val t)) eqn:Hcp.
  2:{ specialize (Hcont g1 [] r eq_refl Hrel1). cbn [ser flat_map lenN map] in Hcont. rewrite N.add_0_r in Hcont.
      apply Hcont; [|assumption]. unfold g1. apply mflat_add_tok. }
  rewrite Hsub.
  assert (Hsub1 : find_sub (mb_subs g1) (k_tag t) = Some sg').
  { destruct Hrel1 as (_ & Hs1 & _). rewrite Hs1. assumption. }
  assert (Hnf1 : DGG mf g1 (k_tag t) off1 <> Fuel).
  { intros E. rewrite E in Hnf. apply Hnf. reflexivity. }
  assert (Hsf1 : (3 * length r + 2 <= sf)%nat) by (cbn [length] in Hsf; lia).
  pose proof (IHD g1 (k_tag t) sg' off1 r tail sf Hsub1 Hwf' Hokr Hat1 Hsf1 Hnf1) as HD.
  destruct (sp_elems sf sg' r) as [r'|].
  2:{ destruct HD as (e & He). rewrite He. eauto. }
  destruct HD as (g2 & cons1 & Er & Hres & E1 & E2 & E3 & Hperm).
  rewrite Hres in *.
  apply (Hcont g2 cons1 r' Er).
  - eapply elem_rel_same; eauto.
  - eapply perm_trans; [exact Hperm|].
    eapply perm_trans; [apply Permutation_app_tail; unfold g1; apply mflat_add|].
    cbn [app]. apply Permutation_middle.
  - assumption.
Qed.

Lemma elem_rel_init sg : wf_table c true sg = true -> elem_rel sg (create_group sg false) [] 0.
Proof.
  intros Hwf. unfold elem_rel, create_group. cbn [mb_fp mb_subs].
  split; [reflexivity|]. split; [reflexivity|]. split; [|split; reflexivity].
  intros f. cbn. split; [discriminate|]. intros H. exfalso. exact (wf_elem_not_present _ _ _ Hwf H).
Qed.
Lemma mflat_create g : mflat (create_group g false) = [].
Proof. reflexivity. Qed.

Lemma stepGL mf : stmtEL mf -> stmtGL mf -> stmtGL (S mf).
Proof.
  intros IHE IHG gm els off ts tail sf Hwf Hok Hat Hsf Hnf.
  destruct sf as [|sf]; [lia|].
  rewrite dg_loop_S in *. cbv zeta in *.
  destruct ts as [|t r].
  { rewrite (at_nil _ _ _ _ Hat) in *. rewrite N.ltb_irrefl in *. cbn [sp_elems].
    exists [], []. cbn [app map flat_map]. rewrite lenN_ser_nil, N.add_0_r, app_nil_r.
    split; [reflexivity|]. split; reflexivity. }
  destruct (toks_ok_cons _ _ _ Hok) as [Hokt Hokr].
  destruct (tok_ok_facts _ _ Hokt) as (Htag & Hval & _ & _).
  destruct (at_cons _ _ _ _ _ _ Hat Htag Hval) as (Hlt & _ & _ & _).
  rewrite Hlt in *. cbn [sp_elems].
  assert (Hnf0 : DGE mf (create_group gm false) 0 off <> Fuel).
  { intros E. rewrite E in Hnf. apply Hnf. reflexivity. }
  assert (Hsf0 : (3 * length (t :: r) + 1 <= sf)%nat) by lia.
  pose proof (IHE gm (create_group gm false) 0 off (t :: r) tail [] sf Hwf (elem_rel_init gm Hwf) Hok Hat Hsf0 Hnf0) as HE.
  destruct (sp_fields sf gm true [] (t :: r)) as [|seen' rest].
  { destruct HE as (e & He). rewrite He. eauto. }
  destruct HE as (grp' & pos' & consumed & Ets & Hres & Hrel & Hcons & Hperm).
  rewrite Hres in *. rewrite mflat_create in Hperm. cbn [app] in Hperm.
  destruct Hrel as (Hst & Hsubs & Hseen & Hpos).
  destruct (wf_table_unfold _ _ _ Hwf) as (Hnd & _ & _).
  pose proof (mand_rel gm (mb_fp grp') seen' Hnd Hst Hseen) as Hmand.
  destruct (mand_ok gm seen') eqn:Hmo.
  2:{ destruct (find_missing (mb_fp grp')) as [f0|] eqn:Hfm; [eauto|].
      destruct Hmand as [Hm1 _]. discriminate (Hm1 eq_refl). }
  assert (Hfm : find_missing (mb_fp grp') = None) by (apply Hmand; reflexivity).
  rewrite Hfm in *.
  destruct rest as [|t' rest'].
  { cbn [stopw]. exists [grp'], consumed. split; [assumption|]. split; [reflexivity|].
    cbn [flat_map]. rewrite app_nil_r. assumption. }
  cbn [stopw] in *. destruct (memN (k_tag t') seen') eqn:Hm.
  2:{ exists [grp'], consumed. split; [assumption|]. split; [reflexivity|].
      cbn [flat_map]. rewrite app_nil_r. assumption. }
  assert (Hne : consumed <> []).
  { intros E. rewrite (Hcons E) in Hm. discriminate. }
  assert (Hlen : (length (t' :: rest') < length (t :: r))%nat).
  { rewrite Ets, app_length. destruct consumed; [congruence | cbn [length]; lia]. }
  rewrite Ets in Hok, Hat. destruct (toks_ok_app _ _ _ Hok) as [_ Hok'].
  pose proof (at_suffix _ _ _ _ _ _ Hat) as Hat'.
  assert (Hnf' : DGL mf gm (els ++ [grp']) (off + lenN (ser consumed)) <> Fuel) by assumption.
  assert (Hsf' : (3 * length (t' :: rest') + 2 <= sf)%nat) by lia.
  pose proof (IHG gm (els ++ [grp']) (off + lenN (ser consumed)) (t' :: rest') tail sf Hwf Hok' Hat' Hsf' Hnf') as HG.
  destruct (sp_elems sf gm (t' :: rest')) as [rest2|]; [|exact HG].
  destruct HG as (new2 & cons2 & E2 & Hres2 & Hperm2).
  exists (grp' :: new2), (consumed ++ cons2). split; [|split].
  - rewrite Ets, E2, app_assoc. reflexivity.
  - rewrite Hres2. f_equal. f_equal.
    + rewrite <- app_assoc. reflexivity.
    + rewrite ser_app, lenN_app. lia.
  - cbn [flat_map]. rewrite map_app. apply Permutation_app; assumption.
Qed.

Lemma stepDL mf : stmtGL mf -> stmtDL (S mf).
Proof.
  intros IHG m f sg off ts tail sf Hsub Hwf Hok Hat Hsf Hnf.
  rewrite decode_group_S in *. unfold find_add_group in *. rewrite Hsub in *. cbv zeta in *.
  set (m1 := with_groups m (map_insert f [] (mb_groups m))) in *.
  destruct (map_find_insert f (@nil mbase) (mb_groups m)) as (els0 & Hmf).
  assert (Hg1 : mb_groups m1 = map_insert f [] (mb_groups m)) by (unfold m1; apply groups_wg).
  rewrite Hg1, Hmf in *.
  assert (Hnf0 : DGL mf sg els0 off <> Fuel).
  { intros E. rewrite E in Hnf. apply Hnf. reflexivity. }
  pose proof (IHG sg els0 off ts tail sf Hwf Hok Hat Hsf Hnf0) as HG.
  destruct (sp_elems sf sg ts) as [rest|].
  2:{ destruct HG as (e & He). rewrite He. eauto. }
  destruct HG as (new & consumed & Ets & Hres & Hperm).
  rewrite Hres. exists (with_groups m1 (map_set f (els0 ++ new) (map_insert f [] (mb_groups m)))), consumed.
  split; [assumption|]. split; [reflexivity|].
  rewrite fp_wg, pos_wg, subs_wg. unfold m1 at 1 2 3. rewrite fp_wg, pos_wg, subs_wg.
  split; [reflexivity|]. split; [reflexivity|]. split; [reflexivity|].
  rewrite !mflat_eq, pos_wg, groups_wg. unfold m1. rewrite pos_wg. rewrite <- app_assoc.
  apply Permutation_app_head.
  eapply perm_trans; [apply gflat_set; exact Hmf|]. rewrite gflat_insert.
  apply Permutation_app_head. assumption.
Qed.

Lemma lockstep_groups : forall mf, stmtEL mf /\ stmtGL mf /\ stmtDL mf.
Proof.
  induction mf as [|mf (IE & IG & ID)].
  - split; [|split]; unfold stmtEL, stmtGL, stmtDL; intros;
      match goal with H : _ <> Fuel |- _ => exfalso; apply H; reflexivity end.
  - pose proof (stepEL mf IE ID). pose proof (stepGL mf IE IG). pose proof (stepDL mf IG). auto.
Qed.
End Lockstep.
