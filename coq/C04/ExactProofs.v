(* C04: proof of c04_exact_partial -- the decoder model and the spec's greedy parse walk the
   token list in lockstep (induction on the model's fuel; the spec's fuel is any amount above
   three units per remaining token). *)
From Coq Require Import NArith ZArith List Bool Lia Permutation.
From F8 Require Import Codec.Bytes Codec.Meta Codec.Extract Codec.Decode Codec.Encode
                       C04.Spec_C04 C04.Strict C04.Tokens C04.Sound C04.SoundProofs C04.BytesFacts C04.Exact.
Import ListNotations.
Local Open Scope N_scope.

(* ------------------------------------------------------------------ what tok_ok gives *)
Lemma val_ok_facts v : val_ok v = true ->
  no_soh v /\ lenN v < 2048 /\ Forall (fun b => b <> 0) v /\ Forall (fun b => b < 256) v.
Proof.
  unfold val_ok. intros H. apply andb_true_iff in H. destruct H as [H Hl]. apply N.ltb_lt in Hl.
  rewrite forallb_forall in H.
  assert (Hall : forall b, In b v -> (b =? SOH) = false /\ b <> 0 /\ b < 256).
  { intros b Hb. specialize (H b Hb). apply andb_true_iff in H. destruct H as [H H3].
    apply andb_true_iff in H. destruct H as [H1 H2]. apply negb_true_iff in H1, H2.
    apply N.eqb_neq in H2. apply N.ltb_lt in H3. auto. }
  split; [apply Forall_forall; intros b Hb; apply Hall; assumption|]. split; [assumption|].
  split; apply Forall_forall; intros b Hb; apply Hall; assumption.
Qed.

Lemma tok_ok_facts c t : tok_ok c t = true ->
  k_tag t < 65536 /\ val_ok (k_val t) = true /\
  (is_int_type (ftype c (k_tag t)) = true -> canon_int (k_val t) = true) /\
  (ftype c (k_tag t) = ft_Length -> k_tag t = Common_BodyLength).
Proof.
  unfold tok_ok. intros H. apply andb_true_iff in H. destruct H as [H H4].
  apply andb_true_iff in H. destruct H as [H H3]. apply andb_true_iff in H. destruct H as [H1 H2].
  apply N.ltb_lt in H1. split; [assumption|]. split; [assumption|]. split.
  - intros Hi. rewrite Hi in H3. exact H3.
  - intros Hl. rewrite Hl, N.eqb_refl in H4. cbn [andb] in H4. apply negb_true_iff in H4.
    apply negb_false_iff in H4. apply N.eqb_eq. assumption.
Qed.

Lemma toks_ok_cons c t r : toks_ok c (t :: r) = true -> tok_ok c t = true /\ toks_ok c r = true.
Proof. unfold toks_ok. cbn [forallb]. intros H. apply andb_true_iff in H. exact H. Qed.
Lemma toks_ok_app c a b : toks_ok c (a ++ b) = true -> toks_ok c a = true /\ toks_ok c b = true.
Proof. unfold toks_ok. rewrite forallb_app. intros H. apply andb_true_iff in H. exact H. Qed.

(* ------------------------------------------------------------------ at_toks *)
Lemma at_nil from fsize off tail : at_toks from fsize off [] tail -> off = fsize.
Proof. intros (pre & _ & _ & H). cbn in H. lia. Qed.

Lemma tok_at_end cp from fsize : tok_at cp from fsize fsize = XFail [] [] \/ cap_tag cp = 0 \/ cap_val cp = 0.
Proof.
  unfold tok_at, extract_element. rewrite N.sub_diag.
  destruct (N.eq_dec (cap_tag cp) 0) as [E|E]; [right; left; assumption|].
  destruct (N.eq_dec (cap_val cp) 0) as [E2|E2]; [right; right; assumption|]. left.
  destruct (skipN fsize from); cbn [xe_loop]; change (0 <? 0) with false; cbn iota; unfold zero_write;
    (assert (E3 : (0 <? cap_tag cp) = true) by (apply N.ltb_lt; lia));
    (assert (E4 : (0 <? cap_val cp) = true) by (apply N.ltb_lt; lia)); rewrite E3, E4; reflexivity.
Qed.
Lemma tok_at_end_real from fsize : tok_at real_caps from fsize fsize = XFail [] [].
Proof. destruct (tok_at_end real_caps from fsize) as [H|[H|H]]; [assumption | discriminate | discriminate]. Qed.

Lemma at_cons from fsize off t r tail :
  at_toks from fsize off (t :: r) tail -> k_tag t < 65536 -> val_ok (k_val t) = true ->
  (off <? fsize) = true /\ (off <=? fsize) = true /\
  tok_at real_caps from fsize off = XOk (itoa_N (k_tag t)) (k_val t) (lenN (ser_tok t)) /\
  at_toks from fsize (off + lenN (ser_tok t)) r tail.
Proof.
  intros (pre & Hfrom & Hoff & Hfs) Htag Hval.
  destruct (val_ok_facts _ Hval) as (Hsoh & Hlen & _ & _).
  rewrite ser_cons, lenN_app in Hfs. pose proof (lenN_ser_tok_pos t) as Hpos.
  split; [apply N.ltb_lt; lia|]. split; [apply N.leb_le; lia|]. split.
  - unfold tok_at. rewrite Hfrom, Hoff, skipN_app. rewrite ser_cons, <- app_assoc.
    apply extract_ser_tok.
    + split; assumption.
    + cbn [real_caps cap_tag]. pose proof (itoa_len_small _ Htag). unfold MAX_FLD_LENGTH. lia.
    + lia.
  - exists (pre ++ ser_tok t). split; [|split].
    + rewrite Hfrom, ser_cons, <- !app_assoc. reflexivity.
    + rewrite lenN_app. lia.
    + lia.
Qed.

Lemma at_suffix from fsize off a b tail :
  at_toks from fsize off (a ++ b) tail -> at_toks from fsize (off + lenN (ser a)) b tail.
Proof.
  intros (pre & Hfrom & Hoff & Hfs). exists (pre ++ ser a). rewrite ser_app in *. split; [|split].
  - rewrite Hfrom, <- !app_assoc. reflexivity.
  - rewrite lenN_app. lia.
  - rewrite lenN_app in Hfs. lia.
Qed.

(* ------------------------------------------------------------------ counts *)
Lemma dec_digits_ge : forall l acc n, dec_digits l acc = Some n -> acc <= n.
Proof.
  induction l as [|x r IH]; intros acc n H; cbn [dec_digits] in H.
  - injection H as <-. lia.
  - destruct (is_digit x); [|discriminate]. apply IH in H. lia.
Qed.
Lemma dec_digits_all : forall l acc n, dec_digits l acc = Some n -> all_digits l.
Proof.
  induction l as [|x r IH]; intros acc n H; cbn [dec_digits] in H; [constructor|].
  destruct (is_digit x) eqn:E; [|discriminate]. constructor; [assumption | eapply IH; eassumption].
Qed.
Lemma atoi_digits (m : Z) : forall l acc n, dec_digits l acc = Some n -> (Z.of_N n < m)%Z ->
  fold_left (atoi_step m) l (Z.of_N acc) = Z.of_N n.
Proof.
  induction l as [|x r IH]; intros acc n H Hm; cbn [dec_digits fold_left] in *.
  - injection H as <-. reflexivity.
  - destruct (is_digit x) eqn:E; [|discriminate]. pose proof (dec_digits_ge _ _ _ H) as Hge.
    apply digit_range in E. unfold atoi_step at 2, schar.
    destruct (x <? 128) eqn:E2; [|apply N.ltb_ge in E2; lia].
    rewrite Z.mod_small by lia.
    replace (Z.of_N acc * 10 + Z.of_N x - 48)%Z with (Z.of_N (acc * 10 + (x - 48))) by lia.
    apply IH; assumption.
Qed.

Lemma atoi_digits_neg (m : Z) : (0 < m)%Z -> forall l acc n, dec_digits l acc = Some n ->
  fold_left (atoi_step_neg m) l ((- Z.of_N acc) mod m)%Z = ((- Z.of_N n) mod m)%Z.
Proof.
  intros Hm. induction l as [|x r IH]; intros acc n H; cbn [dec_digits fold_left] in *.
  - injection H as <-. reflexivity.
  - destruct (is_digit x) eqn:E; [|discriminate]. apply digit_range in E.
    rewrite <- (IH _ _ H). f_equal. unfold atoi_step_neg, schar.
    destruct (x <? 128) eqn:E2; [|apply N.ltb_ge in E2; lia].
    replace (- Z.of_N (acc * 10 + (x - 48)))%Z with ((- Z.of_N acc) * 10 - (Z.of_N x - 48))%Z by lia.
    rewrite <- (Zminus_mod_idemp_l ((- Z.of_N acc) * 10)), <- (Zmult_mod_idemp_l (- Z.of_N acc)), Zminus_mod_idemp_l.
    reflexivity.
Qed.

Lemma int_value_digits v n : v <> [] -> dec_digits v 0 = Some n -> int_value v = Some (Z.of_N n).
Proof.
  intros Hne Hd. pose proof (dec_digits_all _ _ _ Hd) as Hall.
  unfold int_value. destruct v as [|x r]; [congruence|].
  inversion Hall as [|? ? Hx _]; subst. apply digit_range in Hx.
  assert (E : nat_value (x :: r) = Some n) by exact Hd.
  destruct (N.eq_dec x 45) as [->|Hne45]; [lia|].
  rewrite E. destruct x as [|p]; [reflexivity|]. do 6 (destruct p as [p|p|]; try reflexivity). congruence.
Qed.

(* a decimal int text: optional '-', digits, within the int range: fast_atoi<int> reads its value *)
Lemma canon_int_value v : canon_int v = true ->
  exists z, int_value v = Some z /\ fast_atoi_i32 v = z /\ Forall (fun b => b <> 0) v.
Proof.
  unfold canon_int. destruct (int_value v) as [z|] eqn:Ei; [|discriminate]. intros H.
  apply andb_true_iff in H. destruct H as [Hlo Hhi]. apply Z.leb_le in Hlo. apply Z.ltb_lt in Hhi.
  exists z. split; [reflexivity|].
  destruct v as [|x r]; [cbn in Ei; discriminate|].
  destruct (N.eq_dec x 45) as [->|Hne45].
  - (* negative *)
    cbn [int_value] in Ei. destruct (nat_value r) as [n|] eqn:En; [|discriminate]. injection Ei as <-.
    assert (Hr : r <> []) by (destruct r; [discriminate | discriminate]).
    assert (Hd : dec_digits r 0 = Some n) by (destruct r; [congruence | exact En]).
    pose proof (dec_digits_all _ _ _ Hd) as Hall.
    assert (Hnz : Forall (fun b => b <> 0) (45 :: r)) by (constructor; [lia | apply digits_nonzero; assumption]).
    split; [|assumption].
    unfold fast_atoi_i32. rewrite (cstr_nonzero _ Hnz). change (45 =? 45) with true. cbn iota.
    pose proof (atoi_digits_neg two32 ltac:(unfold two32; lia) r 0 n Hd) as HA.
    change ((- Z.of_N 0) mod two32)%Z with 0%Z in HA. rewrite HA.
    unfold to_i32, two32, two31. rewrite Z.mod_mod by lia.
    destruct (Z.eq_dec (Z.of_N n) 0) as [E0|E0].
    + rewrite E0. reflexivity.
    + rewrite Z_mod_nz_opp_full by (rewrite Z.mod_small; lia). rewrite Z.mod_small by lia.
      destruct (4294967296 - Z.of_N n <? 2147483648)%Z eqn:E2; [apply Z.ltb_lt in E2; lia | lia].
  - (* non-negative *)
    assert (En : exists n, nat_value (x :: r) = Some n /\ z = Z.of_N n).
    { unfold int_value in Ei. destruct (nat_value (x :: r)) as [n|] eqn:En.
      - exists n. split; [reflexivity|].
        destruct x as [|p]; [congruence|]. do 6 (destruct p as [p|p|]; try congruence).
      - exfalso. destruct x as [|p]; [discriminate|]. do 6 (destruct p as [p|p|]; try discriminate). congruence. }
    destruct En as (n & En & ->).
    assert (Hd : dec_digits (x :: r) 0 = Some n) by exact En.
    pose proof (dec_digits_all _ _ _ Hd) as Hall.
    pose proof (digits_nonzero _ Hall) as Hnz. split; [|assumption].
    unfold fast_atoi_i32. rewrite (cstr_nonzero _ Hnz).
    assert (E45 : (x =? 45) = false) by (apply N.eqb_neq; assumption). rewrite E45.
    pose proof (atoi_digits two32 (x :: r) 0 n Hd ltac:(unfold two32; lia)) as HA.
    change (Z.of_N 0) with 0%Z in HA. rewrite HA.
    unfold to_i32, two32, two31. rewrite Z.mod_small by lia.
    destruct (Z.of_N n <? 2147483648)%Z eqn:E2; [reflexivity | apply Z.ltb_ge in E2; lia].
Qed.

Lemma count_agree v : canon_int v = true -> has_group_count (cstr v) = count_pos v.
Proof.
  intros H. destruct (canon_int_value v H) as (z & Hi & Ha & Hnz).
  rewrite (cstr_nonzero _ Hnz). unfold has_group_count, count_pos. rewrite Ha, Hi. reflexivity.
Qed.

Lemma hgc_int c f v ty : find_be (c_fields c) f = Some ty -> is_int_type ty = true ->
  has_group_count_c c f v = has_group_count v.
Proof. intros H1 H2. unfold has_group_count_c. rewrite H1, H2. reflexivity. Qed.


(* ------------------------------------------------------------------ seen sets and present bits *)
Definition seen_rel (fp : list trait) (seen : list N) : Prop :=
  forall f, memN f seen = true <-> present_in fp f.

Lemma memN_cons x y l : memN x (y :: l) = (x =? y) || memN x l.
Proof. reflexivity. Qed.

Lemma seen_rel_mark fp seen f tr :
  seen_rel fp seen -> find_trait fp f = Some tr ->
  seen_rel (upd_trait (set_present true) fp f) (f :: seen).
Proof.
  intros H Hf f'. rewrite memN_cons. split.
  - intros E. apply (present_mark _ _ _ f' Hf). apply orb_true_iff in E.
    destruct E as [E|E]; [left; apply N.eqb_eq; assumption | right; apply H; assumption].
  - intros P. apply (present_mark _ _ _ f' Hf) in P. apply orb_true_iff.
    destruct P as [->|P]; [left; apply N.eqb_refl | right; apply H; assumption].
Qed.

Lemma seen_present fp seen f tr :
  seen_rel fp seen -> find_trait fp f = Some tr -> t_present tr = memN f seen.
Proof.
  intros H Hf. destruct (memN f seen) eqn:E.
  - apply H in E. destruct E as (tr' & Hf' & Hp). congruence.
  - destruct (t_present tr) eqn:Hp; [|reflexivity].
    assert (E2 : memN f seen = true) by (apply H; exists tr; auto). congruence.
Qed.

Lemma find_trait_nodup ts x : NoDup (map t_fnum ts) -> In x ts -> find_trait ts (t_fnum x) = Some x.
Proof.
  induction ts as [|y r IH]; intros Hnd Hin; [destruct Hin|]. cbn [find_trait map] in *.
  inversion Hnd as [|? ? Hny Hnd']; subst. destruct Hin as [->|Hin].
  - rewrite N.eqb_refl. reflexivity.
  - destruct (t_fnum y =? t_fnum x) eqn:E; [|auto].
    apply N.eqb_eq in E. exfalso. apply Hny. rewrite E. apply in_map. assumption.
Qed.

Lemma same_table_fnums fp ts : same_table fp ts -> map t_fnum fp = map t_fnum ts.
Proof.
  unfold same_table. revert ts. induction fp as [|x r IH]; intros [|y s] H; cbn [map] in *; try discriminate; [reflexivity|].
  pose proof (f_equal (@hd trait (strip x)) H) as Hxy. pose proof (f_equal (@tl trait) H) as Hrs.
  cbn [hd tl] in Hxy, Hrs. rewrite (fnum_strip _ _ Hxy), (IH _ Hrs). reflexivity.
Qed.

Lemma find_missing_none ts : find_missing ts = None <-> forall x, In x ts -> t_mand x = true -> t_present x = true.
Proof.
  induction ts as [|y r IH]; cbn [find_missing]; [split; [intros _ x [] | reflexivity]|].
  destruct (t_mand y && negb (t_present y)) eqn:E.
  - split; [discriminate|]. intros H. apply andb_true_iff in E. destruct E as [E1 E2].
    apply negb_true_iff in E2. rewrite (H y (or_introl eq_refl) E1) in E2. discriminate.
  - rewrite IH. split.
    + intros H x [<-|Hin] Hm; [|auto]. rewrite Hm in E. cbn in E. apply negb_false_iff in E. assumption.
    + intros H x Hin. apply H. right. assumption.
Qed.

(* the mandatory test of the decoder on the object = the spec's mandatory test on the seen set *)
Lemma mand_rel g fp seen :
  nodupN (map t_fnum (g_traits g)) = true -> same_table fp (g_traits g) -> seen_rel fp seen ->
  (find_missing fp = None <-> mand_ok g seen = true).
Proof.
  intros Hnd Hst Hsr. apply nodupN_NoDup in Hnd.
  assert (Hnd' : NoDup (map t_fnum fp)) by (rewrite (same_table_fnums _ _ Hst); assumption).
  rewrite find_missing_none. unfold mand_ok. rewrite forallb_forall. split.
  - intros H tr Hin. destruct (t_mand tr) eqn:Hm; [|reflexivity]. cbn [negb orb].
    pose proof (find_trait_nodup _ _ Hnd Hin) as Hf.
    pose proof (same_table_find fp (g_traits g) (t_fnum tr) Hst) as E. rewrite Hf in E.
    destruct (find_trait fp (t_fnum tr)) as [x|] eqn:Hfx; cbn [option_map] in E; [|discriminate].
    assert (Hs : strip x = strip tr) by congruence.
    destruct (find_trait_fnum _ _ _ Hfx) as [_ Hinx].
    apply Hsr. exists x. split; [assumption|]. apply H; [assumption|]. rewrite (mand_strip _ _ Hs). assumption.
  - intros H x Hin Hm.
    pose proof (find_trait_nodup _ _ Hnd' Hin) as Hfx.
    destruct (same_table_find_some _ _ _ _ Hst Hfx) as (tr & Hf & Hs).
    destruct (find_trait_fnum _ _ _ Hf) as [Hn Hintr].
    specialize (H _ Hintr). rewrite <- (mand_strip _ _ Hs), Hm in H. cbn [negb orb] in H.
    rewrite Hn in H. apply Hsr in H. destruct H as (x' & Hfx' & Hp). congruence.
Qed.

(* ------------------------------------------------------------------ mflat *)
Definition gflat (gs : list (N * list mbase)) : list (N * list N) :=
  flat_map (fun g => flat_map mflat (snd g)) gs.
Lemma mflat_eq m : mflat m = map snd (mb_pos m) ++ gflat (mb_groups m).
Proof. destruct m; reflexivity. Qed.

Lemma mflat_add m f p v :
  Permutation (mflat (mark_present (add_field_decoder m f p v) f)) ((f, v) :: mflat m).
Proof.
  rewrite !mflat_eq, pos_mark, pos_afd, groups_mark, groups_afd. unfold pos_insert.
  change ((f, v) :: map snd (mb_pos m) ++ gflat (mb_groups m))
    with (((f, v) :: map snd (mb_pos m)) ++ gflat (mb_groups m)).
  apply Permutation_app_tail.
  change ((f, v) :: map snd (mb_pos m)) with (map snd ((pos_key p, (f, v)) :: mb_pos m)).
  apply Permutation_map. apply pos_insert_k_perm.
Qed.

Lemma gflat_insert f gs : gflat (map_insert f [] gs) = gflat gs.
Proof.
  induction gs as [|[k v] r IH]; cbn [map_insert]; [reflexivity|].
  destruct (f <? k); [reflexivity|]. destruct (f =? k); [reflexivity|].
  unfold gflat in *. cbn [flat_map]. rewrite IH. reflexivity.
Qed.
Lemma map_find_insert {A} f (v : A) gs : exists l, map_find f (map_insert f v gs) = Some l.
Proof.
  induction gs as [|[k w] r IH]; cbn [map_insert].
  - exists v. cbn [map_find]. rewrite N.eqb_refl. reflexivity.
  - destruct (f <? k) eqn:E1.
    + exists v. cbn [map_find]. rewrite N.eqb_refl. reflexivity.
    + destruct (f =? k) eqn:E2.
      * exists w. cbn [map_find]. rewrite E2. reflexivity.
      * destruct IH as (l & Hl). exists l. cbn [map_find]. rewrite E2. exact Hl.
Qed.
Lemma gflat_set f els0 new gs :
  map_find f gs = Some els0 ->
  Permutation (gflat (map_set f (els0 ++ new) gs)) (gflat gs ++ flat_map mflat new).
Proof.
  induction gs as [|[k v] r IH]; cbn [map_find map_set]; [discriminate|].
  destruct (f =? k) eqn:E.
  - intros H; injection H as ->. unfold gflat. cbn [flat_map snd]. rewrite flat_map_app.
    rewrite <- !app_assoc. apply Permutation_app_head. apply Permutation_app_comm.
  - intros H. unfold gflat in *. cbn [flat_map snd]. rewrite <- app_assoc.
    apply Permutation_app_head. apply IH. assumption.
Qed.

(* ------------------------------------------------------------------ schema facts *)
Lemma wf_trait2 c elem g f tr :
  wf_table c elem g = true -> find_trait (g_traits g) f = Some tr ->
  find_be (c_fields c) f = Some (t_ftype tr) /\
  (t_group tr = true -> is_int_type (t_ftype tr) = true /\
                        exists sg, find_sub (g_subs g) f = Some sg /\ wf_table c true sg = true) /\
  (elem = true -> t_haspos tr = true /\ t_auto tr = false /\ t_present tr = false).
Proof.
  intros Hwf Hf. destruct (wf_table_unfold _ _ _ Hwf) as (_ & Hall & Hsubs).
  destruct (find_trait_fnum _ _ _ Hf) as [Hn Hin].
  rewrite forallb_forall in Hall. specialize (Hall _ Hin). unfold trait_ok in Hall. rewrite Hn in Hall.
  apply andb_true_iff in Hall. destruct Hall as [Hall H4]. apply andb_true_iff in Hall. destruct Hall as [Hall H3].
  apply andb_true_iff in Hall. destruct Hall as [H1 H2].
  split.
  - destruct (find_be (c_fields c) f) as [ty|]; [|discriminate]. apply N.eqb_eq in H2. congruence.
  - split.
    + intros Hg. rewrite Hg in H3. cbn [negb orb] in H3. apply andb_true_iff in H3. destruct H3 as [H3 H5].
      split; [assumption|]. destruct (find_sub (g_subs g) f) as [sg|] eqn:E; [|discriminate].
      exists sg. split; [reflexivity | eapply Hsubs; eassumption].
    + intros ->. cbn [negb orb] in H4. apply andb_true_iff in H4. destruct H4 as [H4 H6].
      apply andb_true_iff in H4. destruct H4 as [H4 H5].
      apply negb_true_iff in H4, H6. auto.
Qed.

Lemma ftype_find c f ty : find_be (c_fields c) f = Some ty -> ftype c f = ty.
Proof. unfold ftype. intros ->. reflexivity. Qed.

(* ------------------------------------------------------------------ group elements in lockstep *)
Definition elem_rel (sg : gmeta) (grp : mbase) (seen : list N) (pos : N) : Prop :=
  same_table (mb_fp grp) (g_traits sg) /\ mb_subs grp = g_subs sg /\
  seen_rel (mb_fp grp) seen /\ (pos = 0 <-> seen = []) /\ (seen <> [] -> mb_fields grp <> []).

Definition stopw (seen : list N) (rest : list tok) : stop :=
  match rest with [] => SEnd | t :: _ => if memN (k_tag t) seen then SDup else SForeign end.

Lemma elem_rel_add sg grp seen pos f tr v :
  elem_rel sg grp seen pos -> find_trait (mb_fp grp) f = Some tr ->
  elem_rel sg (mark_present (add_field_decoder grp f (pos + 1) v) f) (f :: seen) (pos + 1).
Proof.
  intros (H1 & H2 & H3 & H4 & _) Hf. unfold elem_rel. rewrite fp_mark, fp_afd, subs_mark, subs_afd, fields_mark, fields_afd.
  split; [apply same_table_mark; assumption|]. split; [assumption|].
  split; [eapply seen_rel_mark; eassumption|]. split; [split; [lia | discriminate]|].
  intros _. apply map_insert_nonempty.
Qed.
Lemma elem_rel_same sg m m' seen pos :
  mb_fp m' = mb_fp m -> mb_subs m' = mb_subs m -> mb_fields m' = mb_fields m ->
  elem_rel sg m seen pos -> elem_rel sg m' seen pos.
Proof. unfold elem_rel. intros -> -> ->. trivial. Qed.

Lemma mflat_add_tok grp t p :
  Permutation (mflat (mark_present (add_field_decoder grp (k_tag t) p (k_val t)) (k_tag t)))
              (mflat grp ++ tok_pair t :: map tok_pair []).
Proof.
  eapply perm_trans; [apply mflat_add|]. cbn [map]. apply Permutation_cons_append.
Qed.

Section Lockstep.
Variable c : ctx. Variable from : list N. Variable fsize : N.
Notation DGE := (dg_elem c real_caps from fsize).
Notation DGL := (dg_loop c real_caps from fsize).
Notation DGG := (decode_group c real_caps from fsize).

Definition stmtEL (mf : nat) : Prop := forall sg grp pos off ts tail seen sf,
  wf_table c true sg = true -> elem_rel sg grp seen pos -> toks_ok c ts = true ->
  at_toks from fsize off ts tail -> (3 * length ts + 1 <= sf)%nat ->
  (3 * length ts + 1 <= mf)%nat ->
  match sp_fields sf sg true seen ts with
  | PViol => exists e, DGE mf grp pos off = Exc e
  | PRest seen' rest =>
      exists grp' pos' consumed, ts = consumed ++ rest /\
        DGE mf grp pos off = Ok (grp', pos', off + lenN (ser consumed), stopw seen' rest) /\
        elem_rel sg grp' seen' pos' /\ (consumed = [] -> seen' = seen) /\
        Permutation (mflat grp') (mflat grp ++ map tok_pair consumed) /\
        (seen = [] -> ts <> [] -> consumed <> []) /\ (consumed <> [] -> seen' <> [])
  end.

Definition stmtGL (mf : nat) : Prop := forall gm els off ts tail sf,
  wf_table c true gm = true -> toks_ok c ts = true ->
  at_toks from fsize off ts tail -> (3 * length ts + 2 <= sf)%nat ->
  (3 * length ts + 2 <= mf)%nat ->
  match sp_elems sf gm ts with
  | None => exists e, DGL mf gm els off = Exc e
  | Some rest =>
      exists new consumed, ts = consumed ++ rest /\
        DGL mf gm els off = Ok (els ++ new, off + lenN (ser consumed)) /\
        Permutation (flat_map mflat new) (map tok_pair consumed)
  end.

Definition stmtDL (mf : nat) : Prop := forall m f sg off ts tail sf,
  find_sub (mb_subs m) f = Some sg -> wf_table c true sg = true -> toks_ok c ts = true ->
  at_toks from fsize off ts tail -> (3 * length ts + 2 <= sf)%nat ->
  (3 * length ts + 3 <= mf)%nat ->
  match sp_elems sf sg ts with
  | None => exists e, DGG mf m f off = Exc e
  | Some rest =>
      exists m' consumed, ts = consumed ++ rest /\
        DGG mf m f off = Ok (m', off + lenN (ser consumed)) /\
        mb_fp m' = mb_fp m /\ mb_pos m' = mb_pos m /\ mb_subs m' = mb_subs m /\ mb_fields m' = mb_fields m /\
        Permutation (mflat m') (mflat m ++ map tok_pair consumed)
  end.

Lemma lenN_ser_nil : lenN (ser []) = 0. Proof. reflexivity. Qed.

Lemma stepEL mf : stmtEL mf -> stmtDL mf -> stmtEL (S mf).
Proof.
  intros IHE IHD sg grp pos off ts tail seen sf Hwf Hrel Hok Hat Hsf Hmf.
  destruct sf as [|sf]; [lia|].
  rewrite dg_elem_S in *. cbv zeta in *.
  destruct ts as [|t r].
  { (* end of the decodable range *)
    rewrite (at_nil _ _ _ _ Hat) in *. rewrite N.ltb_irrefl in *. cbn [sp_fields].
    exists grp, pos, []. cbn [app map]. rewrite lenN_ser_nil, N.add_0_r, app_nil_r.
    split; [reflexivity|]. split; [reflexivity|]. split; [assumption|]. split; [reflexivity|]. split; [reflexivity|].
    split; [intros _ H; congruence | intros H; congruence]. }
  destruct (toks_ok_cons _ _ _ Hok) as [Hokt Hokr].
  destruct (tok_ok_facts _ _ Hokt) as (Htag & Hval & Hint & _).
  destruct (at_cons _ _ _ _ _ _ Hat Htag Hval) as (Hlt & _ & Htok & Hat1).
  rewrite Hlt, Htok in *.
  rewrite (atoi_u32_itoa (k_tag t)) in * by lia. rewrite (N.mod_small (k_tag t) 65536) in * by assumption.
  destruct (val_ok_facts _ Hval) as (_ & _ & Hnz & _).
  rewrite (cstr_nonzero _ Hnz) in *.
  cbn [sp_fields].
  destruct Hrel as (Hst & Hsubs & Hseen & Hpos & Hflds).
  assert (Hrel : elem_rel sg grp seen pos) by (unfold elem_rel; auto).
  destruct (find_trait (mb_fp grp) (k_tag t)) as [tr|] eqn:Hf.
  2:{ (* foreign tag *)
    rewrite (same_table_find_none _ _ _ Hst Hf). cbn [andb].
    destruct seen as [|s0 seen0].
    - assert (E : pos = 0) by (apply Hpos; reflexivity). rewrite E in *. cbn [N.eqb isnil]. eauto.
    - assert (E : (pos =? 0) = false) by (apply N.eqb_neq; intros E; apply Hpos in E; discriminate).
      rewrite E in *. cbn [isnil]. exists grp, pos, []. cbn [app map]. rewrite lenN_ser_nil, N.add_0_r, app_nil_r.
      assert (Hm : memN (k_tag t) (s0 :: seen0) = false).
      { destruct (memN (k_tag t) (s0 :: seen0)) eqn:Em; [|reflexivity]. apply Hseen in Em.
        destruct Em as (x & Hx & _). congruence. }
      cbn [stopw]. rewrite Hm.
      split; [reflexivity|]. split; [reflexivity|]. split; [assumption|]. split; [reflexivity|]. split; [reflexivity|].
      split; [intros E0; discriminate E0 | intros H; congruence]. }
  destruct (same_table_find_some _ _ _ _ Hst Hf) as (tr' & Hf' & Hs). rewrite Hf'.
  rewrite (seen_present _ _ _ _ Hseen Hf) in *.
  destruct (memN (k_tag t) seen) eqn:Hm.
  { (* the tag starts the next element *)
    exists grp, pos, []. cbn [app map stopw]. rewrite lenN_ser_nil, N.add_0_r, app_nil_r, Hm.
    split; [reflexivity|]. split; [reflexivity|]. split; [assumption|]. split; [reflexivity|]. split; [reflexivity|].
    split; [intros E; rewrite E in Hm; discriminate | intros H; congruence]. }
  destruct (wf_trait2 _ _ _ _ _ Hwf Hf') as (Hbe & Hgrp & Helem). destruct (Helem eq_refl) as (Hhp & _ & _).
  assert (Hgp : getPos tr = t_pos tr').
  { unfold getPos. rewrite (haspos_strip _ _ Hs), Hhp. apply pos_strip. assumption. }
  rewrite Hgp in *.
  assert (Hnil : (pos =? 0) = isnil seen).
  { destruct seen; cbn [isnil].
    - apply N.eqb_eq. apply Hpos. reflexivity.
    - apply N.eqb_neq. intros E. apply Hpos in E. discriminate. }
  rewrite Hnil in *. cbn [andb].
  destruct (isnil seen && negb (t_pos tr' =? 1)) eqn:Efirst; [eauto|].
  rewrite Hbe in *.
  pose proof (elem_rel_add sg grp seen pos (k_tag t) tr (k_val t) Hrel Hf) as Hrel1.
  set (g1 := mark_present (add_field_decoder grp (k_tag t) (pos + 1) (k_val t)) (k_tag t)) in *.
  set (off1 := off + lenN (ser_tok t)) in *.
  (* the continuation after this field (and its elements, if it is a count field) *)
  assert (Hcont : forall g' cons1 r',
    r = cons1 ++ r' -> elem_rel sg g' (k_tag t :: seen) (pos + 1) ->
    Permutation (mflat g') (mflat grp ++ tok_pair t :: map tok_pair cons1) ->
    match sp_fields sf sg true (k_tag t :: seen) r' with
    | PViol => exists e, DGE mf g' (pos + 1) (off1 + lenN (ser cons1)) = Exc e
    | PRest seen' rest =>
        exists grp' pos' consumed, t :: r = consumed ++ rest /\
          DGE mf g' (pos + 1) (off1 + lenN (ser cons1)) = Ok (grp', pos', off + lenN (ser consumed), stopw seen' rest) /\
          elem_rel sg grp' seen' pos' /\ (consumed = [] -> seen' = seen) /\
          Permutation (mflat grp') (mflat grp ++ map tok_pair consumed) /\
          (seen = [] -> t :: r <> [] -> consumed <> []) /\ (consumed <> [] -> seen' <> [])
    end).
  { intros g' cons1 r' Er Hrel' Hperm.
    subst r. destruct (toks_ok_app _ _ _ Hokr) as [_ Hokr'].
    pose proof (at_suffix _ _ _ _ _ _ Hat1) as Hat'.
    assert (Hsf' : (3 * length r' + 1 <= sf)%nat).
    { cbn [length] in Hsf. rewrite app_length in Hsf. lia. }
    assert (Hmf' : (3 * length r' + 1 <= mf)%nat).
    { cbn [length] in Hmf. rewrite app_length in Hmf. lia. }
    pose proof (IHE sg g' (pos + 1) (off1 + lenN (ser cons1)) r' tail (k_tag t :: seen) sf Hwf Hrel' Hokr' Hat' Hsf' Hmf') as HI.
    destruct (sp_fields sf sg true (k_tag t :: seen) r') as [|seen' rest]; [exact HI|].
    destruct HI as (grp' & pos' & cons2 & Er' & Hres & Hrel'' & Hc2 & Hperm2 & _ & Hs2).
    exists grp', pos', (t :: cons1 ++ cons2). split; [|split; [|split; [|split; [|split; [|split]]]]].
    - subst r'. cbn [app]. rewrite <- app_assoc. reflexivity.
    - rewrite Hres. f_equal. f_equal. f_equal. unfold off1.
      rewrite ser_cons, ser_app, !lenN_app. lia.
    - assumption.
    - discriminate.
    - eapply perm_trans; [exact Hperm2|].
      eapply perm_trans; [apply Permutation_app_tail; exact Hperm|].
      rewrite <- app_assoc. apply Permutation_app_head. cbn [map app]. rewrite map_app. reflexivity.
    - intros _ _. discriminate.
    - intros _. destruct cons2 as [|x2 c2]; [rewrite (Hc2 eq_refl); discriminate | apply Hs2; discriminate]. }
  rewrite (group_strip _ _ Hs) in *.
  destruct (t_group tr') eqn:Hg; cbn [andb] in *.
  2:{ (* plain field *)
    specialize (Hcont g1 [] r eq_refl Hrel1). cbn [ser flat_map lenN map] in Hcont. rewrite N.add_0_r in Hcont.
    apply Hcont. unfold g1. apply mflat_add_tok. }
  (* count field *)
  destruct (Hgrp eq_refl) as (Hit & sg' & Hsub & Hwf').
  assert (Hcnt : has_group_count_c c (k_tag t) (k_val t) = count_pos (k_val t)).
  { rewrite (hgc_int _ _ _ _ Hbe Hit). rewrite <- (cstr_nonzero _ Hnz) at 1. apply count_agree. apply Hint.
    rewrite (ftype_find _ _ _ Hbe). assumption. }
  rewrite Hcnt in *.
  destruct (count_pos (k_val t)) eqn:Hcp.
  2:{ specialize (Hcont g1 [] r eq_refl Hrel1). cbn [ser flat_map lenN map] in Hcont. rewrite N.add_0_r in Hcont.
      apply Hcont. unfold g1. apply mflat_add_tok. }
  rewrite Hsub.
  assert (Hsub1 : find_sub (mb_subs g1) (k_tag t) = Some sg').
  { destruct Hrel1 as (_ & Hs1 & _). rewrite Hs1. assumption. }
  assert (Hnf1 : (3 * length r + 3 <= mf)%nat) by (cbn [length] in Hmf; lia).
  assert (Hsf1 : (3 * length r + 2 <= sf)%nat) by (cbn [length] in Hsf; lia).
  pose proof (IHD g1 (k_tag t) sg' off1 r tail sf Hsub1 Hwf' Hokr Hat1 Hsf1 Hnf1) as HD.
  destruct (sp_elems sf sg' r) as [r'|].
  2:{ destruct HD as (e & He). rewrite He. eauto. }
  destruct HD as (g2 & cons1 & Er & Hres & E1 & E2 & E3 & E5 & Hperm).
  rewrite Hres in *.
  apply (Hcont g2 cons1 r' Er).
  - eapply elem_rel_same; eauto.
  - eapply perm_trans; [exact Hperm|].
    eapply perm_trans; [apply Permutation_app_tail; unfold g1; apply mflat_add|].
    cbn [app]. apply Permutation_middle.
Qed.

Lemma elem_rel_init sg : wf_table c true sg = true -> elem_rel sg (create_group sg false) [] 0.
Proof.
  intros Hwf. unfold elem_rel, create_group. cbn [mb_fp mb_subs].
  split; [reflexivity|]. split; [reflexivity|]. split; [|split; [split; reflexivity | congruence]].
  intros f. cbn. split; [discriminate|]. intros H. exfalso. exact (wf_elem_not_present _ _ _ Hwf H).
Qed.
Lemma mflat_create g : mflat (create_group g false) = [].
Proof. reflexivity. Qed.

Lemma stepGL mf : stmtEL mf -> stmtGL mf -> stmtGL (S mf).
Proof.
  intros IHE IHG gm els off ts tail sf Hwf Hok Hat Hsf Hmf.
  destruct sf as [|sf]; [lia|].
  rewrite dg_loop_S in *. cbv zeta in *.
  destruct ts as [|t r].
  { rewrite (at_nil _ _ _ _ Hat) in *. rewrite N.ltb_irrefl in *. cbn [sp_elems].
    exists [], []. cbn [app map flat_map]. rewrite lenN_ser_nil, N.add_0_r, app_nil_r.
    split; [reflexivity|]. split; reflexivity. }
  destruct (toks_ok_cons _ _ _ Hok) as [Hokt Hokr].
  destruct (tok_ok_facts _ _ Hokt) as (Htag & Hval & _ & _).
  destruct (at_cons _ _ _ _ _ _ Hat Htag Hval) as (Hlt & _ & _ & _).
  rewrite Hlt in *. cbn [sp_elems].
  assert (Hnf0 : (3 * length (t :: r) + 1 <= mf)%nat) by lia.
  assert (Hsf0 : (3 * length (t :: r) + 1 <= sf)%nat) by lia.
  pose proof (IHE gm (create_group gm false) 0 off (t :: r) tail [] sf Hwf (elem_rel_init gm Hwf) Hok Hat Hsf0 Hnf0) as HE.
  destruct (sp_fields sf gm true [] (t :: r)) as [|seen' rest].
  { destruct HE as (e & He). rewrite He. eauto. }
  destruct HE as (grp' & pos' & consumed & Ets & Hres & Hrel & Hcons & Hperm & Hprog & Hsne).
  rewrite Hres in *. rewrite mflat_create in Hperm. cbn [app] in Hperm.
  destruct Hrel as (Hst & Hsubs & Hseen & Hpos & Hflds).
  assert (Hne : consumed <> []) by (apply Hprog; [reflexivity | discriminate]).
  destruct (mb_fields grp') as [|fl0 flr] eqn:Hfl.
  { exfalso. apply (Hflds (Hsne Hne)). reflexivity. }
  destruct (wf_table_unfold _ _ _ Hwf) as (Hnd & _ & _).
  pose proof (mand_rel gm (mb_fp grp') seen' Hnd Hst Hseen) as Hmand.
  destruct (mand_ok gm seen') eqn:Hmo.
  2:{ destruct (find_missing (mb_fp grp')) as [f0|] eqn:Hfm; [eauto|].
      destruct Hmand as [Hm1 _]. discriminate (Hm1 eq_refl). }
  assert (Hfm : find_missing (mb_fp grp') = None) by (apply Hmand; reflexivity).
  rewrite Hfm in *.
  destruct rest as [|t' rest'].
  { cbn [stopw]. exists [grp'], consumed. split; [assumption|]. split; [reflexivity|].
    cbn [flat_map]. rewrite app_nil_r. assumption. }
  cbn [stopw] in *. destruct (memN (k_tag t') seen') eqn:Hm.
  2:{ exists [grp'], consumed. split; [assumption|]. split; [reflexivity|].
      cbn [flat_map]. rewrite app_nil_r. assumption. }
  assert (Hlen : (length (t' :: rest') < length (t :: r))%nat).
  { rewrite Ets, app_length. destruct consumed; [congruence | cbn [length]; lia]. }
  rewrite Ets in Hok, Hat. destruct (toks_ok_app _ _ _ Hok) as [_ Hok'].
  pose proof (at_suffix _ _ _ _ _ _ Hat) as Hat'.
  assert (Hnf' : (3 * length (t' :: rest') + 2 <= mf)%nat) by lia.
  assert (Hsf' : (3 * length (t' :: rest') + 2 <= sf)%nat) by lia.
  pose proof (IHG gm (els ++ [grp']) (off + lenN (ser consumed)) (t' :: rest') tail sf Hwf Hok' Hat' Hsf' Hnf') as HG.
  destruct (sp_elems sf gm (t' :: rest')) as [rest2|]; [|exact HG].
  destruct HG as (new2 & cons2 & E2 & Hres2 & Hperm2).
  exists (grp' :: new2), (consumed ++ cons2). split; [|split].
  - rewrite Ets, E2, app_assoc. reflexivity.
  - rewrite Hres2. f_equal. f_equal.
    + rewrite <- app_assoc. reflexivity.
    + rewrite ser_app, lenN_app. lia.
  - cbn [flat_map]. rewrite map_app. apply Permutation_app; assumption.
Qed.

Lemma stepDL mf : stmtGL mf -> stmtDL (S mf).
Proof.
  intros IHG m f sg off ts tail sf Hsub Hwf Hok Hat Hsf Hmfu.
  rewrite decode_group_S in *. unfold find_add_group in *. rewrite Hsub in *. cbv zeta in *.
  set (m1 := with_groups m (map_insert f [] (mb_groups m))) in *.
  destruct (map_find_insert f (@nil mbase) (mb_groups m)) as (els0 & Hmf).
  assert (Hg1 : mb_groups m1 = map_insert f [] (mb_groups m)) by (unfold m1; apply groups_wg).
  rewrite Hg1, Hmf in *.
  assert (Hnf0 : (3 * length ts + 2 <= mf)%nat) by lia.
  pose proof (IHG sg els0 off ts tail sf Hwf Hok Hat Hsf Hnf0) as HG.
  destruct (sp_elems sf sg ts) as [rest|].
  2:{ destruct HG as (e & He). rewrite He. eauto. }
  destruct HG as (new & consumed & Ets & Hres & Hperm).
  rewrite Hres. exists (with_groups m1 (map_set f (els0 ++ new) (map_insert f [] (mb_groups m)))), consumed.
  split; [assumption|]. split; [reflexivity|].
  rewrite fp_wg, pos_wg, subs_wg, fields_wg. unfold m1 at 1 2 3 4. rewrite fp_wg, pos_wg, subs_wg, fields_wg.
  split; [reflexivity|]. split; [reflexivity|]. split; [reflexivity|]. split; [reflexivity|].
  rewrite !mflat_eq, pos_wg, groups_wg. unfold m1. rewrite pos_wg. rewrite <- app_assoc.
  apply Permutation_app_head.
  eapply perm_trans; [apply gflat_set; exact Hmf|]. rewrite gflat_insert.
  apply Permutation_app_head. assumption.
Qed.

Lemma lockstep_groups : forall mf, stmtEL mf /\ stmtGL mf /\ stmtDL mf.
Proof.
  induction mf as [|mf (IE & IG & ID)].
  - split; [|split]; unfold stmtEL, stmtGL, stmtDL; intros;
      lia.
  - pose proof (stepEL mf IE ID). pose proof (stepGL mf IE IG). pose proof (stepDL mf IG). auto.
Qed.
End Lockstep.

(* ------------------------------------------------------------------ one part in lockstep *)
Definition part_rel (g : gmeta) (m : mbase) (seen : list N) : Prop :=
  same_table (mb_fp m) (g_traits g) /\ mb_subs m = g_subs g /\ seen_rel (mb_fp m) seen.

Lemma part_rel_add g m seen f tr p v :
  part_rel g m seen -> find_trait (mb_fp m) f = Some tr ->
  part_rel g (mark_present (add_field_decoder m f p v) f) (f :: seen).
Proof.
  intros (H1 & H2 & H3) Hf. unfold part_rel. rewrite fp_mark, fp_afd, subs_mark, subs_afd.
  split; [apply same_table_mark; assumption|]. split; [assumption|]. eapply seen_rel_mark; eassumption.
Qed.
Lemma part_rel_same g m m' seen :
  mb_fp m' = mb_fp m -> mb_subs m' = mb_subs m -> part_rel g m seen -> part_rel g m' seen.
Proof. unfold part_rel. intros -> ->. trivial. Qed.

Lemma no_auto_cons g t r : no_auto g (t :: r) = true -> is_auto g (k_tag t) = false /\ no_auto g r = true.
Proof.
  unfold no_auto. cbn [forallb]. intros H. apply andb_true_iff in H. destruct H as [H1 H2].
  apply negb_true_iff in H1. auto.
Qed.
Lemma no_auto_app g a b : no_auto g (a ++ b) = true -> no_auto g a = true /\ no_auto g b = true.
Proof. unfold no_auto. rewrite forallb_app. intros H. apply andb_true_iff in H. exact H. Qed.

Section Part.
Variable c : ctx. Variable from : list N. Variable fsize : N. Variable gfuel : nat.
Notation DEC := (dec_loop c real_caps from fsize false gfuel).

Definition part_result (g : gmeta) (m : mbase) (off : N) (ts : list tok) (seen : list N) (sf : nat)
                       (r : res (mbase * N)) : Prop :=
  match sp_fields sf g false seen ts with
  | PViol => exists e, r = Exc e
  | PRest seen' rest =>
      if mand_ok g seen' then
        exists m' consumed, ts = consumed ++ rest /\ r = Ok (m', off + lenN (ser consumed)) /\
          part_rel g m' seen' /\ Permutation (mflat m') (mflat m ++ map tok_pair consumed) /\
          (forall f, memN f seen = true -> memN f seen' = true)
      else exists e, r = Exc e
  end.

Lemma finish_result g m off pos lvp lvo seen ts :
  wf_table c false g = true -> part_rel g m seen ->
  (if mand_ok g seen then
     exists m' consumed, ts = consumed ++ ts /\ dec_finish false m off pos lvp lvo = Ok (m', off + lenN (ser consumed)) /\
       part_rel g m' seen /\ Permutation (mflat m') (mflat m ++ map tok_pair consumed) /\
       (forall f, memN f seen = true -> memN f seen = true)
   else exists e, dec_finish false m off pos lvp lvo = Exc e).
Proof.
  intros Hwf (Hst & Hsubs & Hseen).
  destruct (wf_table_unfold _ _ _ Hwf) as (Hnd & _ & _).
  pose proof (mand_rel g (mb_fp m) seen Hnd Hst Hseen) as Hmand. unfold dec_finish.
  destruct (mand_ok g seen) eqn:Hmo.
  - assert (Hfm : find_missing (mb_fp m) = None) by (apply Hmand; reflexivity). rewrite Hfm.
    exists m, []. cbn [app map andb]. rewrite lenN_ser_nil, N.add_0_r, app_nil_r.
    split; [reflexivity|]. split; [reflexivity|]. split; [unfold part_rel; auto|]. split; [reflexivity | auto].
  - destruct (find_missing (mb_fp m)) as [f0|] eqn:Hfm; [eauto|].
    destruct Hmand as [Hm1 _]. discriminate (Hm1 eq_refl).
Qed.

Lemma part_lockstep : forall mf g m pos off ts tail seen sf lvp lvo tb,
  wf_table c false g = true -> part_rel g m seen -> toks_ok c ts = true -> no_auto g ts = true ->
  at_toks from fsize off ts tail -> (3 * length ts + 1 <= sf)%nat ->
  (length ts + 1 <= mf)%nat -> (3 * length ts + 3 <= gfuel)%nat ->
  part_result g m off ts seen sf (DEC mf m off pos lvp lvo tb).
Proof.
  induction mf as [|mf IH]; intros g m pos off ts tail seen sf lvp lvo tb Hwf Hrel Hok Hna Hat Hsf Hmf Hgf;
    [lia|].
  destruct sf as [|sf]; [lia|].
  unfold part_result. rewrite dec_loop_strict_S in *. cbv zeta in *.
  destruct ts as [|t r].
  { rewrite (at_nil _ _ _ _ Hat) in *. rewrite N.leb_refl, tok_at_end_real in *. cbn [sp_fields].
    apply finish_result; assumption. }
  destruct (toks_ok_cons _ _ _ Hok) as [Hokt Hokr].
  destruct (tok_ok_facts _ _ Hokt) as (Htag & Hval & Hint & Hlen).
  destruct (at_cons _ _ _ _ _ _ Hat Htag Hval) as (_ & Hle & Htok & Hat1).
  destruct (no_auto_cons _ _ _ Hna) as [Hnat Hnar].
  rewrite Hle, Htok in *.
  rewrite (atoi_u16_itoa (k_tag t) Htag) in *.
  destruct (val_ok_facts _ Hval) as (_ & _ & Hnz & _).
  rewrite (cstr_nonzero _ Hnz) in *.
  cbn [sp_fields andb].
  destruct Hrel as (Hst & Hsubs & Hseen).
  assert (Hrel : part_rel g m seen) by (unfold part_rel; auto).
  destruct (find_trait (mb_fp m) (k_tag t)) as [tr|] eqn:Hf.
  2:{ rewrite (same_table_find_none _ _ _ Hst Hf). apply finish_result; assumption. }
  destruct (same_table_find_some _ _ _ _ Hst Hf) as (tr' & Hf' & Hs). rewrite Hf'.
  rewrite (seen_present _ _ _ _ Hseen Hf) in *.
  destruct (memN (k_tag t) seen) eqn:Hm.
  { (* duplicate *)
    unfold is_auto in Hnat. rewrite Hf' in Hnat. rewrite (auto_strip _ _ Hs), Hnat. eauto. }
  destruct (wf_trait2 _ _ _ _ _ Hwf Hf') as (Hbe & Hgrp & _).
  rewrite Hbe in *.
  set (pos1 := (pos + 1) mod 4294967296) in *.
  pose proof (part_rel_add g m seen (k_tag t) tr pos1 (k_val t) Hrel Hf) as Hrel1.
  set (m1 := mark_present (add_field_decoder m (k_tag t) pos1 (k_val t)) (k_tag t)) in *.
  set (off1 := off + lenN (ser_tok t)) in *.
  assert (Hnl : negb (t_ftype tr =? ft_Length) || (k_tag t =? Common_BodyLength) = true).
  { destruct (t_ftype tr =? ft_Length) eqn:E; [|reflexivity]. cbn [negb orb]. apply N.eqb_eq in E.
    apply N.eqb_eq. apply Hlen. rewrite (ftype_find _ _ _ Hbe), <- (ftype_strip _ _ Hs). assumption. }
  rewrite Hnl in *.
  assert (Hcont : forall m' cons1 r',
    r = cons1 ++ r' -> part_rel g m' (k_tag t :: seen) ->
    Permutation (mflat m') (mflat m ++ tok_pair t :: map tok_pair cons1) ->
    match sp_fields sf g false (k_tag t :: seen) r' with
    | PViol => exists e, DEC mf m' (off1 + lenN (ser cons1)) pos1 lvp lvo (tagbuf_after (itoa_N (k_tag t)) tb) = Exc e
    | PRest seen' rest =>
        if mand_ok g seen' then
          exists m'' consumed, t :: r = consumed ++ rest /\
            DEC mf m' (off1 + lenN (ser cons1)) pos1 lvp lvo (tagbuf_after (itoa_N (k_tag t)) tb)
              = Ok (m'', off + lenN (ser consumed)) /\
            part_rel g m'' seen' /\ Permutation (mflat m'') (mflat m ++ map tok_pair consumed) /\
            (forall f, memN f seen = true -> memN f seen' = true)
        else exists e, DEC mf m' (off1 + lenN (ser cons1)) pos1 lvp lvo (tagbuf_after (itoa_N (k_tag t)) tb) = Exc e
    end).
  { intros m' cons1 r' Er Hrel' Hperm.
    subst r. destruct (toks_ok_app _ _ _ Hokr) as [_ Hokr']. destruct (no_auto_app _ _ _ Hnar) as [_ Hnar'].
    pose proof (at_suffix _ _ _ _ _ _ Hat1) as Hat'.
    assert (Hsf' : (3 * length r' + 1 <= sf)%nat).
    { cbn [length] in Hsf. rewrite app_length in Hsf. lia. }
    assert (Hmf' : (length r' + 1 <= mf)%nat).
    { cbn [length] in Hmf. rewrite app_length in Hmf. lia. }
    assert (Hgf' : (3 * length r' + 3 <= gfuel)%nat).
    { cbn [length] in Hgf. rewrite app_length in Hgf. lia. }
    pose proof (IH g m' pos1 (off1 + lenN (ser cons1)) r' tail (k_tag t :: seen) sf lvp lvo
                   (tagbuf_after (itoa_N (k_tag t)) tb) Hwf Hrel' Hokr' Hnar' Hat' Hsf' Hmf' Hgf') as HI.
    unfold part_result in HI.
    destruct (sp_fields sf g false (k_tag t :: seen) r') as [|seen' rest]; [exact HI|].
    destruct (mand_ok g seen'); [|exact HI].
    destruct HI as (m'' & cons2 & Er' & Hres & Hrel'' & Hperm2 & Hmono).
    exists m'', (t :: cons1 ++ cons2). split; [|split; [|split; [|split]]].
    - subst r'. cbn [app]. rewrite <- app_assoc. reflexivity.
    - rewrite Hres. f_equal. f_equal. unfold off1. rewrite ser_cons, ser_app, !lenN_app. lia.
    - assumption.
    - eapply perm_trans; [exact Hperm2|].
      eapply perm_trans; [apply Permutation_app_tail; exact Hperm|].
      rewrite <- app_assoc. apply Permutation_app_head. cbn [map app]. rewrite map_app. reflexivity.
    - intros f Hf0. apply Hmono. rewrite memN_cons, Hf0. apply orb_true_r. }
  unfold opt_group in *.
  rewrite (group_strip _ _ Hs) in *.
  destruct (t_group tr') eqn:Hg; cbn [andb] in *.
  2:{ specialize (Hcont m1 [] r eq_refl Hrel1). cbn [ser flat_map lenN map] in Hcont. rewrite N.add_0_r in Hcont.
      apply Hcont. unfold m1. apply mflat_add_tok. }
  destruct (Hgrp eq_refl) as (Hit & sg' & Hsub & Hwf').
  assert (Hcnt : has_group_count_c c (k_tag t) (k_val t) = count_pos (k_val t)).
  { rewrite (hgc_int _ _ _ _ Hbe Hit). rewrite <- (cstr_nonzero _ Hnz) at 1. apply count_agree. apply Hint.
    rewrite (ftype_find _ _ _ Hbe). assumption. }
  rewrite Hcnt in *.
  destruct (count_pos (k_val t)) eqn:Hcp.
  2:{ specialize (Hcont m1 [] r eq_refl Hrel1). cbn [ser flat_map lenN map] in Hcont. rewrite N.add_0_r in Hcont.
      apply Hcont. unfold m1. apply mflat_add_tok. }
  rewrite Hsub.
  assert (Hsub1 : find_sub (mb_subs m1) (k_tag t) = Some sg').
  { destruct Hrel1 as (_ & Hs1 & _). rewrite Hs1. assumption. }
  assert (Hnf1 : (3 * length r + 3 <= gfuel)%nat) by (cbn [length] in Hgf; lia).
  assert (Hsf1 : (3 * length r + 2 <= sf)%nat) by (cbn [length] in Hsf; lia).
  destruct (lockstep_groups c from fsize gfuel) as (_ & _ & HDL).
  pose proof (HDL m1 (k_tag t) sg' off1 r tail sf Hsub1 Hwf' Hokr Hat1 Hsf1 Hnf1) as HD.
  destruct (sp_elems sf sg' r) as [r'|].
  2:{ destruct HD as (e & He). rewrite He. eauto. }
  destruct HD as (m2 & cons1 & Er & Hres & E1 & E2 & E3 & _ & Hperm).
  rewrite Hres in *.
  apply (Hcont m2 cons1 r' Er).
  - eapply part_rel_same; eauto.
  - eapply perm_trans; [exact Hperm|].
    eapply perm_trans; [apply Permutation_app_tail; unfold m1; apply mflat_add|].
    cbn [app]. apply Permutation_middle.
Qed.
End Part.

(* ------------------------------------------------------------------ the spec's tokenizer on ser *)
Lemma dec_digits_app a b acc :
  all_digits a -> dec_digits (a ++ b) acc = match dec_digits a acc with Some v => dec_digits b v | None => None end.
Proof.
  revert acc. induction a as [|x a IH]; intros acc Ha; cbn [app dec_digits]; [reflexivity|].
  inversion Ha as [|? ? Hx Ha']; subst. rewrite Hx. apply IH. assumption.
Qed.
Lemma dec_digits_itoa n : dec_digits (itoa_N n) 0 = Some n.
Proof.
  induction n as [n H|n H IH] using N_div10_ind.
  - rewrite itoa_small by assumption. cbn [dec_digits]. rewrite is_digit_48 by assumption. f_equal. lia.
  - rewrite itoa_step by assumption. rewrite dec_digits_app by apply itoa_digits. rewrite IH.
    cbn [dec_digits]. rewrite is_digit_48 by (apply N.mod_lt; lia). f_equal.
    pose proof (N.div_mod n 10). lia.
Qed.

Lemma scan_digits : forall d rest tag have val n,
  d <> [] -> dec_digits d tag = Some n ->
  scan (d ++ rest) true tag have val = scan rest true n true val.
Proof.
  induction d as [|x d IH]; intros rest tag have val n Hne Hd; [congruence|].
  cbn [app scan dec_digits] in *. destruct (is_digit x); [|discriminate].
  destruct d as [|y d'].
  - cbn [dec_digits] in Hd. injection Hd as <-. reflexivity.
  - apply IH; [discriminate | assumption].
Qed.
Lemma scan_val : forall v rest tag have acc,
  no_soh v ->
  scan (v ++ SOH :: rest) false tag have acc =
  match scan rest true 0 false [] with Some ts => Some (mkTok tag (rev acc ++ v) :: ts) | None => None end.
Proof.
  induction v as [|x v IH]; intros rest tag have acc Hv; cbn [app scan].
  - rewrite N.eqb_refl, app_nil_r. reflexivity.
  - inversion Hv as [|? ? Hx Hv']; subst. rewrite Hx. rewrite IH by assumption.
    cbn [rev]. rewrite <- app_assoc. reflexivity.
Qed.
Lemma scan_tok t rest : no_soh (k_val t) ->
  scan (ser_tok t ++ rest) true 0 false [] =
  match scan rest true 0 false [] with Some ts => Some (t :: ts) | None => None end.
Proof.
  intros Hv. unfold ser_tok. rewrite <- app_assoc.
  rewrite (scan_digits (itoa_N (k_tag t)) _ 0 false [] (k_tag t) (itoa_nonempty _) (dec_digits_itoa _)).
  cbn [app scan]. change (is_digit EQC) with false. cbn iota. rewrite N.eqb_refl. cbn [andb].
  rewrite <- app_assoc. cbn [app]. rewrite scan_val by assumption. cbn [rev app]. destruct t; reflexivity.
Qed.
Lemma tokenize_ser c toks : toks_ok c toks = true -> tokenize (ser toks) = Some toks.
Proof.
  unfold tokenize. induction toks as [|t r IH]; intros Hok; [reflexivity|].
  destruct (toks_ok_cons _ _ _ Hok) as [Hokt Hokr]. destruct (tok_ok_facts _ _ Hokt) as (_ & Hval & _).
  destruct (val_ok_facts _ Hval) as (Hsoh & _). rewrite ser_cons, scan_tok by assumption.
  rewrite (IH Hokr). reflexivity.
Qed.

(* ------------------------------------------------------------------ extract_header on a framed list *)
Lemma extract_header_framed (t8 t9 t35 : tok) rest :
  k_tag t8 = 8 -> k_tag t9 = 9 -> k_tag t35 = 35 ->
  val_ok (k_val t8) = true -> val_ok (k_val t9) = true -> val_ok (k_val t35) = true ->
  lenN (k_val t9) < 32 -> lenN (k_val t35) < 32 ->
  extract_header (ser (t8 :: t9 :: t35 :: rest)) (cap_htag real_caps) (cap_hval real_caps)
                 (cap_len real_caps) (cap_mtype real_caps)
  = Ok (lenN (ser [t8; t9; t35]), k_val t9, k_val t35).
Proof.
  intros E8 E9 E35 V8 V9 V35 L9 L35.
  destruct (val_ok_facts _ V8) as (S8 & B8 & _). destruct (val_ok_facts _ V9) as (S9 & _).
  destruct (val_ok_facts _ V35) as (S35 & _).
  unfold extract_header. cbn [real_caps cap_htag cap_hval cap_len cap_mtype].
  unfold MAX_MSGTYPE_FIELD_LEN, MAX_FLD_LENGTH.
  set (from := ser (t8 :: t9 :: t35 :: rest)).
  assert (Hfrom : from = ser_tok t8 ++ ser_tok t9 ++ ser_tok t35 ++ ser rest) by reflexivity.
  assert (Hlen : lenN from = lenN (ser_tok t8) + lenN (ser_tok t9) + lenN (ser_tok t35) + lenN (ser rest)).
  { rewrite Hfrom, !lenN_app. lia. }
  assert (T8 : lenN (itoa_N (k_tag t8)) < 32) by (pose proof (itoa_len_small (k_tag t8)); lia).
  assert (T9 : lenN (itoa_N (k_tag t9)) < 32) by (pose proof (itoa_len_small (k_tag t9)); lia).
  assert (T35 : lenN (itoa_N (k_tag t35)) < 32) by (pose proof (itoa_len_small (k_tag t35)); lia).
  rewrite Hfrom at 1. rewrite extract_ser_tok; [|split; assumption|assumption|lia].
  rewrite E8. change (hd_is (itoa_N 8) 56) with true. cbn [negb].
  rewrite Hfrom at 1. rewrite skipN_app.
  rewrite extract_ser_tok; [|split; assumption|assumption|lia].
  rewrite E9. change (hd_is (itoa_N 9) 57) with true. cbn [negb].
  rewrite Hfrom at 1. rewrite app_assoc, <- lenN_app, skipN_app.
  rewrite extract_ser_tok; [|split; assumption|assumption|rewrite lenN_app; lia].
  rewrite E35. change (hd_is (itoa_N 35) 51 && hd_is (tl (itoa_N 35)) 53) with true. cbn [negb].
  f_equal. f_equal. f_equal. cbn [ser flat_map]. rewrite !lenN_app. cbn [lenN]. lia.
Qed.

(* ------------------------------------------------------------------ the spec on the framing tokens *)
(* a plain (non-group) field of the table that has not been seen: one step of sp_fields *)
Lemma sp_plain sf g seen t r tr :
  find_trait (g_traits g) (k_tag t) = Some tr -> t_group tr = false -> memN (k_tag t) seen = false ->
  sp_fields (S sf) g false seen (t :: r) = sp_fields sf g false (k_tag t :: seen) r.
Proof. intros Hf Hg Hm. cbn [sp_fields]. rewrite Hf, Hm, Hg. reflexivity. Qed.

Lemma memN_app x a b : memN x (a ++ b) = memN x a || memN x b.
Proof. unfold memN. apply existsb_app. Qed.

(* a table without repeating groups: the part parse of ts ++ [tx], where x (a plain field of
   the table) occurs nowhere in ts, from the parse of ts that started with x already seen *)
Lemma sp_ext g x tx trx :
  forallb (fun tr => negb (t_group tr)) (g_traits g) = true ->
  find_trait (g_traits g) x = Some trx -> k_tag tx = x ->
  forall ts sf s, forallb (fun t => negb (k_tag t =? x)) ts = true -> memN x s = false ->
    (length ts + 2 <= sf)%nat ->
    match sp_fields sf g false (s ++ [x]) ts with
    | PViol => sp_fields (S sf) g false s (ts ++ [tx]) = PViol
    | PRest s' [] => exists s0, s' = s0 ++ [x] /\ sp_fields (S sf) g false s (ts ++ [tx]) = PRest (x :: s0) []
    | PRest s' (t' :: rest') =>
        exists s0, s' = s0 ++ [x] /\ sp_fields (S sf) g false s (ts ++ [tx]) = PRest s0 (t' :: rest' ++ [tx])
    end.
Proof.
  intros Hng Hfx Etx. assert (Hgx : t_group trx = false).
  { destruct (find_trait_fnum _ _ _ Hfx) as [_ Hin]. rewrite forallb_forall in Hng. specialize (Hng _ Hin).
    apply negb_true_iff in Hng. assumption. }
  induction ts as [|t r IH]; intros sf s Hts Hms Hsf.
  - destruct sf as [|sf]; [cbn in Hsf; lia|].
    change (sp_fields (S sf) g false (s ++ [x]) []) with (PRest (s ++ [x]) (@nil tok)). cbn iota.
    exists s. split; [reflexivity|]. cbn [app].
    rewrite <- Etx in Hfx, Hms.
    rewrite (sp_plain _ _ _ _ _ _ Hfx Hgx Hms). cbn [sp_fields]. rewrite Etx. reflexivity.
  - destruct sf as [|sf]; [cbn in Hsf; lia|]. cbn [forallb] in Hts. apply andb_true_iff in Hts.
    destruct Hts as [Ht Hr]. apply negb_true_iff in Ht. apply N.eqb_neq in Ht.
    cbn [sp_fields app andb].
    destruct (find_trait (g_traits g) (k_tag t)) as [tr|] eqn:Hf.
    2:{ exists s. split; reflexivity. }
    rewrite memN_app. cbn [memN existsb]. rewrite orb_false_r.
    assert (E : (k_tag t =? x) = false) by (apply N.eqb_neq; assumption). rewrite E, orb_false_r.
    destruct (memN (k_tag t) s) eqn:Hm; [reflexivity|].
    assert (Hg : t_group tr = false).
    { destruct (find_trait_fnum _ _ _ Hf) as [_ Hin]. rewrite forallb_forall in Hng. specialize (Hng _ Hin).
      apply negb_true_iff in Hng. assumption. }
    rewrite Hg. cbn [andb].
    assert (Hms' : memN x (k_tag t :: s) = false).
    { rewrite memN_cons, Hms, orb_false_r. apply N.eqb_neq. congruence. }
    specialize (IH sf (k_tag t :: s) Hr Hms' ltac:(cbn [length] in Hsf; lia)). cbn [app] in IH. exact IH.
Qed.

Lemma forallb_ext_in' {A} (f g : A -> bool) l : (forall x, In x l -> f x = g x) -> forallb f l = forallb g l.
Proof.
  induction l as [|y r IH]; intros H; cbn [forallb]; [reflexivity|].
  rewrite (H y (or_introl eq_refl)), IH; [reflexivity|]. intros x Hx. apply H. right. assumption.
Qed.

Lemma mand_ok_ext g x s trx :
  nodupN (map t_fnum (g_traits g)) = true -> find_trait (g_traits g) x = Some trx -> t_mand trx = false ->
  mand_ok g (s ++ [x]) = mand_ok g s /\ mand_ok g (x :: s) = mand_ok g s.
Proof.
  intros Hnd Hfx Hm. apply nodupN_NoDup in Hnd. unfold mand_ok.
  assert (H : forall tr, In tr (g_traits g) ->
            (negb (t_mand tr) || memN (t_fnum tr) (s ++ [x]) = negb (t_mand tr) || memN (t_fnum tr) s) /\
            (negb (t_mand tr) || memN (t_fnum tr) (x :: s) = negb (t_mand tr) || memN (t_fnum tr) s)).
  { intros tr Hin. rewrite memN_app, memN_cons. cbn [memN existsb]. rewrite orb_false_r.
    destruct (t_fnum tr =? x) eqn:E; [|rewrite orb_false_r; split; reflexivity].
    apply N.eqb_eq in E. pose proof (find_trait_nodup _ _ Hnd Hin) as Hf. rewrite E, Hfx in Hf.
    injection Hf as <-. rewrite Hm. split; reflexivity. }
  split; apply forallb_ext_in'; intros tr Hin; apply (H tr Hin).
Qed.

(* ------------------------------------------------------------------ freshly constructed parts *)
Lemma list_eqb_eq a b : list_eqb a b = true -> a = b.
Proof.
  revert b. induction a as [|x a IH]; intros [|y b] H; cbn [list_eqb] in H; try discriminate; [reflexivity|].
  apply andb_true_iff in H. destruct H as [H1 H2]. apply N.eqb_eq in H1. subst. f_equal. auto.
Qed.
Lemma list_eqb_refl a : list_eqb a a = true.
Proof. induction a as [|x a IH]; cbn [list_eqb]; [reflexivity|]. rewrite N.eqb_refl, IH. reflexivity. Qed.

Lemma fold_init_pos : forall init m,
  Permutation (map snd (mb_pos (fold_left add_init init m))) (map snd (mb_pos m) ++ map snd init).
Proof.
  induction init as [|[p [f v]] r IH]; intros m; cbn [fold_left map].
  - rewrite app_nil_r. reflexivity.
  - eapply perm_trans; [apply IH|]. unfold add_init. rewrite pos_mark, pos_afd. unfold pos_insert.
    eapply perm_trans; [apply Permutation_app_tail; apply Permutation_map; apply pos_insert_k_perm|].
    cbn [map snd app]. apply Permutation_middle.
Qed.
Lemma fold_init_groups : forall init m, mb_groups (fold_left add_init init m) = mb_groups m.
Proof.
  induction init as [|[p [f v]] r IH]; intros m; cbn [fold_left]; [reflexivity|].
  rewrite IH. unfold add_init. rewrite groups_mark, groups_afd. reflexivity.
Qed.
Lemma gflat_deep_groups g d : gflat (deep_groups g d) = [].
Proof.
  unfold deep_groups. destruct (d && g_deep g); [|reflexivity].
  induction (g_subs g) as [|s r IH]; cbn [fold_right]; [reflexivity|]. rewrite gflat_insert. exact IH.
Qed.
Lemma mflat_mk_part g init : Permutation (mflat (mk_part g init true)) (map snd init).
Proof.
  unfold mk_part. rewrite mflat_eq, fold_init_groups. unfold create_group at 2. cbn [mb_groups].
  rewrite gflat_deep_groups, app_nil_r.
  eapply perm_trans; [apply fold_init_pos|]. reflexivity.
Qed.

Lemma init_part_rel c g init fs :
  wf_table c false g = true -> init_ok g init = true -> map (fun e => fst (snd e)) init = fs ->
  part_rel g (mk_part g init true) fs.
Proof.
  intros Hwf Hio Efs. destruct (part_init_inv c g init Hwf Hio) as (Hst & Hsubs & _ & Hiff & _).
  split; [assumption|]. split; [assumption|]. intros f. rewrite memN_In, <- Hiff, <- Efs.
  unfold pos_tags, tags_of.
  assert (HP : Permutation (map (fun e : N * (N * list N) => fst (snd e)) (mb_pos (mk_part g init true)))
                           (map (fun e : N * (N * list N) => fst (snd e)) init)).
  { rewrite <- !(map_map snd fst). apply Permutation_map. unfold mk_part.
    eapply perm_trans; [apply fold_init_pos|]. reflexivity. }
  split; intros H; [apply (Permutation_in _ (Permutation_sym HP)) | apply (Permutation_in _ HP)]; assumption.
Qed.

Lemma body_part_rel c g : wf_body c g = true -> part_rel g (create_group g false) [].
Proof.
  intros H. destruct (body_init_inv c g H) as (Hst & Hsubs & _ & Hiff & _).
  split; [assumption|]. split; [assumption|]. intros f. rewrite <- Hiff. cbn. split; [discriminate | intros []].
Qed.

(* automatic flags, from init_ok *)
Lemma init_ok_auto g init f :
  init_ok g init = true ->
  is_auto g f = match find_trait (g_traits g) f with Some _ => memN f (map (fun e => fst (snd e)) init) | None => false end.
Proof.
  intros Hio. unfold init_ok in Hio. cbv zeta in Hio. apply andb_true_iff in Hio. destruct Hio as [_ H3].
  unfold is_auto. destruct (find_trait (g_traits g) f) as [tr|] eqn:Hf; [|reflexivity].
  destruct (find_trait_fnum _ _ _ Hf) as [Hn Hin]. rewrite forallb_forall in H3. specialize (H3 _ Hin).
  apply andb_true_iff in H3. destruct H3 as [H3 _]. apply eqb_prop in H3. rewrite Hn in H3. assumption.
Qed.
Lemma init_ok_plain g init f :
  init_ok g init = true -> In f (map (fun e => fst (snd e)) init) ->
  exists tr, find_trait (g_traits g) f = Some tr /\ t_group tr = false /\ t_mand tr = false.
Proof.
  intros Hio Hin. unfold init_ok in Hio. cbv zeta in Hio. apply andb_true_iff in Hio. destruct Hio as [Hio _].
  apply andb_true_iff in Hio. destruct Hio as [_ H2]. rewrite forallb_forall in H2. specialize (H2 _ Hin).
  destruct (find_trait (g_traits g) f) as [tr|]; [|discriminate]. exists tr. split; [reflexivity|].
  apply andb_true_iff in H2. destruct H2 as [H2 _]. apply andb_true_iff in H2. destruct H2 as [Hg Hm].
  apply negb_true_iff in Hg, Hm. auto.
Qed.
Lemma wf_body_no_auto c g ts : wf_body c g = true -> no_auto g ts = true.
Proof.
  intros H. unfold wf_body in H. apply andb_true_iff in H. destruct H as [_ H]. rewrite forallb_forall in H.
  unfold no_auto. apply forallb_forall. intros t _. unfold is_auto.
  destruct (find_trait (g_traits g) (k_tag t)) as [tr|] eqn:Hf; [|reflexivity].
  destruct (find_trait_fnum _ _ _ Hf) as [_ Hin]. specialize (H _ Hin). apply andb_true_iff in H. apply H.
Qed.

(* ------------------------------------------------------------------ assembling Message::decode *)
Lemma ser_len_ge ts : (3 * length ts <= length (ser ts))%nat.
Proof.
  induction ts as [|t r IH]; [cbn; lia|]. rewrite ser_cons, app_length. cbn [length].
  pose proof (lenN_ser_tok_pos t) as H. rewrite lenN_len in H. lia.
Qed.

(* the fuel Message::decode's model hands out is never exhausted: two units per input byte *)
Lemma part_decode c bytes g m seen ts tail off ignore sf :
  wf_table c false g = true -> part_rel g m seen -> toks_ok c ts = true -> no_auto g ts = true ->
  at_toks bytes ((lenN bytes + 4294967296 - ignore) mod 4294967296) off ts tail ->
  (3 * length ts + 1 <= sf)%nat -> (1 <= length bytes)%nat ->
  part_result g m off ts seen sf (mbase_decode c real_caps bytes m off ignore false).
Proof.
  intros Hwf Hrel Hok Hna Hat Hsf Hb1. unfold mbase_decode, mb_decode in *.
  assert (Hl : (length (ser ts) <= length bytes)%nat).
  { destruct Hat as (pre & -> & _). rewrite !app_length. lia. }
  pose proof (ser_len_ge ts) as Hge.
  eapply part_lockstep; eauto; unfold dec_fuel; lia.
Qed.

Lemma part_of_result g ts (sf : nat) : sf = sp_fuel ts ->
  part g ts = match sp_fields sf g false [] ts with
              | PViol => PViol
              | PRest seen rest => if mand_ok g seen then PRest seen rest else PViol
              end.
Proof. intros ->. reflexivity. Qed.

Lemma frame_split toks : framed toks = true ->
  exists t8 t9 t35 mid t10, toks = t8 :: t9 :: t35 :: mid ++ [t10] /\
    k_tag t8 = 8 /\ k_tag t9 = 9 /\ k_tag t35 = 35 /\ k_tag t10 = 10 /\ lenN (k_val t10) = 3 /\
    last toks t8 = t10 /\ middle toks = mid.
Proof.
  destruct toks as [|t8 [|t9 [|t35 r]]]; try discriminate. unfold framed. intros H.
  apply andb_true_iff in H. destruct H as [H H10]. apply andb_true_iff in H. destruct H as [H H35].
  apply andb_true_iff in H. destruct H as [H8 H9]. cbv zeta in H10. apply andb_true_iff in H10. destruct H10 as [H10 HL].
  apply N.eqb_eq in H8, H9, H35, H10, HL.
  destruct r as [|x r'].
  { cbn [last] in H10. congruence. }
  assert (Hne : x :: r' <> []) by discriminate.
  pose proof (app_removelast_last t8 Hne) as Hr.
  exists t8, t9, t35, (removelast (x :: r')), (last (x :: r') t8).
  assert (Hlast : last (t8 :: t9 :: t35 :: x :: r') t8 = last (x :: r') t8) by reflexivity.
  rewrite Hlast in *. split; [rewrite <- Hr; reflexivity|]. repeat split; try assumption.
Qed.

Lemma lenN_ser_tok10 t : k_tag t = 10 -> lenN (k_val t) = 3 -> lenN (ser_tok t) = 7.
Proof.
  intros E L. unfold ser_tok. rewrite E. change (itoa_N 10) with [49; 48]. cbn [app lenN].
  rewrite lenN_app. cbn [lenN]. lia.
Qed.

Lemma seen_rel_ext fp a b : (forall f, memN f a = memN f b) -> seen_rel fp a -> seen_rel fp b.
Proof. intros E H f. rewrite <- E. apply H. Qed.

Lemma dec_loop_past c cp from fsize gfuel mf m off pos lvp lvo tb :
  fsize < off -> dec_loop c cp from fsize false gfuel (S mf) m off pos lvp lvo tb = dec_finish false m off pos lvp lvo.
Proof.
  intros H. rewrite dec_loop_strict_S. assert (E : (off <=? fsize) = false) by (apply N.leb_gt; assumption).
  rewrite E. reflexivity.
Qed.

Lemma wf_ctx_all c : wf_ctx c = true ->
  wf_table c false (c_header c) = true /\ wf_table c false (c_trailer c) = true /\
  init_ok (c_header c) (c_hdr_init c) = true /\ init_ok (c_trailer c) (c_trl_init c) = true /\
  map (fun e => fst (snd e)) (c_hdr_init c) = [8; 9; 35] /\
  map (fun e => fst (snd e)) (c_trl_init c) = [10] /\
  (exists ty, find_be (c_fields c) 9 = Some ty /\ is_int_type ty = true) /\
  forallb (fun tr => negb (t_group tr)) (g_traits (c_trailer c)) = true /\
  (forall md, In md (c_msgs c) -> wf_body c (md_meta md) = true).
Proof.
  unfold wf_ctx. intros H.
  apply andb_true_iff in H. destruct H as [H A10]. apply andb_true_iff in H. destruct H as [H A9].
  apply andb_true_iff in H. destruct H as [H A8]. apply andb_true_iff in H. destruct H as [H A7].
  apply andb_true_iff in H. destruct H as [H A6]. apply andb_true_iff in H. destruct H as [H A5].
  apply andb_true_iff in H. destruct H as [H A4]. apply andb_true_iff in H. destruct H as [H A3].
  apply andb_true_iff in H. destruct H as [A1 A2].
  split; [assumption|]. split; [assumption|]. split; [assumption|]. split; [assumption|].
  split; [apply list_eqb_eq; assumption|]. split; [apply list_eqb_eq; assumption|].
  split.
  { unfold Common_BodyLength in A8. destruct (find_be (c_fields c) 9) as [ty|]; [eauto | discriminate]. }
  split; [assumption|]. intros md Hin. rewrite forallb_forall in A10. auto.
Qed.

Lemma decoded_has c bytes g m seen' m' off off' ignore f :
  wf_table c false g = true -> part_inv g m ->
  mbase_decode c real_caps bytes m off ignore false = Ok (m', off') ->
  part_rel g m' seen' -> memN f seen' = true -> In f (pos_tags m').
Proof.
  intros Hwf Hinv Hres (_ & _ & Hseen) Hm.
  destruct (mbase_decode_sound _ _ _ _ _ _ _ _ _ _ Hwf Hinv Hres) as [(_ & _ & _ & Hiff & _) _].
  apply Hiff. apply Hseen. assumption.
Qed.

Section Assembly.
Variable c : ctx.
Hypothesis Hwf : wf_ctx c = true.
Variables (t8 t9 t35 t10 : tok) (mid : list tok) (md : msgdef).
Let r := mid ++ [t10].
Let toks := t8 :: t9 :: t35 :: r.
Let bytes := ser toks.
Let hlen := lenN (ser [t8; t9; t35]).
Hypothesis E8 : k_tag t8 = 8.
Hypothesis E9 : k_tag t9 = 9.
Hypothesis E35 : k_tag t35 = 35.
Hypothesis E10 : k_tag t10 = 10.
Hypothesis L10 : lenN (k_val t10) = 3.
Hypothesis Hok : toks_ok c toks = true.
Hypothesis Hauto : no_auto (c_header c) mid = true /\ no_auto (c_trailer c) mid = true.
Hypothesis Hlen : lenN bytes < 2147483648.
Hypothesis Hmd : In md (c_msgs c).

Definition decode_result : res (message * N) :=
  msg_decode c real_caps bytes (mk_message c md false) hlen 7 false.

Definition init_pairs : list (N * list N) := map snd (c_hdr_init c) ++ map snd (c_trl_init c).

Lemma decode_parts :
  match part (c_header c) toks with
  | PViol => exists e, decode_result = Exc e
  | PRest _ r1 =>
    match part (md_meta md) r1 with
    | PViol => exists e, decode_result = Exc e
    | PRest _ r2 =>
      match part (c_trailer c) r2 with
      | PViol => exists e, decode_result = Exc e
      | PRest _ r3 =>
          exists h b t tl, decode_result = Ok (mkMsg (md_type md) h b t, tl) /\
            (r3 = [] -> exists cH cB cT extra,
               Permutation (map tok_pair (cH ++ cB ++ cT)) (map tok_pair mid ++ extra) /\
               (forall e, In e extra -> e = tok_pair t10) /\
               Permutation (mflat h) (map snd (c_hdr_init c) ++ map tok_pair cH) /\
               Permutation (mflat b) (map tok_pair cB) /\
               Permutation (mflat t) (map snd (c_trl_init c) ++ map tok_pair cT) /\
               no_auto (c_header c) cH = true /\ forallb (fun t => negb (k_tag t =? 10)) cT = true /\
               In 9 (pos_tags h) /\ In 35 (pos_tags h) /\ In 10 (pos_tags t))
      end
    end
  end.
Proof.
  destruct (wf_ctx_all c Hwf) as (Hwh & Hwt & Hih & Hit & Hfh & Hft & _ & Hng & Hwb).
  pose proof (Hwb md Hmd) as Hwbody.
  assert (Hwbt : wf_table c false (md_meta md) = true).
  { unfold wf_body in Hwbody. apply andb_true_iff in Hwbody. apply Hwbody. }
  destruct Hauto as [Hah Hat].
  (* the tokens *)
  assert (Hokr : toks_ok c r = true).
  { unfold toks in Hok. destruct (toks_ok_cons _ _ _ Hok) as [_ H1]. destruct (toks_ok_cons _ _ _ H1) as [_ H2].
    destruct (toks_ok_cons _ _ _ H2) as [_ H3]. exact H3. }
  assert (Hbytes : bytes = ser [t8; t9; t35] ++ ser r ++ []).
  { unfold bytes, toks. rewrite app_nil_r. change (t8 :: t9 :: t35 :: r) with ([t8; t9; t35] ++ r). apply ser_app. }
  assert (Hbl : lenN bytes = hlen + lenN (ser r)).
  { rewrite Hbytes, app_nil_r, lenN_app. reflexivity. }
  assert (Hfs0 : (lenN bytes + 4294967296 - 0) mod 4294967296 = lenN bytes).
  { rewrite N.sub_0_r. replace (lenN bytes + 4294967296) with (lenN bytes + 1 * 4294967296) by lia.
    rewrite N.mod_add by lia. apply N.mod_small. lia. }
  (* header *)
  destruct (init_ok_plain _ _ 8 Hih ltac:(rewrite Hfh; cbn; auto)) as (tr8 & Hf8 & Hg8 & _).
  destruct (init_ok_plain _ _ 9 Hih ltac:(rewrite Hfh; cbn; auto)) as (tr9 & Hf9 & Hg9 & _).
  destruct (init_ok_plain _ _ 35 Hih ltac:(rewrite Hfh; cbn; auto)) as (tr35 & Hf35 & Hg35 & _).
  assert (Hstart : sp_fields (sp_fuel toks) (c_header c) false [] toks
                   = sp_fields (length toks + length toks + length toks) (c_header c) false [35; 9; 8] r).
  { unfold sp_fuel, toks.
    rewrite (sp_plain _ _ [] t8 _ tr8); [|rewrite E8; assumption|assumption|reflexivity]. rewrite E8.
    rewrite (sp_plain _ _ [8] t9 _ tr9); [|rewrite E9; assumption|assumption|rewrite E9; reflexivity]. rewrite E9.
    rewrite (sp_plain _ _ [9; 8] t35 _ tr35); [|rewrite E35; assumption|assumption|rewrite E35; reflexivity].
    rewrite E35. reflexivity. }
  unfold part at 1. rewrite Hstart.
  assert (Hrelh : part_rel (c_header c) (mk_part (c_header c) (c_hdr_init c) true) [35; 9; 8]).
  { destruct (init_part_rel c _ _ _ Hwh Hih Hfh) as (A & B & C). split; [assumption|]. split; [assumption|].
    eapply seen_rel_ext; [|exact C]. intros f. cbn. destruct (f =? 8), (f =? 9), (f =? 35); reflexivity. }
  assert (Hnah : no_auto (c_header c) r = true).
  { unfold r, no_auto. rewrite forallb_app. fold (no_auto (c_header c) mid). rewrite Hah. cbn [forallb andb].
    rewrite E10, (init_ok_auto _ _ 10 Hih), Hfh. destruct (find_trait (g_traits (c_header c)) 10); reflexivity. }
  assert (Hath : at_toks bytes ((lenN bytes + 4294967296 - 0) mod 4294967296) hlen r []).
  { exists (ser [t8; t9; t35]). rewrite Hfs0. split; [assumption|]. split; [reflexivity | assumption]. }
  unfold decode_result, msg_decode in *. cbn [mk_message m_hdr m_body m_trl m_type] in *.
  set (RH := mbase_decode c real_caps bytes (mk_part (c_header c) (c_hdr_init c) true) hlen 0 false) in *.
  assert (HnfH : (1 <= length bytes)%nat).
  { unfold bytes, toks. rewrite ser_cons, app_length. pose proof (lenN_ser_tok_pos t8) as H. rewrite lenN_len in H. lia. }
  assert (Hsfh : (3 * length r + 1 <= length toks + length toks + length toks)%nat).
  { unfold toks. cbn [length]. lia. }
  pose proof (part_decode c bytes _ _ _ r [] hlen 0 (length toks + length toks + length toks)
                Hwh Hrelh Hokr Hnah Hath Hsfh HnfH) as PH.
  unfold part_result in PH. fold RH in PH.
  destruct (sp_fields (length toks + length toks + length toks) (c_header c) false [35; 9; 8] r) as [|sH r1].
  { destruct PH as (e & He). rewrite He. cbn [bind]. eauto. }
  destruct (mand_ok (c_header c) sH).
  2:{ destruct PH as (e & He). rewrite He. cbn [bind]. eauto. }
  destruct PH as (h & cH & Er & HresH & HrelH & HpermH & HmonoH).
  assert (Hin9 : In 9 (pos_tags h)).
  { eapply (decoded_has c bytes _ _ sH h); [exact Hwh | exact (part_init_inv _ _ _ Hwh Hih) | exact HresH | exact HrelH |].
    apply HmonoH. reflexivity. }
  assert (Hin35 : In 35 (pos_tags h)).
  { eapply (decoded_has c bytes _ _ sH h); [exact Hwh | exact (part_init_inv _ _ _ Hwh Hih) | exact HresH | exact HrelH |].
    apply HmonoH. reflexivity. }
  rewrite HresH in *. cbn [bind] in *.
  (* body *)
  rewrite Er in Hokr, Hath. destruct (toks_ok_app _ _ _ Hokr) as [_ Hok1].
  pose proof (at_suffix _ _ _ _ _ _ Hath) as Hatb.
  set (offb := hlen + lenN (ser cH)) in *.
  set (RB := mbase_decode c real_caps bytes (create_group (md_meta md) false) offb 0 false) in *.
  pose proof HnfH as HnfB.
  assert (Hsfb : (3 * length r1 + 1 <= sp_fuel r1)%nat) by (unfold sp_fuel; lia).
  pose proof (part_decode c bytes _ _ _ r1 [] offb 0 (sp_fuel r1) Hwbt (body_part_rel c _ Hwbody) Hok1
                (wf_body_no_auto c _ r1 Hwbody) Hatb Hsfb HnfB) as PB.
  unfold part_result in PB. fold RB in PB. unfold part at 1.
  destruct (sp_fields (sp_fuel r1) (md_meta md) false [] r1) as [|sB r2].
  { destruct PB as (e & He). rewrite He. cbn [bind]. eauto. }
  destruct (mand_ok (md_meta md) sB).
  2:{ destruct PB as (e & He). rewrite He. cbn [bind]. eauto. }
  destruct PB as (b & cB & Er1 & HresB & _ & HpermB & _). rewrite HresB in *. cbn [bind] in *.
  rewrite mflat_create in HpermB. cbn [app] in HpermB.
  (* trailer *)
  rewrite Er1 in Hok1, Hatb. destruct (toks_ok_app _ _ _ Hok1) as [_ Hok2].
  pose proof (at_suffix _ _ _ _ _ _ Hatb) as Hatt0.
  set (offt := offb + lenN (ser cB)) in *.
  set (m0t := mk_part (c_trailer c) (c_trl_init c) true) in *.
  set (RT := mbase_decode c real_caps bytes m0t offt 7 false) in *.
  pose proof HnfH as HnfT.
  destruct (init_ok_plain _ _ 10 Hit ltac:(rewrite Hft; cbn; auto)) as (tr10 & Hf10 & Hg10 & Hm10).
  destruct (wf_table_unfold _ _ _ Hwt) as (Hndt & _ & _).
  assert (Hrelt : part_rel (c_trailer c) m0t [10]) by (apply (init_part_rel c _ _ _ Hwt Hit Hft)).
  assert (Hfs7 : (lenN bytes + 4294967296 - 7) mod 4294967296 = lenN bytes - 7).
  { assert (7 <= lenN bytes).
    { rewrite Hbl. unfold r. rewrite ser_app, lenN_app. cbn [ser flat_map]. rewrite app_nil_r, (lenN_ser_tok10 _ E10 L10). lia. }
    replace (lenN bytes + 4294967296 - 7) with (lenN bytes - 7 + 1 * 4294967296) by lia.
    rewrite N.mod_add by lia. apply N.mod_small. lia. }
  assert (HpH : Permutation (mflat h) (map snd (c_hdr_init c) ++ map tok_pair cH)).
  { eapply perm_trans; [exact HpermH|]. apply Permutation_app_tail. apply mflat_mk_part. }
  assert (HnaH : no_auto (c_header c) cH = true).
  { rewrite Er in Hnah. apply no_auto_app in Hnah. apply Hnah. }
  assert (Hmid : r = (cH ++ cB) ++ r2) by (rewrite Er, Er1, app_assoc; reflexivity).
  destruct r2 as [|x2 r2x].
  { (* the last token was taken by the header or the body: the trailer decoder starts past its range *)
    unfold part at 1. change (sp_fields (sp_fuel []) (c_trailer c) false [] []) with (PRest (@nil N) (@nil tok)).
    cbn iota.
    assert (Hoff : offt = lenN bytes).
    { destruct Hatt0 as (pre & _ & _ & Hfs). rewrite Hfs0, lenN_ser_nil in Hfs. lia. }
    assert (HRT : RT = dec_finish false m0t offt (lenN (mb_pos m0t)) None 0).
    { unfold RT, mbase_decode, mb_decode. rewrite Hfs7. unfold dec_fuel. apply dec_loop_past.
      rewrite Hoff. assert (7 <= lenN bytes) by (rewrite Hbl; unfold r; rewrite ser_app, lenN_app; cbn [ser flat_map]; rewrite app_nil_r, (lenN_ser_tok10 _ E10 L10); lia). lia. }
    pose proof (finish_result c (c_trailer c) m0t offt (lenN (mb_pos m0t)) None 0 [10] (@nil tok) Hwt Hrelt) as HF.
    destruct (mand_ok_ext _ 10 [] tr10 Hndt Hf10 Hm10) as [_ Hme]. rewrite Hme in HF.
    destruct (mand_ok (c_trailer c) []).
    2:{ destruct HF as (e & He). rewrite HRT, He. cbn [bind]. eauto. }
    destruct HF as (t & cT & EcT & HresT & HrelT & HpermT & _).
    assert (Hin10 : In 10 (pos_tags t)).
    { apply (decoded_has c bytes (c_trailer c) m0t [10] t offt (offt + lenN (ser cT)) 7 10 Hwt (part_init_inv _ _ _ Hwt Hit));
        [fold RT; rewrite HRT; exact HresT | exact HrelT | reflexivity]. }
    rewrite HRT, HresT. cbn [bind].
    exists h, b, t, (offt + lenN (ser cT)). split; [reflexivity|]. intros _.
    assert (HcT : cT = []) by (symmetry in EcT; apply app_eq_nil in EcT; apply EcT).
    subst cT. cbn [map] in HpermT. rewrite app_nil_r in HpermT, Hmid.
    exists cH, cB, [], [tok_pair t10].
    split. { rewrite app_nil_r, <- Hmid. unfold r. rewrite map_app. reflexivity. }
    split. { intros e [<-|[]]. reflexivity. }
    split; [exact HpH|]. split; [exact HpermB|].
    split. { cbn [map]. rewrite app_nil_r. eapply perm_trans; [exact HpermT|]. apply mflat_mk_part. }
    split; [exact HnaH|]. split; [reflexivity|]. auto. }
  (* the ordinary case: the trailer decoder sees everything up to the last token *)
  assert (Hne2 : x2 :: r2x <> []) by discriminate.
  pose proof (app_removelast_last t10 Hne2) as Hr2.
  set (r2' := removelast (x2 :: r2x)) in *. set (tl2 := last (x2 :: r2x) t10) in *.
  assert (Hsplit : mid = (cH ++ cB) ++ r2' /\ t10 = tl2).
  { unfold r in Hmid. rewrite Hr2, app_assoc in Hmid. apply app_inj_tail in Hmid. exact Hmid. }
  destruct Hsplit as [Emid Etl]. rewrite <- Etl in Hr2. clear Etl tl2.
  rewrite Hr2 in Hok2, Hatt0 |- *.
  destruct (toks_ok_app _ _ _ Hok2) as [Hok2' _].
  assert (Hatt : at_toks bytes ((lenN bytes + 4294967296 - 7) mod 4294967296) offt r2' (ser [t10])).
  { destruct Hatt0 as (pre & Hb & Ho & Hfs). exists pre. rewrite Hfs7.
    rewrite ser_app, app_nil_r in Hb. rewrite ser_app, lenN_app in Hfs. rewrite Hfs0 in Hfs.
    cbn [ser flat_map] in Hfs. rewrite app_nil_r, (lenN_ser_tok10 _ E10 L10) in Hfs.
    split; [assumption|]. split; [assumption | lia]. }
  assert (Hnat : no_auto (c_trailer c) r2' = true).
  { rewrite Emid in Hat. apply no_auto_app in Hat. apply Hat. }
  assert (Hauto10 : is_auto (c_trailer c) 10 = true).
  { rewrite (init_ok_auto _ _ 10 Hit), Hf10, Hft. reflexivity. }
  assert (Hno10 : forallb (fun t => negb (k_tag t =? 10)) r2' = true).
  { apply forallb_forall. intros t Hin. unfold no_auto in Hnat. rewrite forallb_forall in Hnat. specialize (Hnat _ Hin).
    destruct (k_tag t =? 10) eqn:E; [|reflexivity]. apply N.eqb_eq in E. rewrite E, Hauto10 in Hnat. discriminate. }
  set (sf := S (S (length (r2' ++ [t10]) + length (r2' ++ [t10]) + length (r2' ++ [t10])))).
  assert (Hsft : (3 * length r2' + 1 <= sf)%nat) by (unfold sf; rewrite app_length; cbn [length]; lia).
  pose proof (part_decode c bytes _ _ _ r2' (ser [t10]) offt 7 sf Hwt Hrelt Hok2' Hnat Hatt Hsft HnfT) as PT.
  unfold part_result in PT. fold RT in PT.
  assert (Hsfe : (length r2' + 2 <= sf)%nat) by (unfold sf; rewrite app_length; cbn [length]; lia).
  pose proof (sp_ext (c_trailer c) 10 t10 tr10 Hng Hf10 E10 r2' sf [] Hno10 eq_refl Hsfe) as HX.
  cbn [app] in HX.
  unfold part at 1. change (sp_fuel (r2' ++ [t10])) with (S sf).
  destruct (sp_fields sf (c_trailer c) false [10] r2') as [|sT rT].
  { rewrite HX. destruct PT as (e & He). rewrite He. cbn [bind]. eauto. }
  destruct rT as [|t' rest'].
  - destruct HX as (s0 & Es & HX). rewrite HX. subst sT.
    destruct (mand_ok_ext _ 10 s0 tr10 Hndt Hf10 Hm10) as [Hme1 Hme2]. rewrite Hme2. rewrite Hme1 in PT.
    destruct (mand_ok (c_trailer c) s0).
    2:{ destruct PT as (e & He). rewrite He. cbn [bind]. eauto. }
    destruct PT as (t & cT & EcT & HresT & HrelT & HpermT & HmonoT).
    assert (Hin10 : In 10 (pos_tags t)).
    { eapply (decoded_has c bytes _ _ (s0 ++ [10]) t); [exact Hwt | exact (part_init_inv _ _ _ Hwt Hit) | exact HresT | exact HrelT |].
      apply HmonoT. reflexivity. }
    rewrite HresT. cbn [bind].
    exists h, b, t, (offt + lenN (ser cT)). split; [reflexivity|]. intros _.
    rewrite app_nil_r in EcT. subst cT.
    exists cH, cB, r2', [].
    split. { rewrite app_nil_r, Emid, <- app_assoc. reflexivity. }
    split. { intros e []. }
    split; [exact HpH|]. split; [exact HpermB|].
    split. { eapply perm_trans; [exact HpermT|]. apply Permutation_app_tail. apply mflat_mk_part. }
    split; [exact HnaH|]. split; [exact Hno10|]. auto.
  - destruct HX as (s0 & Es & HX). rewrite HX. subst sT.
    destruct (mand_ok_ext _ 10 s0 tr10 Hndt Hf10 Hm10) as [Hme1 _]. rewrite Hme1 in PT.
    destruct (mand_ok (c_trailer c) s0).
    2:{ destruct PT as (e & He). rewrite He. cbn [bind]. eauto. }
    destruct PT as (t & cT & EcT & HresT & _ & HpermT & _). rewrite HresT. cbn [bind].
    exists h, b, t, (offt + lenN (ser cT)). split; [reflexivity|]. intros E. discriminate E.
Qed.
End Assembly.

(* ------------------------------------------------------------------ checksum and framing bytes *)
From F8 Require Import C07.Chksum C07.Spec_C07 C07.ChksumProofs.

Lemma calc_chksum_some (from : list N) :
  bytes_small from = true -> 7 <= lenN from -> lenN from < 2147483648 ->
  exists mchk h, calc_chksum (map Z.of_N (from ++ [0])) (Z.of_N (lenN from)) 0 (Z.of_N (lenN from) - 7) = Some (mchk, h).
Proof.
  intros Hs H7 Hlt.
  pose proof (c07_len_lemma (map Z.of_N (from ++ [0])) (Z.of_N (lenN from)) 0 (Z.of_N (lenN from) - 7)
                (bytes_ok_of_N _ Hs)) as HL.
  assert (Hlen : (Z.of_nat (length (map Z.of_N (from ++ [0%N]))) = Z.of_N (lenN from) + 1)%Z).
  { rewrite map_length, app_length, lenN_len. cbn [length]. lia. }
  assert (HL2 := HL ltac:(lia) ltac:(lia) ltac:(lia)).
  destruct (calc_chksum (map Z.of_N (from ++ [0])) (Z.of_N (lenN from)) 0 (Z.of_N (lenN from) - 7)) as [[m h]|];
    [eauto | discriminate].
Qed.

Lemma bytes_small_ser c toks : toks_ok c toks = true -> bytes_small (ser toks) = true.
Proof.
  induction toks as [|t r IH]; intros Hok; [reflexivity|].
  destruct (toks_ok_cons _ _ _ Hok) as [Hokt Hokr]. destruct (tok_ok_facts _ _ Hokt) as (_ & Hval & _).
  destruct (val_ok_facts _ Hval) as (_ & _ & _ & Hb).
  unfold bytes_small in *. rewrite ser_cons, forallb_app, (IH Hokr), andb_true_r.
  unfold ser_tok. rewrite forallb_app. cbn [forallb]. rewrite forallb_app. cbn [forallb].
  apply andb_true_iff. split.
  - apply forallb_forall. intros d Hd. pose proof (itoa_digits (k_tag t)) as Hall. unfold all_digits in Hall.
    rewrite Forall_forall in Hall. specialize (Hall _ Hd). apply digit_range in Hall. apply N.ltb_lt. lia.
  - cbn. rewrite andb_true_r. apply forallb_forall. intros d Hd. rewrite Forall_forall in Hb. apply N.ltb_lt. auto.
Qed.

Lemma skipN_app_plus {A} (a b : list A) k : skipN (lenN a + k) (a ++ b) = skipN k b.
Proof.
  induction a as [|x a IH]; cbn [app lenN].
  - rewrite N.add_0_l. reflexivity.
  - cbn [skipN]. destruct (N.succ (lenN a) + k =? 0) eqn:E; [apply N.eqb_eq in E; lia|].
    replace (N.succ (lenN a) + k - 1) with (lenN a + k) by lia. exact IH.
Qed.

Lemma atoi3 a b d : is_digit a = true -> is_digit b = true -> is_digit d = true ->
  fast_atoi_u32 [a; b; d] = (a - 48) * 100 + (b - 48) * 10 + (d - 48).
Proof.
  intros Ha Hb Hd.
  assert (Hdd : dec_digits [a; b; d] 0 = Some (((0 * 10 + (a - 48)) * 10 + (b - 48)) * 10 + (d - 48))).
  { cbn [dec_digits]. rewrite Ha, Hb, Hd. reflexivity. }
  pose proof (digit_range _ Ha). pose proof (digit_range _ Hb). pose proof (digit_range _ Hd).
  pose proof (atoi_digits two32 [a; b; d] 0 _ Hdd ltac:(unfold two32; lia)) as HA.
  change (Z.of_N 0) with 0%Z in HA.
  unfold fast_atoi_u32, fast_atoi_mod.
  rewrite cstr_nonzero by (repeat constructor; lia). rewrite HA. lia.
Qed.

(* ------------------------------------------------------------------ the setters of factory on mflat *)
Lemma pos_set_perm f v w : forall pos X G,
  In f (tags_of pos) -> Permutation (map snd pos ++ G) ((f, w) :: X) ->
  (forall e, In e X -> fst e <> f) ->
  Permutation (map snd (pos_set f v pos) ++ G) ((f, v) :: X).
Proof.
  induction pos as [|[q [g u]] r IH]; intros X G Hin Hperm Hno; [destruct Hin|].
  cbn [pos_set]. destruct (g =? f) eqn:E.
  - apply N.eqb_eq in E. subst g. cbn [map snd app] in *.
    assert (Hu : In (f, u) ((f, w) :: X)) by (apply (Permutation_in _ Hperm); left; reflexivity).
    destruct Hu as [Hu|Hu]; [|exfalso; apply (Hno _ Hu); reflexivity].
    injection Hu as <-. apply perm_skip. eapply Permutation_cons_inv. exact Hperm.
  - apply N.eqb_neq in E. cbn [map snd app tags_of fst] in *.
    destruct Hin as [Hin|Hin]; [congruence|].
    assert (Hu : In (g, u) ((f, w) :: X)) by (apply (Permutation_in _ Hperm); left; reflexivity).
    destruct Hu as [Hu|Hu]; [congruence|].
    destruct (in_split _ _ Hu) as (X1 & X2 & ->).
    assert (Hperm' : Permutation (map snd r ++ G) ((f, w) :: X1 ++ X2)).
    { apply (Permutation_cons_inv (a := (g, u))). eapply perm_trans; [exact Hperm|].
      eapply perm_trans; [apply perm_skip; apply Permutation_sym; apply Permutation_middle|]. apply perm_swap. }
    assert (Hno' : forall e, In e (X1 ++ X2) -> fst e <> f).
    { intros e He. apply Hno. apply in_app_or in He. apply in_or_app. destruct He; [left | right; right]; assumption. }
    specialize (IH (X1 ++ X2) G Hin Hperm' Hno').
    eapply perm_trans; [apply perm_skip; exact IH|].
    eapply perm_trans; [apply perm_swap|]. apply perm_skip. apply Permutation_middle.
Qed.

Lemma mflat_set_value m f v w X :
  In f (pos_tags m) -> Permutation (mflat m) ((f, w) :: X) -> (forall e, In e X -> fst e <> f) ->
  Permutation (mflat (set_value m f v)) ((f, v) :: X).
Proof.
  destruct m as [fp subs fields pos groups unk]. unfold pos_tags, set_value.
  cbn [mb_pos mb_fields with_pos with_fields mflat]. apply pos_set_perm.
Qed.
Lemma pos_tags_set_value m f v : pos_tags (set_value m f v) = pos_tags m.
Proof. destruct m. unfold pos_tags, set_value. cbn [mb_pos mb_fields with_pos with_fields]. apply tags_pos_set. Qed.

Lemma no_auto_tag g ts f : no_auto g ts = true -> is_auto g f = true ->
  forall e, In e (map tok_pair ts) -> fst e <> f.
Proof.
  intros Hna Ha e He. apply in_map_iff in He. destruct He as (t & <- & Ht). cbn [tok_pair fst].
  unfold no_auto in Hna. rewrite forallb_forall in Hna. specialize (Hna _ Ht). intros E. rewrite E, Ha in Hna. discriminate.
Qed.

Lemma wf_ctx_init c : wf_ctx c = true ->
  exists p1 p2 p3 v9 v35 p4 v10,
    c_hdr_init c = [(p1, (8, c_begin c)); (p2, (9, v9)); (p3, (35, v35))] /\ c_trl_init c = [(p4, (10, v10))].
Proof.
  intros Hwf. destruct (wf_ctx_all c Hwf) as (_ & _ & _ & _ & Hfh & Hft & _).
  unfold wf_ctx in Hwf.
  apply andb_true_iff in Hwf. destruct Hwf as [H _]. apply andb_true_iff in H. destruct H as [H _].
  apply andb_true_iff in H. destruct H as [H _]. apply andb_true_iff in H. destruct H as [_ A7].
  destruct (c_hdr_init c) as [|[p1 [f1 v1]] [|[p2 [f2 v2]] [|[p3 [f3 v3]] [|x l]]]]; cbn [map fst snd] in Hfh; try discriminate.
  injection Hfh as -> -> ->. apply list_eqb_eq in A7. subst v1.
  destruct (c_trl_init c) as [|[p4 [f4 v4]] [|x l]]; cbn [map fst snd] in Hft; try discriminate.
  injection Hft as ->. exists p1, p2, p3, v2, v3, p4, v4. split; reflexivity.
Qed.

Lemma final_perm c h b t cH cB cT extra mid (L MT CK v9 v35 v10 : list N) :
  Permutation (map tok_pair (cH ++ cB ++ cT)) (map tok_pair mid ++ extra) ->
  Permutation (mflat h) ([(8, c_begin c); (9, v9); (35, v35)] ++ map tok_pair cH) ->
  Permutation (mflat b) (map tok_pair cB) ->
  Permutation (mflat t) ([(10, v10)] ++ map tok_pair cT) ->
  no_auto (c_header c) cH = true -> is_auto (c_header c) 9 = true -> is_auto (c_header c) 35 = true ->
  forallb (fun t => negb (k_tag t =? 10)) cT = true ->
  In 9 (pos_tags h) -> In 35 (pos_tags h) -> In 10 (pos_tags t) ->
  Permutation (mflat (set_value (set_value h 9 L) 35 MT) ++ mflat b ++ mflat (set_value t 10 CK))
              ([(8, c_begin c); (9, L); (35, MT); (10, CK)] ++ map tok_pair mid ++ extra).
Proof.
  intros Hall HpH HpB HpT Hna Ha9 Ha35 Hno10 Hi9 Hi35 Hi10.
  set (a8 := (8, c_begin c)). cbn [app] in HpH, HpT.
  assert (H9 : Permutation (mflat (set_value h 9 L)) ((9, L) :: a8 :: (35, v35) :: map tok_pair cH)).
  { apply (mflat_set_value h 9 L v9); [assumption | eapply perm_trans; [exact HpH | apply perm_swap] |].
    intros e [<-|[<-|He]]; [discriminate | discriminate | eapply no_auto_tag; eassumption]. }
  assert (H35 : Permutation (mflat (set_value (set_value h 9 L) 35 MT)) ((35, MT) :: (9, L) :: a8 :: map tok_pair cH)).
  { apply (mflat_set_value _ 35 MT v35); [rewrite pos_tags_set_value; assumption| |].
    - eapply perm_trans; [exact H9|]. eapply perm_trans; [apply perm_skip; apply perm_swap|]. apply perm_swap.
    - intros e [<-|[<-|He]]; [discriminate | discriminate | eapply no_auto_tag; eassumption]. }
  assert (H10 : Permutation (mflat (set_value t 10 CK)) ((10, CK) :: map tok_pair cT)).
  { apply (mflat_set_value t 10 CK v10); [assumption | exact HpT |].
    intros e He. apply in_map_iff in He. destruct He as (x & <- & Hx). cbn [tok_pair fst].
    rewrite forallb_forall in Hno10. specialize (Hno10 _ Hx). apply negb_true_iff in Hno10. apply N.eqb_neq. assumption. }
  eapply perm_trans; [apply Permutation_app; [exact H35 | apply Permutation_app; [exact HpB | exact H10]]|].
  eapply perm_trans; [|apply Permutation_app_head; exact Hall].
  rewrite !map_app. cbn [app].
  generalize (map tok_pair cH) (map tok_pair cB) (map tok_pair cT). intros A B C0.
  (* (35 :: 9 :: 8 :: A) ++ B ++ 10 :: C  ~  8 :: 9 :: 35 :: 10 :: A ++ B ++ C *)
  rewrite app_assoc.
  change (((35, MT) :: (9, L) :: a8 :: A) ++ B) with ((35, MT) :: (9, L) :: a8 :: (A ++ B)).
  eapply perm_trans;
    [apply Permutation_sym; apply (Permutation_middle ((35, MT) :: (9, L) :: a8 :: (A ++ B)) C0 (10, CK))|].
  cbn [app]. rewrite <- app_assoc.
  change ((10, CK) :: (35, MT) :: (9, L) :: a8 :: A ++ B ++ C0)
    with ([(10, CK); (35, MT); (9, L); a8] ++ (A ++ B ++ C0)).
  change (a8 :: (9, L) :: (35, MT) :: (10, CK) :: A ++ B ++ C0)
    with ([a8; (9, L); (35, MT); (10, CK)] ++ (A ++ B ++ C0)).
  apply Permutation_app_tail. apply (Permutation_rev [(10, CK); (35, MT); (9, L); a8]).
Qed.

(* ------------------------------------------------------------------ Message::factory vs conforms *)
Lemma exact_hyps_facts c toks : exact_hyps c toks = true ->
  framed toks = true /\ toks_ok c toks = true /\
  no_auto (c_header c) (middle toks) = true /\ no_auto (c_trailer c) (middle toks) = true /\
  (forall t8 t9 t35 r, toks = t8 :: t9 :: t35 :: r ->
     lenN (k_val t9) < 32 /\ lenN (k_val t35) < 32 /\ forallb is_digit (k_val (last toks t8)) = true) /\
  lenN (ser toks) < 2147483648.
Proof.
  unfold exact_hyps, auto_once. intros H.
  apply andb_true_iff in H. destruct H as [H H5]. apply andb_true_iff in H. destruct H as [H H4].
  apply andb_true_iff in H. destruct H as [H H3]. apply andb_true_iff in H. destruct H as [H1 H2].
  apply andb_true_iff in H3. destruct H3 as [H3a H3b]. apply N.ltb_lt in H5.
  repeat (split; [assumption|]). split; [|assumption].
  intros t8 t9 t35 r ->. apply andb_true_iff in H4. destruct H4 as [H4 H4c].
  apply andb_true_iff in H4. destruct H4 as [H4a H4b]. apply N.ltb_lt in H4a, H4b. auto.
Qed.

Lemma verdict_unfold c t8 t9 t35 r : framed (t8 :: t9 :: t35 :: r) = true ->
  struct_verdict c (t8 :: t9 :: t35 :: r) =
  match find_msg (c_msgs c) (k_val t35) with
  | None => VViol
  | Some md =>
      match part (c_header c) (t8 :: t9 :: t35 :: r) with
      | PViol => VViol
      | PRest _ r1 =>
        match part (md_meta md) r1 with
        | PViol => VViol
        | PRest _ r2 =>
          match part (c_trailer c) r2 with
          | PViol => VViol
          | PRest _ [] => VConf
          | PRest _ _ => VIllegal
          end
        end
      end
  end.
Proof. intros H. unfold struct_verdict. rewrite H. reflexivity. Qed.

Lemma exact_full_lemma c toks :
  wf_ctx c = true -> exact_hyps c toks = true -> struct_verdict c toks <> VIllegal ->
  match strict_factory c (ser toks) with
  | Ok m => conforms c (ser toks) = true /\
            exists extra, Permutation (mflat (m_hdr m) ++ mflat (m_body m) ++ mflat (m_trl m))
                                      (expected_pairs c toks ++ extra) /\
                          (forall e, In e extra -> In e (map tok_pair toks))
  | Exc _ => conforms c (ser toks) = false
  | _ => False
  end.
Proof.
  intros Hwf Hhyp Hill.
  destruct (exact_hyps_facts _ _ Hhyp) as (Hfr & Hok & Hah & Hat & Hlens & Hlen).
  destruct (frame_split _ Hfr) as (t8 & t9 & t35 & mid & t10 & Etoks & E8 & E9 & E35 & E10 & L10 & Elast & Emid).
  destruct (Hlens _ _ _ _ Etoks) as (L9 & L35 & Hdig). rewrite Elast in Hdig. rewrite Emid in Hah, Hat.
  assert (Htk : tokenize (ser toks) = Some toks) by (eapply tokenize_ser; eassumption).
  unfold conforms. rewrite Htk.
  subst toks. pose proof Elast as Elast'. pose proof Emid as Emid'. rewrite (verdict_unfold c _ _ _ _ Hfr) in *.
  pose proof Hok as Hok'.
  destruct (toks_ok_cons _ _ _ Hok') as [Ho8 Hr1]. destruct (toks_ok_cons _ _ _ Hr1) as [Ho9 Hr2].
  destruct (toks_ok_cons _ _ _ Hr2) as [Ho35 Hr3].
  destruct (tok_ok_facts _ _ Ho8) as (_ & V8 & _). destruct (tok_ok_facts _ _ Ho9) as (_ & V9 & _).
  destruct (tok_ok_facts _ _ Ho35) as (_ & V35 & _).
  unfold strict_factory, factory in *.
  rewrite (extract_header_framed t8 t9 t35 (mid ++ [t10]) E8 E9 E35 V8 V9 V35 L9 L35) in *.
  cbn [bind] in *.
  set (toks := t8 :: t9 :: t35 :: mid ++ [t10]) in *.
  set (hlen := lenN (ser [t8; t9; t35])) in *.
  assert (Hh0 : (hlen =? 0) = false).
  { apply N.eqb_neq. unfold hlen. cbn [ser flat_map]. rewrite lenN_app. pose proof (lenN_ser_tok_pos t8). lia. }
  rewrite Hh0 in *.
  destruct (val_ok_facts _ V35) as (_ & _ & Hnz35 & _). rewrite (cstr_nonzero _ Hnz35) in *.
  destruct (find_msg (c_msgs c) (k_val t35)) as [md|] eqn:Hmd.
  2:{ cbn [is_conf]. apply andb_false_r. }
  pose proof (find_msg_In _ _ _ Hmd) as Hin.
  set (R := msg_decode c real_caps (ser toks) (mk_message c md false) hlen 7 false) in *.
  pose proof (decode_parts c Hwf t8 t9 t35 t10 mid md E8 E9 E35 E10 L10 Hok (conj Hah Hat) Hlen Hin) as HD.
  fold toks in HD.
  destruct (part (c_header c) toks) as [|sH r1].
  { destruct HD as (e & He). unfold decode_result in He. fold toks hlen R in He. rewrite He. cbn [bind is_conf]. apply andb_false_r. }
  destruct (part (md_meta md) r1) as [|sB r2].
  { destruct HD as (e & He). unfold decode_result in He. fold toks hlen R in He. rewrite He. cbn [bind is_conf]. apply andb_false_r. }
  destruct (part (c_trailer c) r2) as [|sT r3].
  { destruct HD as (e & He). unfold decode_result in He. fold toks hlen R in He. rewrite He. cbn [bind is_conf]. apply andb_false_r. }
  destruct r3 as [|x3 r3']; [|exfalso; apply Hill; reflexivity].
  destruct HD as (h & b & t & tl & HR & HP). unfold decode_result in HR. fold toks hlen R in HR. rewrite HR.
  destruct (HP eq_refl) as (cH & cB & cT & extra & Hall & Hextra & HpH & HpB & HpT & HnaH & Hno10 & Hi9 & Hi35 & Hi10).
  clear HP.
  cbn [bind m_hdr m_body m_trl m_type is_conf]. rewrite andb_true_r.
  (* the last seven bytes and the checksum *)
  set (bytes := ser toks) in *.
  assert (Hb : bytes = ser (t8 :: t9 :: t35 :: mid) ++ ser_tok t10).
  { unfold bytes, toks. change (t8 :: t9 :: t35 :: mid ++ [t10]) with ((t8 :: t9 :: t35 :: mid) ++ [t10]).
    rewrite ser_app. cbn [ser flat_map]. rewrite app_nil_r. reflexivity. }
  set (pre := ser (t8 :: t9 :: t35 :: mid)) in *.
  assert (Hv10 : exists a b0 d, k_val t10 = [a; b0; d]).
  { destruct (k_val t10) as [|a [|b0 [|d [|e l]]]]; cbn [lenN] in L10; try lia. eauto. }
  destruct Hv10 as (a & b0 & d & Ev10). rewrite Ev10 in Hdig. cbn [forallb] in Hdig.
  apply andb_true_iff in Hdig. destruct Hdig as [Ha Hdig]. apply andb_true_iff in Hdig. destruct Hdig as [Hb0 Hdig].
  apply andb_true_iff in Hdig. destruct Hdig as [Hd _].
  assert (Hs10 : ser_tok t10 = [49; 48; 61; a; b0; d; 1]).
  { unfold ser_tok. rewrite E10, Ev10. reflexivity. }
  assert (Hlb : lenN bytes = lenN pre + 7) by (rewrite Hb, lenN_app, Hs10; reflexivity).
  assert (E7 : (lenN bytes <? 7) = false) by (apply N.ltb_ge; lia). rewrite E7.
  replace (lenN bytes - 7) with (lenN pre) by lia.
  assert (Hn1 : nthN bytes (lenN pre) = 49).
  { unfold nthN. rewrite Hb, skipN_app, Hs10. reflexivity. }
  assert (Hn2 : nthN bytes (lenN pre + 1) = 48).
  { unfold nthN. rewrite Hb, skipN_app_plus, Hs10. reflexivity. }
  rewrite Hn1, Hn2. cbn [N.eqb Pos.eqb negb orb].
  assert (Hck3 : firstN 3 (skipN (lenN pre + 3) bytes) = [a; b0; d]).
  { rewrite Hb, skipN_app_plus, Hs10. reflexivity. }
  rewrite Hck3.
  pose proof (bytes_small_ser c toks Hok) as Hsmall. fold bytes in Hsmall.
  destruct (calc_chksum_some bytes Hsmall ltac:(lia) Hlen) as (mchk & hh & Hcalc). rewrite Hcalc.
  pose proof (chk_value bytes mchk hh Hsmall ltac:(lia) Hlen Hcalc) as Hval.
  replace (lenN bytes - 7) with (lenN pre) in Hval by lia.
  rewrite (atoi3 a b0 d Ha Hb0 Hd), Hval.
  assert (Hchk : chk_ok bytes = ((a - 48) * 100 + (b0 - 48) * 10 + (d - 48) =? sumN (firstN (lenN pre) bytes) mod 256)).
  { unfold chk_ok. cbv zeta. rewrite E7. replace (lenN bytes - 7) with (lenN pre) by lia.
    rewrite Hb at 1. rewrite skipN_app, Hs10. rewrite Ha, Hb0, Hd. reflexivity. }
  rewrite Hchk.
  destruct ((a - 48) * 100 + (b0 - 48) * 10 + (d - 48) =? sumN (firstN (lenN pre) bytes) mod 256); [|reflexivity].
  split; [reflexivity|]. exists extra. cbn [m_hdr m_body m_trl].
  split.
  2:{ intros e He. rewrite (Hextra e He). apply in_map. unfold toks. right. right. right.
      apply in_or_app. right. left. reflexivity. }
  destruct (wf_ctx_init c Hwf) as (p1 & p2 & p3 & v9 & v35 & p4 & v10 & Ehi & Eti).
  rewrite Ehi in HpH. rewrite Eti in HpT. cbn [map snd] in HpH, HpT.
  destruct (wf_ctx_all c Hwf) as (_ & _ & Hih & _ & Hfh & _).
  assert (Ha9 : is_auto (c_header c) 9 = true).
  { rewrite (init_ok_auto _ _ 9 Hih), Hfh. destruct (init_ok_plain _ _ 9 Hih ltac:(rewrite Hfh; cbn; auto)) as (x & Hx & _).
    rewrite Hx. reflexivity. }
  assert (Ha35 : is_auto (c_header c) 35 = true).
  { rewrite (init_ok_auto _ _ 35 Hih), Hfh. destruct (init_ok_plain _ _ 35 Hih ltac:(rewrite Hfh; cbn; auto)) as (x & Hx & _).
    rewrite Hx. reflexivity. }
  unfold expected_pairs, toks. fold toks. rewrite Elast', Emid'. rewrite Ev10.
  rewrite <- app_assoc.
  apply (final_perm c h b t cH cB cT extra mid _ _ _ v9 v35 v10); assumption.
Qed.

Lemma exact_accept_lemma c toks :
  wf_ctx c = true -> exact_hyps c toks = true -> struct_verdict c toks <> VIllegal ->
  match strict_factory c (ser toks) with
  | Ok m => conforms c (ser toks) = true
  | Exc _ => conforms c (ser toks) = false
  | _ => False
  end.
Proof.
  intros Hwf Hhyp Hill. pose proof (exact_full_lemma c toks Hwf Hhyp Hill) as H.
  destruct (strict_factory c (ser toks)); try assumption. apply H.
Qed.
