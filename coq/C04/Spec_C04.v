(* Property C04 "Strict decoding accepts exactly schema-conforming messages" as executable
   predicates on observables.  Written from the property text; it uses none of the decoder
   model's functions, only the metadata types and table accessors of Codec/Meta.v
   (find_trait / find_sub / find_msg / find_be) and is_digit.

   Input side.  The input of Message::factory is a byte string; the property quantifies over
   token sequences, so the bytes are first cut into tokens  digits '=' value SOH  by an
   independent tokenizer (a byte string that is not such a sequence conforms to nothing).

     conforms c bytes  =  chk_ok bytes  (the last seven bytes are 10=ddd SOH and ddd is the sum of
                          all bytes before them mod 256)
                       && struct_verdict c tokens = VConf, i.e.
        - the first three tokens are 8, 9, 35, the last one is 10 with a three byte value, and
          35 names a message type of the schema;
        - the tokens are: header tokens, then body tokens of that type, then trailer tokens and
          NOTHING else: a part (or group element) extends as long as the tag belongs to its
          table, so "every tag is a valid field number defined for the position where it
          appears" is "no token is left over after the trailer";
        - inside a part no tag repeats;
        - every mandatory field of each part and of each group element is present;
        - a count field of a repeating group with a positive count is followed by elements,
          each of which begins with the group's first field (the trait at position 1); an
          element extends as long as the tag belongs to the group's table and has not yet
          occurred in the element; a tag that has occurred starts the next element; any other
          tag ends the group.  (The NUMBER of elements is not compared with the count: the
          property text does not ask for it.)
     struct_verdict distinguishes VViol (a rule above is broken) from VIllegal (all rules hold
     on the tokens that could be placed, but a token is left over: its tag is not legal where
     it stands); "all tags legal at their position" is  struct_verdict <> VIllegal.

   Output side.  An accepted message is observed as a tree [obs] (per part and per group
   element: the (tag, printed value) pairs of its position list and its groups) -- exactly
   what the harness dump shows.
     retains c tokens m = every input token can be matched with a distinct (tag, value) entry of
                          the message, same tag, value equal to the token's text: byte for
                          byte, or, for int-typed fields, equal as decimal integers
                          ("007" and "7").
   Oracle:  c04_ok c bytes outcome =
              accepted -> conforms /\ retains          (soundness and retention)
              rejected -> not conforms                 (exactness: conforming => accepted)
              anything else (crash, hang, ...) -> false. *)
From Coq Require Import NArith ZArith List Bool.
From F8 Require Import Codec.Bytes Codec.Meta.
Import ListNotations.
Local Open Scope N_scope.

Record tok := mkTok { k_tag : N; k_val : list N }.

(* ------------------------------------------------------------------ tokenizer *)
(* one left-to-right pass; intag = reading the tag; have = at least one digit seen *)
Fixpoint scan (l : list N) (intag : bool) (tag : N) (have : bool) (val : list N)
  : option (list tok) :=
  match l with
  | [] => if intag && negb have then Some [] else None
  | c :: r =>
    if intag then
      if is_digit c then scan r true (tag * 10 + (c - 48)) true val
      else if (c =? EQC) && have then scan r false tag true []
      else None
    else
      if c =? SOH then
        match scan r true 0 false [] with
        | Some ts => Some (mkTok tag (rev val) :: ts)
        | None => None
        end
      else scan r false tag have (c :: val)
  end.
Definition tokenize (l : list N) : option (list tok) := scan l true 0 false [].

(* ------------------------------------------------------------------ numbers *)
Fixpoint dec_digits (l : list N) (acc : N) : option N :=
  match l with
  | [] => Some acc
  | c :: r => if is_digit c then dec_digits r (acc * 10 + (c - 48)) else None
  end.
Definition nat_value (l : list N) : option N :=
  match l with [] => None | _ => dec_digits l 0 end.
(* FIX int: optional '-', then digits *)
Definition int_value (l : list N) : option Z :=
  match l with
  | 45 :: r => match nat_value r with Some n => Some (- Z.of_N n)%Z | None => None end
  | _ => match nat_value l with Some n => Some (Z.of_N n) | None => None end
  end.
Definition count_pos (v : list N) : bool :=
  match int_value v with Some z => (0 <? z)%Z | None => false end.

(* ------------------------------------------------------------------ checksum *)
Definition sumN (l : list N) : N := fold_right N.add 0 l.
Definition chk_ok (bytes : list N) : bool :=
  let n := lenN bytes in
  if n <? 7 then false
  else match skipN (n - 7) bytes with
       | [49; 48; 61; a; b; c; 1] =>
           is_digit a && is_digit b && is_digit c &&
           ((a - 48) * 100 + (b - 48) * 10 + (c - 48) =? sumN (firstN (n - 7) bytes) mod 256)
       | _ => false
       end.

(* ------------------------------------------------------------------ structure *)
Definition memN (x : N) (l : list N) : bool := existsb (N.eqb x) l.
Definition isnil {A} (l : list A) : bool := match l with [] => true | _ => false end.
Definition mand_ok (g : gmeta) (seen : list N) : bool :=
  forallb (fun tr => negb (t_mand tr) || memN (t_fnum tr) seen) (g_traits g).

Inductive pres := PViol | PRest (seen : list N) (rest : list tok).

(* sp_fields g in_elem seen ts: the tokens of one part (in_elem = false) or of one group element
   (in_elem = true) of table g, [seen] = tags met so far in it.  PRest seen' rest: it ends before
   [rest]; PViol: a rule is broken.
   sp_elems sg ts: the elements of a group of table sg; Some rest: the group ends before rest.
   fuel: three units per token suffice (struct_verdict supplies them). *)
Fixpoint sp_fields (fuel : nat) (g : gmeta) (in_elem : bool) (seen : list N) (ts : list tok)
                   {struct fuel} : pres :=
  match fuel with O => PViol | S fuel' =>
  match ts with
  | [] => PRest seen []
  | t :: r =>
    match find_trait (g_traits g) (k_tag t) with
    | None =>
        (* not of this table: the part / element ends; an element may not end before it began *)
        if in_elem && isnil seen then PViol else PRest seen ts
    | Some tr =>
        if memN (k_tag t) seen then
          (* in an element a repeated tag starts the next element; in a part it is a duplicate *)
          if in_elem then PRest seen ts else PViol
        else if in_elem && isnil seen && negb (t_pos tr =? 1) then PViol   (* first field of the group *)
        else if t_group tr && count_pos (k_val t) then
          match find_sub (g_subs g) (k_tag t) with
          | None => PViol
          | Some sg =>
            match sp_elems fuel' sg r with
            | Some r' => sp_fields fuel' g in_elem (k_tag t :: seen) r'
            | None => PViol
            end
          end
        else sp_fields fuel' g in_elem (k_tag t :: seen) r
    end
  end end
with sp_elems (fuel : nat) (sg : gmeta) (ts : list tok) {struct fuel} : option (list tok) :=
  match fuel with O => None | S fuel' =>
  match ts with
  | [] => Some []      (* cannot happen in a framed message: the token 10 is always left *)
  | _ =>
    match sp_fields fuel' sg true [] ts with
    | PViol => None
    | PRest seen rest =>
      if mand_ok sg seen then
        match rest with
        | t' :: _ => if memN (k_tag t') seen then sp_elems fuel' sg rest else Some rest
        | [] => Some []
        end
      else None
    end
  end end.

Definition sp_fuel (ts : list tok) : nat := S (S (S (length ts + length ts + length ts))).

Inductive verdict := VConf | VViol | VIllegal.

Definition part (g : gmeta) (ts : list tok) : pres :=
  match sp_fields (sp_fuel ts) g false [] ts with
  | PViol => PViol
  | PRest seen rest => if mand_ok g seen then PRest seen rest else PViol
  end.

Definition framed (toks : list tok) : bool :=
  match toks with
  | t8 :: t9 :: t35 :: _ =>
      (k_tag t8 =? 8) && (k_tag t9 =? 9) && (k_tag t35 =? 35) &&
      let t10 := last toks t8 in (k_tag t10 =? 10) && (lenN (k_val t10) =? 3)
  | _ => false
  end.

Definition struct_verdict (c : ctx) (toks : list tok) : verdict :=
  if negb (framed toks) then VViol
  else match toks with
  | _ :: _ :: t35 :: _ =>
    match find_msg (c_msgs c) (k_val t35) with
    | None => VViol
    | Some md =>
      match part (c_header c) toks with
      | PViol => VViol
      | PRest _ r1 =>
        match part (md_meta md) r1 with
        | PViol => VViol
        | PRest _ r2 =>
          match part (c_trailer c) r2 with
          | PViol => VViol
          | PRest _ [] => VConf
          | PRest _ _ => VIllegal
          end
        end
      end
    end
  | _ => VViol
  end.

Definition is_conf (v : verdict) : bool := match v with VConf => true | _ => false end.

Definition conforms (c : ctx) (bytes : list N) : bool :=
  chk_ok bytes &&
  match tokenize bytes with
  | Some toks => is_conf (struct_verdict c toks)
  | None => false
  end.

(* ------------------------------------------------------------------ observed message *)
Inductive obs := Obs (pos : list (N * list N)) (groups : list (N * list obs)).
Record obs_msg := mkObs { o_hdr : obs; o_body : obs; o_trl : obs }.

Fixpoint flat (o : obs) : list (N * list N) :=
  match o with
  | Obs pos gs => pos ++ flat_map (fun g => flat_map flat (snd g)) gs
  end.
Definition flat_msg (m : obs_msg) : list (N * list N) :=
  flat (o_hdr m) ++ flat (o_body m) ++ flat (o_trl m).

Definition ftype (c : ctx) (f : N) : N :=
  match find_be (c_fields c) f with Some ty => ty | None => ft_string end.

Definition val_eq (ty : N) (text printed : list N) : bool :=
  list_eqb text printed ||
  (is_int_type ty &&
   match int_value text, int_value printed with
   | Some a, Some b => (a =? b)%Z
   | _, _ => false
   end).
Definition tok_match (c : ctx) (t : tok) (e : N * list N) : bool :=
  (k_tag t =? fst e) && val_eq (ftype c (k_tag t)) (k_val t) (snd e).

Fixpoint remove_first {A} (p : A -> bool) (l : list A) : option (list A) :=
  match l with
  | [] => None
  | x :: r => if p x then Some r
              else match remove_first p r with Some r' => Some (x :: r') | None => None end
  end.
Fixpoint ms_incl (c : ctx) (toks : list tok) (pool : list (N * list N)) : bool :=
  match toks with
  | [] => true
  | t :: r => match remove_first (tok_match c t) pool with
              | Some pool' => ms_incl c r pool'
              | None => false
              end
  end.
Definition retains (c : ctx) (toks : list tok) (m : obs_msg) : bool := ms_incl c toks (flat_msg m).

(* ------------------------------------------------------------------ oracle *)
Inductive outcome := Accepted (m : obs_msg) | Rejected | Abnormal.

Definition c04_ok (c : ctx) (bytes : list N) (o : outcome) : bool :=
  match o with
  | Accepted m =>
      conforms c bytes &&
      match tokenize bytes with Some toks => retains c toks m | None => false end
  | Rejected => negb (conforms c bytes)
  | Abnormal => false
  end.
