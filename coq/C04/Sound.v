(* C04: what "the accepted object is sound" means -- the conclusion of c04_accept_sound_partial.
   Definitions only (Props), no proofs.

   part_sound c g m  (m = header / body / trailer object decoded against the table g):
     - m's own trait table is g's up to the dynamic present bits, its nested group classes are g's;
     - a tag occurs at most once in the position list _pos, EXCEPT tags of type data, which the
       Length/data pairing of MessageBase::decode adds without the duplicate test (finding
       C04-length-field-pairing);
     - a tag is in _pos iff its present bit is set, and no mandatory trait lacks the bit
       (find_missing = None): every mandatory field is in the object;
     - every element of every repeating group, at every depth (elems_sound), was decoded against
       the nested table the schema gives for that count field, has no repeated tag, has all its
       mandatory fields, and holds at arrival index 1 (the key of its _pos entry) a field whose
       schema position is 1: the element began with the group's first field. *)
From Coq Require Import NArith ZArith List Bool.
From F8 Require Import Codec.Bytes Codec.Meta Codec.Extract Codec.Decode C04.Spec_C04 C04.Strict.
Import ListNotations.
Local Open Scope N_scope.

Definition strip (t : trait) : trait := set_present false t.
Definition same_table (fp ts : list trait) : Prop := map strip fp = map strip ts.
Definition tags_of (l : list (N * (N * list N))) : list N := map (fun e => fst (snd e)) l.
Definition pos_tags (m : mbase) : list N := tags_of (mb_pos m).
Definition present_in (fp : list trait) (f : N) : Prop :=
  exists tr, find_trait fp f = Some tr /\ t_present tr = true.

Definition elem_sound (sg : gmeta) (e : mbase) : Prop :=
  same_table (mb_fp e) (g_traits sg) /\ mb_subs e = g_subs sg /\
  NoDup (pos_tags e) /\
  (forall f, In f (pos_tags e) <-> present_in (mb_fp e) f) /\
  find_missing (mb_fp e) = None /\
  (exists f v tr, In (1, (f, v)) (mb_pos e) /\ find_trait (mb_fp e) f = Some tr /\ getPos tr = 1).

(* P subs f e for every element e of every group f of m (subs = m's nested classes), recursively *)
Fixpoint deep (P : list (N * gmeta) -> N -> mbase -> Prop) (m : mbase) {struct m} : Prop :=
  match m with
  | MB _ subs _ _ groups _ =>
    (fix gl (gs : list (N * list mbase)) : Prop :=
       match gs with
       | [] => True
       | g :: r =>
         (fix el (es : list mbase) : Prop :=
            match es with
            | [] => True
            | e :: r' => (P subs (fst g) e /\ deep P e) /\ el r'
            end) (snd g) /\ gl r
       end) groups
  end.
Definition group_elem (subs : list (N * gmeta)) (f : N) (e : mbase) : Prop :=
  exists sg, find_sub subs f = Some sg /\ elem_sound sg e.
Definition elems_sound (m : mbase) : Prop := deep group_elem m.

Definition dup_free_but_data (m : mbase) : Prop :=
  forall f, (count_occ N.eq_dec (pos_tags m) f <= 1)%nat \/
            exists tr, find_trait (mb_fp m) f = Some tr /\ t_ftype tr = ft_data.

Definition part_inv (g : gmeta) (m : mbase) : Prop :=
  same_table (mb_fp m) (g_traits g) /\ mb_subs m = g_subs g /\
  dup_free_but_data m /\
  (forall f, In f (pos_tags m) <-> present_in (mb_fp m) f) /\
  elems_sound m.
Definition part_sound (g : gmeta) (m : mbase) : Prop :=
  part_inv g m /\ find_missing (mb_fp m) = None.

Definition msg_sound (c : ctx) (m : message) : Prop :=
  exists md, In md (c_msgs c) /\ md_type md = m_type m /\
    part_sound (c_header c) (m_hdr m) /\ part_sound (md_meta md) (m_body m) /\
    part_sound (c_trailer c) (m_trl m).

(* the checksum as factory reads it: bytes [n-7, n-5) are "10", the three bytes at n-4 read by
   fast_atoi<unsigned> give the sum of the first n-7 bytes mod 256 *)
Definition chk_as_read (bytes : list N) : Prop :=
  let n := lenN bytes in
  7 <= n /\ nthN bytes (n - 7) = 49 /\ nthN bytes (n - 6) = 48 /\
  fast_atoi_u32 (firstN 3 (skipN (n - 4) bytes)) = sumN (firstN (n - 7) bytes) mod 256.

Definition bytes_small (bytes : list N) : bool := forallb (fun b => b <? 256) bytes.
