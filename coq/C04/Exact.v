(* C04: the hypotheses of c04_exact_partial, as booleans on the token list (definitions only).

   exact_hyps c toks =
     framed toks                  the list starts 8, 9, 35 and ends with 10 carrying three bytes;
     every token (tok_ok):        tag < 65536 (no 16-bit wrap: F11);
                                  value without SOH / NUL, bytes < 256, shorter than 2048: a longer one cannot be
                                  extracted (extract_element fails at the buffer's capacity, C04-long-value);
                                  int-typed fields carry an optional '-' and digits, value within the int range (F01 / C08);
                                  no Length-typed field other than BodyLength (pairing: C06);
     auto_once:                   no automatic field (8 9 35 of the header, 10 of the trailer)
                                  occurs again between the first three tokens and the last;
     the values of 9 and 35 fit factory's 32-byte buffers; the three bytes of 10 are digits;
     the whole message is shorter than 2^31.
   rendered c toks = every tag is known to the schema's field table and every value survives its
     type's rendering: printing the field object built from the text gives the text back (for int
     types: the same integer), also for BodyLength on its way through factory; the BeginString
     is the schema's own (C04-beginstring-ignored). *)
From Coq Require Import NArith ZArith List Bool.
From F8 Require Import Codec.Bytes Codec.Meta Codec.Extract Codec.Decode Codec.Encode
                       C04.Spec_C04 C04.Strict C04.Tokens.
Import ListNotations.
Local Open Scope N_scope.

Definition val_ok (v : list N) : bool :=
  forallb (fun b => negb (b =? SOH) && negb (b =? 0) && (b <? 256)) v && (lenN v <? 2048).
Definition canon_int (v : list N) : bool :=
  match int_value v with Some z => (-2147483648 <=? z)%Z && (z <? 2147483648)%Z | None => false end.
Definition tok_ok (c : ctx) (t : tok) : bool :=
  (k_tag t <? 65536) && val_ok (k_val t) &&
  (negb (is_int_type (ftype c (k_tag t))) || canon_int (k_val t)) &&
  negb ((ftype c (k_tag t) =? ft_Length) && negb (k_tag t =? Common_BodyLength)).
Definition toks_ok (c : ctx) (ts : list tok) : bool := forallb (tok_ok c) ts.

Definition is_auto (g : gmeta) (f : N) : bool :=
  match find_trait (g_traits g) f with Some tr => t_auto tr | None => false end.
Definition no_auto (g : gmeta) (ts : list tok) : bool := forallb (fun t => negb (is_auto g (k_tag t))) ts.
(* the tokens between the first three and the last *)
Definition middle (toks : list tok) : list tok := skipn 3 (removelast toks).
Definition auto_once (c : ctx) (toks : list tok) : bool :=
  no_auto (c_header c) (middle toks) && no_auto (c_trailer c) (middle toks).

Definition exact_hyps (c : ctx) (toks : list tok) : bool :=
  framed toks && toks_ok c toks && auto_once c toks &&
  match toks with
  | t8 :: t9 :: t35 :: _ => (lenN (k_val t9) <? 32) && (lenN (k_val t35) <? 32) &&
                            forallb is_digit (k_val (last toks t8))          (* 10=ddd *)
  | _ => false
  end &&
  (lenN (ser toks) <? 2147483648).

Definition tok_rendered (c : ctx) (t : tok) : bool :=
  match find_be (c_fields c) (k_tag t) with Some _ => true | None => false end &&     (* tag known to the schema *)
  val_eq (ftype c (k_tag t)) (k_val t) (c_render c (ftype c (k_tag t)) (k_val t)).
Definition rendered (c : ctx) (toks : list tok) : bool :=
  forallb (tok_rendered c) toks &&
  match toks with
  | t8 :: t9 :: _ =>
      list_eqb (k_val t8) (c_begin c) &&
      (* BodyLength goes through unsigned -> int -> text -> Field<int> -> text *)
      val_eq (ftype c 9) (k_val t9)
             (c_render c (ftype c 9) (itoa_Z (to_i32 (Z.of_N (fast_atoi_u32 (k_val t9))))))
  | _ => false
  end.

(* the decoder stands at the token list ts: the input is pre ++ ser ts ++ tail, the offset is
   |pre| and the end of the decodable range is the end of ser ts *)
Definition at_toks (from : list N) (fsize off : N) (ts : list tok) (tail : list N) : Prop :=
  exists pre, from = pre ++ ser ts ++ tail /\ off = lenN pre /\ fsize = off + lenN (ser ts).

(* multiset of (tag, stored text) pairs of an object, all depths *)
Fixpoint mflat (m : mbase) : list (N * list N) :=
  match m with
  | MB _ _ _ pos groups _ => map snd pos ++ flat_map (fun g => flat_map mflat (snd g)) groups
  end.
Definition tok_pair (t : tok) : N * list N := (k_tag t, k_val t).

(* what the accepted object must hold for a framed token list: the schema's BeginString, the
   BodyLength as the int field re-prints it, MsgType, the three checksum bytes, and every token
   between the first three and the last with its own text *)
Definition expected_pairs (c : ctx) (toks : list tok) : list (N * list N) :=
  match toks with
  | t8 :: t9 :: t35 :: _ =>
      [ (8, c_begin c); (9, itoa_Z (to_i32 (Z.of_N (fast_atoi_u32 (k_val t9)))));
        (35, k_val t35); (10, k_val (last toks t8)) ] ++ map tok_pair (middle toks)
  | _ => []
  end.
