(* C04: token sequences as inputs of the decoder model.  A token is (numeric tag, value text);
   [ser] prints it the way a FIX peer would: canonical decimal tag, '=', value, SOH.  The theorems
   of C04 quantify over token lists and feed [ser toks] to the model of Message::factory.
   [mk_wire] frames a list of tokens with BeginString, a correct BodyLength, MsgType and a correct
   CheckSum (used for the witnesses and the non-vacuity examples).  No proofs here. *)
From Coq Require Import NArith ZArith List Bool.
From F8 Require Import Codec.Bytes Codec.Meta C04.Spec_C04.
Import ListNotations.
Local Open Scope N_scope.

Definition ser_tok (t : tok) : list N := itoa_N (k_tag t) ++ EQC :: k_val t ++ [SOH].
Definition ser (ts : list tok) : list N := flat_map ser_tok ts.

Definition T (tag : N) (val : list N) : tok := mkTok tag val.

(* 8=begin | 9=<length of what follows up to the checksum token> | 35=mtype | toks | 10=ddd *)
Definition framed_toks (begin mtype : list N) (toks : list tok) : list tok :=
  let body := T 35 mtype :: toks in
  let pre := [T 8 begin; T 9 (itoa_N (lenN (ser body)))] in
  pre ++ body ++ [T 10 (fmt_chksum (sumN (ser (pre ++ body)) mod 256))].
Definition mk_wire (begin mtype : list N) (toks : list tok) : list N := ser (framed_toks begin mtype toks).
