(* C04: proof of c04_accept_sound_partial -- invariants of MessageBase::decode / decode_group on the
   partially built object, for ALL inputs (no hypothesis on the bytes). *)
From Coq Require Import NArith ZArith List Bool Lia Permutation.
From F8 Require Import Codec.Bytes Codec.Meta Codec.Extract Codec.Decode C04.Spec_C04 C04.Strict C04.Sound.
Import ListNotations.
Local Open Scope N_scope.

(* ------------------------------------------------------------------ projections *)
Lemma fp_mark m f : mb_fp (mark_present m f) = upd_trait (set_present true) (mb_fp m) f.
Proof. destruct m; reflexivity. Qed.
Lemma pos_mark m f : mb_pos (mark_present m f) = mb_pos m.
Proof. destruct m; reflexivity. Qed.
Lemma subs_mark m f : mb_subs (mark_present m f) = mb_subs m.
Proof. destruct m; reflexivity. Qed.
Lemma groups_mark m f : mb_groups (mark_present m f) = mb_groups m.
Proof. destruct m; reflexivity. Qed.
Lemma fields_mark m f : mb_fields (mark_present m f) = mb_fields m.
Proof. destruct m; reflexivity. Qed.
Lemma fields_afd m f p v : mb_fields (add_field_decoder m f p v) = map_insert f v (mb_fields m).
Proof. destruct m; reflexivity. Qed.
Lemma map_insert_nonempty {A} k (v : A) l : map_insert k v l <> [].
Proof. destruct l as [|[k' v'] r]; cbn [map_insert]; [discriminate|]. destruct (k <? k'); [discriminate|]. destruct (k =? k'); discriminate. Qed.
Lemma fp_afd m f p v : mb_fp (add_field_decoder m f p v) = mb_fp m.
Proof. destruct m; reflexivity. Qed.
Lemma pos_afd m f p v : mb_pos (add_field_decoder m f p v) = pos_insert p (f, v) (mb_pos m).
Proof. destruct m; reflexivity. Qed.
Lemma subs_afd m f p v : mb_subs (add_field_decoder m f p v) = mb_subs m.
Proof. destruct m; reflexivity. Qed.
Lemma groups_afd m f p v : mb_groups (add_field_decoder m f p v) = mb_groups m.
Proof. destruct m; reflexivity. Qed.

(* ------------------------------------------------------------------ trait tables *)
Lemma fnum_set_present b t : t_fnum (set_present b t) = t_fnum t.
Proof. destruct t; reflexivity. Qed.
Lemma strip_set_present b t : strip (set_present b t) = strip t.
Proof. destruct t; reflexivity. Qed.
Lemma present_set_present b t : t_present (set_present b t) = b.
Proof. destruct t; reflexivity. Qed.
Lemma getPos_strip t t' : strip t = strip t' -> getPos t = getPos t'.
Proof. destruct t, t'; unfold strip, set_present, getPos; cbn. intros H; injection H; intros; subst; reflexivity. Qed.
Lemma ftype_strip t t' : strip t = strip t' -> t_ftype t = t_ftype t'.
Proof. destruct t, t'; unfold strip, set_present; cbn. intros H; injection H; intros; subst; reflexivity. Qed.
Lemma fnum_strip t t' : strip t = strip t' -> t_fnum t = t_fnum t'.
Proof. destruct t, t'; unfold strip, set_present; cbn. intros H; injection H; intros; subst; reflexivity. Qed.
Lemma mand_strip t t' : strip t = strip t' -> t_mand t = t_mand t'.
Proof. destruct t, t'; unfold strip, set_present; cbn. intros H; injection H; intros; subst; reflexivity. Qed.
Lemma group_strip t t' : strip t = strip t' -> t_group t = t_group t'.
Proof. destruct t, t'; unfold strip, set_present; cbn. intros H; injection H; intros; subst; reflexivity. Qed.
Lemma auto_strip t t' : strip t = strip t' -> t_auto t = t_auto t'.
Proof. destruct t, t'; unfold strip, set_present; cbn. intros H; injection H; intros; subst; reflexivity. Qed.
Lemma haspos_strip t t' : strip t = strip t' -> t_haspos t = t_haspos t'.
Proof. destruct t, t'; unfold strip, set_present; cbn. intros H; injection H; intros; subst; reflexivity. Qed.
Lemma pos_strip t t' : strip t = strip t' -> t_pos t = t_pos t'.
Proof. destruct t, t'; unfold strip, set_present; cbn. intros H; injection H; intros; subst; reflexivity. Qed.

Lemma find_trait_fnum ts f tr : find_trait ts f = Some tr -> t_fnum tr = f /\ In tr ts.
Proof.
  induction ts as [|x r IH]; cbn; [discriminate|].
  destruct (t_fnum x =? f) eqn:E.
  - intros H; injection H as <-. apply N.eqb_eq in E. split; [assumption | left; reflexivity].
  - intros H. destruct (IH H). split; [assumption | right; assumption].
Qed.

Lemma find_upd_same b ts f tr :
  find_trait ts f = Some tr -> find_trait (upd_trait (set_present b) ts f) f = Some (set_present b tr).
Proof.
  induction ts as [|x r IH]; cbn [find_trait upd_trait]; [discriminate|].
  destruct (t_fnum x =? f) eqn:E; cbn [find_trait].
  - intros H; injection H as <-. rewrite fnum_set_present, E. reflexivity.
  - intros H. rewrite E. auto.
Qed.
Lemma find_upd_other b ts f f' :
  f' <> f -> find_trait (upd_trait (set_present b) ts f) f' = find_trait ts f'.
Proof.
  intros Hne. induction ts as [|x r IH]; cbn [find_trait upd_trait]; [reflexivity|].
  destruct (t_fnum x =? f) eqn:E; cbn [find_trait].
  - rewrite fnum_set_present. apply N.eqb_eq in E. rewrite E.
    destruct (f =? f') eqn:E2; [apply N.eqb_eq in E2; congruence | reflexivity].
  - destruct (t_fnum x =? f'); [reflexivity | assumption].
Qed.
Lemma strip_upd b ts f : map strip (upd_trait (set_present b) ts f) = map strip ts.
Proof.
  induction ts as [|x r IH]; cbn [upd_trait map]; [reflexivity|].
  destruct (t_fnum x =? f); cbn [map]; [rewrite strip_set_present; reflexivity | rewrite IH; reflexivity].
Qed.

Lemma same_table_find fp ts f :
  same_table fp ts -> option_map strip (find_trait fp f) = option_map strip (find_trait ts f).
Proof.
  unfold same_table. revert ts. induction fp as [|x r IH]; intros [|y s] H; cbn [map find_trait option_map] in *; try discriminate; [reflexivity|].
  pose proof (f_equal (@hd trait (strip x)) H) as Hxy. pose proof (f_equal (@tl trait) H) as Hrs.
  cbn [hd tl] in Hxy, Hrs. rewrite (fnum_strip _ _ Hxy).
  destruct (t_fnum y =? f); cbn [option_map]; [rewrite Hxy; reflexivity | auto].
Qed.
Lemma same_table_find_some fp ts f tr :
  same_table fp ts -> find_trait fp f = Some tr -> exists tr', find_trait ts f = Some tr' /\ strip tr = strip tr'.
Proof.
  intros H Hf. pose proof (same_table_find fp ts f H) as E. rewrite Hf in E. cbn [option_map] in E.
  destruct (find_trait ts f) as [tr'|]; cbn [option_map] in E; [|discriminate].
  exists tr'. split; [reflexivity | congruence].
Qed.
Lemma same_table_find_none fp ts f :
  same_table fp ts -> find_trait fp f = None -> find_trait ts f = None.
Proof.
  intros H Hf. pose proof (same_table_find fp ts f H) as E. rewrite Hf in E. cbn [option_map] in E.
  destruct (find_trait ts f); [discriminate | reflexivity].
Qed.
Lemma same_table_mark fp ts f : same_table fp ts -> same_table (upd_trait (set_present true) fp f) ts.
Proof. unfold same_table. intros H. rewrite strip_upd. assumption. Qed.

(* present_in after marking f *)
Lemma present_mark fp f tr f' :
  find_trait fp f = Some tr ->
  (present_in (upd_trait (set_present true) fp f) f' <-> f' = f \/ present_in fp f').
Proof.
  intros Hf. unfold present_in. destruct (N.eq_dec f' f) as [->|Hne].
  - split; [intros _; left; reflexivity|]. intros _. exists (set_present true tr).
    split; [apply find_upd_same; assumption | apply present_set_present].
  - rewrite (find_upd_other true fp f f' Hne). split; [intros H; right; exact H|].
    intros [H|H]; [congruence | exact H].
Qed.

(* ------------------------------------------------------------------ position list *)
Lemma pos_insert_k_perm {A} p (x : A) l : Permutation (pos_insert_k p x l) ((p, x) :: l).
Proof.
  induction l as [|[q y] r IH]; cbn; [reflexivity|].
  destruct (p <? q); [reflexivity|].
  eapply perm_trans; [apply perm_skip; exact IH | apply perm_swap].
Qed.
Lemma tags_insert p f v l : Permutation (tags_of (pos_insert p (f, v) l)) (f :: tags_of l).
Proof.
  unfold tags_of, pos_insert.
  eapply perm_trans; [apply Permutation_map; apply pos_insert_k_perm | reflexivity].
Qed.
Lemma in_pos_insert p (x : N * list N) l e : In e (pos_insert p x l) <-> e = (pos_key p, x) \/ In e l.
Proof.
  unfold pos_insert. split; intros H.
  - apply (Permutation_in _ (pos_insert_k_perm (pos_key p) x l)) in H. destruct H; [left; congruence | right; assumption].
  - apply (Permutation_in _ (Permutation_sym (pos_insert_k_perm (pos_key p) x l))). destruct H; [left; congruence | right; assumption].
Qed.

Lemma pos_tags_add m f p v :
  Permutation (pos_tags (mark_present (add_field_decoder m f p v) f)) (f :: pos_tags m).
Proof. unfold pos_tags. rewrite pos_mark, pos_afd. apply tags_insert. Qed.

(* ------------------------------------------------------------------ deep *)
Lemma deep_unfold P m :
  deep P m <-> Forall (fun g => Forall (fun e => P (mb_subs m) (fst g) e /\ deep P e) (snd g)) (mb_groups m).
Proof.
  destruct m as [fp subs fields pos groups unk]. cbn [deep mb_subs mb_groups].
  induction groups as [|g r IH].
  - split; [constructor | trivial].
  - split.
    + intros [Hg Hr]. constructor; [|apply IH; exact Hr].
      clear IH Hr. induction (snd g) as [|e es IHe]; [constructor|].
      destruct Hg as [He Hes]. constructor; [exact He | apply IHe; exact Hes].
    + intros H. inversion H as [|? ? Hg Hr]; subst. split; [|apply IH; exact Hr].
      clear IH Hr H. induction (snd g) as [|e es IHe]; [exact I|].
      inversion Hg; subst. split; [assumption | apply IHe; assumption].
Qed.

Lemma elems_sound_same_groups m m' :
  mb_subs m' = mb_subs m -> mb_groups m' = mb_groups m -> elems_sound m -> elems_sound m'.
Proof. unfold elems_sound. rewrite !deep_unfold. intros -> ->. trivial. Qed.

Lemma elems_sound_add m f p v : elems_sound m -> elems_sound (mark_present (add_field_decoder m f p v) f).
Proof.
  apply elems_sound_same_groups.
  - rewrite subs_mark, subs_afd. reflexivity.
  - rewrite groups_mark, groups_afd. reflexivity.
Qed.

(* ------------------------------------------------------------------ schema well-formedness *)
Lemma memN_In x l : memN x l = true <-> In x l.
Proof.
  unfold memN. rewrite existsb_exists. split.
  - intros (y & Hy & E). apply N.eqb_eq in E. subst. assumption.
  - intros H. exists x. split; [assumption | apply N.eqb_refl].
Qed.

Lemma wf_table_unfold c elem g :
  wf_table c elem g = true ->
  nodupN (map t_fnum (g_traits g)) = true /\
  forallb (trait_ok c (g_subs g) elem) (g_traits g) = true /\
  (forall f sg, find_sub (g_subs g) f = Some sg -> wf_table c true sg = true).
Proof.
  destruct g as [ts subs d]. cbn [wf_table g_traits g_subs]. intros H.
  apply andb_true_iff in H. destruct H as [H Hs]. apply andb_true_iff in H. destruct H as [Hn Hf].
  split; [assumption|]. split; [exact Hf|].
  clear Hn Hf. induction subs as [|[k sg] r IH]; intros f sg' Hfs; cbn [find_sub] in Hfs; [discriminate|].
  apply andb_true_iff in Hs. destruct Hs as [H1 H2].
  destruct (k =? f); [injection Hfs as <-; assumption | eapply IH; eassumption].
Qed.

Lemma wf_trait c elem g fp f tr :
  wf_table c elem g = true -> same_table fp (g_traits g) -> find_trait fp f = Some tr ->
  f < 65536 /\ (exists ty, find_be (c_fields c) f = Some ty) /\
  (t_group tr = true -> exists sg, find_sub (g_subs g) f = Some sg) /\
  (elem = true -> t_haspos tr = true /\ t_auto tr = false).
Proof.
  intros Hwf Hst Hf. destruct (wf_table_unfold _ _ _ Hwf) as (_ & Hall & _).
  destruct (same_table_find_some _ _ _ _ Hst Hf) as (tr' & Hf' & Hs).
  destruct (find_trait_fnum _ _ _ Hf') as [Hn Hin].
  rewrite forallb_forall in Hall. specialize (Hall _ Hin). unfold trait_ok in Hall.
  rewrite Hn in Hall.
  apply andb_true_iff in Hall. destruct Hall as [Hall H4]. apply andb_true_iff in Hall. destruct Hall as [Hall H3].
  apply andb_true_iff in Hall. destruct Hall as [H1 H2].
  split; [apply N.ltb_lt; assumption|]. split.
  - destruct (find_be (c_fields c) f) as [ty|]; [eauto | discriminate].
  - split.
    + intros Hg. rewrite (group_strip _ _ Hs) in Hg. rewrite Hg in H3. cbn [negb orb] in H3.
      apply andb_true_iff in H3. destruct H3 as [H3 _].
      destruct (find_sub (g_subs g) f); [eauto | discriminate].
    + intros ->. cbn in H4. apply andb_true_iff in H4. destruct H4 as [H4 H5]. apply andb_true_iff in H4. destruct H4 as [_ H4].
      rewrite (haspos_strip _ _ Hs), (auto_strip _ _ Hs). split; [assumption|]. destruct (t_auto tr'); [discriminate | reflexivity].
Qed.

Lemma wf_elem_not_present c g f :
  wf_table c true g = true -> ~ present_in (g_traits g) f.
Proof.
  intros Hwf (tr & Hf & Hp). destruct (wf_table_unfold _ _ _ Hwf) as (_ & Hall & _).
  destruct (find_trait_fnum _ _ _ Hf) as [_ Hin]. rewrite forallb_forall in Hall. specialize (Hall _ Hin).
  unfold trait_ok in Hall. rewrite Hp in Hall. cbn in Hall. rewrite !andb_false_r in Hall. discriminate.
Qed.

(* ------------------------------------------------------------------ unfolding equations *)
Section Eq.
Variable c : ctx. Variable cp : caps. Variable from : list N. Variable fsize : N.

Lemma dg_elem_S fuel grp pos off :
  dg_elem c cp from fsize (S fuel) grp pos off =
  if off <? fsize then
    match tok_at cp from fsize off with
    | XOOB s => OOB s
    | XFail _ _ => Ok (grp, pos, off, SStall)
    | XOk tag val result =>
      let tv32 := fast_atoi_u32 tag in
      let tv := tv32 mod 65536 in
      match find_trait (mb_fp grp) tv with
      | None => if pos =? 0 then Exc (EMissingGroupField tv32) else Ok (grp, pos, off, SForeign)
      | Some tr =>
          if t_present tr then Ok (grp, pos, off, SDup)
          else if (pos =? 0) && negb (getPos tr =? 1) then Exc (EMissingGroupField tv32)
          else match find_be (c_fields c) tv with
          | None => Ok (grp, pos, off, SForeign)
          | Some _ =>
            let off1 := off + result in
            let pos1 := pos + 1 in
            let v := cstr val in
            let g1 := mark_present (add_field_decoder grp tv pos1 v) tv in
            if t_group tr && has_group_count_c c tv v then
              match decode_group c cp from fsize fuel g1 tv off1 with
              | Ok (g2, off2) => dg_elem c cp from fsize fuel g2 pos1 off2
              | Exc e => Exc e | OOB s => OOB s | Diverge => Diverge | Fuel => Fuel
              end
            else dg_elem c cp from fsize fuel g1 pos1 off1
          end
      end
    end
  else Ok (grp, pos, off, SEnd).
Proof. reflexivity. Qed.

Lemma dg_loop_S fuel gm els off :
  dg_loop c cp from fsize (S fuel) gm els off =
  if off <? fsize then
    match dg_elem c cp from fsize fuel (create_group gm false) 0 off with
    | Exc e => Exc e | OOB s => OOB s | Diverge => Diverge | Fuel => Fuel
    | Ok (grp, pos, off', why) =>
      match mb_fields grp with
      | [] => Ok (els, off')
      | _ :: _ =>
        match find_missing (mb_fp grp) with
        | Some f => Exc (EMissingMandatory f)
        | None =>
          let els' := els ++ [grp] in
          match why with
          | SForeign => Ok (els', off')
          | SEnd => Ok (els', off')
          | SDup => dg_loop c cp from fsize fuel gm els' off'
          | SStall => Ok (els', off')
          end
        end
      end
    end
  else Ok (els, off).
Proof. reflexivity. Qed.

Lemma decode_group_S fuel m f off :
  decode_group c cp from fsize (S fuel) m f off =
  match find_add_group m f with
  | Exc e => Exc e | OOB s => OOB s | Diverge => Diverge | Fuel => Fuel
  | Ok (m1, gm) =>
    let els0 := match map_find f (mb_groups m1) with Some l => l | None => [] end in
    match dg_loop c cp from fsize fuel gm els0 off with
    | Ok (els, off') => Ok (with_groups m1 (map_set f els (mb_groups m1)), off')
    | Exc e => Exc e | OOB s => OOB s | Diverge => Diverge | Fuel => Fuel
    end
  end.
Proof. reflexivity. Qed.
End Eq.

(* ------------------------------------------------------------------ group elements *)
Definition elem_inv (sg : gmeta) (grp : mbase) (pos : N) : Prop :=
  same_table (mb_fp grp) (g_traits sg) /\ mb_subs grp = g_subs sg /\
  NoDup (pos_tags grp) /\
  (forall f, In f (pos_tags grp) <-> present_in (mb_fp grp) f) /\
  (pos = 0 -> mb_pos grp = []) /\
  (pos <> 0 -> exists f v tr, In (1, (f, v)) (mb_pos grp) /\ find_trait (mb_fp grp) f = Some tr /\ getPos tr = 1) /\
  elems_sound grp /\
  (mb_fields grp <> [] -> pos <> 0).

Lemma elem_inv_add sg grp pos tv tr v :
  elem_inv sg grp pos -> find_trait (mb_fp grp) tv = Some tr -> t_present tr = false ->
  (pos = 0 -> getPos tr = 1) ->
  elem_inv sg (mark_present (add_field_decoder grp tv (pos + 1) v) tv) (pos + 1).
Proof.
  intros (Hst & Hsubs & Hnd & Hiff & H0 & Hfirst & Hdeep & _) Hf Hnp Hp1.
  assert (Hnotin : ~ In tv (pos_tags grp)).
  { intros Hin. apply Hiff in Hin. destruct Hin as (tr' & Hf' & Hp'). congruence. }
  unfold elem_inv. rewrite fp_mark, fp_afd, subs_mark, subs_afd.
  split; [apply same_table_mark; assumption|]. split; [assumption|].
  split. { eapply Permutation_NoDup; [apply Permutation_sym; apply pos_tags_add|]. constructor; assumption. }
  split.
  { intros f'. rewrite (present_mark _ _ _ f' Hf). rewrite <- Hiff.
    split; intros H.
    - apply (Permutation_in _ (pos_tags_add grp tv (pos + 1) v)) in H. destruct H; [left; congruence | right; assumption].
    - apply (Permutation_in _ (Permutation_sym (pos_tags_add grp tv (pos + 1) v))). destruct H; [left; congruence | right; assumption]. }
  split; [intros H; lia|]. split.
  { intros _. rewrite pos_mark, pos_afd. destruct (N.eq_dec pos 0) as [->|Hne].
    - exists tv, v, (set_present true tr). split.
      + apply in_pos_insert. left. reflexivity.
      + split; [apply find_upd_same; assumption|]. rewrite <- (Hp1 eq_refl). apply getPos_strip. apply strip_set_present.
    - destruct (Hfirst Hne) as (f0 & v0 & tr0 & Hin0 & Hf0 & Hg0).
      destruct (N.eq_dec f0 tv) as [->|Hne2].
      + exists tv, v0, (set_present true tr). split; [apply in_pos_insert; right; assumption|].
        split; [apply find_upd_same; assumption|]. rewrite Hf in Hf0. injection Hf0 as <-.
        rewrite <- Hg0. apply getPos_strip. apply strip_set_present.
      + exists f0, v0, tr0. split; [apply in_pos_insert; right; assumption|].
        split; [rewrite find_upd_other by assumption; assumption | assumption]. }
  split; [apply elems_sound_add; assumption | intros _; lia].
Qed.

Lemma fp_wg m v : mb_fp (with_groups m v) = mb_fp m. Proof. destruct m; reflexivity. Qed.
Lemma pos_wg m v : mb_pos (with_groups m v) = mb_pos m. Proof. destruct m; reflexivity. Qed.
Lemma subs_wg m v : mb_subs (with_groups m v) = mb_subs m. Proof. destruct m; reflexivity. Qed.
Lemma groups_wg m v : mb_groups (with_groups m v) = v. Proof. destruct m; reflexivity. Qed.
Lemma fields_wg m v : mb_fields (with_groups m v) = mb_fields m. Proof. destruct m; reflexivity. Qed.

Lemma map_find_In {A} k (l : list (N * A)) v : map_find k l = Some v -> In (k, v) l.
Proof.
  induction l as [|[k' v'] r IH]; cbn [map_find]; [discriminate|].
  destruct (k =? k') eqn:E.
  - intros H; injection H as <-. apply N.eqb_eq in E. subst. left; reflexivity.
  - intros H. right. auto.
Qed.
Lemma Forall_map_insert {A} (Q : N * A -> Prop) k v l :
  Forall Q l -> Q (k, v) -> Forall Q (map_insert k v l).
Proof.
  intros Hl Hq. induction l as [|[k' v'] r IH]; cbn [map_insert]; [constructor; [assumption | constructor]|].
  inversion Hl; subst.
  destruct (k <? k'); [constructor; assumption|].
  destruct (k =? k'); [assumption|]. constructor; [assumption | apply IH; assumption].
Qed.
Lemma Forall_map_set {A} (R : N -> A -> Prop) k v (l : list (N * A)) :
  Forall (fun g => R (fst g) (snd g)) l -> R k v -> Forall (fun g => R (fst g) (snd g)) (map_set k v l).
Proof.
  intros Hl Hq. induction l as [|[k' v'] r IH]; cbn [map_set]; [constructor|].
  inversion Hl; subst.
  destruct (k =? k') eqn:E.
  - apply N.eqb_eq in E. subst. constructor; assumption.
  - constructor; [assumption | apply IH; assumption].
Qed.

Definition ES (sg : gmeta) (e : mbase) : Prop := elem_sound sg e /\ elems_sound e.
Definition subs_wf (c : ctx) (subs : list (N * gmeta)) : Prop :=
  forall f sg, find_sub subs f = Some sg -> wf_table c true sg = true.

Lemma elem_inv_init c gm : wf_table c true gm = true -> elem_inv gm (create_group gm false) 0.
Proof.
  intros Hwf. unfold elem_inv, create_group, pos_tags. cbn [mb_fp mb_subs mb_pos tags_of map].
  split; [reflexivity|]. split; [reflexivity|]. split; [constructor|]. split.
  { intros f. split; [intros []|]. intros H. exfalso. exact (wf_elem_not_present _ _ _ Hwf H). }
  split; [reflexivity|]. split; [intros H; congruence|].
  split; [|cbn [mb_fields]; congruence].
  unfold elems_sound. apply deep_unfold. cbn [mb_groups]. unfold deep_groups. cbn [andb]. constructor.
Qed.

Lemma elem_inv_same sg m m' pos :
  mb_fp m' = mb_fp m -> mb_pos m' = mb_pos m -> mb_subs m' = mb_subs m -> mb_fields m' = mb_fields m ->
  elems_sound m' -> elem_inv sg m pos -> elem_inv sg m' pos.
Proof.
  intros Hfp Hpos Hsubs Hfl Hd (H1 & H2 & H3 & H4 & H5 & H6 & _ & H8).
  unfold elem_inv, pos_tags in *. rewrite Hfp, Hpos, Hsubs, Hfl. repeat split; try assumption; apply H4.
Qed.

Lemma elem_inv_sound sg grp pos :
  elem_inv sg grp pos -> pos <> 0 -> find_missing (mb_fp grp) = None -> ES sg grp.
Proof.
  intros (H1 & H2 & H3 & H4 & H5 & H6 & H7 & _) Hne Hm. split; [|assumption].
  unfold elem_sound. repeat split; try assumption; try apply H4. apply H6; assumption.
Qed.

Section Groups.
Variable c : ctx. Variable cp : caps. Variable from : list N. Variable fsize : N.

Definition stmtA (fuel : nat) : Prop := forall sg grp pos off grp' pos' off' why,
  wf_table c true sg = true -> elem_inv sg grp pos ->
  dg_elem c cp from fsize fuel grp pos off = Ok (grp', pos', off', why) ->
  elem_inv sg grp' pos' /\ (pos' = 0 -> pos = 0 /\ (why = SStall \/ (off <? fsize) = false)).
Definition stmtB (fuel : nat) : Prop := forall gm els off els' off',
  wf_table c true gm = true -> Forall (ES gm) els ->
  dg_loop c cp from fsize fuel gm els off = Ok (els', off') -> Forall (ES gm) els'.
Definition stmtC (fuel : nat) : Prop := forall m f off m' off',
  subs_wf c (mb_subs m) -> elems_sound m ->
  decode_group c cp from fsize fuel m f off = Ok (m', off') ->
  mb_fp m' = mb_fp m /\ mb_pos m' = mb_pos m /\ mb_subs m' = mb_subs m /\ mb_fields m' = mb_fields m /\
  elems_sound m'.

Lemma stepA fuel : stmtA fuel -> stmtC fuel -> stmtA (S fuel).
Proof.
  intros IHA IHC sg grp pos off grp' pos' off' why Hwf Hinv H.
  rewrite dg_elem_S in H. cbv zeta in H.
  destruct (off <? fsize) eqn:Hlt.
  2:{ injection H as <- <- <- <-. split; [assumption|]. intros E. split; [assumption | right; reflexivity]. }
  destruct (tok_at cp from fsize off) as [tag val result | tag val | s]; [| |discriminate].
  2:{ injection H as <- <- <- <-. split; [assumption|]. intros E. split; [assumption | left; reflexivity]. }
  set (tv := fast_atoi_u32 tag mod 65536) in *.
  destruct Hinv as (Hst & Hsubs & Hnd & Hiff & H0 & Hfirst & Hdeep & Hfl).
  assert (Hinv : elem_inv sg grp pos) by (unfold elem_inv; auto 10).
  destruct (find_trait (mb_fp grp) tv) as [tr|] eqn:Hf.
  2:{ destruct (pos =? 0) eqn:Ep; [discriminate|]. injection H as <- <- <- <-. split; [assumption|].
      intros E. apply N.eqb_neq in Ep. congruence. }
  destruct (t_present tr) eqn:Hp.
  { injection H as <- <- <- <-. split; [assumption|]. intros E. exfalso.
    assert (Hin : In tv (pos_tags grp)) by (apply Hiff; exists tr; auto).
    unfold pos_tags in Hin. rewrite (H0 E) in Hin. exact Hin. }
  destruct ((pos =? 0) && negb (getPos tr =? 1)) eqn:Efirst; [discriminate|].
  destruct (wf_trait c true sg _ _ _ Hwf Hst Hf) as (_ & (ty & Hbe) & Hgrp & _).
  rewrite Hbe in H.
  assert (Hp1 : pos = 0 -> getPos tr = 1).
  { intros ->. cbn in Efirst. destruct (getPos tr =? 1) eqn:E1; [apply N.eqb_eq; assumption | discriminate]. }
  pose proof (elem_inv_add sg grp pos tv tr (cstr val) Hinv Hf Hp Hp1) as Hinv1.
  set (g1 := mark_present (add_field_decoder grp tv (pos + 1) (cstr val)) tv) in *.
  destruct (t_group tr && has_group_count_c c tv (cstr val)) eqn:Eg.
  - destruct (decode_group c cp from fsize fuel g1 tv (off + result)) as [[g2 off2]| | | |] eqn:HD; try discriminate.
    assert (Hsw : subs_wf c (mb_subs g1)).
    { destruct Hinv1 as (_ & Hs1 & _). rewrite Hs1. intros f0 sg0. apply (wf_table_unfold _ _ _ Hwf). }
    destruct (IHC g1 tv (off + result) g2 off2 Hsw ltac:(apply Hinv1) HD) as (E1 & E2 & E3 & E5 & E4).
    pose proof (elem_inv_same sg g1 g2 (pos + 1) E1 E2 E3 E5 E4 Hinv1) as Hinv2.
    destruct (IHA sg g2 (pos + 1) off2 grp' pos' off' why Hwf Hinv2 H) as [HA HB].
    split; [assumption|]. intros E. destruct (HB E) as [HB' _]. lia.
  - destruct (IHA sg g1 (pos + 1) (off + result) grp' pos' off' why Hwf Hinv1 H) as [HA HB].
    split; [assumption|]. intros E. destruct (HB E) as [HB' _]. lia.
Qed.

Lemma stepB fuel : stmtA fuel -> stmtB fuel -> stmtB (S fuel).
Proof.
  intros IHA IHB gm els off els' off' Hwf Hels H.
  rewrite dg_loop_S in H. cbv zeta in H.
  destruct (off <? fsize) eqn:Hlt.
  2:{ injection H as <- <-. assumption. }
  destruct (dg_elem c cp from fsize fuel (create_group gm false) 0 off) as [[[[grp pos'] off1] why]| | | |] eqn:HE;
    try discriminate.
  destruct (IHA gm _ 0 off grp pos' off1 why Hwf (elem_inv_init c gm Hwf) HE) as [Hinv Hz].
  destruct (mb_fields grp) as [|fl0 flr] eqn:Hfl.
  { injection H as <- <-. assumption. }
  destruct (find_missing (mb_fp grp)) eqn:HM; [discriminate|].
  assert (Hne : pos' <> 0).
  { destruct Hinv as (_ & _ & _ & _ & _ & _ & _ & Hf). apply Hf. rewrite Hfl. discriminate. }
  assert (Hok : Forall (ES gm) (els ++ [grp])).
  { apply Forall_app. split; [assumption|]. constructor; [|constructor].
    eapply elem_inv_sound; eauto. }
  destruct why.
  - injection H as <- <-. apply Hok.
  - injection H as <- <-. apply Hok.
  - eapply IHB; [exact Hwf | apply Hok | exact H].
  - injection H as <- <-. apply Hok.
Qed.

Lemma stepC fuel : stmtB fuel -> stmtC (S fuel).
Proof.
  intros IHB m f off m' off' Hsw Hdeep H.
  rewrite decode_group_S in H. unfold find_add_group in H.
  destruct (find_sub (mb_subs m) f) as [gm|] eqn:HS; [|discriminate].
  cbv zeta in H.
  set (m1 := with_groups m (map_insert f [] (mb_groups m))) in *.
  assert (Hd1 : elems_sound m1).
  { unfold elems_sound in *. rewrite deep_unfold in *. unfold m1. rewrite subs_wg, groups_wg.
    apply Forall_map_insert; [assumption | constructor]. }
  set (els0 := match map_find f (mb_groups m1) with Some l => l | None => [] end) in *.
  assert (Hels0 : Forall (ES gm) els0).
  { unfold els0. destruct (map_find f (mb_groups m1)) as [l|] eqn:Hmf; [|constructor].
    apply map_find_In in Hmf. unfold elems_sound in Hd1. rewrite deep_unfold in Hd1.
    rewrite Forall_forall in Hd1. specialize (Hd1 _ Hmf). cbn [fst snd] in Hd1.
    eapply Forall_impl; [|exact Hd1]. cbn beta. intros e [(sg & Hsg & Hes) Hde].
    unfold m1 in Hsg. rewrite subs_wg in Hsg. rewrite HS in Hsg. injection Hsg as <-. split; assumption. }
  destruct (dg_loop c cp from fsize fuel gm els0 off) as [[els off1]| | | |] eqn:HL; try discriminate.
  injection H as <- <-.
  pose proof (IHB gm els0 off els off1 (Hsw _ _ HS) Hels0 HL) as Hels.
  rewrite fp_wg, pos_wg, subs_wg, fields_wg. unfold m1 at 1 2 3 4. rewrite fp_wg, pos_wg, subs_wg, fields_wg.
  split; [reflexivity|]. split; [reflexivity|]. split; [reflexivity|]. split; [reflexivity|].
  unfold elems_sound in *. rewrite deep_unfold in *. rewrite subs_wg, groups_wg.
  apply (Forall_map_set (fun k v => Forall (fun e => group_elem (mb_subs m1) k e /\ deep group_elem e) v)).
  - exact Hd1.
  - eapply Forall_impl; [|exact Hels]. cbn beta. intros e [He Hde]. split; [|exact Hde].
    exists gm. split; [unfold m1; rewrite subs_wg; exact HS | exact He].
Qed.

Lemma groups_inv : forall fuel, stmtA fuel /\ stmtB fuel /\ stmtC fuel.
Proof.
  induction fuel as [|fuel (IA & IB & IC)].
  - split; [|split]; unfold stmtA, stmtB, stmtC; intros;
      match goal with H : _ = Ok _ |- _ => cbn in H; discriminate H end.
  - pose proof (stepA fuel IA IC) as A. pose proof (stepB fuel IA IB) as B. pose proof (stepC fuel IB) as C.
    auto.
Qed.
End Groups.

(* ------------------------------------------------------------------ MessageBase::decode, strict *)
Lemma dec_loop_strict_S c cp from fsize gfuel fuel m off pos lvp lvo tb :
  dec_loop c cp from fsize false gfuel (S fuel) m off pos lvp lvo tb =
  if off <=? fsize then
    match tok_at cp from fsize off with
    | XOOB s => OOB s
    | XFail _ _ => dec_finish false m off pos lvp lvo
    | XOk tag val result =>
      let tb1 := tagbuf_after tag tb in
      let tv := fast_atoi_u16 tag in
      match find_trait (mb_fp m) tv with
      | None => dec_finish false m off pos lvp lvo
      | Some tr =>
        let off1 := off + result in
        if t_present tr then
          if t_auto tr then dec_loop c cp from fsize false gfuel fuel m off1 pos lvp lvo tb1
          else Exc (EDuplicateField tv)
        else
          match find_be (c_fields c) tv with
          | None => Exc (EUnknownField tv)
          | Some _ =>
            let pos1 := (pos + 1) mod 4294967296 in
            let v := cstr val in
            let m1 := mark_present (add_field_decoder m tv pos1 v) tv in
            match opt_group c cp from fsize gfuel m1 tr tv v off1 with
            | Exc e => Exc e | OOB s => OOB s | Diverge => Diverge | Fuel => Fuel
            | Ok (m2, off2) =>
              if negb (t_ftype tr =? ft_Length) || (tv =? Common_BodyLength)
              then dec_loop c cp from fsize false gfuel fuel m2 off2 pos1 lvp lvo tb1
              else
                let val_sz := fast_atoi_u32 val in
                if MAX_FLD_LENGTH - 1 <? val_sz then Exc EValueTooLarge
                else match extract_element_fixed_width (skipN off2 from) (fsize - off2) val_sz
                                                       (cap_tag cp) (cap_val cp) with
                | XOOB s => OOB s
                | XFail _ _ => Exc EFixedWidth
                | XOk tag2 val2 result2 =>
                  let tb2 := tagbuf_after_fw tag2 tb1 in
                  match cstr_known tb2 with
                  | None => OOB site_uninit_tag
                  | Some tagstr =>
                    let tv2 := fast_atoi_u16 tagstr in
                    match find_trait (mb_fp m2) tv2 with
                    | None => dec_finish false m2 off2 pos1 lvp lvo
                    | Some tr2 =>
                        if negb (t_ftype tr2 =? ft_data) || negb (tv + 1 =? tv2)
                        then dec_loop c cp from fsize false gfuel fuel m2 off2 pos1 lvp lvo tb2
                        else
                          let off3 := off2 + result2 in
                          match find_be (c_fields c) tv2 with
                          | None => Exc (EUnknownField tv2)
                          | Some _ =>
                            let pos2 := (pos1 + 1) mod 4294967296 in
                            let v2 := cstr val2 in
                            let m3 := mark_present (add_field_decoder m2 tv2 pos2 v2) tv2 in
                            match opt_group c cp from fsize gfuel m3 tr2 tv2 v2 off3 with
                            | Exc e => Exc e | OOB s => OOB s | Diverge => Diverge | Fuel => Fuel
                            | Ok (m4, off4) =>
                              dec_loop c cp from fsize false gfuel fuel m4 off4 pos2 lvp lvo tb2
                            end
                          end
                    end
                  end
                end
            end
          end
      end
    end
  else dec_finish false m off pos lvp lvo.
Proof. reflexivity. Qed.

Lemma count_occ_perm_cons (l l' : list N) f x :
  Permutation l' (x :: l) ->
  count_occ N.eq_dec l' f = if N.eq_dec x f then S (count_occ N.eq_dec l f) else count_occ N.eq_dec l f.
Proof. intros H. rewrite (Permutation_count_occ N.eq_dec) in H. rewrite H. cbn [count_occ]. reflexivity. Qed.

(* adding a field that was not present *)
Lemma part_inv_add g m tv tr p v :
  part_inv g m -> find_trait (mb_fp m) tv = Some tr -> t_present tr = false ->
  part_inv g (mark_present (add_field_decoder m tv p v) tv).
Proof.
  intros (Hst & Hsubs & Hdup & Hiff & Hdeep) Hf Hnp.
  assert (Hnotin : ~ In tv (pos_tags m)).
  { intros Hin. apply Hiff in Hin. destruct Hin as (tr' & Hf' & Hp'). congruence. }
  unfold part_inv. rewrite fp_mark, fp_afd, subs_mark, subs_afd.
  split; [apply same_table_mark; assumption|]. split; [assumption|]. split.
  { intros f. unfold dup_free_but_data in *. rewrite fp_mark, fp_afd.
    rewrite (count_occ_perm_cons _ _ f tv (pos_tags_add m tv p v)).
    destruct (N.eq_dec tv f) as [<-|Hne].
    - left. apply (count_occ_not_In N.eq_dec) in Hnotin. rewrite Hnotin. lia.
    - destruct (Hdup f) as [H|(tr' & Hf' & Hd)]; [left; assumption|]. right. exists tr'.
      rewrite find_upd_other by congruence. auto. }
  split.
  { intros f'. rewrite (present_mark _ _ _ f' Hf). rewrite <- Hiff.
    split; intros H.
    - apply (Permutation_in _ (pos_tags_add m tv p v)) in H. destruct H; [left; congruence | right; assumption].
    - apply (Permutation_in _ (Permutation_sym (pos_tags_add m tv p v))). destruct H; [left; congruence | right; assumption]. }
  apply elems_sound_add. assumption.
Qed.

(* adding a data field through the Length pairing: no presence test *)
Lemma part_inv_add_data g m tv tr p v :
  part_inv g m -> find_trait (mb_fp m) tv = Some tr -> t_ftype tr = ft_data ->
  part_inv g (mark_present (add_field_decoder m tv p v) tv).
Proof.
  intros (Hst & Hsubs & Hdup & Hiff & Hdeep) Hf Hty.
  unfold part_inv. rewrite fp_mark, fp_afd, subs_mark, subs_afd.
  split; [apply same_table_mark; assumption|]. split; [assumption|]. split.
  { intros f. unfold dup_free_but_data in *. rewrite fp_mark, fp_afd.
    rewrite (count_occ_perm_cons _ _ f tv (pos_tags_add m tv p v)).
    destruct (N.eq_dec tv f) as [<-|Hne].
    - right. exists (set_present true tr). split; [apply find_upd_same; assumption|].
      rewrite <- Hty. apply ftype_strip. apply strip_set_present.
    - destruct (Hdup f) as [H|(tr' & Hf' & Hd)]; [left; assumption|]. right. exists tr'.
      rewrite find_upd_other by congruence. auto. }
  split.
  { intros f'. rewrite (present_mark _ _ _ f' Hf). rewrite <- Hiff.
    split; intros H.
    - apply (Permutation_in _ (pos_tags_add m tv p v)) in H. destruct H; [left; congruence | right; assumption].
    - apply (Permutation_in _ (Permutation_sym (pos_tags_add m tv p v))). destruct H; [left; congruence | right; assumption]. }
  apply elems_sound_add. assumption.
Qed.

Lemma part_inv_same g m m' :
  mb_fp m' = mb_fp m -> mb_pos m' = mb_pos m -> mb_subs m' = mb_subs m -> elems_sound m' ->
  part_inv g m -> part_inv g m'.
Proof.
  intros Hfp Hpos Hsubs Hd (H1 & H2 & H3 & H4 & _).
  unfold part_inv, dup_free_but_data, pos_tags in *. rewrite Hfp, Hpos, Hsubs. auto.
Qed.

Lemma part_inv_group c cp from fsize gfuel elem g m tr tv v off m2 off2 :
  wf_table c elem g = true -> part_inv g m ->
  opt_group c cp from fsize gfuel m tr tv v off = Ok (m2, off2) -> part_inv g m2.
Proof.
  intros Hwf Hinv H. unfold opt_group in H.
  destruct (t_group tr && has_group_count_c c tv v).
  - destruct (groups_inv c cp from fsize gfuel) as (_ & _ & HC).
    assert (Hsw : subs_wf c (mb_subs m)).
    { destruct Hinv as (_ & Hs & _). rewrite Hs. intros f0 sg0. apply (wf_table_unfold _ _ _ Hwf). }
    destruct (HC m tv off m2 off2 Hsw ltac:(apply Hinv) H) as (E1 & E2 & E3 & _ & E4).
    eapply part_inv_same; eauto.
  - injection H as <- <-. assumption.
Qed.

Lemma dec_finish_ok m off pos lvp lvo m' off' :
  dec_finish false m off pos lvp lvo = Ok (m', off') -> m' = m /\ find_missing (mb_fp m) = None.
Proof.
  unfold dec_finish. destruct (find_missing (mb_fp m)); [discriminate|].
  intros H; injection H as <- _. auto.
Qed.

Lemma dec_loop_inv c cp from fsize gfuel elem g : wf_table c elem g = true ->
  forall fuel m off pos lvp lvo tb m' off',
  part_inv g m ->
  dec_loop c cp from fsize false gfuel fuel m off pos lvp lvo tb = Ok (m', off') ->
  part_sound g m'.
Proof.
  intros Hwf. induction fuel as [|fuel IH]; intros m off pos lvp lvo tb m' off' Hinv H; [discriminate|].
  rewrite dec_loop_strict_S in H. cbv zeta in H.
  assert (Hfin : forall o p, dec_finish false m o p lvp lvo = Ok (m', off') -> part_sound g m').
  { intros o p Hd. destruct (dec_finish_ok _ _ _ _ _ _ _ Hd) as [-> Hm]. split; assumption. }
  destruct (off <=? fsize); [|eauto].
  destruct (tok_at cp from fsize off) as [tag val result | tag val | s]; [|eauto|discriminate].
  set (tv := fast_atoi_u16 tag) in *.
  destruct (find_trait (mb_fp m) tv) as [tr|] eqn:Hf; [|eauto].
  destruct (t_present tr) eqn:Hp.
  { destruct (t_auto tr); [eapply IH; eauto | discriminate]. }
  destruct (find_be (c_fields c) tv); [|discriminate].
  set (pos1 := (pos + 1) mod 4294967296) in *.
  pose proof (part_inv_add g m tv tr pos1 (cstr val) Hinv Hf Hp) as Hinv1.
  set (m1 := mark_present (add_field_decoder m tv pos1 (cstr val)) tv) in *.
  destruct (opt_group c cp from fsize gfuel m1 tr tv (cstr val) (off + result)) as [[m2 off2]| | | |] eqn:HG;
    try discriminate.
  pose proof (part_inv_group _ _ _ _ _ _ _ _ _ _ _ _ _ _ Hwf Hinv1 HG) as Hinv2.
  destruct (negb (t_ftype tr =? ft_Length) || (tv =? Common_BodyLength)); [eapply IH; eauto|].
  destruct (MAX_FLD_LENGTH - 1 <? fast_atoi_u32 val); [discriminate|].
  destruct (extract_element_fixed_width (skipN off2 from) (fsize - off2) (fast_atoi_u32 val) (cap_tag cp) (cap_val cp))
    as [tag2 val2 result2 | | ]; try discriminate.
  destruct (cstr_known (tagbuf_after_fw tag2 (tagbuf_after tag tb))) as [tagstr|]; [|discriminate].
  set (tv2 := fast_atoi_u16 tagstr) in *.
  destruct (find_trait (mb_fp m2) tv2) as [tr2|] eqn:Hf2.
  2:{ destruct (dec_finish_ok _ _ _ _ _ _ _ H) as [-> Hm]. split; assumption. }
  destruct (negb (t_ftype tr2 =? ft_data) || negb (tv + 1 =? tv2)) eqn:Ed; [eapply IH; eauto|].
  destruct (find_be (c_fields c) tv2); [|discriminate].
  assert (Hty : t_ftype tr2 = ft_data).
  { apply orb_false_iff in Ed. destruct Ed as [Ed _]. apply negb_false_iff in Ed. apply N.eqb_eq. assumption. }
  set (pos2 := (pos1 + 1) mod 4294967296) in *.
  pose proof (part_inv_add_data g m2 tv2 tr2 pos2 (cstr val2) Hinv2 Hf2 Hty) as Hinv3.
  set (m3 := mark_present (add_field_decoder m2 tv2 pos2 (cstr val2)) tv2) in *.
  destruct (opt_group c cp from fsize gfuel m3 tr2 tv2 (cstr val2) (off2 + result2)) as [[m4 off4]| | | |] eqn:HG2;
    try discriminate.
  pose proof (part_inv_group _ _ _ _ _ _ _ _ _ _ _ _ _ _ Hwf Hinv3 HG2) as Hinv4.
  eapply IH; eauto.
Qed.

(* ------------------------------------------------------------------ freshly constructed parts *)
Lemma nodupN_NoDup l : nodupN l = true -> NoDup l.
Proof.
  induction l as [|x r IH]; cbn [nodupN]; [constructor|].
  intros H. apply andb_true_iff in H. destruct H as [H1 H2]. constructor; [|auto].
  intros Hin. apply memN_In in Hin. rewrite Hin in H1. discriminate.
Qed.

Lemma deep_groups_sound g d :
  Forall (fun gg : N * list mbase => Forall (fun e => group_elem (g_subs g) (fst gg) e /\ deep group_elem e) (snd gg))
         (deep_groups g d).
Proof.
  unfold deep_groups. destruct (d && g_deep g); [|constructor].
  generalize (g_subs g) at 1. intros subs'.
  induction (g_subs g) as [|s r IH]; cbn [fold_right]; [constructor|].
  apply Forall_map_insert; [exact IH | constructor].
Qed.

Lemma body_init_inv c g : wf_body c g = true -> part_inv g (create_group g false).
Proof.
  intros H. unfold wf_body in H. apply andb_true_iff in H. destruct H as [_ Hnp].
  unfold part_inv, create_group, dup_free_but_data, pos_tags. cbn [mb_fp mb_subs mb_pos tags_of map].
  split; [reflexivity|]. split; [reflexivity|]. split; [intros f; left; cbn; lia|]. split.
  { intros f. split; [intros []|]. intros (tr & Hf & Hp). exfalso.
    destruct (find_trait_fnum _ _ _ Hf) as [_ Hin]. rewrite forallb_forall in Hnp. specialize (Hnp _ Hin).
    rewrite Hp in Hnp. discriminate. }
  unfold elems_sound. apply deep_unfold. cbn [mb_groups mb_subs]. apply deep_groups_sound.
Qed.

Definition init_inv (g : gmeta) (m : mbase) (pending : list N) : Prop :=
  same_table (mb_fp m) (g_traits g) /\ mb_subs m = g_subs g /\
  NoDup (pos_tags m ++ pending) /\
  (forall f, In f (pos_tags m) -> present_in (mb_fp m) f) /\
  (forall f, present_in (mb_fp m) f -> In f (pos_tags m) \/ In f pending) /\
  elems_sound m.

Lemma fold_init_inv g : forall init m,
  init_inv g m (map (fun e => fst (snd e)) init) ->
  (forall f, In f (map (fun e => fst (snd e)) init) -> exists tr, find_trait (g_traits g) f = Some tr) ->
  init_inv g (fold_left add_init init m) [].
Proof.
  induction init as [|[p [f v]] r IH]; intros m Hinv Htab; cbn [fold_left map fst snd] in *; [assumption|].
  apply IH; [|intros f' Hin; apply Htab; right; assumption].
  destruct Hinv as (Hst & Hsubs & Hnd & Hpres & Hpend & Hdeep).
  destruct (Htab f (or_introl eq_refl)) as (tr0 & Htr0).
  assert (Hf : exists tr, find_trait (mb_fp m) f = Some tr).
  { destruct (find_trait (mb_fp m) f) as [tr|] eqn:E; [eauto|].
    rewrite (same_table_find_none _ _ _ Hst E) in Htr0. discriminate. }
  destruct Hf as (tr & Hf).
  unfold add_init, init_inv. rewrite fp_mark, fp_afd, subs_mark, subs_afd.
  pose proof (pos_tags_add m f p v) as Hperm.
  split; [apply same_table_mark; assumption|]. split; [assumption|]. split.
  { eapply Permutation_NoDup; [|exact Hnd].
    eapply perm_trans; [apply Permutation_sym; apply Permutation_middle|].
    change (f :: pos_tags m ++ map (fun e : N * (N * list N) => fst (snd e)) r)
      with ((f :: pos_tags m) ++ map (fun e : N * (N * list N) => fst (snd e)) r).
    apply Permutation_app_tail. apply Permutation_sym. exact Hperm. }
  split.
  { intros f' Hin. apply (present_mark _ _ _ f' Hf). apply (Permutation_in _ Hperm) in Hin.
    destruct Hin as [<-|Hin]; [left; reflexivity | right; auto]. }
  split.
  { intros f' Hp'. apply (present_mark _ _ _ f' Hf) in Hp'.
    assert (Hin : In f' (f :: pos_tags m) \/ In f' (map (fun e => fst (snd e)) r)).
    { destruct Hp' as [->|Hp']; [left; left; reflexivity|].
      destruct (Hpend _ Hp') as [H|[<-|H]]; [left; right; assumption | left; left; reflexivity | right; assumption]. }
    destruct Hin as [Hin|Hin]; [left | right; assumption].
    apply (Permutation_in _ (Permutation_sym Hperm)). assumption. }
  apply elems_sound_add. assumption.
Qed.

Lemma part_init_inv c g init :
  wf_table c false g = true -> init_ok g init = true -> part_inv g (mk_part g init true).
Proof.
  intros Hwf Hio. unfold init_ok in Hio. cbv zeta in Hio.
  apply andb_true_iff in Hio. destruct Hio as [Hio H3]. apply andb_true_iff in Hio. destruct Hio as [H1 H2].
  set (fs := map (fun e => fst (snd e)) init) in *.
  assert (Hfin : init_inv g (mk_part g init true) []).
  { unfold mk_part. apply fold_init_inv.
    - unfold init_inv, create_group, pos_tags. cbn [mb_fp mb_subs mb_pos tags_of map app].
      split; [reflexivity|]. split; [reflexivity|]. split; [apply nodupN_NoDup; assumption|].
      split; [intros f []|]. split.
      + intros f (tr & Hf & Hp). right. destruct (find_trait_fnum _ _ _ Hf) as [Hn Hin].
        rewrite forallb_forall in H3. specialize (H3 _ Hin). apply andb_true_iff in H3. destruct H3 as [_ H3].
        rewrite Hp in H3. cbn in H3. apply memN_In in H3. rewrite Hn in H3. exact H3.
      + unfold elems_sound. apply deep_unfold. cbn [mb_groups mb_subs]. apply deep_groups_sound.
    - intros f Hin. rewrite forallb_forall in H2. specialize (H2 _ Hin).
      destruct (find_trait (g_traits g) f); [eauto | discriminate]. }
  destruct Hfin as (Hst & Hsubs & Hnd & Hpres & Hpend & Hdeep). rewrite app_nil_r in Hnd.
  unfold part_inv. split; [assumption|]. split; [assumption|]. split.
  { intros f. left. apply (NoDup_count_occ N.eq_dec). assumption. }
  split; [|assumption].
  intros f. split; [apply Hpres|]. intros H. destruct (Hpend _ H) as [|[]]; assumption.
Qed.

(* ------------------------------------------------------------------ the setters of factory *)
Lemma tags_pos_set f v l : tags_of (pos_set f v l) = tags_of l.
Proof.
  induction l as [|[q [g w]] r IH]; cbn [pos_set tags_of map]; [reflexivity|].
  destruct (g =? f); cbn [tags_of map fst snd]; [reflexivity|]. f_equal. exact IH.
Qed.
Lemma part_sound_set_value g m f v : part_sound g m -> part_sound g (set_value m f v).
Proof.
  intros [Hinv Hm]. destruct m as [fp subs fields pos groups unk].
  unfold part_sound, part_inv, dup_free_but_data, pos_tags, set_value, elems_sound in *.
  cbn [mb_fp mb_subs mb_pos mb_fields with_pos with_fields] in *. rewrite tags_pos_set.
  cbn [deep] in *. auto.
Qed.

Lemma find_msg_In ms ty md : find_msg ms ty = Some md -> In md ms.
Proof.
  induction ms as [|x r IH]; cbn [find_msg]; [discriminate|].
  destruct (list_eqb (md_type x) ty); [intros H; injection H as <-; left; reflexivity | intros H; right; auto].
Qed.

(* ------------------------------------------------------------------ checksum (through C07's theorem) *)
From F8 Require Import C07.Chksum C07.Spec_C07 C07.ChksumProofs.

Lemma lenN_length {A} (l : list A) : lenN l = N.of_nat (length l).
Proof. induction l as [|x r IH]; cbn [lenN length]; [reflexivity|]. rewrite IH. lia. Qed.

Lemma firstN_firstn {A} (l : list A) : forall n, firstN n l = firstn (N.to_nat n) l.
Proof.
  induction l as [|x r IH]; intros n; cbn [firstN].
  - rewrite firstn_nil. reflexivity.
  - destruct (n =? 0) eqn:E.
    + apply N.eqb_eq in E. subst. reflexivity.
    + apply N.eqb_neq in E. replace (N.to_nat n) with (S (N.to_nat (n - 1))) by lia.
      cbn [firstn]. rewrite IH. reflexivity.
Qed.

Lemma bytesum_of_N l : bytesum (map Z.of_N l) = Z.of_N (sumN l).
Proof.
  induction l as [|x r IH]; cbn [map bytesum fold_right sumN]; [reflexivity|].
  unfold bytesum in IH. rewrite IH. unfold sumN. lia.
Qed.

Lemma bytes_ok_of_N l : bytes_small l = true -> bytes_ok (map Z.of_N (l ++ [0])) = true.
Proof.
  unfold bytes_small, bytes_ok. intros H. rewrite forallb_forall in *. intros z Hz.
  apply in_map_iff in Hz. destruct Hz as (b & <- & Hb). apply in_app_or in Hb.
  assert (Hlt : b < 256).
  { destruct Hb as [Hb|[<-|[]]]; [apply N.ltb_lt; auto | lia]. }
  apply andb_true_iff. split; [apply Z.leb_le | apply Z.ltb_lt]; lia.
Qed.

Lemma chk_value (from : list N) mchk h :
  bytes_small from = true -> 7 <= lenN from -> lenN from < 2147483648 ->
  calc_chksum (map Z.of_N (from ++ [0])) (Z.of_N (lenN from)) 0 (Z.of_N (lenN from) - 7) = Some (mchk, h) ->
  Z.to_N mchk = sumN (firstN (lenN from - 7) from) mod 256.
Proof.
  intros Hs H7 Hlt Hc.
  pose proof (c07_len_lemma (map Z.of_N (from ++ [0])) (Z.of_N (lenN from)) 0 (Z.of_N (lenN from) - 7)
                (bytes_ok_of_N _ Hs)) as HL.
  rewrite lenN_length in *.
  assert (Hlen : (Z.of_nat (length (map Z.of_N (from ++ [0%N]))) = Z.of_nat (length from) + 1)%Z).
  { rewrite map_length, app_length. cbn [length]. lia. }
  rewrite Hc in HL. unfold c07_ok in HL.
  assert (HL2 := HL ltac:(lia) ltac:(lia) ltac:(lia)).
  apply andb_true_iff in HL2. destruct HL2 as [HL' _].
  apply Z.eqb_eq in HL'. rewrite HL'. unfold c07_spec, range_len, sub.
  assert (Hne : (Z.of_N (N.of_nat (length from)) - 7 =? -1)%Z = false) by (apply Z.eqb_neq; lia).
  rewrite Hne. cbn [Z.to_nat skipn].
  rewrite firstn_map. rewrite firstn_app.
  replace (Z.to_nat (Z.of_N (N.of_nat (length from)) - 7) - length from)%nat with 0%nat by lia.
  cbn [firstn]. rewrite app_nil_r. rewrite bytesum_of_N.
  rewrite firstN_firstn.
  replace (N.to_nat (N.of_nat (length from) - 7)) with (Z.to_nat (Z.of_N (N.of_nat (length from)) - 7)) by lia.
  set (s := sumN _). rewrite <- (N2Z.id (s mod 256)). f_equal. rewrite N2Z.inj_mod. reflexivity.
Qed.

(* ------------------------------------------------------------------ Message::factory *)
Lemma mbase_decode_sound c cp from elem g m off ignore m' off' :
  wf_table c elem g = true -> part_inv g m ->
  mbase_decode c cp from m off ignore false = Ok (m', off') -> part_sound g m'.
Proof.
  intros Hwf Hinv H. unfold mbase_decode, mb_decode in H. eapply dec_loop_inv; eauto.
Qed.

Lemma wf_ctx_parts c : wf_ctx c = true ->
  wf_table c false (c_header c) = true /\ wf_table c false (c_trailer c) = true /\
  init_ok (c_header c) (c_hdr_init c) = true /\ init_ok (c_trailer c) (c_trl_init c) = true /\
  (forall md, In md (c_msgs c) -> wf_body c (md_meta md) = true).
Proof.
  unfold wf_ctx. intros H. repeat (apply andb_true_iff in H; destruct H as [H ?]).
  repeat split; try assumption. intros md Hin.
  match goal with Hf : forallb (fun md => wf_body c (md_meta md)) (c_msgs c) = true |- _ =>
    rewrite forallb_forall in Hf; apply Hf; assumption end.
Qed.

Lemma c04_accept_sound_lemma : forall c bytes m,
  wf_ctx c = true -> bytes_small bytes = true -> lenN bytes < 2147483648 ->
  strict_factory c bytes = Ok m ->
  chk_as_read bytes /\ msg_sound c m.
Proof.
  intros c bytes m Hwf Hsmall Hlen H.
  destruct (wf_ctx_parts c Hwf) as (Hwh & Hwt & Hih & Hit & Hwb).
  unfold strict_factory, factory in H.
  destruct (extract_header bytes (cap_htag real_caps) (cap_hval real_caps) (cap_len real_caps) (cap_mtype real_caps))
    as [[[hlen len] mtype]| | | |]; cbn [bind] in H; try discriminate.
  destruct (hlen =? 0); [discriminate|].
  destruct (find_msg (c_msgs c) (cstr mtype)) as [md|] eqn:Hmd; [|discriminate].
  pose proof (find_msg_In _ _ _ Hmd) as Hin.
  destruct (msg_decode c real_caps bytes (mk_message c md false) hlen 7 false) as [[msg1 tlen]| | | |] eqn:HD;
    cbn [bind] in H; try discriminate.
  unfold msg_decode in HD. cbn [mk_message m_hdr m_body m_trl m_type] in HD.
  destruct (mbase_decode c real_caps bytes (mk_part (c_header c) (c_hdr_init c) true) hlen 0 false)
    as [[h hl]| | | |] eqn:HH; cbn [bind] in HD; try discriminate.
  destruct (mbase_decode c real_caps bytes (create_group (md_meta md) false) hl 0 false)
    as [[b bl]| | | |] eqn:HB; cbn [bind] in HD; try discriminate.
  destruct (mbase_decode c real_caps bytes (mk_part (c_trailer c) (c_trl_init c) true) bl 7 false)
    as [[t tl]| | | |] eqn:HT; cbn [bind] in HD; try discriminate.
  injection HD as <- _.
  pose proof (mbase_decode_sound _ _ _ _ _ _ _ _ _ _ Hwh (part_init_inv _ _ _ Hwh Hih) HH) as Sh.
  assert (Hwbt : wf_table c false (md_meta md) = true).
  { specialize (Hwb _ Hin). unfold wf_body in Hwb. apply andb_true_iff in Hwb. apply Hwb. }
  pose proof (mbase_decode_sound _ _ _ _ _ _ _ _ _ _ Hwbt (body_init_inv _ _ (Hwb _ Hin)) HB) as Sb.
  pose proof (mbase_decode_sound _ _ _ _ _ _ _ _ _ _ Hwt (part_init_inv _ _ _ Hwt Hit) HT) as St.
  cbn [m_hdr m_body m_trl m_type] in H.
  destruct (lenN bytes <? 7) eqn:H7; [discriminate|]. apply N.ltb_ge in H7.
  destruct (negb (nthN bytes (lenN bytes - 7) =? 49) || negb (nthN bytes (lenN bytes - 7 + 1) =? 48)) eqn:H10;
    [discriminate|].
  apply orb_false_iff in H10. destruct H10 as [Ha Hb]. apply negb_false_iff in Ha, Hb.
  apply N.eqb_eq in Ha, Hb.
  destruct (calc_chksum (map Z.of_N (bytes ++ [0])) (Z.of_N (lenN bytes)) 0 (Z.of_N (lenN bytes) - 7))
    as [[mchk hull]|] eqn:Hc; [|discriminate].
  destruct (fast_atoi_u32 (firstN 3 (skipN (lenN bytes - 7 + 3) bytes)) =? Z.to_N mchk) eqn:Hck; [|discriminate].
  apply N.eqb_eq in Hck. injection H as <-.
  split.
  - unfold chk_as_read. cbv zeta. split; [assumption|]. split; [assumption|].
    replace (lenN bytes - 6) with (lenN bytes - 7 + 1) by lia. split; [assumption|].
    replace (lenN bytes - 4) with (lenN bytes - 7 + 3) by lia.
    rewrite Hck. eapply chk_value; eauto.
  - exists md. cbn [m_hdr m_body m_trl m_type]. split; [assumption|]. split; [reflexivity|].
    split; [apply part_sound_set_value; apply part_sound_set_value; assumption|].
    split; [assumption | apply part_sound_set_value; assumption].
Qed.
