(* C04: facts relating bytes to tokens -- decimal rendering of tags (itoa_N / fast_atoi),
   extract_element on a serialised token, and the "decoder stands at the token list ts" view
   [at_toks] of an offset into the input string.  (The first block repeats, with their proofs,
   the itoa_N lemmas of C02/DigitsProofs.v so that C04 does not depend on C02's proof files.) *)
From Coq Require Import NArith ZArith List Bool Lia.
From F8 Require Import Codec.Bytes Codec.Meta Codec.Extract Codec.Decode C04.Spec_C04 C04.Tokens.
Import ListNotations.
Local Open Scope N_scope.
Ltac Zify.zify_post_hook ::= Z.div_mod_to_equations.

(* ------------------------------------------------------------------ N-indexed list helpers *)
Lemma lenN_app {A} (a b : list A) : lenN (a ++ b) = lenN a + lenN b.
Proof. induction a as [|x a IH]; cbn [app lenN]; [reflexivity|rewrite IH; lia]. Qed.
Lemma lenN_len {A} (a : list A) : lenN a = N.of_nat (length a).
Proof. induction a as [|x a IH]; cbn [lenN length]; [reflexivity|rewrite IH; lia]. Qed.
Lemma lenN_cons {A} (x : A) a : lenN (x :: a) = lenN a + 1.
Proof. cbn [lenN]. lia. Qed.

Lemma skipN_app {A} (a b : list A) : skipN (lenN a) (a ++ b) = b.
Proof.
  induction a as [|x a IH]; cbn [app lenN].
  - destruct b; cbn [skipN]; reflexivity.
  - cbn [skipN]. destruct (N.succ (lenN a) =? 0) eqn:E; [apply N.eqb_eq in E; lia|].
    replace (N.succ (lenN a) - 1) with (lenN a) by lia. exact IH.
Qed.
Lemma firstN_app {A} (a b : list A) : firstN (lenN a) (a ++ b) = a.
Proof.
  induction a as [|x a IH]; cbn [app lenN].
  - destruct b; cbn [firstN]; reflexivity.
  - cbn [firstN]. destruct (N.succ (lenN a) =? 0) eqn:E; [apply N.eqb_eq in E; lia|].
    replace (N.succ (lenN a) - 1) with (lenN a) by lia. rewrite IH. reflexivity.
Qed.

(* ------------------------------------------------------------------ itoa_N *)
Definition all_digits (l : list N) : Prop := Forall (fun b => is_digit b = true) l.

Lemma is_digit_48 d : d < 10 -> is_digit (48 + d) = true.
Proof. intros. unfold is_digit. apply andb_true_intro; split; apply N.leb_le; lia. Qed.

Lemma digits_aux_acc : forall fuel n acc, digits_aux fuel n acc = digits_aux fuel n [] ++ acc.
Proof.
  induction fuel as [|fuel IH]; intros n acc; cbn [digits_aux]; [reflexivity|].
  destruct (n / 10 =? 0); [reflexivity|].
  rewrite (IH (n / 10) ((48 + n mod 10) :: acc)), (IH (n / 10) [48 + n mod 10]).
  rewrite <- app_assoc. reflexivity.
Qed.
Lemma digits_aux_mono : forall f1 n acc, n < 2 ^ N.of_nat f1 -> forall f2, (f1 <= f2)%nat ->
  digits_aux (S f2) n acc = digits_aux (S f1) n acc.
Proof.
  induction f1 as [|f1 IH]; intros n acc Hn f2 Hle.
  - change (2 ^ N.of_nat 0) with 1 in Hn. assert (n = 0) by lia. subst. reflexivity.
  - destruct f2 as [|f2]; [lia|]. cbn [digits_aux]. destruct (n / 10 =? 0) eqn:E; [reflexivity|].
    change (digits_aux (S f2) (n / 10) ((48 + n mod 10) :: acc) = digits_aux (S f1) (n / 10) ((48 + n mod 10) :: acc)).
    apply IH; [|lia]. rewrite Nat2N.inj_succ, N.pow_succ_r' in Hn. apply N.div_lt_upper_bound; lia.
Qed.
Lemma digits_aux_indep f1 f2 n acc : n < 2 ^ N.of_nat f1 -> n < 2 ^ N.of_nat f2 ->
  digits_aux (S f1) n acc = digits_aux (S f2) n acc.
Proof.
  intros H1 H2. destruct (Nat.le_ge_cases f1 f2).
  - symmetry. apply digits_aux_mono; assumption.
  - apply digits_aux_mono; assumption.
Qed.
Lemma size_bound n : n < 2 ^ N.of_nat (N.to_nat (N.size n)).
Proof. rewrite N2Nat.id. apply N.size_gt. Qed.

Lemma itoa_small n : n < 10 -> itoa_N n = [48 + n].
Proof.
  intros H. unfold itoa_N. cbn [digits_aux]. rewrite (N.div_small n 10) by assumption.
  cbn [N.eqb]. rewrite N.mod_small by assumption. reflexivity.
Qed.
Lemma itoa_step n : 10 <= n -> itoa_N n = itoa_N (n / 10) ++ [48 + n mod 10].
Proof.
  intros H. unfold itoa_N at 1. cbn [digits_aux].
  destruct (n / 10 =? 0) eqn:E.
  { apply N.eqb_eq in E. apply N.div_small_iff in E; lia. }
  rewrite digits_aux_acc. f_equal.
  pose proof (N.size_gt n) as Hs.
  destruct (N.size n) as [|p] eqn:Es.
  { change (2 ^ 0) with 1 in Hs. lia. }
  assert (Hq : n / 10 < 2 ^ N.of_nat (Pos.to_nat p - 1)).
  { replace (N.pos p) with (N.succ (N.of_nat (Pos.to_nat p - 1))) in Hs by lia.
    rewrite N.pow_succ_r' in Hs. apply N.div_lt_upper_bound; lia. }
  change (N.to_nat (N.pos p)) with (Pos.to_nat p).
  replace (Pos.to_nat p) with (S (Pos.to_nat p - 1)) at 1 by lia.
  unfold itoa_N. apply digits_aux_indep; [assumption|apply size_bound].
Qed.
Lemma N_div10_ind (P : N -> Prop) :
  (forall n, n < 10 -> P n) -> (forall n, 10 <= n -> P (n / 10) -> P n) -> forall n, P n.
Proof.
  intros Hs Hi n. induction n as [n IH] using (well_founded_induction N.lt_wf_0).
  destruct (N.lt_ge_cases n 10); [apply Hs; assumption|].
  apply Hi; [assumption|]. apply IH. apply N.div_lt; lia.
Qed.
Lemma itoa_digits n : all_digits (itoa_N n).
Proof.
  induction n as [n H|n H IH] using N_div10_ind.
  - rewrite itoa_small by assumption. constructor; [apply is_digit_48; assumption|constructor].
  - rewrite itoa_step by assumption. apply Forall_app. split; [assumption|].
    constructor; [apply is_digit_48; apply N.mod_lt; lia|constructor].
Qed.
Lemma itoa_nonempty n : itoa_N n <> [].
Proof.
  destruct (N.lt_ge_cases n 10); [rewrite itoa_small by assumption; discriminate|].
  rewrite itoa_step by assumption. intros Hc. apply app_eq_nil in Hc. destruct Hc; discriminate.
Qed.
(* at most one digit per bit, plus one *)
Lemma digits_aux_len : forall fuel n acc, lenN (digits_aux fuel n acc) <= N.of_nat fuel + lenN acc.
Proof.
  induction fuel as [|fuel IH]; intros n acc; cbn [digits_aux]; [lia|].
  destruct (n / 10 =? 0).
  - cbn [lenN]. lia.
  - specialize (IH (n / 10) ((48 + n mod 10) :: acc)). cbn [lenN] in IH. lia.
Qed.
Lemma itoa_len_small n : n < 65536 -> lenN (itoa_N n) <= 18.
Proof.
  intros H. unfold itoa_N. pose proof (digits_aux_len (S (N.to_nat (N.size n))) n []) as HL. cbn [lenN] in HL.
  assert (N.size n <= 16).
  { destruct (N.eq_dec n 0) as [->|Hne]; [cbn; lia|]. rewrite N.size_log2 by assumption.
    assert (N.log2 n < 16) by (apply N.log2_lt_pow2; [lia | change (2 ^ 16) with 65536; assumption]). lia. }
  lia.
Qed.

(* ------------------------------------------------------------------ fast_atoi on itoa_N *)
Lemma cstr_nonzero l : Forall (fun b => b <> 0) l -> cstr l = l.
Proof.
  induction l as [|x r IH]; intros H; cbn [cstr]; [reflexivity|].
  inversion H as [|? ? Hx Hr]; subst. destruct (x =? 0) eqn:E; [apply N.eqb_eq in E; congruence|].
  rewrite IH by assumption. reflexivity.
Qed.
Lemma digit_range b : is_digit b = true -> 48 <= b <= 57.
Proof. unfold is_digit. intros H. apply andb_true_iff in H. destruct H as [H1 H2]. apply N.leb_le in H1, H2. lia. Qed.
Lemma digits_nonzero l : all_digits l -> Forall (fun b => b <> 0) l.
Proof. intros H. eapply Forall_impl; [|exact H]. cbn beta. intros b Hb. apply digit_range in Hb. lia. Qed.

Lemma atoi_itoa (m : Z) n : (Z.of_N n < m)%Z ->
  fold_left (atoi_step m) (itoa_N n) 0%Z = Z.of_N n.
Proof.
  induction n as [n H|n H IH] using N_div10_ind; intros Hm.
  - rewrite itoa_small by assumption. cbn [fold_left]. unfold atoi_step, schar.
    destruct (48 + n <? 128) eqn:E; [|apply N.ltb_ge in E; lia].
    rewrite Z.mod_small; lia.
  - rewrite itoa_step by assumption. rewrite fold_left_app. cbn [fold_left].
    rewrite IH by (pose proof (N.div_mod n 10); lia).
    unfold atoi_step, schar. pose proof (N.mod_lt n 10 ltac:(lia)) as Hd.
    destruct (48 + n mod 10 <? 128) eqn:E; [|apply N.ltb_ge in E; lia].
    pose proof (N.div_mod n 10 ltac:(lia)) as Hdm.
    rewrite Z.mod_small; lia.
Qed.
Lemma atoi_u16_itoa n : n < 65536 -> fast_atoi_u16 (itoa_N n) = n.
Proof.
  intros H. unfold fast_atoi_u16, fast_atoi_mod, two16.
  rewrite cstr_nonzero by (apply digits_nonzero, itoa_digits). rewrite atoi_itoa by lia. lia.
Qed.
Lemma atoi_u32_itoa n : n < 4294967296 -> fast_atoi_u32 (itoa_N n) = n.
Proof.
  intros H. unfold fast_atoi_u32, fast_atoi_mod, two32.
  rewrite cstr_nonzero by (apply digits_nonzero, itoa_digits). rewrite atoi_itoa by lia. lia.
Qed.

(* ------------------------------------------------------------------ extract_element on a token *)
Definition no_soh (v : list N) : Prop := Forall (fun b => (b =? SOH) = false) v.

Lemma xe_val : forall v rest sz ii tag acc nt nv tcap vcap,
  no_soh v -> ii + lenN v < sz -> nv + lenN v < vcap -> nt < tcap ->
  xe_loop (v ++ SOH :: rest) sz ii true tag acc nt nv tcap vcap
  = XOk (rev tag) (rev acc ++ v) (ii + lenN v + 1).
Proof.
  induction v as [|x v IH]; intros rest sz ii tag acc nt nv tcap vcap Hv Hsz Hcap Ht; cbn [app lenN] in *.
  - cbn [xe_loop]. assert (E : (ii <? sz) = true) by (apply N.ltb_lt; lia). rewrite E.
    rewrite N.eqb_refl. unfold zero_write.
    assert (E1 : (nt <? tcap) = true) by (apply N.ltb_lt; lia).
    assert (E2 : (nv <? vcap) = true) by (apply N.ltb_lt; lia). rewrite E1, E2. cbn [negb].
    rewrite app_nil_r. f_equal. lia.
  - inversion Hv as [|? ? Hx Hv']; subst. cbn [xe_loop].
    assert (E : (ii <? sz) = true) by (apply N.ltb_lt; lia). rewrite E, Hx.
    assert (E2 : (nv + 1 <? vcap) = true) by (apply N.ltb_lt; lia). rewrite E2.
    rewrite IH by (try assumption; lia). cbn [rev]. rewrite <- app_assoc. cbn [app]. f_equal. lia.
Qed.

Lemma xe_tag : forall d v rest sz ii acc nt tcap vcap,
  all_digits d -> no_soh v -> ii + lenN d + 1 + lenN v < sz -> lenN v < vcap -> nt + lenN d < tcap ->
  xe_loop (d ++ EQC :: v ++ SOH :: rest) sz ii false acc [] nt 0 tcap vcap
  = XOk (rev acc ++ d) v (ii + lenN d + 1 + lenN v + 1).
Proof.
  induction d as [|x d IH]; intros v rest sz ii acc nt tcap vcap Hd Hv Hsz Hcv Hct; cbn [app lenN] in *.
  - cbn [xe_loop]. assert (E : (ii <? sz) = true) by (apply N.ltb_lt; lia). rewrite E.
    change (is_digit EQC) with false. cbn iota. rewrite N.eqb_refl.
    rewrite xe_val by (try assumption; lia). cbn [rev app]. rewrite app_nil_r. f_equal. lia.
  - inversion Hd as [|? ? Hx Hd']; subst. cbn [xe_loop].
    assert (E : (ii <? sz) = true) by (apply N.ltb_lt; lia). rewrite E, Hx.
    assert (E2 : (nt + 1 <? tcap) = true) by (apply N.ltb_lt; lia). rewrite E2.
    rewrite IH by (try assumption; lia). cbn [rev]. rewrite <- app_assoc. cbn [app]. f_equal. lia.
Qed.

(* a token the tokenising primitives read back: value without SOH, sizes within the buffers *)
Definition val_fits (vcap : N) (v : list N) : Prop := no_soh v /\ lenN v < vcap.

Lemma extract_ser_tok t rest sz tcap vcap :
  val_fits vcap (k_val t) -> lenN (itoa_N (k_tag t)) < tcap -> lenN (ser_tok t) <= sz ->
  extract_element (ser_tok t ++ rest) sz tcap vcap = XOk (itoa_N (k_tag t)) (k_val t) (lenN (ser_tok t)).
Proof.
  intros [Hv Hc] Ht Hsz. unfold extract_element, ser_tok in *.
  rewrite <- app_assoc. cbn [app]. rewrite <- app_assoc. cbn [app].
  rewrite !lenN_app in Hsz. cbn [lenN] in Hsz. rewrite lenN_app in Hsz. cbn [lenN] in Hsz.
  rewrite xe_tag; try assumption; try apply itoa_digits; try lia.
  cbn [rev app]. f_equal. rewrite !lenN_app. cbn [lenN]. rewrite lenN_app. cbn [lenN]. lia.
Qed.

Lemma lenN_ser_tok_pos t : 3 <= lenN (ser_tok t).
Proof.
  unfold ser_tok. rewrite lenN_app. cbn [lenN]. rewrite lenN_app. cbn [lenN].
  pose proof (itoa_nonempty (k_tag t)). destruct (itoa_N (k_tag t)); [congruence|]. cbn [lenN]. lia.
Qed.
Lemma ser_cons t r : ser (t :: r) = ser_tok t ++ ser r.
Proof. reflexivity. Qed.
Lemma ser_app a b : ser (a ++ b) = ser a ++ ser b.
Proof. unfold ser. apply flat_map_app. Qed.
