(* C04: kernel-checked witnesses (vm_compute on the model and the oracle). *)
From Coq Require Import NArith ZArith List Bool.
From F8 Require Import Codec.Bytes Codec.Meta Codec.Extract Codec.Decode Codec.Example
                       C04.Spec_C04 C04.Strict C04.Tokens C04.Example04 C04.Exact.
Import ListNotations.
Local Open Scope N_scope.

Definition accepted (c : ctx) (bytes : list N) : bool :=
  match strict_factory c bytes with Ok _ => true | _ => false end.
(* the oracle applied to the model's own result *)
Definition model_ok (c : ctx) (bytes : list N) : bool :=
  c04_ok c bytes (outcome_of c (strict_factory c bytes)).
Definition retained (c : ctx) (toks : list tok) : bool :=
  match strict_factory c (ser toks) with
  | Ok m => retains c toks (obs_of_msg c m)
  | _ => false
  end.
Definition tags_small (toks : list tok) : bool := forallb (fun t => k_tag t <? 65536) toks.
Definition tags_known (c : ctx) (toks : list tok) : bool :=
  forallb (fun t => match find_be (c_fields c) (k_tag t) with Some _ => true | None => false end) toks.

Lemma c04_retains_refuted_lemma :
  (* (a) unknown tag after the last mandatory field: accepted, 9998=x and 112=TESTID vanish *)
  (wf_ctx ex4_ctx = true /\ tokenize (ser toks_a) = Some toks_a /\ tags_small toks_a = true /\
   chk_ok (ser toks_a) = true /\ accepted ex4_ctx (ser toks_a) = true /\ retained ex4_ctx toks_a = false /\
   conforms ex4_ctx (ser toks_a) = false) /\
  (* (b) 65648 = 65536 + 112 is accepted as tag 112: all other tags are known and legal *)
  (tokenize (ser toks_b) = Some toks_b /\ tags_small toks_b = false /\
   chk_ok (ser toks_b) = true /\ accepted ex4_ctx (ser toks_b) = true /\ retained ex4_ctx toks_b = false /\
   conforms ex4_ctx (ser toks_b) = false) /\
  (* (c) the header-only tag 50 in the body: every tag is small and known to the schema *)
  (tokenize (ser toks_c) = Some toks_c /\ tags_small toks_c = true /\ tags_known ex4_ctx toks_c = true /\
   chk_ok (ser toks_c) = true /\ accepted ex4_ctx (ser toks_c) = true /\ retained ex4_ctx toks_c = false /\
   conforms ex4_ctx (ser toks_c) = false).
Proof. vm_compute. repeat split; reflexivity. Qed.

Lemma c04_nonvacuous_lemma :
  wf_ctx ex4_ctx = true /\ exact_hyps ex4_ctx toks_list = true /\ rendered ex4_ctx toks_list = true /\
  struct_verdict ex4_ctx toks_list = VConf /\ tokenize (ser toks_list) = Some toks_list /\
  conforms ex4_ctx (ser toks_list) = true /\ accepted ex4_ctx (ser toks_list) = true /\
  retained ex4_ctx toks_list = true /\ model_ok ex4_ctx (ser toks_list) = true.
Proof. vm_compute. repeat split; reflexivity. Qed.
