(* C29: the finite sweep of rotation counts 0..1100 on the instrumented model (a cross-check of
   the general theorems rotate_sem / rotate_orig_oob by plain evaluation): no count indexes
   outside the name vector; before the repair exactly the counts above 1024 did.  Kept in its own file: it evaluates 3 x 1101 rotations
   (a few seconds with the VM; about a minute under coqchk).  The sweep lemmas are stated with
   the forallb spelled out so that the kernel never has to unfold a definition around the big
   computation. *)
From Coq Require Import NArith Arith List Ascii Bool Lia.
From F8 Require Import C29.Rotate C29.Spec_C29.
Import ListNotations.
Local Open Scope char_scope.
Local Open Scope N_scope.

Definition is_oob (r : res) : bool := match r with OOB => true | _ => false end.

Definition counts (hi : nat) : list N := map N.of_nat (seq 0 hi).

Lemma in_counts : forall hi r, (N.to_nat r < hi)%nat -> In r (counts hi).
Proof.
  intros hi r H. unfold counts. apply in_map_iff. exists (N.to_nat r). split; [lia|].
  apply in_seq. lia.
Qed.

Lemma in_counts_1101 : forall r, r <= 1100 -> In r (counts 1101).
Proof. intros r H. apply in_counts. lia. Qed.

Lemma sweep_log_1101 :
  forallb (fun r => negb (is_oob (rotate ["l"; "o"; "g"] r false false false []))) (counts 1101) = true.
Proof. vm_cast_no_check (eq_refl true). Qed.

Lemma sweep_store_1101 :
  forallb (fun r => negb (is_oob (initialise ["d"; "b"] r true []))) (counts 1101) = true.
Proof. vm_cast_no_check (eq_refl true). Qed.

(* the routine before the repair a64fc7d: exactly the counts above the cap are out of bounds *)
Lemma sweep_log_orig_1101 :
  forallb (fun r => Bool.eqb (is_oob (rotate_orig ["l"; "o"; "g"] r false false false [])) (cap <? r))
          (counts 1101) = true.
Proof. vm_cast_no_check (eq_refl true). Qed.

Lemma is_oob_iff : forall r, is_oob r = true <-> r = OOB.
Proof. intros [d| |]; cbn; split; intros H; congruence. Qed.

Lemma sweep_log_lemma : forall r, r <= 1100 ->
  rotate ["l"; "o"; "g"] r false false false [] <> OOB.
Proof.
  intros r Hr E. pose proof (proj1 (forallb_forall _ _) sweep_log_1101 r (in_counts_1101 r Hr)) as H.
  cbv beta in H. apply is_oob_iff in E. rewrite E in H. discriminate H.
Qed.

Lemma sweep_store_lemma : forall r, r <= 1100 ->
  initialise ["d"; "b"] r true [] <> OOB.
Proof.
  intros r Hr E. pose proof (proj1 (forallb_forall _ _) sweep_store_1101 r (in_counts_1101 r Hr)) as H.
  cbv beta in H. apply is_oob_iff in E. rewrite E in H. discriminate H.
Qed.

Lemma sweep_log_orig_lemma : forall r, r <= 1100 ->
  (rotate_orig ["l"; "o"; "g"] r false false false [] = OOB <-> 1024 < r).
Proof.
  intros r Hr. pose proof (proj1 (forallb_forall _ _) sweep_log_orig_1101 r (in_counts_1101 r Hr)) as H.
  cbv beta in H. apply Bool.eqb_prop in H. rewrite <- is_oob_iff, H. unfold cap. apply N.ltb_lt.
Qed.
