(* C29 proofs, part 3: the executable oracle c29_ok holds on every run of the model, whatever
   the rotation count; the routines as they were before the repair a64fc7d die on every
   effective rotation with a count above the cap. *)
From Coq Require Import NArith Arith List Ascii Bool Lia.
From F8 Require Import C29.Rotate C29.Spec_C29 C29.RotateProofs C29.RotateTheorems.
Import ListNotations.
Local Open Scope char_scope.
Local Open Scope N_scope.

Lemma opt_eqb_refl : forall x, opt_eqb x x = true.
Proof. intros [c|]; cbn [opt_eqb]; [apply str_eqb_refl|reflexivity]. Qed.

Lemma shift_ok_of_chain : forall g n d d', chain g n d d' -> shift_ok g n d d' = true.
Proof.
  intros g n d d' Hch. unfold shift_ok. apply forallb_forall. intros k Hk.
  apply in_range1 in Hk. rewrite (Hch k Hk).
  destruct (lookup d (g (k - 1))) as [c|].
  - apply opt_eqb_refl.
  - destruct (k =? n).
    + rewrite opt_eqb_refl. cbn [andb]. apply orb_true_r.
    + reflexivity.
Qed.

Lemma cap_ok_of_frame : forall g n d d',
  (forall k, n < k -> lookup d' (g k) = lookup d (g k)) -> cap_ok g n d d' = true.
Proof.
  intros g n d d' H. unfold cap_ok. apply forallb_forall. intros j Hj.
  apply in_range1 in Hj. rewrite H by lia. destruct (lookup d (g (n + j))); reflexivity.
Qed.

Lemma untouched_ok_of_frame : forall own d d',
  (forall x, ~ In x own -> lookup d' x = lookup d x) -> untouched_ok own d d' = true.
Proof.
  intros own d d' H. unfold untouched_ok. apply forallb_forall. intros e _.
  destruct (existsb (str_eqb (fst e)) own) eqn:E; [reflexivity|].
  cbn [orb]. rewrite H; [apply opt_eqb_refl|].
  intros Hin. assert (existsb (str_eqb (fst e)) own = true); [|congruence].
  apply existsb_exists. exists (fst e). split; [exact Hin|apply str_eqb_refl].
Qed.

Lemma not_in_1 : forall (x a : str), ~ In x [a] -> x <> a.
Proof. intros x a H E. apply H. left. congruence. Qed.
Lemma not_in_2 : forall (x a b : str), ~ In x [a; b] -> x <> a /\ x <> b.
Proof. intros x a b H. split; intros E; apply H; [left|right; left]; congruence. Qed.

Lemma fresh_nil : forall d n, lookup d n = Some [] -> fresh d n = true.
Proof. intros d n H. unfold fresh. rewrite H. reflexivity. Qed.

(* ------------------------------------------------------------------ one step *)
Lemma step_rotate_ok : forall c force d,
  exists d', step c (OpRotate force) d = Ok d' /\ step_ok c (OpRotate force) d d' = true.
Proof.
  intros [name rotnum append compress] force d.
  cbn [step step_ok c_name c_rotnum c_append c_compress].
  change ((0 <? rotnum) && (negb append || force)) with (rotates rotnum append force).
  destruct (rotates rotnum append force) eqn:Hrot.
  - destruct (rotate_sem name rotnum append compress force d Hrot) as [d' [Hrun [Hfresh [Hch Hfr]]]].
    exists d'. split; [exact Hrun|].
    rewrite (shift_ok_of_chain _ _ _ _ Hch), (fresh_nil _ _ Hfresh). cbn [andb].
    rewrite cap_ok_of_frame.
    + cbn [andb]. apply untouched_ok_of_frame. intros x Hx. apply Hfr. intros k Hk E.
      apply Hx. apply in_family. exists k. auto.
    + intros k Hk. apply Hfr. intros j Hj E. apply gen_log_inj in E. lia.
  - rewrite (rotate_idle name rotnum append compress force d Hrot).
    eexists. split; [reflexivity|].
    apply andb_true_iff. split.
    + destruct append.
      * rewrite lookup_open_app, str_eqb_refl. apply opt_eqb_refl.
      * apply fresh_nil. rewrite lookup_open_trunc, str_eqb_refl. reflexivity.
    + apply untouched_ok_of_frame. intros x Hx. apply not_in_1 in Hx.
      destruct append; [rewrite lookup_open_app|rewrite lookup_open_trunc];
        rewrite (str_eqb_neq name x) by congruence; reflexivity.
Qed.

Lemma step_write_ok : forall c m d,
  exists d', step c (OpWrite m) d = Ok d' /\ step_ok c (OpWrite m) d d' = true.
Proof.
  intros c m d. cbn [step step_ok]. eexists. split; [reflexivity|].
  apply andb_true_iff. split.
  - unfold appended. rewrite lookup_append_to, str_eqb_refl. apply opt_eqb_refl.
  - apply untouched_ok_of_frame. intros x Hx. apply not_in_1 in Hx.
    rewrite lookup_append_to, (str_eqb_neq (c_name c) x) by congruence. reflexivity.
Qed.

Lemma step_storewrite_ok : forall c m d,
  exists d', step c (OpStoreWrite m) d = Ok d' /\ step_ok c (OpStoreWrite m) d d' = true.
Proof.
  intros c m d. cbn [step step_ok]. eexists. split; [reflexivity|].
  change ["."; "i"; "d"; "x"] with s_idx.
  pose proof (idx_name_neq (c_name c)) as Hne.
  repeat (apply andb_true_iff; split).
  - unfold appended. rewrite lookup_append_to, (str_eqb_neq _ _ (not_eq_sym Hne)).
    rewrite lookup_append_to, str_eqb_refl. apply opt_eqb_refl.
  - unfold appended. rewrite lookup_append_to, str_eqb_refl.
    rewrite lookup_append_to, (str_eqb_neq _ _ Hne). apply opt_eqb_refl.
  - apply untouched_ok_of_frame. intros x Hx. apply not_in_2 in Hx. destruct Hx as [H1 H2].
    rewrite !lookup_append_to, !str_eqb_neq by congruence. reflexivity.
Qed.

Lemma step_init_ok : forall c purge d,
  exists d', step c (OpInit purge) d = Ok d' /\ step_ok c (OpInit purge) d d' = true.
Proof.
  intros [name rotnum append compress] purge d.
  cbn [step step_ok c_name c_rotnum c_append c_compress].
  change ["."; "i"; "d"; "x"] with s_idx.
  pose proof (idx_name_neq name) as Hne.
  destruct purge.
  - destruct (0 <? rotnum) eqn:Hpos.
    + apply N.ltb_lt in Hpos.
      destruct (initialise_sem name rotnum d Hpos) as [d' [Hrun [Hf1 [Hf2 [Cd [Ci Hfr]]]]]].
      exists d'. split; [exact Hrun|].
      rewrite (shift_ok_of_chain _ _ _ _ Cd), (shift_ok_of_chain _ _ _ _ Ci),
              (fresh_nil _ _ Hf1), (fresh_nil _ _ Hf2). cbn [andb].
      rewrite !cap_ok_of_frame.
      * cbn [andb]. apply untouched_ok_of_frame. intros x Hx. apply Hfr. intros k Hk.
        split; intros E; apply Hx; apply in_or_app; [left|right]; apply in_family; exists k; auto.
      * intros k Hk. apply Hfr. intros j Hj. split; intros E.
        -- exact (gen_db_idx_disjoint name j k (eq_sym E)).
        -- apply gen_idx_inj in E. lia.
      * intros k Hk. apply Hfr. intros j Hj. split; intros E.
        -- apply gen_db_inj in E. lia.
        -- exact (gen_db_idx_disjoint name k j E).
    + unfold initialise, initialise_gen. rewrite orb_true_r. cbn [andb]. rewrite Hpos. cbn [res_map].
      eexists. split; [reflexivity|].
      repeat (apply andb_true_iff; split).
      * apply fresh_nil. rewrite lookup_open2, str_eqb_refl.
        destruct (str_eqb (name ++ s_idx)%list name); reflexivity.
      * apply fresh_nil. rewrite lookup_open2, str_eqb_refl. reflexivity.
      * apply untouched_ok_of_frame. intros x Hx. apply not_in_2 in Hx. destruct Hx as [H1 H2].
        rewrite lookup_open2, !str_eqb_neq by congruence. reflexivity.
  - unfold initialise, initialise_gen. destruct (lookup d name) as [c0|] eqn:Ed; cbn [orb andb res_map].
    + exists d. split; [reflexivity|].
      rewrite untouched_ok_of_frame by reflexivity. rewrite ?Ed, !opt_eqb_refl. reflexivity.
    + eexists. split; [reflexivity|].
      apply andb_true_iff. split.
      * apply untouched_ok_of_frame. intros x Hx. apply not_in_2 in Hx. destruct Hx as [H1 H2].
        rewrite lookup_open2, !str_eqb_neq by congruence. reflexivity.
      * apply orb_true_iff. right. rewrite ?Ed. cbn [is_none andb].
        apply andb_true_iff. split; apply fresh_nil; rewrite lookup_open2, str_eqb_refl.
        -- destruct (str_eqb (name ++ s_idx)%list name); reflexivity.
        -- reflexivity.
Qed.

Lemma step_ok_model : forall c o d,
  exists d', step c o d = Ok d' /\ step_ok c o d d' = true.
Proof.
  intros c [force|m|purge|m] d.
  - apply step_rotate_ok.
  - apply step_write_ok.
  - apply step_init_ok.
  - apply step_storewrite_ok.
Qed.

(* ------------------------------------------------------------------ whole runs *)
Theorem model_ok : forall c ops d,
  exists tr, run c ops d = Trace tr /\ c29_ok c d ops (Trace tr) = true.
Proof.
  intros c ops. induction ops as [|o ops IH]; intros d.
  - exists []. split; reflexivity.
  - destruct (step_ok_model c o d) as [d' [Hs Hok]].
    destruct (IH d') as [tr [Hr Htr]].
    exists (d' :: tr). cbn [run]. rewrite Hs, Hr. split; [reflexivity|].
    cbn [c29_ok steps_ok]. rewrite Hok. exact Htr.
Qed.
