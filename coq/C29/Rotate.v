(* C29 model: FileLogger::rotate (runtime/logger.cpp) and the purge branch of
   FilePersister::initialise (runtime/filepersist.cpp) acting on one directory.

   A directory is an association list  file name -> content  (looked up by name; [dset] and
   [dremove] keep at most one entry per name, but nothing below relies on that).
   [rename a b] is POSIX rename(2) with the error ignored, as the code does: nothing happens
   when [a] does not exist (or a = b), otherwise [b] is replaced by [a]'s file and [a] is gone.

   The two std::vector<string> name lists are INSTRUMENTED: a vector [vec] is a size plus an
   indexed store, push_back is [vpush], operator[] is [vget], which checks  i < size  exactly
   like libstdc++'s assertion; an index outside the vector yields the result [OOB] (what
   -D_GLIBCXX_ASSERTIONS turns into an abort on the real code).  The vector is filled by a loop
   bounded by  ii < _rotnum && ii < max_rotation  (so its size is 1 + min(rotnum,1024)) and,
   since the repair a64fc7d, the shifting loop runs  ii = size - 1 ... 1.  The routines as they
   were before the repair (loop  ii = _rotnum ... 1 : the uncapped count indexes rlst[ii]) are
   kept as [rotate_orig] / [initialise_orig] for the refutation theorem only.
   No proofs in this file. *)
From Coq Require Import NArith List Ascii Bool Decimal.
Import ListNotations.
Local Open Scope char_scope.
Local Open Scope N_scope.

(* File names and file contents are byte strings: lists of [ascii] (Coq's [string] type is
   avoided because its extracted name would shadow OCaml's). *)
Notation str := (list ascii).

Fixpoint str_eqb (a b : str) : bool :=
  match a, b with
  | [], [] => true
  | x :: a', y :: b' => Ascii.eqb x y && str_eqb a' b'
  | _, _ => false
  end.

(* ---------------------------------------------------------------- directory *)
Definition dir := list (str * str).

Fixpoint lookup (d : dir) (n : str) : option str :=
  match d with
  | [] => None
  | (k, c) :: t => if str_eqb k n then Some c else lookup t n
  end.

Definition dremove (n : str) (d : dir) : dir :=
  filter (fun e => negb (str_eqb (fst e) n)) d.

Definition dset (n c : str) (d : dir) : dir := (n, c) :: dremove n d.

(* rename(2), return value ignored *)
Definition rename (a b : str) (d : dir) : dir :=
  match lookup d a with
  | None => d                                   (* ENOENT: ignored *)
  | Some c => if str_eqb a b then d else dset b c (dremove a d)
  end.

(* open(..., O_CREAT|O_TRUNC) / ofstream(ios_base::out): the file exists and is empty *)
Definition open_trunc (n : str) (d : dir) : dir := dset n [] d.

(* ofstream(ios_base::out|ios_base::app): created empty if missing, else kept *)
Definition open_app (n : str) (d : dir) : dir :=
  match lookup d n with Some _ => d | None => dset n [] d end.

(* write [m] at the end of file [n] (through a stream positioned at the end / O_APPEND) *)
Definition append_to (n m : str) (d : dir) : dir :=
  dset n ((match lookup d n with Some c => c | None => [] end) ++ m) d.

(* ---------------------------------------------------------------- names *)
(* ostream << unsigned : decimal, no leading zeros, "C" locale *)
Fixpoint chars_of_uint (u : uint) : str :=
  match u with
  | Nil => []
  | D0 u' => "0" :: chars_of_uint u' | D1 u' => "1" :: chars_of_uint u'
  | D2 u' => "2" :: chars_of_uint u' | D3 u' => "3" :: chars_of_uint u'
  | D4 u' => "4" :: chars_of_uint u' | D5 u' => "5" :: chars_of_uint u'
  | D6 u' => "6" :: chars_of_uint u' | D7 u' => "7" :: chars_of_uint u'
  | D8 u' => "8" :: chars_of_uint u' | D9 u' => "9" :: chars_of_uint u'
  end.
Definition dec (k : N) : str := chars_of_uint (N.to_uint k).

Definition s_dot : str := ["."].
Definition s_gz : str := ["."; "g"; "z"].
Definition s_idx : str := ["."; "i"; "d"; "x"].

Definition max_rotation : N := 1024.           (* Logger::max_rotation, include/fix8/logger.hpp *)

(* ostr << _pathname << '.' << (ii + 1); if (_flags & compress) ostr << ".gz"; *)
Definition log_gen_name (name : str) (compress : bool) (k : N) : str :=
  name ++ s_dot ++ dec k ++ (if compress then s_gz else []).

(* ostr << _dbFname << '.' << (ii + 1);   and then   ostr << ".idx" *)
Definition db_gen_name (name : str) (k : N) : str := name ++ s_dot ++ dec k.
Definition idx_gen_name (name : str) (k : N) : str := db_gen_name name k ++ s_idx.

(* ---------------------------------------------------------------- instrumented vector *)
(* std::vector<std::string>: its size and its elements (a binary trie indexed by i + 1, so
   that an access costs log(size) steps when the model is evaluated) *)
Inductive tree : Type := Leaf | Node (l : tree) (o : option str) (r : tree).

Fixpoint tget (t : tree) (p : positive) : option str :=
  match t with
  | Leaf => None
  | Node l o r => match p with xH => o | xO q => tget l q | xI q => tget r q end
  end.

Fixpoint tset (t : tree) (p : positive) (x : str) : tree :=
  match t, p with
  | Leaf, xH => Node Leaf (Some x) Leaf
  | Leaf, xO q => Node (tset Leaf q x) None Leaf
  | Leaf, xI q => Node Leaf None (tset Leaf q x)
  | Node l o r, xH => Node l (Some x) r
  | Node l o r, xO q => Node (tset l q x) o r
  | Node l o r, xI q => Node l o (tset r q x)
  end.

Record vec : Type := mkvec { vlen : N; vtree : tree }.

Definition vempty : vec := mkvec 0 Leaf.

(* push_back *)
Definition vpush (v : vec) (x : str) : vec :=
  mkvec (vlen v + 1) (tset (vtree v) (N.succ_pos (vlen v)) x).

(* operator[] with the bounds assertion  __n < this->size()  *)
Definition vget (v : vec) (i : N) : option str :=
  if i <? vlen v then tget (vtree v) (N.succ_pos i) else None.

(* for (unsigned ii(0); ii < _rotnum && ii < max_rotation; ++ii) lst.push_back(mk (ii + 1));
   The loop body runs at most max_rotation times; fuel = max_rotation + 1 is never exhausted
   (the result None is excluded by a lemma). *)
Fixpoint names_loop (fuel : nat) (mk : N -> str) (rotnum ii : N) (acc : vec) : option vec :=
  if (ii <? rotnum) && (ii <? max_rotation) then
    match fuel with
    | O => None
    | S f => names_loop f mk rotnum (ii + 1) (vpush acc (mk (ii + 1)))
    end
  else Some acc.

Definition names_fuel : nat := S (N.to_nat max_rotation).

(* vector contents after the push_back loop; first element pushed before the loop *)
Definition build_names (first : str) (mk : N -> str) (rotnum : N) : option vec :=
  names_loop names_fuel mk rotnum 0 (vpush vempty first).

Inductive res : Type :=
| Ok (d : dir)
| OOB                 (* operator[] outside the vector *)
| OutOfFuel.          (* never produced (fuel lemma) *)

(* for (unsigned ii(_rotnum); ii; --ii) rename (rlst[ii - 1].c_str(), rlst[ii].c_str());
   Every iteration either stops with OOB or decrements ii below the vector's length, so
   fuel = size of the vector is enough whatever the count. *)
Fixpoint shift_loop (fuel : nat) (rlst : vec) (ii : N) (d : dir) : res :=
  if ii =? 0 then Ok d else
  match fuel with
  | O => OutOfFuel
  | S f =>
    match vget rlst (ii - 1), vget rlst ii with
    | Some a, Some b => shift_loop f rlst (ii - 1) (rename a b d)
    | _, _ => OOB
    end
  end.

(* the persister's loop: two vectors, two renames per iteration *)
Fixpoint shift_loop2 (fuel : nat) (dblst idxlst : vec) (ii : N) (d : dir) : res :=
  if ii =? 0 then Ok d else
  match fuel with
  | O => OutOfFuel
  | S f =>
    match vget dblst (ii - 1), vget dblst ii, vget idxlst (ii - 1), vget idxlst ii with
    | Some a, Some b, Some a', Some b' =>
        shift_loop2 f dblst idxlst (ii - 1) (rename a' b' (rename a b d))
    | _, _, _, _ => OOB
    end
  end.

Definition res_map (f : dir -> dir) (r : res) : res :=
  match r with Ok d => Ok (f d) | e => e end.

(* ---------------------------------------------------------------- FileLogger::rotate *)
(* HAVE_COMPRESSION is not defined in this build (f8config.h defines FIX8_HAVE_COMPRESSION,
   logger.cpp tests the unprefixed name), so thislFile stays _pathname and a plain ofstream is
   opened, while the generation names do get the ".gz" suffix when the compress flag is set. *)
Definition rotate_gen (orig : bool) (name : str) (rotnum : N) (append compress force : bool) (d : dir) : res :=
  let thisl := name in
  let shifted :=
    if (0 <? rotnum) && (negb append || force) then
      match build_names thisl (log_gen_name name compress) rotnum with
      | None => OutOfFuel
      | Some rlst =>
          (* for (unsigned ii(rlst.size() - 1); ii; --ii)      before a64fc7d: ii(_rotnum) *)
          shift_loop (N.to_nat (vlen rlst)) rlst (if orig then rotnum else vlen rlst - 1) d
      end
    else Ok d in
  res_map (if append then open_app thisl else open_trunc thisl) shifted.

Definition rotate := rotate_gen false.
Definition rotate_orig := rotate_gen true.

(* ---------------------------------------------------------------- FilePersister::initialise *)
(* directory effect only; dbFname = name, dbIname = name.idx *)
Definition initialise_gen (orig : bool) (name : str) (rotnum : N) (purge : bool) (d : dir) : res :=
  let dbf := name in
  let dbi := name ++ s_idx in
  let nof := match lookup d dbf with None => true | Some _ => false end in
  if nof || purge then
    let shifted :=
      if purge && (0 <? rotnum) then
        match build_names dbf (db_gen_name name) rotnum, build_names dbi (idx_gen_name name) rotnum with
        | Some dblst, Some idxlst =>
            (* for (unsigned ii(dblst.size() - 1); ii; --ii)   before a64fc7d: ii(_rotnum) *)
            shift_loop2 (N.to_nat (vlen dblst)) dblst idxlst (if orig then rotnum else vlen dblst - 1) d
        | _, _ => OutOfFuel
        end
      else Ok d in
    res_map (fun d' => open_trunc dbi (open_trunc dbf d')) shifted
  else Ok d.        (* existing store opened read/write without O_CREAT: nothing changes *)

Definition initialise := initialise_gen false.
Definition initialise_orig := initialise_gen true.

(* ---------------------------------------------------------------- case runner *)
Inductive op : Type :=
| OpRotate (force : bool)        (* FileLogger ctor = OpRotate false; rotate(force) *)
| OpWrite (m : str)           (* marker written through the logger's stream *)
| OpInit (purge : bool)          (* FilePersister(rotnum).initialise(dir, name, purge) *)
| OpStoreWrite (m : str).     (* marker appended to name and name.idx (by the test) *)

Record cfg : Type := mkcfg {
  c_name : str; c_rotnum : N; c_append : bool; c_compress : bool }.

Definition step (c : cfg) (o : op) (d : dir) : res :=
  match o with
  | OpRotate force => rotate (c_name c) (c_rotnum c) (c_append c) (c_compress c) force d
  | OpWrite m => Ok (append_to (c_name c) m d)
  | OpInit purge => initialise (c_name c) (c_rotnum c) purge d
  | OpStoreWrite m => Ok (append_to (c_name c ++ s_idx) m (append_to (c_name c) m d))
  end.

(* directories after each op, or the way the process ended *)
Inductive outcome : Type :=
| Trace (tr : list dir)
| Died            (* a vector index out of bounds (abort under -D_GLIBCXX_ASSERTIONS) *)
| NoFuel.         (* never produced *)

Fixpoint run (c : cfg) (ops : list op) (d : dir) : outcome :=
  match ops with
  | [] => Trace []
  | o :: t =>
    match step c o d with
    | Ok d' => match run c t d' with Trace tr => Trace (d' :: tr) | e => e end
    | OOB => Died
    | OutOfFuel => NoFuel
    end
  end.
