(* C29 proofs, part 2: FileLogger::rotate and FilePersister::initialise as a whole, the
   out-of-bounds counts, and the executable oracle on every run of the model. *)
From Coq Require Import NArith Arith List Ascii Bool Lia.
From F8 Require Import C29.Rotate C29.Spec_C29 C29.RotateProofs.
Import ListNotations.
Local Open Scope char_scope.
Local Open Scope N_scope.

Lemma kept_le : forall rotnum, rotnum <= cap -> kept rotnum = rotnum.
Proof. intros. unfold kept. apply N.min_l. assumption. Qed.

Lemma gen_log_0 : forall name compress, gen_log name compress 0 = name.
Proof. reflexivity. Qed.
Lemma gen_db_0 : forall name, gen_db name 0 = name.
Proof. reflexivity. Qed.
Lemma gen_idx_0 : forall name, gen_idx name 0 = (name ++ s_idx)%list.
Proof. reflexivity. Qed.

Lemma firstn_full : forall (l : list str) k, k = length l -> firstn k l = l.
Proof. intros l k ->. apply firstn_all. Qed.

(* the post-condition of the shifting loop, for a family g and count n = rotnum *)
Definition chain (g : N -> str) (n : N) (d d' : dir) : Prop :=
  forall k, 1 <= k <= n ->
    lookup d' (g k) = match lookup d (g (k - 1)) with
                      | Some c => Some c
                      | None => if k =? n then lookup d (g k) else None
                      end.

Lemma shifted_chain : forall (g : N -> str) n d d',
  shifted (map g (range0 n)) (N.to_nat n) d d' -> chain g n d d'.
Proof.
  intros g n d d' [_ [Hsh _]] k Hk.
  rewrite (Hsh (N.to_nat k) (g (k - 1)) (g k)).
  - destruct (lookup d (g (k - 1))); [reflexivity|].
    destruct (N.eqb_spec k n) as [->|Hne].
    + rewrite Nat.eqb_refl. reflexivity.
    + replace (N.to_nat k =? N.to_nat n)%nat with false by (symmetry; apply Nat.eqb_neq; lia). reflexivity.
  - lia.
  - rewrite nth_error_range0 by lia. f_equal. f_equal. lia.
  - rewrite nth_error_range0 by lia. f_equal. f_equal. lia.
Qed.

Lemma shifted_zero : forall (g : N -> str) n d d',
  0 < n -> shifted (map g (range0 n)) (N.to_nat n) d d' -> lookup d' (g 0) = None.
Proof.
  intros g n d d' Hn [_ [_ Hz]]. apply Hz; [lia|].
  rewrite nth_error_range0 by lia. reflexivity.
Qed.

Lemma shifted_frame : forall (g : N -> str) n d d' x,
  shifted (map g (range0 n)) (N.to_nat n) d d' ->
  (forall k, k <= n -> x <> g k) -> lookup d' x = lookup d x.
Proof.
  intros g n d d' x [Hun _] Hx. apply Hun.
  rewrite firstn_full by (rewrite map_length, range0_length; reflexivity).
  intros Hin. apply in_family in Hin. destruct Hin as [k [Hk ->]]. exact (Hx k Hk eq_refl).
Qed.

(* ------------------------------------------------------------------ FileLogger::rotate *)
Definition rotates (rotnum : N) (append force : bool) : bool :=
  (0 <? rotnum) && (negb append || force).

Lemma rotate_sem : forall name rotnum append compress force d,
  rotates rotnum append force = true ->
  exists d', rotate name rotnum append compress force d = Ok d' /\
    lookup d' name = Some [] /\
    chain (gen_log name compress) (kept rotnum) d d' /\
    (forall x, (forall k, k <= kept rotnum -> x <> gen_log name compress k) -> lookup d' x = lookup d x).
Proof.
  intros name rotnum append compress force d Hrot.
  unfold rotates in Hrot. unfold rotate, rotate_gen. rewrite Hrot.
  apply andb_true_iff in Hrot. destruct Hrot as [Hpos _]. apply N.ltb_lt in Hpos.
  destruct (log_names name compress rotnum) as [v [Hbuild Hrep]].
  rewrite Hbuild.
  assert (Hn : 0 < kept rotnum) by (unfold kept, cap; lia).
  set (n := kept rotnum) in *.
  set (g := gen_log name compress) in *. set (l := map g (range0 n)) in *.
  assert (Hlen : length l = S (N.to_nat n)) by (unfold l; rewrite map_length, range0_length; reflexivity).
  replace (vlen v - 1) with n by (destruct Hrep as [Hl _]; rewrite Hl, Hlen; lia).
  rewrite (shift_loop_vrep v l Hrep), (vrep_fuel v l Hrep).
  destruct (shift_loop_ok l (NoDup_family g n (gen_log_inj name compress))
                          (N.to_nat n) (length l) d) as [d1 [Hrun Hsh]]; [lia|lia|].
  rewrite N2Nat.id in Hrun. rewrite Hrun. cbn [res_map].
  pose proof (shifted_zero g n d d1 Hn Hsh) as Hz. change (g 0) with name in Hz.
  pose proof (shifted_chain g n d d1 Hsh) as Hch.
  assert (Hopen : forall x, x <> name ->
            lookup ((if append then open_app name else open_trunc name) d1) x = lookup d1 x).
  { intros x Hx. destruct append; [rewrite lookup_open_app|rewrite lookup_open_trunc];
      rewrite (str_eqb_neq name x) by congruence; reflexivity. }
  eexists. split; [reflexivity|]. split; [|split].
  - destruct append; [rewrite lookup_open_app, str_eqb_refl, Hz|rewrite lookup_open_trunc, str_eqb_refl]; reflexivity.
  - intros k Hk. rewrite Hopen; [apply Hch; exact Hk|].
    intros E. change name with (g 0) in E. apply gen_log_inj in E. lia.
  - intros x Hx. rewrite Hopen.
    + eapply shifted_frame; eauto.
    + apply (Hx 0). lia.
Qed.

(* not rotated: the zero-generation log is restarted, the append-mode log is kept *)
Lemma rotate_idle : forall name rotnum append compress force d,
  rotates rotnum append force = false ->
  rotate name rotnum append compress force d =
  Ok ((if append then open_app name else open_trunc name) d).
Proof.
  intros. unfold rotates in H. unfold rotate, rotate_gen. rewrite H. reflexivity.
Qed.

(* the routine before the repair a64fc7d: every count above the cap indexes outside the vector *)
Lemma rotate_orig_oob : forall name rotnum append compress force d,
  cap < rotnum -> rotates rotnum append force = true ->
  rotate_orig name rotnum append compress force d = OOB.
Proof.
  intros name rotnum append compress force d Hcap Hrot.
  unfold rotates in Hrot. unfold rotate_orig, rotate_gen. rewrite Hrot.
  destruct (log_names name compress rotnum) as [v [Hbuild Hrep]]. rewrite Hbuild.
  rewrite (shift_loop_vrep v _ Hrep), (vrep_fuel v _ Hrep).
  rewrite shift_loop_oob; [reflexivity| | |].
  - rewrite map_length, range0_length. unfold kept, cap in *. lia.
  - unfold cap in *. lia.
  - rewrite map_length, range0_length. lia.
Qed.

(* ------------------------------------------------------------------ FilePersister::initialise *)
Lemma idx_name_neq : forall name, name <> (name ++ s_idx)%list.
Proof. intros name H. apply app_self_nil in H. discriminate H. Qed.

Lemma lookup_open2 : forall name d x,
  lookup (open_trunc (name ++ s_idx)%list (open_trunc name d)) x =
  if str_eqb (name ++ s_idx)%list x then Some []
  else if str_eqb name x then Some [] else lookup d x.
Proof. intros. rewrite !lookup_open_trunc. reflexivity. Qed.

Lemma initialise_sem : forall name rotnum d,
  0 < rotnum ->
  exists d', initialise name rotnum true d = Ok d' /\
    lookup d' name = Some [] /\ lookup d' (name ++ s_idx)%list = Some [] /\
    chain (gen_db name) (kept rotnum) d d' /\ chain (gen_idx name) (kept rotnum) d d' /\
    (forall x, (forall k, k <= kept rotnum -> x <> gen_db name k /\ x <> gen_idx name k) -> lookup d' x = lookup d x).
Proof.
  intros name rotnum d Hpos.
  unfold initialise, initialise_gen. rewrite orb_true_r. cbn [andb].
  replace (0 <? rotnum) with true by (symmetry; apply N.ltb_lt; exact Hpos).
  destruct (db_names name rotnum) as [vd [Hbd Hrd]]. destruct (idx_names name rotnum) as [vi [Hbi Hri]].
  rewrite Hbd, Hbi.
  assert (Hn : 0 < kept rotnum) by (unfold kept, cap; lia).
  set (n := kept rotnum) in *.
  set (gd := gen_db name) in *. set (gi := gen_idx name) in *.
  set (dbl := map gd (range0 n)) in *. set (idl := map gi (range0 n)) in *.
  assert (Hld : length dbl = S (N.to_nat n)) by (unfold dbl; rewrite map_length, range0_length; reflexivity).
  assert (Hli : length idl = S (N.to_nat n)) by (unfold idl; rewrite map_length, range0_length; reflexivity).
  replace (vlen vd - 1) with n by (destruct Hrd as [Hl _]; rewrite Hl, Hld; lia).
  rewrite (shift_loop2_vrep vd dbl vi idl Hrd Hri), (vrep_fuel vd dbl Hrd).
  assert (Hdisj : forall x, In x dbl -> ~ In x idl).
  { intros x H1 H2. apply in_family in H1. apply in_family in H2.
    destruct H1 as [j [_ ->]]. destruct H2 as [k [_ E]]. exact (gen_db_idx_disjoint name j k E). }
  destruct (shift_loop2_decomp dbl idl (eq_trans Hld (eq_sym Hli)) Hdisj (N.to_nat n) (length dbl) d d)
    as [r [r1 [r2 [Hrun [H1 [H2 Hr]]]]]]; [lia|lia|apply deq_refl|].
  rewrite N2Nat.id in Hrun. rewrite Hrun. cbn [res_map].
  (* the two single loops *)
  destruct (shift_loop_ok dbl (NoDup_family gd n (gen_db_inj name)) (N.to_nat n) (length dbl) d)
    as [r1' [H1' S1]]; [lia|lia|]. rewrite H1 in H1'. inversion H1'; subst r1'. clear H1'.
  destruct (shift_loop_ok idl (NoDup_family gi n (gen_idx_inj name)) (N.to_nat n) (length dbl) r1)
    as [r2' [H2' S2]]; [lia|lia|]. rewrite H2 in H2'. inversion H2'; subst r2'. clear H2'.
  (* frames: the data loop leaves index names alone and vice versa *)
  assert (F1 : forall k, lookup r1 (gi k) = lookup d (gi k)).
  { intros k. eapply shifted_frame; [exact S1|]. intros j _ E. exact (gen_db_idx_disjoint name j k (eq_sym E)). }
  assert (F2 : forall k, lookup r2 (gd k) = lookup r1 (gd k)).
  { intros k. eapply shifted_frame; [exact S2|]. intros j _ E. exact (gen_db_idx_disjoint name k j E). }
  assert (Cd : chain gd n d r).
  { intros k Hk. rewrite Hr, F2. apply (shifted_chain gd n d r1 S1 k Hk). }
  assert (Ci : chain gi n d r).
  { intros k Hk. rewrite Hr. rewrite (shifted_chain gi n r1 r2 S2 k Hk), !F1. reflexivity. }
  assert (Hopen : forall x, x <> name -> x <> (name ++ s_idx)%list ->
            lookup (open_trunc (name ++ s_idx)%list (open_trunc name r)) x = lookup r x).
  { intros x N1 N2. rewrite lookup_open2, !str_eqb_neq by congruence. reflexivity. }
  eexists. split; [reflexivity|]. split; [|split; [|split; [|split]]].
  - rewrite lookup_open2, str_eqb_refl.
    destruct (str_eqb (name ++ s_idx)%list name); reflexivity.
  - rewrite lookup_open2, str_eqb_refl. reflexivity.
  - intros k Hk. rewrite Hopen; [apply Cd; exact Hk| |].
    + intros E. change name with (gd 0) in E. apply gen_db_inj in E. lia.
    + intros E. exact (gen_db_idx_disjoint name k 0 E).
  - intros k Hk. rewrite Hopen; [apply Ci; exact Hk| |].
    + intros E. exact (gen_db_idx_disjoint name 0 k (eq_sym E)).
    + intros E. change (name ++ s_idx)%list with (gi 0) in E. apply gen_idx_inj in E. lia.
  - intros x Hx. rewrite Hopen.
    + rewrite Hr.
      transitivity (lookup r1 x).
      * eapply shifted_frame; [exact S2|]. intros k Hk. apply (Hx k Hk).
      * eapply shifted_frame; [exact S1|]. intros k Hk. apply (Hx k Hk).
    + apply (Hx 0). lia.
    + apply (Hx 0). lia.
Qed.

Lemma initialise_orig_oob : forall name rotnum d,
  cap < rotnum -> initialise_orig name rotnum true d = OOB.
Proof.
  intros name rotnum d Hcap. unfold initialise_orig, initialise_gen. rewrite orb_true_r. cbn [andb].
  replace (0 <? rotnum) with true by (symmetry; apply N.ltb_lt; unfold cap in *; lia).
  destruct (db_names name rotnum) as [vd [Hbd Hrd]]. destruct (idx_names name rotnum) as [vi [Hbi Hri]].
  rewrite Hbd, Hbi. rewrite (shift_loop2_vrep vd _ vi _ Hrd Hri), (vrep_fuel vd _ Hrd).
  rewrite shift_loop2_oob; [reflexivity| | |].
  - rewrite map_length, range0_length. unfold kept, cap in *. lia.
  - unfold cap in *. lia.
  - rewrite map_length, range0_length. lia.
Qed.
