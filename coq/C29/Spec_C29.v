(* Property C29 as an executable predicate on observables: the directory before an
   operation and the directory after it.  Written from the property text, not from the model
   (it shares only the directory type, its lookup, the decimal notation and the op/cfg types):

     "rotating a log file (or purging a file store with rotation) shifts the existing
      generations so that name.k holds what name.(k-1) held, keeps at most the configured
      number (capped at the documented maximum) and never touches other files; append-mode
      logs are not rotated unless forced.  Rotation never reads or writes outside its own
      bookkeeping whatever the configured count."

   The same function is applied (after extraction) to the implementation's observed
   directory listings and to the model's. *)
From Coq Require Import NArith List Ascii Bool.
From F8 Require Import C29.Rotate.
Import ListNotations.
Local Open Scope char_scope.
Local Open Scope N_scope.

Definition cap : N := 1024.                          (* the documented maximum *)
Definition kept (rotnum : N) : N := N.min rotnum cap.

(* generation families: generation 0 is the live file *)
Definition gen_log (name : str) (compress : bool) (k : N) : str :=
  if k =? 0 then name else name ++ ["."] ++ dec k ++ (if compress then ["."; "g"; "z"] else []).
Definition gen_db (name : str) (k : N) : str :=
  if k =? 0 then name else name ++ ["."] ++ dec k.
Definition gen_idx (name : str) (k : N) : str := gen_db name k ++ ["."; "i"; "d"; "x"].

Definition opt_eqb (a b : option str) : bool :=
  match a, b with
  | Some x, Some y => str_eqb x y
  | None, None => true
  | _, _ => false
  end.
Definition is_none (a : option str) : bool := match a with None => true | Some _ => false end.

Definition range1 (n : N) : list N := map N.of_nat (seq 1 (N.to_nat n)).     (* 1 .. n *)
Definition range0 (n : N) : list N := 0 :: range1 n.                          (* 0 .. n *)

(* generations shifted: for 1 <= k <= n, what generation k-1 held is now in generation k; a
   missing generation k-1 leaves a hole at k -- except that the oldest kept generation (k = n)
   may simply survive when nothing is shifted onto it *)
Definition shift_ok (gen : N -> str) (n : N) (before after : dir) : bool :=
  forallb (fun k =>
    match lookup before (gen (k - 1)) with
    | Some c => opt_eqb (lookup after (gen k)) (Some c)
    | None => is_none (lookup after (gen k))
              || ((k =? n) && opt_eqb (lookup after (gen k)) (lookup before (gen k)))
    end) (range1 n).

(* at most n kept: no generation beyond the n-th comes into existence (checked on a window of
   [cap_window] names beyond n; the theorem c29_cap is for every k > n) *)
Definition cap_window : N := 8.
Definition cap_ok (gen : N -> str) (n : N) (before after : dir) : bool :=
  forallb (fun j => implb (is_none (lookup before (gen (n + j)))) (is_none (lookup after (gen (n + j)))))
          (range1 cap_window).

(* the live file is fresh (exists, empty) *)
Definition fresh (after : dir) (n : str) : bool := opt_eqb (lookup after n) (Some []).

(* every name seen before or after that is not one of the operation's own names keeps its content *)
Definition untouched_ok (own : list str) (before after : dir) : bool :=
  forallb (fun e => existsb (str_eqb (fst e)) own
                    || opt_eqb (lookup after (fst e)) (lookup before (fst e)))
          (before ++ after).

Definition appended (before after : dir) (n m : str) : bool :=
  opt_eqb (lookup after n)
          (Some ((match lookup before n with Some c => c | None => [] end) ++ m)).

Definition step_ok (c : cfg) (o : op) (before after : dir) : bool :=
  let name := c_name c in
  let n := kept (c_rotnum c) in
  match o with
  | OpRotate force =>
      if (0 <? c_rotnum c) && (negb (c_append c) || force) then
        let gen := gen_log name (c_compress c) in
        shift_ok gen n before after && fresh after name && cap_ok gen n before after
        && untouched_ok (map gen (range0 n)) before after
      else
        (* not rotated: an append-mode log keeps its content (created if missing); a log
           with zero generations is simply restarted *)
        (if c_append c
         then opt_eqb (lookup after name)
                      (match lookup before name with Some x => Some x | None => Some [] end)
         else fresh after name)
        && untouched_ok [name] before after
  | OpWrite m => appended before after name m && untouched_ok [name] before after
  | OpInit purge =>
      let iname := name ++ ["."; "i"; "d"; "x"] in
      if purge then
        if 0 <? c_rotnum c then
          shift_ok (gen_db name) n before after && shift_ok (gen_idx name) n before after
          && fresh after name && fresh after iname
          && cap_ok (gen_db name) n before after && cap_ok (gen_idx name) n before after
          && untouched_ok (map (gen_db name) (range0 n) ++ map (gen_idx name) (range0 n)) before after
        else fresh after name && fresh after iname && untouched_ok [name; iname] before after
      else
        (* no purge: an existing store is left alone, a missing one is created empty *)
        untouched_ok [name; iname] before after
        && ((opt_eqb (lookup after name) (lookup before name)
             && opt_eqb (lookup after iname) (lookup before iname))
            || (is_none (lookup before name) && fresh after name && fresh after iname))
  | OpStoreWrite m =>
      let iname := name ++ ["."; "i"; "d"; "x"] in
      appended before after name m && appended before after iname m
      && untouched_ok [name; iname] before after
  end.

Fixpoint steps_ok (c : cfg) (before : dir) (ops : list op) (tr : list dir) : bool :=
  match ops, tr with
  | [], [] => true
  | o :: ops', after :: tr' => step_ok c o before after && steps_ok c after ops' tr'
  | _, _ => false
  end.

(* the oracle: the run completed (no out-of-bounds access ended it) and every step is right *)
Definition c29_ok (c : cfg) (d0 : dir) (ops : list op) (r : outcome) : bool :=
  match r with
  | Trace tr => steps_ok c d0 ops tr
  | _ => false
  end.
