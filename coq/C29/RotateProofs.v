(* C29 proofs, part 1: directories, the instrumented vector, the name lists and the two
   shifting loops (for ALL directories, by induction on the loop counter). *)
From Coq Require Import NArith Arith List Ascii Bool Lia.
From Coq Require Decimal DecimalN FinFun.
From F8 Require Import C29.Rotate C29.Spec_C29.
Import ListNotations.
Local Open Scope char_scope.
Local Open Scope N_scope.

(* ------------------------------------------------------------------ names: equality *)
Lemma str_eqb_spec : forall a b, reflect (a = b) (str_eqb a b).
Proof.
  induction a as [|x a IH]; destruct b as [|y b]; cbn [str_eqb]; try (constructor; congruence).
  destruct (Ascii.eqb_spec x y) as [->|Hxy]; cbn [andb].
  - destruct (IH b) as [->|Hab]; constructor; congruence.
  - constructor; congruence.
Qed.

Lemma str_eqb_refl : forall a, str_eqb a a = true.
Proof. intros a. destruct (str_eqb_spec a a); congruence. Qed.

Lemma str_eqb_neq : forall a b, a <> b -> str_eqb a b = false.
Proof. intros a b H. destruct (str_eqb_spec a b); congruence. Qed.

Lemma str_eqb_sym : forall a b, str_eqb a b = str_eqb b a.
Proof. intros a b. destruct (str_eqb_spec a b), (str_eqb_spec b a); congruence. Qed.

(* ------------------------------------------------------------------ directory algebra *)
Lemma lookup_dremove : forall d n x,
  lookup (dremove n d) x = if str_eqb n x then None else lookup d x.
Proof.
  induction d as [|[k c] t IH]; intros n x; cbn [dremove filter lookup fst].
  - destruct (str_eqb n x); reflexivity.
  - fold (dremove n t). destruct (str_eqb_spec k n) as [->|Hkn]; cbn [negb].
    + rewrite IH. destruct (str_eqb n x); reflexivity.
    + cbn [lookup]. rewrite IH. destruct (str_eqb_spec k x) as [->|Hkx].
      * rewrite str_eqb_neq by congruence. reflexivity.
      * reflexivity.
Qed.

Lemma lookup_dset : forall d n c x,
  lookup (dset n c d) x = if str_eqb n x then Some c else lookup d x.
Proof.
  intros. unfold dset. cbn [lookup]. rewrite lookup_dremove. destruct (str_eqb n x); reflexivity.
Qed.

Lemma lookup_rename : forall d a b x,
  lookup (rename a b d) x =
  match lookup d a with
  | None => lookup d x
  | Some c => if str_eqb a b then lookup d x
              else if str_eqb b x then Some c
              else if str_eqb a x then None else lookup d x
  end.
Proof.
  intros. unfold rename. destruct (lookup d a) as [c|]; [|reflexivity].
  destruct (str_eqb a b); [reflexivity|].
  rewrite lookup_dset, lookup_dremove. reflexivity.
Qed.

Lemma lookup_open_trunc : forall d n x,
  lookup (open_trunc n d) x = if str_eqb n x then Some [] else lookup d x.
Proof. intros. apply lookup_dset. Qed.

Lemma lookup_open_app : forall d n x,
  lookup (open_app n d) x =
  if str_eqb n x then (match lookup d n with Some c => Some c | None => Some [] end) else lookup d x.
Proof.
  intros. unfold open_app. destruct (lookup d n) as [c|] eqn:E.
  - destruct (str_eqb_spec n x) as [<-|]; [exact E|reflexivity].
  - apply lookup_dset.
Qed.

Lemma lookup_append_to : forall d n m x,
  lookup (append_to n m d) x =
  if str_eqb n x then Some ((match lookup d n with Some c => c | None => [] end) ++ m)%list
  else lookup d x.
Proof. intros. apply lookup_dset. Qed.

(* ------------------------------------------------------------------ list view of the vectors *)
(* The proofs reason about the vectors as plain lists: [nth_N] is operator[] on the list of
   elements, [shift_loop_l]/[shift_loop2_l] are the model's loops over that view; the
   refinement lemmas [shift_loop_vrep]/[shift_loop2_vrep] below tie them to the model. *)
Fixpoint nth_N (l : list str) (i : N) : option str :=
  match l with
  | [] => None
  | x :: t => if i =? 0 then Some x else nth_N t (i - 1)
  end.

Fixpoint shift_loop_l (fuel : nat) (rlst : list str) (ii : N) (d : dir) : res :=
  if ii =? 0 then Ok d else
  match fuel with
  | O => OutOfFuel
  | S f =>
    match nth_N rlst (ii - 1), nth_N rlst ii with
    | Some a, Some b => shift_loop_l f rlst (ii - 1) (rename a b d)
    | _, _ => OOB
    end
  end.

Fixpoint shift_loop2_l (fuel : nat) (dblst idxlst : list str) (ii : N) (d : dir) : res :=
  if ii =? 0 then Ok d else
  match fuel with
  | O => OutOfFuel
  | S f =>
    match nth_N dblst (ii - 1), nth_N dblst ii, nth_N idxlst (ii - 1), nth_N idxlst ii with
    | Some a, Some b, Some a', Some b' =>
        shift_loop2_l f dblst idxlst (ii - 1) (rename a' b' (rename a b d))
    | _, _, _, _ => OOB
    end
  end.

(* ------------------------------------------------------------------ instrumented vector *)
Lemma nth_N_nth_error : forall l i, nth_N l i = nth_error l (N.to_nat i).
Proof.
  induction l as [|x t IH]; intros i; cbn [nth_N].
  - destruct (N.to_nat i); reflexivity.
  - destruct (N.eqb_spec i 0) as [->|Hi]; [reflexivity|].
    rewrite IH. replace (N.to_nat i) with (S (N.to_nat (i - 1))) by lia. reflexivity.
Qed.

Lemma nth_N_of_nat : forall l k, nth_N l (N.of_nat k) = nth_error l k.
Proof. intros. rewrite nth_N_nth_error, Nat2N.id. reflexivity. Qed.

(* ------------------------------------------------------------------ the vector and its list view *)
Lemma tget_leaf : forall p, tget Leaf p = None.
Proof. destruct p; reflexivity. Qed.

Lemma tget_tset_same : forall t p x, tget (tset t p x) p = Some x.
Proof.
  intros t p. revert t. induction p as [q IH|q IH|]; intros t x; destruct t; cbn [tset tget]; auto.
Qed.

Lemma tget_tset_other : forall t p q x, p <> q -> tget (tset t p x) q = tget t q.
Proof.
  intros t p. revert t. induction p as [p IH|p IH|]; intros t q x Hne; destruct t; destruct q;
    cbn [tset tget]; try rewrite tget_leaf; try reflexivity;
    try (rewrite IH by congruence; try rewrite tget_leaf; reflexivity); congruence.
Qed.

Definition vrep (v : vec) (l : list str) : Prop :=
  vlen v = N.of_nat (length l) /\ forall i, vget v i = nth_N l i.

Lemma vrep_empty : vrep vempty [].
Proof. split; [reflexivity|]. intros i. unfold vget. cbn. destruct (i <? 0); reflexivity. Qed.

Lemma nth_N_app : forall l x i,
  nth_N (l ++ [x]) i = if i <? N.of_nat (length l) then nth_N l i
                       else if i =? N.of_nat (length l) then Some x else None.
Proof.
  intros l x i. rewrite !nth_N_nth_error.
  destruct (N.ltb_spec i (N.of_nat (length l))) as [Hlt|Hge].
  - apply nth_error_app1. lia.
  - rewrite nth_error_app2 by lia.
    destruct (N.eqb_spec i (N.of_nat (length l))) as [->|Hne].
    + rewrite Nat2N.id, Nat.sub_diag. reflexivity.
    + destruct (N.to_nat i - length l)%nat as [|k] eqn:E; [lia|]. cbn. destruct k; reflexivity.
Qed.

Lemma vrep_push : forall v l x, vrep v l -> vrep (vpush v x) (l ++ [x]).
Proof.
  intros v l x [Hlen Hget]. split.
  - cbn [vpush vlen]. rewrite app_length. cbn [length]. lia.
  - intros i. rewrite nth_N_app. unfold vget in *. cbn [vpush vlen vtree]. rewrite Hlen.
    destruct (N.ltb_spec i (N.of_nat (length l))) as [Hlt|Hge].
    + replace (i <? N.of_nat (length l) + 1) with true by (symmetry; apply N.ltb_lt; lia).
      rewrite tget_tset_other.
      * specialize (Hget i). rewrite Hlen in Hget.
        replace (i <? N.of_nat (length l)) with true in Hget by (symmetry; apply N.ltb_lt; lia).
        exact Hget.
      * intros E. apply (f_equal Pos.pred_N) in E. rewrite !N.pos_pred_succ in E. lia.
    + destruct (N.eqb_spec i (N.of_nat (length l))) as [->|Hne].
      * replace (N.of_nat (length l) <? N.of_nat (length l) + 1) with true by (symmetry; apply N.ltb_lt; lia).
        apply tget_tset_same.
      * replace (i <? N.of_nat (length l) + 1) with false by (symmetry; apply N.ltb_ge; lia).
        reflexivity.
Qed.

(* ------------------------------------------------------------------ the push_back loop *)
Lemma range1_length : forall n, length (range1 n) = N.to_nat n.
Proof. intros. unfold range1. rewrite map_length, seq_length. reflexivity. Qed.

Lemma names_loop_spec : forall mk rotnum fuel ii acc lacc,
  (N.to_nat (kept rotnum) - N.to_nat ii < fuel)%nat -> ii <= kept rotnum -> vrep acc lacc ->
  exists v, names_loop fuel mk rotnum ii acc = Some v /\
    vrep v (lacc ++ map mk (map N.of_nat (seq (S (N.to_nat ii)) (N.to_nat (kept rotnum) - N.to_nat ii)))).
Proof.
  intros mk rotnum. induction fuel as [|f IH]; intros ii acc lacc Hf Hle Hrep; [lia|].
  cbn [names_loop].
  destruct ((ii <? rotnum) && (ii <? max_rotation)) eqn:E.
  - apply andb_true_iff in E. destruct E as [E1 E2].
    apply N.ltb_lt in E1. apply N.ltb_lt in E2.
    assert (Hlt : ii < kept rotnum) by (unfold kept, cap, max_rotation in *; lia).
    destruct (IH (ii + 1) (vpush acc (mk (ii + 1))) (lacc ++ [mk (ii + 1)])) as [v [Hv Hr]];
      [lia|lia|apply vrep_push; exact Hrep|].
    exists v. split; [exact Hv|].
    replace (N.to_nat (kept rotnum) - N.to_nat ii)%nat with (S (N.to_nat (kept rotnum) - N.to_nat (ii + 1)))%nat by lia.
    cbn [seq map]. rewrite <- app_assoc in Hr. cbn [app] in Hr.
    replace (N.of_nat (S (N.to_nat ii))) with (ii + 1) by lia.
    replace (S (N.to_nat (ii + 1))) with (S (S (N.to_nat ii))) in Hr by lia.
    exact Hr.
  - assert (Heq : ii = kept rotnum).
    { apply andb_false_iff in E. unfold kept, cap, max_rotation in *.
      destruct E as [E|E]; apply N.ltb_ge in E; lia. }
    subst ii. exists acc. split; [reflexivity|].
    rewrite Nat.sub_diag. cbn [seq map]. rewrite app_nil_r. exact Hrep.
Qed.

(* the vector after the loop: first, mk 1, ..., mk (min rotnum cap) *)
Lemma build_names_spec : forall first mk rotnum,
  exists v, build_names first mk rotnum = Some v /\ vrep v (first :: map mk (range1 (kept rotnum))).
Proof.
  intros. unfold build_names.
  destruct (names_loop_spec mk rotnum names_fuel 0 (vpush vempty first) [first]) as [v [Hv Hr]].
  - unfold names_fuel, kept, cap, max_rotation. lia.
  - lia.
  - apply (vrep_push vempty [] first vrep_empty).
  - exists v. split; [exact Hv|]. cbn [N.to_nat app] in Hr. rewrite Nat.sub_0_r in Hr. exact Hr.
Qed.

(* the model's loops are the list-view loops *)
Lemma shift_loop_vrep : forall v l, vrep v l ->
  forall fuel ii d, shift_loop fuel v ii d = shift_loop_l fuel l ii d.
Proof.
  intros v l [_ Hget]. induction fuel as [|f IH]; intros ii d; cbn [shift_loop shift_loop_l].
  - reflexivity.
  - rewrite !Hget. destruct (ii =? 0); [reflexivity|].
    destruct (nth_N l (ii - 1)); [|reflexivity]. destruct (nth_N l ii); [|reflexivity]. apply IH.
Qed.

Lemma shift_loop2_vrep : forall v1 l1 v2 l2, vrep v1 l1 -> vrep v2 l2 ->
  forall fuel ii d, shift_loop2 fuel v1 v2 ii d = shift_loop2_l fuel l1 l2 ii d.
Proof.
  intros v1 l1 v2 l2 [_ H1] [_ H2]. induction fuel as [|f IH]; intros ii d; cbn [shift_loop2 shift_loop2_l].
  - reflexivity.
  - rewrite !H1, !H2. destruct (ii =? 0); [reflexivity|].
    destruct (nth_N l1 (ii - 1)); [|reflexivity]. destruct (nth_N l1 ii); [|reflexivity].
    destruct (nth_N l2 (ii - 1)); [|reflexivity]. destruct (nth_N l2 ii); [|reflexivity]. apply IH.
Qed.

Lemma vrep_fuel : forall v l, vrep v l -> N.to_nat (vlen v) = length l.
Proof. intros v l [H _]. rewrite H. apply Nat2N.id. Qed.

(* ------------------------------------------------------------------ the shifting loop *)
(* what the loop  ii = k ... 1  does to a directory, given pairwise distinct names *)
Definition shifted (rlst : list str) (k : nat) (d d' : dir) : Prop :=
  (forall x, ~ In x (firstn (S k) rlst) -> lookup d' x = lookup d x) /\
  (forall j a b, (1 <= j <= k)%nat -> nth_error rlst (j - 1) = Some a -> nth_error rlst j = Some b ->
     lookup d' b = match lookup d a with
                   | Some c => Some c
                   | None => if (j =? k)%nat then lookup d b else None
                   end) /\
  ((1 <= k)%nat -> forall a, nth_error rlst 0 = Some a -> lookup d' a = None).

Lemma nth_error_in_firstn : forall (l : list str) j k x,
  nth_error l j = Some x -> (j < k)%nat -> In x (firstn k l).
Proof.
  induction l as [|y t IH]; intros j k x H Hjk; [destruct j; discriminate|].
  destruct k; [lia|]. destruct j; cbn in *.
  - left. congruence.
  - right. eapply IH; eauto. lia.
Qed.

Lemma in_firstn_nth_error : forall (l : list str) k x,
  In x (firstn k l) -> exists i, (i < k)%nat /\ nth_error l i = Some x.
Proof.
  induction l as [|y t IH]; intros k x H; [destruct k; destruct H|].
  destruct k; [destruct H|]. cbn [firstn In] in H. destruct H as [->|H].
  - exists 0%nat. split; [lia|reflexivity].
  - destruct (IH k x H) as [i [Hi Hn]]. exists (S i). split; [lia|exact Hn].
Qed.

Lemma NoDup_nth_error_neq : forall (l : list str) i j a b,
  NoDup l -> nth_error l i = Some a -> nth_error l j = Some b -> i <> j -> a <> b.
Proof.
  intros l i j a b Hnd Hi Hj Hij Heq. subst b.
  apply Hij. eapply (proj1 (NoDup_nth_error l) Hnd); [|congruence].
  apply nth_error_Some. congruence.
Qed.

Lemma shift_loop_step : forall f rlst k d a b,
  nth_error rlst k = Some a -> nth_error rlst (S k) = Some b ->
  shift_loop_l (S f) rlst (N.of_nat (S k)) d = shift_loop_l f rlst (N.of_nat k) (rename a b d).
Proof.
  intros. cbn [shift_loop_l].
  destruct (N.eqb_spec (N.of_nat (S k)) 0) as [E|_]; [lia|].
  replace (N.of_nat (S k) - 1) with (N.of_nat k) by lia.
  rewrite !nth_N_of_nat, H, H0. reflexivity.
Qed.

Lemma shift_loop_ok : forall rlst, NoDup rlst ->
  forall k fuel d, (k < length rlst)%nat -> (k <= fuel)%nat ->
  exists d', shift_loop_l fuel rlst (N.of_nat k) d = Ok d' /\ shifted rlst k d d'.
Proof.
  intros rlst Hnd. induction k as [|k IH]; intros fuel d Hlen Hfuel.
  - exists d. split.
    + destruct fuel; reflexivity.
    + split; [reflexivity|]. split; [intros; lia|intros; lia].
  - destruct fuel as [|f]; [lia|].
    destruct (nth_error rlst k) as [a|] eqn:Ea; [|apply nth_error_None in Ea; lia].
    destruct (nth_error rlst (S k)) as [b|] eqn:Eb; [|apply nth_error_None in Eb; lia].
    rewrite (shift_loop_step f rlst k d a b Ea Eb).
    destruct (IH f (rename a b d)) as [d' [Hrun [Hun [Hsh Hz]]]]; [lia|lia|].
    exists d'. split; [exact Hrun|].
    assert (Hab : a <> b) by (eapply NoDup_nth_error_neq; eauto).
    split; [|split].
    + (* untouched *)
      intros x Hx. rewrite Hun.
      * rewrite lookup_rename. destruct (lookup d a); [|reflexivity].
        rewrite (str_eqb_neq a b Hab).
        assert (b <> x).
        { intros ->. apply Hx. eapply nth_error_in_firstn; eauto. }
        assert (a <> x).
        { intros ->. apply Hx. eapply nth_error_in_firstn; eauto. }
        rewrite !str_eqb_neq by assumption. reflexivity.
      * intros Hin. apply Hx.
        rewrite <- (firstn_skipn (S k) (firstn (S (S k)) rlst)).
        apply in_or_app. left. rewrite firstn_firstn. replace (Nat.min (S k) (S (S k))) with (S k) by lia.
        exact Hin.
    + (* shifted generations *)
      intros j a0 b0 Hj Ha0 Hb0.
      destruct (Nat.eq_dec j (S k)) as [->|Hne].
      * (* the newest rename of this call: b = rlst[k+1] is outside the recursive call's range *)
        replace (S k - 1)%nat with k in Ha0 by lia.
        assert (a0 = a) by congruence. assert (b0 = b) by congruence. subst a0 b0.
        rewrite Nat.eqb_refl.
        rewrite Hun.
        -- rewrite lookup_rename. destruct (lookup d a) as [c|] eqn:Eda; [|reflexivity].
           rewrite (str_eqb_neq a b Hab), str_eqb_refl. reflexivity.
        -- intros Hin. apply in_firstn_nth_error in Hin. destruct Hin as [i [Hil Hi]].
           eapply (NoDup_nth_error_neq rlst i (S k) b b); eauto. lia.
      * assert (Hjk : (1 <= j <= k)%nat) by lia.
        rewrite (Hsh j a0 b0 Hjk Ha0 Hb0).
        assert (Hn1 : a <> a0) by (eapply (NoDup_nth_error_neq rlst k (j - 1)); eauto; lia).
        assert (Hn2 : b <> a0) by (eapply (NoDup_nth_error_neq rlst (S k) (j - 1)); eauto; lia).
        assert (Hn3 : b <> b0) by (eapply (NoDup_nth_error_neq rlst (S k) j); eauto; lia).
        assert (Hla0 : lookup (rename a b d) a0 = lookup d a0).
        { rewrite lookup_rename. destruct (lookup d a); [|reflexivity].
          rewrite (str_eqb_neq a b Hab), (str_eqb_neq b a0 Hn2), (str_eqb_neq a a0 Hn1). reflexivity. }
        rewrite Hla0. destruct (lookup d a0) as [c0|] eqn:Eda0; [reflexivity|].
        replace (j =? S k)%nat with false by (symmetry; apply Nat.eqb_neq; lia).
        destruct (Nat.eqb_spec j k) as [->|Hjk']; [|reflexivity].
        (* j = k: rlst[k] = a has just been renamed away (or never existed) *)
        assert (b0 = a) by congruence. subst b0.
        rewrite lookup_rename. destruct (lookup d a) as [c|] eqn:Eda; [|reflexivity].
        rewrite (str_eqb_neq a b Hab), (str_eqb_neq b a Hn3), str_eqb_refl. reflexivity.
    + (* the live name is gone *)
      intros _ a0 Ha0. destruct k as [|k'].
      * (* single iteration: rename rlst[0] rlst[1] *)
        assert (a0 = a) by congruence. subst a0.
        assert (Hd' : d' = rename a b d).
        { change (N.of_nat 0) with 0 in Hrun. destruct f; cbn in Hrun; congruence. }
        subst d'.
        rewrite lookup_rename. destruct (lookup d a) as [c|] eqn:Eda; [|try reflexivity; try exact Eda].
        rewrite (str_eqb_neq a b Hab).
        rewrite (str_eqb_neq b a) by congruence. rewrite str_eqb_refl. reflexivity.
      * apply Hz; [lia|exact Ha0].
Qed.

(* a count at or beyond the vector's length: the very first iteration indexes outside it *)
Lemma shift_loop_oob : forall rlst fuel ii d,
  (length rlst <= N.to_nat ii)%nat -> ii <> 0 -> fuel <> 0%nat ->
  shift_loop_l fuel rlst ii d = OOB.
Proof.
  intros rlst fuel ii d Hlen Hii Hf. destruct fuel as [|f]; [congruence|].
  cbn [shift_loop_l]. destruct (N.eqb_spec ii 0); [congruence|].
  assert (E : nth_N rlst ii = None) by (rewrite nth_N_nth_error; apply nth_error_None; exact Hlen).
  rewrite E. destruct (nth_N rlst (ii - 1)); reflexivity.
Qed.

Lemma shift_loop2_oob : forall dblst idxlst fuel ii d,
  (length dblst <= N.to_nat ii)%nat -> ii <> 0 -> fuel <> 0%nat ->
  shift_loop2_l fuel dblst idxlst ii d = OOB.
Proof.
  intros dblst idxlst fuel ii d Hlen Hii Hf. destruct fuel as [|f]; [congruence|].
  cbn [shift_loop2_l]. destruct (N.eqb_spec ii 0); [congruence|].
  assert (E : nth_N dblst ii = None) by (rewrite nth_N_nth_error; apply nth_error_None; exact Hlen).
  rewrite E. destruct (nth_N dblst (ii - 1)); reflexivity.
Qed.

(* ------------------------------------------------------------------ the double loop *)
(* extensional equality of directories *)
Definition deq (d1 d2 : dir) : Prop := forall x, lookup d1 x = lookup d2 x.

Lemma deq_refl : forall d, deq d d.
Proof. intros d x. reflexivity. Qed.

Lemma deq_trans : forall a b c, deq a b -> deq b c -> deq a c.
Proof. intros a b c H1 H2 x. rewrite H1. apply H2. Qed.

Lemma rename_deq : forall a b d1 d2, deq d1 d2 -> deq (rename a b d1) (rename a b d2).
Proof. intros a b d1 d2 H x. rewrite !lookup_rename, !H. reflexivity. Qed.

(* renames over disjoint pairs of names commute *)
Lemma rename_comm : forall a b a' b' d,
  a <> a' -> a <> b' -> b <> a' -> b <> b' ->
  deq (rename a b (rename a' b' d)) (rename a' b' (rename a b d)).
Proof.
  intros a b a' b' d H1 H2 H3 H4 x.
  rewrite !lookup_rename.
  rewrite (str_eqb_neq b' a), (str_eqb_neq a' a), (str_eqb_neq b a'), (str_eqb_neq a a') by congruence.
  destruct (lookup d a') as [c'|]; destruct (lookup d a) as [c|];
    destruct (str_eqb_spec a' b'); destruct (str_eqb_spec a b);
    destruct (str_eqb_spec b x); destruct (str_eqb_spec b' x);
    destruct (str_eqb_spec a x); destruct (str_eqb_spec a' x); subst; try reflexivity; try congruence.
Qed.

Lemma shift_loop_deq : forall l k f d1 d2,
  (k < length l)%nat -> (k <= f)%nat -> deq d1 d2 ->
  exists r1 r2, shift_loop_l f l (N.of_nat k) d1 = Ok r1 /\ shift_loop_l f l (N.of_nat k) d2 = Ok r2 /\ deq r1 r2.
Proof.
  intros l. induction k as [|k IH]; intros f d1 d2 Hlen Hf Hd.
  - exists d1, d2. repeat split; try (destruct f; reflexivity). exact Hd.
  - destruct f as [|f]; [lia|].
    destruct (nth_error l k) as [a|] eqn:Ea; [|apply nth_error_None in Ea; lia].
    destruct (nth_error l (S k)) as [b|] eqn:Eb; [|apply nth_error_None in Eb; lia].
    rewrite !(shift_loop_step f l k _ a b Ea Eb).
    apply IH; [lia|lia|]. apply rename_deq. exact Hd.
Qed.

(* a rename over names foreign to the vector commutes with the whole loop *)
Lemma shift_loop_comm : forall l a' b', ~ In a' l -> ~ In b' l ->
  forall k f d1 d2, (k < length l)%nat -> (k <= f)%nat -> deq d1 (rename a' b' d2) ->
  exists r1 r2, shift_loop_l f l (N.of_nat k) d1 = Ok r1 /\ shift_loop_l f l (N.of_nat k) d2 = Ok r2
                /\ deq r1 (rename a' b' r2).
Proof.
  intros l a' b' Ha' Hb'. induction k as [|k IH]; intros f d1 d2 Hlen Hf Hd.
  - exists d1, d2. repeat split; try (destruct f; reflexivity). exact Hd.
  - destruct f as [|f]; [lia|].
    destruct (nth_error l k) as [a|] eqn:Ea; [|apply nth_error_None in Ea; lia].
    destruct (nth_error l (S k)) as [b|] eqn:Eb; [|apply nth_error_None in Eb; lia].
    rewrite !(shift_loop_step f l k _ a b Ea Eb).
    apply IH; [lia|lia|].
    assert (In a l) by (eapply nth_error_In; eauto).
    assert (In b l) by (eapply nth_error_In; eauto).
    eapply deq_trans; [apply rename_deq; exact Hd|].
    apply rename_comm; congruence.
Qed.

Lemma shift_loop2_step : forall f dbl idl k d a b a' b',
  nth_error dbl k = Some a -> nth_error dbl (S k) = Some b ->
  nth_error idl k = Some a' -> nth_error idl (S k) = Some b' ->
  shift_loop2_l (S f) dbl idl (N.of_nat (S k)) d
  = shift_loop2_l f dbl idl (N.of_nat k) (rename a' b' (rename a b d)).
Proof.
  intros. cbn [shift_loop2_l].
  destruct (N.eqb_spec (N.of_nat (S k)) 0) as [E|_]; [lia|].
  replace (N.of_nat (S k) - 1) with (N.of_nat k) by lia.
  rewrite !nth_N_of_nat, H, H0, H1, H2. reflexivity.
Qed.

(* the double loop is (extensionally) the data loop followed by the index loop *)
Lemma shift_loop2_decomp : forall dbl idl,
  length dbl = length idl -> (forall x, In x dbl -> ~ In x idl) ->
  forall k f d0 d, (k < length dbl)%nat -> (k <= f)%nat -> deq d0 d ->
  exists r r1 r2, shift_loop2_l f dbl idl (N.of_nat k) d0 = Ok r /\
                  shift_loop_l f dbl (N.of_nat k) d = Ok r1 /\
                  shift_loop_l f idl (N.of_nat k) r1 = Ok r2 /\ deq r r2.
Proof.
  intros dbl idl Hlen Hdisj. induction k as [|k IH]; intros f d0 d Hk Hf Hd.
  - exists d0, d, d. repeat split; try (destruct f; reflexivity). exact Hd.
  - destruct f as [|f]; [lia|].
    destruct (nth_error dbl k) as [a|] eqn:Ea; [|apply nth_error_None in Ea; lia].
    destruct (nth_error dbl (S k)) as [b|] eqn:Eb; [|apply nth_error_None in Eb; lia].
    destruct (nth_error idl k) as [a'|] eqn:Ea'; [|apply nth_error_None in Ea'; lia].
    destruct (nth_error idl (S k)) as [b'|] eqn:Eb'; [|apply nth_error_None in Eb'; lia].
    rewrite (shift_loop2_step f dbl idl k d0 a b a' b' Ea Eb Ea' Eb').
    rewrite (shift_loop_step f dbl k d a b Ea Eb).
    assert (Ia' : In a' idl) by (eapply nth_error_In; eauto).
    assert (Ib' : In b' idl) by (eapply nth_error_In; eauto).
    assert (Na' : ~ In a' dbl) by (intros Hin; exact (Hdisj _ Hin Ia')).
    assert (Nb' : ~ In b' dbl) by (intros Hin; exact (Hdisj _ Hin Ib')).
    (* X = data loop on R'(R d);  Y = data loop on R d;  X ~ R' Y *)
    destruct (IH f (rename a' b' (rename a b d0)) (rename a' b' (rename a b d))) as [r [x [r2 [H2 [Hx [Hi Hr]]]]]];
      [lia|lia|apply rename_deq, rename_deq, Hd|].
    destruct (shift_loop_comm dbl a' b' Na' Nb' k f (rename a' b' (rename a b d)) (rename a b d))
      as [x' [y [Hx' [Hy Hxy]]]]; [lia|lia|apply deq_refl|].
    rewrite Hx in Hx'. inversion Hx'; subst x'. clear Hx'.
    destruct (shift_loop_deq idl k f x (rename a' b' y)) as [q1 [q2 [Hq1 [Hq2 Hq]]]]; [lia|lia|exact Hxy|].
    rewrite Hi in Hq1. inversion Hq1; subst q1. clear Hq1.
    exists r, y, q2. split; [exact H2|]. split; [exact Hy|]. split.
    + rewrite (shift_loop_step f idl k y a' b' Ea' Eb'). exact Hq2.
    + eapply deq_trans; eauto.
Qed.

(* ------------------------------------------------------------------ the generation names *)
Lemma chars_of_uint_inj : forall u v, chars_of_uint u = chars_of_uint v -> u = v.
Proof.
  induction u; destruct v; cbn [chars_of_uint]; intros H; try discriminate; try reflexivity;
    (injection H as H; f_equal; apply IHu; exact H).
Qed.

Lemma dec_inj : forall j k, dec j = dec k -> j = k.
Proof.
  intros j k H. unfold dec in H. apply chars_of_uint_inj in H.
  rewrite <- (DecimalN.Unsigned.of_to j), <- (DecimalN.Unsigned.of_to k), H. reflexivity.
Qed.

Definition isdig (c : ascii) : Prop := In c ["0"; "1"; "2"; "3"; "4"; "5"; "6"; "7"; "8"; "9"].

Lemma chars_of_uint_digits : forall u, Forall isdig (chars_of_uint u).
Proof.
  induction u; cbn [chars_of_uint]; constructor; try exact IHu; unfold isdig; cbn [In]; tauto.
Qed.

Lemma dec_digits : forall k, Forall isdig (dec k).
Proof. intros. apply chars_of_uint_digits. Qed.

(* a string is empty or starts with a non-digit *)
Definition bnd (s : str) : Prop := match s with [] => True | c :: _ => ~ isdig c end.

Lemma digits_boundary : forall a b s1 s2,
  Forall isdig a -> Forall isdig b -> bnd s1 -> bnd s2 ->
  (a ++ s1 = b ++ s2)%list -> a = b /\ s1 = s2.
Proof.
  induction a as [|x a IH]; destruct b as [|y b]; cbn [app]; intros s1 s2 Ha Hb B1 B2 H.
  - split; [reflexivity|exact H].
  - subst s1. cbn [bnd] in B1. inversion Hb; subst. contradiction.
  - subst s2. cbn [bnd] in B2. inversion Ha; subst. contradiction.
  - injection H as Hxy H. inversion Ha; subst. inversion Hb; subst.
    destruct (IH b s1 s2) as [E1 E2]; auto. split; congruence.
Qed.

Lemma not_dig_dot : ~ isdig ".".
Proof. unfold isdig. cbn [In]. intros H. repeat (destruct H as [H|H]; [discriminate H|]). exact H. Qed.
Lemma not_dig_i : ~ isdig "i".
Proof. unfold isdig. cbn [In]. intros H. repeat (destruct H as [H|H]; [discriminate H|]). exact H. Qed.

Lemma bnd_sfx : forall compress : bool, bnd (if compress then ["."; "g"; "z"] else []).
Proof. intros [|]; cbn [bnd]; [exact not_dig_dot|exact I]. Qed.

Lemma app_self_nil : forall (s t : str), s = (s ++ t)%list -> t = [].
Proof.
  intros s t H. rewrite <- (app_nil_r s) in H at 1. apply app_inv_head in H. congruence.
Qed.

Lemma gen_log_inj : forall name compress j k,
  gen_log name compress j = gen_log name compress k -> j = k.
Proof.
  intros name compress j k. unfold gen_log.
  destruct (N.eqb_spec j 0) as [->|Hj]; destruct (N.eqb_spec k 0) as [->|Hk]; intros H.
  - reflexivity.
  - apply app_self_nil in H. discriminate H.
  - symmetry in H. apply app_self_nil in H. discriminate H.
  - apply app_inv_head in H. cbn [app] in H. injection H as H.
    apply digits_boundary in H; try apply dec_digits; try apply bnd_sfx.
    apply dec_inj. tauto.
Qed.

Lemma gen_db_is_log : forall name k, gen_db name k = gen_log name false k.
Proof.
  intros. unfold gen_db, gen_log. destruct (k =? 0); [reflexivity|].
  rewrite app_nil_r. reflexivity.
Qed.

Lemma gen_db_inj : forall name j k, gen_db name j = gen_db name k -> j = k.
Proof. intros name j k. rewrite !gen_db_is_log. apply gen_log_inj. Qed.

Lemma gen_idx_inj : forall name j k, gen_idx name j = gen_idx name k -> j = k.
Proof. intros name j k H. unfold gen_idx in H. apply app_inv_tail in H. eapply gen_db_inj; eauto. Qed.

Lemma gen_db_idx_disjoint : forall name j k, gen_db name j <> gen_idx name k.
Proof.
  intros name j k. unfold gen_idx, gen_db.
  destruct (N.eqb_spec j 0) as [->|Hj]; destruct (N.eqb_spec k 0) as [->|Hk]; intros H.
  - apply app_self_nil in H. discriminate H.
  - rewrite <- !app_assoc in H. apply app_self_nil in H. discriminate H.
  - apply app_inv_head in H. cbn [app] in H. injection H as H.
    assert (E : (dec j ++ [] = [] ++ ["i"; "d"; "x"])%list) by (rewrite app_nil_r; exact H).
    apply digits_boundary in E; try apply dec_digits; try constructor; try exact I.
    + destruct E as [_ E]. discriminate E.
    + cbn [bnd]. exact not_dig_i.
  - rewrite <- !app_assoc in H. apply app_inv_head in H. cbn [app] in H. injection H as H.
    assert (E : (dec j ++ [] = dec k ++ ["."; "i"; "d"; "x"])%list) by (rewrite app_nil_r; exact H).
    apply digits_boundary in E; try apply dec_digits; try exact I.
    + destruct E as [_ E]. discriminate E.
    + cbn [bnd]. exact not_dig_dot.
Qed.

(* ------------------------------------------------------------------ 0 .. n *)
Lemma range0_seq : forall n, range0 n = map N.of_nat (seq 0 (S (N.to_nat n))).
Proof. intros. unfold range0, range1. reflexivity. Qed.

Lemma range0_length : forall n, length (range0 n) = S (N.to_nat n).
Proof. intros. rewrite range0_seq, map_length, seq_length. reflexivity. Qed.

Lemma in_range1 : forall n k, In k (range1 n) <-> 1 <= k <= n.
Proof.
  intros n k. unfold range1. rewrite in_map_iff. split.
  - intros [i [Hi Hin]]. apply in_seq in Hin. lia.
  - intros H. exists (N.to_nat k). split; [lia|]. apply in_seq. lia.
Qed.

Lemma in_range0 : forall n k, In k (range0 n) <-> k <= n.
Proof.
  intros n k. unfold range0. cbn [In]. rewrite in_range1. lia.
Qed.

Lemma NoDup_range0 : forall n, NoDup (range0 n).
Proof.
  intros. rewrite range0_seq. apply FinFun.Injective_map_NoDup; [|apply seq_NoDup].
  intros a b H. lia.
Qed.

Lemma nth_error_range0 : forall (g : N -> str) n j,
  (j <= N.to_nat n)%nat -> nth_error (map g (range0 n)) j = Some (g (N.of_nat j)).
Proof.
  intros g n j Hj. rewrite range0_seq, map_map.
  rewrite (map_nth_error (fun x => g (N.of_nat x)) j (seq 0 (S (N.to_nat n))) (d := j)); [reflexivity|].
  rewrite nth_error_nth' with (d := 0%nat) by (rewrite seq_length; lia).
  rewrite seq_nth by lia. reflexivity.
Qed.

Lemma NoDup_family : forall (g : N -> str) n,
  (forall j k, g j = g k -> j = k) -> NoDup (map g (range0 n)).
Proof. intros g n Hinj. apply FinFun.Injective_map_NoDup; [exact Hinj|apply NoDup_range0]. Qed.

Lemma in_family : forall (g : N -> str) n x, In x (map g (range0 n)) <-> exists k, k <= n /\ x = g k.
Proof.
  intros g n x. rewrite in_map_iff. split.
  - intros [k [Hk Hin]]. exists k. rewrite in_range0 in Hin. auto.
  - intros [k [Hk ->]]. exists k. rewrite in_range0. auto.
Qed.

(* the vectors the code builds are the families 0 .. min(rotnum,cap) *)
Lemma log_names : forall name compress rotnum,
  exists v, build_names name (log_gen_name name compress) rotnum = Some v /\
            vrep v (map (gen_log name compress) (range0 (kept rotnum))).
Proof.
  intros. destruct (build_names_spec name (log_gen_name name compress) rotnum) as [v [Hv Hr]].
  exists v. split; [exact Hv|]. unfold range0. cbn [map].
  replace (map (gen_log name compress) (range1 (kept rotnum)))
    with (map (log_gen_name name compress) (range1 (kept rotnum))); [exact Hr|].
  apply map_ext_in. intros k Hk. apply in_range1 in Hk.
  unfold gen_log, log_gen_name, s_dot, s_gz.
  destruct (N.eqb_spec k 0); [lia|reflexivity].
Qed.

Lemma db_names : forall name rotnum,
  exists v, build_names name (db_gen_name name) rotnum = Some v /\
            vrep v (map (gen_db name) (range0 (kept rotnum))).
Proof.
  intros. destruct (build_names_spec name (db_gen_name name) rotnum) as [v [Hv Hr]].
  exists v. split; [exact Hv|]. unfold range0. cbn [map].
  replace (map (gen_db name) (range1 (kept rotnum)))
    with (map (db_gen_name name) (range1 (kept rotnum))); [exact Hr|].
  apply map_ext_in. intros k Hk. apply in_range1 in Hk.
  unfold gen_db, db_gen_name, s_dot. destruct (N.eqb_spec k 0); [lia|reflexivity].
Qed.

Lemma idx_names : forall name rotnum,
  exists v, build_names (name ++ s_idx)%list (idx_gen_name name) rotnum = Some v /\
            vrep v (map (gen_idx name) (range0 (kept rotnum))).
Proof.
  intros. destruct (build_names_spec (name ++ s_idx)%list (idx_gen_name name) rotnum) as [v [Hv Hr]].
  exists v. split; [exact Hv|]. unfold range0. cbn [map].
  replace (map (gen_idx name) (range1 (kept rotnum)))
    with (map (idx_gen_name name) (range1 (kept rotnum))); [exact Hr|].
  apply map_ext_in. intros k Hk. apply in_range1 in Hk.
  unfold gen_idx, gen_db, idx_gen_name, db_gen_name, s_dot, s_idx.
  destruct (N.eqb_spec k 0); [lia|reflexivity].
Qed.
