(* C29: the lemmas behind coq/Props/Properties_C29.v, in the shape they are stated there. *)
From Coq Require Import NArith Arith List Ascii Bool Lia.
From F8 Require Import C29.Rotate C29.Spec_C29 C29.RotateProofs C29.RotateTheorems C29.OracleProofs.
Import ListNotations.
Local Open Scope char_scope.
Local Open Scope N_scope.

(* ---------------------------------------------------------------- logger *)
Lemma c29_bounds_lemma : forall name rotnum append compress force d,
  exists d', rotate name rotnum append compress force d = Ok d'.
Proof.
  intros name rotnum append compress force d.
  destruct (rotates rotnum append force) eqn:Hrot.
  - destruct (rotate_sem name rotnum append compress force d Hrot) as [d' [H _]]. eauto.
  - rewrite (rotate_idle _ _ _ _ _ _ Hrot). eauto.
Qed.

Lemma rotates_of : forall rotnum append force,
  0 < rotnum -> (append = false \/ force = true) -> rotates rotnum append force = true.
Proof.
  intros rotnum append force Hpos Hflag. unfold rotates. apply andb_true_iff.
  split; [apply N.ltb_lt; exact Hpos|]. destruct Hflag as [->| ->]; [reflexivity|apply orb_true_r].
Qed.

Lemma c29_shift_lemma : forall name rotnum append compress force d d',
  0 < rotnum -> (append = false \/ force = true) ->
  rotate name rotnum append compress force d = Ok d' ->
  lookup d' name = Some [] /\
  forall k, 1 <= k <= kept rotnum ->
    lookup d' (gen_log name compress k) =
    match lookup d (gen_log name compress (k - 1)) with
    | Some c => Some c
    | None => if k =? kept rotnum then lookup d (gen_log name compress k) else None
    end.
Proof.
  intros name rotnum append compress force d d' Hpos Hflag Hrun.
  destruct (rotate_sem name rotnum append compress force d (rotates_of _ _ _ Hpos Hflag)) as [d1 [H1 [Hf [Hch _]]]].
  rewrite Hrun in H1. inversion H1; subst d1. split; [exact Hf|exact Hch].
Qed.

Lemma c29_untouched_lemma : forall name rotnum append compress force d d',
  rotate name rotnum append compress force d = Ok d' ->
  forall x, (forall k, k <= kept rotnum -> x <> gen_log name compress k) -> lookup d' x = lookup d x.
Proof.
  intros name rotnum append compress force d d' Hrun x Hx.
  destruct (rotates rotnum append force) eqn:Hrot.
  - destruct (rotate_sem name rotnum append compress force d Hrot) as [d1 [H1 [_ [_ Hfr]]]].
    rewrite Hrun in H1. inversion H1; subst d1. apply Hfr. exact Hx.
  - rewrite (rotate_idle _ _ _ _ _ _ Hrot) in Hrun. inversion Hrun; subst d'.
    assert (x <> name) by (apply (Hx 0); lia).
    destruct append; [rewrite lookup_open_app|rewrite lookup_open_trunc];
      rewrite (str_eqb_neq name x) by congruence; reflexivity.
Qed.

Lemma c29_cap_lemma : forall name rotnum append compress force d d',
  rotate name rotnum append compress force d = Ok d' ->
  (forall k, kept rotnum < k -> lookup d (gen_log name compress k) = None) ->
  forall k, kept rotnum < k -> lookup d' (gen_log name compress k) = None.
Proof.
  intros name rotnum append compress force d d' Hrun Hbefore k Hk.
  rewrite (c29_untouched_lemma _ _ _ _ _ _ _ Hrun); [apply Hbefore; exact Hk|].
  intros j Hj E. apply gen_log_inj in E. lia.
Qed.

Lemma c29_append_lemma : forall name rotnum compress d,
  exists d', rotate name rotnum true compress false d = Ok d' /\
    (forall x, x <> name -> lookup d' x = lookup d x) /\
    lookup d' name = match lookup d name with Some c => Some c | None => Some [] end.
Proof.
  intros name rotnum compress d.
  assert (Hrot : rotates rotnum true false = false) by (unfold rotates; apply andb_false_r).
  rewrite (rotate_idle _ _ _ _ _ _ Hrot). eexists. split; [reflexivity|]. split.
  - intros x Hx. rewrite lookup_open_app, (str_eqb_neq name x) by congruence. reflexivity.
  - rewrite lookup_open_app, str_eqb_refl. reflexivity.
Qed.

(* ---------------------------------------------------------------- store *)
Lemma c29_store_bounds_lemma : forall name rotnum purge d,
  exists d', initialise name rotnum purge d = Ok d'.
Proof.
  intros name rotnum purge d.
  destruct (step_init_ok (mkcfg name rotnum false false) purge d) as [d' [H _]]. eauto.
Qed.

Lemma c29_store_shift_lemma : forall name rotnum d d',
  0 < rotnum -> initialise name rotnum true d = Ok d' ->
  lookup d' name = Some [] /\ lookup d' (name ++ ["."; "i"; "d"; "x"])%list = Some [] /\
  forall k, 1 <= k <= kept rotnum ->
    lookup d' (gen_db name k) =
      match lookup d (gen_db name (k - 1)) with
      | Some c => Some c
      | None => if k =? kept rotnum then lookup d (gen_db name k) else None
      end /\
    lookup d' (gen_idx name k) =
      match lookup d (gen_idx name (k - 1)) with
      | Some c => Some c
      | None => if k =? kept rotnum then lookup d (gen_idx name k) else None
      end.
Proof.
  intros name rotnum d d' Hpos Hrun.
  destruct (initialise_sem name rotnum d Hpos) as [d1 [H1 [Hf1 [Hf2 [Cd [Ci _]]]]]].
  rewrite Hrun in H1. inversion H1; subst d1.
  split; [exact Hf1|]. split; [exact Hf2|]. intros k Hk. split; [apply Cd|apply Ci]; exact Hk.
Qed.

Lemma c29_store_untouched_lemma : forall name rotnum purge d d',
  initialise name rotnum purge d = Ok d' ->
  forall x, (forall k, k <= kept rotnum -> x <> gen_db name k /\ x <> gen_idx name k) ->
  lookup d' x = lookup d x.
Proof.
  intros name rotnum purge d d' Hrun x Hx.
  assert (Hn : x <> name /\ x <> (name ++ s_idx)%list) by (apply (Hx 0); lia).
  destruct Hn as [Hn1 Hn2].
  destruct purge.
  - destruct (N.ltb_spec 0 rotnum) as [Hpos|Hz].
    + destruct (initialise_sem name rotnum d Hpos) as [d1 [H1 [_ [_ [_ [_ Hfr]]]]]].
      rewrite Hrun in H1. inversion H1; subst d1. apply Hfr. exact Hx.
    + assert (rotnum = 0) by lia. subst rotnum.
      unfold initialise, initialise_gen in Hrun. rewrite orb_true_r in Hrun.
      cbn [andb N.ltb N.compare res_map] in Hrun.
      inversion Hrun; subst d'. rewrite lookup_open2, !str_eqb_neq by congruence. reflexivity.
  - unfold initialise, initialise_gen in Hrun. destruct (lookup d name); cbn [orb andb res_map] in Hrun;
      inversion Hrun; subst d'; [reflexivity|].
    rewrite lookup_open2, !str_eqb_neq by congruence. reflexivity.
Qed.

(* ---------------------------------------------------------------- before the repair *)
Definition w_log : str := ["l"; "o"; "g"].
Definition w_db : str := ["d"; "b"].

Lemma c29_oob_orig_refuted_lemma :
  (exists rotnum d, rotate_orig w_log rotnum false false false d = OOB /\
                    initialise_orig w_db rotnum true d = OOB) /\
  (forall name rotnum append compress force d, cap < rotnum ->
     (append = false \/ force = true) -> rotate_orig name rotnum append compress force d = OOB) /\
  (forall name rotnum d, cap < rotnum -> initialise_orig name rotnum true d = OOB).
Proof.
  split; [|split].
  - exists 1025, [(w_log, ["G"; "0"])].
    split; [apply rotate_orig_oob; reflexivity|apply initialise_orig_oob; reflexivity].
  - intros name rotnum append compress force d Hcap Hflag. apply rotate_orig_oob; [exact Hcap|].
    apply rotates_of; [unfold cap in Hcap; lia|exact Hflag].
  - intros. apply initialise_orig_oob. assumption.
Qed.

(* ---------------------------------------------------------------- non-vacuity *)
Definition nv_dir : dir :=
  [ (w_log, ["A"]); (w_log ++ ["."; "1"], ["B"]); (w_log ++ ["."; "2"], ["E"]);
    (w_log ++ ["."; "3"], ["C"]); (w_log ++ ["."; "4"], ["D"]); (["o"; "t"; "h"; "e"; "r"], ["X"]) ]%list.

Lemma c29_nonvacuous_lemma :
  0 < 3 /\ kept 3 = 3 /\ kept 1025 = 1024 /\
  (forall x, In x [w_log; (w_log ++ ["."; "1"]); (w_log ++ ["."; "2"]); (w_log ++ ["."; "3"]);
                   (w_log ++ ["."; "4"]); ["o"; "t"; "h"; "e"; "r"]]%list ->
     match rotate w_log 3 false false false nv_dir with
     | Ok d' => lookup d' x =
         lookup [ (w_log, []); (w_log ++ ["."; "1"], ["A"]); (w_log ++ ["."; "2"], ["B"]);
                  (w_log ++ ["."; "3"], ["E"]); (w_log ++ ["."; "4"], ["D"]);
                  (["o"; "t"; "h"; "e"; "r"], ["X"]) ]%list x
     | _ => False
     end) /\
  (forall x, In x [w_log; (w_log ++ ["."; "1"]); (w_log ++ ["."; "2"]); (w_log ++ ["."; "3"]);
                   (w_log ++ ["."; "4"]); (w_log ++ ["."; "5"]); ["o"; "t"; "h"; "e"; "r"]]%list ->
     match rotate w_log 1025 false false false nv_dir with
     | Ok d' => lookup d' x =
         lookup [ (w_log, []); (w_log ++ ["."; "1"], ["A"]); (w_log ++ ["."; "2"], ["B"]);
                  (w_log ++ ["."; "3"], ["E"]); (w_log ++ ["."; "4"], ["C"]); (w_log ++ ["."; "5"], ["D"]);
                  (["o"; "t"; "h"; "e"; "r"], ["X"]) ]%list x
     | _ => False
     end) /\
  c29_ok (mkcfg w_log 3 false false) nv_dir [OpRotate false; OpWrite ["w"]; OpRotate true]
         (run (mkcfg w_log 3 false false) [OpRotate false; OpWrite ["w"]; OpRotate true] nv_dir) = true.
Proof.
  split; [lia|]. split; [reflexivity|]. split; [reflexivity|]. split; [|split].
  - intros x Hx. cbn [In] in Hx.
    repeat (destruct Hx as [<-|Hx]; [vm_compute; reflexivity|]). destruct Hx.
  - intros x Hx. cbn [In] in Hx.
    repeat (destruct Hx as [<-|Hx]; [vm_compute; reflexivity|]). destruct Hx.
  - vm_compute. reflexivity.
Qed.
