(* Property C17 "Sent application messages are stored exactly as transmitted" as an executable
   predicate on observables: the history (case line) and the trace (result line) of either side.

   Written from the property text.  With a persister attached (memory or file), for every operation and
   every NEW message put on the wire during it (new = not PossDupFlag=Y):
     * an APPLICATION message (MsgType not one of the session-level types 0 1 2 3 4 5 A) must be among
       the entries that appeared in (or changed in) the persister during that operation, under its own
       MsgSeqNum and with exactly its wire bytes -- whether it was sent singly or in a batch;
     * an ADMINISTRATIVE message must not: no entry under its number, no entry with its bytes.
   (Entries that VANISH -- a MemoryPersister replaced at RESTART, F31 on reopen -- are not judged
   here: C26/C27.) *)
From Coq Require Import NArith ZArith List Bool.
From F8 Require Import Sess.Bytes Sess.Msg Sess.Persist Sess.Session Sess.Wire.
Import ListNotations.
Local Open Scope N_scope.

Definition session_type (t : bytes) : bool :=
  match t with
  | [c] => (c =? 48) || (c =? 49) || (c =? 50) || (c =? 51) || (c =? 52) || (c =? 53) || (c =? 65)
  | _ => false
  end.

Definition flag_y (v : option bytes) : bool :=
  match v with Some (c :: _) => c =? 89 | _ => false end.

(* classification of one message on the wire: None = a retransmission (PossDupFlag=Y) or not parsable
   as a numbered message; Some (admin?, seq, raw) otherwise *)
Definition new_msg_of (raw : bytes) : option (bool * N * bytes) :=
  let t := tokens raw in
  if flag_y (tok_get (dec T_PossDupFlag) t) then None
  else match tok_get (dec T_MsgType) t, tok_get (dec T_MsgSeqNum) t with
       | Some ty, Some v => match undec v with Some n => Some (session_type ty, n, raw) | None => None end
       | _, _ => None
       end.

Fixpoint new_msgs (evs : list event) : list (bool * N * bytes) :=
  match evs with
  | [] => []
  | EOut raw :: evs' => match new_msg_of raw with Some x => x :: new_msgs evs' | None => new_msgs evs' end
  | _ :: evs' => new_msgs evs'
  end.

Fixpoint stored_now (d : list (N * option bytes)) : list (N * bytes) :=
  match d with
  | [] => []
  | (k, Some v) :: d' => (k, v) :: stored_now d'
  | (_, None) :: d' => stored_now d'
  end.

(* one transmitted new message against what entered the persister during the same operation:
   application: stored under its own number with exactly its bytes;
   administrative: nothing stored under its number, nowhere its bytes *)
Definition msg_ok (d : list (N * bytes)) (x : bool * N * bytes) : bool :=
  let '(adm, n, raw) := x in
  if adm then negb (existsb (fun kv => (fst kv =? n) || beq (snd kv) raw) d)
  else existsb (fun kv => (fst kv =? n) && beq (snd kv) raw) d.

Definition c17_step (pk : pkind) (st : step) : bool :=
  match pk with
  | PNone => true
  | _ => match st_snap st with
         | Some sn => forallb (msg_ok (stored_now (sn_store sn))) (new_msgs (st_events st))
         | None => match new_msgs (st_events st) with [] => true | _ => false end
         end
  end.

(* the persister kind is that of the last START *)
Fixpoint c17_steps (pk : pkind) (ops : list op) (tr : trace) : bool :=
  match ops, tr with
  | [], [] => true
  | oper :: ops', st :: tr' =>
    let pk' := match oper with OStart p _ => sp_pk p | _ => pk end in
    c17_step pk' st && c17_steps pk' ops' tr'
  | _, _ => false
  end.

Definition c17_ok (ops : list op) (tr : trace) : bool := c17_steps PNone ops tr.

Definition c17_ok_line (case result : bytes) : bool :=
  c17_ok (parse_history case) (parse_trace result).
