(* C17: proofs.  On every history START; plain SEND/BATCH/CLOCK operations in which every batch of two
   or more ends with an administrative message, each new application message is stored under its own
   number with exactly its wire bytes and no administrative message is stored (c17_ok holds);
   the last message of a batch is stored as the empty string (refutation, F21). *)
From Coq Require Import NArith ZArith List Bool Lia.
From F8 Require Import Sess.Bytes Sess.Msg Sess.Persist Sess.Session Sess.SimpleCodec Sess.Wire
  Sess.SessLemmas Sess.SendLemmas C16.Spec_C16 C16.C16Proofs C17.Spec_C17.
Import ListNotations.
Local Open Scope N_scope.

(* ---- the store as a strictly increasing association list ----------------------------------------------- *)
Definition keys_below (b : N) (l : list (N * bytes)) : Prop := Forall (fun kv => fst kv < b) l.

Inductive ssorted : list (N * bytes) -> Prop :=
| ss_nil : ssorted []
| ss_cons : forall k v l, ssorted l -> Forall (fun kv => k < fst kv) l -> ssorted ((k, v) :: l).

Lemma store_get_below : forall k l, keys_below k l -> store_get k l = None.
Proof.
  induction l as [|[a v] l IH]; intro H; cbn [store_get]; [reflexivity|].
  inversion H; subst. cbn [fst] in *. destruct (a =? k) eqn:E; [apply N.eqb_eq in E; lia|]. apply IH. assumption.
Qed.

Lemma store_insert_end : forall k v l, keys_below k l -> store_insert k v l = (l ++ [(k, v)])%list.
Proof.
  induction l as [|[a w] l IH]; intro H; cbn [store_insert app]; [reflexivity|].
  inversion H; subst. cbn [fst] in *.
  destruct (k <? a) eqn:E1; [apply N.ltb_lt in E1; lia|].
  destruct (a =? k) eqn:E2; [apply N.eqb_eq in E2; lia|]. rewrite IH by assumption. reflexivity.
Qed.

Lemma keys_below_app : forall b l k v, keys_below k l -> k < b -> keys_below b (l ++ [(k, v)]).
Proof.
  intros b l k v H L. unfold keys_below in *. apply Forall_app. split.
  - eapply Forall_impl; [|exact H]. cbn. intros; lia.
  - constructor; [cbn; exact L|constructor].
Qed.

Lemma keys_below_mono : forall a b l, keys_below a l -> a <= b -> keys_below b l.
Proof. intros a b l H L. unfold keys_below in *. eapply Forall_impl; [|exact H]. cbn. intros; lia. Qed.

Lemma ssorted_app : forall l k v, ssorted l -> keys_below k l -> ssorted (l ++ [(k, v)]).
Proof.
  induction l as [|[a w] l IH]; intros k v S H; cbn [app].
  - constructor; constructor.
  - inversion S; subst. inversion H; subst. cbn [fst] in *. constructor.
    + apply IH; assumption.
    + apply Forall_app. split; [assumption|]. constructor; [cbn; lia|constructor].
Qed.

Lemma store_get_app_l : forall k l ext v, store_get k l = Some v -> store_get k (l ++ ext) = Some v.
Proof.
  induction l as [|[a w] l IH]; intros ext v H; cbn [store_get app] in *; [discriminate|].
  destruct (a =? k); [exact H|apply IH; exact H].
Qed.

Lemma store_get_app_r : forall k l ext, store_get k l = None -> store_get k (l ++ ext) = store_get k ext.
Proof.
  induction l as [|[a w] l IH]; intros ext H; cbn [store_get app] in *; [reflexivity|].
  destruct (a =? k); [discriminate|apply IH; exact H].
Qed.

Lemma ssorted_get : forall l k v, ssorted l -> In (k, v) l -> store_get k l = Some v.
Proof.
  induction l as [|[a w] l IH]; intros k v S I; [destruct I|].
  inversion S; subst. cbn [store_get]. destruct I as [I|I].
  - inversion I; subst. rewrite N.eqb_refl. reflexivity.
  - rewrite Forall_forall in H3. specialize (H3 _ I). cbn [fst] in H3.
    destruct (a =? k) eqn:E; [apply N.eqb_eq in E; lia|]. apply IH; assumption.
Qed.

(* the snapshot delta after appending fresh entries *)
Lemma delta_new_prefix : forall pre ext old,
  (forall k v, In (k, v) pre -> store_get k old = Some v) ->
  store_delta_new (pre ++ ext) old = store_delta_new ext old.
Proof.
  induction pre as [|[k v] pre IH]; intros ext old H; cbn [app store_delta_new]; [reflexivity|].
  rewrite (H k v (or_introl eq_refl)). rewrite beq_refl. apply IH. intros; apply H; right; assumption.
Qed.

Lemma delta_new_fresh : forall ext old,
  (forall k v, In (k, v) ext -> store_get k old = None) ->
  store_delta_new ext old = map (fun kv => (fst kv, Some (snd kv))) ext.
Proof.
  induction ext as [|[k v] ext IH]; intros old H; cbn [store_delta_new map]; [reflexivity|].
  rewrite (H k v (or_introl eq_refl)). cbn [fst snd]. f_equal. apply IH. intros; eapply H; right; eassumption.
Qed.

Lemma delta_gone_sub : forall old now,
  (forall k v, In (k, v) old -> exists w, store_get k now = Some w) -> store_delta_gone now old = [].
Proof.
  induction old as [|[k v] old IH]; intros now H; cbn [store_delta_gone]; [reflexivity|].
  destruct (H k v (or_introl eq_refl)) as [w E]. rewrite E. apply IH. intros; eapply H; right; eassumption.
Qed.

Lemma stored_now_map : forall ext, stored_now (map (fun kv : N * bytes => (fst kv, Some (snd kv))) ext) = ext.
Proof. induction ext as [|[k v] ext IH]; cbn; [reflexivity|]. rewrite IH. reflexivity. Qed.

Lemma delta_append : forall l ext,
  ssorted l -> (forall k v, In (k, v) ext -> store_get k l = None) ->
  stored_now (store_delta_new (l ++ ext) l ++ store_delta_gone (l ++ ext) l) = ext.
Proof.
  intros l ext S F.
  rewrite delta_new_prefix by (intros; apply ssorted_get; assumption).
  rewrite delta_new_fresh by exact F.
  rewrite delta_gone_sub.
  - rewrite app_nil_r. apply stored_now_map.
  - intros k v I. exists v. apply store_get_app_l. apply ssorted_get; assumption.
Qed.

(* ---- NUL-free wire bytes: what Persister::put receives as a C string is the whole message -------------- *)
Definition nonul (l : bytes) : bool := forallb (fun b => negb (b =? 0)) l.

Lemma cstr_nonul : forall l, nonul l = true -> cstr l = l.
Proof.
  induction l as [|b l IH]; intro H; cbn [cstr]; [reflexivity|].
  cbn [nonul forallb] in H. apply andb_true_iff in H. destruct H as [H1 H2].
  apply negb_true_iff in H1. rewrite H1. f_equal. apply IH. exact H2.
Qed.

Lemma nonul_app : forall a b, nonul (a ++ b) = nonul a && nonul b.
Proof. intros; unfold nonul; apply forallb_app. Qed.

Lemma clean_nonul : forall l, forallb clean l = true -> nonul l = true.
Proof.
  intros l. apply forallb_impl. intros x H. unfold clean in H. apply andb_true_iff in H. tauto.
Qed.

Definition vals_nz (l : list field) : bool := forallb (fun f => nonul (f_val f)) l.

Lemma vals_nz_insert : forall f l, nonul (f_val f) = true -> vals_nz l = true -> vals_nz (insert_field f l) = true.
Proof.
  induction l as [|g l IH]; intros Hf Hl; cbn [insert_field vals_nz forallb].
  - rewrite Hf. reflexivity.
  - cbn [vals_nz forallb] in Hl. apply andb_true_iff in Hl. destruct Hl as [H1 H2].
    destruct (f_pos g <=? f_pos f); cbn [forallb].
    + rewrite H1. apply IH; assumption.
    + rewrite Hf, H1. exact H2.
Qed.
Lemma vals_nz_remove : forall t l, vals_nz l = true -> vals_nz (remove_field t l) = true.
Proof.
  induction l as [|g l IH]; intro H; cbn [remove_field]; [reflexivity|].
  cbn [vals_nz forallb] in H. apply andb_true_iff in H. destruct H as [H1 H2].
  destruct (f_tag g =? t); [exact H2|]. cbn [vals_nz forallb]. rewrite H1. apply IH. exact H2.
Qed.
Lemma vals_nz_add : forall p t v l, nonul v = true -> vals_nz l = true -> vals_nz (add_field p t v l) = true.
Proof.
  intros. unfold add_field. destruct (get_pos t l).
  - apply vals_nz_insert; [assumption|apply vals_nz_remove; assumption].
  - apply vals_nz_insert; assumption.
Qed.
Lemma add_hdr'_vals_nz : forall sc tag v m, nonul v = true -> vals_nz (m_hdr m) = true ->
  vals_nz (m_hdr (add_hdr' sc tag v m)) = true.
Proof.
  intros. destruct (add_hdr'_cases sc tag v m) as [[E _]|[p [_ E]]]; rewrite E; [assumption|].
  cbn [m_hdr]. apply vals_nz_add; assumption.
Qed.

Lemma nonul_pad : forall w n, nonul (pad w n) = true.
Proof. intros. apply clean_nonul, pad_clean. Qed.
Lemma nonul_dec : forall n, nonul (dec n) = true.
Proof. intros. apply clean_nonul, dec_clean. Qed.

Lemma fmt_time_nonul : forall t, nonul (fmt_time t) = true.
Proof.
  intros. unfold fmt_time. destruct (civil_of_days (t / NS / 86400)) as [[y mo] d].
  rewrite !nonul_app. rewrite !nonul_pad. reflexivity.
Qed.

Lemma enc_fields_nonul : forall l, vals_nz l = true -> nonul (enc_fields l) = true.
Proof.
  induction l as [|f l IH]; intro H; cbn [enc_fields flat_map]; [reflexivity|].
  cbn [vals_nz forallb] in H. apply andb_true_iff in H. destruct H as [H1 H2].
  fold (enc_fields l). unfold enc_field. rewrite !nonul_app. rewrite nonul_dec, H1, (IH H2). reflexivity.
Qed.

Definition nz_msg (sc : schema) (m : msg) : bool :=
  nonul (sc_begin sc) && nonul (m_type m) && vals_nz (m_hdr m) && vals_nz (m_body m).

Lemma encode_nonul : forall sc m, nz_msg sc m = true -> nonul (encode sc m) = true.
Proof.
  intros sc m H. unfold nz_msg in H. repeat (apply andb_true_iff in H; destruct H as [H ?]).
  rewrite encode_eq. unfold preamble, payload, enc_field. rewrite !nonul_app.
  rewrite !nonul_dec, nonul_pad, H, H2. rewrite (enc_fields_nonul _ H1), (enc_fields_nonul _ H0). reflexivity.
Qed.

Section P17.
Variable sc : schema.
Hypothesis WS : wf_schema sc = true.
Hypothesis NB : nonul (sc_begin sc) = true.

Definition nz_sess (s : sess) : bool := nonul (s_snd s) && nonul (s_tgt s).

(* plain, NUL-free, and the schema's admin flag agrees with the session-level message types *)
Definition plain17 (m : msg) : bool :=
  plain_msg m && nonul (m_type m) && vals_nz (m_hdr m) && vals_nz (m_body m) &&
  Bool.eqb (is_admin sc (m_type m)) (session_type (m_type m)).

Lemma plain17_fields : forall m, plain17 m = true ->
  plain_msg m = true /\ nonul (m_type m) = true /\ vals_nz (m_hdr m) = true /\ vals_nz (m_body m) = true /\
  is_admin sc (m_type m) = session_type (m_type m).
Proof.
  intros m H. unfold plain17 in H.
  apply andb_true_iff in H. destruct H as [H H5].
  apply andb_true_iff in H. destruct H as [H H4].
  apply andb_true_iff in H. destruct H as [H H3].
  apply andb_true_iff in H. destruct H as [H1 H2].
  repeat split; try assumption. apply Bool.eqb_prop. assumption.
Qed.

Lemma filled_nz : forall now s m, nz_sess s = true -> plain17 m = true -> nz_msg sc (filled sc now s m) = true.
Proof.
  intros now s m NS P. destruct (plain17_fields m P) as (_ & Nt & Vh & Vb & _).
  unfold nz_sess in NS. apply andb_true_iff in NS. destruct NS as [N1 N2].
  unfold nz_msg, filled. rewrite NB.
  set (m1 := if has_field T_SenderCompID (m_hdr m) then m else add_hdr' sc T_SenderCompID (s_snd s) m).
  set (m2 := if has_field T_TargetCompID (m_hdr m1) then m1 else add_hdr' sc T_TargetCompID (s_tgt s) m1).
  assert (F1 : m_type m1 = m_type m /\ m_body m1 = m_body m /\ vals_nz (m_hdr m1) = true).
  { subst m1. destruct (has_field T_SenderCompID (m_hdr m)); [auto|].
    rewrite add_hdr'_type, add_hdr'_body. repeat split. apply add_hdr'_vals_nz; assumption. }
  destruct F1 as (T1 & B1 & V1).
  assert (F2 : m_type m2 = m_type m /\ m_body m2 = m_body m /\ vals_nz (m_hdr m2) = true).
  { subst m2. destruct (has_field T_TargetCompID (m_hdr m1)); [auto|].
    rewrite add_hdr'_type, add_hdr'_body. repeat split; try assumption. apply add_hdr'_vals_nz; assumption. }
  destruct F2 as (T2 & B2 & V2).
  rewrite !add_hdr'_type, !add_hdr'_body. rewrite T2, B2, Nt, Vb.
  rewrite add_hdr'_vals_nz; [reflexivity|apply fmt_time_nonul|].
  apply add_hdr'_vals_nz; [apply nonul_dec|exact V2].
Qed.

Lemma new_msg_of_wire : forall now s m,
  wf_sess s = true -> plain_msg m = true ->
  new_msg_of (wire sc now s m) = Some (session_type (m_type m), s_next_send s, wire sc now s m).
Proof.
  intros now s m WSS P.
  destruct (filled_ok sc now s m WS WSS P) as [W Ty Bo Sq Du].
  destruct (plain_fields m P) as (_ & _ & _ & _ & _ & B34 & B43 & _).
  unfold new_msg_of, wire.
  rewrite (tok_get_encode sc _ T_PossDupFlag W) by discriminate.
  rewrite Du, Bo, (get_none_of_has _ _ B43). cbn [N.eqb T_PossDupFlag Pos.eqb flag_y].
  rewrite (tok_get_encode_type sc _ W). rewrite Ty.
  rewrite (tok_get_encode sc _ T_MsgSeqNum W) by discriminate.
  rewrite Sq. rewrite undec_dec. reflexivity.
Qed.

(* ---- what one operation transmits (infos) and stores (adds) ---------------------------------------------------- *)
Definition info := (bool * N * bytes)%type.
Definition i_num (x : info) : N := snd (fst x).

(* infos: classification of the wire messages numbered n, n+1, ...; adds: the application ones *)
Inductive sentrel : N -> list info -> list (N * bytes) -> Prop :=
| sr_nil : forall n, sentrel n [] []
| sr_adm : forall n w infos adds,
    new_msg_of w = Some (true, n, w) -> sentrel (n + 1) infos adds -> sentrel n ((true, n, w) :: infos) adds
| sr_app : forall n w infos adds,
    new_msg_of w = Some (false, n, w) -> sentrel (n + 1) infos adds -> sentrel n ((false, n, w) :: infos) ((n, w) :: adds).

Lemma sentrel_facts : forall n infos adds, sentrel n infos adds ->
  Forall (fun x : info => n <= i_num x /\ new_msg_of (snd x) = Some x) infos /\
  (forall k w, In (k, w) adds -> n <= k /\ In (false, k, w) infos) /\
  (forall k w, In (false, k, w) infos -> In (k, w) adds) /\
  NoDup (map i_num infos).
Proof.
  induction 1 as [n|n w infos adds E H (F & A & B & ND)|n w infos adds E H (F & A & B & ND)].
  - repeat split; try constructor; intros; contradiction.
  - repeat split.
    + constructor; [cbn; split; [lia|exact E]|]. eapply Forall_impl; [|exact F]. cbn. intros x [L Q]. split; [lia|exact Q].
    + destruct (A k w0 H0) as [L I]. lia.
    + right. apply (A k w0 H0).
    + intros k w0 [I|I]; [inversion I|apply B; exact I].
    + cbn [map]. constructor; [|exact ND]. cbn. intro I. apply in_map_iff in I. destruct I as (x & Q & I).
      rewrite Forall_forall in F. destruct (F x I) as [L _]. unfold i_num in *. cbn in *. lia.
  - repeat split.
    + constructor; [cbn; split; [lia|exact E]|]. eapply Forall_impl; [|exact F]. cbn. intros x [L Q]. split; [lia|exact Q].
    + destruct H0 as [I|I]; [inversion I; subst; lia|]. destruct (A k w0 I) as [L _]. lia.
    + destruct H0 as [I|I]; [inversion I; subst; left; reflexivity|]. right. apply (A k w0 I).
    + intros k w0 [I|I]; [inversion I; subst; left; reflexivity|right; apply B; exact I].
    + cbn [map]. constructor; [|exact ND]. cbn. intro I. apply in_map_iff in I. destruct I as (x & Q & I).
      rewrite Forall_forall in F. destruct (F x I) as [L _]. unfold i_num in *. cbn in *. lia.
Qed.

Lemma sentrel_ok : forall n infos adds, sentrel n infos adds -> forallb (msg_ok adds) infos = true.
Proof.
  intros n infos adds H. destruct (sentrel_facts n infos adds H) as (F & A & B & ND).
  apply forallb_forall. intros [[adm k] w] I. unfold msg_ok. destruct adm.
  - (* administrative: nothing under its number, nowhere its bytes *)
    apply negb_true_iff. destruct (existsb _ adds) eqn:EX; [|reflexivity]. exfalso.
    apply existsb_exists in EX. destruct EX as ([k' w'] & IA & Q). cbn [fst snd] in Q.
    destruct (A k' w' IA) as [_ I'].
    apply orb_true_iff in Q. destruct Q as [Q|Q].
    + apply N.eqb_eq in Q. subst k'.
      (* two infos with the same number are the same info *)
      assert (EQ : (false, k, w') = (true, k, w)).
      { clear - ND I I'. induction infos as [|x infos IH]; [destruct I|].
        cbn [map] in ND. inversion ND as [|? ? NI ND']; subst.
        destruct I as [I|I]; destruct I' as [I'|I'].
        - congruence.
        - subst x. exfalso. apply NI. apply in_map_iff. exists (false, k, w'). split; [reflexivity|exact I'].
        - subst x. exfalso. apply NI. apply in_map_iff. exists (true, k, w). split; [reflexivity|exact I].
        - apply IH; assumption. }
      discriminate.
    + apply beq_eq in Q. subst w'. rewrite Forall_forall in F.
      destruct (F _ I) as [_ Q1]. destruct (F _ I') as [_ Q2]. cbn [snd] in *. congruence.
  - apply existsb_exists. exists (k, w). split; [apply B; exact I|]. cbn [fst snd]. rewrite N.eqb_refl, beq_refl. reflexivity.
Qed.

Lemma new_msgs_app : forall ws infos adds n tl, sentrel n infos adds -> map (fun x : info => snd x) infos = ws ->
  new_msgs (map EOut ws ++ tl) = (infos ++ new_msgs tl)%list.
Proof.
  intros ws infos adds n tl H. revert ws. induction H as [n|n w infos adds E H IH|n w infos adds E H IH]; intros ws M.
  - cbn in M. subst ws. reflexivity.
  - cbn [map snd] in M. subst ws. cbn [map app new_msgs]. rewrite E. rewrite (IH _ eq_refl). reflexivity.
  - cbn [map snd] in M. subst ws. cbn [map app new_msgs]. rewrite E. rewrite (IH _ eq_refl). reflexivity.
Qed.

Lemma sentrel_snoc : forall n infos adds adm w,
  sentrel n infos adds -> new_msg_of w = Some (adm, n + N.of_nat (length infos), w) ->
  sentrel n (infos ++ [(adm, n + N.of_nat (length infos), w)])
          (adds ++ if adm then [] else [(n + N.of_nat (length infos), w)]).
Proof.
  intros n infos adds adm w H. induction H as [n|n w0 infos adds E H IH|n w0 infos adds E H IH]; intro Q.
  - cbn [length app] in *. rewrite N.add_0_r in *. destruct adm; [apply sr_adm|apply sr_app]; try assumption; constructor.
  - cbn [app length] in *.
    replace (n + N.of_nat (S (length infos))) with (n + 1 + N.of_nat (length infos)) in * by lia.
    apply sr_adm; [exact E|]. apply IH. exact Q.
  - cbn [app length] in *.
    replace (n + N.of_nat (S (length infos))) with (n + 1 + N.of_nat (length infos)) in * by lia.
    apply sr_app; [exact E|]. apply IH. exact Q.
Qed.

(* ---- the persister after a plain send_process --------------------------------------------------------------------- *)
Definition ptr_of (now : Z) (s : sess) (m : msg) : bytes := wire sc now s m.

Lemma send_per : forall now s m, plain_msg m = true -> s_closed s = false ->
  s_per (snd (fst (send_process sc now s m))) = per_after sc s m (ptr_of now s m).
Proof.
  intros now s m P C. rewrite (send_process_plain sc now s m P C). unfold plain_result, ptr_of.
  destruct (m_eob m); [destruct (s_batch s)|]; reflexivity.
Qed.

Lemma p_put_ctrl_store : forall p a b, p_store (p_put_ctrl p a b) = p_store p.
Proof.
  intros. unfold p_put_ctrl. destruct (p_kind p); reflexivity.
Qed.

Lemma p_put_append : forall p k v, p_attached p = true -> k <> 0 -> keys_below k (p_store p) ->
  p_store (p_put p k v) = (p_store p ++ [(k, cstr v)])%list.
Proof.
  intros p k v A K B. unfold p_put. unfold p_attached in A.
  apply N.eqb_neq in K. destruct (p_kind p); try discriminate; rewrite K;
    rewrite (store_get_below _ _ B); cbn [p_store]; apply store_insert_end; exact B.
Qed.

Lemma per_after_store : forall s m ptr,
  p_attached (s_per s) = true -> s_next_send s <> 0 -> keys_below (s_next_send s) (p_store (s_per s)) ->
  p_store (per_after sc s m ptr) =
  (p_store (s_per s) ++ if is_admin sc (m_type m) then [] else [(s_next_send s, cstr ptr)])%list.
Proof.
  intros s m ptr A K B. unfold per_after. rewrite A. rewrite p_put_ctrl_store.
  destruct (is_admin sc (m_type m)); [rewrite app_nil_r; reflexivity|]. apply p_put_append; assumption.
Qed.

Lemma per_after_store_none : forall s m ptr, p_attached (s_per s) = false -> per_after sc s m ptr = s_per s.
Proof. intros s m ptr A. unfold per_after. rewrite A. reflexivity. Qed.

Lemma p_attached_kind : forall p q, p_kind p = p_kind q -> p_attached p = p_attached q.
Proof. intros p q H. unfold p_attached. rewrite H. reflexivity. Qed.

(* the state between operations, as far as C17 needs it *)
Record good (s : sess) : Prop := {
  g_closed : s_closed s = false;
  g_wf : wf_sess s = true;
  g_nz : nz_sess s = true;
  g_sorted : ssorted (p_store (s_per s));
  g_below : keys_below (s_next_send s) (p_store (s_per s));
  g_pos : s_next_send s <> 0
}.

Lemma nz_sess_frame : forall s s', frame s s' -> nz_sess s = true -> nz_sess s' = true.
Proof. unfold frame, nz_sess. intros s s' (_&A&B&_) H. rewrite A, B. exact H. Qed.

(* one plain17 message, in any position of a batch or alone *)
Lemma step17 : forall now s m (pend : list msg) infos adds n0,
  plain17 m = true -> good s -> s_batch s = concat (map (encode sc) pend) ->
  sentrel n0 infos adds -> s_next_send s = n0 + N.of_nat (length infos) ->
  exists s' evs,
    send_process sc now s m = (true, s', evs) /\ frame s s' /\ good s' /\
    sentrel n0 (infos ++ [(session_type (m_type m), s_next_send s, wire sc now s m)])
               (adds ++ if session_type (m_type m) then [] else [(s_next_send s, wire sc now s m)]) /\
    s_next_send s' = s_next_send s + 1 /\
    (p_attached (s_per s) = true ->
     p_store (s_per s') = (p_store (s_per s) ++ if session_type (m_type m) then [] else [(s_next_send s, wire sc now s m)])%list) /\
    (p_attached (s_per s) = false -> p_store (s_per s') = p_store (s_per s)) /\
    (if m_eob m
     then s_batch s' = [] /\ evs = map EOut (map (encode sc) (pend ++ [filled sc now s m]))
     else s_batch s' = concat (map (encode sc) (pend ++ [filled sc now s m])) /\ evs = []).
Proof.
  intros now s m pend infos adds n0 P G B SR NS.
  destruct (plain17_fields m P) as (Pm & Nt & Vh & Vb & AD).
  destruct G as [C W NZ SO BE PO].
  destruct (plain_step sc WS now s m pend Pm C W B) as (s' & evs & E & FR & NS' & _ & FL).
  pose proof (send_per now s m Pm C) as SP. rewrite E in SP. cbn [fst snd] in SP.
  assert (WN : nonul (wire sc now s m) = true) by (apply encode_nonul, filled_nz; assumption).
  assert (PT : session_type (m_type m) = false -> cstr (ptr_of now s m) = wire sc now s m).
  { intros _. unfold ptr_of. apply cstr_nonul. exact WN. }
  assert (ST1 : p_attached (s_per s) = true ->
     p_store (s_per s') = (p_store (s_per s) ++ if session_type (m_type m) then [] else [(s_next_send s, wire sc now s m)])%list).
  { intro A. rewrite SP. rewrite per_after_store by assumption. rewrite AD.
    destruct (session_type (m_type m)) eqn:STY; [reflexivity|]. rewrite (PT eq_refl). reflexivity. }
  assert (ST0 : p_attached (s_per s) = false -> p_store (s_per s') = p_store (s_per s)).
  { intro A. rewrite SP. rewrite per_after_store_none by assumption. reflexivity. }
  exists s', evs. split; [exact E|]. split; [exact FR|]. split.
  { destruct FR as (F1 & F2 & F3 & F4 & F5). constructor.
    - congruence.
    - eapply wf_sess_frame; [|exact W]. repeat split; assumption.
    - eapply nz_sess_frame; [|exact NZ]. repeat split; assumption.
    - destruct (p_attached (s_per s)) eqn:A.
      + rewrite (ST1 eq_refl). destruct (session_type (m_type m)); [rewrite app_nil_r; exact SO|].
        apply ssorted_app; assumption.
      + rewrite (ST0 eq_refl). exact SO.
    - rewrite NS'. destruct (p_attached (s_per s)) eqn:A.
      + rewrite (ST1 eq_refl). destruct (session_type (m_type m)).
        * rewrite app_nil_r. eapply keys_below_mono; [exact BE|lia].
        * apply keys_below_app; [exact BE|lia].
      + rewrite (ST0 eq_refl). eapply keys_below_mono; [exact BE|lia].
    - rewrite NS'. lia. }
  split.
  { rewrite NS. apply sentrel_snoc; [exact SR|]. rewrite <- NS. apply new_msg_of_wire; assumption. }
  repeat split; assumption.
Qed.

Lemma loop17 : forall now l s pend infos adds n0 cnt evs0,
  Forall (fun m => plain17 m = true) l -> l <> [] ->
  good s -> s_batch s = concat (map (encode sc) pend) ->
  sentrel n0 infos adds -> map (fun x : info => snd x) infos = map (encode sc) pend ->
  s_next_send s = n0 + N.of_nat (length infos) ->
  exists s' infos' newadds,
    send_batch_loop sc now s l cnt evs0 =
      (cnt + N.of_nat (length l), s', (evs0 ++ map EOut (map (fun x : info => snd x) infos'))%list) /\
    frame s s' /\ good s' /\ s_batch s' = [] /\ sentrel n0 infos' (adds ++ newadds) /\
    (p_attached (s_per s) = true -> p_store (s_per s') = (p_store (s_per s) ++ newadds)%list) /\
    (p_attached (s_per s) = false -> p_store (s_per s') = p_store (s_per s)).
Proof.
  induction l as [|m l IH]; intros s pend infos adds n0 cnt evs0 FP NE G B SR MS NS; [contradiction|].
  inversion FP as [|? ? Pm FP']; subst.
  cbn [send_batch_loop].
  destruct l as [|m' l'].
  - (* the last message: flushes *)
    assert (P1 : plain17 (set_eob true m) = true) by exact Pm.
    destruct (step17 now s (set_eob true m) pend infos adds n0 P1 G B) as
      (s' & evs & E & FR & G' & SR' & NS' & ST1 & ST0 & FL); try assumption.
    cbn [m_eob set_eob] in FL. destruct FL as [B' EV].
    rewrite E. cbn [send_batch_loop length].
    exists s', (infos ++ [(session_type (m_type (set_eob true m)), s_next_send s, wire sc now s (set_eob true m))])%list,
           (if session_type (m_type (set_eob true m)) then [] else [(s_next_send s, wire sc now s (set_eob true m))]).
    split; [|split; [|split; [|split; [|split; [|split]]]]]; try assumption.
    rewrite EV. replace (cnt + N.of_nat 1) with (cnt + 1) by lia.
    rewrite !map_app. cbn [map snd]. rewrite <- MS. reflexivity.
  - (* not the last: appended to the buffer *)
    assert (P1 : plain17 (set_eob false m) = true) by exact Pm.
    destruct (step17 now s (set_eob false m) pend infos adds n0 P1 G B) as
      (s1 & evs & E & FR & G1 & SR1 & NS1 & ST1 & ST0 & FL); try assumption.
    cbn [m_eob set_eob] in FL. destruct FL as [B1 EV]. subst evs.
    rewrite E. rewrite app_nil_r.
    set (x1 := (session_type (m_type (set_eob false m)), s_next_send s, wire sc now s (set_eob false m))) in *.
    set (na1 := if session_type (m_type (set_eob false m)) then [] else [(s_next_send s, wire sc now s (set_eob false m))]) in *.
    assert (H1 : m' :: l' <> []) by discriminate.
    assert (H3 : map (fun x : info => snd x) (infos ++ [x1]) = map (encode sc) (pend ++ [filled sc now s (set_eob false m)])).
    { rewrite !map_app. cbn [map]. rewrite MS. reflexivity. }
    assert (H4 : s_next_send s1 = n0 + N.of_nat (length (infos ++ [x1]))).
    { rewrite app_length. cbn [length]. rewrite NS1, NS. lia. }
    destruct (IH s1 (pend ++ [filled sc now s (set_eob false m)])%list (infos ++ [x1])%list (adds ++ na1)%list n0 (cnt + 1) evs0
                 FP' H1 G1 B1 SR1 H3 H4)
      as (s' & infos' & newadds & EL & FR' & G' & B' & SR' & ST1' & ST0').
    destruct FR as (F1 & F2 & F3 & F4 & F5).
      exists s', infos', (na1 ++ newadds)%list. split; [|split; [|split; [|split; [|split; [|split]]]]].
      * rewrite EL. replace (cnt + 1 + N.of_nat (length (m' :: l'))) with (cnt + N.of_nat (length (m :: m' :: l'))) by (cbn [length]; lia).
        reflexivity.
      * apply (frame_trans s s1 s'); [repeat split; assumption|exact FR'].
      * exact G'.
      * exact B'.
      * rewrite app_assoc. exact SR'.
      * intro A. rewrite ST1' by (rewrite (p_attached_kind _ _ F4); exact A). rewrite (ST1 A). rewrite <- app_assoc. reflexivity.
      * intro A. rewrite ST0' by (rewrite (p_attached_kind _ _ F4); exact A). apply ST0. exact A.
Qed.

(* ---- from specs to plain17 messages ------------------------------------------------------------------------------------ *)
Definition wf_admin (s : schema) : bool :=
  forallb (fun d => Bool.eqb (d_admin d) (session_type (d_type d))) (sc_msgs s) && is_admin s mt_logon.
Hypothesis WA : wf_admin sc = true.

Lemma find_def_some : forall t l d, find_def t l = Some d -> In d l /\ d_type d = t.
Proof.
  induction l as [|x l IH]; intros d H; cbn [find_def] in H; [discriminate|].
  destruct (beq (d_type x) t) eqn:E.
  - inversion H; subst. split; [left; reflexivity|apply beq_eq; exact E].
  - destruct (IH d H) as [I T]. split; [right; exact I|exact T].
Qed.

Lemma admin_consistent : forall t d, find_def t (sc_msgs sc) = Some d -> is_admin sc t = session_type t.
Proof.
  intros t d H. unfold is_admin. rewrite H. destruct (find_def_some _ _ _ H) as [I T].
  unfold wf_admin in WA. apply andb_true_iff in WA. destruct WA as [WA1 _].
  rewrite forallb_forall in WA1. specialize (WA1 d I). apply Bool.eqb_prop in WA1. rewrite WA1, T. reflexivity.
Qed.

Definition nz_tv (tv : N * bytes) : bool := nonul (snd tv).
Definition plain_spec17 (sp : msgspec) : bool :=
  plain_spec sp && nonul (ms_type sp) && forallb nz_tv (ms_hdr sp) && forallb nz_tv (ms_body sp).

Lemma add_fields_nz : forall (f : N -> bytes -> msg -> option msg) l m m',
  (forall t v a b, nonul v = true -> vals_nz (m_hdr a) = true -> vals_nz (m_body a) = true -> f t v a = Some b ->
                   vals_nz (m_hdr b) = true /\ vals_nz (m_body b) = true) ->
  forallb nz_tv l = true -> vals_nz (m_hdr m) = true -> vals_nz (m_body m) = true -> add_fields f l m = Some m' ->
  vals_nz (m_hdr m') = true /\ vals_nz (m_body m') = true.
Proof.
  intros f. induction l as [|[t v] l IH]; intros m m' Hf P Vh Vb E; cbn [add_fields] in E.
  - inversion E; subst. split; assumption.
  - cbn [forallb] in P. apply andb_true_iff in P. destruct P as [P1 P2].
    destruct (f t v m) as [m1|] eqn:F; [|discriminate].
    destruct (Hf t v m m1 P1 Vh Vb F) as [Vh1 Vb1]. eapply IH; eassumption.
Qed.

Lemma add_hdr_nz : forall t v a b, nonul v = true -> vals_nz (m_hdr a) = true -> vals_nz (m_body a) = true ->
  add_hdr sc t v a = Some b -> vals_nz (m_hdr b) = true /\ vals_nz (m_body b) = true.
Proof.
  intros t v a b Nv Vh Vb E. unfold add_hdr in E. destruct (assoc t (sc_hdr sc)); [|discriminate].
  inversion E; subst. cbn [m_hdr m_body]. split; [apply vals_nz_add; assumption|assumption].
Qed.
Lemma add_body_nz : forall t v a b, nonul v = true -> vals_nz (m_hdr a) = true -> vals_nz (m_body a) = true ->
  add_body sc t v a = Some b -> vals_nz (m_hdr b) = true /\ vals_nz (m_body b) = true.
Proof.
  intros t v a b Nv Vh Vb E. unfold add_body in E. destruct (find_def (m_type a) (sc_msgs sc)); [|discriminate].
  destruct (assoc t (d_pos m)); [|discriminate].
  inversion E; subst. cbn [m_hdr m_body]. split; [assumption|apply vals_nz_add; assumption].
Qed.

Lemma add_hdr_type : forall t v x y, add_hdr sc t v x = Some y -> m_type y = m_type x.
Proof. intros t v x y H. unfold add_hdr in H. destruct (assoc t (sc_hdr sc)); [|discriminate]. inversion H; reflexivity. Qed.
Lemma add_body_type : forall t v x y, add_body sc t v x = Some y -> m_type y = m_type x.
Proof.
  intros t v x y H. unfold add_body in H. destruct (find_def (m_type x) (sc_msgs sc)); [|discriminate].
  destruct (assoc t (d_pos m)); [|discriminate]. inversion H; reflexivity.
Qed.
Lemma add_fields_type : forall (f : N -> bytes -> msg -> option msg) l a b,
  (forall t v x y, f t v x = Some y -> m_type y = m_type x) -> add_fields f l a = Some b -> m_type b = m_type a.
Proof.
  intros f. induction l as [|[t v] l IH]; intros a b Hf H; cbn [add_fields] in H; [inversion H; reflexivity|].
  destruct (f t v a) as [a1|] eqn:F; [|discriminate]. rewrite (IH a1 b Hf H). eapply Hf. exact F.
Qed.

Lemma build_type : forall sp m, build_msg sc sp = Some m -> m_type m = ms_type sp.
Proof.
  intros sp m E. unfold build_msg in E. destruct (find_def (ms_type sp) (sc_msgs sc)); [|discriminate].
  destruct (add_fields (add_hdr sc) (ms_hdr sp) (new_msg (ms_type sp))) as [m1|] eqn:E1; [|discriminate].
  rewrite (add_fields_type _ _ _ _ add_body_type E). rewrite (add_fields_type _ _ _ _ add_hdr_type E1). reflexivity.
Qed.

Lemma build_plain17 : forall sp m, plain_spec17 sp = true -> build_msg sc sp = Some m ->
  plain17 m = true /\ m_eob m = true /\ m_type m = ms_type sp.
Proof.
  intros sp m P E. unfold plain_spec17 in P.
  apply andb_true_iff in P. destruct P as [P Nb'].
  apply andb_true_iff in P. destruct P as [P Nh].
  apply andb_true_iff in P. destruct P as [Ps Nt].
  destruct (build_plain sc sp m Ps E) as [Pm EB]. pose proof (build_type sp m E) as TY.
  split; [|split; assumption].
  unfold plain17. rewrite Pm, TY, Nt. cbn [andb].
  pose proof E as E0. unfold build_msg in E0.
  destruct (find_def (ms_type sp) (sc_msgs sc)) as [d|] eqn:FD; [|discriminate].
  destruct (add_fields (add_hdr sc) (ms_hdr sp) (new_msg (ms_type sp))) as [m1|] eqn:E1; [|discriminate].
  destruct (add_fields_nz (add_hdr sc) (ms_hdr sp) (new_msg (ms_type sp)) m1 add_hdr_nz Nh eq_refl eq_refl E1) as [Vh1 Vb1].
  destruct (add_fields_nz (add_body sc) _ _ _ add_body_nz Nb' Vh1 Vb1 E0) as [Vh2 Vb2].
  rewrite Vh2, Vb2. cbn [andb]. rewrite (admin_consistent _ _ FD). apply Bool.eqb_reflx.
Qed.

(* ---- histories --------------------------------------------------------------------------------------------------------- *)
Definition plain_op17 (o : op) : bool :=
  match o with
  | OSend sp => plain_spec17 sp
  | OBatch l => forallb plain_spec17 l
  | OClock _ => true
  | _ => false
  end.

Definition wf_start17 (p : startp) : bool := wf_start p && nonul (sp_snd p) && nonul (sp_tgt p).

Definition CI (w : world) (pk : pkind) : Prop :=
  exists s, w_sess w = Some s /\ good s /\ s_batch s = [] /\ p_kind (s_per s) = pk /\
            (p_attached (s_per s) = true -> w_snap w = p_store (s_per s)).

Lemma snapshot_attached : forall w s, w_sess w = Some s -> p_attached (s_per s) = true ->
  snapshot w = (mkWorld (w_sess w) (w_now w) (w_sp w) (w_disk w) (p_store (s_per s)),
                Some (mkSnap (s_state s) (s_next_send s) (s_next_recv s)
                             (match p_kind (s_per s) with PFile => p_get_ctrl (s_per s) | _ => None end)
                             (store_delta_new (p_store (s_per s)) (w_snap w) ++ store_delta_gone (p_store (s_per s)) (w_snap w)))).
Proof.
  intros w s E A. unfold snapshot. rewrite E. unfold p_attached in A. destruct (p_kind (s_per s)); [discriminate| |]; reflexivity.
Qed.

Lemma snapshot_detached : forall w s, w_sess w = Some s -> p_attached (s_per s) = false -> fst (snapshot w) = w.
Proof.
  intros w s E A. unfold snapshot. rewrite E. unfold p_attached in A. destruct (p_kind (s_per s)); [reflexivity| |]; discriminate.
Qed.

Lemma c17_step_none : forall st, c17_step PNone st = true.
Proof. reflexivity. Qed.

(* after an operation that sent infos and stored newadds *)
Lemma after_op : forall w pk s s' infos newadds tl,
  w_sess w = Some s -> good s -> (p_attached (s_per s) = true -> w_snap w = p_store (s_per s)) ->
  p_kind (s_per s) = pk -> frame s s' -> good s' -> s_batch s' = [] ->
  sentrel (s_next_send s) infos newadds -> new_msgs tl = [] ->
  (p_attached (s_per s) = true -> p_store (s_per s') = (p_store (s_per s) ++ newadds)%list) ->
  (p_attached (s_per s) = false -> p_store (s_per s') = p_store (s_per s)) ->
  c17_step pk (mkStep (map EOut (map (fun x : info => snd x) infos) ++ tl) (snd (snapshot (with_sess w s')))) = true /\
  CI (fst (snapshot (with_sess w s'))) pk.
Proof.
  intros w pk s s' infos newadds tl E G SN K FR G' B' SR TL ST1 ST0.
  destruct FR as (F1 & F2 & F3 & F4 & F5).
  assert (E' : w_sess (with_sess w s') = Some s') by reflexivity.
  destruct (p_attached (s_per s)) eqn:A.
  - assert (A' : p_attached (s_per s') = true) by (rewrite (p_attached_kind _ _ F4); exact A).
    rewrite (snapshot_attached _ s' E' A'). cbn [fst snd]. split.
    + unfold c17_step. rewrite <- K. unfold p_attached in A. destruct (p_kind (s_per s)) eqn:KK; [discriminate| |];
        cbn [st_snap st_events sn_store];
        rewrite (new_msgs_app _ infos newadds (s_next_send s) tl SR eq_refl), TL, app_nil_r;
        cbn [with_sess w_snap]; rewrite (SN eq_refl), (ST1 eq_refl);
        (rewrite delta_append;
          [apply (sentrel_ok (s_next_send s)); exact SR
          |apply G
          |intros k v I; destruct (sentrel_facts _ _ _ SR) as (_ & AA & _); destruct (AA k v I) as [L _];
           apply store_get_below; eapply Forall_impl; [|apply (g_below s G)]; cbn; intros; lia]).
    + exists s'. cbn [w_sess w_snap]. split; [reflexivity|]. split; [exact G'|]. split; [exact B'|]. split; [congruence|]. intros _; reflexivity.
  - assert (A' : p_attached (s_per s') = false) by (rewrite (p_attached_kind _ _ F4); exact A).
    assert (PK : pk = PNone).
    { rewrite <- K. unfold p_attached in A. destruct (p_kind (s_per s)); [reflexivity| |]; discriminate. }
    split; [rewrite PK; apply c17_step_none|].
    rewrite (snapshot_detached _ s' E' A'). exists s'. cbn [with_sess w_sess w_snap].
    split; [reflexivity|]. split; [exact G'|]. split; [exact B'|]. split; [congruence|]. intro Z. congruence.
Qed.

Lemma plain17_wrap : forall m, plain17 m = true -> plain17 (set_noinc false (set_custom 0 m)) = true.
Proof.
  intros m P. destruct (plain17_fields m P) as (Pm & Nt & Vh & Vb & AD).
  unfold plain17. rewrite (plain_wrap m Pm). cbn [set_noinc set_custom m_type m_hdr m_body].
  rewrite Nt, Vh, Vb, AD. cbn [andb]. apply Bool.eqb_reflx.
Qed.

Lemma plain_spec17_fields : forall sp, plain_spec17 sp = true -> plain_spec sp = true.
Proof.
  intros sp P. unfold plain_spec17 in P.
  apply andb_true_iff in P. destruct P as [P _]. apply andb_true_iff in P. destruct P as [P _].
  apply andb_true_iff in P. destruct P as [P _]. exact P.
Qed.

Lemma build_all17 : forall l ms, forallb plain_spec17 l = true -> build_all sc l = Some ms ->
  Forall (fun m => plain17 m = true) ms /\ map m_type ms = map ms_type l /\
  (forall m, ms = [m] -> m_eob m = true).
Proof.
  induction l as [|sp l IH]; intros ms P E; cbn [build_all] in E.
  - inversion E; subst. repeat split; [constructor|intros m Z; discriminate].
  - cbn [forallb] in P. apply andb_true_iff in P. destruct P as [P1 P2].
    destruct (build_msg sc sp) as [m|] eqn:B; [|discriminate].
    destruct (build_all sc l) as [ms'|] eqn:B'; [|discriminate]. inversion E; subst ms. clear E.
    destruct (IH ms' P2 eq_refl) as (F & T & _). destruct (build_plain17 sp m P1 B) as (Pm & EB & TY).
    destruct (plain_spec_fields sp (plain_spec17_fields sp P1)) as (Hc & Hn & _). rewrite Hc, Hn.
    split; [constructor; [apply plain17_wrap; exact Pm|exact F]|]. split.
    + cbn [map set_noinc set_custom m_type]. rewrite TY, T. reflexivity.
    + intros m1 Z. inversion Z; subst. exact EB.
Qed.

Lemma last_types : forall (ms : list msg) (l : list msgspec) m0 d,
  map m_type ms = map ms_type l -> ms <> [] -> m_type (last ms m0) = ms_type (last l d).
Proof.
  induction ms as [|m ms IH]; intros l m0 d M NE; [contradiction|].
  destruct l as [|sp l]; [discriminate|]. cbn [map] in M. inversion M as [[T M']].
  destruct ms as [|m' ms'].
  - destruct l; [|discriminate]. cbn. exact T.
  - destruct l as [|sp' l']; [discriminate|].
    change (last (m :: m' :: ms') m0) with (last (m' :: ms') m0).
    change (last (sp :: sp' :: l') d) with (last (sp' :: l') d).
    apply IH; [exact M'|discriminate].
Qed.

Lemma with_sess_same : forall w s, w_sess w = Some s -> with_sess w s = w.
Proof. intros w s E. destruct w; cbn in *; subst; reflexivity. Qed.

(* an operation that leaves the session alone and puts nothing on the wire *)
Lemma quiet17 : forall w pk evs,
  CI w pk -> new_msgs evs = [] ->
  c17_step pk (mkStep evs (snd (snapshot w))) = true /\ CI (fst (snapshot w)) pk.
Proof.
  intros w pk evs (s & E & G & B & K & SN) NM.
  rewrite <- (with_sess_same w s E).
  apply (after_op w pk s s [] [] evs E G SN K (frame_refl s) G B); try assumption.
  - constructor.
  - intros _. rewrite app_nil_r. reflexivity.
  - intros _. reflexivity.
Qed.

Lemma op17 : forall w pk oper,
  CI w pk -> plain_op17 oper = true ->
  c17_step pk (mkStep (snd (run_op sc w oper)) (snd (snapshot (fst (run_op sc w oper))))) = true /\
  CI (fst (snapshot (fst (run_op sc w oper)))) pk.
Proof.
  intros w pk oper I P. pose proof I as (s & E & G & B & K & SN).
  assert (B0 : s_batch s = concat (map (encode sc) [])) by (rewrite B; reflexivity).
  assert (SR0 : sentrel (s_next_send s) [] []) by constructor.
  assert (NS0 : s_next_send s = s_next_send s + N.of_nat (length (@nil info))) by (cbn; lia).
  destruct oper; try discriminate; cbn [plain_op17] in P.
  - (* SEND *)
    cbn [run_op]. rewrite E.
    destruct (ms_ok m) eqn:OK; cbn [negb]; [|cbn [fst snd]; apply quiet17; [exact I|reflexivity]].
    destruct (build_msg sc m) as [msg|] eqn:BM; [|cbn [fst snd]; apply quiet17; [exact I|reflexivity]].
    destruct (build_plain17 m msg P BM) as (Pm & EB & _).
    destruct (plain_spec_fields m (plain_spec17_fields m P)) as (Hc & Hn & _).
    unfold send. rewrite Hc, Hn. cbn [N.eqb].
    destruct (step17 (w_now w) s msg [] [] [] (s_next_send s) Pm G B0 SR0 NS0) as
      (s' & evs & ES & FR & G' & SR & NS & ST1 & ST0 & FL).
    rewrite EB in FL. destruct FL as [B' EV]. rewrite ES. cbn [fst snd]. subst evs. cbn [app map] in *.
    apply (after_op w pk s s' [(session_type (m_type msg), s_next_send s, wire sc (w_now w) s msg)]
             (if session_type (m_type msg) then [] else [(s_next_send s, wire sc (w_now w) s msg)]) [ERet 1%Z]); assumption || reflexivity.
  - (* BATCH *)
    cbn [run_op]. rewrite E.
    destruct (specs_ok l) eqn:OK; cbn [negb]; [|cbn [fst snd]; apply quiet17; [exact I|reflexivity]].
    destruct (build_all sc l) as [ms|] eqn:BA; [|cbn [fst snd]; apply quiet17; [exact I|reflexivity]].
    destruct (build_all17 l ms P BA) as (FP & TYS & EB1).
    destruct ms as [|m1 [|m2 ms']].
    + cbn [send_batch fst snd app]. rewrite (with_sess_same w s E). apply quiet17; [exact I|reflexivity].
    + cbn [send_batch]. pose proof (Forall_inv FP) as Pm. cbn beta in Pm.
      destruct (step17 (w_now w) s m1 [] [] [] (s_next_send s) Pm G B0 SR0 NS0) as
        (s' & evs & ES & FR & G' & SR & NS & ST1 & ST0 & FL).
      rewrite (EB1 m1 eq_refl) in FL. destruct FL as [B' EV]. rewrite ES. cbn [fst snd]. subst evs. cbn [app map] in *.
      apply (after_op w pk s s' [(session_type (m_type m1), s_next_send s, wire sc (w_now w) s m1)]
               (if session_type (m_type m1) then [] else [(s_next_send s, wire sc (w_now w) s m1)]) [ERet (Z.of_N 1)]); assumption || reflexivity.
    + cbn [send_batch].
      assert (NE : m1 :: m2 :: ms' <> []) by discriminate.
      destruct (loop17 (w_now w) (m1 :: m2 :: ms') s [] [] [] (s_next_send s) 0 [] FP NE G B0 SR0 eq_refl NS0) as
        (s' & infos' & newadds & EL & FR & G' & B' & SR & ST1 & ST0).
      rewrite EL. cbn [fst snd app].
      apply (after_op w pk s s' infos' newadds [ERet (Z.of_N (0 + N.of_nat (length (m1 :: m2 :: ms'))))]); assumption || reflexivity.
  - (* CLOCK *)
    cbn [run_op fst snd].
    assert (I' : CI (with_now w t) pk).
    { exists s. cbn [with_now w_sess w_snap]. split; [exact E|]. split; [exact G|]. split; [exact B|]. split; [exact K|exact SN]. }
    apply quiet17; [exact I'|reflexivity].
Qed.

Lemma add_body'_nz : forall t v m, nonul v = true -> vals_nz (m_hdr m) = true -> vals_nz (m_body m) = true ->
  vals_nz (m_hdr (add_body' sc t v m)) = true /\ vals_nz (m_body (add_body' sc t v m)) = true /\
  m_type (add_body' sc t v m) = m_type m.
Proof.
  intros t v m Nv Vh Vb. unfold add_body'. destruct (add_body sc t v m) as [m'|] eqn:E.
  - destruct (add_body_nz t v m m' Nv Vh Vb E) as [A B]. repeat split; try assumption. eapply add_body_type; exact E.
  - repeat split; assumption.
Qed.

Lemma logon17 : forall hb rsn, plain17 (generate_logon sc hb rsn) = true /\ m_eob (generate_logon sc hb rsn) = true /\
  session_type (m_type (generate_logon sc hb rsn)) = true.
Proof.
  intros hb rsn. destruct (logon_plain sc hb rsn) as [PL EB].
  assert (NZ : vals_nz (m_hdr (generate_logon sc hb rsn)) = true /\ vals_nz (m_body (generate_logon sc hb rsn)) = true /\
               m_type (generate_logon sc hb rsn) = mt_logon).
  { unfold generate_logon.
    destruct (add_body'_nz T_HeartBtInt (dec hb) (new_msg mt_logon) (nonul_dec hb) eq_refl eq_refl) as (A1 & B1 & T1).
    destruct (add_body'_nz T_EncryptMethod s_0 _ eq_refl A1 B1) as (A2 & B2 & T2).
    destruct (add_body'_nz T_ResetSeqNumFlag s_Y _ eq_refl A2 B2) as (A3 & B3 & T3).
    destruct rsn; (split; [assumption|split; [assumption|]]); [rewrite T3, T2, T1|rewrite T2, T1]; reflexivity. }
  destruct NZ as (Vh & Vb & TY).
  split; [|split; [exact EB|rewrite TY; reflexivity]].
  unfold plain17. rewrite PL, Vh, Vb, TY. cbn [andb nonul forallb mt_logon N.eqb negb].
  unfold wf_admin in WA. apply andb_true_iff in WA. destruct WA as [_ WA2]. rewrite WA2. reflexivity.
Qed.

Lemma start_number_pos : forall p, start_number p None <> 0.
Proof.
  intros p. unfold start_number. destruct (sp_role p); [|discriminate].
  destruct (pr_rsn (sp_par p)); [discriminate|].
  destruct (sp_ss p =? 0) eqn:E; cbn [negb].
  - destruct (sp_pk p); discriminate.
  - apply N.eqb_neq. exact E.
Qed.

Lemma good_state : forall s st, good s -> good (w_state st s).
Proof. intros s st G. destruct G. constructor; assumption. Qed.

Lemma start17 : forall p t,
  wf_start17 p = true ->
  c17_step (sp_pk p) (mkStep (snd (run_op sc world0 (OStart p t))) (snd (snapshot (fst (run_op sc world0 (OStart p t)))))) = true /\
  CI (fst (snapshot (fst (run_op sc world0 (OStart p t))))) (sp_pk p).
Proof.
  intros p t WP. unfold wf_start17 in WP.
  apply andb_true_iff in WP. destruct WP as [WP Nt]. apply andb_true_iff in WP. destruct WP as [WP Ns].
  pose proof WP as WP0. unfold wf_start in WP0. apply andb_true_iff in WP0. destruct WP0 as [Ws Wt].
  rewrite (run_start sc). set (now := match t with Some t' => t' | None => T0 end). cbn zeta.
  unfold start. destruct (sp_role p) eqn:RO.
  - set (s2 := if pr_rsn (sp_par p) then _ else _).
    destruct (logon17 (s_hb s2) (pr_rsn (sp_par p))) as (PL & EB & AT).
    assert (F2 : s_closed s2 = false /\ s_batch s2 = [] /\ s_snd s2 = sp_snd p /\ s_tgt s2 = sp_tgt p /\
                 s_per s2 = p_empty (sp_pk p) /\ s_next_send s2 = start_number p None).
    { subst s2. unfold new_session, start_number. rewrite RO.
      destruct (pr_rsn (sp_par p)).
      - cbn. repeat split.
      - unfold recover_seqnums. cbn [s_per atomic_init w_down w_state w_next_send w_next_recv new_session].
        rewrite p_empty_ctrl.
        destruct (sp_ss p =? 0) eqn:SS; destruct (sp_rs p =? 0); cbn; repeat split;
          try (destruct (sp_pk p); reflexivity). }
    destruct F2 as (C2 & B2 & S2 & T2 & K2 & N2).
    assert (G2 : good s2).
    { constructor.
      - exact C2.
      - unfold wf_sess. rewrite S2, T2, Ws, Wt. reflexivity.
      - unfold nz_sess. rewrite S2, T2, Ns, Nt. reflexivity.
      - rewrite K2. cbn. constructor.
      - rewrite K2. cbn. constructor.
      - rewrite N2. apply start_number_pos. }
    unfold send. cbn [N.eqb].
    assert (B0 : s_batch s2 = concat (map (encode sc) [])) by (rewrite B2; reflexivity).
    assert (SR0 : sentrel (s_next_send s2) [] []) by constructor.
    assert (NS0 : s_next_send s2 = s_next_send s2 + N.of_nat (length (@nil info))) by (cbn; lia).
    destruct (step17 now s2 _ [] [] [] (s_next_send s2) PL G2 B0 SR0 NS0) as
      (s3 & evs & ES & FR & G3 & SR & NS & ST1 & ST0 & FL).
    rewrite EB in FL. destruct FL as [B3 EV]. rewrite ES. cbn [fst snd]. subst evs. cbn [app map] in *.
    set (w0 := mkWorld (Some s2) now p (p_empty PFile) []).
    change (mkWorld (Some (w_state st_logon_sent s3)) now p (p_empty PFile) []) with (with_sess w0 (w_state st_logon_sent s3)).
    apply (after_op w0 (sp_pk p) s2 (w_state st_logon_sent s3)
             [(session_type (m_type (generate_logon sc (s_hb s2) (pr_rsn (sp_par p)))), s_next_send s2,
               wire sc now s2 (generate_logon sc (s_hb s2) (pr_rsn (sp_par p))))]
             (if session_type (m_type (generate_logon sc (s_hb s2) (pr_rsn (sp_par p)))) then []
              else [(s_next_send s2, wire sc now s2 (generate_logon sc (s_hb s2) (pr_rsn (sp_par p))))]) [ERet 0%Z]);
      try assumption; try reflexivity;
      try (intros _; rewrite K2; reflexivity); try (rewrite K2; reflexivity);
      try (apply good_state; exact G3);
      try (destruct FR as (F1 & F2 & F3 & F4 & F5); repeat split; assumption).
  - cbn [fst snd app].
    set (sa := mkSess _ _ _ _ _ _ _ _ _ _ _ _ _ _ _ _ _ _ _).
    assert (I : CI (mkWorld (Some sa) now p (p_empty PFile) []) (sp_pk p)).
    { exists sa. subst sa. unfold new_session. rewrite RO. cbn.
      split; [reflexivity|]. split; [|split; [reflexivity|split; [reflexivity|intros _; reflexivity]]].
      constructor; cbn; try reflexivity; try constructor. discriminate. }
    apply quiet17; [exact I|reflexivity].
Qed.

Lemma steps17 : forall ops w pk,
  CI w pk -> forallb plain_op17 ops = true -> c17_steps pk ops (run_ops sc w ops) = true.
Proof.
  induction ops as [|oper ops IH]; intros w pk I P; [reflexivity|].
  cbn [forallb] in P. apply andb_true_iff in P. destruct P as [P1 P2].
  destruct (op17 w pk oper I P1) as (ST & I').
  cbn [run_ops]. destruct (run_op sc w oper) as [w1 evs] eqn:R. cbn [fst snd] in *.
  destruct (snapshot w1) as [w2 sn] eqn:S. cbn [fst snd] in *.
  cbn [c17_steps].
  assert (PK : match oper with OStart p0 _ => sp_pk p0 | _ => pk end = pk) by (destruct oper; try discriminate; reflexivity).
  rewrite PK, ST. cbn [andb]. apply IH; assumption.
Qed.

Theorem c17_plain_history_lemma : forall p t ops,
  wf_start17 p = true -> forallb plain_op17 ops = true ->
  c17_ok (OStart p t :: ops) (run_history sc (OStart p t :: ops)) = true.
Proof.
  intros p t ops WP P. destruct (start17 p t WP) as (ST & I).
  unfold c17_ok, run_history. cbn [run_ops].
  destruct (run_op sc world0 (OStart p t)) as [w1 evs] eqn:R. cbn [fst snd] in *.
  destruct (snapshot w1) as [w2 sn] eqn:S. cbn [fst snd] in *.
  cbn [c17_steps]. rewrite ST. cbn [andb]. apply steps17; assumption.
Qed.

End P17.

(* one send_process call, as a statement of its own, for every state between operations or inside a
   batch and every position (the flushing message of a non-empty batch buffer included): a plain
   application message is stored under next_send with exactly its wire bytes, an administrative one
   is not stored *)
Lemma c17_store_step_lemma : forall sc now s m pend,
  wf_schema sc = true -> nonul (sc_begin sc) = true ->
  plain17 sc m = true -> good s -> s_batch s = concat (map (encode sc) pend) ->
  p_attached (s_per s) = true ->
  p_store (s_per (snd (fst (send_process sc now s m)))) =
  (p_store (s_per s) ++ if session_type (m_type m) then [] else [(s_next_send s, wire sc now s m)])%list.
Proof.
  intros sc now s m pend WS NB P G B A.
  destruct (step17 sc WS NB now s m pend [] [] (s_next_send s) P G B (sr_nil _)) as
    (s' & evs & E & _ & _ & _ & _ & ST1 & _); [cbn; lia|].
  rewrite E. cbn [fst snd]. apply ST1. exact A.
Qed.

Lemma c17_store_partial_lemma : forall (sc : schema) (p : startp) (t : option Z) (ops : list op),
  wf_schema sc = true -> nonul (sc_begin sc) = true -> wf_admin sc = true ->
  wf_start17 p = true -> forallb plain_op17 ops = true ->
  c17_ok (OStart p t :: ops) (run_history sc (OStart p t :: ops)) = true.
Proof. intros sc p t ops WS NB WA WP P. exact (c17_plain_history_lemma sc WS NB WA p t ops WP P). Qed.

(* ---- witnesses on the demo schema ------------------------------------------------------------------------ *)
From F8 Require Import Sess.Demo.

Definition store_lengths (tr : trace) : list (N * option nat) :=
  match last_snap tr with
  | Some sn => map (fun kv => (fst kv, match snd kv with Some v => Some (length v) | None => None end)) (sn_store sn)
  | None => []
  end.

(* F21 (repaired in /repo by d862447): the ORIGINAL send_process handed `ptr` to the persister, which
   points into the batch buffer -- already cleared -- for the message that flushes a non-empty buffer:
   the last message of a batch was stored as the EMPTY string.  The code as it is stores the wire bytes. *)
Definition sb1 : sess := snd (fst (send_process demo_schema T0 st0 (set_eob false m_order))).
Definition last_stored (r : bool * sess * list event) : option nat :=
  match p_get (s_per (snd (fst r))) 3 with Some v => Some (length v) | None => None end.

Lemma c17_store_orig_refuted_lemma :
  s_next_send sb1 = 3 /\ s_batch sb1 <> [] /\
  last_stored (send_process_orig demo_schema T0 sb1 m_order) = Some 0%nat /\
  last_stored (send_process demo_schema T0 sb1 m_order) = Some 81%nat /\
  length (wire demo_schema T0 sb1 m_order) = 81%nat.
Proof. vm_compute. repeat split. discriminate. Qed.

(* a batch of two application messages now satisfies the oracle *)
Definition h_batch2 : list op := [OStart (demo_init PFile) None; OBatch [demo_order [65]; demo_order [66]]].

(* a custom sequence number: the message is stored under next_send, not under its own MsgSeqNum *)
Definition h_custom17 : list op :=
  [OStart (demo_init PMem) None; OSend (mkSpec [68] [] [(11, [65]); (55, [66])] 7 false true)].

Lemma c17_custom_refuted_lemma :
  all_new_seqs (run_history demo_schema h_custom17) = map dec [1; 7] /\
  map fst (store_lengths (run_history demo_schema h_custom17)) = [2] /\
  c17_ok h_custom17 (run_history demo_schema h_custom17) = false.
Proof. vm_compute. repeat split. Qed.

(* non-vacuity: singles, a batch ending with an administrative message, admin sends *)
Definition h_plain17 : list op :=
  [OSend (demo_order [65]); OBatch [demo_order [66]; demo_admin [48]; demo_order [67]];
   OSend (demo_admin [49]); OBatch [demo_order [68]]; OBatch [demo_order [69]; demo_order [70]]].

Definition stored_keys (tr : trace) : list N := flat_map (fun st => match st_snap st with Some sn => map fst (sn_store sn) | None => [] end) tr.

Lemma c17_nonvacuous_lemma :
  wf_schema demo_schema = true /\ nonul (sc_begin demo_schema) = true /\ wf_admin demo_schema = true /\
  wf_start17 (demo_init PFile) = true /\ forallb plain_op17 h_plain17 = true /\
  all_new_seqs (run_history demo_schema (OStart (demo_init PFile) None :: h_plain17)) = map dec [1; 2; 3; 4; 5; 6; 7; 8; 9] /\
  stored_keys (run_history demo_schema (OStart (demo_init PFile) None :: h_plain17)) = [2; 3; 5; 7; 8; 9] /\
  c17_ok h_batch2 (run_history demo_schema h_batch2) = true.
Proof. vm_compute. repeat split. Qed.
