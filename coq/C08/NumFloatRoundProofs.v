(* When is modp_dtoa's rounding right?  Real-number reasoning about the rounding stage:
   value - whole and tmp - frac are computed exactly, rounding is monotone, hence the comparisons of
   diff with 0.5 decide on which side of the half-way point the exact product lies -- unless diff is
   exactly 0.5.  Consequences: for precision >= 1, whenever the tie test is false the stage's
   whole * 10^p + frac is the integer nearest to |v| * 10^p; at precision 0 the result is always
   the nearest integer, ties to even. *)
From Coq Require Import ZArith List Bool Lia Reals Lra.
From Flocq Require Import Core.Core IEEE754.BinarySingleNaN.
From F8 Require Import C08.NumInt C08.NumFloat C08.Spec_C08 C08.NumIntProofs C08.NumFloatProofs
  C08.NumFloatShapeProofs.
Import ListNotations.
Local Open Scope Z_scope.

(* c representable and c < rnd y  ->  c < y ;  rnd y < c -> y < c *)
Lemma rnd64_gt_inv : forall c y, generic_format radix2 fexp64 c -> (c < rnd64 y)%R -> (c < y)%R.
Proof.
  intros c y Hc H. destruct (Rlt_le_dec c y) as [L | G]; [exact L | exfalso].
  apply rnd64_le in G. rewrite (rnd64_format c Hc) in G. lra.
Qed.
Lemma rnd64_lt_inv : forall c y, generic_format radix2 fexp64 c -> (rnd64 y < c)%R -> (y < c)%R.
Proof.
  intros c y Hc H. destruct (Rlt_le_dec y c) as [L | G]; [exact L | exfalso].
  apply rnd64_le in G. rewrite (rnd64_format c Hc) in G. lra.
Qed.

(* k + 1/2 and k - 1/2 are doubles for small k *)
Lemma format_half_int : forall k, Z.abs k < 2 ^ 51 -> generic_format radix2 fexp64 (IZR k + / 2)%R /\
                                                       generic_format radix2 fexp64 (IZR k - / 2)%R.
Proof.
  intros k Hk. split; apply generic_format_FLT.
  - exists (Float radix2 (2 * k + 1) (-1)).
    + unfold F2R. cbn [Fnum Fexp bpow]. change (Z.pow_pos radix2 1) with 2. rewrite plus_IZR, mult_IZR. simpl (IZR 2). simpl (IZR 1). field.
    + cbn [Fnum]. change (2 ^ 51) with 2251799813685248 in Hk. change (Z.abs (2 * k + 1) < 9007199254740992). lia.
    + cbn [Fexp]. lia.
  - exists (Float radix2 (2 * k - 1) (-1)).
    + unfold F2R. cbn [Fnum Fexp bpow]. change (Z.pow_pos radix2 1) with 2. rewrite minus_IZR, mult_IZR. simpl (IZR 2). simpl (IZR 1). field.
    + cbn [Fnum]. change (2 ^ 51) with 2251799813685248 in Hk. change (Z.abs (2 * k - 1) < 9007199254740992). lia.
    + cbn [Fexp]. lia.
Qed.



(* When the tie test of the rounding stage is false (diff != 0.5), whole * 10^p + frac is the
   integer nearest to |v| * 10^p, at distance < 1/2. *)
Lemma stage_nearest_lemma : forall v p, is_finite v = true -> 1 <= p <= 9 ->
  match dtoa_stage v p with
  | None => True
  | Some st => ds_whole0 st <= 2147483647 -> feq (ds_diff st) fhalf = false ->
               (Rabs (B2R (ds_value st) * IZR (10 ^ p) - IZR (ds_whole st * 10 ^ p + ds_frac st)) < / 2)%R
  end.
Proof.
  intros v p Fv Hp1. assert (Hp : 0 <= p <= 9) by lia. unfold dtoa_stage, dtoa_stage_gen.
  destruct (abs_value v Fv) as [Fval Pval]. cbv zeta in Fval, Pval.
  set (value := if flt v fzero then fneg v else v) in *.
  destruct (trunc_bounds value Fval Pval) as [w [Ew [Hw0 Hw]]]. rewrite Ew.
  destruct (Z_le_gt_dec w 2147483647) as [Hw1 | Hw1].
  2:{ destruct (trunc_f64 (fmul (fsub value (f_of_Z w)) (pow10_tab p))); [| exact I].
      destruct (if flt fhalf _ then _ else _). cbn [ds_whole0]. intros; lia. }
  pose proof (pow10_bounds p Hp) as HP.
  assert (Hfw : reprZ (f_of_Z w) w) by (apply f_of_Z_repr; change (2 ^ 53) with 9007199254740992; lia).
  destruct Hfw as [Ffw Rfw].
  (* d = value - whole, exactly *)
  pose proof (sub_int_exact value w Fval Hw0 Hw) as Xd.
  assert (Hd0 : (0 <= rnd64 (B2R value - B2R (f_of_Z w)) <= IZR 1)%R).
  { rewrite Rfw, (rnd64_format _ Xd). simpl. lra. }
  destruct (fsub_real value (f_of_Z w) 1 Fval Ffw ltac:(reflexivity) Hd0) as [Fd Rd].
  rewrite Rfw, (rnd64_format _ Xd) in Rd.
  set (d := fsub value (f_of_Z w)) in *.
  (* tmp = rnd (y),  y = (x - w) * 10^p *)
  destruct (pow10_tab_repr p Hp) as [Fpw Rpw].
  assert (HPR : (1 <= IZR (10 ^ p))%R) by (apply IZR_le; lia).
  set (y := ((B2R value - IZR w) * IZR (10 ^ p))%R).
  assert (Hy : (0 <= y < IZR (10 ^ p))%R).
  { unfold y. split.
    - apply Rmult_le_pos; lra.
    - rewrite <- (Rmult_1_l (IZR (10 ^ p))) at 2. apply Rmult_lt_compat_r; lra. }
  assert (Ht0 : (0 <= rnd64 (B2R d * B2R (pow10_tab p)) <= IZR (10 ^ p))%R).
  { rewrite Rpw, Rd. fold y. apply rnd64_between; [reflexivity | change (2 ^ 53) with 9007199254740992; lia |].
    simpl (IZR 0). lra. }
  destruct (fmul_real d (pow10_tab p) (10 ^ p) Fd Fpw ltac:(change (2 ^ 53) with 9007199254740992; lia) Ht0) as [Ft Rt].
  rewrite Rpw, Rd in Rt. fold y in Rt.
  set (tmp := fmul d (pow10_tab p)) in *.
  assert (Ht1 : (0 <= B2R tmp)%R) by (rewrite Rt; rewrite <- rnd64_0; apply rnd64_le; lra).
  destruct (trunc_bounds tmp Ft Ht1) as [f0 [Ef [Hf0 Hf]]]. rewrite Ef.
  assert (Hf1 : f0 <= 10 ^ p).
  { apply le_IZR. apply Rle_trans with (B2R tmp); [lra |].
    rewrite Rt. rewrite <- (rnd64_IZR (10 ^ p)) by (change (2 ^ 53) with 9007199254740992; lia).
    apply rnd64_le. lra. }
  assert (Hff : reprZ (f_of_Z f0) f0) by (apply f_of_Z_repr; change (2 ^ 53) with 9007199254740992; lia).
  destruct Hff as [Fff Rff].
  (* diff = tmp - frac, exactly *)
  pose proof (sub_int_exact tmp f0 Ft Hf0 Hf) as Xdf.
  assert (Hdf0 : (0 <= rnd64 (B2R tmp - B2R (f_of_Z f0)) <= IZR 1)%R).
  { rewrite Rff, (rnd64_format _ Xdf). simpl. lra. }
  destruct (fsub_real tmp (f_of_Z f0) 1 Ft Fff ltac:(reflexivity) Hdf0) as [Fdf Rdf].
  rewrite Rff, (rnd64_format _ Xdf) in Rdf.
  set (diff := fsub tmp (f_of_Z f0)) in *.
  assert (Hmod : (f0 + 1) mod W32 = f0 + 1) by (unfold W32; apply Z.mod_small; lia).
  rewrite Hmod.
  destruct fhalf_val as [Fh Rh].
  destruct (format_half_int f0 ltac:(change (2 ^ 51) with 2251799813685248; lia)) as [Gp Gm].
  assert (Gi1 : generic_format radix2 fexp64 (IZR (f0 + 1)))
    by (apply format_IZR; change (2 ^ 53) with 9007199254740992; lia).
  (* x * 10^p = w * 10^p + y *)
  assert (Exy : forall N, (B2R value * IZR (10 ^ p) - IZR (w * 10 ^ p + N) = y - IZR N)%R).
  { intros N. unfold y. rewrite plus_IZR, mult_IZR. ring. }
  destruct (flt fhalf diff) eqn:Ehalf.
  - (* diff > 0.5 *)
    unfold flt in Ehalf. rewrite Bltb_correct in Ehalf by assumption. rewrite Rh, Rdf in Ehalf.
    destruct (Rlt_bool_spec (/ 2) (B2R tmp - IZR f0)) as [Hgt | Hgt]; [| discriminate].
    assert (Y1 : (IZR f0 + / 2 < y)%R) by (apply (rnd64_gt_inv _ _ Gp); rewrite <- Rt; lra).
    assert (Y2 : (y < IZR (f0 + 1))%R) by (apply (rnd64_lt_inv _ _ Gi1); rewrite <- Rt, plus_IZR; simpl (IZR 1); lra).
    rewrite plus_IZR in Y2. simpl (IZR 1) in Y2.
    assert (Hf2 : f0 + 1 <= 10 ^ p).
    { assert (f0 < 10 ^ p); [| lia]. apply lt_IZR. lra. }
    assert (Hf1r : reprZ (f_of_Z (f0 + 1)) (f0 + 1)) by (apply f_of_Z_repr; change (2 ^ 53) with 9007199254740992; lia).
    rewrite (fle_repr _ _ _ _ (pow10_tab_repr p Hp) Hf1r).
    destruct (Z.leb_spec (10 ^ p) (f0 + 1)); cbn [ds_whole0 ds_whole ds_frac ds_value ds_diff]; intros _ _.
    + replace ((w + 1) * 10 ^ p + 0) with (w * 10 ^ p + (f0 + 1)) by lia.
      rewrite Exy, plus_IZR. simpl (IZR 1). apply Rabs_def1; lra.
    + rewrite Exy, plus_IZR. simpl (IZR 1). apply Rabs_def1; lra.
  - unfold flt in Ehalf. rewrite Bltb_correct in Ehalf by assumption. rewrite Rh, Rdf in Ehalf.
    destruct (Rlt_bool_spec (/ 2) (B2R tmp - IZR f0)) as [Hgt | Hle]; [discriminate |].
    destruct (feq diff fhalf) eqn:Etie; cbn [andb].
    + (* the tie test fires: excluded by the hypothesis in both sub-branches *)
      destruct ((f0 =? 0) || Z.odd f0);
        repeat match goal with |- context [if ?b then (_, _) else (_, _)] => destruct b end;
        cbn [ds_whole0 ds_whole ds_frac ds_value ds_diff];
        intros _ Hx; rewrite Etie in Hx; discriminate.
    + cbn [ds_whole0 ds_whole ds_frac ds_value ds_diff]. intros _ _.
      unfold feq in Etie. rewrite Beqb_correct in Etie by assumption. rewrite Rdf, Rh in Etie.
      destruct (Req_bool_spec (B2R tmp - IZR f0) (/ 2)) as [He | Hne]; [discriminate |].
      assert (Y1 : (y < IZR f0 + / 2)%R) by (apply (rnd64_lt_inv _ _ Gp); rewrite <- Rt; lra).
      assert (Y2 : (IZR f0 - / 2 < y)%R) by (apply (rnd64_gt_inv _ _ Gm); rewrite <- Rt; lra).
      rewrite Exy. apply Rabs_def1; lra.
Qed.

Lemma fsub_real_abs : forall x y b, is_finite x = true -> is_finite y = true -> Z.abs b < 2 ^ 53 ->
  (Rabs (rnd64 (B2R x - B2R y)) <= IZR b)%R ->
  is_finite (fsub x y) = true /\ B2R (fsub x y) = rnd64 (B2R x - B2R y).
Proof.
  intros x y b Fx Fy Hb Hr. unfold fsub.
  pose proof (Bminus_correct 53 1024 Hprec64 Hemax64 mode_NE x y Fx Fy) as H.
  change (round radix2 (SpecFloat.fexp 53 1024) (round_mode mode_NE) (B2R x - B2R y))
    with (rnd64 (B2R x - B2R y)) in H.
  rewrite Rlt_bool_true in H.
  - destruct H as [H1 [H2 _]]. split; assumption.
  - apply Rle_lt_trans with (IZR b); [exact Hr |].
    apply Rle_lt_trans with (Rabs (IZR b)); [apply Rle_abs | apply IZR_lt_emax; exact Hb].
Qed.

(* Precision 0 is always right: the text is the integer nearest to |v|, ties to even. *)
Lemma dtoa_p0_gen : forall v value, value = (if flt v fzero then fneg v else v) ->
  is_finite v = true -> flt thres_max value = false ->
  exists N, modp_dtoa v 0 = DT_text ((if flt v fzero then [45] else []) ++ dec_digits dec_fuel N) /\
            0 <= N /\
            (Rabs (B2R value - IZR N) <= / 2)%R /\
            ((Rabs (B2R value - IZR N) = / 2)%R -> Z.even N = true).
Proof.
  intros v value Evalue Fv Hthres.
  unfold modp_dtoa, modp_dtoa_with. rewrite (feq_finite_refl v Fv). cbn [negb].
  change (clamp_prec 0) with 0. unfold dtoa_stage, dtoa_stage_gen.
  destruct (abs_value v Fv) as [Fval Pval]. cbv zeta in Fval, Pval.
  rewrite <- Evalue in Fval, Pval.
  pose proof (flt_thres_real _ Fval Hthres) as Hle.
  change (if flt v fzero then fneg v else v) with (if flt v fzero then fneg v else v).
  rewrite <- Evalue.
  destruct (trunc_bounds value Fval Pval) as [w [Ew [Hw0 Hw]]]. rewrite Ew.
  assert (Hw1 : w <= 2147483647) by (apply le_IZR; lra).
  assert (Hfw : reprZ (f_of_Z w) w) by (apply f_of_Z_repr; change (2 ^ 53) with 9007199254740992; lia).
  destruct Hfw as [Ffw Rfw].
  pose proof (sub_int_exact value w Fval Hw0 Hw) as Xd.
  assert (Hd0 : (0 <= rnd64 (B2R value - B2R (f_of_Z w)) <= IZR 1)%R).
  { rewrite Rfw, (rnd64_format _ Xd). simpl. lra. }
  destruct (fsub_real value (f_of_Z w) 1 Fval Ffw ltac:(reflexivity) Hd0) as [Fd Rd].
  rewrite Rfw, (rnd64_format _ Xd) in Rd.
  set (d := fsub value (f_of_Z w)) in *.
  (* tmp = d * 1 = d *)
  destruct (pow10_tab_repr 0 ltac:(lia)) as [Fpw Rpw]. change (10 ^ 0) with 1 in Rpw.
  assert (Ey : (B2R d * B2R (pow10_tab 0) = B2R value - IZR w)%R) by (rewrite Rpw, Rd; simpl (IZR 1); ring).
  assert (Ht0 : (0 <= rnd64 (B2R d * B2R (pow10_tab 0)) <= IZR 1)%R).
  { rewrite Ey, (rnd64_format _ Xd). simpl. lra. }
  destruct (fmul_real d (pow10_tab 0) 1 Fd Fpw ltac:(reflexivity) Ht0) as [Ft Rt].
  rewrite Ey, (rnd64_format _ Xd) in Rt.
  set (tmp := fmul d (pow10_tab 0)) in *.
  assert (Ht1 : (0 <= B2R tmp)%R) by (rewrite Rt; lra).
  destruct (trunc_bounds tmp Ft Ht1) as [f0 [Ef [Hf0 Hf]]]. rewrite Ef.
  assert (Ef0 : f0 = 0).
  { assert (f0 < 1); [| lia]. apply lt_IZR. lra. }
  subst f0.
  assert (Hz : reprZ (f_of_Z 0) 0) by (apply f_of_Z_repr; reflexivity). destruct Hz as [Fz Rz].
  assert (Xdf : generic_format radix2 fexp64 (B2R tmp - B2R (f_of_Z 0)))
    by (rewrite Rz, Rt; simpl (IZR 0); rewrite Rminus_0_r; exact Xd).
  assert (Hdf0 : (0 <= rnd64 (B2R tmp - B2R (f_of_Z 0)) <= IZR 1)%R).
  { rewrite (rnd64_format _ Xdf), Rz, Rt. simpl. lra. }
  destruct (fsub_real tmp (f_of_Z 0) 1 Ft Fz ltac:(reflexivity) Hdf0) as [Fdf Rdf].
  rewrite (rnd64_format _ Xdf), Rz, Rt in Rdf. simpl (IZR 0) in Rdf. rewrite Rminus_0_r in Rdf.
  set (diff := fsub tmp (f_of_Z 0)) in *.
  destruct fhalf_val as [Fh Rh].
  change ((0 + 1) mod W32) with 1.
  assert (Hone : reprZ (f_of_Z 1) 1) by (apply f_of_Z_repr; reflexivity).
  assert (Hp1 : reprZ (pow10_tab 0) 1) by (split; [exact Fpw | exact Rpw]).
  rewrite (fle_repr _ _ _ _ Hp1 Hone). change (1 <=? 1) with true.
  (* the final step shared by all branches *)
  assert (Hfin : forall N, 0 <= N <= 2147483648 ->
     match whole_loop dtoa_fuel N [] with
     | Some buf => DT_text (strreverse (if flt v fzero then emit buf 45 else buf))
     | None => DT_fuel
     end = DT_text ((if flt v fzero then [45] else []) ++ dec_digits dec_fuel N)).
  { intros N HN. pose proof (finish_text (flt v fzero) N [] ltac:(change (10 ^ 12) with 1000000000000; lia)) as FT.
    destruct (whole_loop dtoa_fuel N []); [| contradiction]. rewrite FT. cbn [rev]. rewrite app_nil_r. reflexivity. }
  unfold flt at 1. rewrite Bltb_correct by assumption. rewrite Rh, Rdf.
  destruct (Rlt_bool_spec (/ 2) (B2R value - IZR w)) as [Hgt | Hngt].
  - (* fraction > 1/2: the stage already moved to w + 1 *)
    cbn [ds_whole0 ds_whole ds_value ds_neg ds_frac].
    assert (Hw2 : w + 1 <= 2147483647).
    { assert (w < 2147483647); [| lia]. apply lt_IZR. lra. }
    destruct (Z.ltb_spec 2147483647 w); [lia |]. destruct (Z.ltb_spec 2147483647 (w + 1)); [lia |].
    rewrite Hthres. cbn [Z.eqb].
    assert (Hfw1 : reprZ (f_of_Z (w + 1)) (w + 1)) by (apply f_of_Z_repr; change (2 ^ 53) with 9007199254740992; lia).
    destruct Hfw1 as [Ffw1 Rfw1].
    assert (Hneg : (IZR (-1) <= rnd64 (B2R value - B2R (f_of_Z (w + 1))) <= IZR 0)%R).
    { apply rnd64_between; [reflexivity | reflexivity |]. rewrite Rfw1, plus_IZR. simpl. lra. }
    simpl (IZR (-1)) in Hneg. simpl (IZR 0) in Hneg.
    destruct (fsub_real_abs value (f_of_Z (w + 1)) 1 Fval Ffw1 ltac:(reflexivity)) as [Fd' Rd'].
    { simpl (IZR 1). apply Rabs_le. lra. }
    unfold flt at 1. rewrite Bltb_correct by assumption. rewrite Rh, Rd'.
    rewrite Rlt_bool_false by lra.
    unfold feq. rewrite Beqb_correct by assumption. rewrite Rh, Rd'.
    rewrite Req_bool_false by lra. cbn [andb].
    exists (w + 1). split; [apply Hfin; lia |]. split; [lia |].
    rewrite plus_IZR. simpl (IZR 1).
    assert (Habs : (Rabs (B2R value - (IZR w + 1)) < / 2)%R) by (apply Rabs_def1; lra).
    split; [lra | intros Hx; lra].
  - (* fraction <= 1/2: the stage keeps w (frac is irrelevant at precision 0) *)
    assert (Hst : forall fr, (2147483647 <? ds_whole0 {| ds_neg := flt v fzero; ds_value := value; ds_whole0 := w;
                     ds_tmp := tmp; ds_frac0 := 0; ds_diff := diff; ds_frac := fr; ds_whole := w |}) = false)
      by (intros; cbn [ds_whole0]; apply Z.ltb_ge; lia).
    assert (Hcommon : forall fr,
      (let st := {| ds_neg := flt v fzero; ds_value := value; ds_whole0 := w; ds_tmp := tmp; ds_frac0 := 0;
                    ds_diff := diff; ds_frac := fr; ds_whole := w |} in
       exists N, (if 2147483647 <? ds_whole0 st then DT_sprintf
                  else if 2147483647 <? ds_whole st then DT_overflow
                  else if flt thres_max (ds_value st) then DT_sprintf
                  else match (if 0 =? 0 then
                                Some ([], if flt fhalf (fsub (ds_value st) (f_of_Z (ds_whole st))) then ds_whole st + 1
                                          else if feq (fsub (ds_value st) (f_of_Z (ds_whole st))) fhalf && Z.odd (ds_whole st)
                                               then ds_whole st + 1 else ds_whole st)
                              else match frac_loop dtoa_fuel (ds_frac st) 0 0 [] with
                                   | Some (buf, count, done) =>
                                     Some (emit (if done =? 0 then emit buf 48 else pad_zeros buf count) 46, ds_whole st)
                                   | None => None end) with
                       | Some (buf, whole) =>
                         match whole_loop dtoa_fuel whole buf with
                         | Some buf0 => DT_text (strreverse (if ds_neg st then emit buf0 45 else buf0))
                         | None => DT_fuel end
                       | None => DT_fuel end) =
                 DT_text ((if flt v fzero then [45] else []) ++ dec_digits dec_fuel N) /\
                 0 <= N /\ (Rabs (B2R value - IZR N) <= / 2)%R /\
                 ((Rabs (B2R value - IZR N) = / 2)%R -> Z.even N = true))).
    { intros fr. cbv zeta. cbn [ds_whole0 ds_whole ds_value ds_neg ds_frac].
      destruct (Z.ltb_spec 2147483647 w); [lia |].
      rewrite Hthres. cbn [Z.eqb]. fold d.
      unfold flt at 1. rewrite Bltb_correct by assumption. rewrite Rh, Rd.
      rewrite Rlt_bool_false by lra.
      unfold feq. rewrite Beqb_correct by assumption. rewrite Rh, Rd.
      destruct (Req_bool_spec (B2R value - IZR w) (/ 2)) as [Heq | Hne]; cbn [andb].
      - destruct (Z.odd w) eqn:Eodd.
        + exists (w + 1). split; [apply Hfin; lia |]. split; [lia |].
          rewrite plus_IZR. simpl (IZR 1).
          replace (B2R value - (IZR w + 1))%R with (- / 2)%R by lra.
          rewrite Rabs_Ropp, Rabs_pos_eq by lra. split; [lra |].
          intros _. rewrite Z.even_add. rewrite <- Z.negb_odd, Eodd. reflexivity.
        + exists w. split; [apply Hfin; lia |]. split; [lia |].
          rewrite Heq, Rabs_pos_eq by lra. split; [lra |].
          intros _. rewrite <- Z.negb_odd, Eodd. reflexivity.
      - exists w. split; [apply Hfin; lia |]. split; [lia |].
        assert (Habs : (Rabs (B2R value - IZR w) < / 2)%R) by (apply Rabs_def1; lra).
        split; [lra | intros Hx; lra]. }
    cbn [Z.ltb Z.compare andb].
    destruct (feq diff fhalf && ((0 =? 0) || Z.odd 0)); apply Hcommon.
Qed.

Lemma dtoa_p0_lemma : forall v, is_finite v = true ->
  flt thres_max (if flt v fzero then fneg v else v) = false ->
  exists N, modp_dtoa v 0 = DT_text ((if flt v fzero then [45] else []) ++ dec_digits dec_fuel N) /\
            0 <= N /\
            (Rabs (B2R (if flt v fzero then fneg v else v) - IZR N) <= / 2)%R /\
            ((Rabs (B2R (if flt v fzero then fneg v else v) - IZR N) = / 2)%R -> Z.even N = true).
Proof. intros v Fv H. exact (dtoa_p0_gen v _ eq_refl Fv H). Qed.

