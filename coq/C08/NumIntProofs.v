(* Proofs about the integer conversions (NumInt.v) against the specification Spec_C08.v. *)
From Coq Require Import ZArith List Bool Lia.
From F8 Require Import C08.NumInt C08.Spec_C08.
Import ListNotations.
Local Open Scope Z_scope.

Ltac Zify.zify_post_hook ::= Z.to_euclidean_division_equations.

(* ------------------------------------------------------------------------- small facts *)

Lemma digit_char_dec : forall r, -9 <= r <= 9 -> digit_char r = 48 + Z.abs r.
Proof.
  intros r H.
  assert (H' : r = -9 \/ r = -8 \/ r = -7 \/ r = -6 \/ r = -5 \/ r = -4 \/ r = -3 \/ r = -2 \/
               r = -1 \/ r = 0 \/ r = 1 \/ r = 2 \/ r = 3 \/ r = 4 \/ r = 5 \/ r = 6 \/ r = 7 \/
               r = 8 \/ r = 9) by lia.
  repeat (destruct H' as [-> | H']; [reflexivity |]). subst r. reflexivity.
Qed.

Lemma quot10_abs : forall n, Z.abs (Z.quot n 10) = Z.abs n / 10.
Proof. intros n. lia. Qed.

Lemma rem10_abs : forall n, Z.abs (n - Z.quot n 10 * 10) = Z.abs n mod 10.
Proof. intros n. lia. Qed.

Lemma rem10_range : forall n, -9 <= n - Z.quot n 10 * 10 <= 9.
Proof. intros n. lia. Qed.

Lemma pow10_S : forall f : nat, 10 ^ Z.of_nat (S f) = 10 * 10 ^ Z.of_nat f.
Proof. intros f. rewrite Nat2Z.inj_succ, Z.pow_succ_r by lia. reflexivity. Qed.

Lemma pow10_pos : forall f : nat, 0 < 10 ^ Z.of_nat f.
Proof. intros f. apply Z.pow_pos_nonneg; lia. Qed.

(* ---------------------------------------------------------------- itoa = canonical text *)

(* the digit loop, run on any value whose magnitude fits the fuel, writes the decimal digits of
   |n| least significant first, and the last tmp_value has the sign of n *)
Lemma itoa_loop_dec : forall f1 f2 n buf,
  Z.abs n < 10 ^ Z.of_nat f1 -> Z.abs n < 10 ^ Z.of_nat f2 -> (0 < f1)%nat -> (0 < f2)%nat ->
  exists t, itoa_loop f1 10 n buf = Some (buf ++ rev (dec_digits f2 (Z.abs n)), t) /\
            (t <? 0) = (n <? 0).
Proof.
  induction f1 as [| f1 IH]; intros f2 n buf H1 H2 Hf1 Hf2.
  - lia.
  - destruct f2 as [| f2]; [lia |].
    cbn [itoa_loop dec_digits].
    rewrite digit_char_dec by apply rem10_range.
    rewrite rem10_abs.
    destruct (Z.quot n 10 =? 0) eqn:Eq.
    + apply Z.eqb_eq in Eq.
      assert (Hlt : Z.abs n < 10) by lia.
      apply Z.ltb_lt in Hlt. rewrite Hlt.
      exists n. split; [| reflexivity].
      unfold emit. cbn [rev app].
      replace (Z.abs n mod 10) with (Z.abs n) by lia. reflexivity.
    + apply Z.eqb_neq in Eq.
      assert (Hge : 10 <= Z.abs n) by lia.
      assert (Hnlt : (Z.abs n <? 10) = false) by (apply Z.ltb_ge; lia).
      rewrite Hnlt.
      rewrite pow10_S in H1, H2.
      assert (Hf2' : (0 < f2)%nat).
      { destruct f2; [| lia]. simpl in H2. lia. }
      destruct (IH f2 (Z.quot n 10) (emit buf (48 + Z.abs n mod 10))) as [t [E S]].
      * rewrite quot10_abs. pose proof (pow10_pos f1). lia.
      * rewrite quot10_abs. pose proof (pow10_pos f2). lia.
      * destruct f1; [| lia]. simpl in H1. lia.
      * exact Hf2'.
      * exists t. split.
        -- rewrite E. rewrite quot10_abs. unfold emit.
           rewrite rev_app_distr. cbn [rev app]. rewrite <- app_assoc. reflexivity.
        -- rewrite S. destruct (Z.ltb_spec (Z.quot n 10) 0); destruct (Z.ltb_spec n 0); lia.
Qed.

Lemma itoa_int_canon_gen : forall v, Z.abs v < 10 ^ 25 -> itoa_int v 10 = Some (canon_dec v).
Proof.
  intros v Hv. unfold itoa_int. cbn [Z.ltb Z.compare orb].
  destruct (itoa_loop_dec itoa_fuel dec_fuel v [] ) as [t [E S]].
  - change (10 ^ Z.of_nat itoa_fuel) with (10 ^ 40). lia.
  - exact Hv.
  - unfold itoa_fuel. lia.
  - unfold dec_fuel. lia.
  - rewrite E, S. unfold canon_dec, strreverse, emit. cbn [app].
    destruct (Z.ltb_spec v 0).
    + rewrite rev_app_distr, rev_involutive. cbn [rev app].
      replace (Z.abs v) with (- v) by lia. reflexivity.
    + rewrite rev_involutive. replace (Z.abs v) with v by lia. reflexivity.
Qed.

Lemma itoa_int_canonical_lemma : forall v,
  -2147483648 <= v < 2147483648 -> itoa_int v 10 = Some (canon_dec v).
Proof. intros v H. apply itoa_int_canon_gen. lia. Qed.

Lemma itoa_uint_canonical_lemma : forall v,
  0 <= v < 4294967296 -> itoa_uint v 10 = Some (canon_dec v).
Proof.
  intros v Hv. unfold itoa_uint. cbn [Z.ltb Z.compare orb].
  destruct (itoa_loop_dec itoa_fuel dec_fuel v []) as [t [E S]].
  - change (10 ^ Z.of_nat itoa_fuel) with (10 ^ 40). lia.
  - change (10 ^ Z.of_nat dec_fuel) with (10 ^ 25). lia.
  - unfold itoa_fuel. lia.
  - unfold dec_fuel. lia.
  - rewrite E. unfold canon_dec, strreverse. cbn [app].
    destruct (Z.ltb_spec v 0); [lia |].
    rewrite rev_involutive. replace (Z.abs v) with v by lia. reflexivity.
Qed.

(* ------------------------------------------------------------------ digits and their value *)

Lemma dec_digits_are_digits : forall f n, 0 <= n ->
  Forall (fun c => 48 <= c <= 57) (dec_digits f n).
Proof.
  induction f as [| f IH]; intros n Hn; cbn [dec_digits].
  - constructor.
  - destruct (Z.ltb_spec n 10).
    + constructor; [lia | constructor].
    + apply Forall_app. split.
      * apply IH. lia.
      * constructor; [lia | constructor].
Qed.

Lemma dec_digits_nonempty : forall f n, (0 < f)%nat -> dec_digits f n <> [].
Proof.
  intros [| f] n Hf; [lia |]. cbn [dec_digits].
  destruct (n <? 10); [discriminate |]. intros E. apply app_eq_nil in E. destruct E; discriminate.
Qed.

(* the integer arithmetic behind fast_atoi, before any wrap-around *)
Definition horner (l : list Z) (r : Z) : Z := fold_left (fun a c => 10 * a + schar c - 48) l r.

Lemma horner_app : forall a b r, horner (a ++ b) r = horner b (horner a r).
Proof. intros. unfold horner. apply fold_left_app. Qed.

Lemma horner_dec_digits : forall f n r, 0 <= n < 10 ^ Z.of_nat f -> (0 < f)%nat ->
  horner (dec_digits f n) r = r * 10 ^ Z.of_nat (length (dec_digits f n)) + n.
Proof.
  induction f as [| f IH]; intros n r Hn Hf; [lia |].
  cbn [dec_digits].
  destruct (Z.ltb_spec n 10).
  - cbn [horner fold_left length]. unfold schar.
    destruct (Z.ltb_spec (48 + n) 128); [| lia]. change (10 ^ Z.of_nat 1) with 10. lia.
  - rewrite pow10_S in Hn.
    assert (Hf' : (0 < f)%nat).
    { destruct f; [| lia]. simpl in Hn. lia. }
    rewrite horner_app, IH by (try lia; pose proof (pow10_pos f); lia).
    rewrite app_length. cbn [length horner fold_left]. unfold schar.
    destruct (Z.ltb_spec (48 + n mod 10) 128); [| lia].
    rewrite Nat.add_1_r, pow10_S. lia.
Qed.

(* 10^(len-1) <= n < 10^len for n >= 1 *)
Lemma dec_digits_len : forall f n, 0 <= n < 10 ^ Z.of_nat f -> (0 < f)%nat ->
  n < 10 ^ Z.of_nat (length (dec_digits f n)) /\
  (1 <= n -> 10 ^ (Z.of_nat (length (dec_digits f n)) - 1) <= n) /\
  (1 <= length (dec_digits f n))%nat.
Proof.
  induction f as [| f IH]; intros n Hn Hf; [lia |].
  cbn [dec_digits].
  destruct (Z.ltb_spec n 10).
  - cbn [length]. change (10 ^ Z.of_nat 1) with 10. change (10 ^ (Z.of_nat 1 - 1)) with 1. lia.
  - rewrite pow10_S in Hn.
    assert (Hf' : (0 < f)%nat).
    { destruct f; [| lia]. simpl in Hn. lia. }
    destruct (IH (n / 10)) as [A [B C]]; [pose proof (pow10_pos f); lia | exact Hf' |].
    rewrite app_length. cbn [length]. rewrite Nat.add_1_r.
    split; [| split].
    + rewrite pow10_S. lia.
    + intros _. replace (Z.of_nat (S (length (dec_digits f (n / 10)))) - 1)
        with (Z.succ (Z.of_nat (length (dec_digits f (n / 10))) - 1)) by lia.
      rewrite Z.pow_succ_r by lia. specialize (B ltac:(lia)). lia.
    + lia.
Qed.

(* ------------------------------------------------------------------------ the parse loop *)

Lemma digits_no_nul : forall l, Forall (fun c => 48 <= c <= 57) l -> Forall (fun c => c <> 0) l.
Proof. intros l H. eapply Forall_impl; [| exact H]. cbn. intros; lia. Qed.

Lemma umod_pos : forall ty, 0 < umod ty.
Proof. intros []; reflexivity. Qed.

(* with the NUL terminator the loop always completes: fast_atoi is total, on EVERY text *)
Lemma loop_total : forall ty l r, exists v, atoi_loop ty 0 l r = AR_ok v /\
  (0 <= r < umod ty -> 0 <= v < umod ty).
Proof.
  intros ty. induction l as [| c l IH]; intros r; cbn [atoi_loop].
  - exists r. split; [reflexivity | auto].
  - destruct (c =? 0); [exists r; split; [reflexivity | auto] |].
    destruct (IH (atoi_step ty r c)) as [v [E B]]. exists v. split; [exact E |].
    intros _. apply B. unfold atoi_step. apply Z.mod_pos_bound. apply umod_pos.
Qed.

Lemma loop_fold : forall ty l r, Forall (fun c => c <> 0) l ->
  atoi_loop ty 0 l r = AR_ok (fold_left (atoi_step ty) l r).
Proof.
  intros ty l. induction l as [| c l IH]; intros r H; cbn [atoi_loop fold_left].
  - reflexivity.
  - inversion H; subst. destruct (Z.eqb_spec c 0); [contradiction |]. apply IH. assumption.
Qed.

(* the accumulator is the Horner value of the characters, reduced mod 2^bits(U) *)
Lemma fold_mod : forall ty l a r, a mod umod ty = r mod umod ty -> a = a mod umod ty ->
  fold_left (atoi_step ty) l a = (horner l r) mod umod ty.
Proof.
  intros ty. pose proof (umod_pos ty) as Mpos.
  induction l as [| c l IH]; intros a r H Ha; cbn [fold_left horner].
  - rewrite Ha. exact H.
  - change (fold_left (fun a0 c0 => 10 * a0 + schar c0 - 48) l (10 * r + schar c - 48))
      with (horner l (10 * r + schar c - 48)).
    apply IH.
    + unfold atoi_step. rewrite Z.mod_mod by lia.
      replace (10 * r + schar c - 48) with (r * 10 + (schar c - 48)) by lia.
      rewrite Z.add_mod, Z.mod_mod by lia.
      rewrite (Z.add_mod (r * 10)) by lia.
      rewrite (Z.mul_mod a), (Z.mul_mod r), H by lia. reflexivity.
    + unfold atoi_step. rewrite Z.mod_mod by lia. reflexivity.
Qed.

Lemma loop_digits : forall ty n, 0 <= n < 10 ^ 25 ->
  atoi_loop ty 0 (dec_digits dec_fuel n) 0 = AR_ok (n mod umod ty).
Proof.
  intros ty n Hn.
  rewrite loop_fold by (apply digits_no_nul, dec_digits_are_digits; lia).
  rewrite (fold_mod ty _ 0 0) by (destruct ty; reflexivity).
  rewrite horner_dec_digits by (try (unfold dec_fuel; lia); exact Hn).
  rewrite Z.mul_0_l, Z.add_0_l. reflexivity.
Qed.

Lemma sint32_small : forall x, -2147483648 <= x < 2147483648 -> sint32 x = x.
Proof. intros x H. unfold sint32, W32, W31. destruct (Z.ltb_spec (x mod 4294967296) 2147483648); lia. Qed.

Lemma sint32_range : forall x, -2147483648 <= sint32 x < 2147483648.
Proof. intros x. unfold sint32, W32, W31. destruct (Z.ltb_spec (x mod 4294967296) 2147483648); lia. Qed.

(* fast_atoi<int> on the canonical text of ANY int32 *)
Lemma atoi_int_canon : forall v, -2147483648 <= v < 2147483648 ->
  fast_atoi T_int 0 (canon_dec v) = AR_ok v.
Proof.
  intros v Hv. unfold fast_atoi, canon_dec. destruct (Z.ltb_spec v 0).
  - rewrite Z.eqb_refl. cbn [tl]. rewrite loop_digits by lia. cbn [umod]. f_equal.
    unfold sint32, W32, W31.
    destruct (Z.ltb_spec (((0 - (- v) mod 4294967296) mod 4294967296) mod 4294967296) 2147483648); lia.
  - pose proof (dec_digits_nonempty dec_fuel v ltac:(unfold dec_fuel; lia)) as N.
    pose proof (dec_digits_are_digits dec_fuel v ltac:(lia)) as F.
    destruct (dec_digits dec_fuel v) as [| c r] eqn:E; [contradiction |].
    inversion F; subst. destruct (Z.eqb_spec c 45); [lia |].
    rewrite <- E, loop_digits by lia. cbn [umod]. f_equal.
    unfold W32. rewrite Z.mod_small by lia. apply sint32_small. lia.
Qed.

Lemma atoi_uns_canon : forall ty, ty = T_uint \/ ty = T_ushort -> forall n, 0 <= n < umod ty ->
  fast_atoi ty 0 (dec_digits dec_fuel n) = AR_ok n.
Proof.
  intros ty Hty n Hn.
  assert (Hb : umod ty <= 4294967296) by (destruct Hty as [-> | ->]; cbn [umod]; unfold W32, W16; lia).
  assert (Ef : fast_atoi ty 0 (dec_digits dec_fuel n) =
               match atoi_loop ty 0 (dec_digits dec_fuel n) 0 with AR_ok r => AR_ok r | AR_oob => AR_oob end).
  { destruct Hty as [-> | ->]; unfold fast_atoi; destruct (dec_digits dec_fuel n); reflexivity. }
  rewrite Ef, loop_digits by lia. rewrite Z.mod_small by lia. reflexivity.
Qed.

(* fast_atoi is total and free of undefined operations on EVERY text, and its result is a value
   of the target type *)
Lemma atoi_total_lemma : forall text,
  (exists v, fast_atoi T_int 0 text = AR_ok v /\ -2147483648 <= v <= 2147483647) /\
  (exists v, fast_atoi T_uint 0 text = AR_ok v /\ 0 <= v <= 4294967295) /\
  (exists v, fast_atoi T_ushort 0 text = AR_ok v /\ 0 <= v <= 65535).
Proof.
  intros text. repeat split.
  - unfold fast_atoi.
    set (neg := match text with c :: _ => c =? 45 | [] => false end).
    destruct (loop_total T_int (if neg then tl text else text) 0) as [r [E _]]. rewrite E.
    eexists. split; [reflexivity |]. pose proof (sint32_range (if neg then (0 - r) mod umod T_int else r)). lia.
  - unfold fast_atoi. destruct (loop_total T_uint text 0) as [r [E B]].
    assert (Es : (if match text with _ => false end then tl text else text) = text) by (destruct text; reflexivity).
    cbv zeta. replace (match text with | [] | _ => false end) with false by (destruct text; reflexivity).
    rewrite E. exists r. split; [reflexivity |]. specialize (B ltac:(cbn [umod]; unfold W32, W16; lia)). cbn [umod] in B. unfold W32, W16 in B. lia.
  - unfold fast_atoi. destruct (loop_total T_ushort text 0) as [r [E B]].
    cbv zeta. replace (match text with | [] | _ => false end) with false by (destruct text; reflexivity).
    rewrite E. exists r. split; [reflexivity |]. specialize (B ltac:(cbn [umod]; unfold W32, W16; lia)). cbn [umod] in B. unfold W32, W16 in B. lia.
Qed.

(* --------------------------------------------------------------------------- round trips *)

Definition ar_opt (r : atoi_result) : option Z := match r with AR_ok v => Some v | _ => None end.

Lemma list_eqb_refl : forall l, list_eqb l l = true.
Proof. induction l as [| x l IH]; cbn [list_eqb]; [reflexivity |]. rewrite Z.eqb_refl, IH. reflexivity. Qed.

Lemma list_eqb_eq : forall a b, list_eqb a b = true -> a = b.
Proof.
  induction a as [| x a IH]; intros [| y b] H; cbn [list_eqb] in H; try discriminate; [reflexivity |].
  apply andb_prop in H. destruct H as [H1 H2]. apply Z.eqb_eq in H1. subst. f_equal. apply IH. exact H2.
Qed.

Lemma c08_int_ok_iff : forall v t r, c08_int_ok v t r = true <-> t = canon_dec v /\ r = v.
Proof.
  intros v t r. unfold c08_int_ok. split.
  - intros H. apply andb_prop in H. destruct H as [H1 H2].
    apply list_eqb_eq in H1. apply Z.eqb_eq in H2. split; assumption.
  - intros [-> ->]. rewrite list_eqb_refl, Z.eqb_refl. reflexivity.
Qed.

(* THE integer half of the property: every int32 is rendered as its canonical text and that text
   parses back to it (the routine has no undefined operation at all: atoi_total_lemma) *)
Lemma int_roundtrip_lemma : forall v, -2147483648 <= v < 2147483648 ->
  int_roundtrip v = Some (canon_dec v, AR_ok v) /\
  c08_int_strict_ok v (canon_dec v) (Some v) = true.
Proof.
  intros v Hv. split.
  - unfold int_roundtrip. rewrite itoa_int_canonical_lemma by exact Hv.
    rewrite atoi_int_canon by exact Hv. reflexivity.
  - unfold c08_int_strict_ok. apply c08_int_ok_iff. split; reflexivity.
Qed.

Lemma uint_roundtrip_lemma : forall v, 0 <= v < 4294967296 ->
  uint_roundtrip v = Some (canon_dec v, AR_ok v).
Proof.
  intros v Hv. unfold uint_roundtrip.
  rewrite itoa_uint_canonical_lemma by lia.
  unfold canon_dec. destruct (Z.ltb_spec v 0); [lia |].
  rewrite (atoi_uns_canon T_uint) by (try (left; reflexivity); cbn [umod]; unfold W32; lia). reflexivity.
Qed.

Lemma ushort_parse_lemma : forall v, 0 <= v < 65536 ->
  fast_atoi T_ushort 0 (canon_dec v) = AR_ok v.
Proof.
  intros v Hv. unfold canon_dec. destruct (Z.ltb_spec v 0); [lia |].
  rewrite (atoi_uns_canon T_ushort) by (try (right; reflexivity); cbn [umod]; unfold W16; lia). reflexivity.
Qed.

(* ------------------------------------------------------------------------ oracle level *)

Lemma canon_value_sound : forall t v, canon_value t = Some v -> t = canon_dec v.
Proof.
  intros t v. unfold canon_value.
  destruct (match t with c :: r => if c =? 45 then (true, r) else (false, t) | [] => (false, t) end) as [neg ds].
  destruct (forallb is_dig ds && negb match ds with [] => true | _ :: _ => false end); [| discriminate].
  destruct (list_eqb t (canon_dec (if neg then - digits_value ds else digits_value ds))) eqn:E; [| discriminate].
  intros H. inversion H; subst. apply list_eqb_eq. exact E.
Qed.

(* the parser clause on EVERY text, for all three instantiations: whenever the text is the
   canonical decimal of a value of the type, that value is returned (and, for int, no undefined
   operation occurs) *)
Lemma atoi_any_text_lemma : forall text,
  c08_atoi_ok (-2147483648) 2147483647 text (ar_opt (fast_atoi T_int 0 text)) = true /\
  c08_atoi_ok 0 4294967295 text (ar_opt (fast_atoi T_uint 0 text)) = true /\
  c08_atoi_ok 0 65535 text (ar_opt (fast_atoi T_ushort 0 text)) = true.
Proof.
  intros text. unfold c08_atoi_ok.
  destruct (canon_value text) as [v |] eqn:E; [| repeat split; reflexivity].
  apply canon_value_sound in E. subst text. repeat split.
  - destruct (Z.leb_spec (-2147483648) v); cbn [andb]; [| reflexivity].
    destruct (Z.leb_spec v 2147483647); [| reflexivity].
    rewrite atoi_int_canon by lia. cbn [ar_opt]. apply Z.eqb_refl.
  - destruct (Z.leb_spec 0 v); cbn [andb]; [| reflexivity].
    destruct (Z.leb_spec v 4294967295); [| reflexivity].
    unfold canon_dec. destruct (Z.ltb_spec v 0); [lia |].
    rewrite (atoi_uns_canon T_uint) by (try (left; reflexivity); cbn [umod]; unfold W32; lia). cbn [ar_opt]. apply Z.eqb_refl.
  - destruct (Z.leb_spec 0 v); cbn [andb]; [| reflexivity].
    destruct (Z.leb_spec v 65535); [| reflexivity].
    rewrite ushort_parse_lemma by lia. cbn [ar_opt]. apply Z.eqb_refl.
Qed.

(* the specification text denotes the value: Horner evaluation of canon_dec *)
Lemma digits_value_horner : forall l, Forall (fun c => 48 <= c <= 57) l ->
  forall r, fold_left (fun a c => 10 * a + (c - 48)) l r = horner l r.
Proof.
  induction l as [| c l IH]; intros H r; cbn [fold_left horner]; [reflexivity |].
  inversion H; subst.
  change (fold_left (fun a0 c0 => 10 * a0 + schar c0 - 48) l (10 * r + schar c - 48))
    with (horner l (10 * r + schar c - 48)).
  rewrite IH by assumption. f_equal. unfold schar. destruct (Z.ltb_spec c 128); lia.
Qed.

Lemma canon_dec_denotes_lemma : forall v, Z.abs v < 10 ^ 25 -> canon_value (canon_dec v) = Some v.
Proof.
  intros v Hv. unfold canon_value.
  assert (Hd : forall n, 0 <= n < 10 ^ 25 -> digits_value (dec_digits dec_fuel n) = n).
  { intros n Hn. unfold digits_value.
    rewrite digits_value_horner by (apply dec_digits_are_digits; lia).
    rewrite horner_dec_digits by (try (unfold dec_fuel; lia); exact Hn). lia. }
  assert (Hf : forall n, 0 <= n -> forallb is_dig (dec_digits dec_fuel n) = true).
  { intros n Hn. apply forallb_forall. intros c Hc.
    pose proof (dec_digits_are_digits dec_fuel n Hn) as F. rewrite Forall_forall in F.
    specialize (F c Hc). unfold is_dig. apply andb_true_intro. split; apply Z.leb_le; lia. }
  assert (Hne : forall n, negb match dec_digits dec_fuel n with [] => true | _ :: _ => false end = true).
  { intros n. pose proof (dec_digits_nonempty dec_fuel n ltac:(unfold dec_fuel; lia)) as N.
    destruct (dec_digits dec_fuel n); [contradiction | reflexivity]. }
  destruct (Z.ltb_spec v 0).
  - assert (Ht : canon_dec v = 45 :: dec_digits dec_fuel (- v))
      by (unfold canon_dec; destruct (Z.ltb_spec v 0); [reflexivity | lia]).
    assert (Hm : match canon_dec v with
                 | c :: r => if c =? 45 then (true, r) else (false, canon_dec v)
                 | [] => (false, canon_dec v) end = (true, dec_digits dec_fuel (- v))).
    { rewrite Ht. rewrite Z.eqb_refl. reflexivity. }
    rewrite Hm. rewrite Hf, Hne by lia. cbn [andb].
    rewrite Hd by lia. rewrite Z.opp_involutive, list_eqb_refl. reflexivity.
  - assert (Ht : canon_dec v = dec_digits dec_fuel v)
      by (unfold canon_dec; destruct (Z.ltb_spec v 0); [lia | reflexivity]).
    assert (Hm : match canon_dec v with
                 | c :: r => if c =? 45 then (true, r) else (false, canon_dec v)
                 | [] => (false, canon_dec v) end = (false, dec_digits dec_fuel v)).
    { rewrite Ht. pose proof (dec_digits_are_digits dec_fuel v ltac:(lia)) as F.
      destruct (dec_digits dec_fuel v) as [| c r]; [reflexivity |].
      inversion F; subst. destruct (Z.eqb_spec c 45); [lia | reflexivity]. }
    rewrite Hm. rewrite Hf, Hne by lia. cbn [andb].
    rewrite Hd by lia. rewrite list_eqb_refl. reflexivity.
Qed.

(* --------------------------------------------- the routine before the repair: witnesses *)

(* "-5" was read as the number with leading "digit" '-' - '0' = -3: -25 *)
Lemma atoi_neg_orig_refuted_lemma :
  itoa_int (-5) 10 = Some [45; 53] /\ fast_atoi_orig [45; 53] = -25 /\
  fast_atoi_checked_orig [45; 53] = AC_shift_negative /\
  fast_atoi T_int 0 [45; 53] = AR_ok (-5).
Proof. vm_compute. repeat split; reflexivity. Qed.

(* INT_MAX: 2147483640 + '7' was evaluated before '0' was subtracted *)
Lemma atoi_top_overflow_orig_refuted_lemma :
  itoa_int 2147483647 10 = Some [50; 49; 52; 55; 52; 56; 51; 54; 52; 55] /\
  fast_atoi_checked_orig [50; 49; 52; 55; 52; 56; 51; 54; 52; 55] = AC_overflow /\
  fast_atoi T_int 0 [50; 49; 52; 55; 52; 56; 51; 54; 52; 55] = AR_ok 2147483647.
Proof. vm_compute. repeat split; reflexivity. Qed.
