(* Proofs about the integer conversions (NumInt.v) against the specification Spec_C08.v. *)
From Coq Require Import ZArith List Bool Lia.
From F8 Require Import C08.NumInt C08.Spec_C08.
Import ListNotations.
Local Open Scope Z_scope.

Ltac Zify.zify_post_hook ::= Z.to_euclidean_division_equations.

(* ------------------------------------------------------------------------- small facts *)

Lemma digit_char_dec : forall r, -9 <= r <= 9 -> digit_char r = 48 + Z.abs r.
Proof.
  intros r H.
  assert (H' : r = -9 \/ r = -8 \/ r = -7 \/ r = -6 \/ r = -5 \/ r = -4 \/ r = -3 \/ r = -2 \/
               r = -1 \/ r = 0 \/ r = 1 \/ r = 2 \/ r = 3 \/ r = 4 \/ r = 5 \/ r = 6 \/ r = 7 \/
               r = 8 \/ r = 9) by lia.
  repeat (destruct H' as [-> | H']; [reflexivity |]). subst r. reflexivity.
Qed.

Lemma quot10_abs : forall n, Z.abs (Z.quot n 10) = Z.abs n / 10.
Proof. intros n. lia. Qed.

Lemma rem10_abs : forall n, Z.abs (n - Z.quot n 10 * 10) = Z.abs n mod 10.
Proof. intros n. lia. Qed.

Lemma rem10_range : forall n, -9 <= n - Z.quot n 10 * 10 <= 9.
Proof. intros n. lia. Qed.

Lemma pow10_S : forall f : nat, 10 ^ Z.of_nat (S f) = 10 * 10 ^ Z.of_nat f.
Proof. intros f. rewrite Nat2Z.inj_succ, Z.pow_succ_r by lia. reflexivity. Qed.

Lemma pow10_pos : forall f : nat, 0 < 10 ^ Z.of_nat f.
Proof. intros f. apply Z.pow_pos_nonneg; lia. Qed.

(* ---------------------------------------------------------------- itoa = canonical text *)

(* the digit loop, run on any value whose magnitude fits the fuel, writes the decimal digits of
   |n| least significant first, and the last tmp_value has the sign of n *)
Lemma itoa_loop_dec : forall f1 f2 n buf,
  Z.abs n < 10 ^ Z.of_nat f1 -> Z.abs n < 10 ^ Z.of_nat f2 -> (0 < f1)%nat -> (0 < f2)%nat ->
  exists t, itoa_loop f1 10 n buf = Some (buf ++ rev (dec_digits f2 (Z.abs n)), t) /\
            (t <? 0) = (n <? 0).
Proof.
  induction f1 as [| f1 IH]; intros f2 n buf H1 H2 Hf1 Hf2.
  - lia.
  - destruct f2 as [| f2]; [lia |].
    cbn [itoa_loop dec_digits].
    rewrite digit_char_dec by apply rem10_range.
    rewrite rem10_abs.
    destruct (Z.quot n 10 =? 0) eqn:Eq.
    + apply Z.eqb_eq in Eq.
      assert (Hlt : Z.abs n < 10) by lia.
      apply Z.ltb_lt in Hlt. rewrite Hlt.
      exists n. split; [| reflexivity].
      unfold emit. cbn [rev app].
      replace (Z.abs n mod 10) with (Z.abs n) by lia. reflexivity.
    + apply Z.eqb_neq in Eq.
      assert (Hge : 10 <= Z.abs n) by lia.
      assert (Hnlt : (Z.abs n <? 10) = false) by (apply Z.ltb_ge; lia).
      rewrite Hnlt.
      rewrite pow10_S in H1, H2.
      assert (Hf2' : (0 < f2)%nat).
      { destruct f2; [| lia]. simpl in H2. lia. }
      destruct (IH f2 (Z.quot n 10) (emit buf (48 + Z.abs n mod 10))) as [t [E S]].
      * rewrite quot10_abs. pose proof (pow10_pos f1). lia.
      * rewrite quot10_abs. pose proof (pow10_pos f2). lia.
      * destruct f1; [| lia]. simpl in H1. lia.
      * exact Hf2'.
      * exists t. split.
        -- rewrite E. rewrite quot10_abs. unfold emit.
           rewrite rev_app_distr. cbn [rev app]. rewrite <- app_assoc. reflexivity.
        -- rewrite S. destruct (Z.ltb_spec (Z.quot n 10) 0); destruct (Z.ltb_spec n 0); lia.
Qed.

Lemma itoa_int_canon_gen : forall v, Z.abs v < 10 ^ 25 -> itoa_int v 10 = Some (canon_dec v).
Proof.
  intros v Hv. unfold itoa_int. cbn [Z.ltb Z.compare orb].
  destruct (itoa_loop_dec itoa_fuel dec_fuel v [] ) as [t [E S]].
  - change (10 ^ Z.of_nat itoa_fuel) with (10 ^ 40). lia.
  - exact Hv.
  - unfold itoa_fuel. lia.
  - unfold dec_fuel. lia.
  - rewrite E, S. unfold canon_dec, strreverse, emit. cbn [app].
    destruct (Z.ltb_spec v 0).
    + rewrite rev_app_distr, rev_involutive. cbn [rev app].
      replace (Z.abs v) with (- v) by lia. reflexivity.
    + rewrite rev_involutive. replace (Z.abs v) with v by lia. reflexivity.
Qed.

Lemma itoa_int_canonical_lemma : forall v,
  -2147483648 <= v < 2147483648 -> itoa_int v 10 = Some (canon_dec v).
Proof. intros v H. apply itoa_int_canon_gen. lia. Qed.

Lemma itoa_uint_canonical_lemma : forall v,
  0 <= v < 4294967296 -> itoa_uint v 10 = Some (canon_dec v).
Proof.
  intros v Hv. unfold itoa_uint. cbn [Z.ltb Z.compare orb].
  destruct (itoa_loop_dec itoa_fuel dec_fuel v []) as [t [E S]].
  - change (10 ^ Z.of_nat itoa_fuel) with (10 ^ 40). lia.
  - change (10 ^ Z.of_nat dec_fuel) with (10 ^ 25). lia.
  - unfold itoa_fuel. lia.
  - unfold dec_fuel. lia.
  - rewrite E. unfold canon_dec, strreverse. cbn [app].
    destruct (Z.ltb_spec v 0); [lia |].
    rewrite rev_involutive. replace (Z.abs v) with v by lia. reflexivity.
Qed.

(* ------------------------------------------------------------------ digits and their value *)

Lemma dec_digits_are_digits : forall f n, 0 <= n ->
  Forall (fun c => 48 <= c <= 57) (dec_digits f n).
Proof.
  induction f as [| f IH]; intros n Hn; cbn [dec_digits].
  - constructor.
  - destruct (Z.ltb_spec n 10).
    + constructor; [lia | constructor].
    + apply Forall_app. split.
      * apply IH. lia.
      * constructor; [lia | constructor].
Qed.

Lemma dec_digits_nonempty : forall f n, (0 < f)%nat -> dec_digits f n <> [].
Proof.
  intros [| f] n Hf; [lia |]. cbn [dec_digits].
  destruct (n <? 10); [discriminate |]. intros E. apply app_eq_nil in E. destruct E; discriminate.
Qed.

(* the integer arithmetic behind fast_atoi, before any wrap-around *)
Definition horner (l : list Z) (r : Z) : Z := fold_left (fun a c => 10 * a + schar c - 48) l r.

Lemma horner_app : forall a b r, horner (a ++ b) r = horner b (horner a r).
Proof. intros. unfold horner. apply fold_left_app. Qed.

Definition dlen (n : Z) : Z := Z.of_nat (length (dec_digits dec_fuel n)).

Lemma horner_dec_digits : forall f n r, 0 <= n < 10 ^ Z.of_nat f -> (0 < f)%nat ->
  horner (dec_digits f n) r = r * 10 ^ Z.of_nat (length (dec_digits f n)) + n.
Proof.
  induction f as [| f IH]; intros n r Hn Hf; [lia |].
  cbn [dec_digits].
  destruct (Z.ltb_spec n 10).
  - cbn [horner fold_left length]. unfold schar.
    destruct (Z.ltb_spec (48 + n) 128); [| lia]. change (10 ^ Z.of_nat 1) with 10. lia.
  - rewrite pow10_S in Hn.
    assert (Hf' : (0 < f)%nat).
    { destruct f; [| lia]. simpl in Hn. lia. }
    rewrite horner_app, IH by (try lia; pose proof (pow10_pos f); lia).
    rewrite app_length. cbn [length horner fold_left]. unfold schar.
    destruct (Z.ltb_spec (48 + n mod 10) 128); [| lia].
    rewrite Nat.add_1_r, pow10_S. lia.
Qed.

(* 10^(len-1) <= n < 10^len for n >= 1 *)
Lemma dec_digits_len : forall f n, 0 <= n < 10 ^ Z.of_nat f -> (0 < f)%nat ->
  n < 10 ^ Z.of_nat (length (dec_digits f n)) /\
  (1 <= n -> 10 ^ (Z.of_nat (length (dec_digits f n)) - 1) <= n) /\
  (1 <= length (dec_digits f n))%nat.
Proof.
  induction f as [| f IH]; intros n Hn Hf; [lia |].
  cbn [dec_digits].
  destruct (Z.ltb_spec n 10).
  - cbn [length]. change (10 ^ Z.of_nat 1) with 10. change (10 ^ (Z.of_nat 1 - 1)) with 1. lia.
  - rewrite pow10_S in Hn.
    assert (Hf' : (0 < f)%nat).
    { destruct f; [| lia]. simpl in Hn. lia. }
    destruct (IH (n / 10)) as [A [B C]]; [pose proof (pow10_pos f); lia | exact Hf' |].
    rewrite app_length. cbn [length]. rewrite Nat.add_1_r.
    split; [| split].
    + rewrite pow10_S. lia.
    + intros _. replace (Z.of_nat (S (length (dec_digits f (n / 10)))) - 1)
        with (Z.succ (Z.of_nat (length (dec_digits f (n / 10))) - 1)) by lia.
      rewrite Z.pow_succ_r by lia. specialize (B ltac:(lia)). lia.
    + lia.
Qed.

(* ---------------------------------------------------------------------- fast_atoi as a fold *)

Lemma fast_atoi_from_fold : forall ty l r, Forall (fun c => c <> 0) l ->
  fast_atoi_from ty 0 l r = Some (fold_left (atoi_step ty) l r).
Proof.
  intros ty l. induction l as [| c l IH]; intros r H; cbn [fast_atoi_from fold_left].
  - reflexivity.
  - inversion H; subst. destruct (Z.eqb_spec c 0); [contradiction |]. apply IH. assumption.
Qed.

Lemma sint32_mod : forall x, sint32 x mod W32 = x mod W32.
Proof. intros x. unfold sint32, W32, W31. destruct (Z.ltb_spec (x mod 4294967296) 2147483648); lia. Qed.

Lemma sint32_cong : forall a b, a mod W32 = b mod W32 -> sint32 a = sint32 b.
Proof. intros a b H. unfold sint32. rewrite H. reflexivity. Qed.

Lemma sint32_small : forall x, -2147483648 <= x < 2147483648 -> sint32 x = x.
Proof. intros x H. unfold sint32, W32, W31. destruct (Z.ltb_spec (x mod 4294967296) 2147483648); lia. Qed.

Lemma shl3 : forall x, Z.shiftl x 3 = x * 8.
Proof. intros. rewrite Z.shiftl_mul_pow2 by lia. reflexivity. Qed.
Lemma shl1 : forall x, Z.shiftl x 1 = x * 2.
Proof. intros. rewrite Z.shiftl_mul_pow2 by lia. reflexivity. Qed.

Lemma mod_lin : forall M a b k, 0 < M -> a mod M = b mod M ->
  (a * 8 + a * 2 + k) mod M = (10 * b + k) mod M.
Proof.
  intros M a b k HM H.
  replace (a * 8 + a * 2 + k) with (10 * a + k) by lia.
  rewrite Z.add_mod, Z.mul_mod, H, <- Z.mul_mod, <- Z.add_mod by lia. reflexivity.
Qed.

Lemma atoi_fold_int : forall l a r, a mod W32 = r mod W32 -> a = sint32 a ->
  fold_left (atoi_step T_int) l a = sint32 (horner l r).
Proof.
  induction l as [| c l IH]; intros a r H Ha; cbn [fold_left horner].
  - rewrite Ha. apply sint32_cong. exact H.
  - change (fold_left (fun a0 c0 => 10 * a0 + schar c0 - 48) l (10 * r + schar c - 48))
      with (horner l (10 * r + schar c - 48)).
    apply IH.
    + unfold atoi_step. rewrite sint32_mod, shl3, shl1.
      replace (a * 8 + a * 2 + schar c - 48) with (a * 8 + a * 2 + (schar c - 48)) by lia.
      replace (10 * r + schar c - 48) with (10 * r + (schar c - 48)) by lia.
      apply mod_lin; [reflexivity | exact H].
    + unfold atoi_step. symmetry. apply sint32_cong. apply sint32_mod.
Qed.

Lemma atoi_fold_mod : forall ty M, (ty = T_uint /\ M = W32) \/ (ty = T_ushort /\ M = W16) ->
  forall l a r, a mod M = r mod M -> a = a mod M ->
  fold_left (atoi_step ty) l a = (horner l r) mod M.
Proof.
  intros ty M HM.
  assert (Mpos : 0 < M) by (destruct HM as [[_ ->] | [_ ->]]; reflexivity).
  assert (Hstep : forall a c, atoi_step ty a c = (a * 8 + a * 2 + (schar c - 48)) mod M).
  { intros a c. unfold atoi_step. rewrite shl3, shl1.
    replace (a * 8 + a * 2 + schar c - 48) with (a * 8 + a * 2 + (schar c - 48)) by lia.
    destruct HM as [[-> ->] | [-> ->]]; reflexivity. }
  induction l as [| c l IH]; intros a r H Ha; cbn [fold_left horner].
  - rewrite Ha. exact H.
  - change (fold_left (fun a0 c0 => 10 * a0 + schar c0 - 48) l (10 * r + schar c - 48))
      with (horner l (10 * r + schar c - 48)).
    apply IH.
    + rewrite Hstep, Z.mod_mod by lia.
      replace (10 * r + schar c - 48) with (10 * r + (schar c - 48)) by lia.
      apply mod_lin; [exact Mpos | exact H].
    + rewrite Hstep, Z.mod_mod by lia. reflexivity.
Qed.

Lemma digits_no_nul : forall l, Forall (fun c => 48 <= c <= 57) l -> Forall (fun c => c <> 0) l.
Proof. intros l H. eapply Forall_impl; [| exact H]. cbn. intros; lia. Qed.

(* fast_atoi on the decimal digits of n, whatever the target type: the value n, wrapped *)
Lemma atoi_int_digits : forall n, 0 <= n < 10 ^ 25 ->
  fast_atoi T_int 0 (dec_digits dec_fuel n) = Some (sint32 n).
Proof.
  intros n Hn. unfold fast_atoi.
  rewrite fast_atoi_from_fold by (apply digits_no_nul, dec_digits_are_digits; lia).
  rewrite (atoi_fold_int _ 0 0) by reflexivity.
  rewrite horner_dec_digits by (try (unfold dec_fuel; lia); exact Hn).
  rewrite Z.mul_0_l, Z.add_0_l. reflexivity.
Qed.

Lemma atoi_mod_digits : forall ty M, (ty = T_uint /\ M = W32) \/ (ty = T_ushort /\ M = W16) ->
  forall n, 0 <= n < 10 ^ 25 -> fast_atoi ty 0 (dec_digits dec_fuel n) = Some (n mod M).
Proof.
  intros ty M HM n Hn. unfold fast_atoi.
  rewrite fast_atoi_from_fold by (apply digits_no_nul, dec_digits_are_digits; lia).
  rewrite (atoi_fold_mod ty M HM _ 0 0) by (destruct HM as [[_ ->] | [_ ->]]; reflexivity).
  rewrite horner_dec_digits by (try (unfold dec_fuel; lia); exact Hn).
  rewrite Z.mul_0_l, Z.add_0_l. reflexivity.
Qed.

(* the text of a negative number: '-' is taken as the digit 45 - 48 = -3 *)
Lemma atoi_int_neg_text : forall n, 0 <= n < 10 ^ 25 ->
  fast_atoi T_int 0 (45 :: dec_digits dec_fuel n) = Some (sint32 (n - 3 * 10 ^ dlen n)).
Proof.
  intros n Hn. unfold fast_atoi.
  rewrite fast_atoi_from_fold.
  2:{ constructor; [lia |]. apply digits_no_nul, dec_digits_are_digits; lia. }
  cbn [fold_left].
  change (atoi_step T_int 0 45) with (-3).
  rewrite (atoi_fold_int _ (-3) (-3)) by reflexivity.
  rewrite horner_dec_digits by (try (unfold dec_fuel; lia); exact Hn).
  unfold dlen. do 2 f_equal. lia.
Qed.

(* --------------------------------------------------------------------------- round trips *)

Lemma int_roundtrip_nonneg_lemma : forall v, 0 <= v < 2147483648 ->
  int_roundtrip v = Some (canon_dec v, v).
Proof.
  intros v Hv. unfold int_roundtrip.
  rewrite itoa_int_canonical_lemma by lia.
  unfold canon_dec. destruct (Z.ltb_spec v 0); [lia |].
  rewrite atoi_int_digits by lia. rewrite sint32_small by lia. reflexivity.
Qed.

Lemma uint_roundtrip_lemma : forall v, 0 <= v < 4294967296 ->
  uint_roundtrip v = Some (canon_dec v, v).
Proof.
  intros v Hv. unfold uint_roundtrip.
  rewrite itoa_uint_canonical_lemma by lia.
  unfold canon_dec. destruct (Z.ltb_spec v 0); [lia |].
  rewrite (atoi_mod_digits T_uint W32) by (try lia; left; split; reflexivity).
  unfold W32. rewrite Z.mod_small by lia. reflexivity.
Qed.

Lemma ushort_parse_lemma : forall v, 0 <= v < 65536 ->
  fast_atoi T_ushort 0 (canon_dec v) = Some v.
Proof.
  intros v Hv. unfold canon_dec. destruct (Z.ltb_spec v 0); [lia |].
  rewrite (atoi_mod_digits T_ushort W16) by (try lia; right; split; reflexivity).
  unfold W16. rewrite Z.mod_small by lia. reflexivity.
Qed.

(* what the code does with the text of a negative int *)
Lemma int_roundtrip_neg_lemma : forall v, -2147483648 <= v < 0 ->
  int_roundtrip v = Some (canon_dec v, sint32 (- v - 3 * 10 ^ dlen (- v))).
Proof.
  intros v Hv. unfold int_roundtrip.
  rewrite itoa_int_canonical_lemma by lia.
  unfold canon_dec. destruct (Z.ltb_spec v 0); [| lia].
  rewrite atoi_int_neg_text by lia. reflexivity.
Qed.

Lemma dlen_bounds : forall n, 1 <= n <= 2147483648 ->
  1 <= dlen n <= 10 /\ 10 ^ (dlen n - 1) <= n < 10 ^ dlen n.
Proof.
  intros n Hn. unfold dlen.
  destruct (dec_digits_len dec_fuel n) as [A [B C]].
  - change (10 ^ Z.of_nat dec_fuel) with (10 ^ 25). lia.
  - unfold dec_fuel. lia.
  - specialize (B ltac:(lia)).
    split; [| lia]. split; [lia |].
    destruct (Z.le_gt_cases (Z.of_nat (length (dec_digits dec_fuel n))) 10) as [L | G]; [exact L |].
    exfalso.
    assert (10 ^ 10 <= 10 ^ (Z.of_nat (length (dec_digits dec_fuel n)) - 1))
      by (apply Z.pow_le_mono_r; lia).
    change (10 ^ 10) with 10000000000 in *. lia.
Qed.

(* ... and it is the wrong value for every negative int but one *)
Lemma int_roundtrip_neg_wrong_lemma : forall v r t, -2147483648 <= v < 0 -> v <> -2115098112 ->
  int_roundtrip v = Some (t, r) -> r <> v.
Proof.
  intros v r t Hv Hx E.
  rewrite int_roundtrip_neg_lemma in E by exact Hv. inversion E; subst; clear E.
  destruct (dlen_bounds (- v)) as [[L1 L2] [B1 B2]]; [lia |].
  assert (Hd : dlen (- v) = 1 \/ dlen (- v) = 2 \/ dlen (- v) = 3 \/ dlen (- v) = 4 \/ dlen (- v) = 5 \/
               dlen (- v) = 6 \/ dlen (- v) = 7 \/ dlen (- v) = 8 \/ dlen (- v) = 9 \/ dlen (- v) = 10) by lia.
  unfold sint32, W32, W31.
  repeat (destruct Hd as [Hd | Hd];
          [rewrite Hd in *; cbn in B1, B2 |- *;
           match goal with |- context [?x mod 4294967296 <? 2147483648] =>
             destruct (Z.ltb_spec (x mod 4294967296) 2147483648) end; lia |]).
  rewrite Hd in *; cbn in B1, B2 |- *.
  match goal with |- context [?x mod 4294967296 <? 2147483648] =>
    destruct (Z.ltb_spec (x mod 4294967296) 2147483648) end; lia.
Qed.

(* ------------------------------------------------------------------------ oracle level *)

Lemma list_eqb_refl : forall l, list_eqb l l = true.
Proof. induction l as [| x l IH]; cbn [list_eqb]; [reflexivity |]. rewrite Z.eqb_refl, IH. reflexivity. Qed.

Lemma list_eqb_eq : forall a b, list_eqb a b = true -> a = b.
Proof.
  induction a as [| x a IH]; intros [| y b] H; cbn [list_eqb] in H; try discriminate; [reflexivity |].
  apply andb_prop in H. destruct H as [H1 H2]. apply Z.eqb_eq in H1. subst. f_equal. apply IH. exact H2.
Qed.

Lemma c08_int_ok_iff : forall v t r, c08_int_ok v t r = true <-> t = canon_dec v /\ r = v.
Proof.
  intros v t r. unfold c08_int_ok. split.
  - intros H. apply andb_prop in H. destruct H as [H1 H2].
    apply list_eqb_eq in H1. apply Z.eqb_eq in H2. split; assumption.
  - intros [-> ->]. rewrite list_eqb_refl, Z.eqb_refl. reflexivity.
Qed.

Lemma canon_value_sound : forall t v, canon_value t = Some v -> t = canon_dec v.
Proof.
  intros t v. unfold canon_value.
  destruct (match t with c :: r => if c =? 45 then (true, r) else (false, t) | [] => (false, t) end) as [neg ds].
  destruct (forallb is_dig ds && negb match ds with [] => true | _ :: _ => false end); [| discriminate].
  destruct (list_eqb t (canon_dec (if neg then - digits_value ds else digits_value ds))) eqn:E; [| discriminate].
  intros H. inversion H; subst. apply list_eqb_eq. exact E.
Qed.

(* the unsigned parsers meet the parser clause on EVERY text *)
Lemma atoi_uint_ok_lemma : forall text,
  c08_atoi_ok 0 4294967295 text (fast_atoi T_uint 0 text) = true.
Proof.
  intros text. unfold c08_atoi_ok.
  destruct (canon_value text) as [v |] eqn:E; [| reflexivity].
  apply canon_value_sound in E. subst text.
  destruct (Z.leb_spec 0 v); cbn [andb]; [| reflexivity].
  destruct (Z.leb_spec v 4294967295); [| reflexivity].
  unfold canon_dec. destruct (Z.ltb_spec v 0); [lia |].
  rewrite (atoi_mod_digits T_uint W32) by (try lia; left; split; reflexivity).
  unfold W32. rewrite Z.mod_small by lia. apply Z.eqb_refl.
Qed.

Lemma atoi_ushort_ok_lemma : forall text,
  c08_atoi_ok 0 65535 text (fast_atoi T_ushort 0 text) = true.
Proof.
  intros text. unfold c08_atoi_ok.
  destruct (canon_value text) as [v |] eqn:E; [| reflexivity].
  apply canon_value_sound in E. subst text.
  destruct (Z.leb_spec 0 v); cbn [andb]; [| reflexivity].
  destruct (Z.leb_spec v 65535); [| reflexivity].
  rewrite ushort_parse_lemma by lia. apply Z.eqb_refl.
Qed.

(* the int parser meets it on every text that does not denote a negative number *)
Lemma atoi_int_ok_partial_lemma : forall text,
  match canon_value text with Some v => 0 <=? v | None => true end = true ->
  c08_atoi_ok (-2147483648) 2147483647 text (fast_atoi T_int 0 text) = true.
Proof.
  intros text. unfold c08_atoi_ok.
  destruct (canon_value text) as [v |] eqn:E; [| reflexivity].
  intros Hv. apply Z.leb_le in Hv.
  apply canon_value_sound in E. subst text.
  destruct (Z.leb_spec (-2147483648) v); cbn [andb]; [| reflexivity].
  destruct (Z.leb_spec v 2147483647); [| reflexivity].
  unfold canon_dec. destruct (Z.ltb_spec v 0); [lia |].
  rewrite atoi_int_digits by lia. rewrite sint32_small by lia. apply Z.eqb_refl.
Qed.

(* the specification text denotes the value: Horner evaluation of canon_dec *)
Lemma digits_value_horner : forall l, Forall (fun c => 48 <= c <= 57) l ->
  forall r, fold_left (fun a c => 10 * a + (c - 48)) l r = horner l r.
Proof.
  induction l as [| c l IH]; intros H r; cbn [fold_left horner]; [reflexivity |].
  inversion H; subst.
  change (fold_left (fun a0 c0 => 10 * a0 + schar c0 - 48) l (10 * r + schar c - 48))
    with (horner l (10 * r + schar c - 48)).
  rewrite IH by assumption. f_equal. unfold schar. destruct (Z.ltb_spec c 128); lia.
Qed.

Lemma canon_dec_denotes_lemma : forall v, Z.abs v < 10 ^ 25 -> canon_value (canon_dec v) = Some v.
Proof.
  intros v Hv. unfold canon_value.
  assert (Hd : forall n, 0 <= n < 10 ^ 25 -> digits_value (dec_digits dec_fuel n) = n).
  { intros n Hn. unfold digits_value.
    rewrite digits_value_horner by (apply dec_digits_are_digits; lia).
    rewrite horner_dec_digits by (try (unfold dec_fuel; lia); exact Hn). lia. }
  assert (Hf : forall n, 0 <= n -> forallb is_dig (dec_digits dec_fuel n) = true).
  { intros n Hn. apply forallb_forall. intros c Hc.
    pose proof (dec_digits_are_digits dec_fuel n Hn) as F. rewrite Forall_forall in F.
    specialize (F c Hc). unfold is_dig. apply andb_true_intro. split; apply Z.leb_le; lia. }
  assert (Hne : forall n, negb match dec_digits dec_fuel n with [] => true | _ :: _ => false end = true).
  { intros n. pose proof (dec_digits_nonempty dec_fuel n ltac:(unfold dec_fuel; lia)) as N.
    destruct (dec_digits dec_fuel n); [contradiction | reflexivity]. }
  destruct (Z.ltb_spec v 0).
  - assert (Ht : canon_dec v = 45 :: dec_digits dec_fuel (- v))
      by (unfold canon_dec; destruct (Z.ltb_spec v 0); [reflexivity | lia]).
    assert (Hm : match canon_dec v with
                 | c :: r => if c =? 45 then (true, r) else (false, canon_dec v)
                 | [] => (false, canon_dec v) end = (true, dec_digits dec_fuel (- v))).
    { rewrite Ht. rewrite Z.eqb_refl. reflexivity. }
    rewrite Hm. rewrite Hf, Hne by lia. cbn [andb].
    rewrite Hd by lia. rewrite Z.opp_involutive, list_eqb_refl. reflexivity.
  - assert (Ht : canon_dec v = dec_digits dec_fuel v)
      by (unfold canon_dec; destruct (Z.ltb_spec v 0); [lia | reflexivity]).
    assert (Hm : match canon_dec v with
                 | c :: r => if c =? 45 then (true, r) else (false, canon_dec v)
                 | [] => (false, canon_dec v) end = (false, dec_digits dec_fuel v)).
    { rewrite Ht. pose proof (dec_digits_are_digits dec_fuel v ltac:(lia)) as F.
      destruct (dec_digits dec_fuel v) as [| c r]; [reflexivity |].
      inversion F; subst. destruct (Z.eqb_spec c 45); [lia | reflexivity]. }
    rewrite Hm. rewrite Hf, Hne by lia. cbn [andb].
    rewrite Hd by lia. rewrite list_eqb_refl. reflexivity.
Qed.

Lemma int_roundtrip_nonneg_ok_lemma : forall v, 0 <= v < 2147483648 ->
  int_roundtrip v = Some (canon_dec v, v) /\ c08_int_ok v (canon_dec v) v = true.
Proof.
  intros v H. split; [exact (int_roundtrip_nonneg_lemma v H) | apply c08_int_ok_iff; split; reflexivity].
Qed.

Lemma atoi_unsigned_any_text_lemma : forall text,
  c08_atoi_ok 0 4294967295 text (fast_atoi T_uint 0 text) = true /\
  c08_atoi_ok 0 65535 text (fast_atoi T_ushort 0 text) = true.
Proof. intros text. split; [apply atoi_uint_ok_lemma | apply atoi_ushort_ok_lemma]. Qed.

(* --------------------------------------------- fast_atoi<int> under the checked C++ rules *)

Lemma checked_app : forall a b r,
  Forall (fun c => c <> 0) a ->
  fast_atoi_checked_from (a ++ b) r =
  match fast_atoi_checked_from a r with AC_ok r' => fast_atoi_checked_from b r' | e => e end.
Proof.
  induction a as [| c a IH]; intros b r H; cbn [app fast_atoi_checked_from].
  - destruct b; reflexivity.
  - inversion H; subst. destruct (Z.eqb_spec c 0); [contradiction |].
    destruct (atoi_step_checked r c); try reflexivity. apply IH. assumption.
Qed.

(* one digit appended to a non-negative prefix value q: fine iff 10 q + d + 48 fits *)
Lemma step_checked_digit : forall q d, 0 <= q <= 214748364 -> 0 <= d <= 9 ->
  atoi_step_checked q (48 + d) =
  if 10 * q + d + 48 <? 2147483648 then AC_ok (10 * q + d) else AC_overflow.
Proof.
  intros q d Hq Hd. unfold atoi_step_checked, in_int, W31.
  rewrite shl3, shl1.
  assert (Hs : schar (48 + d) = 48 + d) by (unfold schar; destruct (Z.ltb_spec (48 + d) 128); lia).
  rewrite Hs.
  destruct (Z.ltb_spec q 0); [lia |].
  destruct (Z.ltb_spec (10 * q + d + 48) 2147483648) as [L | L].
  - assert (E1 : ((-2147483648 <=? q * 8) && (q * 8 <? 2147483648)) = true)
      by (apply andb_true_intro; split; [apply Z.leb_le | apply Z.ltb_lt]; lia).
    assert (E2 : ((-2147483648 <=? q * 2) && (q * 2 <? 2147483648)) = true)
      by (apply andb_true_intro; split; [apply Z.leb_le | apply Z.ltb_lt]; lia).
    assert (E3 : ((-2147483648 <=? q * 8 + q * 2) && (q * 8 + q * 2 <? 2147483648)) = true)
      by (apply andb_true_intro; split; [apply Z.leb_le | apply Z.ltb_lt]; lia).
    assert (E4 : ((-2147483648 <=? q * 8 + q * 2 + (48 + d)) && (q * 8 + q * 2 + (48 + d) <? 2147483648)) = true)
      by (apply andb_true_intro; split; [apply Z.leb_le | apply Z.ltb_lt]; lia).
    assert (E5 : ((-2147483648 <=? q * 8 + q * 2 + (48 + d) - 48) && (q * 8 + q * 2 + (48 + d) - 48 <? 2147483648)) = true)
      by (apply andb_true_intro; split; [apply Z.leb_le | apply Z.ltb_lt]; lia).
    change (- (2147483648)) with (-2147483648).
    rewrite E1, E2, E3, E4, E5. cbn [andb negb]. f_equal. lia.
  - assert (E1 : ((-2147483648 <=? q * 8) && (q * 8 <? 2147483648)) = true)
      by (apply andb_true_intro; split; [apply Z.leb_le | apply Z.ltb_lt]; lia).
    assert (E2 : ((-2147483648 <=? q * 2) && (q * 2 <? 2147483648)) = true)
      by (apply andb_true_intro; split; [apply Z.leb_le | apply Z.ltb_lt]; lia).
    change (- (2147483648)) with (-2147483648).
    rewrite E1, E2. cbn [andb negb].
    destruct ((-2147483648 <=? q * 8 + q * 2) && (q * 8 + q * 2 <? 2147483648)); cbn [negb]; [| reflexivity].
    assert (E4 : ((-2147483648 <=? q * 8 + q * 2 + (48 + d)) && (q * 8 + q * 2 + (48 + d) <? 2147483648)) = false).
    { apply andb_false_intro2. apply Z.ltb_ge. lia. }
    rewrite E4. reflexivity.
Qed.

Lemma checked_digits_ok : forall f n, 0 <= n < 10 ^ Z.of_nat f -> (0 < f)%nat -> n < 2147483600 ->
  fast_atoi_checked_from (dec_digits f n) 0 = AC_ok n.
Proof.
  induction f as [| f IH]; intros n Hn Hf Hb; [lia |].
  cbn [dec_digits]. destruct (Z.ltb_spec n 10).
  - cbn [fast_atoi_checked_from]. destruct (Z.eqb_spec (48 + n) 0); [lia |].
    rewrite step_checked_digit by lia.
    destruct (Z.ltb_spec (10 * 0 + n + 48) 2147483648); [| lia]. f_equal; lia.
  - rewrite pow10_S in Hn.
    assert (Hf' : (0 < f)%nat) by (destruct f; [simpl in Hn; lia | lia]).
    rewrite checked_app by (apply digits_no_nul, dec_digits_are_digits; lia).
    rewrite IH by (try lia; pose proof (pow10_pos f); lia).
    cbn [fast_atoi_checked_from]. destruct (Z.eqb_spec (48 + n mod 10) 0); [lia |].
    rewrite step_checked_digit by lia.
    destruct (Z.ltb_spec (10 * (n / 10) + n mod 10 + 48) 2147483648); [| lia]. f_equal; lia.
Qed.

Lemma dec_digits_S : forall f n,
  dec_digits (S f) n = if n <? 10 then [48 + n] else dec_digits f (n / 10) ++ [48 + n mod 10].
Proof. reflexivity. Qed.

Lemma checked_digits_overflow : forall n, 2147483600 <= n < 2147483648 ->
  fast_atoi_checked_from (dec_digits dec_fuel n) 0 = AC_overflow.
Proof.
  intros n Hn. change dec_fuel with (S 24). rewrite dec_digits_S.
  destruct (Z.ltb_spec n 10); [lia |].
  rewrite checked_app by (apply digits_no_nul, dec_digits_are_digits; lia).
  rewrite checked_digits_ok by (try lia; change (10 ^ Z.of_nat 24) with (10 ^ 24); lia).
  cbn [fast_atoi_checked_from]. destruct (Z.eqb_spec (48 + n mod 10) 0); [lia |].
  rewrite step_checked_digit by lia.
  destruct (Z.ltb_spec (10 * (n / 10) + n mod 10 + 48) 2147483648); [lia | reflexivity].
Qed.

(* [0, 2147483600): no undefined behaviour and the value comes back *)
Lemma int_roundtrip_checked_ok_lemma : forall v, 0 <= v < 2147483600 ->
  int_roundtrip_checked v = Some (canon_dec v, AC_ok v) /\
  c08_int_strict_ok v (canon_dec v) (Some v) = true.
Proof.
  intros v Hv. unfold int_roundtrip_checked. rewrite itoa_int_canonical_lemma by lia. split.
  - f_equal. f_equal. unfold fast_atoi_checked, canon_dec. destruct (Z.ltb_spec v 0); [lia |].
    apply checked_digits_ok; [change (10 ^ Z.of_nat dec_fuel) with (10 ^ 25); lia | unfold dec_fuel; lia | lia].
  - unfold c08_int_strict_ok. apply c08_int_ok_iff. split; reflexivity.
Qed.

(* [2147483600, INT_MAX]: the last digit is added before '0' is subtracted: signed overflow *)
Lemma int_roundtrip_checked_top_lemma : forall v, 2147483600 <= v < 2147483648 ->
  int_roundtrip_checked v = Some (canon_dec v, AC_overflow).
Proof.
  intros v Hv. unfold int_roundtrip_checked. rewrite itoa_int_canonical_lemma by lia.
  f_equal. f_equal. unfold fast_atoi_checked, canon_dec. destruct (Z.ltb_spec v 0); [lia |].
  apply checked_digits_overflow. exact Hv.
Qed.

(* negative values: the '-' leaves retval = -3, which is then shifted *)
Lemma int_roundtrip_checked_neg_lemma : forall v, -2147483648 <= v < 0 ->
  int_roundtrip_checked v = Some (canon_dec v, AC_shift_negative).
Proof.
  intros v Hv. unfold int_roundtrip_checked. rewrite itoa_int_canonical_lemma by lia.
  f_equal. f_equal. unfold fast_atoi_checked, canon_dec. destruct (Z.ltb_spec v 0); [| lia].
  cbn [fast_atoi_checked_from Z.eqb].
  change (atoi_step_checked 0 45) with (AC_ok (-3)). cbv iota.
  pose proof (dec_digits_nonempty dec_fuel (- v) ltac:(unfold dec_fuel; lia)) as N.
  pose proof (dec_digits_are_digits dec_fuel (- v) ltac:(lia)) as F.
  destruct (dec_digits dec_fuel (- v)) as [| c r]; [contradiction |].
  inversion F; subst. cbn [fast_atoi_checked_from]. destruct (Z.eqb_spec c 0); [lia |].
  reflexivity.
Qed.

(* the checked parser refines the wrapping one: when no rule is broken both give the same value *)
Lemma checked_refines_from : forall str r v, -2147483648 <= r < 2147483648 ->
  fast_atoi_checked_from str r = AC_ok v -> fast_atoi_from T_int 0 str r = Some v.
Proof.
  induction str as [| c str IH]; intros r v Hr H; cbn [fast_atoi_checked_from fast_atoi_from] in *.
  - inversion H. reflexivity.
  - destruct (Z.eqb_spec c 0); [inversion H; reflexivity |].
    destruct (atoi_step_checked r c) as [r' | | |] eqn:E; try discriminate.
    assert (Hstep : atoi_step T_int r c = r' /\ -2147483648 <= r' < 2147483648).
    { unfold atoi_step_checked in E. rewrite shl3, shl1 in E. unfold atoi_step. rewrite shl3, shl1.
      destruct (r <? 0); [discriminate |].
      destruct (negb (in_int (r * 8) && in_int (r * 2))); [discriminate |].
      destruct (negb (in_int (r * 8 + r * 2))); [discriminate |].
      destruct (negb (in_int (r * 8 + r * 2 + schar c))); [discriminate |].
      destruct (negb (in_int (r * 8 + r * 2 + schar c - 48))) eqn:B; [discriminate |].
      injection E as E. subst r'. apply negb_false_iff in B. unfold in_int, W31 in B.
      apply andb_prop in B. destruct B as [B1 B2].
      apply Z.leb_le in B1. apply Z.ltb_lt in B2.
      split; [apply sint32_small; lia | lia]. }
    destruct Hstep as [-> Hr']. apply IH; assumption.
Qed.

Lemma checked_refines_lemma : forall str v,
  fast_atoi_checked str = AC_ok v -> fast_atoi T_int 0 str = Some v.
Proof. intros str v H. apply checked_refines_from; [lia | exact H]. Qed.
