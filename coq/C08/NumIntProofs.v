(* Proofs about the integer conversions (NumInt.v) against the specification Spec_C08.v. *)
From Coq Require Import ZArith List Bool Lia.
From F8 Require Import C08.NumInt C08.Spec_C08.
Import ListNotations.
Local Open Scope Z_scope.

Ltac Zify.zify_post_hook ::= Z.to_euclidean_division_equations.

(* ------------------------------------------------------------------------- small facts *)

Lemma digit_char_dec : forall r, -9 <= r <= 9 -> digit_char r = 48 + Z.abs r.
Proof.
  intros r H.
  assert (H' : r = -9 \/ r = -8 \/ r = -7 \/ r = -6 \/ r = -5 \/ r = -4 \/ r = -3 \/ r = -2 \/
               r = -1 \/ r = 0 \/ r = 1 \/ r = 2 \/ r = 3 \/ r = 4 \/ r = 5 \/ r = 6 \/ r = 7 \/
               r = 8 \/ r = 9) by lia.
  repeat (destruct H' as [-> | H']; [reflexivity |]). subst r. reflexivity.
Qed.

Lemma quot10_abs : forall n, Z.abs (Z.quot n 10) = Z.abs n / 10.
Proof. intros n. lia. Qed.

Lemma rem10_abs : forall n, Z.abs (n - Z.quot n 10 * 10) = Z.abs n mod 10.
Proof. intros n. lia. Qed.

Lemma rem10_range : forall n, -9 <= n - Z.quot n 10 * 10 <= 9.
Proof. intros n. lia. Qed.

Lemma pow10_S : forall f : nat, 10 ^ Z.of_nat (S f) = 10 * 10 ^ Z.of_nat f.
Proof. intros f. rewrite Nat2Z.inj_succ, Z.pow_succ_r by lia. reflexivity. Qed.

Lemma pow10_pos : forall f : nat, 0 < 10 ^ Z.of_nat f.
Proof. intros f. apply Z.pow_pos_nonneg; lia. Qed.

(* ---------------------------------------------------------------- itoa = canonical text *)

(* the digit loop, run on any value whose magnitude fits the fuel, writes the decimal digits of
   |n| least significant first, and the last tmp_value has the sign of n *)
Lemma itoa_loop_dec : forall f1 f2 n buf,
  Z.abs n < 10 ^ Z.of_nat f1 -> Z.abs n < 10 ^ Z.of_nat f2 -> (0 < f1)%nat -> (0 < f2)%nat ->
  exists t, itoa_loop f1 10 n buf = Some (buf ++ rev (dec_digits f2 (Z.abs n)), t) /\
            (t <? 0) = (n <? 0).
Proof.
  induction f1 as [| f1 IH]; intros f2 n buf H1 H2 Hf1 Hf2.
  - lia.
  - destruct f2 as [| f2]; [lia |].
    cbn [itoa_loop dec_digits].
    rewrite digit_char_dec by apply rem10_range.
    rewrite rem10_abs.
    destruct (Z.quot n 10 =? 0) eqn:Eq.
    + apply Z.eqb_eq in Eq.
      assert (Hlt : Z.abs n < 10) by lia.
      apply Z.ltb_lt in Hlt. rewrite Hlt.
      exists n. split; [| reflexivity].
      unfold emit. cbn [rev app].
      replace (Z.abs n mod 10) with (Z.abs n) by lia. reflexivity.
    + apply Z.eqb_neq in Eq.
      assert (Hge : 10 <= Z.abs n) by lia.
      assert (Hnlt : (Z.abs n <? 10) = false) by (apply Z.ltb_ge; lia).
      rewrite Hnlt.
      rewrite pow10_S in H1, H2.
      assert (Hf2' : (0 < f2)%nat).
      { destruct f2; [| lia]. simpl in H2. lia. }
      destruct (IH f2 (Z.quot n 10) (emit buf (48 + Z.abs n mod 10))) as [t [E S]].
      * rewrite quot10_abs. pose proof (pow10_pos f1). lia.
      * rewrite quot10_abs. pose proof (pow10_pos f2). lia.
      * destruct f1; [| lia]. simpl in H1. lia.
      * exact Hf2'.
      * exists t. split.
        -- rewrite E. rewrite quot10_abs. unfold emit.
           rewrite rev_app_distr. cbn [rev app]. rewrite <- app_assoc. reflexivity.
        -- rewrite S. destruct (Z.ltb_spec (Z.quot n 10) 0); destruct (Z.ltb_spec n 0); lia.
Qed.

Lemma itoa_int_canon_gen : forall v, Z.abs v < 10 ^ 25 -> itoa_int v 10 = Some (canon_dec v).
Proof.
  intros v Hv. unfold itoa_int. cbn [Z.ltb Z.compare orb].
  destruct (itoa_loop_dec itoa_fuel dec_fuel v [] ) as [t [E S]].
  - change (10 ^ Z.of_nat itoa_fuel) with (10 ^ 40). lia.
  - exact Hv.
  - unfold itoa_fuel. lia.
  - unfold dec_fuel. lia.
  - rewrite E, S. unfold canon_dec, strreverse, emit. cbn [app].
    destruct (Z.ltb_spec v 0).
    + rewrite rev_app_distr, rev_involutive. cbn [rev app].
      replace (Z.abs v) with (- v) by lia. reflexivity.
    + rewrite rev_involutive. replace (Z.abs v) with v by lia. reflexivity.
Qed.

Lemma itoa_int_canonical_lemma : forall v,
  -2147483648 <= v < 2147483648 -> itoa_int v 10 = Some (canon_dec v).
Proof. intros v H. apply itoa_int_canon_gen. lia. Qed.

Lemma itoa_uint_canonical_lemma : forall v,
  0 <= v < 4294967296 -> itoa_uint v 10 = Some (canon_dec v).
Proof.
  intros v Hv. unfold itoa_uint. cbn [Z.ltb Z.compare orb].
  destruct (itoa_loop_dec itoa_fuel dec_fuel v []) as [t [E S]].
  - change (10 ^ Z.of_nat itoa_fuel) with (10 ^ 40). lia.
  - change (10 ^ Z.of_nat dec_fuel) with (10 ^ 25). lia.
  - unfold itoa_fuel. lia.
  - unfold dec_fuel. lia.
  - rewrite E. unfold canon_dec, strreverse. cbn [app].
    destruct (Z.ltb_spec v 0); [lia |].
    rewrite rev_involutive. replace (Z.abs v) with v by lia. reflexivity.
Qed.

(* ------------------------------------------------------------------ digits and their value *)

Lemma dec_digits_are_digits : forall f n, 0 <= n ->
  Forall (fun c => 48 <= c <= 57) (dec_digits f n).
Proof.
  induction f as [| f IH]; intros n Hn; cbn [dec_digits].
  - constructor.
  - destruct (Z.ltb_spec n 10).
    + constructor; [lia | constructor].
    + apply Forall_app. split.
      * apply IH. lia.
      * constructor; [lia | constructor].
Qed.

Lemma dec_digits_nonempty : forall f n, (0 < f)%nat -> dec_digits f n <> [].
Proof.
  intros [| f] n Hf; [lia |]. cbn [dec_digits].
  destruct (n <? 10); [discriminate |]. intros E. apply app_eq_nil in E. destruct E; discriminate.
Qed.

(* the integer arithmetic behind fast_atoi, before any wrap-around *)
Definition horner (l : list Z) (r : Z) : Z := fold_left (fun a c => 10 * a + schar c - 48) l r.

Lemma horner_app : forall a b r, horner (a ++ b) r = horner b (horner a r).
Proof. intros. unfold horner. apply fold_left_app. Qed.

Lemma horner_dec_digits : forall f n r, 0 <= n < 10 ^ Z.of_nat f -> (0 < f)%nat ->
  horner (dec_digits f n) r = r * 10 ^ Z.of_nat (length (dec_digits f n)) + n.
Proof.
  induction f as [| f IH]; intros n r Hn Hf; [lia |].
  cbn [dec_digits].
  destruct (Z.ltb_spec n 10).
  - cbn [horner fold_left length]. unfold schar.
    destruct (Z.ltb_spec (48 + n) 128); [| lia]. change (10 ^ Z.of_nat 1) with 10. lia.
  - rewrite pow10_S in Hn.
    assert (Hf' : (0 < f)%nat).
    { destruct f; [| lia]. simpl in Hn. lia. }
    rewrite horner_app, IH by (try lia; pose proof (pow10_pos f); lia).
    rewrite app_length. cbn [length horner fold_left]. unfold schar.
    destruct (Z.ltb_spec (48 + n mod 10) 128); [| lia].
    rewrite Nat.add_1_r, pow10_S. lia.
Qed.

(* 10^(len-1) <= n < 10^len for n >= 1 *)
Lemma dec_digits_len : forall f n, 0 <= n < 10 ^ Z.of_nat f -> (0 < f)%nat ->
  n < 10 ^ Z.of_nat (length (dec_digits f n)) /\
  (1 <= n -> 10 ^ (Z.of_nat (length (dec_digits f n)) - 1) <= n) /\
  (1 <= length (dec_digits f n))%nat.
Proof.
  induction f as [| f IH]; intros n Hn Hf; [lia |].
  cbn [dec_digits].
  destruct (Z.ltb_spec n 10).
  - cbn [length]. change (10 ^ Z.of_nat 1) with 10. change (10 ^ (Z.of_nat 1 - 1)) with 1. lia.
  - rewrite pow10_S in Hn.
    assert (Hf' : (0 < f)%nat).
    { destruct f; [| lia]. simpl in Hn. lia. }
    destruct (IH (n / 10)) as [A [B C]]; [pose proof (pow10_pos f); lia | exact Hf' |].
    rewrite app_length. cbn [length]. rewrite Nat.add_1_r.
    split; [| split].
    + rewrite pow10_S. lia.
    + intros _. replace (Z.of_nat (S (length (dec_digits f (n / 10)))) - 1)
        with (Z.succ (Z.of_nat (length (dec_digits f (n / 10))) - 1)) by lia.
      rewrite Z.pow_succ_r by lia. specialize (B ltac:(lia)). lia.
    + lia.
Qed.

(* ------------------------------------------------------------------------ the parse loop *)

Lemma loop_app : forall step a b r,
  Forall (fun c => c <> 0) a ->
  atoi_loop step 0 (a ++ b) r =
  match atoi_loop step 0 a r with AR_ok r' => atoi_loop step 0 b r' | e => e end.
Proof.
  intros step. induction a as [| c a IH]; intros b r H; cbn [app atoi_loop].
  - destruct b; reflexivity.
  - inversion H; subst. destruct (Z.eqb_spec c 0); [contradiction |].
    destruct (step r c); try reflexivity. apply IH. assumption.
Qed.

Lemma digits_no_nul : forall l, Forall (fun c => 48 <= c <= 57) l -> Forall (fun c => c <> 0) l.
Proof. intros l H. eapply Forall_impl; [| exact H]. cbn. intros; lia. Qed.

Lemma schar_digit : forall d, 0 <= d <= 9 -> schar (48 + d) = 48 + d.
Proof. intros d H. unfold schar. destruct (Z.ltb_spec (48 + d) 128); lia. Qed.

Lemma in_int_true : forall x, -2147483648 <= x < 2147483648 -> in_int x = true.
Proof. intros x H. unfold in_int, W31. apply andb_true_intro. split; [apply Z.leb_le | apply Z.ltb_lt]; lia. Qed.

(* T = int, one more digit d after a prefix q whose extension 10 q + d still fits: no operation
   leaves int (upwards for non-negative numbers, downwards after a '-') *)
Lemma int_step_up : forall q d, 0 <= q -> 0 <= d <= 9 -> 10 * q + d <= 2147483647 ->
  int_step false q (48 + d) = AR_ok (10 * q + d).
Proof.
  intros q d Hq Hd Hb. unfold int_step. rewrite schar_digit by exact Hd.
  rewrite in_int_true by lia. cbn [negb]. rewrite in_int_true by lia. cbn [negb]. f_equal. lia.
Qed.

Lemma int_step_down : forall q d, 0 <= q -> 0 <= d <= 9 -> 10 * q + d <= 2147483648 ->
  int_step true (- q) (48 + d) = AR_ok (- (10 * q + d)).
Proof.
  intros q d Hq Hd Hb. unfold int_step. rewrite schar_digit by exact Hd.
  rewrite in_int_true by lia. cbn [negb]. rewrite in_int_true by lia. cbn [negb]. f_equal. lia.
Qed.

Lemma up_digits : forall f n, 0 <= n < 10 ^ Z.of_nat f -> (0 < f)%nat -> n <= 2147483647 ->
  atoi_loop (int_step false) 0 (dec_digits f n) 0 = AR_ok n.
Proof.
  induction f as [| f IH]; intros n Hn Hf Hb; [lia |].
  cbn [dec_digits]. destruct (Z.ltb_spec n 10).
  - cbn [atoi_loop]. destruct (Z.eqb_spec (48 + n) 0); [lia |].
    rewrite int_step_up by lia. cbn [Z.eqb]. f_equal; lia.
  - rewrite pow10_S in Hn.
    assert (Hf' : (0 < f)%nat) by (destruct f; [simpl in Hn; lia | lia]).
    rewrite loop_app by (apply digits_no_nul, dec_digits_are_digits; lia).
    rewrite IH by (try lia; pose proof (pow10_pos f); lia).
    cbn [atoi_loop]. destruct (Z.eqb_spec (48 + n mod 10) 0); [lia |].
    rewrite int_step_up by lia. cbn [Z.eqb]. f_equal; lia.
Qed.

Lemma down_digits : forall f n, 0 <= n < 10 ^ Z.of_nat f -> (0 < f)%nat -> n <= 2147483648 ->
  atoi_loop (int_step true) 0 (dec_digits f n) 0 = AR_ok (- n).
Proof.
  induction f as [| f IH]; intros n Hn Hf Hb; [lia |].
  cbn [dec_digits]. destruct (Z.ltb_spec n 10).
  - cbn [atoi_loop]. destruct (Z.eqb_spec (48 + n) 0); [lia |].
    change (int_step true 0 (48 + n)) with (int_step true (- 0) (48 + n)). rewrite int_step_down by lia. cbn [Z.eqb]. f_equal; lia.
  - rewrite pow10_S in Hn.
    assert (Hf' : (0 < f)%nat) by (destruct f; [simpl in Hn; lia | lia]).
    rewrite loop_app by (apply digits_no_nul, dec_digits_are_digits; lia).
    rewrite IH by (try lia; pose proof (pow10_pos f); lia).
    cbn [atoi_loop]. destruct (Z.eqb_spec (48 + n mod 10) 0); [lia |].
    rewrite int_step_down by lia. cbn [Z.eqb]. f_equal; lia.
Qed.

(* fast_atoi<int> on the canonical text of ANY int32: the value, and no undefined operation *)
Lemma atoi_int_canon : forall v, -2147483648 <= v < 2147483648 ->
  fast_atoi T_int 0 (canon_dec v) = AR_ok v.
Proof.
  intros v Hv. unfold fast_atoi, canon_dec. destruct (Z.ltb_spec v 0).
  - rewrite Z.eqb_refl.
    rewrite down_digits; [f_equal; lia | change (10 ^ Z.of_nat dec_fuel) with (10 ^ 25); lia | unfold dec_fuel; lia | lia].
  - pose proof (dec_digits_nonempty dec_fuel v ltac:(unfold dec_fuel; lia)) as N.
    pose proof (dec_digits_are_digits dec_fuel v ltac:(lia)) as F.
    destruct (dec_digits dec_fuel v) as [| c r] eqn:E; [contradiction |].
    inversion F; subst. destruct (Z.eqb_spec c 45); [lia |].
    rewrite <- E. apply up_digits; [change (10 ^ Z.of_nat dec_fuel) with (10 ^ 25); lia | unfold dec_fuel; lia | lia].
Qed.

(* ------------------------------------------------------------------- the unsigned parsers *)

Definition uns_val (ty : ity) (raw : Z) : Z := match ty with T_ushort => raw mod W16 | _ => raw mod W32 end.

Lemma uns_loop_fold : forall ty l r, Forall (fun c => c <> 0) l ->
  atoi_loop (uns_step ty) 0 l r =
  AR_ok (fold_left (fun a c => uns_val ty (a * 10 + (schar c - 48))) l r).
Proof.
  intros ty l. induction l as [| c l IH]; intros r H; cbn [atoi_loop fold_left].
  - reflexivity.
  - inversion H; subst. destruct (Z.eqb_spec c 0); [contradiction |].
    assert (E : uns_step ty r c = AR_ok (uns_val ty (r * 10 + (schar c - 48)))) by (destruct ty; reflexivity).
    rewrite E. apply IH. assumption.
Qed.

Lemma uns_fold_mod : forall ty M, (ty = T_uint /\ M = W32) \/ (ty = T_ushort /\ M = W16) ->
  forall l a r, a mod M = r mod M -> a = a mod M ->
  fold_left (fun a c => uns_val ty (a * 10 + (schar c - 48))) l a = (horner l r) mod M.
Proof.
  intros ty M HM.
  assert (Mpos : 0 < M) by (destruct HM as [[_ ->] | [_ ->]]; reflexivity).
  assert (Hval : forall x, uns_val ty x = x mod M) by (intros x; destruct HM as [[-> ->] | [-> ->]]; reflexivity).
  induction l as [| c l IH]; intros a r H Ha; cbn [fold_left horner].
  - rewrite Ha. exact H.
  - change (fold_left (fun a0 c0 => 10 * a0 + schar c0 - 48) l (10 * r + schar c - 48))
      with (horner l (10 * r + schar c - 48)).
    apply IH.
    + rewrite Hval, Z.mod_mod by lia.
      replace (10 * r + schar c - 48) with (r * 10 + (schar c - 48)) by lia.
      rewrite Z.add_mod, Z.mul_mod, H, <- Z.mul_mod, <- Z.add_mod by lia. reflexivity.
    + rewrite Hval, Z.mod_mod by lia. reflexivity.
Qed.

Lemma atoi_mod_digits : forall ty M, (ty = T_uint /\ M = W32) \/ (ty = T_ushort /\ M = W16) ->
  forall n, 0 <= n < 10 ^ 25 -> fast_atoi ty 0 (dec_digits dec_fuel n) = AR_ok (n mod M).
Proof.
  intros ty M HM n Hn.
  assert (Ef : fast_atoi ty 0 (dec_digits dec_fuel n) = atoi_loop (uns_step ty) 0 (dec_digits dec_fuel n) 0)
    by (destruct HM as [[-> _] | [-> _]]; reflexivity).
  rewrite Ef, uns_loop_fold by (apply digits_no_nul, dec_digits_are_digits; lia).
  rewrite (uns_fold_mod ty M HM _ 0 0) by (destruct HM as [[_ ->] | [_ ->]]; reflexivity).
  rewrite horner_dec_digits by (try (unfold dec_fuel; lia); exact Hn).
  rewrite Z.mul_0_l, Z.add_0_l. reflexivity.
Qed.

(* --------------------------------------------------------------------------- round trips *)

Definition ar_opt (r : atoi_result) : option Z := match r with AR_ok v => Some v | _ => None end.

Lemma list_eqb_refl : forall l, list_eqb l l = true.
Proof. induction l as [| x l IH]; cbn [list_eqb]; [reflexivity |]. rewrite Z.eqb_refl, IH. reflexivity. Qed.

Lemma list_eqb_eq : forall a b, list_eqb a b = true -> a = b.
Proof.
  induction a as [| x a IH]; intros [| y b] H; cbn [list_eqb] in H; try discriminate; [reflexivity |].
  apply andb_prop in H. destruct H as [H1 H2]. apply Z.eqb_eq in H1. subst. f_equal. apply IH. exact H2.
Qed.

Lemma c08_int_ok_iff : forall v t r, c08_int_ok v t r = true <-> t = canon_dec v /\ r = v.
Proof.
  intros v t r. unfold c08_int_ok. split.
  - intros H. apply andb_prop in H. destruct H as [H1 H2].
    apply list_eqb_eq in H1. apply Z.eqb_eq in H2. split; assumption.
  - intros [-> ->]. rewrite list_eqb_refl, Z.eqb_refl. reflexivity.
Qed.

(* THE integer half of the property: every int32 is rendered as its canonical text and that text
   parses back to it, without any undefined operation *)
Lemma int_roundtrip_lemma : forall v, -2147483648 <= v < 2147483648 ->
  int_roundtrip v = Some (canon_dec v, AR_ok v) /\
  c08_int_strict_ok v (canon_dec v) (Some v) = true.
Proof.
  intros v Hv. split.
  - unfold int_roundtrip. rewrite itoa_int_canonical_lemma by exact Hv.
    rewrite atoi_int_canon by exact Hv. reflexivity.
  - unfold c08_int_strict_ok. apply c08_int_ok_iff. split; reflexivity.
Qed.

Lemma uint_roundtrip_lemma : forall v, 0 <= v < 4294967296 ->
  uint_roundtrip v = Some (canon_dec v, AR_ok v).
Proof.
  intros v Hv. unfold uint_roundtrip.
  rewrite itoa_uint_canonical_lemma by lia.
  unfold canon_dec. destruct (Z.ltb_spec v 0); [lia |].
  rewrite (atoi_mod_digits T_uint W32) by (try lia; left; split; reflexivity).
  unfold W32. rewrite Z.mod_small by lia. reflexivity.
Qed.

Lemma ushort_parse_lemma : forall v, 0 <= v < 65536 ->
  fast_atoi T_ushort 0 (canon_dec v) = AR_ok v.
Proof.
  intros v Hv. unfold canon_dec. destruct (Z.ltb_spec v 0); [lia |].
  rewrite (atoi_mod_digits T_ushort W16) by (try lia; right; split; reflexivity).
  unfold W16. rewrite Z.mod_small by lia. reflexivity.
Qed.

(* ------------------------------------------------------------------------ oracle level *)

Lemma canon_value_sound : forall t v, canon_value t = Some v -> t = canon_dec v.
Proof.
  intros t v. unfold canon_value.
  destruct (match t with c :: r => if c =? 45 then (true, r) else (false, t) | [] => (false, t) end) as [neg ds].
  destruct (forallb is_dig ds && negb match ds with [] => true | _ :: _ => false end); [| discriminate].
  destruct (list_eqb t (canon_dec (if neg then - digits_value ds else digits_value ds))) eqn:E; [| discriminate].
  intros H. inversion H; subst. apply list_eqb_eq. exact E.
Qed.

(* the parser clause on EVERY text, for all three instantiations: whenever the text is the
   canonical decimal of a value of the type, that value is returned (and, for int, no undefined
   operation occurs) *)
Lemma atoi_any_text_lemma : forall text,
  c08_atoi_ok (-2147483648) 2147483647 text (ar_opt (fast_atoi T_int 0 text)) = true /\
  c08_atoi_ok 0 4294967295 text (ar_opt (fast_atoi T_uint 0 text)) = true /\
  c08_atoi_ok 0 65535 text (ar_opt (fast_atoi T_ushort 0 text)) = true.
Proof.
  intros text. unfold c08_atoi_ok.
  destruct (canon_value text) as [v |] eqn:E; [| repeat split; reflexivity].
  apply canon_value_sound in E. subst text. repeat split.
  - destruct (Z.leb_spec (-2147483648) v); cbn [andb]; [| reflexivity].
    destruct (Z.leb_spec v 2147483647); [| reflexivity].
    rewrite atoi_int_canon by lia. cbn [ar_opt]. apply Z.eqb_refl.
  - destruct (Z.leb_spec 0 v); cbn [andb]; [| reflexivity].
    destruct (Z.leb_spec v 4294967295); [| reflexivity].
    unfold canon_dec. destruct (Z.ltb_spec v 0); [lia |].
    rewrite (atoi_mod_digits T_uint W32) by (try lia; left; split; reflexivity).
    unfold W32. rewrite Z.mod_small by lia. cbn [ar_opt]. apply Z.eqb_refl.
  - destruct (Z.leb_spec 0 v); cbn [andb]; [| reflexivity].
    destruct (Z.leb_spec v 65535); [| reflexivity].
    rewrite ushort_parse_lemma by lia. cbn [ar_opt]. apply Z.eqb_refl.
Qed.

(* the specification text denotes the value: Horner evaluation of canon_dec *)
Lemma digits_value_horner : forall l, Forall (fun c => 48 <= c <= 57) l ->
  forall r, fold_left (fun a c => 10 * a + (c - 48)) l r = horner l r.
Proof.
  induction l as [| c l IH]; intros H r; cbn [fold_left horner]; [reflexivity |].
  inversion H; subst.
  change (fold_left (fun a0 c0 => 10 * a0 + schar c0 - 48) l (10 * r + schar c - 48))
    with (horner l (10 * r + schar c - 48)).
  rewrite IH by assumption. f_equal. unfold schar. destruct (Z.ltb_spec c 128); lia.
Qed.

Lemma canon_dec_denotes_lemma : forall v, Z.abs v < 10 ^ 25 -> canon_value (canon_dec v) = Some v.
Proof.
  intros v Hv. unfold canon_value.
  assert (Hd : forall n, 0 <= n < 10 ^ 25 -> digits_value (dec_digits dec_fuel n) = n).
  { intros n Hn. unfold digits_value.
    rewrite digits_value_horner by (apply dec_digits_are_digits; lia).
    rewrite horner_dec_digits by (try (unfold dec_fuel; lia); exact Hn). lia. }
  assert (Hf : forall n, 0 <= n -> forallb is_dig (dec_digits dec_fuel n) = true).
  { intros n Hn. apply forallb_forall. intros c Hc.
    pose proof (dec_digits_are_digits dec_fuel n Hn) as F. rewrite Forall_forall in F.
    specialize (F c Hc). unfold is_dig. apply andb_true_intro. split; apply Z.leb_le; lia. }
  assert (Hne : forall n, negb match dec_digits dec_fuel n with [] => true | _ :: _ => false end = true).
  { intros n. pose proof (dec_digits_nonempty dec_fuel n ltac:(unfold dec_fuel; lia)) as N.
    destruct (dec_digits dec_fuel n); [contradiction | reflexivity]. }
  destruct (Z.ltb_spec v 0).
  - assert (Ht : canon_dec v = 45 :: dec_digits dec_fuel (- v))
      by (unfold canon_dec; destruct (Z.ltb_spec v 0); [reflexivity | lia]).
    assert (Hm : match canon_dec v with
                 | c :: r => if c =? 45 then (true, r) else (false, canon_dec v)
                 | [] => (false, canon_dec v) end = (true, dec_digits dec_fuel (- v))).
    { rewrite Ht. rewrite Z.eqb_refl. reflexivity. }
    rewrite Hm. rewrite Hf, Hne by lia. cbn [andb].
    rewrite Hd by lia. rewrite Z.opp_involutive, list_eqb_refl. reflexivity.
  - assert (Ht : canon_dec v = dec_digits dec_fuel v)
      by (unfold canon_dec; destruct (Z.ltb_spec v 0); [lia | reflexivity]).
    assert (Hm : match canon_dec v with
                 | c :: r => if c =? 45 then (true, r) else (false, canon_dec v)
                 | [] => (false, canon_dec v) end = (false, dec_digits dec_fuel v)).
    { rewrite Ht. pose proof (dec_digits_are_digits dec_fuel v ltac:(lia)) as F.
      destruct (dec_digits dec_fuel v) as [| c r]; [reflexivity |].
      inversion F; subst. destruct (Z.eqb_spec c 45); [lia | reflexivity]. }
    rewrite Hm. rewrite Hf, Hne by lia. cbn [andb].
    rewrite Hd by lia. rewrite list_eqb_refl. reflexivity.
Qed.

(* --------------------------------------------- the routine before the repair: witnesses *)

(* "-5" was read as the number with leading "digit" '-' - '0' = -3: -25 *)
Lemma atoi_neg_orig_refuted_lemma :
  itoa_int (-5) 10 = Some [45; 53] /\ fast_atoi_orig [45; 53] = -25 /\
  fast_atoi_checked_orig [45; 53] = AC_shift_negative /\
  fast_atoi T_int 0 [45; 53] = AR_ok (-5).
Proof. vm_compute. repeat split; reflexivity. Qed.

(* INT_MAX: 2147483640 + '7' was evaluated before '0' was subtracted *)
Lemma atoi_top_overflow_orig_refuted_lemma :
  itoa_int 2147483647 10 = Some [50; 49; 52; 55; 52; 56; 51; 54; 52; 55] /\
  fast_atoi_checked_orig [50; 49; 52; 55; 52; 56; 51; 54; 52; 55] = AC_overflow /\
  fast_atoi T_int 0 [50; 49; 52; 55; 52; 56; 51; 54; 52; 55] = AR_ok 2147483647.
Proof. vm_compute. repeat split; reflexivity. Qed.
