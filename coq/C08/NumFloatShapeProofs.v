(* Proofs about modp_dtoa on ARBITRARY finite doubles (NumFloat.v): bounds on the quantities of the
   rounding stage (real-number reasoning with Flocq: truncation, monotonicity of rounding), the
   digit loops, and from these the shape of every rendered text and the absence of the sprintf /
   overflow outcomes inside the threshold. *)
From Coq Require Import ZArith List Bool Lia Reals Lra.
From Flocq Require Import Core.Core IEEE754.BinarySingleNaN.
From F8 Require Import C08.NumInt C08.NumFloat C08.Spec_C08 C08.NumIntProofs C08.NumFloatProofs.
Import ListNotations.
Local Open Scope Z_scope.

Lemma rnd64_le : forall x y, (x <= y)%R -> (rnd64 x <= rnd64 y)%R.
Proof.
  intros x y H. unfold rnd64. apply round_le; [apply FLT_exp_valid; reflexivity | apply valid_rnd_N | exact H].
Qed.

Lemma rnd64_0 : rnd64 0 = 0%R.
Proof. unfold rnd64. apply round_0. apply valid_rnd_N. Qed.

Lemma rnd64_between : forall a b y, Z.abs a < 2 ^ 53 -> Z.abs b < 2 ^ 53 ->
  (IZR a <= y <= IZR b)%R -> (IZR a <= rnd64 y <= IZR b)%R.
Proof.
  intros a b y Ha Hb [H1 H2]. split.
  - rewrite <- (rnd64_IZR a Ha). apply rnd64_le. exact H1.
  - rewrite <- (rnd64_IZR b Hb). apply rnd64_le. exact H2.
Qed.

Lemma small_lt_emax : forall r b, Z.abs b < 2 ^ 53 -> (0 <= r <= IZR b)%R ->
  Rlt_bool (Rabs r) (bpow radix2 1024) = true.
Proof.
  intros r b Hb [H1 H2]. apply Rlt_bool_true. rewrite Rabs_pos_eq by exact H1.
  apply Rle_lt_trans with (IZR b); [exact H2 |].
  apply Rle_lt_trans with (Rabs (IZR b)); [apply Rle_abs | apply IZR_lt_emax; exact Hb].
Qed.

Lemma fsub_real : forall x y b, is_finite x = true -> is_finite y = true -> Z.abs b < 2 ^ 53 ->
  (0 <= rnd64 (B2R x - B2R y) <= IZR b)%R ->
  is_finite (fsub x y) = true /\ B2R (fsub x y) = rnd64 (B2R x - B2R y).
Proof.
  intros x y b Fx Fy Hb Hr. unfold fsub.
  pose proof (Bminus_correct 53 1024 Hprec64 Hemax64 mode_NE x y Fx Fy) as H.
  change (round radix2 (SpecFloat.fexp 53 1024) (round_mode mode_NE) (B2R x - B2R y))
    with (rnd64 (B2R x - B2R y)) in H.
  rewrite (small_lt_emax _ b Hb Hr) in H. destruct H as [H1 [H2 _]]. split; assumption.
Qed.

Lemma fmul_real : forall x y b, is_finite x = true -> is_finite y = true -> Z.abs b < 2 ^ 53 ->
  (0 <= rnd64 (B2R x * B2R y) <= IZR b)%R ->
  is_finite (fmul x y) = true /\ B2R (fmul x y) = rnd64 (B2R x * B2R y).
Proof.
  intros x y b Fx Fy Hb Hr. unfold fmul.
  pose proof (Bmult_correct 53 1024 Hprec64 Hemax64 mode_NE x y) as H.
  change (round radix2 (SpecFloat.fexp 53 1024) (round_mode mode_NE) (B2R x * B2R y))
    with (rnd64 (B2R x * B2R y)) in H.
  rewrite (small_lt_emax _ b Hb Hr) in H. destruct H as [H1 [H2 _]].
  split; [rewrite H2, Fx, Fy; reflexivity | exact H1].
Qed.

(* truncation of a finite non-negative double *)
Lemma trunc_bounds : forall x, is_finite x = true -> (0 <= B2R x)%R ->
  exists w, trunc_f64 x = Some w /\ 0 <= w /\ (IZR w <= B2R x < IZR w + 1)%R.
Proof.
  intros x Fx Hx. destruct x as [s | s | | s m e Hb]; try discriminate.
  - exists 0. simpl. split; [reflexivity |]. split; [lia | lra].
  - destruct s.
    + exfalso. unfold B2R in Hx.
      assert (F2R (Float radix2 (cond_Zopp true (Z.pos m)) e) < 0)%R by (apply F2R_lt_0; simpl; lia).
      lra.
    + unfold trunc_f64, B2R, F2R. cbn [cond_Zopp SpecFloat.cond_Zopp Fnum Fexp].
      destruct e as [| p | p].
      * exists (Z.pos m). cbn [bpow]. split; [reflexivity |]. split; [lia | lra].
      * exists (Z.pos m * Z.pow_pos 2 p). cbn [bpow]. split; [reflexivity |].
        assert (HP : 0 < Z.pow_pos 2 p) by (rewrite Z.pow_pos_fold; apply Z.pow_pos_nonneg; lia).
        change (Z.pow_pos radix2 p) with (Z.pow_pos 2 p).
        split; [lia |]. rewrite mult_IZR. lra.
      * exists (Z.pos m / Z.pow_pos 2 p). cbn [bpow].
        change (Z.pow_pos radix2 p) with (Z.pow_pos 2 p).
        assert (HP : 0 < Z.pow_pos 2 p) by (rewrite Z.pow_pos_fold; apply Z.pow_pos_nonneg; lia).
        split; [reflexivity |]. split; [apply Z.div_pos; lia |].
        pose proof (Z.div_mod (Z.pos m) (Z.pow_pos 2 p) ltac:(lia)) as DM.
        pose proof (Z.mod_pos_bound (Z.pos m) (Z.pow_pos 2 p) HP) as MB.
        set (q := Z.pos m / Z.pow_pos 2 p) in *. set (r := Z.pos m mod Z.pow_pos 2 p) in *.
        set (P := Z.pow_pos 2 p) in *.
        assert (HPR : (0 < IZR P)%R) by (apply IZR_lt; lia).
        assert (E : IZR (Z.pos m) = (IZR P * IZR q + IZR r)%R) by (rewrite DM at 1; rewrite plus_IZR, mult_IZR; reflexivity).
        rewrite E.
        assert (R0 : (0 <= IZR r)%R) by (apply IZR_le; lia).
        assert (R1 : (IZR r < IZR P)%R) by (apply IZR_lt; lia).
        assert (E2 : ((IZR P * IZR q + IZR r) * / IZR P = IZR q + IZR r * / IZR P)%R) by (field; lra).
        rewrite E2.
        assert (0 <= IZR r * / IZR P < 1)%R.
        { split.
          - apply Rmult_le_pos; [exact R0 | left; apply Rinv_0_lt_compat; exact HPR].
          - apply Rmult_lt_reg_r with (IZR P); [exact HPR |].
            rewrite Rmult_assoc, Rinv_l by lra. lra. }
        lra.
Qed.

Lemma fle_repr : forall x y a b, reprZ x a -> reprZ y b -> fle x y = (a <=? b).
Proof.
  intros x y a b [Fx Rx] [Fy Ry]. unfold fle. rewrite Bleb_correct by assumption.
  rewrite Rx, Ry. destruct (Z.leb_spec a b).
  - apply Rle_bool_true. apply IZR_le. assumption.
  - apply Rle_bool_false. apply IZR_lt. assumption.
Qed.

Lemma abs_value : forall v, is_finite v = true ->
  let value := if flt v fzero then fneg v else v in
  is_finite value = true /\ (0 <= B2R value)%R.
Proof.
  intros v Fv. cbv zeta. unfold flt. rewrite Bltb_correct by (exact Fv || reflexivity).
  change (B2R fzero) with 0%R.
  destruct (Rlt_bool_spec (B2R v) 0).
  - unfold fneg. rewrite is_finite_Bopp, B2R_Bopp. split; [exact Fv | lra].
  - split; [exact Fv | exact H].
Qed.

Lemma pow10_bounds : forall p, 0 <= p <= 9 -> 1 <= 10 ^ p <= 1000000000.
Proof.
  intros p Hp. assert (10 ^ p <= 10 ^ 9) by (apply Z.pow_le_mono_r; lia).
  assert (0 < 10 ^ p) by (apply Z.pow_pos_nonneg; lia). change (10 ^ 9) with 1000000000 in *. lia.
Qed.

Lemma rnd64_format : forall y, generic_format radix2 fexp64 y -> rnd64 y = y.
Proof. intros y H. unfold rnd64. apply round_generic; [apply valid_rnd_N | exact H]. Qed.

(* a double minus an integer just below it is a double *)
Lemma sub_int_exact : forall (x : f64) w, is_finite x = true -> 0 <= w ->
  (IZR w <= B2R x < IZR w + 1)%R -> generic_format radix2 fexp64 (B2R x - IZR w).
Proof.
  intros x w Fx Hw0 Hw.
  destruct (FLT_format_B2R 53 1024 Hprec64 x) as [[mf ef] E Hm He].
  cbn [Fnum Fexp] in Hm, He. rewrite E in *. unfold F2R in *. cbn [Fnum Fexp] in *.
  assert (Hbp : (0 < bpow radix2 ef)%R) by apply bpow_gt_0.
  assert (Hmf : 0 <= mf).
  { apply le_IZR. assert (0 <= IZR w)%R by (apply IZR_le; lia).
    apply Rmult_le_reg_r with (bpow radix2 ef); [exact Hbp | lra]. }
  destruct (Z_le_gt_dec 0 ef) as [Ep | En].
  - (* an integer: equal to w *)
    rewrite <- IZR_Zpower in * by exact Ep. rewrite <- mult_IZR in *.
    assert (mf * radix2 ^ ef = w).
    { apply Z.le_antisymm; [| apply le_IZR; lra].
      assert (mf * radix2 ^ ef < w + 1); [| lia]. apply lt_IZR. rewrite plus_IZR. lra. }
    rewrite H. rewrite Rminus_diag_eq by reflexivity. apply generic_format_0.
  - apply generic_format_FLT.
    exists (Float radix2 (mf - w * 2 ^ (- ef)) ef).
    + unfold F2R. cbn [Fnum Fexp]. rewrite minus_IZR, mult_IZR.
      change (2 ^ (- ef)) with (radix2 ^ (- ef)).
      rewrite (IZR_Zpower radix2 (- ef)) by lia.
      rewrite Rmult_minus_distr_r, Rmult_assoc, <- bpow_plus.
      replace (- ef + ef) with 0 by lia. cbn [bpow]. ring.
    + cbn [Fnum].
      assert (H2 : 0 < 2 ^ (- ef)) by (apply Z.pow_pos_nonneg; lia).
      assert (Hlow : w * 2 ^ (- ef) <= mf).
      { apply le_IZR. rewrite mult_IZR. change (2 ^ (- ef)) with (radix2 ^ (- ef)). rewrite (IZR_Zpower radix2 (- ef)) by lia.
        apply Rmult_le_reg_r with (bpow radix2 ef); [exact Hbp |].
        rewrite Rmult_assoc, <- bpow_plus. replace (- ef + ef) with 0 by lia. cbn [bpow]. lra. }
      assert (0 <= w * 2 ^ (- ef)) by (apply Z.mul_nonneg_nonneg; lia). lia.
    + cbn [Fexp]. exact He.
Qed.

(* the largest double below 1 *)
Definition fpred1 : f64 := f_of_Z2 9007199254740991 (-53).

Lemma fpred1_val : is_finite fpred1 = true /\ B2R fpred1 = (1 - bpow radix2 (-53))%R.
Proof.
  unfold fpred1, f_of_Z2.
  pose proof (binary_normalize_correct 53 1024 Hprec64 Hemax64 mode_NE 9007199254740991 (-53) false) as H.
  cbv zeta in H.
  assert (E : F2R (Float radix2 9007199254740991 (-53)) = (1 - bpow radix2 (-53))%R).
  { unfold F2R. cbn [Fnum Fexp]. replace 9007199254740991 with (9007199254740992 - 1) by reflexivity.
    rewrite minus_IZR. change 9007199254740992 with (radix2 ^ 53). rewrite IZR_Zpower by lia.
    rewrite Rmult_minus_distr_r, <- bpow_plus. simpl (53 + -53). simpl (bpow radix2 0). simpl (IZR 1). ring. }
  rewrite E in H.
  change (round radix2 (SpecFloat.fexp 53 1024) (round_mode mode_NE) (1 - bpow radix2 (-53))) with (rnd64 (1 - bpow radix2 (-53))) in H.
  assert (G : rnd64 (1 - bpow radix2 (-53)) = (1 - bpow radix2 (-53))%R).
  { unfold rnd64. apply round_generic; [apply valid_rnd_N |]. rewrite <- E. apply generic_format_FLT.
    exists (Float radix2 9007199254740991 (-53)); [reflexivity | simpl; lia | simpl; lia]. }
  rewrite G in H.
  assert (B : (0 < bpow radix2 (-53) < 1)%R).
  { split; [apply bpow_gt_0 |]. change 1%R with (bpow radix2 0). apply bpow_lt. lia. }
  rewrite Rlt_bool_true in H.
  - destruct H as [H1 [H2 _]]. split; assumption.
  - rewrite Rabs_pos_eq by lra. apply Rlt_trans with 1%R; [lra |].
    change 1%R with (bpow radix2 0). apply bpow_lt. lia.
Qed.

Local Instance fexp64_valid : Valid_exp fexp64.
Proof. unfold fexp64. apply FLT_exp_valid. reflexivity. Qed.

(* a double below 1 is at most pred 1 *)
Lemma below_one : forall d : f64, is_finite d = true -> (B2R d < 1)%R -> (B2R d <= B2R fpred1)%R.
Proof.
  intros d Fd H. destruct fpred1_val as [_ R1]. rewrite R1.
  assert (Fm : generic_format radix2 fexp64 (B2R d)) by (apply generic_format_B2R).
  assert (F1 : generic_format radix2 fexp64 1) by (change 1%R with (IZR 1); apply format_IZR; reflexivity).
  pose proof (pred_ge_gt radix2 fexp64 (B2R d) 1 Fm F1 H) as P.
  change 1%R with (bpow radix2 0) in P.
  rewrite pred_bpow in P.
  change (fexp64 0) with (-53) in P. simpl (bpow radix2 0) in P. exact P.
Qed.

(* (pred 1) * 10^p rounds below 10^p: checked by computation for p = 1..9 *)
Lemma pred1_pow_lt : forall p, 1 <= p <= 9 -> flt (fmul fpred1 (pow10_tab p)) (pow10_tab p) = true.
Proof.
  intros p Hp.
  assert (H : p = 1 \/ p = 2 \/ p = 3 \/ p = 4 \/ p = 5 \/ p = 6 \/ p = 7 \/ p = 8 \/ p = 9) by lia.
  repeat (destruct H as [-> | H]; [vm_compute; reflexivity |]). subst p. vm_compute. reflexivity.
Qed.

(* a fraction below 1 times 10^p rounds below 10^p (p = 1..9) *)
Lemma tmp_lt_pow : forall (d : f64) p, is_finite d = true -> (0 <= B2R d < 1)%R -> 1 <= p <= 9 ->
  (rnd64 (B2R d * IZR (10 ^ p)) < IZR (10 ^ p))%R.
Proof.
  intros d p Fd Hd Hp.
  destruct fpred1_val as [F1 R1].
  destruct (pow10_tab_repr p ltac:(lia)) as [Fpw Rpw].
  pose proof (pow10_bounds p ltac:(lia)) as HP.
  assert (HPR : (1 <= IZR (10 ^ p))%R) by (apply IZR_le; lia).
  assert (B : (0 < bpow radix2 (-53) < 1)%R).
  { split; [apply bpow_gt_0 |]. change 1%R with (bpow radix2 0). apply bpow_lt. lia. }
  assert (Hb : (0 <= rnd64 (B2R fpred1 * B2R (pow10_tab p)) <= IZR (10 ^ p))%R).
  { apply rnd64_between; [reflexivity | change (2 ^ 53) with 9007199254740992; lia |].
    rewrite Rpw, R1. simpl (IZR 0). split.
    - apply Rmult_le_pos; lra.
    - rewrite <- (Rmult_1_l (IZR (10 ^ p))) at 2. apply Rmult_le_compat_r; lra. }
  destruct (fmul_real fpred1 (pow10_tab p) (10 ^ p) F1 Fpw ltac:(change (2 ^ 53) with 9007199254740992; lia) Hb) as [Fm Rm].
  pose proof (pred1_pow_lt p Hp) as L. unfold flt in L.
  rewrite Bltb_correct in L by assumption. rewrite Rm, Rpw in L.
  destruct (Rlt_bool_spec (rnd64 (B2R fpred1 * IZR (10 ^ p))) (IZR (10 ^ p))) as [L' | L']; [| discriminate].
  apply Rle_lt_trans with (rnd64 (B2R fpred1 * IZR (10 ^ p))); [| exact L'].
  apply rnd64_le. apply Rmult_le_compat_r; [lra |]. apply below_one; [exact Fd | lra].
Qed.

Lemma stage_bounds : forall v p, is_finite v = true -> 0 <= p <= 9 ->
  match dtoa_stage v p with
  | None => (2147483647 < B2R (if flt v fzero then fneg v else v))%R
  | Some st => ((B2R (if flt v fzero then fneg v else v) <= 2147483647)%R -> ds_whole0 st <= 2147483647) /\
               (ds_whole0 st <= 2147483647 ->
               is_finite (ds_value st) = true /\
               0 <= ds_whole0 st /\ ds_whole0 st <= ds_whole st <= ds_whole0 st + 1 /\
               0 <= ds_frac st <= 10 ^ p /\ (1 <= p -> ds_frac st < 10 ^ p) /\
               ((B2R (ds_value st) <= 2147483647)%R -> ds_whole st <= 2147483647) /\
               ds_value st = (if flt v fzero then fneg v else v))
  end.
Proof.
  intros v p Fv Hp. unfold dtoa_stage, dtoa_stage_gen.
  destruct (abs_value v Fv) as [Fval Pval]. cbv zeta in Fval, Pval.
  set (value := if flt v fzero then fneg v else v) in *.
  destruct (trunc_bounds value Fval Pval) as [w [Ew [Hw0 Hw]]]. rewrite Ew.
  destruct (Z_le_gt_dec w 2147483647) as [Hw1 | Hw1].
  2:{ assert (Hbig : (2147483647 < B2R value)%R).
      { apply Rlt_le_trans with (IZR w); [apply IZR_lt; lia | lra]. }
      destruct (trunc_f64 (fmul (fsub value (f_of_Z w)) (pow10_tab p))); [| exact Hbig].
      destruct (if flt fhalf _ then _ else _). cbn [ds_whole0]. unfold value in *. split; [intros Hx; exfalso; exact (Rlt_not_le _ _ Hbig Hx) | intros Hx; exfalso; lia]. }
  pose proof (pow10_bounds p Hp) as HP.
  assert (Hfw : reprZ (f_of_Z w) w) by (apply f_of_Z_repr; change (2 ^ 53) with 9007199254740992; lia).
  destruct Hfw as [Ffw Rfw].
  (* d = value - whole *)
  assert (Hd0 : (0 <= rnd64 (B2R value - B2R (f_of_Z w)) <= IZR 1)%R).
  { apply rnd64_between; [reflexivity | reflexivity |]. rewrite Rfw. simpl. lra. }
  destruct (fsub_real value (f_of_Z w) 1 Fval Ffw ltac:(reflexivity) Hd0) as [Fd Rd].
  assert (Hdx : (0 <= B2R (fsub value (f_of_Z w)) < 1)%R).
  { rewrite Rd, Rfw, (rnd64_format _ (sub_int_exact value w Fval Hw0 Hw)). lra. }
  set (d := fsub value (f_of_Z w)) in *.
  (* tmp = d * 10^p *)
  destruct (pow10_tab_repr p Hp) as [Fpw Rpw].
  assert (HPR : (1 <= IZR (10 ^ p))%R) by (apply IZR_le; lia).
  assert (Ht0 : (0 <= rnd64 (B2R d * B2R (pow10_tab p)) <= IZR (10 ^ p))%R).
  { apply rnd64_between; [reflexivity | change (2 ^ 53) with 9007199254740992; lia |].
    rewrite Rpw, Rd. simpl (IZR 0). simpl (IZR 1) in Hd0. split.
    - apply Rmult_le_pos; lra.
    - rewrite <- (Rmult_1_l (IZR (10 ^ p))) at 2. apply Rmult_le_compat_r; lra. }
  destruct (fmul_real d (pow10_tab p) (10 ^ p) Fd Fpw ltac:(change (2 ^ 53) with 9007199254740992; lia) Ht0) as [Ft Rt].
  set (tmp := fmul d (pow10_tab p)) in *.
  rewrite <- Rt in Ht0.
  destruct (trunc_bounds tmp Ft (proj1 Ht0)) as [f0 [Ef [Hf0 Hf]]]. rewrite Ef.
  assert (Hf1 : f0 <= 10 ^ p) by (apply le_IZR; lra).
  assert (Hlt : 1 <= p -> f0 < 10 ^ p).
  { intros P1. apply lt_IZR. apply Rle_lt_trans with (B2R tmp); [lra |].
    rewrite Rt, Rpw. apply tmp_lt_pow; [exact Fd | exact Hdx | lia]. }
  assert (Hff : reprZ (f_of_Z f0) f0) by (apply f_of_Z_repr; change (2 ^ 53) with 9007199254740992; lia).
  destruct Hff as [Fff Rff].
  assert (Hdf0 : (0 <= rnd64 (B2R tmp - B2R (f_of_Z f0)) <= IZR 1)%R).
  { apply rnd64_between; [reflexivity | reflexivity |]. rewrite Rff. simpl. lra. }
  destruct (fsub_real tmp (f_of_Z f0) 1 Ft Fff ltac:(reflexivity) Hdf0) as [Fdf Rdf].
  set (diff := fsub tmp (f_of_Z f0)) in *.
  assert (Hmod : (f0 + 1) mod W32 = f0 + 1) by (unfold W32; apply Z.mod_small; lia).
  rewrite Hmod.
  assert (Hf1r : reprZ (f_of_Z (f0 + 1)) (f0 + 1)) by (apply f_of_Z_repr; change (2 ^ 53) with 9007199254740992; lia).
  rewrite (fle_repr _ _ _ _ (pow10_tab_repr p Hp) Hf1r).
  (* w = INT_MAX with value <= INT_MAX forces diff = 0 *)
  assert (Hdiff0 : w = 2147483647 -> (B2R value <= 2147483647)%R -> B2R diff = 0%R).
  { intros Ew' Hle.
    assert (Ex : (B2R value - B2R (f_of_Z w) = 0)%R) by (rewrite Rfw, Ew' in *; lra).
    assert (Ed0 : B2R d = 0%R) by (rewrite Rd, Ex; apply rnd64_0).
    assert (Et : B2R tmp = 0%R) by (rewrite Rt, Ed0, Rmult_0_l; apply rnd64_0).
    assert (Ef0 : f0 = 0) by (apply Z.le_antisymm; [apply le_IZR; rewrite Et in Hf; lra | exact Hf0]).
    rewrite Rdf, Et, Rff, Ef0. simpl. rewrite Rminus_0_r. apply rnd64_0. }
  destruct fhalf_val as [Fh Rh].
  destruct (flt fhalf diff) eqn:Ehalf.
  - assert (Hnomax : w < 2147483647 \/ ~ (B2R value <= 2147483647)%R).
    { destruct (Z_lt_ge_dec w 2147483647) as [L | G]; [left; exact L | right].
      intros Hle. pose proof (Hdiff0 ltac:(lia) Hle) as Edf.
      unfold flt in Ehalf. rewrite Bltb_correct in Ehalf by assumption. rewrite Edf, Rh in Ehalf.
      rewrite Rlt_bool_false in Ehalf by lra. discriminate. }
    destruct (Z.leb_spec (10 ^ p) (f0 + 1)); cbn [ds_whole0 ds_whole ds_frac ds_value];
      (split; [intros _; exact Hw1 |]); intros _;
      (split; [exact Fval |]); (repeat split; try lia; try reflexivity);
      intros Hle; destruct Hnomax as [L | G]; try lia; contradiction.
  - destruct (feq diff fhalf && ((f0 =? 0) || Z.odd f0)) eqn:Etie.
    2:{ cbn [ds_whole0 ds_whole ds_frac ds_value]. split; [intros _; exact Hw1 |]. intros _.
        split; [exact Fval |]. repeat split; try lia; try reflexivity. }
    apply andb_prop in Etie. destruct Etie as [Etie _].
    unfold feq in Etie. rewrite Beqb_correct in Etie by assumption. rewrite Rh in Etie.
    destruct (Req_bool_spec (B2R diff) (/ 2)) as [Ehd | Ehd]; [| discriminate].
    assert (Hf2 : f0 < 10 ^ p).
    { destruct (Z_lt_ge_dec f0 (10 ^ p)) as [L | G]; [exact L | exfalso].
      assert (Ef0 : f0 = 10 ^ p) by lia.
      assert (Ez : (B2R tmp - B2R (f_of_Z f0) = 0)%R).
      { rewrite Rff, Ef0. rewrite Ef0 in Hf. lra. }
      rewrite Rdf, Ez, rnd64_0 in Ehd. lra. }
    assert (Hnomax : w < 2147483647 \/ ~ (B2R value <= 2147483647)%R).
    { destruct (Z_lt_ge_dec w 2147483647) as [L | G]; [left; exact L | right].
      intros Hle. pose proof (Hdiff0 ltac:(lia) Hle) as Edf. lra. }
    cbn [andb].
    destruct (Z.ltb_spec 0 p); cbn [andb];
      [destruct (Z.leb_spec (10 ^ p) (f0 + 1)) |]; cbn [ds_whole0 ds_whole ds_frac ds_value];
      (split; [intros _; exact Hw1 |]); intros _;
      (split; [exact Fval |]); (repeat split; try lia; try reflexivity);
      intros Hle; destruct Hnomax as [L | G]; try lia; contradiction.
Qed.

Lemma frac_loop_spec : forall fuel frac count done buf,
  0 <= frac < 10 ^ Z.of_nat fuel -> (0 < fuel)%nat -> 0 <= done ->
  exists new count' done',
    frac_loop fuel frac count done buf = Some (buf ++ new, count', done') /\
    Forall (fun c => 48 <= c <= 57) new /\
    done <= done' /\ (done' = 0 -> new = []) /\ (done = 0 -> done' <> 0 -> new <> []) /\
    1 <= count - count' /\
    Z.of_nat (length new) <= count - count' /\
    (done = 0 -> frac mod 10 = 0 -> Z.of_nat (length new) <= count - count' - 1) /\
    frac < 10 ^ (count - count') /\
    (2 <= count - count' -> 10 ^ (count - count' - 1) <= frac).
Proof.
  induction fuel as [| fuel IH]; intros frac count done buf Hfrac Hfuel Hdone; [lia |].
  cbn [frac_loop].
  (* the character emitted by this iteration *)
  set (d := frac mod 10).
  assert (Hd : 0 <= d <= 9) by (unfold d; lia).
  set (first := if negb (d =? 0) then [48 + d] else if negb (done =? 0) then [48] else []).
  set (done1 := if negb (d =? 0) then done + (48 + d) else done).
  assert (Hlet : (if negb (d =? 0) then (emit buf (48 + d), done + (48 + d))
                  else if negb (done =? 0) then (emit buf 48, done) else (buf, done)) =
                 (buf ++ first, done1)).
  { unfold first, done1, emit. destruct (negb (d =? 0)); [reflexivity |].
    destruct (negb (done =? 0)); [reflexivity | rewrite app_nil_r; reflexivity]. }
  rewrite Hlet.
  assert (Hfirst : Forall (fun c => 48 <= c <= 57) first /\ Z.of_nat (length first) <= 1 /\
                   (done = 0 -> d = 0 -> first = []) /\ 0 <= done1 /\
                   (done1 = 0 -> first = [] /\ done = 0) /\
                   (done = 0 -> first = [] -> done1 = 0)).
  { unfold first, done1. destruct (Z.eqb_spec d 0) as [D0 | D0]; cbn [negb].
    - destruct (Z.eqb_spec done 0) as [Z0 | Z0]; cbn [negb length].
      + split; [constructor |]. split; [lia |]. split; [auto |]. split; [lia |].
        split; [intros; split; [reflexivity | lia] | intros; lia].
      + split; [constructor; [lia | constructor] |]. split; [lia |].
        split; [intros; lia |]. split; [lia |]. split; [intros; lia | intros; lia].
    - cbn [length].
      split; [constructor; [lia | constructor] |]. split; [lia |].
      split; [intros; lia |]. split; [lia |]. split; [intros; lia | intros ? Hx; discriminate]. }
  destruct Hfirst as [F1 [F2 [F3 [F4 [F5 F6]]]]].
  assert (F7 : done <= done1) by (unfold done1; destruct (negb (d =? 0)); lia).
  destruct (Z.eqb_spec (frac / 10) 0) as [E0 | E0].
  - exists first, (count - 1), done1.
    split; [reflexivity |]. split; [exact F1 |]. split; [exact F7 |].
    split; [intros Hx; apply F5; exact Hx |].
    split; [intros Hz Hnz Hx; apply Hnz; apply F6; assumption |].
    split; [lia |]. split; [lia |].
    split; [intros Hz Hm; rewrite (F3 Hz Hm); cbn [length]; lia |].
    replace (count - (count - 1)) with 1 by lia. change (10 ^ 1) with 10.
    split; [lia | intros; lia].
  - rewrite pow10_S in Hfrac.
    assert (Hfuel' : (0 < fuel)%nat) by (destruct fuel; [simpl in Hfrac; lia | lia]).
    destruct (IH (frac / 10) (count - 1) done1 (buf ++ first)) as
      [new [count' [done' [E [N1 [N2 [N3 [N4 [N5 [N6 [N7 [N8 N9]]]]]]]]]]]].
    + pose proof (pow10_pos fuel). lia.
    + exact Hfuel'.
    + exact F4.
    + exists (first ++ new), count', done'.
      split; [rewrite E, app_assoc; reflexivity |].
      split; [apply Forall_app; split; assumption |].
      split; [lia |].
      split.
      { intros Hx. rewrite (N3 Hx), app_nil_r. apply F5. lia. }
      split.
      { intros Hz Hnz Hx. apply app_eq_nil in Hx. destruct Hx as [Hx1 Hx2].
        specialize (F6 Hz Hx1). apply (N4 F6 Hnz). exact Hx2. }
      split; [lia |].
      split; [rewrite app_length, Nat2Z.inj_add; lia |].
      split.
      { intros Hz Hm. rewrite (F3 Hz Hm). cbn [app]. lia. }
      set (k := count - 1 - count') in *.
      replace (count - count') with (Z.succ k) by lia.
      replace (Z.succ k - 1) with k by lia.
      rewrite Z.pow_succ_r by lia.
      split; [lia |].
      intros _. destruct (Z.eq_dec k 1) as [K1 | K1].
      * rewrite K1. change (10 ^ 1) with 10. lia.
      * specialize (N9 ltac:(lia)).
        replace k with (Z.succ (k - 1)) by lia. rewrite Z.pow_succ_r by lia. lia.
Qed.

Lemma is_dig_true : forall c, 48 <= c <= 57 -> is_dig c = true.
Proof. intros c H. unfold is_dig. apply andb_true_intro. split; apply Z.leb_le; lia. Qed.

Lemma span_digits_app : forall a b, Forall (fun c => 48 <= c <= 57) a ->
  match b with [] => True | c :: _ => is_dig c = false end ->
  span_digits (a ++ b) = (a, b).
Proof.
  induction a as [| c a IH]; intros b Ha Hb; cbn [app span_digits].
  - destruct b as [| c b]; [reflexivity |]. cbn [span_digits]. rewrite Hb. reflexivity.
  - inversion Ha; subst. rewrite is_dig_true by assumption. rewrite IH by assumption. reflexivity.
Qed.

Lemma split_dec_text : forall (neg : bool) ip fp,
  Forall (fun c => 48 <= c <= 57) ip -> ip <> [] ->
  match fp with None => True | Some fd => Forall (fun c => 48 <= c <= 57) fd /\ fd <> [] end ->
  split_dec ((if neg then [45] else []) ++ ip ++ match fp with None => [] | Some fd => 46 :: fd end)
  = Some (neg, ip, fp).
Proof.
  intros neg ip fp Hip Hne Hfp. unfold split_dec.
  set (rest := ip ++ match fp with None => [] | Some fd => 46 :: fd end).
  assert (Hhead : match (if neg then [45] else []) ++ rest with
                  | c :: r => if c =? 45 then (true, r) else (false, (if neg then [45] else []) ++ rest)
                  | [] => (false, (if neg then [45] else []) ++ rest) end = (neg, rest)).
  { destruct neg; cbn [app]; [reflexivity |].
    unfold rest. destruct ip as [| c ip]; [contradiction |]. cbn [app].
    inversion Hip; subst. destruct (Z.eqb_spec c 45); [lia | reflexivity]. }
  rewrite Hhead. unfold rest.
  rewrite span_digits_app; [| exact Hip | destruct fp; [reflexivity | exact I]].
  destruct ip as [| c0 ip0]; [contradiction |].
  destruct fp as [fd |]; [| reflexivity].
  destruct Hfp as [Hfd Hfne]. cbn [Z.eqb Pos.eqb].
  rewrite <- (app_nil_r fd) at 1. rewrite span_digits_app by (assumption || exact I).
  destruct fd; [contradiction | reflexivity].
Qed.

Lemma dec_digits_head : forall f n, 1 <= n < 10 ^ Z.of_nat f ->
  exists c r, dec_digits f n = c :: r /\ c <> 48.
Proof.
  induction f as [| f IH]; intros n Hn; [simpl in Hn; lia |].
  cbn [dec_digits]. destruct (Z.ltb_spec n 10).
  - exists (48 + n), []. split; [reflexivity | lia].
  - rewrite pow10_S in Hn. destruct (IH (n / 10)) as [c [r [E Hc]]]; [lia |].
    rewrite E. exists c, (r ++ [48 + n mod 10]). split; [reflexivity | exact Hc].
Qed.

Lemma dec_digits_no_leading_zero : forall n, 0 <= n < 10 ^ 25 ->
  no_leading_zero (dec_digits dec_fuel n) = true.
Proof.
  intros n Hn. destruct (Z.eq_dec n 0) as [-> | Hz]; [reflexivity |].
  destruct (dec_digits_head dec_fuel n) as [c [r [E Hc]]]; [change (10 ^ Z.of_nat dec_fuel) with (10 ^ 25); lia |].
  rewrite E. unfold no_leading_zero. destruct r; [reflexivity |].
  destruct (Z.eqb_spec c 48); [contradiction | reflexivity].
Qed.

Lemma clamp_range : forall p, 0 <= clamp_prec p <= 9.
Proof.
  intros p. unfold clamp_prec. destruct (Z.ltb_spec p 0); [lia |]. destruct (Z.ltb_spec 9 p); lia.
Qed.

Lemma feq_finite_refl : forall v : f64, is_finite v = true -> feq v v = true.
Proof.
  intros v Fv. unfold feq. rewrite Beqb_correct by assumption. apply Req_bool_true. reflexivity.
Qed.

(* the text produced once the digits are known *)
Lemma finish_text : forall (neg : bool) whole buf,
  0 <= whole < 10 ^ 12 ->
  match whole_loop dtoa_fuel whole buf with
  | Some b => strreverse (if neg then emit b 45 else b) =
              (if neg then [45] else []) ++ dec_digits dec_fuel whole ++ rev buf
  | None => False
  end.
Proof.
  intros neg whole buf Hw.
  rewrite (whole_loop_dec dtoa_fuel dec_fuel).
  - unfold strreverse, emit. destruct neg.
    + rewrite !rev_app_distr, rev_involutive. cbn [rev app]. reflexivity.
    + rewrite rev_app_distr, rev_involutive. reflexivity.
  - change (10 ^ Z.of_nat dtoa_fuel) with (10 ^ 12). lia.
  - change (10 ^ Z.of_nat dec_fuel) with (10 ^ 25). lia.
  - unfold dtoa_fuel. lia.
  - unfold dec_fuel. lia.
Qed.

Lemma dtoa_shape_lemma : forall v p0, is_finite v = true ->
  match modp_dtoa v p0 with
  | DT_text t => c08_shape_ok (clamp_prec p0) t = true
  | DT_fuel => False
  | _ => True
  end.
Proof.
  intros v p0 Fv. unfold modp_dtoa, modp_dtoa_with. rewrite (feq_finite_refl v Fv). cbn [negb].
  pose proof (clamp_range p0) as Hp. set (p := clamp_prec p0) in *.
  pose proof (stage_bounds v p Fv Hp) as SB.
  destruct (dtoa_stage v p) as [st |]; [| exact I].
  destruct SB as [_ SB].
  destruct (Z.ltb_spec 2147483647 (ds_whole0 st)) as [W0 | W0]; [exact I |].
  destruct (SB W0) as [Fval [B0 [B1 [B2 [B2' [B3 B4]]]]]]. clear SB.
  destruct (Z.ltb_spec 2147483647 (ds_whole st)) as [W1 | W1]; [exact I |].
  destruct (flt thres_max (ds_value st)); [exact I |].
  destruct (Z.eqb_spec p 0) as [P0 | P0].
  - set (whole' := if flt fhalf (fsub (ds_value st) (f_of_Z (ds_whole st))) then ds_whole st + 1
                   else if feq (fsub (ds_value st) (f_of_Z (ds_whole st))) fhalf && Z.odd (ds_whole st)
                        then ds_whole st + 1 else ds_whole st).
    assert (Hw : 0 <= whole' < 10 ^ 12).
    { unfold whole'. change (10 ^ 12) with 1000000000000.
      destruct (flt fhalf _); [lia |]. destruct (_ && _); lia. }
    pose proof (finish_text (ds_neg st) whole' [] Hw) as FT.
    destruct (whole_loop dtoa_fuel whole' []) as [b |]; [| contradiction].
    rewrite FT. unfold c08_shape_ok. cbn [rev].
    pose proof (split_dec_text (ds_neg st) (dec_digits dec_fuel whole') None) as SD.
    cbv iota beta in SD. rewrite SD.
    + rewrite dec_digits_no_leading_zero by (change (10 ^ 25) with 10000000000000000000000000; change (10 ^ 12) with 1000000000000 in Hw; lia).
      rewrite P0. reflexivity.
    + apply dec_digits_are_digits. lia.
    + apply dec_digits_nonempty. unfold dec_fuel. lia.
    + exact I.
  - pose proof (pow10_bounds p Hp) as HP.
    destruct (frac_loop_spec dtoa_fuel (ds_frac st) p 0 []) as
      [new [count' [done' [E [N1 [N2 [N3 [N4 [N5 [N6 [N7 [N8 N9]]]]]]]]]]]].
    { change (10 ^ Z.of_nat dtoa_fuel) with 1000000000000. lia. }
    { unfold dtoa_fuel. lia. }
    { lia. }
    rewrite E. cbn [app].
    set (buf2 := if done' =? 0 then emit new 48 else pad_zeros new count').
    assert (Hw : 0 <= ds_whole st < 10 ^ 12) by (change (10 ^ 12) with 1000000000000; lia).
    pose proof (finish_text (ds_neg st) (ds_whole st) (emit buf2 46) Hw) as FT.
    destruct (whole_loop dtoa_fuel (ds_whole st) (emit buf2 46)) as [b |]; [| contradiction].
    rewrite FT. unfold emit at 1. rewrite rev_app_distr. cbn [rev app].
    (* the fraction digits *)
    assert (Hfd : Forall (fun c => 48 <= c <= 57) (rev buf2) /\ rev buf2 <> [] /\
                  Z.of_nat (length (rev buf2)) <= p).
    { rewrite rev_length.
      assert (Hb : Forall (fun c => 48 <= c <= 57) buf2 /\ buf2 <> [] /\ Z.of_nat (length buf2) <= p).
      { unfold buf2. destruct (Z.eqb_spec done' 0) as [D0 | D0].
        - rewrite (N3 D0). unfold emit. cbn [app length]. split; [constructor; [lia | constructor] |].
          split; [discriminate | lia].
        - unfold pad_zeros. split.
          + apply Forall_app. split; [exact N1 |]. apply Forall_forall. intros c Hc.
            apply repeat_spec in Hc. lia.
          + split.
            * intros Hx. apply app_eq_nil in Hx. destruct Hx as [Hx _]. exact (N4 eq_refl D0 Hx).
            * rewrite app_length, repeat_length, Nat2Z.inj_add.
              destruct (Z_le_gt_dec 0 count') as [C0 | C0].
              -- rewrite Z2Nat.id by lia. lia.
              -- replace (Z.to_nat count') with 0%nat by lia. rewrite Z.add_0_r.
                 (* more than p iterations: frac >= 10^p, hence frac = 10^p, whose first digit step emits nothing *)
                 assert (K : 10 ^ (p - count' - 1) <= ds_frac st) by (apply N9; lia).
                 assert (K2 : p - count' - 1 <= p).
                 { destruct (Z_le_gt_dec (p - count' - 1) p) as [L | G]; [exact L | exfalso].
                   assert (10 ^ p < 10 ^ (p - count' - 1)) by (apply Z.pow_lt_mono_r; lia). lia. }
                 assert (K3 : count' = -1) by lia. subst count'.
                 replace (p - -1 - 1) with p in K by lia.
                 assert (K4 : ds_frac st = 10 ^ p) by lia.
                 assert (K5 : ds_frac st mod 10 = 0).
                 { rewrite K4. replace p with (Z.succ (p - 1)) by lia. rewrite Z.pow_succ_r by lia.
                   rewrite Z.mul_comm. apply Z.mod_mul. lia. }
                 specialize (N7 eq_refl K5). lia. }
      destruct Hb as [Hb1 [Hb2 Hb3]]. split; [apply Forall_rev; exact Hb1 |].
      split; [| exact Hb3].
      intros Hx. apply (f_equal (@rev Z)) in Hx. rewrite rev_involutive in Hx. exact (Hb2 Hx). }
    destruct Hfd as [Hf1 [Hf2 Hf3]].
    unfold c08_shape_ok.
    pose proof (split_dec_text (ds_neg st) (dec_digits dec_fuel (ds_whole st)) (Some (rev buf2))) as SD.
    cbv iota beta in SD. rewrite SD.
    + rewrite dec_digits_no_leading_zero by (change (10 ^ 25) with 10000000000000000000000000; lia).
      cbn [andb]. apply andb_true_intro. split; apply Z.leb_le; lia.
    + apply dec_digits_are_digits. lia.
    + apply dec_digits_nonempty. unfold dec_fuel. lia.
    + split; assumption.
Qed.

Lemma flt_thres_real : forall x : f64, is_finite x = true ->
  flt thres_max x = false -> (B2R x <= 2147483647)%R.
Proof.
  intros x Fx H. destruct thres_repr as [Ft Rt]. unfold flt in H.
  rewrite Bltb_correct in H by assumption. rewrite Rt in H.
  destruct (Rlt_bool_spec 2147483647 (B2R x)); [discriminate | assumption].
Qed.

(* inside the threshold there is always a text *)
Lemma dtoa_total_lemma : forall v p0, is_finite v = true ->
  flt thres_max (if flt v fzero then fneg v else v) = false ->
  exists t, modp_dtoa v p0 = DT_text t /\ c08_shape_ok (clamp_prec p0) t = true.
Proof.
  intros v p0 Fv Hthres.
  pose proof (dtoa_shape_lemma v p0 Fv) as SH.
  assert (Hcase : match modp_dtoa v p0 with DT_sprintf | DT_overflow => False | _ => True end).
  { unfold modp_dtoa, modp_dtoa_with. rewrite (feq_finite_refl v Fv). cbn [negb].
    pose proof (clamp_range p0) as Hp. set (p := clamp_prec p0) in *.
    pose proof (stage_bounds v p Fv Hp) as SB.
    destruct (abs_value v Fv) as [Fval _]. cbv zeta in Fval.
    pose proof (flt_thres_real _ Fval Hthres) as Hle.
    destruct (dtoa_stage v p) as [st |]; [| exact (Rlt_not_le _ _ SB Hle)].
    destruct SB as [SB0 SB]. specialize (SB0 Hle).
    destruct (Z.ltb_spec 2147483647 (ds_whole0 st)) as [W0 | W0]; [lia |].
    destruct (SB W0) as [_ [_ [_ [_ [_ [B3 B4]]]]]]. rewrite B4 in *. specialize (B3 Hle).
    destruct (Z.ltb_spec 2147483647 (ds_whole st)) as [W1 | W1]; [lia |].
    rewrite Hthres.
    destruct (if p =? 0 then _ else _) as [[buf whole] |]; [| exact I].
    destruct (whole_loop dtoa_fuel whole buf); exact I. }
  destruct (modp_dtoa v p0) as [t | | |]; try contradiction.
  exists t. split; [reflexivity | exact SH].
Qed.

