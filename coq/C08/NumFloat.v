(* Model of the floating point <-> text conversions used by Field<fp_type> (fp_type = double):
     size_t modp_dtoa(double value, char *str, int prec)        runtime/modp_numtoa.c
     fp_type fast_atof(const char *p)                           include/fix8/f8utils.hpp
   over Flocq's binary64 (round to nearest even, SSE2 double arithmetic: no extended precision,
   no fused multiply-add).  Transcribed statement by statement, defects included.  No proofs in
   this file (the two [eq_refl] terms below are the instance arguments Flocq's operations take:
   0 < 53 and 53 < 1024). *)
From Coq Require Import ZArith List Bool.
From Flocq Require Import Core.Zaux IEEE754.BinarySingleNaN.
From Flocq Require IEEE754.Binary IEEE754.Bits.
From F8 Require Import C08.NumInt.
Import ListNotations.
Local Open Scope Z_scope.

Definition f64 := binary_float 53 1024.
Definition Hprec64 : FLX.Prec_gt_0 53 := eq_refl.
Definition Hemax64 : Prec_lt_emax 53 1024 := eq_refl.

Definition fadd : f64 -> f64 -> f64 := @Bplus 53 1024 Hprec64 Hemax64 mode_NE.
Definition fsub : f64 -> f64 -> f64 := @Bminus 53 1024 Hprec64 Hemax64 mode_NE.
Definition fmul : f64 -> f64 -> f64 := @Bmult 53 1024 Hprec64 Hemax64 mode_NE.
Definition fdiv : f64 -> f64 -> f64 := @Bdiv 53 1024 Hprec64 Hemax64 mode_NE.
Definition fneg : f64 -> f64 := @Bopp 53 1024.
Definition flt : f64 -> f64 -> bool := @Bltb 53 1024.     (* a < b, false on NaN *)
Definition fle : f64 -> f64 -> bool := @Bleb 53 1024.     (* a <= b *)
Definition feq : f64 -> f64 -> bool := @Beqb 53 1024.     (* a == b *)

(* the double nearest to m * 2^e: conversions int -> double (exact for |m| < 2^53, e = 0) and
   the decimal literals of the source (correctly rounded by the compiler) *)
Definition f_of_Z2 (m e : Z) : f64 := binary_normalize 53 1024 Hprec64 Hemax64 mode_NE m e false.
Definition f_of_Z (n : Z) : f64 := f_of_Z2 n 0.

Definition fzero : f64 := B754_zero false.
Definition fhalf : f64 := f_of_Z2 1 (-1).        (* 0.5 *)
Definition fone : f64 := f_of_Z 1.
Definition ften : f64 := f_of_Z 10.

(* (int)x / (uint32_t)x / (int64_t)x before the range check: truncation towards zero, read off
   the representation s * m * 2^e.  None for infinities and NaN. *)
Definition trunc_f64 (x : f64) : option Z :=
  match x with
  | B754_zero _ => Some 0
  | B754_finite s m e _ =>
    Some (cond_Zopp s (match e with
                       | Z0 => Zpos m
                       | Zpos p => Zpos m * Z.pow_pos 2 p
                       | Zneg p => Zpos m / Z.pow_pos 2 p
                       end))
  | _ => None
  end.

(* bit patterns (I/O of the correspondence check) *)
Definition f64_of_bits (b : Z) : f64 := Binary.B2BSN 53 1024 (Bits.b64_of_bits b).
Definition bits_of_f64 (x : f64) : Z :=
  match x with
  | B754_zero s => if s then 9223372036854775808 else 0
  | B754_infinity s => (if s then 9223372036854775808 else 0) + 9218868437227405312
  | B754_nan => 9221120237041090560                       (* 0x7ff8000000000000 *)
  | B754_finite s m e _ =>
    (if s then 9223372036854775808 else 0) +
    (if Zpos m <? 4503599627370496 then Zpos m          (* subnormal: exponent field 0 *)
     else (e + 1075) * 4503599627370496 + (Zpos m - 4503599627370496))
  end.

(* ---------------------------------------------------------------------------- modp_dtoa *)

(* static const double pow10_[] = {1, 10, ..., 1000000000} *)
Definition pow10_tab (prec : Z) : f64 := f_of_Z (10 ^ prec).

Definition thres_max : f64 := f_of_Z 2147483647.          (* (double)(0x7FFFFFFF) *)

(* the fraction digit loop
     do { --count;
          if (frac % 10) done += ( *wstr++ = (char)(48 + (frac % 10)) );
          else if (done) *wstr++ = '0';
     } while (frac /= 10);
   returns (buffer, count, done) *)
Fixpoint frac_loop (fuel : nat) (frac count done : Z) (buf : list Z) : option (list Z * Z * Z) :=
  match fuel with
  | O => None
  | S fuel' =>
    let count := count - 1 in
    let d := frac mod 10 in
    let '(buf, done) :=
      if negb (d =? 0) then (emit buf (48 + d), done + (48 + d))
      else if negb (done =? 0) then (emit buf 48, done)
      else (buf, done) in
    let frac := frac / 10 in
    if frac =? 0 then Some (buf, count, done) else frac_loop fuel' frac count done buf
  end.

(* while (count-- > 0) *wstr++ = '0'; *)
Definition pad_zeros (buf : list Z) (count : Z) : list Z :=
  buf ++ repeat 48 (Z.to_nat count).

(* do *wstr++ = (char)(48 + (whole % 10)); while (whole /= 10);   (whole >= 0 here) *)
Fixpoint whole_loop (fuel : nat) (whole : Z) (buf : list Z) : option (list Z) :=
  match fuel with
  | O => None
  | S fuel' =>
    let buf := emit buf (48 + Z.rem whole 10) in
    let whole := Z.quot whole 10 in
    if whole =? 0 then Some buf else whole_loop fuel' whole buf
  end.

Definition dtoa_fuel : nat := 12.

(* the intermediate quantities of the rounding stage, exposed for the theorems and for the
   classification of findings:  whole0 = (int)value, tmp, frac0 = (uint32_t)tmp, diff *)
Record dstage := { ds_neg : bool; ds_value : f64; ds_whole0 : Z; ds_tmp : f64; ds_frac0 : Z;
                   ds_diff : f64; ds_frac : Z; ds_whole : Z }.

Definition clamp_prec (prec : Z) : Z := if prec <? 0 then 0 else if 9 <? prec then 9 else prec.

(* everything up to (not including) the thres_max test; prec already clamped.
   None: value is not finite (the casts are undefined; that path always ends in sprintf).
   [fixed] = true is the code as of commit a6c4c45 (the halfway branch handles the fraction
   roll-over when prec > 0); [fixed] = false the code before it (kept for the refutation witness). *)
Definition dtoa_stage_gen (fixed : bool) (v : f64) (prec : Z) : option dstage :=
  let neg := flt v fzero in                                 (* if (value < 0) { neg = 1; *)
  let value := if neg then fneg v else v in                 (*    value = -value; }      *)
  match trunc_f64 value with
  | None => None
  | Some whole0 =>                                          (* whole = (int) value; *)
    let tmp := fmul (fsub value (f_of_Z whole0)) (pow10_tab prec) in
    match trunc_f64 tmp with
    | None => None
    | Some frac0 =>                                         (* frac = (uint32_t)(tmp); *)
      let diff := fsub tmp (f_of_Z frac0) in                (* diff = tmp - frac; *)
      let '(frac, whole) :=
        if flt fhalf diff then                              (* if (diff > 0.5) { ++frac; *)
          let frac1 := (frac0 + 1) mod W32 in
          if fle (pow10_tab prec) (f_of_Z frac1)            (*   if (frac >= pow10_[prec]) *)
          then (0, whole0 + 1)                              (*     { frac = 0; ++whole; } } *)
          else (frac1, whole0)
        else if feq diff fhalf && ((frac0 =? 0) || Z.odd frac0)
        then                                                (* else if (diff == 0.5 && (..)) { ++frac; *)
          let frac1 := (frac0 + 1) mod W32 in
          if fixed && (0 <? prec) && fle (pow10_tab prec) (f_of_Z frac1)
          then (0, whole0 + 1)                              (*   if (prec > 0 && frac >= pow10_[prec])
                                                                   { frac = 0; ++whole; } } *)
          else (frac1, whole0)
        else (frac0, whole0) in
      Some {| ds_neg := neg; ds_value := value; ds_whole0 := whole0; ds_tmp := tmp;
              ds_frac0 := frac0; ds_diff := diff; ds_frac := frac; ds_whole := whole |}
    end
  end.

Definition dtoa_stage := dtoa_stage_gen true.            (* the current tree *)
Definition dtoa_stage_orig := dtoa_stage_gen false.      (* before a6c4c45: no roll-over test in the halfway branch *)

Inductive dtoa_result :=
  | DT_text (t : list Z)      (* the characters written *)
  | DT_sprintf                (* value > thres_max (or not finite): sprintf(str, "%e", ...) *)
  | DT_overflow               (* ++whole executed with whole = INT_MAX: signed overflow (undefined) *)
  | DT_fuel.                  (* a digit loop ran out of fuel: excluded by the proofs *)

Definition modp_dtoa_with (stage : f64 -> Z -> option dstage) (v : f64) (prec0 : Z) : dtoa_result :=
  if negb (feq v v) then DT_text [110; 97; 110]             (* "nan" *)
  else
    let prec := clamp_prec prec0 in
    match stage v prec with
    | None => DT_sprintf
    | Some st =>
      let value := ds_value st in
      (* the roll-over ++whole of the rounding stage comes BEFORE the thres_max test *)
      if 2147483647 <? ds_whole0 st then DT_sprintf         (* value >= 2^31: the (int) cast is
                                                               out of range, its result is not used *)
      else if 2147483647 <? ds_whole st then DT_overflow
      else if flt thres_max value then DT_sprintf           (* if (value > thres_max) *)
      else
        let r :=
          if prec =? 0 then
            let diff := fsub value (f_of_Z (ds_whole st)) in   (* diff = value - whole; *)
            let whole :=
              if flt fhalf diff then ds_whole st + 1
              else if feq diff fhalf && Z.odd (ds_whole st) then ds_whole st + 1
              else ds_whole st in
            Some ([], whole)
          else
            match frac_loop dtoa_fuel (ds_frac st) prec 0 [] with
            | None => None
            | Some (buf, count, done) =>
              let buf := if done =? 0 then emit buf 48 else pad_zeros buf count in
              Some (emit buf 46, ds_whole st)                 (* '.' *)
            end in
        match r with
        | None => DT_fuel
        | Some (buf, whole) =>
          match whole_loop dtoa_fuel whole buf with
          | None => DT_fuel
          | Some buf =>
            let buf := if ds_neg st then emit buf 45 else buf in
            DT_text (strreverse buf)
          end
        end
    end.

Definition modp_dtoa := modp_dtoa_with dtoa_stage.
Definition modp_dtoa_orig := modp_dtoa_with dtoa_stage_orig.

(* ---------------------------------------------------------------------------- fast_atof *)

Definition is_digit (c : Z) : bool := (48 <=? c) && (c <=? 57).
Definition is_space (c : Z) : bool := (c =? 32) || ((9 <=? c) && (c <=? 13)).

Fixpoint skip_space (s : list Z) : list Z :=
  match s with
  | c :: r => if is_space c then skip_space r else s
  | [] => []
  end.

(* while (isdigit( *p )) { value = value * 10. + ( *p - '0' ); ++p; } *)
Fixpoint atof_int_digits (value : f64) (s : list Z) : f64 * list Z :=
  match s with
  | c :: r => if is_digit c then atof_int_digits (fadd (fmul value ften) (f_of_Z (c - 48))) r
              else (value, s)
  | [] => (value, [])
  end.

(* while (isdigit( *p )) { value += ( *p - '0' ) / mpow10; mpow10 *= 10.; ++p; } *)
Fixpoint atof_frac_digits (value mpow10 : f64) (s : list Z) : f64 * list Z :=
  match s with
  | c :: r => if is_digit c
              then atof_frac_digits (fadd value (fdiv (f_of_Z (c - 48)) mpow10)) (fmul mpow10 ften) r
              else (value, s)
  | [] => (value, [])
  end.

(* while (isdigit( *p )) { expon = expon * 10 + ( *p - '0' ); ++p; }   (unsigned int) *)
Fixpoint atof_exp_digits (expon : Z) (s : list Z) : Z * list Z :=
  match s with
  | c :: r => if is_digit c then atof_exp_digits ((expon * 10 + (c - 48)) mod W32) r
              else (expon, s)
  | [] => (expon, [])
  end.

(* while (expon >= step) { scale *= factor; expon -= step; } *)
Fixpoint scale_loop (fuel : nat) (step : Z) (factor scale : f64) (expon : Z) : f64 * Z :=
  match fuel with
  | O => (scale, expon)
  | S fuel' => if step <=? expon then scale_loop fuel' step factor (fmul scale factor) (expon - step)
               else (scale, expon)
  end.

Definition f1e50 : f64 := f_of_Z (10 ^ 50).      (* the literal 1E50, correctly rounded *)
Definition f1e8 : f64 := f_of_Z 100000000.

Definition fast_atof (p : list Z) : f64 :=
  let p := skip_space p in
  let '(sign, p) :=
    match p with
    | c :: r => if c =? 45 then (f_of_Z (-1), r)          (* '-' *)
                else if c =? 43 then (fone, r)            (* '+' *)
                else (fone, p)
    | [] => (fone, p)
    end in
  let '(value, p) := atof_int_digits fzero p in
  let '(value, p) :=
    match p with
    | c :: r => if c =? 46 then atof_frac_digits value ften r else (value, p)    (* '.' *)
    | [] => (value, p)
    end in
  let '(frac, scale) :=
    match p with
    | c :: r =>
      if (c =? 69) || (c =? 101) then              (* toupper( *p ) == 'E' *)
        let '(frac, r) :=
          match r with
          | c' :: r' => if c' =? 45 then (true, r') else if c' =? 43 then (false, r') else (false, r)
          | [] => (false, r)
          end in
        let '(expon, _) := atof_exp_digits 0 r in
        let expon := if 308 <? expon then 308 else expon in
        let '(scale, expon) := scale_loop 10 50 f1e50 fone expon in
        let '(scale, expon) := scale_loop 10 8 f1e8 scale expon in
        let '(scale, _) := scale_loop 10 1 ften scale expon in
        (frac, scale)
      else (false, fone)
    | [] => (false, fone)
    end in
  fmul sign (if frac then fdiv value scale else fmul value scale).

(* Field<fp_type>::print at precision p, then the Field<fp_type>(const char * ) constructor *)
Definition float_roundtrip (v : f64) (prec : Z) : dtoa_result * option f64 :=
  match modp_dtoa v prec with
  | DT_text t => (DT_text t, Some (fast_atof t))
  | r => (r, None)
  end.
