(* Model of the integer <-> text conversions of include/fix8/f8utils.hpp:
     template<typename T> size_t itoa(T value, char *result, int base)      (T = int)
     template<> size_t itoa<unsigned int>(unsigned int value, char *result, int base)
     template<typename T> T fast_atoi(const char *str, const char term = '\0')
                                                     (T = int, unsigned, unsigned short)
   as of commit 1965750 (a leading '-' is honoured for signed T -- a8219b1 -- and the value is
   accumulated in the unsigned type and negated at the end); the routine as it was before a8219b1 is kept at the end
   of the file as fast_atoi_orig / fast_atoi_checked_orig, for the refutation witnesses only.
   Transcribed statement by statement.  No proofs in this file.
   Text is a list of bytes 0..255 (as Z); the terminating NUL of a C string is implicit. *)
From Coq Require Import ZArith List Bool.
Import ListNotations.
Local Open Scope Z_scope.

(* "zyxwvutsrqponmlkjihgfedcba9876543210123456789abcdefghijklmnopqrstuvwxyz" *)
Definition digit_table : list Z :=
  [122; 121; 120; 119; 118; 117; 116; 115; 114; 113; 112; 111; 110; 109; 108; 107; 106; 105;
   104; 103; 102; 101; 100; 99; 98; 97; 57; 56; 55; 54; 53; 52; 51; 50; 49; 48; 49; 50; 51; 52;
   53; 54; 55; 56; 57; 97; 98; 99; 100; 101; 102; 103; 104; 105; 106; 107; 108; 109; 110; 111;
   112; 113; 114; 115; 116; 117; 118; 119; 120; 121; 122].

(* "..."[35 + (tmp_value - value * base)] *)
Definition digit_char (rem : Z) : Z := nth (Z.to_nat (35 + rem)) digit_table 0.

(* *ptr++ = c : the buffer is kept in write order *)
Definition emit (buf : list Z) (c : Z) : list Z := buf ++ [c].

(* do { tmp_value = value; value /= base; *ptr++ = table[35 + (tmp_value - value * base)]; }
   while (value);
   C integer division truncates towards zero (Z.quot).  Returns the buffer and the LAST
   tmp_value (the sign test after the loop is made on it).  Out of fuel = None. *)
Fixpoint itoa_loop (fuel : nat) (base value : Z) (buf : list Z) : option (list Z * Z) :=
  match fuel with
  | O => None
  | S fuel' =>
    let tmp_value := value in
    let value := Z.quot value base in
    let buf := emit buf (digit_char (tmp_value - value * base)) in
    if value =? 0 then Some (buf, tmp_value) else itoa_loop fuel' base value buf
  end.

Definition itoa_fuel : nat := 40.   (* >= 32 binary digits + 1; base 10 needs 10 *)

(* the final in-place swap loop  [while (ptr1 < ptr) swap( *ptr--, *ptr1++ )]  reverses the
   written characters (everything before the terminating NUL) *)
Definition strreverse (buf : list Z) : list Z := rev buf.

(* itoa<int>: value is an int32.  Result: the characters written (strlen(result) = length) *)
Definition itoa_int (value base : Z) : option (list Z) :=
  if (base <? 2) || (36 <? base) then Some []
  else
    match itoa_loop itoa_fuel base value [] with
    | None => None
    | Some (buf, tmp_value) =>
      let buf := if tmp_value <? 0 then emit buf 45 else buf in     (* '-' *)
      Some (strreverse buf)
    end.

(* itoa<unsigned int>: value is a uint32; no sign step *)
Definition itoa_uint (value base : Z) : option (list Z) :=
  if (base <? 2) || (36 <? base) then Some []
  else
    match itoa_loop itoa_fuel base value [] with
    | None => None
    | Some (buf, _) => Some (strreverse buf)
    end.

(* ---------------------------------------------------------------------------- fast_atoi *)

Definition W32 : Z := 4294967296.
Definition W31 : Z := 2147483648.
Definition W16 : Z := 65536.

(* (int)*str with char signed *)
Definition schar (b : Z) : Z := if b <? 128 then b else b - 256.

Inductive ity := T_int | T_uint | T_ushort.

(* Outcome of a parse.  Since commit 1965750 the accumulator is unsigned for every T, so there is no
   undefined operation left; the only thing that can go wrong is a terminator other than NUL that
   does not occur in the string. *)
Inductive atoi_result :=
  | AR_ok (v : Z)
  | AR_oob.                   (* the loop runs off the end of the string *)

(* two's complement reinterpretation of the low 32 bits: static_cast<int>(unsigned) *)
Definition sint32 (x : Z) : Z := let y := x mod W32 in if y <? W31 then y else y - W32.

(* using U = typename std::make_unsigned<T>::type;   2^(bits of U) *)
Definition umod (ty : ity) : Z := match ty with T_ushort => W16 | _ => W32 end.

(* retval = retval * 10 + static_cast<U>( *str - '0' );
   U = unsigned: both operands unsigned, arithmetic mod 2^32;
   U = unsigned short: the operands are promoted to int (retval * 10 <= 655350 and the converted
   digit <= 65535: no overflow) and the assignment converts back mod 2^16 *)
Definition atoi_step (ty : ity) (retval c : Z) : Z :=
  (retval * 10 + (schar c - 48) mod umod ty) mod umod ty.

(* for (; *str != term; ++str) retval = step(retval, *str);
   [] is the terminating NUL of the C string *)
Fixpoint atoi_loop (ty : ity) (term : Z) (str : list Z) (retval : Z) : atoi_result :=
  match str with
  | [] => if term =? 0 then AR_ok retval else AR_oob
  | c :: rest => if c =? term then AR_ok retval else atoi_loop ty term rest (atoi_step ty retval c)
  end.

(* const bool neg(std::is_signed<T>::value && *str == '-');  if (neg) ++str;  ...loop...
   return static_cast<T>(neg ? U(0) - retval : retval); *)
Definition fast_atoi (ty : ity) (term : Z) (str : list Z) : atoi_result :=
  let neg := match ty, str with
             | T_int, c :: _ => c =? 45
             | _, _ => false
             end in
  let str := if neg then tl str else str in
  match atoi_loop ty term str 0 with
  | AR_ok retval =>
    let u := if neg then (0 - retval) mod umod ty else retval in
    AR_ok (match ty with T_int => sint32 u | _ => u end)
  | AR_oob => AR_oob
  end.

(* Field<int>::print followed by the Field<int>(const char * ) constructor *)
Definition int_roundtrip (v : Z) : option (list Z * atoi_result) :=
  match itoa_int v 10 with
  | None => None
  | Some t => Some (t, fast_atoi T_int 0 t)
  end.

Definition uint_roundtrip (v : Z) : option (list Z * atoi_result) :=
  match itoa_uint v 10 with
  | None => None
  | Some t => Some (t, fast_atoi T_uint 0 t)
  end.

(* ------------------------------------------------ the routine BEFORE the repairs (a8219b1^) *)
(* retval = (retval << 3) + (retval << 1) + *str - '0';  no sign handling.  Kept only for the
   refutation witnesses c08_atoi_neg_orig_refuted / c08_atoi_top_overflow_orig_refuted. *)

Definition in_int (x : Z) : bool := (- W31 <=? x) && (x <? W31).

(* two's complement result (what the hardware produced) *)
Definition atoi_step_orig (retval c : Z) : Z :=
  sint32 (Z.shiftl retval 3 + Z.shiftl retval 1 + schar c - 48).

Fixpoint fast_atoi_orig_from (str : list Z) (retval : Z) : Z :=
  match str with
  | [] => retval
  | c :: rest => if c =? 0 then retval else fast_atoi_orig_from rest (atoi_step_orig retval c)
  end.
Definition fast_atoi_orig (str : list Z) : Z := fast_atoi_orig_from str 0.

(* the same with the C++ rules checked: ((retval << 3) + (retval << 1) + *str) - '0' *)
Inductive atoi_checked_orig :=
  | AC_ok (v : Z)
  | AC_shift_negative          (* left shift of a negative value *)
  | AC_overflow.               (* signed integer overflow *)

Definition atoi_step_checked_orig (retval c : Z) : atoi_checked_orig :=
  if retval <? 0 then AC_shift_negative
  else
    let a := Z.shiftl retval 3 in
    let b := Z.shiftl retval 1 in
    if negb (in_int a && in_int b) then AC_overflow
    else if negb (in_int (a + b)) then AC_overflow
    else if negb (in_int (a + b + schar c)) then AC_overflow
    else if negb (in_int (a + b + schar c - 48)) then AC_overflow
    else AC_ok (a + b + schar c - 48).

Fixpoint fast_atoi_checked_orig_from (str : list Z) (retval : Z) : atoi_checked_orig :=
  match str with
  | [] => AC_ok retval
  | c :: rest => if c =? 0 then AC_ok retval
                 else match atoi_step_checked_orig retval c with
                      | AC_ok r => fast_atoi_checked_orig_from rest r
                      | e => e
                      end
  end.
Definition fast_atoi_checked_orig (str : list Z) : atoi_checked_orig :=
  fast_atoi_checked_orig_from str 0.
