(* Model of the integer <-> text conversions of include/fix8/f8utils.hpp:
     template<typename T> size_t itoa(T value, char *result, int base)      (T = int)
     template<> size_t itoa<unsigned int>(unsigned int value, char *result, int base)
     template<typename T> T fast_atoi(const char *str, const char term = '\0')
                                                     (T = int, unsigned, unsigned short)
   Transcribed statement by statement, defects included (fast_atoi has no sign handling: the
   '-' is consumed as the "digit" 45 - 48 = -3).  No proofs in this file.
   Text is a list of bytes 0..255 (as Z); the terminating NUL of a C string is implicit. *)
From Coq Require Import ZArith List Bool.
Import ListNotations.
Local Open Scope Z_scope.

(* "zyxwvutsrqponmlkjihgfedcba9876543210123456789abcdefghijklmnopqrstuvwxyz" *)
Definition digit_table : list Z :=
  [122; 121; 120; 119; 118; 117; 116; 115; 114; 113; 112; 111; 110; 109; 108; 107; 106; 105;
   104; 103; 102; 101; 100; 99; 98; 97; 57; 56; 55; 54; 53; 52; 51; 50; 49; 48; 49; 50; 51; 52;
   53; 54; 55; 56; 57; 97; 98; 99; 100; 101; 102; 103; 104; 105; 106; 107; 108; 109; 110; 111;
   112; 113; 114; 115; 116; 117; 118; 119; 120; 121; 122].

(* "..."[35 + (tmp_value - value * base)] *)
Definition digit_char (rem : Z) : Z := nth (Z.to_nat (35 + rem)) digit_table 0.

(* *ptr++ = c : the buffer is kept in write order *)
Definition emit (buf : list Z) (c : Z) : list Z := buf ++ [c].

(* do { tmp_value = value; value /= base; *ptr++ = table[35 + (tmp_value - value * base)]; }
   while (value);
   C integer division truncates towards zero (Z.quot).  Returns the buffer and the LAST
   tmp_value (the sign test after the loop is made on it).  Out of fuel = None. *)
Fixpoint itoa_loop (fuel : nat) (base value : Z) (buf : list Z) : option (list Z * Z) :=
  match fuel with
  | O => None
  | S fuel' =>
    let tmp_value := value in
    let value := Z.quot value base in
    let buf := emit buf (digit_char (tmp_value - value * base)) in
    if value =? 0 then Some (buf, tmp_value) else itoa_loop fuel' base value buf
  end.

Definition itoa_fuel : nat := 40.   (* >= 32 binary digits + 1; base 10 needs 10 *)

(* the final in-place swap loop  [while (ptr1 < ptr) swap( *ptr--, *ptr1++ )]  reverses the
   written characters (everything before the terminating NUL) *)
Definition strreverse (buf : list Z) : list Z := rev buf.

(* itoa<int>: value is an int32.  Result: the characters written (strlen(result) = length) *)
Definition itoa_int (value base : Z) : option (list Z) :=
  if (base <? 2) || (36 <? base) then Some []
  else
    match itoa_loop itoa_fuel base value [] with
    | None => None
    | Some (buf, tmp_value) =>
      let buf := if tmp_value <? 0 then emit buf 45 else buf in     (* '-' *)
      Some (strreverse buf)
    end.

(* itoa<unsigned int>: value is a uint32; no sign step *)
Definition itoa_uint (value base : Z) : option (list Z) :=
  if (base <? 2) || (36 <? base) then Some []
  else
    match itoa_loop itoa_fuel base value [] with
    | None => None
    | Some (buf, _) => Some (strreverse buf)
    end.

(* ---------------------------------------------------------------------------- fast_atoi *)

Definition W32 : Z := 4294967296.
Definition W31 : Z := 2147483648.
Definition W16 : Z := 65536.

(* two's complement reinterpretation of the low 32 bits *)
Definition sint32 (x : Z) : Z := let y := x mod W32 in if y <? W31 then y else y - W32.

(* (int)*str with char signed *)
Definition schar (b : Z) : Z := if b <? 128 then b else b - 256.

Inductive ity := T_int | T_uint | T_ushort.

(* retval = (retval << 3) + (retval << 1) + *str - '0';
   int: computed in int, wrapping (two's complement; formally UB for negative retval or on
        overflow -- the harness is compiled with -fwrapv);
   unsigned: all operands converted to unsigned, arithmetic mod 2^32;
   unsigned short: promoted to int (no overflow possible: retval <= 65535), the assignment
        converts back mod 2^16. *)
Definition atoi_step (ty : ity) (retval c : Z) : Z :=
  let raw := Z.shiftl retval 3 + Z.shiftl retval 1 + schar c - 48 in
  match ty with
  | T_int => sint32 raw
  | T_uint => raw mod W32
  | T_ushort => raw mod W16
  end.

(* for (; *str != term; ++str) ...
   [] is the terminating NUL: with term = 0 the loop ends there; with another terminator that
   does not occur in the string the loop runs past the end of the string (None). *)
Fixpoint fast_atoi_from (ty : ity) (term : Z) (str : list Z) (retval : Z) : option Z :=
  match str with
  | [] => if term =? 0 then Some retval else None
  | c :: rest => if c =? term then Some retval
                 else fast_atoi_from ty term rest (atoi_step ty retval c)
  end.

Definition fast_atoi (ty : ity) (term : Z) (str : list Z) : option Z :=
  fast_atoi_from ty term str 0.

(* Field<int>::print followed by the Field<int>(const char * ) constructor *)
Definition int_roundtrip (v : Z) : option (list Z * Z) :=
  match itoa_int v 10 with
  | None => None
  | Some t => match fast_atoi T_int 0 t with None => None | Some r => Some (t, r) end
  end.

Definition uint_roundtrip (v : Z) : option (list Z * Z) :=
  match itoa_uint v 10 with
  | None => None
  | Some t => match fast_atoi T_uint 0 t with None => None | Some r => Some (t, r) end
  end.

(* ------------------------------------------------- fast_atoi<int> with the C++ rules checked *)
(* The same loop for T = int, but every int operation is checked in evaluation order
     ((retval << 3) + (retval << 1)) + *str) - '0'
   instead of being wrapped: this is what the build WITHOUT -fwrapv / with UBSan observes.
   (A left shift of a non-negative value is flagged here as soon as the result leaves int; C++11
   tolerates results up to 2^32-1 -- never reached on the canonical text of an int32.) *)
Inductive atoi_checked :=
  | AC_ok (v : Z)
  | AC_shift_negative          (* left shift of a negative value *)
  | AC_shift_overflow
  | AC_overflow.               (* signed integer overflow in + or - *)

Definition in_int (x : Z) : bool := (- W31 <=? x) && (x <? W31).

Definition atoi_step_checked (retval c : Z) : atoi_checked :=
  if retval <? 0 then AC_shift_negative
  else
    let a := Z.shiftl retval 3 in
    let b := Z.shiftl retval 1 in
    if negb (in_int a && in_int b) then AC_shift_overflow
    else if negb (in_int (a + b)) then AC_overflow
    else if negb (in_int (a + b + schar c)) then AC_overflow
    else if negb (in_int (a + b + schar c - 48)) then AC_overflow
    else AC_ok (a + b + schar c - 48).

Fixpoint fast_atoi_checked_from (str : list Z) (retval : Z) : atoi_checked :=
  match str with
  | [] => AC_ok retval
  | c :: rest => if c =? 0 then AC_ok retval
                 else match atoi_step_checked retval c with
                      | AC_ok r => fast_atoi_checked_from rest r
                      | e => e
                      end
  end.

Definition fast_atoi_checked (str : list Z) : atoi_checked := fast_atoi_checked_from str 0.

(* itoa<int> then fast_atoi<int> under the checked rules *)
Definition int_roundtrip_checked (v : Z) : option (list Z * atoi_checked) :=
  match itoa_int v 10 with
  | None => None
  | Some t => Some (t, fast_atoi_checked t)
  end.
