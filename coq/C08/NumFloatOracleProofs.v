(* The property's own oracle (Spec_C08.c08_float_ok: correct rounding + half-ulp parse, in exact
   integer arithmetic on sign/mantissa/exponent) accepts the model's round trip of every integral
   double below 2^31. *)
From Coq Require Import ZArith List Bool Lia Reals Lra.
From Flocq Require Import Core.Core IEEE754.BinarySingleNaN.
From F8 Require Import C08.NumInt C08.NumFloat C08.Spec_C08 C08.NumIntProofs C08.NumFloatProofs
  C08.NumFloatShapeProofs.
Import ListNotations.
Local Open Scope Z_scope.

(* sign / mantissa / exponent of a double holding the integer n *)
Lemma sme_repr : forall x n, reprZ x n ->
  exists s m e, sme x = Some (s, m, e) /\ 0 <= m /\
    (if 0 <=? e then m * 2 ^ e = Z.abs n else m = Z.abs n * 2 ^ (- e)) /\
    (n <> 0 -> s = (n <? 0)).
Proof.
  intros x n [Fx Rx]. destruct x as [s | s | | s m e Hb]; try discriminate.
  - simpl in Rx. apply eq_IZR in Rx. subst n. exists s, 0, 0. cbn. repeat split; try lia.
  - exists s, (Z.pos m), e. split; [reflexivity |]. split; [lia |].
    unfold B2R, F2R in Rx. cbn [Fnum Fexp] in Rx.
    assert (Hc : SpecFloat.cond_Zopp s (Z.pos m) = if s then Z.neg m else Z.pos m) by (destruct s; reflexivity).
    change (cond_Zopp s (Z.pos m)) with (SpecFloat.cond_Zopp s (Z.pos m)) in Rx.
    destruct (Z.leb_spec 0 e) as [Ep | En].
    + rewrite <- (IZR_Zpower radix2 e) in Rx by exact Ep. rewrite <- mult_IZR in Rx. apply eq_IZR in Rx.
      change (radix2 ^ e) with (2 ^ e) in Rx.
      assert (0 < 2 ^ e) by (apply Z.pow_pos_nonneg; lia).
      rewrite Hc in Rx. destruct s.
      * split; [| intros _; symmetry; apply Z.ltb_lt]; nia.
      * split; [| intros _; symmetry; apply Z.ltb_ge]; nia.
    + assert (HP : 0 < 2 ^ (- e)) by (apply Z.pow_pos_nonneg; lia).
      assert (Hb2 : bpow radix2 e = (/ IZR (2 ^ (- e)))%R).
      { replace e with (- (- e)) at 1 by lia. rewrite bpow_opp. f_equal.
        change (2 ^ (- e)) with (radix2 ^ (- e)). rewrite IZR_Zpower by lia. reflexivity. }
      rewrite Hb2 in Rx.
      assert (HPR : IZR (2 ^ (- e)) <> 0%R) by (apply not_0_IZR; lia).
      apply (f_equal (fun r => (r * IZR (2 ^ (- e)))%R)) in Rx.
      rewrite Rmult_assoc, Rinv_l, Rmult_1_r in Rx by exact HPR.
      rewrite <- mult_IZR in Rx. apply eq_IZR in Rx.
      rewrite Hc in Rx. destruct s.
      * split; [| intros _; symmetry; apply Z.ltb_lt]; nia.
      * split; [| intros _; symmetry; apply Z.ltb_ge]; nia.
Qed.

Lemma round_scaled_int : forall m e p a, 0 <= m -> 0 <= p ->
  (if 0 <=? e then m * 2 ^ e = a else m = a * 2 ^ (- e)) -> round_scaled m e p = a * 10 ^ p.
Proof.
  intros m e p a Hm Hp H. unfold round_scaled. destruct (Z.leb_spec 0 e).
  - rewrite H. reflexivity.
  - assert (HP : 0 < 2 ^ (- e)) by (apply Z.pow_pos_nonneg; lia).
    subst m. replace (a * 2 ^ (- e) * 10 ^ p) with (a * 10 ^ p * 2 ^ (- e)) by ring.
    rewrite Z.mod_mul, Z.div_mul by lia.
    destruct (Z.ltb_spec (2 * 0) (2 ^ (- e))); [reflexivity | lia].
Qed.

Lemma digits_value_dec : forall n, 0 <= n < 10 ^ 25 -> digits_value (dec_digits dec_fuel n) = n.
Proof.
  intros n Hn. unfold digits_value.
  rewrite digits_value_horner by (apply dec_digits_are_digits; lia).
  rewrite horner_dec_digits by (try (unfold dec_fuel; lia); exact Hn). lia.
Qed.

Lemma digits_value_dec0 : forall n, 0 <= n < 10 ^ 25 -> digits_value (dec_digits dec_fuel n ++ [48]) = n * 10.
Proof.
  intros n Hn. unfold digits_value. rewrite fold_left_app. fold (digits_value (dec_digits dec_fuel n)).
  rewrite digits_value_dec by exact Hn. cbn [fold_left]. lia.
Qed.

Lemma int_text_split : forall n p, Z.abs n < 2147483648 ->
  split_dec (canon_dec n ++ int_suffix p) =
  Some (n <? 0, dec_digits dec_fuel (Z.abs n), if p =? 0 then None else Some [48]).
Proof.
  intros n p Hn. rewrite canon_dec_abs. unfold int_suffix.
  pose proof (split_dec_text (n <? 0) (dec_digits dec_fuel (Z.abs n)) (if p =? 0 then None else Some [48])) as H.
  rewrite <- app_assoc.
  replace (if p =? 0 then [] else [46; 48]) with (match (if p =? 0 then None else Some [48]) with None => [] | Some fd => 46 :: fd end)
    by (destruct (p =? 0); reflexivity).
  apply H.
  - apply dec_digits_are_digits. lia.
  - apply dec_digits_nonempty. unfold dec_fuel. lia.
  - destruct (p =? 0); [exact I |]. split; [constructor; [lia | constructor] | discriminate].
Qed.

Lemma roundtrip_ok_int_lemma : forall n p, Z.abs n < 2147483648 -> 0 <= p <= 9 ->
  roundtrip_ok (f_of_Z n) p = true.
Proof.
  intros n p Hn Hp. unfold roundtrip_ok. rewrite float_roundtrip_int_lemma by assumption.
  assert (Hv : reprZ (f_of_Z n) n) by (apply f_of_Z_repr; change (2 ^ 53) with 9007199254740992; lia).
  destruct (sme_repr _ _ Hv) as [s [m [e [Es [Hm [Hme Hs]]]]]].
  set (a := Z.abs n) in *.
  assert (Ha : 0 <= a < 2147483648) by (unfold a; lia).
  assert (H10 : 0 < 10 ^ p) by (apply Z.pow_pos_nonneg; lia).
  unfold c08_float_ok.
  (* domain *)
  assert (Hdom : c08_in_domain (f_of_Z n) p = true).
  { unfold c08_in_domain. rewrite Es. unfold below_2_31.
    destruct (Z.leb_spec 0 e).
    - rewrite Hme. apply andb_true_intro. split; [apply andb_true_intro; split |]; [apply Z.ltb_lt | apply Z.leb_le | apply Z.leb_le]; lia.
    - assert (0 < 2 ^ (- e)) by (apply Z.pow_pos_nonneg; lia).
      apply andb_true_intro. split; [apply andb_true_intro; split |]; [apply Z.ltb_lt | apply Z.leb_le | apply Z.leb_le]; try lia.
      subst m. apply Z.mul_lt_mono_pos_r; lia. }
  rewrite Hdom.
  pose proof (int_text_split n p Hn) as Esplit. fold a in Esplit.
  apply andb_true_intro. split.
  - (* rendering clause *)
    unfold c08_render_ok. rewrite Es, Esplit.
    rewrite dec_digits_no_leading_zero by (change (10 ^ 25) with 10000000000000000000000000; lia).
    rewrite (round_scaled_int m e p a Hm ltac:(lia) Hme).
    destruct (Z.eqb_spec p 0) as [P0 | P0].
    + subst p. cbn [length Z.of_nat]. rewrite app_nil_r.
      rewrite digits_value_dec by (change (10 ^ 25) with 10000000000000000000000000; lia).
      change (10 ^ (0 - 0)) with 1. change (10 ^ 0) with 1. rewrite Z.eqb_refl. cbn [andb Z.leb Z.compare].
      destruct (Z.eq_dec n 0) as [N0 | N0].
      * replace (a * 1 =? 0) with true by (symmetry; apply Z.eqb_eq; unfold a; lia). reflexivity.
      * rewrite (Hs N0). rewrite Bool.eqb_reflx. apply orb_true_r.
    + cbn [length]. change (Z.of_nat 1) with 1.
      rewrite digits_value_dec0 by (change (10 ^ 25) with 10000000000000000000000000; lia).
      assert (E10 : a * 10 * 10 ^ (p - 1) = a * 10 ^ p).
      { replace p with (Z.succ (p - 1)) at 2 by lia. rewrite Z.pow_succ_r by lia. ring. }
      rewrite E10, Z.eqb_refl.
      replace (1 <=? p) with true by (symmetry; apply Z.leb_le; lia). cbn [andb].
      destruct (Z.eq_dec n 0) as [N0 | N0].
      * replace (a * 10 ^ p =? 0) with true by (symmetry; apply Z.eqb_eq; unfold a; lia). reflexivity.
      * rewrite (Hs N0). rewrite Bool.eqb_reflx. apply orb_true_r.
  - (* parsing clause: the parsed double IS the value of the text *)
    unfold c08_parse_ok. rewrite Esplit. unfold half_ulp_ok. rewrite Es.
    set (fd := match (if p =? 0 then None else Some [48]) with Some l => l | None => [] end).
    set (b := 10 ^ Z.of_nat (length fd)).
    assert (Eab : digits_value (dec_digits dec_fuel a ++ fd) = a * b /\ 0 < b).
    { unfold b, fd. destruct (p =? 0).
      - rewrite app_nil_r, digits_value_dec by (change (10 ^ 25) with 10000000000000000000000000; lia).
        cbn [length Z.of_nat]. change (10 ^ 0) with 1. lia.
      - rewrite digits_value_dec0 by (change (10 ^ 25) with 10000000000000000000000000; lia).
        cbn [length]. change (10 ^ Z.of_nat 1) with 10. lia. }
    destruct Eab as [Eab Hb]. rewrite Eab.
    destruct (Z.eqb_spec (a * b) 0) as [Z0 | NZ].
    + assert (a = 0) by nia. apply Z.eqb_eq.
      destruct (Z.leb_spec 0 e); [| subst m; lia].
      assert (0 < 2 ^ e) by (apply Z.pow_pos_nonneg; lia). nia.
    + assert (N0 : n <> 0) by (unfold a in NZ; lia).
      rewrite (Hs N0).
      set (fexp := Z.max (ilog2_ratio (a * b) b - 52) (-1074)).
      set (sh := Z.max 0 (Z.max (- e) (- fexp))).
      assert (Hsh : 0 <= sh /\ 0 <= e + sh) by (unfold sh; lia).
      assert (Ekey : m * 2 ^ (e + sh) = a * 2 ^ sh).
      { destruct (Z.leb_spec 0 e).
        - rewrite Z.pow_add_r by lia. rewrite Z.mul_assoc, Hme. reflexivity.
        - subst m. rewrite <- Z.mul_assoc, <- Z.pow_add_r by lia. f_equal. f_equal. lia. }
      apply Z.leb_le.
      assert (Ediff : (if n <? 0 then - m else m) * 2 ^ (e + sh) * b - (if n <? 0 then - (a * b) else a * b) * 2 ^ sh = 0).
      { destruct (n <? 0); nia. }
      rewrite Ediff. cbn [Z.abs Z.mul].
      apply Z.mul_nonneg_nonneg; [apply Z.pow_nonneg; lia | lia].
Qed.

