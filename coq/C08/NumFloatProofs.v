(* Proofs about the floating point conversions (NumFloat.v): a small library relating Flocq's
   binary64 operations on integer-valued doubles to Z arithmetic, the round trip of integral
   doubles, and kernel-checked counterexamples to the general law. *)
From Coq Require Import ZArith List Bool Lia Reals Lra.
From Flocq Require Import Core.Core IEEE754.BinarySingleNaN.
From F8 Require Import C08.NumInt C08.NumFloat C08.Spec_C08 C08.NumIntProofs.
Import ListNotations.
Local Open Scope Z_scope.

Definition fexp64 := FLT_exp (3 - 1024 - 53) 53.
Definition rnd64 (x : R) : R := round radix2 fexp64 (round_mode mode_NE) x.

(* x is a finite double whose value is the integer n *)
Definition reprZ (x : f64) (n : Z) : Prop := is_finite x = true /\ B2R x = IZR n.

Lemma format_IZR : forall n, Z.abs n < 2 ^ 53 -> generic_format radix2 fexp64 (IZR n).
Proof.
  intros n Hn. apply generic_format_FLT.
  exists (Float radix2 n 0).
  - unfold F2R. simpl. lra.
  - simpl. exact Hn.
  - simpl. lia.
Qed.

Lemma rnd64_IZR : forall n, Z.abs n < 2 ^ 53 -> rnd64 (IZR n) = IZR n.
Proof.
  intros n Hn. unfold rnd64. apply round_generic; [apply valid_rnd_N | apply format_IZR; exact Hn].
Qed.

Lemma IZR_lt_emax : forall n, Z.abs n < 2 ^ 53 -> (Rabs (IZR n) < bpow radix2 1024)%R.
Proof.
  intros n Hn. rewrite <- abs_IZR.
  rewrite <- (IZR_Zpower radix2 1024) by lia.
  apply IZR_lt. eapply Z.lt_trans; [exact Hn |]. apply Z.ltb_lt. vm_compute. reflexivity.
Qed.

Lemma no_overflow : forall n, Z.abs n < 2 ^ 53 ->
  Rlt_bool (Rabs (rnd64 (IZR n))) (bpow radix2 1024) = true.
Proof. intros n Hn. rewrite rnd64_IZR by exact Hn. apply Rlt_bool_true. apply IZR_lt_emax. exact Hn. Qed.

Lemma f_of_Z_repr : forall n, Z.abs n < 2 ^ 53 -> reprZ (f_of_Z n) n.
Proof.
  intros n Hn. unfold f_of_Z, f_of_Z2.
  pose proof (binary_normalize_correct 53 1024 Hprec64 Hemax64 mode_NE n 0 false) as H.
  cbv zeta in H.
  assert (E : F2R (Float radix2 n 0) = IZR n) by (unfold F2R; simpl; lra).
  rewrite E in H. fold fexp64 in H. fold (rnd64 (IZR n)) in H.
  rewrite no_overflow in H by exact Hn. rewrite rnd64_IZR in H by exact Hn.
  destruct H as [H1 [H2 _]]. split; assumption.
Qed.

Lemma fadd_repr : forall x y a b, reprZ x a -> reprZ y b -> Z.abs (a + b) < 2 ^ 53 ->
  reprZ (fadd x y) (a + b).
Proof.
  intros x y a b [Fx Rx] [Fy Ry] Hn. unfold fadd.
  pose proof (Bplus_correct 53 1024 Hprec64 Hemax64 mode_NE x y Fx Fy) as H.
  rewrite Rx, Ry, <- plus_IZR in H. fold fexp64 in H. fold (rnd64 (IZR (a + b))) in H.
  rewrite no_overflow in H by exact Hn. rewrite rnd64_IZR in H by exact Hn.
  destruct H as [H1 [H2 _]]. split; assumption.
Qed.

Lemma fsub_repr : forall x y a b, reprZ x a -> reprZ y b -> Z.abs (a - b) < 2 ^ 53 ->
  reprZ (fsub x y) (a - b).
Proof.
  intros x y a b [Fx Rx] [Fy Ry] Hn. unfold fsub.
  pose proof (Bminus_correct 53 1024 Hprec64 Hemax64 mode_NE x y Fx Fy) as H.
  rewrite Rx, Ry, <- minus_IZR in H. fold fexp64 in H. fold (rnd64 (IZR (a - b))) in H.
  rewrite no_overflow in H by exact Hn. rewrite rnd64_IZR in H by exact Hn.
  destruct H as [H1 [H2 _]]. split; assumption.
Qed.

Lemma fmul_repr : forall x y a b, reprZ x a -> reprZ y b -> Z.abs (a * b) < 2 ^ 53 ->
  reprZ (fmul x y) (a * b).
Proof.
  intros x y a b [Fx Rx] [Fy Ry] Hn. unfold fmul.
  pose proof (Bmult_correct 53 1024 Hprec64 Hemax64 mode_NE x y) as H.
  rewrite Rx, Ry, <- mult_IZR in H. fold fexp64 in H. fold (rnd64 (IZR (a * b))) in H.
  rewrite no_overflow in H by exact Hn. rewrite rnd64_IZR in H by exact Hn.
  destruct H as [H1 [H2 _]]. split; [rewrite H2, Fx, Fy; reflexivity | exact H1].
Qed.

(* 0 / y for a finite non-zero y *)
Lemma fdiv_zero_repr : forall x y b, reprZ x 0 -> reprZ y b -> b <> 0 -> reprZ (fdiv x y) 0.
Proof.
  intros x y b [Fx Rx] [Fy Ry] Hb. unfold fdiv.
  assert (Hy : B2R y <> 0%R) by (rewrite Ry; apply not_0_IZR; exact Hb).
  pose proof (Bdiv_correct 53 1024 Hprec64 Hemax64 mode_NE x y Hy) as H.
  rewrite Rx in H. unfold Rdiv in H. rewrite Rmult_0_l in H.
  rewrite round_0 in H by apply valid_rnd_N.
  rewrite Rabs_R0 in H. rewrite Rlt_bool_true in H by apply bpow_gt_0.
  destruct H as [H1 [H2 _]]. split; [rewrite H2; exact Fx | exact H1].
Qed.

Lemma flt_repr : forall x y a b, reprZ x a -> reprZ y b -> flt x y = (a <? b).
Proof.
  intros x y a b [Fx Rx] [Fy Ry]. unfold flt. rewrite Bltb_correct by assumption.
  rewrite Rx, Ry. destruct (Z.ltb_spec a b).
  - apply Rlt_bool_true. apply IZR_lt. assumption.
  - apply Rlt_bool_false. apply IZR_le. assumption.
Qed.

Lemma fneg_repr : forall x a, reprZ x a -> reprZ (fneg x) (- a).
Proof.
  intros x a [Fx Rx]. unfold fneg. split.
  - rewrite is_finite_Bopp. exact Fx.
  - rewrite B2R_Bopp, Rx, opp_IZR. reflexivity.
Qed.

Lemma repr_inj : forall x y n, reprZ x n -> reprZ y n -> n <> 0 -> x = y.
Proof.
  intros x y n [Fx Rx] [Fy Ry] Hn.
  apply B2R_inj.
  - apply is_finite_strict_B2R. rewrite Rx. apply not_0_IZR. exact Hn.
  - apply is_finite_strict_B2R. rewrite Ry. apply not_0_IZR. exact Hn.
  - rewrite Rx, Ry. reflexivity.
Qed.

(* the cast to an integer type of a double holding an integer *)
Lemma trunc_repr : forall x n, reprZ x n -> trunc_f64 x = Some n.
Proof.
  intros x n [Fx Rx]. destruct x as [s | s | | s m e Hb]; try discriminate.
  - simpl in Rx. simpl. f_equal. apply eq_IZR. exact Rx.
  - unfold trunc_f64. f_equal. unfold B2R, F2R in Rx. cbn [Fnum Fexp] in Rx.
    destruct e as [| p | p].
    + cbn [bpow] in Rx. rewrite Rmult_1_r in Rx. apply eq_IZR. exact Rx.
    + cbn [bpow] in Rx. rewrite <- mult_IZR in Rx. apply eq_IZR in Rx.
      change (Z.pow_pos radix2 p) with (Z.pow_pos 2 p) in Rx.
      destruct s; cbn [cond_Zopp SpecFloat.cond_Zopp] in *; lia.
    + cbn [bpow] in Rx.
      change (Z.pow_pos radix2 p) with (Z.pow_pos 2 p) in Rx.
      assert (HP : 0 < Z.pow_pos 2 p) by (rewrite Z.pow_pos_fold; apply Z.pow_pos_nonneg; lia).
      assert (HPR : IZR (Z.pow_pos 2 p) <> 0%R) by (apply not_0_IZR; lia).
      apply (f_equal (fun r => (r * IZR (Z.pow_pos 2 p))%R)) in Rx.
      rewrite Rmult_assoc, Rinv_l, Rmult_1_r in Rx by exact HPR.
      rewrite <- mult_IZR in Rx. apply eq_IZR in Rx.
      destruct s; cbn [cond_Zopp SpecFloat.cond_Zopp] in *.
      * assert (E : Z.pos m = (- n) * Z.pow_pos 2 p) by lia.
        rewrite E, Z.div_mul by lia. lia.
      * rewrite Rx, Z.div_mul by lia. reflexivity.
Qed.

Lemma feq_repr : forall x y a b, reprZ x a -> reprZ y b -> feq x y = (a =? b).
Proof.
  intros x y a b [Fx Rx] [Fy Ry]. unfold feq. rewrite Beqb_correct by assumption.
  rewrite Rx, Ry. destruct (Z.eqb_spec a b).
  - subst. apply Req_bool_true. reflexivity.
  - apply Req_bool_false. intros E. apply eq_IZR in E. contradiction.
Qed.

Lemma fhalf_val : is_finite fhalf = true /\ B2R fhalf = (/ 2)%R.
Proof.
  unfold fhalf, f_of_Z2.
  pose proof (binary_normalize_correct 53 1024 Hprec64 Hemax64 mode_NE 1 (-1) false) as H.
  cbv zeta in H.
  assert (E : F2R (Float radix2 1 (-1)) = (/ 2)%R).
  { unfold F2R. cbn [Fnum Fexp bpow]. change (Z.pow_pos radix2 1) with 2. lra. }
  rewrite E in H.
  change (round radix2 (SpecFloat.fexp 53 1024) (round_mode mode_NE) (/ 2)) with (rnd64 (/ 2)) in H.
  assert (G : rnd64 (/ 2) = (/ 2)%R).
  { unfold rnd64. apply round_generic; [apply valid_rnd_N |]. rewrite <- E. apply generic_format_FLT.
    exists (Float radix2 1 (-1)); [reflexivity | simpl; lia | simpl; lia]. }
  rewrite G in H.
  rewrite Rlt_bool_true in H.
  - destruct H as [H1 [H2 _]]. split; assumption.
  - rewrite Rabs_pos_eq by lra. apply Rlt_trans with 1%R; [lra |].
    change 1%R with (bpow radix2 0). apply bpow_lt. lia.
Qed.

Lemma flt_half_repr : forall x a, reprZ x a -> flt fhalf x = (0 <? a).
Proof.
  intros x a [Fx Rx]. destruct fhalf_val as [Fh Rh]. unfold flt.
  rewrite Bltb_correct by assumption. rewrite Rx, Rh.
  destruct (Z.ltb_spec 0 a).
  - apply Rlt_bool_true. assert (1 <= IZR a)%R by (apply IZR_le; lia). lra.
  - apply Rlt_bool_false. assert (IZR a <= 0)%R by (apply IZR_le; lia). lra.
Qed.

Lemma feq_half_repr : forall x a, reprZ x a -> feq x fhalf = false.
Proof.
  intros x a [Fx Rx]. destruct fhalf_val as [Fh Rh]. unfold feq.
  rewrite Beqb_correct by assumption. rewrite Rx, Rh.
  apply Req_bool_false. intros E.
  assert (H : (IZR (2 * a) = 1)%R) by (rewrite mult_IZR; lra).
  apply eq_IZR in H. lia.
Qed.

Lemma fzero_repr : reprZ fzero 0.
Proof. split; reflexivity. Qed.

Lemma feq_self : forall x a, reprZ x a -> feq x x = true.
Proof. intros x a H. rewrite (feq_repr x x a a H H). apply Z.eqb_refl. Qed.

Lemma whole_loop_dec : forall f1 f2 w buf,
  0 <= w < 10 ^ Z.of_nat f1 -> w < 10 ^ Z.of_nat f2 -> (0 < f1)%nat -> (0 < f2)%nat ->
  whole_loop f1 w buf = Some (buf ++ rev (dec_digits f2 w)).
Proof.
  induction f1 as [| f1 IH]; intros f2 w buf H1 H2 Hf1 Hf2; [lia |].
  destruct f2 as [| f2]; [lia |].
  cbn [whole_loop dec_digits].
  assert (Er : Z.rem w 10 = w mod 10) by (apply Z.rem_mod_nonneg; lia).
  assert (Eq : Z.quot w 10 = w / 10) by (apply Z.quot_div_nonneg; lia).
  rewrite Er, Eq.
  destruct (Z.eqb_spec (w / 10) 0) as [E0 | E0].
  - assert (Hlt : w < 10) by lia. apply Z.ltb_lt in Hlt. rewrite Hlt.
    unfold emit. cbn [rev app]. replace (w mod 10) with w by lia. reflexivity.
  - assert (Hge : (w <? 10) = false) by (apply Z.ltb_ge; lia). rewrite Hge.
    rewrite pow10_S in H1, H2.
    rewrite (IH f2).
    + unfold emit. rewrite rev_app_distr. cbn [rev app]. rewrite <- app_assoc. reflexivity.
    + pose proof (pow10_pos f1). lia.
    + pose proof (pow10_pos f2). lia.
    + destruct f1; [| lia]. simpl in H1. lia.
    + destruct f2; [| lia]. simpl in H2. lia.
Qed.

Definition int_suffix (p : Z) : list Z := if p =? 0 then [] else [46; 48].

Lemma pow10_tab_repr : forall p, 0 <= p <= 9 -> reprZ (pow10_tab p) (10 ^ p).
Proof.
  intros p Hp. unfold pow10_tab. apply f_of_Z_repr.
  assert (10 ^ p <= 10 ^ 9) by (apply Z.pow_le_mono_r; lia).
  assert (0 < 10 ^ p) by (apply Z.pow_pos_nonneg; lia). 
  change (10 ^ 9) with 1000000000 in *. change (2 ^ 53) with 9007199254740992. lia.
Qed.

Lemma dtoa_stage_int : forall n p, 0 < Z.abs n < 2147483648 -> 0 <= p <= 9 ->
  exists st, dtoa_stage (f_of_Z n) p = Some st /\ ds_neg st = (n <? 0) /\
             reprZ (ds_value st) (Z.abs n) /\ ds_whole0 st = Z.abs n /\
             ds_whole st = Z.abs n /\ ds_frac st = 0.
Proof.
  intros n p Hn Hp.
  assert (Hv : reprZ (f_of_Z n) n) by (apply f_of_Z_repr; change (2 ^ 53) with 9007199254740992; lia).
  unfold dtoa_stage, dtoa_stage_gen.
  rewrite (flt_repr _ _ n 0 Hv fzero_repr).
  set (value := if n <? 0 then fneg (f_of_Z n) else f_of_Z n).
  assert (Hval : reprZ value (Z.abs n)).
  { unfold value. destruct (Z.ltb_spec n 0).
    - replace (Z.abs n) with (- n) by lia. apply fneg_repr. exact Hv.
    - replace (Z.abs n) with n by lia. exact Hv. }
  rewrite (trunc_repr _ _ Hval).
  assert (Hw : reprZ (f_of_Z (Z.abs n)) (Z.abs n))
    by (apply f_of_Z_repr; change (2 ^ 53) with 9007199254740992; lia).
  assert (Hd : reprZ (fsub value (f_of_Z (Z.abs n))) 0).
  { replace 0 with (Z.abs n - Z.abs n) by lia. apply fsub_repr; try assumption.
    rewrite Z.sub_diag. reflexivity. }
  assert (Ht : reprZ (fmul (fsub value (f_of_Z (Z.abs n))) (pow10_tab p)) 0).
  { replace 0 with (0 * 10 ^ p) by lia. apply fmul_repr; [exact Hd | apply pow10_tab_repr; exact Hp |].
    rewrite Z.mul_0_l. reflexivity. }
  rewrite (trunc_repr _ _ Ht).
  assert (Hz : reprZ (f_of_Z 0) 0) by (apply f_of_Z_repr; reflexivity).
  assert (Hdiff : reprZ (fsub (fmul (fsub value (f_of_Z (Z.abs n))) (pow10_tab p)) (f_of_Z 0)) 0).
  { replace 0 with (0 - 0) at 2 by lia. apply fsub_repr; try assumption. reflexivity. }
  rewrite (flt_half_repr _ _ Hdiff). rewrite (feq_half_repr _ _ Hdiff).
  cbn [Z.ltb Z.compare andb].
  eexists. split; [reflexivity |].
  cbn [ds_neg ds_value ds_whole0 ds_whole ds_frac].
  repeat split; try reflexivity; exact (proj1 Hval) || exact (proj2 Hval).
Qed.

Lemma thres_repr : reprZ thres_max 2147483647.
Proof. apply f_of_Z_repr. reflexivity. Qed.

Lemma clamp_id : forall p, 0 <= p <= 9 -> clamp_prec p = p.
Proof.
  intros p Hp. unfold clamp_prec.
  destruct (Z.ltb_spec p 0); [lia |]. destruct (Z.ltb_spec 9 p); [lia | reflexivity].
Qed.

Lemma canon_dec_abs : forall n, canon_dec n = (if n <? 0 then [45] else []) ++ dec_digits dec_fuel (Z.abs n).
Proof.
  intros n. unfold canon_dec. destruct (Z.ltb_spec n 0).
  - replace (Z.abs n) with (- n) by lia. reflexivity.
  - replace (Z.abs n) with n by lia. reflexivity.
Qed.

Lemma modp_dtoa_int : forall n p, 0 < Z.abs n < 2147483648 -> 0 <= p <= 9 ->
  modp_dtoa (f_of_Z n) p = DT_text (canon_dec n ++ int_suffix p).
Proof.
  intros n p Hn Hp.
  assert (Hv : reprZ (f_of_Z n) n) by (apply f_of_Z_repr; change (2 ^ 53) with 9007199254740992; lia).
  unfold modp_dtoa, modp_dtoa_with. rewrite (feq_self _ _ Hv). cbn [negb].
  rewrite clamp_id by exact Hp.
  destruct (dtoa_stage_int n p Hn Hp) as [st [E [Hneg [Hval [Hw0 [Hw Hf]]]]]].
  rewrite E, Hw0, Hw, Hf, Hneg.
  assert (Hlt : (2147483647 <? Z.abs n) = false) by (apply Z.ltb_ge; lia).
  rewrite Hlt. rewrite (flt_repr _ _ _ _ thres_repr Hval), Hlt.
  assert (Hwl : forall buf, whole_loop dtoa_fuel (Z.abs n) buf = Some (buf ++ rev (dec_digits dec_fuel (Z.abs n)))).
  { intros buf. apply whole_loop_dec.
    - change (10 ^ Z.of_nat dtoa_fuel) with (10 ^ 12). lia.
    - change (10 ^ Z.of_nat dec_fuel) with (10 ^ 25). lia.
    - unfold dtoa_fuel. lia.
    - unfold dec_fuel. lia. }
  rewrite canon_dec_abs. unfold int_suffix.
  destruct (Z.eqb_spec p 0) as [P0 | P0].
  - assert (Hw' : reprZ (f_of_Z (Z.abs n)) (Z.abs n))
      by (apply f_of_Z_repr; change (2 ^ 53) with 9007199254740992; lia).
    assert (Hd : reprZ (fsub (ds_value st) (f_of_Z (Z.abs n))) 0).
    { replace 0 with (Z.abs n - Z.abs n) by lia. apply fsub_repr; try assumption.
      rewrite Z.sub_diag. reflexivity. }
    rewrite (flt_half_repr _ _ Hd), (feq_half_repr _ _ Hd). cbn [Z.ltb Z.compare andb].
    rewrite Hwl. unfold strreverse, emit. cbn [app].
    destruct (n <? 0).
    + rewrite rev_app_distr, rev_involutive. cbn [rev app]. rewrite app_nil_r. reflexivity.
    + rewrite rev_involutive. cbn [app]. rewrite app_nil_r. reflexivity.
  - assert (Hfl : frac_loop dtoa_fuel 0 p 0 [] = Some ([], p - 1, 0)) by reflexivity.
    rewrite Hfl. cbn [Z.eqb]. unfold emit at 1 2. cbn [app].
    rewrite Hwl. unfold strreverse, emit.
    destruct (n <? 0).
    + rewrite !rev_app_distr, rev_involutive. cbn [rev app]. reflexivity.
    + rewrite rev_app_distr, rev_involutive. cbn [rev app]. reflexivity.
Qed.

Lemma horner_ge : forall ds r, Forall (fun c => 48 <= c <= 57) ds -> 0 <= r -> r <= horner ds r.
Proof.
  induction ds as [| c ds IH]; intros r H Hr; cbn [horner fold_left]; [lia |].
  inversion H; subst.
  change (fold_left (fun a0 c0 => 10 * a0 + schar c0 - 48) ds (10 * r + schar c - 48))
    with (horner ds (10 * r + schar c - 48)).
  assert (Hs : schar c = c) by (unfold schar; destruct (Z.ltb_spec c 128); lia).
  rewrite Hs. specialize (IH (10 * r + c - 48) H3 ltac:(lia)). lia.
Qed.

Lemma is_digit_true : forall c, 48 <= c <= 57 -> is_digit c = true.
Proof. intros c H. unfold is_digit. apply andb_true_intro. split; apply Z.leb_le; lia. Qed.

Lemma ften_repr : reprZ ften 10.
Proof. apply f_of_Z_repr. reflexivity. Qed.
Lemma fone_repr : reprZ fone 1.
Proof. apply f_of_Z_repr. reflexivity. Qed.

Lemma atof_int_digits_repr : forall ds rest x r,
  Forall (fun c => 48 <= c <= 57) ds ->
  match rest with [] => True | c :: _ => is_digit c = false end ->
  reprZ x r -> 0 <= r -> horner ds r < 2 ^ 53 ->
  exists y, atof_int_digits x (ds ++ rest) = (y, rest) /\ reprZ y (horner ds r).
Proof.
  induction ds as [| c ds IH]; intros rest x r H Hrest Hx Hr Hb.
  - cbn [app horner fold_left]. exists x. split; [| exact Hx].
    destruct rest as [| c rest]; [reflexivity |]. cbn [atof_int_digits]. rewrite Hrest. reflexivity.
  - inversion H; subst. cbn [app atof_int_digits]. rewrite is_digit_true by assumption.
    cbn [horner fold_left] in Hb |- *.
    change (fold_left (fun a0 c0 => 10 * a0 + schar c0 - 48) ds (10 * r + schar c - 48))
      with (horner ds (10 * r + schar c - 48)) in *.
    assert (Hs : schar c = c) by (unfold schar; destruct (Z.ltb_spec c 128); lia).
    rewrite Hs in *.
    pose proof (horner_ge ds (10 * r + c - 48) H3 ltac:(lia)) as Hge.
    apply IH; try assumption; [| lia].
    replace (10 * r + c - 48) with (r * 10 + (c - 48)) by lia.
    apply fadd_repr.
    + apply fmul_repr; [exact Hx | exact ften_repr | lia].
    + apply f_of_Z_repr. change (2 ^ 53) with 9007199254740992. lia.
    + lia.
Qed.

Lemma skip_space_nonspace : forall c r, is_space c = false -> skip_space (c :: r) = c :: r.
Proof. intros c r H. cbn [skip_space]. rewrite H. reflexivity. Qed.

Lemma digit_not_space : forall c, 48 <= c <= 57 -> is_space c = false.
Proof.
  intros c H. unfold is_space.
  destruct (Z.eqb_spec c 32); [lia |]. destruct (Z.leb_spec 9 c); destruct (Z.leb_spec c 13); try reflexivity; lia.
Qed.

Lemma fast_atof_int : forall n p, 0 < Z.abs n < 2147483648 -> 0 <= p <= 9 ->
  fast_atof (canon_dec n ++ int_suffix p) = f_of_Z n.
Proof.
  intros n p Hn Hp.
  assert (Hds : Forall (fun c => 48 <= c <= 57) (dec_digits dec_fuel (Z.abs n)))
    by (apply dec_digits_are_digits; lia).
  assert (Hval : horner (dec_digits dec_fuel (Z.abs n)) 0 = Z.abs n).
  { rewrite horner_dec_digits; [lia | change (10 ^ Z.of_nat dec_fuel) with (10 ^ 25); lia | unfold dec_fuel; lia]. }
  assert (Hsuf : match int_suffix p with [] => True | c :: _ => is_digit c = false end).
  { unfold int_suffix. destruct (p =? 0); [exact I | reflexivity]. }
  destruct (atof_int_digits_repr (dec_digits dec_fuel (Z.abs n)) (int_suffix p) fzero 0 Hds Hsuf fzero_repr
              ltac:(lia)) as [y [Ey Hy]].
  { rewrite Hval. change (2 ^ 53) with 9007199254740992. lia. }
  rewrite Hval in Hy.
  (* the part after the integer digits *)
  assert (Htail : forall sign sg, reprZ sign sg -> sg * Z.abs n = n ->
     (let '(value, p0) := (y, int_suffix p) in
      let '(value0, p1) :=
        match p0 with
        | [] => (value, p0)
        | c :: r => if c =? 46 then atof_frac_digits value ften r else (value, p0)
        end in
      let '(frac, scale) :=
        match p1 with
        | [] => (false, fone)
        | c :: r =>
          if (c =? 69) || (c =? 101) then
            let '(frac, r0) :=
              match r with
              | [] => (false, r)
              | c' :: r' => if c' =? 45 then (true, r') else if c' =? 43 then (false, r') else (false, r)
              end in
            let '(expon, _) := atof_exp_digits 0 r0 in
            let expon0 := if 308 <? expon then 308 else expon in
            let '(scale, expon1) := scale_loop 10 50 f1e50 fone expon0 in
            let '(scale0, expon2) := scale_loop 10 8 f1e8 scale expon1 in
            let '(scale1, _) := scale_loop 10 1 ften scale0 expon2 in (frac, scale1)
          else (false, fone)
        end in
      fmul sign (if frac then fdiv value0 scale else fmul value0 scale)) = f_of_Z n).
  { intros sign sg Hsign Hsg.
    assert (Hfin : forall value0, reprZ value0 (Z.abs n) -> fmul sign (fmul value0 fone) = f_of_Z n).
    { intros value0 H0. apply (repr_inj _ _ n); [| apply f_of_Z_repr; change (2 ^ 53) with 9007199254740992; lia | lia].
      rewrite <- Hsg. apply fmul_repr; [exact Hsign | |].
      - replace (Z.abs n) with (Z.abs n * 1) by lia. apply fmul_repr; [exact H0 | exact fone_repr |].
        change (2 ^ 53) with 9007199254740992. lia.
      - rewrite Hsg. change (2 ^ 53) with 9007199254740992. lia. }
    unfold int_suffix. destruct (p =? 0).
    - apply Hfin. exact Hy.
    - cbn [Z.eqb Pos.eqb atof_frac_digits is_digit Z.leb Z.compare Pos.compare Pos.compare_cont andb].
      apply Hfin.
      replace (Z.abs n) with (Z.abs n + 0) by lia.
      apply fadd_repr; [exact Hy | | change (2 ^ 53) with 9007199254740992; lia].
      apply (fdiv_zero_repr _ _ 10); [apply f_of_Z_repr; reflexivity | exact ften_repr | lia]. }
  unfold fast_atof. rewrite canon_dec_abs.
  destruct (Z.ltb_spec n 0).
  - cbn [app]. rewrite skip_space_nonspace by reflexivity.
    cbn [Z.eqb Pos.eqb]. rewrite Ey.
    apply (Htail (f_of_Z (-1)) (-1)); [apply f_of_Z_repr; reflexivity | lia].
  - cbn [app].
    destruct (dec_digits dec_fuel (Z.abs n)) as [| c0 ds'] eqn:Eds.
    { exfalso. apply (dec_digits_nonempty dec_fuel (Z.abs n)); [unfold dec_fuel; lia | exact Eds]. }
    inversion Hds; subst.
    cbn [app]. rewrite skip_space_nonspace by (apply digit_not_space; assumption).
    destruct (Z.eqb_spec c0 45); [lia |]. destruct (Z.eqb_spec c0 43); [lia |].
    change (c0 :: ds' ++ int_suffix p) with ((c0 :: ds') ++ int_suffix p). rewrite Ey.
    apply (Htail fone 1); [exact fone_repr | lia].
Qed.

Lemma float_roundtrip_zero : forall p, 0 <= p <= 9 ->
  float_roundtrip (f_of_Z 0) p = (DT_text (canon_dec 0 ++ int_suffix p), Some (f_of_Z 0)).
Proof.
  intros p Hp.
  assert (H : p = 0 \/ p = 1 \/ p = 2 \/ p = 3 \/ p = 4 \/ p = 5 \/ p = 6 \/ p = 7 \/ p = 8 \/ p = 9) by lia.
  repeat (destruct H as [-> | H]; [vm_compute; reflexivity |]). subst p. vm_compute. reflexivity.
Qed.

Lemma float_roundtrip_int_lemma : forall n p, Z.abs n < 2147483648 -> 0 <= p <= 9 ->
  float_roundtrip (f_of_Z n) p = (DT_text (canon_dec n ++ int_suffix p), Some (f_of_Z n)).
Proof.
  intros n p Hn Hp. destruct (Z.eq_dec n 0) as [-> | Hz].
  - apply float_roundtrip_zero. exact Hp.
  - unfold float_roundtrip. rewrite modp_dtoa_int by lia. rewrite fast_atof_int by lia. reflexivity.
Qed.

(* ------------------------------------------------------------------- the general law fails *)

(* the oracle applied to the model's own output *)
Definition roundtrip_ok (v : f64) (p : Z) : bool :=
  match float_roundtrip v p with
  | (DT_text t, Some d) => c08_float_ok v p (Some (t, d))
  | _ => c08_float_ok v p None
  end.

(* BEFORE a6c4c45 -- 0.95 at precision 1: the tie branch incremented frac = 9 to 10 = 10^p without
   roll-over and the digit loop printed "0.1"; the repaired stage rolls over to whole = 1, frac = 0
   and prints "1.0" (still not the correct "0.9": the tie itself is spurious, see the next lemma) *)
Lemma dtoa_rollover_orig_refuted_lemma :
  let v := f64_of_bits 0x3FEE666666666666 in
  c08_in_domain v 1 = true /\
  option_map (fun st => (ds_whole st, ds_frac st)) (dtoa_stage_orig v 1) = Some (0, 10) /\
  modp_dtoa_orig v 1 = DT_text [48; 46; 49] /\
  option_map (fun st => (ds_whole st, ds_frac st)) (dtoa_stage v 1) = Some (1, 0) /\
  modp_dtoa v 1 = DT_text [49; 46; 48].
Proof. vm_compute. repeat split; reflexivity. Qed.

(* 0.95 at precision 1 after the repair: "1.0", one unit in the last place above the correctly
   rounded "0.9" (the double is 0.94999999999999995559; 0.95 * 10 rounds to 9.5 exactly) *)
Lemma dtoa_inexact_half_nines_refuted_lemma :
  let v := f64_of_bits 0x3FEE666666666666 in
  c08_in_domain v 1 = true /\ fst (float_roundtrip v 1) = DT_text [49; 46; 48] /\
  c08_render_ok v 1 [49; 46; 48] = false /\ c08_render_ok v 1 [48; 46; 57] = true /\
  roundtrip_ok v 1 = false.
Proof. vm_compute. repeat split; reflexivity. Qed.

(* 0.45 at precision 1: (0.45 - 0) * 10 rounds to 4.5 exactly, the tie rule keeps 4 -> "0.4";
   the double 0.45 is 0.450000000000000011..., correctly rounded: "0.5" *)
Lemma dtoa_inexact_half_refuted_lemma :
  let v := f64_of_bits 0x3FDCCCCCCCCCCCCD in
  c08_in_domain v 1 = true /\ fst (float_roundtrip v 1) = DT_text [48; 46; 52] /\
  c08_render_ok v 1 [48; 46; 52] = false /\ c08_render_ok v 1 [48; 46; 53] = true /\
  roundtrip_ok v 1 = false.
Proof. vm_compute. repeat split; reflexivity. Qed.

(* 2147483647.5 < 2^31 is handed to sprintf("%e") *)
Lemma dtoa_sliver_refuted_lemma :
  let v := f64_of_bits 0x41DFFFFFFFE00000 in
  c08_in_domain v 2 = true /\ float_roundtrip v 2 = (DT_sprintf, None) /\ roundtrip_ok v 2 = false.
Proof. vm_compute. repeat split; reflexivity. Qed.

(* the largest double below 2^31 at precision 0: ++whole on whole = INT_MAX *)
Lemma dtoa_overflow_refuted_lemma :
  let v := f64_of_bits 0x41DFFFFFFFFFFFFF in
  c08_in_domain v 0 = true /\ float_roundtrip v 0 = (DT_overflow, None) /\ roundtrip_ok v 0 = false.
Proof. vm_compute. repeat split; reflexivity. Qed.

(* 38.85 at precision 2 renders correctly as "38.85", but fast_atof("38.85") = 38 + 8/10 + 5/100
   with three roundings is one ulp below the double nearest to 38.85 *)
Lemma atof_inexact_refuted_lemma :
  let v := f64_of_bits 0x40436CCCCCCCCCCD in
  let t := [51; 56; 46; 56; 53] in
  c08_in_domain v 2 = true /\ fst (float_roundtrip v 2) = DT_text t /\
  c08_render_ok v 2 t = true /\
  bits_of_f64 (fast_atof t) = 0x40436CCCCCCCCCCC /\ c08_parse_ok t (fast_atof t) = false /\
  c08_parse_ok t v = true /\ roundtrip_ok v 2 = false.
Proof. vm_compute. repeat split; reflexivity. Qed.

Lemma c08_nonvacuous_lemma :
  itoa_int (-2147483648) 10 = Some [45; 50; 49; 52; 55; 52; 56; 51; 54; 52; 56] /\
  int_roundtrip (-2147483648) = Some ([45; 50; 49; 52; 55; 52; 56; 51; 54; 52; 56], AR_ok (-2147483648)) /\
  fst (float_roundtrip (f_of_Z (-2147483647)) 9) =
    DT_text [45; 50; 49; 52; 55; 52; 56; 51; 54; 52; 55; 46; 48].
Proof. vm_compute. repeat split; reflexivity. Qed.
