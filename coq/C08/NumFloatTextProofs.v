(* From the rounding stage to the TEXT (precision 1..9): the fraction digit loop writes exactly the
   digits of frac (trailing zeros dropped, padded to p places), so the text denotes
   (whole * 10^p + frac) / 10^p -- which needs frac < 10^p, true since the halfway branch handles the
   roll-over (a6c4c45).  With the nearest-integer theorem of NumFloatRoundProofs this gives correct
   rounding of the text whenever the tie test is false. *)
From Coq Require Import ZArith List Bool Lia Reals Lra.
From Flocq Require Import Core.Core IEEE754.BinarySingleNaN.
From F8 Require Import C08.NumInt C08.NumFloat C08.Spec_C08 C08.NumIntProofs C08.NumFloatProofs
  C08.NumFloatShapeProofs C08.NumFloatRoundProofs.
Import ListNotations.
Local Open Scope Z_scope.

(* value of a digit string written least significant digit first (the order of the buffer) *)
Definition lsbval (l : list Z) : Z := fold_right (fun c acc => (c - 48) + 10 * acc) 0 l.

Lemma lsbval_cons : forall c l, lsbval (c :: l) = (c - 48) + 10 * lsbval l.
Proof. reflexivity. Qed.

Lemma lsbval_app : forall a b, lsbval (a ++ b) = lsbval a + 10 ^ Z.of_nat (length a) * lsbval b.
Proof.
  induction a as [| c a IH]; intros b.
  - change ([] ++ b) with b. change (lsbval []) with 0. change (10 ^ Z.of_nat (length (@nil Z))) with 1. lia.
  - change ((c :: a) ++ b) with (c :: (a ++ b)). rewrite !lsbval_cons, IH.
    change (length (c :: a)) with (S (length a)). rewrite pow10_S. ring.
Qed.

Lemma lsbval_zeros : forall k, lsbval (repeat 48 k) = 0.
Proof.
  induction k as [| k IH]; [reflexivity |].
  change (repeat 48 (S k)) with (48 :: repeat 48 k). rewrite lsbval_cons, IH. reflexivity.
Qed.

(* reading the reversed buffer most significant digit first gives the same number *)
Lemma digits_value_rev : forall l, digits_value (rev l) = lsbval l.
Proof.
  assert (G : forall l r, fold_left (fun a c => 10 * a + (c - 48)) l r =
                          fold_left (fun a c => 10 * a + (c - 48)) l 0 + r * 10 ^ Z.of_nat (length l)).
  { induction l as [| c l IH]; intros r; cbn [fold_left length].
    - change (10 ^ Z.of_nat 0) with 1. lia.
    - rewrite IH, (IH (10 * 0 + (c - 48))), pow10_S. ring. }
  induction l as [| c l IH]; [reflexivity |].
  rewrite lsbval_cons. cbn [rev]. unfold digits_value in *.
  rewrite fold_left_app. cbn [fold_left]. rewrite IH. ring.
Qed.

Lemma digits_value_app : forall a b, digits_value (a ++ b) = digits_value a * 10 ^ Z.of_nat (length b) + digits_value b.
Proof.
  intros a b. rewrite <- (rev_involutive a), <- (rev_involutive b), <- rev_app_distr.
  rewrite !digits_value_rev, lsbval_app, !rev_length. ring.
Qed.

(* what the fraction loop writes denotes frac, up to the trailing zeros it skipped *)
Lemma frac_loop_value : forall fuel frac count done buf,
  0 <= frac < 10 ^ Z.of_nat fuel -> (0 < fuel)%nat -> 0 <= done ->
  exists new count' done' sk,
    frac_loop fuel frac count done buf = Some (buf ++ new, count', done') /\
    0 <= sk /\ Z.of_nat (length new) + sk = count - count' /\ (done <> 0 -> sk = 0) /\
    frac = lsbval new * 10 ^ sk.
Proof.
  induction fuel as [| fuel IH]; intros frac count done buf Hfrac Hfuel Hdone; [lia |].
  cbn [frac_loop].
  set (d := frac mod 10).
  assert (Hd : 0 <= d <= 9) by (unfold d; lia).
  set (first := if negb (d =? 0) then [48 + d] else if negb (done =? 0) then [48] else []).
  set (done1 := if negb (d =? 0) then done + (48 + d) else done).
  assert (Hlet : (if negb (d =? 0) then (emit buf (48 + d), done + (48 + d))
                  else if negb (done =? 0) then (emit buf 48, done) else (buf, done)) =
                 (buf ++ first, done1)).
  { unfold first, done1, emit. destruct (negb (d =? 0)); [reflexivity |].
    destruct (negb (done =? 0)); [reflexivity | rewrite app_nil_r; reflexivity]. }
  rewrite Hlet.
  (* this iteration: either a digit is written (value d, nothing skipped) or a zero is skipped *)
  assert (Hfirst : 0 <= done1 /\
                   ((first = [48 + d] /\ done1 <> 0) \/ (first = [] /\ d = 0 /\ done = 0 /\ done1 = 0))).
  { unfold first, done1. destruct (Z.eqb_spec d 0) as [D0 | D0]; cbn [negb].
    - destruct (Z.eqb_spec done 0) as [Z0 | Z0]; cbn [negb].
      + split; [lia |]. right. repeat split; assumption.
      + split; [lia |]. left. rewrite D0. split; [reflexivity | exact Z0].
    - split; [lia |]. left. split; [reflexivity | lia]. }
  destruct Hfirst as [F0 Fc].
  assert (Efrac : frac = d + 10 * (frac / 10)) by (unfold d; lia).
  destruct (Z.eqb_spec (frac / 10) 0) as [E0 | E0].
  - destruct Fc as [[Ef Dn] | [Ef [Dz [Z0 Z1]]]].
    + exists first, (count - 1), done1, 0. rewrite Ef.
      change (lsbval [48 + d]) with ((48 + d - 48) + 10 * 0). cbn [length].
      change (10 ^ 0) with 1. repeat split; try lia.
    + exists first, (count - 1), done1, 1. rewrite Ef.
      change (lsbval []) with 0. cbn [length]. repeat split; try lia.
  - rewrite pow10_S in Hfrac.
    assert (Hfuel' : (0 < fuel)%nat) by (destruct fuel; [simpl in Hfrac; lia | lia]).
    destruct (IH (frac / 10) (count - 1) done1 (buf ++ first)) as [new [count' [done' [sk [E [S1 [S2 [S3 S4]]]]]]]].
    + pose proof (pow10_pos fuel). lia.
    + exact Hfuel'.
    + exact F0.
    + destruct Fc as [[Ef Dn] | [Ef [Dz [Z0 Z1]]]].
      * exists (first ++ new), count', done', 0.
        specialize (S3 Dn). subst sk.
        split; [rewrite E, app_assoc; reflexivity |].
        rewrite Ef. change ([48 + d] ++ new) with ((48 + d) :: new). rewrite lsbval_cons.
        change (length ((48 + d) :: new)) with (S (length new)).
        change (10 ^ 0) with 1 in *.
        repeat split; try lia.
      * exists (first ++ new), count', done', (sk + 1).
        split; [rewrite E, app_assoc; reflexivity |].
        rewrite Ef. cbn [app].
        split; [lia |]. split; [lia |]. split; [intros; lia |].
        rewrite Z.pow_add_r by lia. change (10 ^ 1) with 10. lia.
Qed.

(* Precision 1..9, inside the threshold: the text is  [-] whole . fraction  where the fraction
   digits, padded to p places, denote exactly the stage's frac (which is < 10^p since a6c4c45). *)
Lemma dtoa_text_value_lemma : forall v p0, is_finite v = true ->
  flt thres_max (if flt v fzero then fneg v else v) = false -> 1 <= clamp_prec p0 ->
  exists st fd,
    dtoa_stage v (clamp_prec p0) = Some st /\
    ds_value st = (if flt v fzero then fneg v else v) /\
    ds_whole0 st <= 2147483647 /\ 0 <= ds_whole st /\
    modp_dtoa v p0 = DT_text ((if ds_neg st then [45] else []) ++ dec_digits dec_fuel (ds_whole st) ++ 46 :: fd) /\
    Forall (fun c => 48 <= c <= 57) fd /\ 1 <= Z.of_nat (length fd) <= clamp_prec p0 /\
    digits_value fd * 10 ^ (clamp_prec p0 - Z.of_nat (length fd)) = ds_frac st.
Proof.
  intros v p0 Fv Hthres P1.
  unfold modp_dtoa, modp_dtoa_with. rewrite (feq_finite_refl v Fv). cbn [negb].
  pose proof (clamp_range p0) as Hp. set (p := clamp_prec p0) in *.
  pose proof (stage_bounds v p Fv Hp) as SB.
  destruct (abs_value v Fv) as [Fval _]. cbv zeta in Fval.
  pose proof (flt_thres_real _ Fval Hthres) as Hle.
  destruct (dtoa_stage v p) as [st |]; [| exfalso; exact (Rlt_not_le _ _ SB Hle)].
  destruct SB as [SB0 SB]. specialize (SB0 Hle).
  destruct (Z.ltb_spec 2147483647 (ds_whole0 st)) as [W0 | W0]; [lia |].
  destruct (SB W0) as [_ [B0 [B1 [B2 [B2' [B3 B4]]]]]]. specialize (B2' P1).
  rewrite B4 in *. specialize (B3 Hle).
  destruct (Z.ltb_spec 2147483647 (ds_whole st)) as [W1 | W1]; [lia |].
  rewrite Hthres.
  destruct (Z.eqb_spec p 0) as [P0 | P0]; [lia |].
  pose proof (pow10_bounds p Hp) as HP.
  destruct (frac_loop_spec dtoa_fuel (ds_frac st) p 0 []) as
    [new [count' [done' [E [N1 [N2 [N3 [N4 [N5 [N6 [N7 [N8 N9]]]]]]]]]]]].
  { change (10 ^ Z.of_nat dtoa_fuel) with 1000000000000. lia. }
  { unfold dtoa_fuel. lia. }
  { lia. }
  destruct (frac_loop_value dtoa_fuel (ds_frac st) p 0 []) as [new2 [c2 [d2 [sk [E2 [S1 [S2 [_ S4]]]]]]]].
  { change (10 ^ Z.of_nat dtoa_fuel) with 1000000000000. lia. }
  { unfold dtoa_fuel. lia. }
  { lia. }
  rewrite E in E2. cbn [app] in E2. injection E2 as En Ec Ed. subst new2 c2 d2.
  rewrite E. cbn [app].
  set (buf2 := if done' =? 0 then emit new 48 else pad_zeros new count').
  assert (Hw : 0 <= ds_whole st < 10 ^ 12) by (change (10 ^ 12) with 1000000000000; lia).
  pose proof (finish_text (ds_neg st) (ds_whole st) (emit buf2 46) Hw) as FT.
  destruct (whole_loop dtoa_fuel (ds_whole st) (emit buf2 46)) as [b |]; [| contradiction].
  rewrite FT. unfold emit at 1. rewrite rev_app_distr. cbn [rev app].
  exists st, (rev buf2).
  split; [reflexivity |]. split; [exact B4 |]. split; [exact W0 |]. split; [lia |]. split; [reflexivity |].
  rewrite rev_length, digits_value_rev.
  unfold buf2. destruct (Z.eqb_spec done' 0) as [D0 | D0].
  - rewrite (N3 D0) in *. unfold emit. cbn [app length rev].
    split; [constructor; [lia | constructor] |]. split; [lia |].
    change (lsbval []) with 0 in S4. change (lsbval [48]) with 0. lia.
  - unfold pad_zeros.
    assert (Hiters : p - count' <= p).
    { destruct (Z_le_gt_dec (p - count') 1) as [I1 | I1]; [lia |].
      specialize (N9 ltac:(lia)).
      destruct (Z_le_gt_dec (p - count') p) as [L | G]; [exact L | exfalso].
      assert (10 ^ p <= 10 ^ (p - count' - 1)) by (apply Z.pow_le_mono_r; lia). lia. }
    assert (C0 : 0 <= count') by lia.
    split.
    + apply Forall_rev. apply Forall_app. split; [exact N1 |]. apply Forall_forall. intros c Hc.
      apply repeat_spec in Hc. lia.
    + rewrite app_length, repeat_length, Nat2Z.inj_add, Z2Nat.id by lia.
      assert (Hne : new <> []) by (apply N4; [reflexivity | exact D0]).
      assert (1 <= Z.of_nat (length new)) by (destruct new; [contradiction | cbn [length]; lia]).
      split; [lia |].
      rewrite lsbval_app, lsbval_zeros, Z.mul_0_r, Z.add_0_r.
      replace (p - (Z.of_nat (length new) + count')) with sk by lia. symmetry. exact S4.
Qed.

(* ... hence, whenever the tie test is false, the TEXT is the correctly rounded decimal:
   the number it denotes times 10^p is the integer nearest to |v| * 10^p *)
Lemma dtoa_correct_partial_lemma : forall v p, is_finite v = true -> 1 <= p <= 9 ->
  flt thres_max (if flt v fzero then fneg v else v) = false ->
  match dtoa_stage v p with
  | None => False
  | Some st =>
    feq (ds_diff st) fhalf = false ->
    exists fd, modp_dtoa v p = DT_text ((if ds_neg st then [45] else []) ++ dec_digits dec_fuel (ds_whole st) ++ 46 :: fd) /\
               Forall (fun c => 48 <= c <= 57) fd /\ 1 <= Z.of_nat (length fd) <= p /\
               (Rabs (B2R (if flt v fzero then fneg v else v) * IZR (10 ^ p) -
                      IZR (ds_whole st * 10 ^ p + digits_value fd * 10 ^ (p - Z.of_nat (length fd)))) < / 2)%R
  end.
Proof.
  intros v p Fv Hp Hthres.
  assert (Ec : clamp_prec p = p) by (apply clamp_id; lia).
  destruct (dtoa_text_value_lemma v p Fv Hthres ltac:(lia)) as [st [fd [Es [Ev [W0 [Wp [Et [Fd [Ld Vd]]]]]]]]].
  rewrite Ec in *. pose proof (stage_nearest_lemma v p Fv Hp) as NR. rewrite Es in *.
  intros Htie. exists fd. split; [exact Et |]. split; [exact Fd |]. split; [exact Ld |].
  rewrite Vd. rewrite Ev in NR. exact (NR W0 Htie).
Qed.

