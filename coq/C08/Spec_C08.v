(* Property C08 -- "Numeric field text conversions are exact inverses" -- as executable
   predicates on observables.  Written from the property text, independently of the models in
   NumInt.v / NumFloat.v: the integer part uses only Z arithmetic on lists of bytes; the float
   part reads the sign/mantissa/exponent of the double off Flocq's representation and works in
   exact integer arithmetic (no floating point operation is used here).
   The same functions, extracted, are the oracle applied to the implementation's output. *)
From Coq Require Import ZArith List Bool.
From Flocq Require Import IEEE754.BinarySingleNaN.
Import ListNotations.
Local Open Scope Z_scope.

(* ------------------------------------------------------------------ canonical decimal text *)

(* decimal digits of n >= 0, most significant first; "0" for 0 *)
Fixpoint dec_digits (fuel : nat) (n : Z) : list Z :=
  match fuel with
  | O => []
  | S fuel' => if n <? 10 then [48 + n] else dec_digits fuel' (n / 10) ++ [48 + n mod 10]
  end.

Definition dec_fuel : nat := 25.      (* enough for |n| < 10^25 *)

Definition canon_dec (v : Z) : list Z :=
  if v <? 0 then 45 :: dec_digits dec_fuel (- v) else dec_digits dec_fuel v.

Fixpoint list_eqb (a b : list Z) : bool :=
  match a, b with
  | [], [] => true
  | x :: a', y :: b' => (x =? y) && list_eqb a' b'
  | _, _ => false
  end.

(* Every int32 is rendered as its canonical decimal text and that text parses back to it. *)
Definition c08_int_ok (v : Z) (text : list Z) (parsed : Z) : bool :=
  list_eqb text (canon_dec v) && (parsed =? v).

(* value denoted by a string of decimal digits (Horner) *)
Definition is_dig (c : Z) : bool := (48 <=? c) && (c <=? 57).
Definition digits_value (l : list Z) : Z := fold_left (fun a c => 10 * a + (c - 48)) l 0.

(* the integer a text denotes, if the text is a canonical decimal *)
Definition canon_value (t : list Z) : option Z :=
  let '(neg, ds) := match t with c :: r => if c =? 45 then (true, r) else (false, t) | [] => (false, t) end in
  if forallb is_dig ds && negb (match ds with [] => true | _ => false end) then
    let v := if neg then - digits_value ds else digits_value ds in
    if list_eqb t (canon_dec v) then Some v else None
  else None.

(* parser alone: whenever the text is the canonical decimal of a value of the target type
   [lo, hi], the parser must return that value (nothing is required for other texts) *)
Definition c08_atoi_ok (lo hi : Z) (text : list Z) (parsed : option Z) : bool :=
  match canon_value text with
  | Some v => if (lo <=? v) && (v <=? hi)
              then match parsed with Some r => r =? v | None => false end
              else true
  | None => true
  end.

(* ----------------------------------------------------------------------- decimal fractions *)

(* [-]digits[.digits] : (negative, integer digits, fraction digits (None = no point)) *)
Fixpoint span_digits (l : list Z) : list Z * list Z :=
  match l with
  | c :: r => if is_dig c then let '(a, b) := span_digits r in (c :: a, b) else ([], l)
  | [] => ([], [])
  end.

Definition split_dec (t : list Z) : option (bool * list Z * option (list Z)) :=
  let '(neg, r) := match t with c :: r => if c =? 45 then (true, r) else (false, t) | [] => (false, t) end in
  let '(ip, r) := span_digits r in
  match ip with
  | [] => None
  | _ =>
    match r with
    | [] => Some (neg, ip, None)
    | c :: r' =>
      if c =? 46 then
        let '(fp, r'') := span_digits r' in
        match fp, r'' with
        | _ :: _, [] => Some (neg, ip, Some fp)
        | _, _ => None
        end
      else None
    end
  end.

(* no redundant leading zero in the integer part *)
Definition no_leading_zero (ip : list Z) : bool :=
  match ip with
  | c :: _ :: _ => negb (c =? 48)
  | _ => true
  end.

(* sign, mantissa, exponent of a finite double: value = (-1)^s * m * 2^e *)
Definition sme (x : binary_float 53 1024) : option (bool * Z * Z) :=
  match x with
  | B754_zero s => Some (s, 0, 0)
  | B754_finite s m e _ => Some (s, Zpos m, e)
  | _ => None
  end.

(* |x| < 2^31 *)
Definition below_2_31 (m e : Z) : bool :=
  if 0 <=? e then m * 2 ^ e <? 2147483648 else m <? 2147483648 * 2 ^ (- e).

(* the property's domain: finite doubles of magnitude below 2^31, precisions 0..9 *)
Definition c08_in_domain (v : binary_float 53 1024) (p : Z) : bool :=
  match sme v with
  | Some (_, m, e) => below_2_31 m e && (0 <=? p) && (p <=? 9)
  | None => false
  end.

(* m * 2^e * 10^p rounded to the nearest integer, ties to even *)
Definition round_scaled (m e p : Z) : Z :=
  if 0 <=? e then m * 2 ^ e * 10 ^ p
  else
    let num := m * 10 ^ p in
    let den := 2 ^ (- e) in
    let q := num / den in
    let r := num mod den in
    if 2 * r <? den then q
    else if den <? 2 * r then q + 1
    else if Z.even q then q else q + 1.

(* the text is the correctly rounded decimal of v with at most p fraction digits *)
Definition c08_render_ok (v : binary_float 53 1024) (p : Z) (t : list Z) : bool :=
  match sme v, split_dec t with
  | Some (s, m, e), Some (neg, ip, fp) =>
    let fd := match fp with Some l => l | None => [] end in
    let k := Z.of_nat (length fd) in
    let R := round_scaled m e p in
    no_leading_zero ip && (k <=? p) &&
    (digits_value (ip ++ fd) * 10 ^ (p - k) =? R) &&
    ((R =? 0) || Bool.eqb neg s)
  | _, _ => false
  end.

(* floor (log2 (a / b)) for a, b > 0 *)
Definition ilog2_ratio (a b : Z) : Z :=
  let l := Z.log2 a - Z.log2 b in
  let ge := if 0 <=? l then b * 2 ^ l <=? a else b <=? a * 2 ^ (- l) in
  if ge then l else l - 1.

(* |d - x| <= ulp(x) / 2 for x = (-1)^xs * a / b  (a >= 0, b > 0), ulp taken in binary64 at x:
   2^max(floor(log2|x|) - 52, -1074); for x = 0 the result must be a zero *)
Definition half_ulp_ok (xs : bool) (a b : Z) (d : binary_float 53 1024) : bool :=
  match sme d with
  | None => false
  | Some (ds, md, ed) =>
    if a =? 0 then md =? 0
    else
      let fexp := Z.max (ilog2_ratio a b - 52) (-1074) in
      let s := Z.max 0 (Z.max (- ed) (- fexp)) in
      let dn := (if ds then - md else md) * 2 ^ (ed + s) * b in
      let xn := (if xs then - a else a) * 2 ^ s in
      2 * Z.abs (dn - xn) <=? 2 ^ (fexp + s) * b
  end.

(* parsing the text returns a value within half a unit in the last place of what it denotes *)
Definition c08_parse_ok (t : list Z) (d : binary_float 53 1024) : bool :=
  match split_dec t with
  | Some (neg, ip, fp) =>
    let fd := match fp with Some l => l | None => [] end in
    half_ulp_ok neg (digits_value (ip ++ fd)) (10 ^ Z.of_nat (length fd)) d
  | None => false
  end.

(* Every finite double below 2^31 rendered at precision 0..9 is the correctly rounded decimal
   and parsing that text is within half an ulp.  r = None: no decimal text was produced. *)
Definition c08_float_ok (v : binary_float 53 1024) (p : Z)
           (r : option (list Z * binary_float 53 1024)) : bool :=
  if c08_in_domain v p then
    match r with
    | Some (t, d) => c08_render_ok v p t && c08_parse_ok t d
    | None => false
    end
  else true.

(* parser alone: a plain decimal [-]digits[.digits] without redundant leading zero, at most 10
   integer and 9 fraction digits (the texts the renderer can produce) must parse to within half
   an ulp; nothing is required for other texts *)
Definition c08_atof_ok (t : list Z) (d : binary_float 53 1024) : bool :=
  match split_dec t with
  | Some (neg, ip, fp) =>
    let fd := match fp with Some l => l | None => [] end in
    if no_leading_zero ip && (Z.of_nat (length ip) <=? 10) && (Z.of_nat (length fd) <=? 9)
    then c08_parse_ok t d else true
  | None => true
  end.

(* The same clause on an outcome: the parse must complete without an undefined operation
   (parsed = Some r) and give the value back. *)
Definition c08_int_strict_ok (v : Z) (text : list Z) (parsed : option Z) : bool :=
  match parsed with
  | Some r => c08_int_ok v text r
  | None => false
  end.

(* the shape of a rendered double at (clamped) precision p: [-]digits without redundant leading
   zero; no point when p = 0, otherwise a point followed by 1..p digits *)
Definition c08_shape_ok (p : Z) (t : list Z) : bool :=
  match split_dec t with
  | Some (_, ip, fp) =>
    no_leading_zero ip &&
    match fp with
    | None => p =? 0
    | Some fd => (1 <=? p) && (Z.of_nat (length fd) <=? p)
    end
  | None => false
  end.
