(* Property C31 as an executable monitor over the OBSERVABLE history of a timer: the calls
   made by the application (schedule / clear, with the clock value at the call), the callback
   runs (with the clock value and the callback's return value) and the moments at which the
   timer thread was seen idle.  Written from the property text; it does not mention the model.

     "A scheduled event's callback never runs before its due time, pending events run in
      due-time order, a repeating event runs again no sooner than its interval after each run
      until its callback returns false, and after clearing no pending event runs."

   The same function, extracted, is the oracle applied to the implementation's trace. *)
From Coq Require Import ZArith List Bool.
Import ListNotations.
Local Open Scope Z_scope.

Definition MILLION : Z := 1000000.

(* [id] identifies the scheduled event (one schedule call = one id) *)
Inductive hentry :=
| HSched (id : nat) (cb : Z) (rep : bool) (ms : Z) (t : Z)   (* schedule(ev, ms) called at clock t *)
| HFire  (id : nat) (cb : Z) (t : Z) (r : bool)              (* callback ran at clock t, returned r *)
| HClear (t : Z) (n : nat)                                   (* clear() called at t, returned n *)
| HQuiet (t : Z).                                            (* timer thread found nothing to do at t *)

(* what the property says is pending: event, due time, interval; [p_first] = armed by the
   schedule call (clause 1) rather than by a previous run (clause 3) *)
Record pent := { p_id : nat; p_due : Z; p_ms : Z; p_rep : bool; p_first : bool }.
Inductive why := Cleared | Finished.

Record verdict := { ok_ne : bool;       (* never before the due time *)
                    ok_ord : bool;      (* pending events run in due-time order *)
                    ok_rep : bool;      (* again no sooner than the interval; not after false / once only *)
                    ok_clr : bool;      (* nothing pending at a clear runs afterwards *)
                    ok_prompt : bool }. (* extra: when the timer is idle nothing due is pending *)

Record mon := { pend : list pent; dead : list (nat * why); verd : verdict }.

Definition verd0 : verdict := {| ok_ne := true; ok_ord := true; ok_rep := true; ok_clr := true; ok_prompt := true |}.
Definition mon0 : mon := {| pend := []; dead := []; verd := verd0 |}.

Definition fail_ne (v : verdict) := {| ok_ne := false; ok_ord := ok_ord v; ok_rep := ok_rep v; ok_clr := ok_clr v; ok_prompt := ok_prompt v |}.
Definition fail_ord (v : verdict) := {| ok_ne := ok_ne v; ok_ord := false; ok_rep := ok_rep v; ok_clr := ok_clr v; ok_prompt := ok_prompt v |}.
Definition fail_rep (v : verdict) := {| ok_ne := ok_ne v; ok_ord := ok_ord v; ok_rep := false; ok_clr := ok_clr v; ok_prompt := ok_prompt v |}.
Definition fail_clr (v : verdict) := {| ok_ne := ok_ne v; ok_ord := ok_ord v; ok_rep := ok_rep v; ok_clr := false; ok_prompt := ok_prompt v |}.
Definition fail_prompt (v : verdict) := {| ok_ne := ok_ne v; ok_ord := ok_ord v; ok_rep := ok_rep v; ok_clr := ok_clr v; ok_prompt := false |}.

(* find and remove the first pending entry of event [id] *)
Fixpoint take (id : nat) (l : list pent) : option (pent * list pent) :=
  match l with
  | [] => None
  | p :: t => if Nat.eqb (p_id p) id then Some (p, t)
              else match take id t with Some (x, r) => Some (x, p :: r) | None => None end
  end.

Fixpoint why_of (id : nat) (l : list (nat * why)) : option why :=
  match l with
  | [] => None
  | (i, w) :: t => if Nat.eqb i id then Some w else why_of id t
  end.

Definition mstep (m : mon) (h : hentry) : mon :=
  match h with
  | HSched id cb rep ms t =>
      (* the property speaks of delays of at least 1 ms; a call with 0 arms nothing *)
      if 1 <=? ms
      then {| pend := pend m ++ [{| p_id := id; p_due := t + ms * MILLION; p_ms := ms; p_rep := rep; p_first := true |}];
              dead := dead m; verd := verd m |}
      else m
  | HFire id cb t r =>
      match take id (pend m) with
      | Some (p, rest) =>
          let v1 := if p_due p <=? t then verd m
                    else if p_first p then fail_ne (verd m) else fail_rep (verd m) in
          let v2 := if forallb (fun x => p_due p <=? p_due x) rest then v1 else fail_ord v1 in
          if r && p_rep p
          then {| pend := rest ++ [{| p_id := id; p_due := t + p_ms p * MILLION; p_ms := p_ms p; p_rep := true; p_first := false |}];
                  dead := dead m; verd := v2 |}
          else {| pend := rest; dead := (id, Finished) :: dead m; verd := v2 |}
      | None =>
          {| pend := pend m; dead := dead m;
             verd := match why_of id (dead m) with
                     | Some Cleared => fail_clr (verd m)
                     | Some Finished => fail_rep (verd m)
                     | None => fail_ne (verd m)      (* never scheduled (or scheduled with 0) *)
                     end |}
      end
  | HClear t n =>
      {| pend := []; dead := map (fun p => (p_id p, Cleared)) (pend m) ++ dead m; verd := verd m |}
  | HQuiet t =>
      if forallb (fun x => t <? p_due x) (pend m) then m
      else {| pend := pend m; dead := dead m; verd := fail_prompt (verd m) |}
  end.

Definition c31_mon (h : list hentry) : mon := fold_left mstep h mon0.

Definition verdict_all (v : verdict) : bool := ok_ne v && ok_ord v && ok_rep v && ok_clr v && ok_prompt v.

Definition c31_ok (h : list hentry) : bool := verdict_all (verd (c31_mon h)).
