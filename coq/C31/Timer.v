(* Model of FIX8::Timer<T> / TimerEvent<T> (include/fix8/timer.hpp:54-226), transcribed
   statement by statement.  No proofs in this file.

   The event queue (std::priority_queue<TimerEvent<T>> with the reversed operator<, i.e. the
   top is AN element of minimal _t) is a list in insertion order; which of several elements of
   equal minimal _t is the top is left to an oracle [k] supplied with every loop iteration, so
   nothing proved here depends on the heap's tie-breaking.

   THE LOCK.  schedule() and clear() take _spin_lock for their whole effect on the queue, and one
   pass of the loop body holds it (f8_scoped_spin_lock guard) from the look at the top of the
   queue through pop, the CALLBACK, and the push-back of a repeating event.  Each of the three is
   therefore one atomic step here ([schedule], [clear], [iter]), and an execution is an arbitrary
   sequence of such steps made by any threads, each with the clock value it read; "clear() at an
   arbitrary moment, from any thread" is a [clear] step anywhere between two other steps.  That
   [iter] is ONE step - in particular that no clear() can fall between the pop and the push-back -
   is exactly what holding the lock across the callback provides: C31/TimerUnlocked.v models the
   loop with the callback outside the lock, and there the clear clause fails
   (c31_clear_unlocked_refuted).

   Ghost state: [e_id] (the number of the schedule call that created the event; never read by
   the code below except to copy it) and the history [hist] of observable happenings, in the
   vocabulary of Spec_C31. *)
From Coq Require Import ZArith List Bool.
From F8 Require Import C31.Spec_C31.
Import ListNotations.
Local Open Scope Z_scope.

(* TimerEvent: _callback, _t (ns since the epoch, 0 = "empty timeval"), _intervalMS, _repeat *)
Record ev := { e_id : nat; e_cb : Z; e_due : Z; e_ival : Z; e_rep : bool }.

Record state := { q : list ev; hist : list hentry; next : nat }.
Definition init : state := {| q := []; hist := []; next := O |}.

(* ---- _event_queue.top(): an element of minimal _t ------------------------------------- *)
Fixpoint mindue (m : Z) (l : list ev) : Z :=
  match l with [] => m | e :: t => mindue (Z.min m (e_due e)) t end.

(* the k-th (saturating) element whose _t equals m, and the queue without it *)
Fixpoint pick (k : nat) (m : Z) (l : list ev) : option (ev * list ev) :=
  match l with
  | [] => None
  | e :: t =>
      if e_due e =? m then
        match k with
        | O => Some (e, t)
        | S k' => match pick k' m t with
                  | Some (x, r) => Some (x, e :: r)
                  | None => Some (e, t)
                  end
        end
      else match pick k m t with Some (x, r) => Some (x, e :: r) | None => None end
  end.

Definition top (k : nat) (l : list ev) : option (ev * list ev) :=
  match l with
  | [] => None
  | e :: t => pick k (mindue (e_due e) t) l
  end.

(* ---- callbacks: the n-th run of callback cb returns res cb n --------------------------- *)
Fixpoint runs_of (cb : Z) (h : list hentry) : nat :=
  match h with
  | [] => O
  | HFire _ c _ _ :: t => if c =? cb then S (runs_of cb t) else runs_of cb t
  | _ :: t => runs_of cb t
  end.

(* ---- Timer<T>::schedule(TimerEvent<T> what, unsigned timeToWait), clock value [now] ----- *)
Definition schedule (now : Z) (cb : Z) (rep : bool) (ms : Z) (s : state) : state :=
  (* Tickval tofire;  (zero)   if (timeToWait) { tofire = now + timeToWait * million;
     what._intervalMS = timeToWait; }   what.set(tofire);  push *)
  let due := if ms =? 0 then 0 else now + ms * MILLION in
  let ival := if ms =? 0 then 0 else ms in          (* a fresh TimerEvent has _intervalMS = 0 *)
  {| q := q s ++ [{| e_id := next s; e_cb := cb; e_due := due; e_ival := ival; e_rep := rep |}];
     hist := hist s ++ [HSched (next s) cb rep ms now];
     next := S (next s) |}.

(* ---- Timer<T>::clear() ----------------------------------------------------------------- *)
Definition clear (now : Z) (s : state) : state :=
  {| q := []; hist := hist s ++ [HClear now (length (q s))]; next := next s |}.

(* ---- one pass of the loop body of Timer<T>::operator()() -------------------------------- *)
Inductive outcome := Slept | Dropped | Fired (cb : Z).

Definition iter (res : Z -> nat -> bool) (k : nat) (now : Z) (s : state) : state * outcome :=
  match top k (q s) with
  | None =>                                        (* queue empty: shouldsleep *)
      ({| q := q s; hist := hist s ++ [HQuiet now]; next := next s |}, Slept)
  | Some (op, rest) =>
      if e_due op =? 0 then                        (* if (!op._t) { pop(); continue; } *)
        ({| q := rest; hist := hist s; next := next s |}, Dropped)
      else if e_due op <=? now then                (* if (op._t <= now) *)
        let r := res (e_cb op) (runs_of (e_cb op) (hist s)) in     (* (_monitor.*rop._callback)() *)
        let q' := if r && e_rep op                 (* if (result && op._repeat) *)
                  then rest ++ [{| e_id := e_id op; e_cb := e_cb op;
                                   e_due := now + e_ival op * MILLION;   (* op._t = now + _intervalMS * million *)
                                   e_ival := e_ival op; e_rep := e_rep op |}]
                  else rest in
        ({| q := q'; hist := hist s ++ [HFire (e_id op) (e_cb op) now r]; next := next s |}, Fired (e_cb op))
      else                                         (* else shouldsleep = true *)
        ({| q := q s; hist := hist s ++ [HQuiet now]; next := next s |}, Slept)
  end.

(* ---- arbitrary executions: any sequence of operations, each with the clock it read ------ *)
Inductive op := OSched (cb : Z) (rep : bool) (ms : Z) | OIter (k : nat) | OClear.

Definition step (res : Z -> nat -> bool) (s : state) (o : Z * op) : state :=
  match o with
  | (now, OSched cb rep ms) => schedule now cb rep ms s
  | (now, OIter k) => fst (iter res k now s)
  | (now, OClear) => clear now s
  end.

Definition run (res : Z -> nat -> bool) (ops : list (Z * op)) (s : state) : state :=
  fold_left (step res) ops s.

(* the ranges of the C++ types: timeToWait is an unsigned, the clock is after the epoch *)
Definition op_wf (o : Z * op) : bool :=
  match o with
  | (now, OSched _ _ ms) => (0 <=? now) && (0 <=? ms) && (ms <? 4294967296)
  | (now, _) => 0 <=? now
  end.

(* ---- the executions driven by the correspondence harness --------------------------------
   The harness performs one action, then lets the timer thread run until it is seen asleep
   with nothing due: [drain].  The clock moves meanwhile only through the callbacks: the harness's
   callback number cb advances the (virtual) clock by [dur cb] while it runs ("slow callback"), and
   the loop reads the clock afresh in every pass (const Tickval now(Tickval::get_tickval()) inside
   the loop body), so the next pass of the same wake-up sees the later time.  The tie-breaking oracle is
   steered by [pref], the order in which the implementation was seen to run the callbacks:
   among the elements of minimal _t the one whose callback is next in [pref] is the top. *)
Fixpoint cand_index (want : Z) (m : Z) (l : list ev) : option nat :=
  match l with
  | [] => None
  | e :: t =>
      if e_due e =? m then
        if e_cb e =? want then Some O
        else match cand_index want m t with Some n => Some (S n) | None => None end
      else cand_index want m t
  end.

Definition choose (pref : list Z) (l : list ev) : nat :=
  match pref, l with
  | want :: _, e :: t => match cand_index want (mindue (e_due e) t) l with Some n => n | None => O end
  | _, _ => O
  end.

Fixpoint drain (res : Z -> nat -> bool) (dur : Z -> Z) (fuel : nat) (now : Z) (pref : list Z) (s : state)
  : state * Z * list Z * bool :=
  match fuel with
  | O => (s, now, pref, false)            (* out of fuel: excluded by TimerProofs.drain_fuel_enough when dur = 0 *)
  | S f =>
      match iter res (choose pref (q s)) now s with
      | (s', Slept) => (s', now, pref, true)
      | (s', Dropped) => drain res dur f now pref s'
      | (s', Fired cb) => drain res dur f (now + dur cb) (tl pref) s'
      end
  end.

(* like [drain], but stops as soon as [nf] callbacks have run *)
Fixpoint drainf (res : Z -> nat -> bool) (dur : Z -> Z) (fuel : nat) (nf : nat) (now : Z) (pref : list Z) (s : state)
  : state * Z * list Z :=
  match nf, fuel with
  | O, _ => (s, now, pref)
  | _, O => (s, now, pref)
  | S nf', S f =>
      match iter res (choose pref (q s)) now s with
      | (s', Slept) => (s', now, pref)
      | (s', Dropped) => drainf res dur f nf now pref s'
      | (s', Fired cb) => drainf res dur f nf' (now + dur cb) (tl pref) s'
      end
  end.

(* SPark d nf: the clock advances by d, the timer thread runs nf callbacks (one of them is kept
   from returning by the harness while a second thread calls clear(), which blocks on the lock),
   then that clear() takes effect, then the thread runs until it sleeps.  nf is taken from the
   implementation's trace (how many callbacks had run when clear() returned). *)
Inductive sop := SSched (rep : bool) (ms : Z) | SAdv (dns : Z) | SClear | SPark (dns : Z) (nf : nat).

(* the k-th schedule call of a script uses callback number k *)
Definition sstep (res : Z -> nat -> bool) (dur : Z -> Z) (extra : nat) (c : state * Z * list Z * bool) (o : sop)
  : state * Z * list Z * bool :=
  match c with
  | (s, now, pref, okf) =>
      let '(s1, now1, pref1) :=
        match o with
        | SSched rep ms => (schedule now (Z.of_nat (next s)) rep ms s, now, pref)
        | SAdv d => (s, now + d, pref)
        | SClear => (clear now s, now, pref)
        | SPark d nf => let '(s', now', pref') := drainf res dur (S (length (q s)) + extra) nf (now + d) pref s in
                        (clear now' s', now', pref')
        end in
      match drain res dur (S (length (q s1)) + extra) now1 pref1 s1 with
      | (s2, now2, pref2, fin) => (s2, now2, pref2, okf && fin)
      end
  end.

(* [extra]: additional fuel for wake-ups in which slow callbacks make re-armed events due again *)
Definition run_script (res : Z -> nat -> bool) (dur : Z -> Z) (extra : nat) (t0 : Z) (pref : list Z) (sc : list sop)
  : state * Z * list Z * bool :=
  fold_left (sstep res dur extra) sc (init, t0, pref, true).
