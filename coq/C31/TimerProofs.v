(* Proofs about the Timer model: for EVERY sequence of schedule / clear / loop-iteration
   operations (any clock values after the epoch, any tie-breaking, any callback results) the
   observable history satisfies the monitor of Spec_C31, clause by clause. *)
From Coq Require Import ZArith List Bool Lia Arith.
From F8 Require Import C31.Spec_C31 C31.Timer.
Import ListNotations.
Local Open Scope Z_scope.

(* ---------------------------------------------------------------- top of the queue *)
Lemma mindue_le_acc : forall l m, mindue m l <= m.
Proof. induction l as [|a l IH]; intros; cbn [mindue]; [lia|]. specialize (IH (Z.min m (e_due a))). lia. Qed.

Lemma mindue_le_all : forall l m x, In x l -> mindue m l <= e_due x.
Proof.
  induction l as [|a l IH]; intros m x H; [inversion H|]. cbn [mindue]. destruct H as [->|H].
  - pose proof (mindue_le_acc l (Z.min m (e_due x))). lia.
  - apply IH; auto.
Qed.

Lemma mindue_attained : forall l m, mindue m l = m \/ exists x, In x l /\ e_due x = mindue m l.
Proof.
  induction l as [|a l IH]; intros; cbn [mindue]; [left; reflexivity|].
  destruct (IH (Z.min m (e_due a))) as [H|[x [Hx Hd]]].
  - rewrite H. destruct (Z.min_spec m (e_due a)) as [[_ E]|[_ E]]; rewrite E; [left; reflexivity|].
    right. exists a. split; [left; reflexivity|reflexivity].
  - right. exists x. split; [right; exact Hx|exact Hd].
Qed.

Lemma pick_spec : forall l k m e r, pick k m l = Some (e, r) ->
  e_due e = m /\ exists l1 l2, l = l1 ++ e :: l2 /\ r = l1 ++ l2.
Proof.
  induction l as [|a l IH]; intros k m e r H; [discriminate|]. cbn [pick] in H.
  destruct (e_due a =? m) eqn:E.
  - apply Z.eqb_eq in E. destruct k as [|k'].
    + injection H as <- <-. split; [exact E|]. exists [], l. split; reflexivity.
    + destruct (pick k' m l) as [[x r']|] eqn:P.
      * injection H as <- <-. destruct (IH _ _ _ _ P) as [D [l1 [l2 [L Rr]]]].
        split; [exact D|]. exists (a :: l1), l2. rewrite L, Rr. split; reflexivity.
      * injection H as <- <-. split; [exact E|]. exists [], l. split; reflexivity.
  - destruct (pick k m l) as [[x r']|] eqn:P; [|discriminate].
    injection H as <- <-. destruct (IH _ _ _ _ P) as [D [l1 [l2 [L Rr]]]].
    split; [exact D|]. exists (a :: l1), l2. rewrite L, Rr. split; reflexivity.
Qed.

Lemma pick_none : forall l k m, pick k m l = None -> forall x, In x l -> e_due x <> m.
Proof.
  induction l as [|a l IH]; intros k m H x Hx; [inversion Hx|]. cbn [pick] in H.
  destruct (e_due a =? m) eqn:E.
  - destruct k; [discriminate|]. destruct (pick k m l) as [[? ?]|]; discriminate.
  - destruct (pick k m l) as [[? ?]|] eqn:P; [discriminate|].
    destruct Hx as [->|Hx]; [apply Z.eqb_neq; exact E|]. eapply IH; eauto.
Qed.

Lemma top_none : forall k l, top k l = None -> l = [].
Proof.
  intros k [|a l] H; [reflexivity|]. exfalso. unfold top in H.
  destruct (mindue_attained l (e_due a)) as [M|[x [Hx M]]].
  - eapply (pick_none _ _ _ H a); [left; reflexivity|]. symmetry; exact M.
  - eapply (pick_none _ _ _ H x); [right; exact Hx|]. exact M.
Qed.

Lemma top_spec : forall k l e r, top k l = Some (e, r) ->
  (exists l1 l2, l = l1 ++ e :: l2 /\ r = l1 ++ l2) /\ forall x, In x l -> e_due e <= e_due x.
Proof.
  intros k [|a l] e r H; [discriminate|]. unfold top in H.
  destruct (pick_spec _ _ _ _ _ H) as [D S]. split; [exact S|].
  intros x [->|Hx]; rewrite D.
  - apply mindue_le_acc.
  - apply mindue_le_all; exact Hx.
Qed.

(* every element of minimal _t can be the top: the oracle covers every tie-breaking *)
Fixpoint cands (m : Z) (l : list ev) : nat :=
  match l with [] => O | e :: t => if e_due e =? m then S (cands m t) else cands m t end.

Lemma pick_complete : forall l1 e l2 m, e_due e = m ->
  pick (cands m l1) m (l1 ++ e :: l2) = Some (e, l1 ++ l2).
Proof.
  induction l1 as [|a l1 IH]; intros e l2 m D.
  - cbn. rewrite D, Z.eqb_refl. reflexivity.
  - cbn [cands app pick]. destruct (e_due a =? m) eqn:E.
    + rewrite IH by exact D. reflexivity.
    + rewrite IH by exact D. reflexivity.
Qed.

Lemma mindue_min : forall l m, (forall x, In x l -> m <= e_due x) -> mindue m l = m.
Proof.
  induction l as [|a l IH]; intros m H; cbn [mindue]; [reflexivity|].
  assert (m <= e_due a) by (apply H; left; reflexivity).
  rewrite Z.min_l by lia. apply IH. intros; apply H; right; assumption.
Qed.

Lemma top_complete_lemma : forall l1 e l2,
  (forall x, In x (l1 ++ e :: l2) -> e_due e <= e_due x) ->
  exists k, top k (l1 ++ e :: l2) = Some (e, l1 ++ l2).
Proof.
  intros l1 e l2 H. exists (cands (e_due e) l1).
  assert (M : forall a t, l1 ++ e :: l2 = a :: t -> mindue (e_due a) t = e_due e).
  { intros a t L.
    assert (Ha : e_due e <= e_due a) by (apply H; rewrite L; left; reflexivity).
    destruct (mindue_attained t (e_due a)) as [E|[x [Hx E]]].
    - assert (In e (a :: t)) by (rewrite <- L; apply in_or_app; right; left; reflexivity).
      destruct H0 as [->|He]; [exact E|].
      pose proof (mindue_le_all t (e_due a) e He). lia.
    - assert (e_due e <= e_due x) by (apply H; rewrite L; right; exact Hx).
      assert (In e (a :: t)) by (rewrite <- L; apply in_or_app; right; left; reflexivity).
      destruct H1 as [->|He].
      + pose proof (mindue_le_acc t (e_due e)). lia.
      + pose proof (mindue_le_all t (e_due a) e He). lia. }
  destruct (l1 ++ e :: l2) as [|a t] eqn:L.
  - destruct l1; discriminate.
  - unfold top. rewrite (M a t eq_refl). rewrite <- L. apply pick_complete. reflexivity.
Qed.

(* ---------------------------------------------------------------- the invariant *)
Definition live (e : ev) : bool := 1 <=? e_ival e.

Definition R (e : ev) (p : pent) : Prop :=
  p_id p = e_id e /\ p_due p = e_due e /\ p_ms p = e_ival e /\ p_rep p = e_rep e.

Definition shape (e : ev) : Prop :=
  (e_ival e = 0 /\ e_due e = 0) \/ (1 <= e_ival e /\ 0 < e_due e).

Record Inv (s : state) : Prop := {
  inv_rel : Forall2 R (filter live (q s)) (pend (c31_mon (hist s)));
  inv_nodup : NoDup (map e_id (q s));
  inv_lt : Forall (fun e => (e_id e < next s)%nat) (q s);
  inv_shape : Forall shape (q s);
  inv_verd : verd (c31_mon (hist s)) = verd0 }.

Lemma mon_snoc : forall h x, c31_mon (h ++ [x]) = mstep (c31_mon h) x.
Proof. intros. unfold c31_mon. rewrite fold_left_app. reflexivity. Qed.

Lemma Inv_init : Inv init.
Proof. constructor; cbn; constructor. Qed.

Lemma filter_live_app : forall a b, filter live (a ++ b) = filter live a ++ filter live b.
Proof. intros; apply filter_app. Qed.

Lemma take_app : forall id P1 p P2, p_id p = id -> (forall x, In x P1 -> p_id x <> id) ->
  take id (P1 ++ p :: P2) = Some (p, P1 ++ P2).
Proof.
  induction P1 as [|a P1 IH]; intros p P2 Hp Hn; cbn [take app].
  - rewrite (proj2 (Nat.eqb_eq _ _) Hp). reflexivity.
  - assert (p_id a <> id) by (apply Hn; left; reflexivity).
    rewrite (proj2 (Nat.eqb_neq _ _) H). rewrite IH; auto. intros; apply Hn; right; assumption.
Qed.

Lemma Forall2_R_ids : forall l P, Forall2 R l P -> map p_id P = map e_id l.
Proof. induction 1; cbn; [reflexivity|]. destruct H as [-> _]. f_equal. assumption. Qed.

Lemma Forall2_R_in : forall l P x, Forall2 R l P -> In x P -> exists e, In e l /\ R e x.
Proof.
  induction 1; intros Hx; [inversion Hx|]. destruct Hx as [->|Hx].
  - exists x0. split; [left; reflexivity|assumption].
  - destruct (IHForall2 Hx) as [e [He Re]]. exists e. split; [right; assumption|assumption].
Qed.

Lemma in_filter_live : forall e l, In e (filter live l) -> In e l.
Proof. intros e l H. apply filter_In in H. tauto. Qed.

Lemma NoDup_map_app_mid : forall (l1 l2 : list ev) e, NoDup (map e_id (l1 ++ e :: l2)) ->
  NoDup (map e_id (l1 ++ l2)) /\ ~ In (e_id e) (map e_id (l1 ++ l2)).
Proof.
  intros l1 l2 e H. rewrite map_app in H. cbn [map] in H. rewrite map_app.
  split; [eapply NoDup_remove_1; eauto|eapply NoDup_remove_2; eauto].
Qed.

Lemma NoDup_app_snoc : forall (A : Type) (l : list A) x, NoDup l -> ~ In x l -> NoDup (l ++ [x]).
Proof.
  induction l as [|a l IH]; intros x Hn Hi; cbn.
  - constructor; [intros []|constructor].
  - inversion Hn; subst. constructor.
    + intro H. apply in_app_or in H. destruct H as [H|[H|[]]]; [contradiction|].
      apply Hi. left. symmetry; exact H.
    + apply IH; [assumption|]. intro; apply Hi; right; assumption.
Qed.

Section Preservation.
Variable res : Z -> nat -> bool.

Lemma Inv_schedule : forall s now cb rep ms, Inv s -> 0 <= now -> 0 <= ms ->
  Inv (schedule now cb rep ms s).
Proof.
  intros s now cb rep ms [Hr Hn Hl Hs Hv] Hnow Hms. unfold schedule.
  constructor; cbn [q hist next].
  - rewrite mon_snoc. cbn [mstep]. rewrite filter_live_app. cbn [filter]. unfold live at 2. cbn [e_ival].
    destruct (ms =? 0) eqn:E.
    + apply Z.eqb_eq in E. subst ms. cbn. rewrite app_nil_r. exact Hr.
    + apply Z.eqb_neq in E. assert (L : (1 <=? ms) = true) by (apply Z.leb_le; lia).
      rewrite L. cbn [pend]. apply Forall2_app; [exact Hr|]. constructor; [|constructor].
      unfold R; cbn. auto.
  - rewrite map_app. cbn [map e_id]. apply NoDup_app_snoc; [exact Hn|].
    intro H. apply in_map_iff in H. destruct H as [e [He Hi]].
    rewrite Forall_forall in Hl. specialize (Hl e Hi). lia.
  - apply Forall_app. split.
    + eapply Forall_impl; [|exact Hl]. cbn. intros; lia.
    + constructor; [cbn; lia|constructor].
  - apply Forall_app. split; [exact Hs|]. constructor; [|constructor]. unfold shape; cbn.
    destruct (ms =? 0) eqn:E; [left; split; reflexivity|].
    apply Z.eqb_neq in E. right. unfold MILLION. lia.
  - rewrite mon_snoc. cbn [mstep]. destruct (1 <=? ms); cbn [verd]; exact Hv.
Qed.

Lemma Inv_clear : forall s now, Inv s -> Inv (clear now s).
Proof.
  intros s now [Hr Hn Hl Hs Hv]. unfold clear. constructor; cbn [q hist next].
  - rewrite mon_snoc. cbn. constructor.
  - constructor.
  - constructor.
  - constructor.
  - rewrite mon_snoc. cbn. exact Hv.
Qed.

Lemma not_live_shape : forall e, shape e -> e_due e = 0 -> live e = false.
Proof. intros e [[I D]|[I D]] Z0; unfold live; apply Z.leb_gt; lia. Qed.

Lemma live_shape : forall e, shape e -> e_due e <> 0 -> live e = true /\ 1 <= e_ival e.
Proof. intros e [[I D]|[I D]] Z0; [contradiction|]. unfold live. split; [apply Z.leb_le|]; lia. Qed.

Lemma Inv_iter : forall s k now, Inv s -> 0 <= now -> Inv (fst (iter res k now s)).
Proof.
  intros s k now [Hr Hn Hl Hs Hv] Hnow. unfold iter.
  destruct (top k (q s)) as [[op rest]|] eqn:T.
  2:{ (* empty queue *)
    apply top_none in T. cbn [fst]. constructor; cbn [q hist next]; try assumption.
    - rewrite mon_snoc. cbn [mstep]. rewrite T in Hr. cbn in Hr. inversion Hr. cbn. rewrite T. cbn.
      rewrite <- H. constructor.
    - rewrite mon_snoc. cbn [mstep]. rewrite T in Hr. cbn in Hr. inversion Hr. cbn. exact Hv. }
  destruct (top_spec _ _ _ _ T) as [[l1 [l2 [Lq Lr]]] Hmin].
  assert (Hsop : shape op).
  { rewrite Forall_forall in Hs. apply Hs. rewrite Lq. apply in_or_app. right. left. reflexivity. }
  assert (Hnd : NoDup (map e_id rest) /\ ~ In (e_id op) (map e_id rest)).
  { rewrite Lr. apply NoDup_map_app_mid. rewrite <- Lq. exact Hn. }
  assert (Hlr : Forall (fun e => (e_id e < next s)%nat) rest).
  { rewrite Forall_forall in *. intros x Hx. apply Hl. rewrite Lq. rewrite Lr in Hx.
    apply in_app_or in Hx. apply in_or_app. destruct Hx; [left|right; right]; assumption. }
  assert (Hsr : Forall shape rest).
  { rewrite Forall_forall in *. intros x Hx. apply Hs. rewrite Lq. rewrite Lr in Hx.
    apply in_app_or in Hx. apply in_or_app. destruct Hx; [left|right; right]; assumption. }
  assert (Hlop : (e_id op < next s)%nat).
  { rewrite Forall_forall in Hl. apply Hl. rewrite Lq. apply in_or_app. right. left. reflexivity. }
  destruct (e_due op =? 0) eqn:D0.
  - (* empty timeval: dropped *)
    apply Z.eqb_eq in D0. cbn [fst]. constructor; cbn [q hist next]; try tauto; try assumption.
    rewrite Lr. rewrite Lq in Hr. rewrite filter_live_app in *. cbn [filter] in Hr.
    rewrite (not_live_shape op Hsop D0) in Hr. exact Hr.
  - apply Z.eqb_neq in D0. destruct (live_shape op Hsop D0) as [Lop Iop].
    (* split the monitor's pending list at op *)
    assert (Hsplit : exists P1 p P2, pend (c31_mon (hist s)) = P1 ++ p :: P2 /\
              Forall2 R (filter live l1) P1 /\ R op p /\ Forall2 R (filter live l2) P2).
    { rewrite Lq in Hr. rewrite filter_live_app in Hr. cbn [filter] in Hr. rewrite Lop in Hr.
      apply Forall2_app_inv_l in Hr. destruct Hr as [P1 [P' [H1 [H2 E]]]].
      inversion H2 as [|? p ? P2 Rp H3]; subst. exists P1, p, P2. tauto. }
    destruct Hsplit as [P1 [p [P2 [EP [H1 [Rp H2]]]]]].
    assert (Hrest : Forall2 R (filter live rest) (P1 ++ P2)).
    { rewrite Lr, filter_live_app. apply Forall2_app; assumption. }
    assert (Hdue : forall x, In x (P1 ++ P2) -> p_due p <= p_due x).
    { intros x Hx. destruct (Forall2_R_in _ _ _ Hrest Hx) as [e [He Re]].
      destruct Rp as [_ [-> _]]. destruct Re as [_ [-> _]]. apply Hmin.
      apply in_filter_live in He. rewrite Lq. rewrite Lr in He. apply in_app_or in He.
      apply in_or_app. destruct He; [left|right; right]; assumption. }
    destruct (e_due op <=? now) eqn:Dn.
    + (* fired *)
      apply Z.leb_le in Dn. cbn [fst].
      assert (Htake : take (e_id op) (pend (c31_mon (hist s))) = Some (p, P1 ++ P2)).
      { rewrite EP. apply take_app; [destruct Rp; assumption|].
        intros x Hx Hid. destruct Hnd as [_ Hni]. apply Hni.
        assert (Hx' : In x (P1 ++ P2)) by (apply in_or_app; left; assumption).
        destruct (Forall2_R_in _ _ _ Hrest Hx') as [e [He [Re _]]].
        apply in_filter_live in He. rewrite <- Hid, Re. apply in_map. exact He. }
      assert (Hall : forallb (fun x => p_due p <=? p_due x) (P1 ++ P2) = true).
      { apply forallb_forall. intros x Hx. apply Z.leb_le. apply Hdue. exact Hx. }
      assert (Hpd : (p_due p <=? now) = true).
      { apply Z.leb_le. destruct Rp as [_ [-> _]]. exact Dn. }
      assert (Hprep : p_rep p = e_rep op) by (destruct Rp as [_ [_ [_ H]]]; exact H).
      assert (Hpms : p_ms p = e_ival op) by (destruct Rp as [_ [_ [H _]]]; exact H).
      set (r := res (e_cb op) (runs_of (e_cb op) (hist s))).
      constructor; cbn [q hist next].
      * rewrite mon_snoc. cbn [mstep]. rewrite Htake, Hpd, Hall, Hprep.
        destruct (r && e_rep op) eqn:RR; cbn [pend].
        -- rewrite filter_live_app. apply Forall2_app; [exact Hrest|]. cbn [filter]. unfold live at 1.
           cbn [e_ival]. fold (live op). rewrite Lop. constructor; [|constructor].
           unfold R; cbn. rewrite Hpms. apply andb_prop in RR. destruct RR as [_ ->]. auto.
        -- exact Hrest.
      * destruct (r && e_rep op); [|tauto]. rewrite map_app. cbn [map e_id].
        apply NoDup_app_snoc; tauto.
      * destruct (r && e_rep op); [|assumption]. apply Forall_app. split; [assumption|].
        constructor; [cbn; assumption|constructor].
      * destruct (r && e_rep op); [|assumption]. apply Forall_app. split; [assumption|].
        constructor; [|constructor]. right. cbn. unfold MILLION. split; [assumption|lia].
      * rewrite mon_snoc. cbn [mstep]. rewrite Htake, Hpd, Hall.
        destruct (r && p_rep p); cbn [verd]; exact Hv.
    + (* not yet due: sleep *)
      apply Z.leb_gt in Dn. cbn [fst].
      assert (Hq : forallb (fun x => now <? p_due x) (pend (c31_mon (hist s))) = true).
      { apply forallb_forall. intros x Hx. apply Z.ltb_lt.
        destruct (Forall2_R_in _ _ _ Hr Hx) as [e [He Re]]. destruct Re as [_ [-> _]].
        apply in_filter_live in He. specialize (Hmin e He). lia. }
      constructor; cbn [q hist next]; try assumption.
      * rewrite mon_snoc. cbn [mstep]. rewrite Hq. exact Hr.
      * rewrite mon_snoc. cbn [mstep]. rewrite Hq. exact Hv.
Qed.

Lemma Inv_step : forall s o, Inv s -> op_wf o = true -> Inv (step res s o).
Proof.
  intros s [now [cb rep ms|k|]] HI W; cbn [step]; cbn [op_wf] in W.
  - apply andb_prop in W. destruct W as [W W3]. apply andb_prop in W. destruct W as [W1 W2].
    apply Inv_schedule; [assumption|apply Z.leb_le; assumption|apply Z.leb_le; assumption].
  - apply Inv_iter; [assumption|apply Z.leb_le; assumption].
  - apply Inv_clear; assumption.
Qed.

Lemma Inv_run : forall ops s, Inv s -> forallb op_wf ops = true -> Inv (run res ops s).
Proof.
  induction ops as [|o ops IH]; intros s HI W; cbn; [assumption|].
  cbn in W. apply andb_prop in W. destruct W as [W1 W2].
  apply IH; [apply Inv_step; assumption|assumption].
Qed.
End Preservation.

(* ---------------------------------------------------------------- main theorems *)
Lemma run_ok_lemma : forall res ops, forallb op_wf ops = true ->
  verd (c31_mon (hist (run res ops init))) = verd0.
Proof. intros. apply inv_verd. apply Inv_run; [apply Inv_init|assumption]. Qed.

Lemma c31_all_lemma : forall res ops, forallb op_wf ops = true ->
  c31_ok (hist (run res ops init)) = true.
Proof. intros. unfold c31_ok. rewrite run_ok_lemma by assumption. reflexivity. Qed.

Lemma c31_not_early_lemma : forall res ops, forallb op_wf ops = true ->
  ok_ne (verd (c31_mon (hist (run res ops init)))) = true.
Proof. intros. rewrite run_ok_lemma by assumption. reflexivity. Qed.

Lemma c31_due_order_lemma : forall res ops, forallb op_wf ops = true ->
  ok_ord (verd (c31_mon (hist (run res ops init)))) = true.
Proof. intros. rewrite run_ok_lemma by assumption. reflexivity. Qed.

Lemma c31_repeat_lemma : forall res ops, forallb op_wf ops = true ->
  ok_rep (verd (c31_mon (hist (run res ops init)))) = true.
Proof. intros. rewrite run_ok_lemma by assumption. reflexivity. Qed.

Lemma c31_clear_lemma : forall res ops, forallb op_wf ops = true ->
  ok_clr (verd (c31_mon (hist (run res ops init)))) = true.
Proof. intros. rewrite run_ok_lemma by assumption. reflexivity. Qed.

Lemma c31_prompt_lemma : forall res ops, forallb op_wf ops = true ->
  ok_prompt (verd (c31_mon (hist (run res ops init)))) = true.
Proof. intros. rewrite run_ok_lemma by assumption. reflexivity. Qed.

(* ---------------------------------------------------------------- the harness-driven runs *)
Definition ripe (now : Z) (l : list ev) : nat := length (filter (fun e => e_due e <=? now) l).

Lemma ripe_app : forall now a b, ripe now (a ++ b) = (ripe now a + ripe now b)%nat.
Proof. intros. unfold ripe. rewrite filter_app, app_length. reflexivity. Qed.

Lemma ripe_le_length : forall now l, (ripe now l <= length l)%nat.
Proof.
  intros now l. unfold ripe. induction l as [|a l IH]; cbn [filter length]; [lia|].
  destruct (e_due a <=? now); cbn [length]; lia.
Qed.

Lemma iter_progress : forall res k now s s' o, Inv s -> 0 <= now -> iter res k now s = (s', o) ->
  o = Slept \/ (S (ripe now (q s')) = ripe now (q s))%nat.
Proof.
  intros res k now s s' o HI Hnow H. unfold iter in H.
  destruct (top k (q s)) as [[op rest]|] eqn:T.
  2:{ injection H as <- <-. left; reflexivity. }
  destruct (top_spec _ _ _ _ T) as [[l1 [l2 [Lq Lr]]] _].
  assert (Hsop : shape op).
  { pose proof (inv_shape _ HI) as Hs. rewrite Forall_forall in Hs. apply Hs. rewrite Lq.
    apply in_or_app. right. left. reflexivity. }
  assert (Rq : (e_due op <=? now) = true -> ripe now (q s) = S (ripe now rest)).
  { intros Hd. rewrite Lq, Lr, !ripe_app. change (op :: l2) with ([op] ++ l2). rewrite ripe_app.
    unfold ripe at 2. cbn [filter]. rewrite Hd. cbn [length]. lia. }
  destruct (e_due op =? 0) eqn:D0.
  - injection H as <- <-. right. cbn [q]. apply Z.eqb_eq in D0.
    rewrite Rq; [reflexivity|]. apply Z.leb_le. lia.
  - destruct (e_due op <=? now) eqn:Dn.
    + injection H as <- <-. right. cbn [q]. rewrite (Rq eq_refl).
      apply Z.eqb_neq in D0. destruct (live_shape op Hsop D0) as [_ Iop].
      destruct (res (e_cb op) (runs_of (e_cb op) (hist s)) && e_rep op); [|reflexivity].
      rewrite ripe_app. unfold ripe at 2. cbn [filter e_due].
      assert (E : (now + e_ival op * MILLION <=? now) = false) by (apply Z.leb_gt; unfold MILLION; lia).
      rewrite E. cbn. lia.
    + injection H as <- <-. left; reflexivity.
Qed.

Definition dst (r : state * Z * list Z * bool) : state := fst (fst (fst r)).
Definition dnow (r : state * Z * list Z * bool) : Z := snd (fst (fst r)).

Section Script.
Variables (res : Z -> nat -> bool) (dur : Z -> Z).
Hypothesis Hdur : forall cb, 0 <= dur cb.

Lemma drain_ok : forall fuel now pref s, Inv s -> 0 <= now ->
  Inv (dst (drain res dur fuel now pref s)) /\ 0 <= dnow (drain res dur fuel now pref s).
Proof.
  induction fuel as [|f IH]; intros now pref s HI Hnow; cbn [drain]; [split; assumption|].
  destruct (iter res (choose pref (q s)) now s) as [s' o] eqn:It.
  assert (HI' : Inv s') by (replace s' with (fst (iter res (choose pref (q s)) now s)) by (rewrite It; reflexivity);
                            apply Inv_iter; assumption).
  destruct o as [| |cb]; [split; assumption|apply IH; assumption|apply IH; [assumption|]].
  pose proof (Hdur cb). lia.
Qed.

Lemma drainf_ok : forall fuel nf now pref s, Inv s -> 0 <= now ->
  Inv (fst (fst (drainf res dur fuel nf now pref s))) /\ 0 <= snd (fst (drainf res dur fuel nf now pref s)).
Proof.
  induction fuel as [|f IH]; intros nf now pref s HI Hnow; destruct nf as [|nf']; cbn [drainf]; try (split; assumption).
  destruct (iter res (choose pref (q s)) now s) as [s' o] eqn:It.
  assert (HI' : Inv s') by (replace s' with (fst (iter res (choose pref (q s)) now s)) by (rewrite It; reflexivity);
                            apply Inv_iter; assumption).
  destruct o as [| |cb]; [split; assumption|apply IH; assumption|apply IH; [assumption|]].
  pose proof (Hdur cb). lia.
Qed.

Definition sop_wf (o : sop) : bool :=
  match o with
  | SSched _ ms => (0 <=? ms) && (ms <? 4294967296)
  | SAdv d => 0 <=? d
  | SClear => true
  | SPark d _ => 0 <=? d
  end.

Definition cfg_ok (c : state * Z * list Z * bool) : Prop :=
  match c with (s, now, _, _) => Inv s /\ 0 <= now end.

Lemma sstep_ok : forall extra c o, cfg_ok c -> sop_wf o = true -> cfg_ok (sstep res dur extra c o).
Proof.
  intros extra [[[s now] pref] fin] o [HI Hnow] W. unfold sstep.
  assert (G : forall s1 now1 pref1, Inv s1 -> 0 <= now1 ->
            cfg_ok (match drain res dur (S (length (q s1)) + extra) now1 pref1 s1 with
                    | (s2, now2, pref2, f2) => (s2, now2, pref2, fin && f2) end)).
  { intros s1 now1 pref1 H1 Hn1.
    destruct (drain_ok (S (length (q s1)) + extra) now1 pref1 s1 H1 Hn1) as [A B].
    destruct (drain res dur (S (length (q s1)) + extra) now1 pref1 s1) as [[[s2 now2] pref2] f2].
    cbn in *. split; assumption. }
  destruct o as [rep ms|d| |d nf]; cbn [sop_wf] in W.
  - apply andb_prop in W. destruct W as [W1 W2]. apply Z.leb_le in W1.
    apply G; [apply Inv_schedule; assumption|assumption].
  - apply Z.leb_le in W. apply G; [assumption|lia].
  - apply G; [apply Inv_clear; assumption|assumption].
  - apply Z.leb_le in W.
    destruct (drainf_ok (S (length (q s)) + extra) nf (now + d) pref s HI ltac:(lia)) as [A B].
    destruct (drainf res dur (S (length (q s)) + extra) nf (now + d) pref s) as [[s' now'] pref'].
    cbn in A, B. apply G; [apply Inv_clear; assumption|assumption].
Qed.

Lemma run_script_ok : forall extra sc c, cfg_ok c -> forallb sop_wf sc = true ->
  cfg_ok (fold_left (sstep res dur extra) sc c).
Proof.
  induction sc as [|o sc IH]; intros c Hc W; cbn; [assumption|].
  cbn in W. apply andb_prop in W. destruct W as [W1 W2]. apply IH; [apply sstep_ok; assumption|assumption].
Qed.

(* the scripted runs of the correspondence check: the history satisfies the property, whatever the
   preference list, the callback durations and the fuel are *)
Lemma c31_script_lemma : forall extra t0 pref sc, 0 <= t0 -> forallb sop_wf sc = true ->
  match run_script res dur extra t0 pref sc with
  | (s, _, _, _) => c31_ok (hist s) = true
  end.
Proof.
  intros extra t0 pref sc Ht W. unfold run_script.
  pose proof (run_script_ok extra sc (init, t0, pref, true)) as H.
  destruct (fold_left (sstep res dur extra) sc (init, t0, pref, true)) as [[[s now] pr] fin].
  destruct H as [HI _]; [cbn; split; [apply Inv_init|assumption]|assumption|].
  unfold c31_ok. rewrite (inv_verd _ HI). reflexivity.
Qed.
End Script.

(* with instantaneous callbacks the fuel always suffices: every wait ends with the timer asleep *)
Definition dur0 (cb : Z) : Z := 0.

Lemma drain_fuel_enough : forall res fuel now pref s, Inv s -> 0 <= now ->
  (ripe now (q s) < fuel)%nat -> snd (drain res dur0 fuel now pref s) = true.
Proof.
  induction fuel as [|f IH]; intros now pref s HI Hnow Hf; [lia|]. cbn [drain].
  destruct (iter res (choose pref (q s)) now s) as [s' o] eqn:It.
  assert (HI' : Inv s') by (replace s' with (fst (iter res (choose pref (q s)) now s)) by (rewrite It; reflexivity);
                            apply Inv_iter; assumption).
  destruct (iter_progress _ _ _ _ _ _ HI Hnow It) as [->|Hp]; [reflexivity|].
  destruct o as [| |cb]; [reflexivity|apply IH; try assumption; lia|].
  unfold dur0. rewrite Z.add_0_r. apply IH; try assumption; lia.
Qed.

Lemma c31_script_fuel_lemma : forall res extra t0 pref sc, 0 <= t0 -> forallb sop_wf sc = true ->
  snd (run_script res dur0 extra t0 pref sc) = true.
Proof.
  intros res extra t0 pref sc Ht W. unfold run_script.
  assert (Hd : forall cb, 0 <= dur0 cb) by (intros; unfold dur0; lia).
  assert (G : forall sc c, cfg_ok c -> snd c = true -> forallb sop_wf sc = true ->
              snd (fold_left (sstep res dur0 extra) sc c) = true).
  { induction sc0 as [|o sc0 IH]; intros c Hc Hf Wf; cbn; [assumption|].
    cbn in Wf. apply andb_prop in Wf. destruct Wf as [W1 W2].
    apply IH; [apply sstep_ok; assumption| |assumption].
    destruct c as [[[s now] pr] fin]. cbn in Hf. subst fin. destruct Hc as [HI Hnow]. unfold sstep.
    assert (F : forall s1 now1 pref1, Inv s1 -> 0 <= now1 ->
              snd (match drain res dur0 (S (length (q s1)) + extra) now1 pref1 s1 with
                   | (s2, now2, pref2, f2) => (s2, now2, pref2, true && f2) end) = true).
    { intros s1 now1 pref1 H1 Hn1.
      pose proof (drain_fuel_enough res (S (length (q s1)) + extra) now1 pref1 s1 H1 Hn1) as E.
      destruct (drain res dur0 (S (length (q s1)) + extra) now1 pref1 s1) as [[[s2 now2] pref2] f2].
      cbn in *. apply E. pose proof (ripe_le_length now1 (q s1)). lia. }
    destruct o as [rep ms|d| |d nf]; cbn [sop_wf] in W1.
    - apply andb_prop in W1. destruct W1 as [A B]. apply Z.leb_le in A.
      apply F; [apply Inv_schedule; assumption|assumption].
    - apply Z.leb_le in W1. apply F; [assumption|lia].
    - apply F; [apply Inv_clear; assumption|assumption].
    - apply Z.leb_le in W1.
      destruct (drainf_ok res dur0 Hd (S (length (q s)) + extra) nf (now + d) pr s HI ltac:(lia)) as [A B].
      destruct (drainf res dur0 (S (length (q s)) + extra) nf (now + d) pr s) as [[s' now'] pref'].
      cbn in A, B. apply F; [apply Inv_clear; assumption|assumption]. }
  apply G; [cbn; split; [apply Inv_init|assumption]|reflexivity|assumption].
Qed.

(* ---------------------------------------------------------------- clause 1 stated directly *)
Definition justified (h : list hentry) (id : nat) (cb : Z) (t : Z) : Prop :=
  exists rep ms t0, In (HSched id cb rep ms t0) h /\ 1 <= ms /\ t0 + ms * MILLION <= t.

Record Jnv (s : state) : Prop := {
  j_q : forall e, In e (q s) -> e_due e <> 0 -> justified (hist s) (e_id e) (e_cb e) (e_due e) /\ 1 <= e_ival e
        /\ exists rep t0, In (HSched (e_id e) (e_cb e) rep (e_ival e) t0) (hist s) /\ t0 + e_ival e * MILLION <= e_due e;
  j_h : forall id cb t r, In (HFire id cb t r) (hist s) -> justified (hist s) id cb t }.

Lemma justified_mono : forall h h' id cb t, justified h id cb t -> justified (h ++ h') id cb t.
Proof. intros h h' id cb t [rep [ms [t0 [H1 H2]]]]. exists rep, ms, t0. split; [apply in_or_app; left; assumption|assumption]. Qed.

Lemma Jnv_step : forall res s o, Jnv s -> op_wf o = true -> Jnv (step res s o).
Proof.
  intros res s [now [cb rep ms|k|]] [Jq Jh] W; cbn [step]; cbn [op_wf] in W.
  - apply andb_prop in W. destruct W as [W W3]. apply andb_prop in W. destruct W as [W1 W2].
    apply Z.leb_le in W1, W2. unfold schedule. constructor; cbn [q hist].
    + intros e He Hd. apply in_app_or in He. destruct He as [He|[<-|[]]].
      * destruct (Jq e He Hd) as [J [I [rp [t0 [Hs Ht]]]]].
        split; [apply justified_mono; assumption|]. split; [assumption|].
        exists rp, t0. split; [apply in_or_app; left; assumption|assumption].
      * cbn [e_due e_id e_cb e_ival] in *. destruct (ms =? 0) eqn:E; [contradiction Hd; reflexivity|].
        apply Z.eqb_neq in E. assert (1 <= ms) by lia.
        split; [|split; [assumption|]].
        -- exists rep, ms, now. split; [apply in_or_app; right; left; reflexivity|split; [assumption|lia]].
        -- exists rep, now. split; [apply in_or_app; right; left; reflexivity|lia].
    + intros id c t r H. apply in_app_or in H. destruct H as [H|[H|[]]]; [|discriminate].
      apply justified_mono. eapply Jh; eassumption.
  - unfold iter. destruct (top k (q s)) as [[op rest]|] eqn:T; cbn [fst].
    2:{ constructor; cbn [q hist].
        - intros e He Hd. destruct (Jq e He Hd) as [J [I [rp [t0 [Hs Ht]]]]].
          split; [apply justified_mono; assumption|]. split; [assumption|].
          exists rp, t0. split; [apply in_or_app; left; assumption|assumption].
        - intros id c t r H. apply in_app_or in H. destruct H as [H|[H|[]]]; [|discriminate].
          apply justified_mono. eapply Jh; eassumption. }
    destruct (top_spec _ _ _ _ T) as [[l1 [l2 [Lq Lr]]] _].
    assert (Hop : In op (q s)) by (rewrite Lq; apply in_or_app; right; left; reflexivity).
    assert (Hsub : forall e, In e rest -> In e (q s)).
    { intros e He. rewrite Lq. rewrite Lr in He. apply in_app_or in He. apply in_or_app.
      destruct He; [left|right; right]; assumption. }
    destruct (e_due op =? 0) eqn:D0; cbn [fst].
    + constructor; cbn [q hist]; [|assumption]. intros e He Hd. apply Jq; [apply Hsub|]; assumption.
    + apply Z.eqb_neq in D0. destruct (e_due op <=? now) eqn:Dn; cbn [fst].
      * apply Z.leb_le in Dn. destruct (Jq op Hop D0) as [J [I [rp [t0 [Hs Ht]]]]].
        constructor; cbn [q hist].
        -- intros e He Hd.
           assert (Hold : In e rest -> justified (hist s ++ [HFire (e_id op) (e_cb op) now (res (e_cb op) (runs_of (e_cb op) (hist s)))]) (e_id e) (e_cb e) (e_due e) /\ 1 <= e_ival e /\
                     exists rep t0, In (HSched (e_id e) (e_cb e) rep (e_ival e) t0) (hist s ++ [HFire (e_id op) (e_cb op) now (res (e_cb op) (runs_of (e_cb op) (hist s)))]) /\ t0 + e_ival e * MILLION <= e_due e).
           { intros Hr. destruct (Jq e (Hsub e Hr) Hd) as [J' [I' [rp' [t0' [Hs' Ht']]]]].
             split; [apply justified_mono; assumption|]. split; [assumption|].
             exists rp', t0'. split; [apply in_or_app; left; assumption|assumption]. }
           destruct (res (e_cb op) (runs_of (e_cb op) (hist s)) && e_rep op); [|apply Hold; assumption].
           apply in_app_or in He. destruct He as [He|[<-|[]]]; [apply Hold; assumption|].
           cbn [e_id e_cb e_due e_ival]. unfold MILLION in *.
           split; [|split; [assumption|]].
           ++ exists rp, (e_ival op), t0. split; [apply in_or_app; left; assumption|]. split; [assumption|]. unfold MILLION. lia.
           ++ exists rp, t0. split; [apply in_or_app; left; assumption|unfold MILLION; lia].
        -- intros id c t r H. apply in_app_or in H. destruct H as [H|[H|[]]].
           ++ apply justified_mono. eapply Jh; eassumption.
           ++ injection H as <- <- <- <-. apply justified_mono.
              destruct J as [rp' [ms' [t0' [A [B C]]]]]. exists rp', ms', t0'. split; [assumption|split; [assumption|lia]].
      * constructor; cbn [q hist].
        -- intros e He Hd. destruct (Jq e He Hd) as [J [I [rp [t0 [Hs Ht]]]]].
           split; [apply justified_mono; assumption|]. split; [assumption|].
           exists rp, t0. split; [apply in_or_app; left; assumption|assumption].
        -- intros id c t r H. apply in_app_or in H. destruct H as [H|[H|[]]]; [|discriminate].
           apply justified_mono. eapply Jh; eassumption.
  - unfold clear. constructor; cbn [q hist].
    + intros e [].
    + intros id c t r H. apply in_app_or in H. destruct H as [H|[H|[]]]; [|discriminate].
      apply justified_mono. eapply Jh; eassumption.
Qed.

Lemma c31_not_early_direct_lemma : forall res ops, forallb op_wf ops = true ->
  forall id cb t r, In (HFire id cb t r) (hist (run res ops init)) ->
  exists rep ms t0, In (HSched id cb rep ms t0) (hist (run res ops init)) /\ 1 <= ms /\ t0 + ms * MILLION <= t.
Proof.
  intros res ops W.
  assert (J : Jnv (run res ops init)).
  { unfold run. assert (G : forall ops s, Jnv s -> forallb op_wf ops = true -> Jnv (fold_left (step res) ops s)).
    { induction ops0 as [|o ops0 IH]; intros s Js Ws; cbn; [assumption|].
      cbn in Ws. apply andb_prop in Ws. destruct Ws. apply IH; [apply Jnv_step; assumption|assumption]. }
    apply G; [|assumption]. constructor; cbn; [intros e []|intros ? ? ? ? []]. }
  intros id cb t r H. exact (j_h _ J id cb t r H).
Qed.

(* ---------------------------------------------------------------- the monitor has teeth *)
Lemma c31_monitor_rejects_lemma :
  (* early *)
  c31_ok [HSched 0 7 false 5 1000; HFire 0 7 4999999 false] = false /\
  (* out of due order *)
  c31_ok [HSched 0 7 false 5 1000; HSched 1 8 false 6 1000; HFire 1 8 7000000 false] = false /\
  (* again sooner than the interval *)
  c31_ok [HSched 0 7 true 5 0; HFire 0 7 5000000 true; HFire 0 7 9999999 true] = false /\
  (* again after the callback returned false *)
  c31_ok [HSched 0 7 true 5 0; HFire 0 7 5000000 false; HFire 0 7 10000000 true] = false /\
  (* a non-repeating event twice *)
  c31_ok [HSched 0 7 false 5 0; HFire 0 7 5000000 true; HFire 0 7 10000000 true] = false /\
  (* after clear *)
  c31_ok [HSched 0 7 false 5 0; HClear 1 1; HFire 0 7 5000000 true] = false /\
  (* idle although something is due *)
  c31_ok [HSched 0 7 false 5 0; HQuiet 5000000] = false /\
  (* and it accepts a correct history *)
  c31_ok [HSched 0 7 true 5 0; HSched 1 8 false 6 0; HQuiet 4999999; HFire 0 7 5000000 true;
          HQuiet 5000000; HFire 1 8 6000000 true; HFire 0 7 10000000 false; HQuiet 20000000] = true.
Proof. vm_compute. repeat split; reflexivity. Qed.

(* ---------------------------------------------------------------- non-vacuity *)
Definition nv_res (cb : Z) (n : nat) : bool := (cb =? 0) && Nat.eqb n 0.
Definition nv_script : list sop :=
  [SSched true 5; SSched false 5; SSched false 3; SAdv 5000000; SAdv 5000000; SSched false 2; SClear; SAdv 10000000].

Lemma c31_nonvacuous_lemma :
  forallb sop_wf nv_script = true /\
  match run_script nv_res dur0 0 1000000000 [2; 1; 0] nv_script with
  | (s, _, _, fin) =>
      fin = true /\
      filter (fun h => match h with HFire _ _ _ _ => true | HClear _ _ => true | _ => false end) (hist s) =
        [HFire 2 2 1005000000 false; HFire 1 1 1005000000 false; HFire 0 0 1005000000 true;
         HFire 0 0 1010000000 false; HClear 1010000000 1]
  end.
Proof. vm_compute. repeat split; reflexivity. Qed.

(* ---------------------------------------------------------------- clause 4 stated directly *)
(* after clear() every callback run belongs to an event scheduled after that clear() *)
Record Knv (n0 : nat) (h0 : list hentry) (s : state) : Prop := {
  k_next : (n0 <= next s)%nat;
  k_q : forall e, In e (q s) -> (n0 <= e_id e)%nat;
  k_h : exists h', hist s = h0 ++ h' /\ forall id cb t r, In (HFire id cb t r) h' -> (n0 <= id)%nat }.

Lemma Knv_step : forall res n0 h0 s o, Knv n0 h0 s -> Knv n0 h0 (step res s o).
Proof.
  intros res n0 h0 s [now [cb rep ms|k|]] [Kn Kq [h' [Kh Kf]]]; cbn [step].
  - unfold schedule. constructor; cbn [q hist next].
    + lia.
    + intros e He. apply in_app_or in He. destruct He as [He|[<-|[]]]; [apply Kq; assumption|cbn; lia].
    + exists (h' ++ [HSched (next s) cb rep ms now]). split; [rewrite Kh, app_assoc; reflexivity|].
      intros id c t r H. apply in_app_or in H. destruct H as [H|[H|[]]]; [eapply Kf; eassumption|discriminate].
  - unfold iter. destruct (top k (q s)) as [[op rest]|] eqn:T; cbn [fst].
    2:{ constructor; cbn [q hist next]; try assumption.
        exists (h' ++ [HQuiet now]). split; [rewrite Kh, app_assoc; reflexivity|].
        intros id c t r H. apply in_app_or in H. destruct H as [H|[H|[]]]; [eapply Kf; eassumption|discriminate]. }
    destruct (top_spec _ _ _ _ T) as [[l1 [l2 [Lq Lr]]] _].
    assert (Hop : In op (q s)) by (rewrite Lq; apply in_or_app; right; left; reflexivity).
    assert (Hsub : forall e, In e rest -> In e (q s)).
    { intros e He. rewrite Lq. rewrite Lr in He. apply in_app_or in He. apply in_or_app.
      destruct He; [left|right; right]; assumption. }
    destruct (e_due op =? 0); cbn [fst].
    + constructor; cbn [q hist next]; try assumption; [|exists h'; split; assumption].
      intros e He. apply Kq. apply Hsub. exact He.
    + destruct (e_due op <=? now); cbn [fst].
      * constructor; cbn [q hist next]; try assumption.
        -- intros e He. destruct (res (e_cb op) (runs_of (e_cb op) (hist s)) && e_rep op).
           ++ apply in_app_or in He. destruct He as [He|[<-|[]]]; [apply Kq; apply Hsub; exact He|cbn; apply Kq; exact Hop].
           ++ apply Kq. apply Hsub. exact He.
        -- exists (h' ++ [HFire (e_id op) (e_cb op) now (res (e_cb op) (runs_of (e_cb op) (hist s)))]).
           split; [rewrite Kh, app_assoc; reflexivity|].
           intros id c t r H. apply in_app_or in H. destruct H as [H|[H|[]]]; [eapply Kf; eassumption|].
           injection H as <- _ _ _. apply Kq. exact Hop.
      * constructor; cbn [q hist next]; try assumption.
        exists (h' ++ [HQuiet now]). split; [rewrite Kh, app_assoc; reflexivity|].
        intros id c t r H. apply in_app_or in H. destruct H as [H|[H|[]]]; [eapply Kf; eassumption|discriminate].
  - unfold clear. constructor; cbn [q hist next]; try assumption.
    + intros e [].
    + exists (h' ++ [HClear now (length (q s))]). split; [rewrite Kh, app_assoc; reflexivity|].
      intros id c t r H. apply in_app_or in H. destruct H as [H|[H|[]]]; [eapply Kf; eassumption|discriminate].
Qed.

Lemma c31_clear_direct_lemma : forall res ops1 now ops2,
  let s1 := run res ops1 init in
  let s2 := run res ops2 (clear now s1) in
  exists h', hist s2 = hist (clear now s1) ++ h' /\
             forall id cb t r, In (HFire id cb t r) h' -> (next s1 <= id)%nat.
Proof.
  intros res ops1 now ops2 s1 s2.
  assert (K0 : Knv (next s1) (hist (clear now s1)) (clear now s1)).
  { constructor; cbn; [lia|intros e []|]. exists []. rewrite app_nil_r. split; [reflexivity|intros ? ? ? ? []]. }
  assert (G : forall ops s, Knv (next s1) (hist (clear now s1)) s ->
                            Knv (next s1) (hist (clear now s1)) (run res ops s)).
  { induction ops as [|o ops IH]; intros s Ks; cbn; [assumption|]. apply IH. apply Knv_step. assumption. }
  exact (k_h _ _ _ (G ops2 _ K0)).
Qed.

(* ids below [next s1] are exactly those handed out before: every schedule entry of the history
   of s1 has a smaller id *)
Lemma sched_ids_lemma : forall res ops id cb rep ms t,
  In (HSched id cb rep ms t) (hist (run res ops init)) -> (id < next (run res ops init))%nat.
Proof.
  intros res ops.
  assert (G : forall ops s, (forall id cb rep ms t, In (HSched id cb rep ms t) (hist s) -> (id < next s)%nat) ->
              forall id cb rep ms t, In (HSched id cb rep ms t) (hist (run res ops s)) -> (id < next (run res ops s))%nat).
  { induction ops0 as [|o ops0 IH]; intros s Hs; cbn; [exact Hs|]. apply IH.
    destruct o as [now [cb rep ms|k|]]; cbn [step].
    - unfold schedule; cbn [hist next]. intros id c r m t H. apply in_app_or in H. destruct H as [H|[H|[]]].
      + specialize (Hs _ _ _ _ _ H). lia.
      + injection H as <- _ _ _ _. lia.
    - unfold iter. destruct (top k (q s)) as [[op rest]|]; cbn [fst].
      + destruct (e_due op =? 0); cbn [fst hist next]; [exact Hs|].
        destruct (e_due op <=? now); cbn [fst hist next]; intros id c r m t H; apply in_app_or in H;
          (destruct H as [H|[H|[]]]; [exact (Hs _ _ _ _ _ H)|discriminate]).
      + cbn [hist next]. intros id c r m t H. apply in_app_or in H.
        destruct H as [H|[H|[]]]; [exact (Hs _ _ _ _ _ H)|discriminate].
    - unfold clear; cbn [hist next]. intros id c r m t H. apply in_app_or in H.
      destruct H as [H|[H|[]]]; [exact (Hs _ _ _ _ _ H)|discriminate]. }
  intros id cb rep ms t. apply G. cbn. intros ? ? ? ? ? [].
Qed.

Lemma c31_clear_direct2_lemma : forall res ops1 now ops2,
  let s1 := run res ops1 init in
  let s2 := run res ops2 (clear now s1) in
  exists h', hist s2 = hist s1 ++ [HClear now (length (q s1))] ++ h' /\
    forall id cb rep ms t0, In (HSched id cb rep ms t0) (hist s1) ->
    forall cb' t r, ~ In (HFire id cb' t r) h'.
Proof.
  intros res ops1 now ops2 s1 s2.
  destruct (c31_clear_direct_lemma res ops1 now ops2) as [h' [H1 H2]]. fold s1 s2 in H1, H2.
  exists h'. split.
  - rewrite H1. cbn [clear hist]. rewrite <- app_assoc. reflexivity.
  - intros id cb rep ms t0 Hs cb' t r Hf.
    pose proof (sched_ids_lemma res ops1 _ _ _ _ _ Hs) as A. fold s1 in A.
    pose proof (H2 _ _ _ _ Hf). lia.
Qed.

(* two events due in the same wake-up: the callback of the first takes 5 ms of clock time, the
   second (repeating, 10 ms) therefore runs at t + 5 ms and is re-armed from THAT reading of the
   clock: it runs again at t + 15 ms, not at t + 10 ms *)
Definition nv_slow_dur (cb : Z) : Z := if cb =? 0 then 5000000 else 0.
Lemma c31_nonvacuous_slow_lemma :
  match run_script (fun _ _ => true) nv_slow_dur 4 0 [0; 1]
          [SSched false 10; SSched true 10; SAdv 10000000; SAdv 5000000; SAdv 4999999; SAdv 1] with
  | (s, now, _, fin) =>
      fin = true /\ now = 25000000 /\
      filter (fun h => match h with HFire _ _ _ _ => true | _ => false end) (hist s) =
        [HFire 0 0 10000000 true; HFire 1 1 15000000 true; HFire 1 1 25000000 true]
  end.
Proof. vm_compute. repeat split; reflexivity. Qed.
