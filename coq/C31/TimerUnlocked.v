(* A VARIANT of the timer loop that does NOT hold _spin_lock across the callback:
       pop;  guard.release();  result = callback();
       if (result && repeat) { op._t = now + interval; guard.acquire(_spin_lock); push(op); }
   The pass over a due event then consists of TWO atomic steps (pop + callback / push-back) and
   other threads' schedule() and clear() steps can fall between them; while the callback runs the
   event exists only in the timer thread's local copy [held].  This is NOT the code of
   include/fix8/timer.hpp; it is here to show what the lock is for: with it the clear clause of
   property C31 fails (c31_clear_unlocked_refuted below), whereas for the real loop, whose pass is
   one atomic step, it is proved for all executions (C31/TimerProofs.v). *)
From Coq Require Import ZArith List Bool.
From F8 Require Import C31.Spec_C31 C31.Timer.
Import ListNotations.
Local Open Scope Z_scope.

Record ustate := { base : state; held : option (ev * Z * bool) }.
Definition uinit : ustate := {| base := init; held := None |}.

Definition uiter (res : Z -> nat -> bool) (k : nat) (now : Z) (u : ustate) : ustate :=
  let s := base u in
  match held u with
  | Some (op, t, r) =>                         (* second half: re-acquire the lock, push back *)
      let q' := if r && e_rep op
                then q s ++ [{| e_id := e_id op; e_cb := e_cb op; e_due := t + e_ival op * MILLION;
                                e_ival := e_ival op; e_rep := e_rep op |}]
                else q s in
      {| base := {| q := q'; hist := hist s; next := next s |}; held := None |}
  | None =>
      match top k (q s) with
      | None => {| base := {| q := q s; hist := hist s ++ [HQuiet now]; next := next s |}; held := None |}
      | Some (op, rest) =>
          if e_due op =? 0 then {| base := {| q := rest; hist := hist s; next := next s |}; held := None |}
          else if e_due op <=? now then       (* first half: pop, release the lock, run the callback *)
            let r := res (e_cb op) (runs_of (e_cb op) (hist s)) in
            {| base := {| q := rest; hist := hist s ++ [HFire (e_id op) (e_cb op) now r]; next := next s |};
               held := Some (op, now, r) |}
          else {| base := {| q := q s; hist := hist s ++ [HQuiet now]; next := next s |}; held := None |}
      end
  end.

Definition ustep (res : Z -> nat -> bool) (u : ustate) (o : Z * op) : ustate :=
  match o with
  | (now, OSched cb rep ms) => {| base := schedule now cb rep ms (base u); held := held u |}
  | (now, OIter k) => uiter res k now u
  | (now, OClear) => {| base := clear now (base u); held := held u |}
  end.

Definition urun (res : Z -> nat -> bool) (ops : list (Z * op)) (u : ustate) : ustate :=
  fold_left (ustep res) ops u.

(* a repeating event (5 ms, callback always true) is scheduled; its callback is running when
   another thread calls clear(), which finds an empty queue and returns 0; the event is pushed
   back afterwards and runs again 5 ms later although it was pending when clear() was called *)
Lemma c31_clear_unlocked_refuted_lemma :
  exists res ops,
    forallb op_wf ops = true /\
    hist (base (urun res ops uinit)) =
      [HSched 0 7 true 5 0; HFire 0 7 5000000 true; HClear 5000000 0; HFire 0 7 10000000 true] /\
    ok_clr (verd (c31_mon (hist (base (urun res ops uinit))))) = false.
Proof.
  exists (fun _ _ => true),
         [(0, OSched 7 true 5); (5000000, OIter O); (5000000, OClear); (5000000, OIter O); (10000000, OIter O)].
  vm_compute. repeat split; reflexivity.
Qed.
