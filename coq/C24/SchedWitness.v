(* Concrete runs of the schedule model: counterexamples to the weekly clause and non-vacuity (C24). *)
From Coq Require Import ZArith List Bool Lia.
From F8 Require Import C24.Sched C24.Spec_C24 C24.SchedProofs.
Import ListNotations.
Local Open Scope Z_scope.

(* ================================================================== witnesses *)
Fixpoint poll (t0 step : Z) (n : nat) : list Z :=
  match n with O => [] | S k => t0 :: poll (t0 + step) step k end.

Definition hms_ns (h m s : Z) : Z := ((h * 60 + m) * 60 + s) * 1000000000.
(* Sunday 2020-09-13 00:00:00 UTC *)
Definition sunday : Z := 1599955200 * 1000000000.
Definition at_ (d h m s : Z) : Z := sunday + d * ns_day + hms_ns h m s.

(* a run that meets every hypothesis of the weekly theorem but the named one and fails the
   oracle *)
Definition refutes (c : sched) (prev0 : bool) (ts : list Z) : Prop :=
  cfg_ok (s_sd c) (s_ed c) (s_start c) (Some (s_end c)) = true /\
  ranges_okb c = true /\ instants_okb c ts = true /\ gaps_ok ts = true /\
  exists bits, run_o c prev0 ts = Some bits /\
    c24_ok_run (s_utc c) (s_sd c) (s_ed c) (s_start c) (Some (s_end c)) ts (Some bits) = false.

Ltac vc := vm_compute; reflexivity.
Ltac refutes_tac :=
  unfold refutes; split; [vc | split; [vc | split; [vc | split; [vc | eexists; split; vc]]]].

Definition mon_fri : sched := mkSched (hms_ns 9 0 0) (hms_ns 17 0 0) 0 0 1 5.

(* 1: start day = end day (Monday 09:00-17:00): never activates *)
Definition w_sameday_c : sched := mkSched (hms_ns 9 0 0) (hms_ns 17 0 0) 0 0 1 1.
Definition w_sameday_ts : list Z := poll (at_ 1 8 59 0) ns_minute 3.
Lemma refuted_sameday :
  refutes w_sameday_c false w_sameday_ts /\ start_consistent w_sameday_c false w_sameday_ts = true /\
  run_o w_sameday_c false w_sameday_ts = Some [false; false; false].
Proof. split; [refutes_tac | split; vc]. Qed.

(* 2: wrapping week Friday 09:00 -> Monday 17:00, polled every minute from Monday 16:59
   (inside the window, flag on): still active on Tuesday at noon (it closes Tuesday 17:00, a day late) *)
Definition w_wrap_c : sched := mkSched (hms_ns 9 0 0) (hms_ns 17 0 0) 0 0 5 1.
Definition w_wrap_ts : list Z := poll (at_ 8 16 59 0) ns_minute (Z.to_nat 1200).
Lemma refuted_wrapping :
  refutes w_wrap_c true w_wrap_ts /\ start_consistent w_wrap_c true w_wrap_ts = true /\
  exists bits i, run_o w_wrap_c true w_wrap_ts = Some bits /\
    nth_error w_wrap_ts i = Some (at_ 9 12 0 0) /\ nth_error bits i = Some true /\
    active 5 1 (hms_ns 9 0 0) (Some (hms_ns 17 0 0)) (at_ 9 12 0 0) = false.
Proof.
  split; [refutes_tac | split; [vc|]].
  eexists. exists (Z.to_nat 1141). split; [vc | split; [vc | split; vc]].
Qed.

(* 3: first check inside the window (Tuesday 20:00 of Monday-Friday) with the flag off:
   stays inactive (activation needs a time of day within [start,end]) *)
Definition w_inside_ts : list Z := poll (at_ 2 20 0 0) ns_minute 3.
Lemma refuted_start_inside :
  refutes mon_fri false w_inside_ts /\ start_consistent mon_fri false w_inside_ts = false /\
  run_o mon_fri false w_inside_ts = Some [false; false; false].
Proof. split; [refutes_tac | split; vc]. Qed.

(* 4: the flag a Session starts with (_active = true) outside the window (Sunday noon):
   stays active until the window closes on Friday *)
Definition w_initial_ts : list Z := poll (at_ 0 12 0 0) ns_minute 3.
Lemma refuted_initial_active :
  refutes mon_fri true w_initial_ts /\ start_consistent mon_fri true w_initial_ts = false /\
  run_o mon_fri true w_initial_ts = Some [true; true; true].
Proof. split; [refutes_tac | split; vc]. Qed.

(* 5: [start,end] shorter than the polling gap (Monday 09:00:00 -> Wednesday 09:00:30) *)
Definition w_short_c : sched := mkSched (hms_ns 9 0 0) (hms_ns 9 0 30) 0 0 1 3.
Definition w_short_ts : list Z := poll (at_ 1 8 59 45) ns_minute 3.
Lemma refuted_short_window :
  refutes w_short_c false w_short_ts /\ start_consistent w_short_c false w_short_ts = true /\
  weekly_hyp 1 3 (hms_ns 9 0 0) (hms_ns 9 0 30) = false /\
  run_o w_short_c false w_short_ts = Some [false; false; false].
Proof. split; [refutes_tac | split; [vc | split; vc]]. Qed.

(* 6: end within the last minute of the day (Monday 09:00 -> Tuesday 23:59:30): no check falls
   between the end and midnight, the next day is past the end day but not past the end time *)
Definition w_late_c : sched := mkSched (hms_ns 9 0 0) (hms_ns 23 59 30) 0 0 1 2.
Definition w_late_ts : list Z := poll (at_ 2 23 59 15) ns_minute 3.
Lemma refuted_late_end :
  refutes w_late_c true w_late_ts /\ start_consistent w_late_c true w_late_ts = true /\
  weekly_hyp 1 2 (hms_ns 9 0 0) (hms_ns 23 59 30) = false /\
  run_o w_late_c true w_late_ts = Some [true; true; true].
Proof. split; [refutes_tac | split; [vc | split; vc]]. Qed.

(* ================================================================== non-vacuity *)
(* Monday-Friday 09:00-17:00 at UTC+60 min, polled every minute for eight days from a Sunday
   midnight: every hypothesis of the weekly theorem holds, and the flag is on for 6241 polls *)
Definition nv_c : sched := mkSched (hms_ns 9 0 0) (hms_ns 17 0 0) 0 60 1 5.
Definition nv_ts : list Z := poll sunday ns_minute (Z.to_nat 11520).
Lemma nonvacuous_weekly :
  ranges_okb nv_c = true /\ weekly_hyp 1 5 (hms_ns 9 0 0) (hms_ns 17 0 0) = true /\
  instants_okb nv_c nv_ts = true /\ gaps_ok nv_ts = true /\ start_consistent nv_c false nv_ts = true /\
  exists bits, run_o nv_c false nv_ts = Some bits /\
    Z.of_nat (length (filter (fun b => b) bits)) = 6241 /\ Z.of_nat (length bits) = 11520.
Proof. split; [vc | split; [vc | split; [vc | split; [vc | split; [vc |]]]]]. eexists. split; [vc | split; vc]. Qed.


(* ================================================================== configured at midnight *)
(* start_time="00:00:00" end_time="23:59:59": a well-formed element whose start is 0 ticks; it
   denotes, and create_schedule builds, the all-day schedule, which is active when polled *)
Definition midnight_x : xattrs :=
  mkX (Some [48; 48; 58; 48; 48; 58; 48; 48]) (Some [50; 51; 58; 53; 57; 58; 53; 57]) None None None None.
(* start_day="mo" end_day="fr" 00:00:00 .. 18:00:00 *)
Definition midnight_week_x : xattrs :=
  mkX (Some [48; 48; 58; 48; 48; 58; 48; 48]) (Some [49; 56; 58; 48; 48; 58; 48; 48]) None None
      (Some [109; 111]) (Some [102; 114]).
Lemma midnight_nonvacuous :
  denote (x_start midnight_x) (x_end midnight_x) (x_utc midnight_x) (x_dur midnight_x) (x_sd midnight_x)
         (x_ed midnight_x) = D_sched 0 (Some (hms_ns 23 59 59)) 0 (-1) (-1) /\
  create_schedule midnight_x = CS_ok (mkSched 0 (hms_ns 23 59 59) 0 0 (-1) (-1)) /\
  configured_run midnight_x false (poll sunday ns_minute 3) = CR_bits [true; true; true] /\
  create_schedule midnight_week_x = CS_ok (mkSched 0 (hms_ns 18 0 0) 0 0 1 5) /\
  configured_run midnight_week_x false (poll (at_ 0 23 59 0) ns_minute 3) = CR_bits [false; true; true].
Proof. split; [vc | split; [vc | split; [vc | split; vc]]]. Qed.
