(* Property C24 "Session activation follows the configured schedule" as executable predicates on
   observables, written from the property text (it does not call the model):

     For any configured schedule and any instant checked at least once a minute, a daily schedule
     is active exactly when the local time of day is within [start, end]; a weekly schedule is
     active throughout each window from its start day at the start time to its end day at the end
     time, including schedules that begin and end on the same weekday, and inactive outside its
     windows.  Weekday names are decoded by their unique one- or two-letter prefix or digit 0-6
     and nothing else.

   Used by the theorems and, after extraction, as the oracle on the implementation's output. *)
From Coq Require Import ZArith List Bool.
Import ListNotations.
Local Open Scope Z_scope.

(* ------------------------------------------------------------------ time *)
Definition ns_minute : Z := 60000000000.
Definition ns_day : Z := 86400000000000.
Definition ns_week : Z := 604800000000000.

(* local time = UTC instant + configured offset in minutes *)
Definition local (utc_min t : Z) : Z := t + utc_min * ns_minute.
(* time of day and weekday (0 = Sunday) of a local instant; day 0 (1970-01-01) is a Thursday *)
Definition tod (x : Z) : Z := x mod ns_day.
Definition dow (x : Z) : Z := (x / ns_day + 4) mod 7.

(* [en = None]: no end configured (Tickval::in_range documents: no upper bound) *)
Definition daily_active (st : Z) (en : option Z) (x : Z) : bool :=
  (st <=? tod x) && (match en with Some e => tod x <=? e | None => true end).

(* position in the week, Sunday 00:00 = 0 *)
Definition week_pos (x : Z) : Z := dow x * ns_day + tod x.

(* window opens at start day, start time; closes at end day, end time; a closing point that is
   not after the opening point belongs to the following week.  A position is inside when it,
   or the same position seen from the previous week's window, lies between the two points. *)
Definition weekly_active (sd ed st : Z) (en : option Z) (x : Z) : bool :=
  let o := sd * ns_day + st in
  let c0 := ed * ns_day + (match en with Some e => e | None => ns_day - 1 end) in
  let c := if o <=? c0 then c0 else c0 + ns_week in
  let w := week_pos x in
  ((o <=? w) && (w <=? c)) || ((o <=? w + ns_week) && (w + ns_week <=? c)).

Definition active (sd ed st : Z) (en : option Z) (x : Z) : bool :=
  if sd <? 0 then daily_active st en x else weekly_active sd ed st en x.

(* "checked at least once a minute": consecutive instants at most one minute apart, in order *)
Fixpoint gaps_ok (ts : list Z) : bool :=
  match ts with
  | a :: ((b :: _) as r) => (a <=? b) && (b - a <=? ns_minute) && gaps_ok r
  | _ => true
  end.

(* a configuration the property speaks about: daily (no days) or both days 0..6; start within
   the day and before the end *)
Definition cfg_ok (sd ed st : Z) (en : option Z) : bool :=
  (((sd =? -1) && (ed =? -1)) || ((0 <=? sd) && (sd <=? 6) && (0 <=? ed) && (ed <=? 6)))
  && (0 <=? st) && (st <? ns_day)
  && (match en with Some e => st <? e | None => true end).

Fixpoint all2 {A B} (f : A -> B -> bool) (l : list A) (m : list B) : bool :=
  match l, m with
  | [], [] => true
  | a :: l', b :: m' => f a b && all2 f l' m'
  | _, _ => false
  end.

(* Oracle for a polling trace: [ts] the polled instants (UTC ticks), [res] the activity flag
   returned at each of them (None: no flags at all, the run crashed).  Traces outside the
   property's quantifier (gaps over a minute, local time before 1970, ill-formed configuration)
   are not judged. *)
Definition c24_ok_run (utc sd ed st : Z) (en : option Z) (ts : list Z) (res : option (list bool)) : bool :=
  if negb (cfg_ok sd ed st en && gaps_ok ts && forallb (fun t => 0 <=? local utc t) ts) then true
  else
    match res with
    | None => false
    | Some bits => all2 (fun t b => Bool.eqb b (active sd ed st en (local utc t))) ts bits
    end.

(* ------------------------------------------------------------------ weekday names *)
Definition fold_case (b : Z) : Z := if (65 <=? b) && (b <=? 90) then b + 32 else b.

Fixpoint starts_with (p s : list Z) : bool :=
  match p, s with
  | [], _ => true
  | a :: p', b :: s' => (a =? b) && starts_with p' s'
  | _ :: _, [] => false
  end.

(* the unique prefixes: su m tu w th f sa *)
Definition dow_prefixes : list (list Z * Z) :=
  [([115; 117], 0); ([109], 1); ([116; 117], 2); ([119], 3); ([116; 104], 4); ([102], 5);
   ([115; 97], 6)].

Fixpoint lookup_prefix (tbl : list (list Z * Z)) (s : list Z) : Z :=
  match tbl with
  | [] => -1
  | (p, d) :: r => if starts_with p s then d else lookup_prefix r s
  end.

(* a single digit 0..6, or a name beginning (case-insensitively) with one of the unique
   prefixes; anything else is not a weekday (-1) *)
Definition spec_dow (s : list Z) : Z :=
  match s with
  | [d] => if (48 <=? d) && (d <=? 54) then d - 48 else lookup_prefix dow_prefixes (map fold_case s)
  | _ => lookup_prefix dow_prefixes (map fold_case s)
  end.

Definition c24_ok_dow (s : list Z) (r : Z) : bool := r =? spec_dow s.

(* ------------------------------------------------------------------ configuration *)
(* a well-formed "HH:MM:SS" (digits and colons): its value in ticks *)
Definition digit (b : Z) : bool := (48 <=? b) && (b <=? 57).
Definition hms (s : list Z) : option Z :=
  match s with
  | [h0; h1; c1; m0; m1; c2; s0; s1] =>
    if digit h0 && digit h1 && digit m0 && digit m1 && digit s0 && digit s1 && (c1 =? 58) && (c2 =? 58)
    then Some ((((h0 - 48) * 10 + (h1 - 48)) * 3600 + ((m0 - 48) * 10 + (m1 - 48)) * 60
                + ((s0 - 48) * 10 + (s1 - 48))) * 1000000000)
    else None
  | _ => None
  end.

(* observable result of building a schedule from the attributes:
   invalid (no usable start) | rejected | (start, end, utc, start_day, end_day) *)
Inductive cfg_result :=
| R_crash | R_invalid | R_rejected
| R_sched (start : Z) (en : option Z) (utc sd ed : Z).

(* The schedule a <schedule>/<login> element DENOTES, from the property and its anchors: a start
   time is required (an element without one configures no schedule); the end is the end time,
   else start + duration minutes, else open; an end not after the start is rejected;
   start_day/end_day are decoded as weekday names; an absent end_day defaults to the start day;
   no days at all means a daily schedule.  Only judged when the time attributes are well formed
   "HH:MM:SS" and the duration is a sane non-negative number. *)
Inductive denotation :=
| D_unjudged | D_invalid | D_rejected
| D_sched (start : Z) (en : option Z) (utc sd ed : Z).

Definition denote (a_start a_end : option (list Z)) (a_utc a_dur : option Z)
           (a_sd a_ed : option (list Z)) : denotation :=
  let dur := match a_dur with Some d => d | None => 0 end in
  let utc := match a_utc with Some u => u | None => 0 end in
  let want_sd := match a_sd with Some s => spec_dow s | None => -1 end in
  let want_ed := match a_ed with Some s => spec_dow s | None => want_sd end in
  if negb ((0 <=? dur) && (dur <? 100000000)) then D_unjudged else
  match a_start with
  | None => D_invalid
  | Some ss =>
    match hms ss with
    | None => D_unjudged
    | Some st =>
      match a_end with
      | None => D_sched st (if dur =? 0 then None else Some (st + dur * ns_minute)) utc want_sd want_ed
      | Some es =>
        match hms es with
        | None => D_unjudged
        | Some e => if e <=? st then D_rejected else D_sched st (Some e) utc want_sd want_ed
        end
      end
    end
  end.

Definition opt_eqb (a b : option Z) : bool :=
  match a, b with
  | Some x, Some y => x =? y
  | None, None => true
  | _, _ => false
  end.

(* oracle for a create_schedule result *)
Definition c24_ok_cfg (a_start a_end : option (list Z)) (a_utc a_dur : option Z)
           (a_sd a_ed : option (list Z)) (r : cfg_result) : bool :=
  match denote a_start a_end a_utc a_dur a_sd a_ed with
  | D_unjudged => true
  | D_invalid => match r with R_invalid => true | _ => false end
  | D_rejected => match r with R_rejected => true | _ => false end
  | D_sched st en utc sd ed =>
    match r with
    | R_sched st' en' utc' sd' ed' =>
      (st' =? st) && opt_eqb en' en && (utc' =? utc) && (sd' =? sd) && (ed' =? ed)
    | _ => false
    end
  end.

(* observable result of configuring a schedule from the attributes and then polling it *)
Inductive cfgrun_result :=
| W_crash | W_invalid | W_rejected | W_bits (bits : list bool).

(* oracle for the configured path: the polled activity is that of the denoted schedule *)
Definition c24_ok_cfgrun (a_start a_end : option (list Z)) (a_utc a_dur : option Z)
           (a_sd a_ed : option (list Z)) (ts : list Z) (r : cfgrun_result) : bool :=
  match denote a_start a_end a_utc a_dur a_sd a_ed with
  | D_unjudged => true
  | D_invalid => match r with W_invalid => true | _ => false end
  | D_rejected => match r with W_rejected => true | _ => false end
  | D_sched st en utc sd ed =>
    match r with
    | W_bits bits => c24_ok_run utc sd ed st en ts (Some bits)
    | W_crash => c24_ok_run utc sd ed st en ts None
    | _ => false
    end
  end.
