(* Model of the session schedule machinery of fix8:
     - FIX8::decode_dow                      runtime/f8utils.cpp
     - time_parse(ptr, 8, timeonly=true)     include/fix8/field.hpp   (as used by get_time_field)
     - Configuration::create_schedule        runtime/configuration.cpp
     - Schedule::Schedule / Schedule::test   include/fix8/session.hpp
     - Tickval::in_range / get_tm            include/fix8/tickval.hpp
   Transcribed statement by statement, defects included; no proofs in this file.
   Times are nanosecond ticks (int64_t in the code, Z here); signed 64-bit overflow of a tick
   addition is undefined behaviour in the code and the distinguished value [None] here.
   Characters are bytes 0..255 held in Z. *)
From Coq Require Import ZArith List Bool.
Import ListNotations.
Local Open Scope Z_scope.

(* ---------------------------------------------------------------- Tickval constants *)
Definition billion : Z := 1000000000.
Definition second : Z := billion.
Definition minute : Z := 60 * second.
Definition hour : Z := 60 * minute.
Definition day : Z := 24 * hour.
Definition week : Z := 7 * day.
Definition W63 : Z := 9223372036854775808.          (* 2^63 *)
Definition W64 : Z := 18446744073709551616.         (* 2^64 *)
Definition W32 : Z := 4294967296.                   (* 2^32 *)
Definition errorticks : Z := W63 - 1.               (* f8_time_point::max() in ns *)

Definition fits64 (x : Z) : bool := (- W63 <=? x) && (x <? W63).
(* signed 64-bit addition: overflow is UB (trapped by UBSan in the harness) *)
Definition add64 (a b : Z) : option Z := if fits64 (a + b) then Some (a + b) else None.
(* conversion of an unsigned 64-bit pattern to int64_t *)
Definition s64 (x : Z) : Z := (x + W63) mod W64 - W63.

(* ---------------------------------------------------------------- decode_dow *)
(* (int)(char)b, char is signed *)
Definition schar (b : Z) : Z := if b <? 128 then b else b - 256.

(* InPlaceStrToLower: if (isupper(c)) c = tolower(c)   ("C" locale) *)
Definition lower (b : Z) : Z := if (65 <=? b) && (b <=? 90) then b + 32 else b.

(* static const Day days[] { {'s',0}, {'m',1}, {'t',2}, {'w',3}, {'t',4}, {'f',5}, {'s',6} };
   daymap is a multimap built from it: equal keys keep their insertion order.
   [daymap_range c] is the list of values in daymap.equal_range(c). *)
Definition days : list (Z * Z) :=
  [(115, 0); (109, 1); (116, 2); (119, 3); (116, 4); (102, 5); (115, 6)].
Definition daymap_range (c : Z) : list Z :=
  map snd (filter (fun kv => fst kv =? c) days).

(* day_names[d][1]: "su" "mo" "tu" "we" "th" "fr" "sa" *)
Definition day_name_1 (d : Z) : Z :=
  nth (Z.to_nat d) [117; 111; 117; 101; 104; 114; 97] 0.

Definition decode_dow (from : list Z) : Z :=
  match from with
  | [] => -1                                               (* if (from.empty()) return -1; *)
  | _ =>
    let source := map lower from in
    let c0 := nth 0 source 0 in
    let size := Z.of_nat (length source) in
    (* isdigit(source[0]) && source.size() == 1 && source[0] >= '0' && source[0] <= '6' *)
    if (48 <=? c0) && (c0 <=? 57) && (size =? 1) && (48 <=? c0) && (c0 <=? 54)
    then c0 - 48
    else
      match daymap_range c0 with
      | [] => -1                                           (* case 0 *)
      | [d] => d                                           (* case 1 *)
      | d1 :: d2 :: _ =>                                   (* default *)
        if size =? 1 then -1
        else
          let c1 := nth 1 source 0 in
          if day_name_1 d1 =? c1 then d1                   (* result.first->second, not advanced *)
          else if day_name_1 d2 =? c1 then d2              (* (++result.first)->second *)
          else -1
      end
  end.

(* ---------------------------------------------------------------- time_parse, timeonly *)
(* parse_decimal(ptr, 2, to) with to == 0 on entry:  to = to * 10 + (next char - '0'), twice
   (int arithmetic; no validation: any character is taken, the value may be negative). *)
Definition parse2 (c0 c1 : Z) : Z := (0 * 10 + (schar c0 - 48)) * 10 + (schar c1 - 48).

(* get_time_field(which, tag, true): attribute present and of size 8 ? time_parse(.., 8, true)
   : errorticks.  The characters at positions 2 and 5 are skipped without a look.
   result += (tm_hour * 3600ULL + tm_min * 60ULL + tm_sec) * Tickval::billion   (unsigned wrap) *)
Definition get_time_field (a : option (list Z)) : Z :=
  match a with
  | Some [h0; h1; _; m0; m1; _; s0; s1] =>
    let h := parse2 h0 h1 in let m := parse2 m0 m1 in let s := parse2 s0 s1 in
    s64 (((h * 3600 + m * 60 + s) mod W64 * billion) mod W64)
  | _ => errorticks
  end.

(* ---------------------------------------------------------------- create_schedule *)
(* attributes of the <schedule>/<login> element; utc_offset_mins and duration as the integers
   std::stoi delivers (the text-to-int conversion itself is not modelled) *)
Record xattrs := mkX {
  x_start : option (list Z); x_end : option (list Z);
  x_utc : option Z; x_dur : option Z;
  x_sd : option (list Z); x_ed : option (list Z) }.

Record sched := mkSched {
  s_start : Z; s_end : Z; s_duration : Z; s_utc : Z; s_sd : Z; s_ed : Z }.

Inductive cs_result :=
| CS_ub                      (* undefined behaviour on the way *)
| CS_invalid                 (* return {}  : is_valid() == false *)
| CS_error                   (* throw ConfigurationError *)
| CS_ok (s : sched).

Definition create_schedule (x : xattrs) : cs_result :=
  let start := get_time_field (x_start x) in
    if start =? errorticks then CS_invalid             (* if (!start.is_errorval()) ... else return {} *)
    else
      let utc_offset := match x_utc x with Some v => v | None => 0 end in
      (* const unsigned duration(which->FindAttr("duration", 0)): int converted to unsigned *)
      let duration := (match x_dur x with Some v => v | None => 0 end) mod W32 in
      let end0 := get_time_field (x_end x) in
        let sd := match x_sd x with Some s => decode_dow s | None => -1 end in
        let ed := match x_ed x with Some s => decode_dow s
                                 | None => if sd <? 0 then -1 else sd end in
        if end0 =? errorticks then
          if negb (duration =? 0) then
            (* end = start.get_ticks() + duration * Tickval::minute  (signed arithmetic) *)
            if fits64 (duration * minute) then
              match add64 start (duration * minute) with
              | Some e => CS_ok (mkSched start e duration utc_offset sd ed)
              | None => CS_ub
              end
            else CS_ub
          else CS_ok (mkSched start end0 duration utc_offset sd ed)
        else if end0 <=? start then CS_error
        else CS_ok (mkSched start end0 duration utc_offset sd ed).

(* ---------------------------------------------------------------- Schedule::test *)
(* _toffset(static_cast<Tickval::ticks>(_utc_offset) * Tickval::minute) *)
Definition toffset (c : sched) : Z := s_utc c * minute.

(* Tickval::in_range: !b.is_errorval() ? a <= *this && *this <= b : a <= *this *)
Definition in_range (x a b : Z) : bool :=
  if negb (b =? errorticks) then (a <=? x) && (x <=? b) else a <=? x.

(* now.get_tm().tm_wday: to_time_t truncates the ticks to seconds (towards zero), gmtime_r
   gives the weekday of the day number floor(secs / 86400); 1970-01-01 was a Thursday (4) *)
Definition wday_of (ticks : Z) : Z := (Z.quot ticks billion / 86400 + 4) mod 7.

(* now.in_range(today + _start, today + _end): both sums are evaluated *)
Definition in_range_o (now today st en : Z) : option bool :=
  match add64 today st, add64 today en with
  | Some a, Some b => Some (in_range now a b)
  | _, _ => None
  end.

(* the day condition of the activation branch *)
Definition day_on (sd ed wd : Z) : bool :=
  ((sd >? ed) && ((wd >=? sd) || (wd <=? ed))) || ((sd <? ed) && (wd >=? sd) && (wd <=? ed)).
(* the day condition of the deactivation branch *)
Definition day_off (sd ed wd : Z) : bool :=
  ((sd >? ed) && ((wd <? sd) && (wd >? ed))) || ((sd <? ed) && (wd >=? ed)).

(* bool Schedule::test(bool prev) const, with the instant the clock returns as a parameter *)
Definition test_o (c : sched) (prev : bool) (clock : Z) : option bool :=
  if negb (fits64 (toffset c)) then None else
  match add64 clock (toffset c) with                    (* now.adjust(_toffset) *)
  | None => None
  | Some now =>
    let today := now - Z.rem now day in                 (* now - now % day: C++ remainder *)
    if s_sd c <? 0 then                                 (* daily only *)
      match in_range_o now today (s_start c) (s_end c) with
      | None => None
      | Some r =>
        Some (if r then (if negb prev then true else prev)
              else if prev then false else prev)
      end
    else
      let wd := wday_of now in
      if negb prev then
        if day_on (s_sd c) (s_ed c) wd then
          match in_range_o now today (s_start c) (s_end c) with
          | None => None
          | Some r => Some (if r then true else prev)
          end
        else Some prev
      else
        if day_off (s_sd c) (s_ed c) wd then
          match add64 today (s_end c) with              (* now > today + _end *)
          | None => None
          | Some e => Some (if now >? e then false else prev)
          end
        else Some prev
  end.

(* Session::activation_service: _active = _schedule->_sch.test(_active) at every instant of
   the polling sequence [ts]; None as soon as one call has undefined behaviour *)
Fixpoint run_o (c : sched) (prev : bool) (ts : list Z) : option (list bool) :=
  match ts with
  | [] => Some []
  | t :: r =>
    match test_o c prev t with
    | None => None
    | Some b =>
      match run_o c b r with
      | None => None
      | Some l => Some (b :: l)
      end
    end
  end.

(* ---------------------------------------------------------------- observation *)
(* what the harness prints of a create_schedule result, as (start, end or none, utc, days);
   not part of the transcription: used to apply the oracle to the model's own result *)
Definition observe_end (e : Z) : option Z := if e =? errorticks then None else Some e.

(* ---------------------------------------------------------------- the configured path *)
(* create_session_schedule / create_login_schedule build the Schedule with create_schedule;
   Session::activation_service then polls it.  An invalid schedule is never polled here. *)
Inductive cr_result := CR_ub | CR_invalid | CR_error | CR_bits (l : list bool).

Definition configured_run (x : xattrs) (prev : bool) (ts : list Z) : cr_result :=
  match create_schedule x with
  | CS_ub => CR_ub
  | CS_invalid => CR_invalid
  | CS_error => CR_error
  | CS_ok c => match run_o c prev ts with None => CR_ub | Some l => CR_bits l end
  end.
