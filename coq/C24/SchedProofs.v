(* Proofs about the schedule model (C24). *)
From Coq Require Import ZArith List Bool Lia.
From F8 Require Import C24.Sched C24.Spec_C24.
Import ListNotations.
Local Open Scope Z_scope.

(* ================================================================== decode_dow *)

Lemma lower_fold : forall b, lower b = fold_case b.
Proof. reflexivity. Qed.

Lemma map_lower_fold : forall s, map lower s = map fold_case s.
Proof. reflexivity. Qed.

Lemma daymap_range_cases : forall x,
  (x = 115 /\ daymap_range x = [0; 6]) \/ (x = 109 /\ daymap_range x = [1]) \/
  (x = 116 /\ daymap_range x = [2; 4]) \/ (x = 119 /\ daymap_range x = [3]) \/
  (x = 102 /\ daymap_range x = [5]) \/
  (x <> 115 /\ x <> 109 /\ x <> 116 /\ x <> 119 /\ x <> 102 /\ daymap_range x = []).
Proof.
  intro x.
  destruct (Z.eq_dec x 115) as [->|n1]; [left; split; reflexivity|].
  destruct (Z.eq_dec x 109) as [->|n2]; [right; left; split; reflexivity|].
  destruct (Z.eq_dec x 116) as [->|n3]; [right; right; left; split; reflexivity|].
  destruct (Z.eq_dec x 119) as [->|n4]; [right; right; right; left; split; reflexivity|].
  destruct (Z.eq_dec x 102) as [->|n5]; [right; right; right; right; left; split; reflexivity|].
  right; right; right; right; right. repeat split; try assumption.
  unfold daymap_range, days. cbn [filter fst snd map].
  rewrite (proj2 (Z.eqb_neq 115 x)) by congruence.
  rewrite (proj2 (Z.eqb_neq 109 x)) by congruence.
  rewrite (proj2 (Z.eqb_neq 116 x)) by congruence.
  rewrite (proj2 (Z.eqb_neq 119 x)) by congruence.
  rewrite (proj2 (Z.eqb_neq 102 x)) by congruence.
  reflexivity.
Qed.

Lemma fold_case_digit : forall a, (48 <=? fold_case a) && (fold_case a <=? 54) = (48 <=? a) && (a <=? 54).
Proof.
  intro a. unfold fold_case.
  destruct ((65 <=? a) && (a <=? 90)) eqn:E.
  - apply andb_true_iff in E. destruct E as [E1 E2]. apply Z.leb_le in E1, E2.
    assert ((a + 32 <=? 54) = false) by (apply Z.leb_gt; lia).
    assert ((a <=? 54) = false) by (apply Z.leb_gt; lia).
    rewrite H, H0. rewrite !andb_false_r. reflexivity.
  - reflexivity.
Qed.

Lemma fold_case_digit_id : forall a, (48 <=? a) && (a <=? 54) = true -> fold_case a = a.
Proof.
  intros a H. apply andb_true_iff in H. destruct H as [H1 H2]. apply Z.leb_le in H1, H2.
  unfold fold_case. assert ((65 <=? a) = false) by (apply Z.leb_gt; lia). rewrite H. reflexivity.
Qed.

Ltac kill_eqb :=
  repeat match goal with
  | |- context [?a =? ?b] => destruct (Z.eqb_spec a b); try lia; try subst
  end.

Lemma decode_dow_spec : forall s, decode_dow s = spec_dow s.
Proof.
  intro s. destruct s as [|a t]; [reflexivity|].
  unfold decode_dow, spec_dow.
  rewrite !map_lower_fold. cbn [map nth length].
  set (x := fold_case a).
  destruct t as [|b u].
  - (* one character *)
    cbn [map length Z.of_nat Pos.of_succ_nat]. change (1 =? 1) with true.
    assert (D : (48 <=? x) && (x <=? 57) && true && (48 <=? x) && (x <=? 54) = (48 <=? a) && (a <=? 54)).
    { rewrite <- fold_case_digit. fold x. destruct (48 <=? x) eqn:E1; destruct (x <=? 57) eqn:E2;
      destruct (x <=? 54) eqn:E3; try reflexivity.
      apply Z.leb_le in E3. apply Z.leb_gt in E2. lia. }
    rewrite D. destruct ((48 <=? a) && (a <=? 54)) eqn:E.
    + unfold x. rewrite fold_case_digit_id by assumption. reflexivity.
    + assert (Hx : ~ (48 <= x <= 54)).
      { rewrite <- fold_case_digit in E. fold x in E. intro K.
        destruct K as [K1 K2]. apply Z.leb_le in K1, K2. rewrite K1, K2 in E. discriminate. }
      destruct (daymap_range_cases x) as [[-> ->]|[[-> ->]|[[-> ->]|[[-> ->]|[[-> ->]|(n1&n2&n3&n4&n5&->)]]]]];
        try reflexivity.
      clearbody x. unfold lookup_prefix, dow_prefixes, starts_with. kill_eqb; reflexivity.
  - (* two or more characters *)
    cbn [map length nth]. set (y := fold_case b).
    assert (S1 : (Z.of_nat (S (S (length (map fold_case u)))) =? 1) = false) by (apply Z.eqb_neq; lia).
    rewrite S1. rewrite !andb_false_r. cbn [andb].
    destruct (daymap_range_cases x) as [[-> ->]|[[-> ->]|[[-> ->]|[[-> ->]|[[-> ->]|(n1&n2&n3&n4&n5&->)]]]]].
    + change (day_name_1 0) with 117. change (day_name_1 6) with 97. clearbody y.
      unfold lookup_prefix, dow_prefixes, starts_with. change (115 =? 115) with true.
      change (109 =? 115) with false. change (116 =? 115) with false. change (119 =? 115) with false.
      change (102 =? 115) with false. cbn [andb].
      kill_eqb; reflexivity.
    + reflexivity.
    + change (day_name_1 2) with 117. change (day_name_1 4) with 104. clearbody y.
      unfold lookup_prefix, dow_prefixes, starts_with. change (116 =? 116) with true.
      change (115 =? 116) with false. change (109 =? 116) with false. cbn [andb].
      kill_eqb; reflexivity.
    + reflexivity.
    + reflexivity.
    + clearbody x y. unfold lookup_prefix, dow_prefixes, starts_with. kill_eqb; reflexivity.
Qed.

Lemma decode_dow_range : forall s, -1 <= decode_dow s <= 6.
Proof.
  intro s. rewrite decode_dow_spec. unfold spec_dow.
  assert (L : forall l, -1 <= lookup_prefix dow_prefixes l <= 6).
  { intro l. unfold lookup_prefix, dow_prefixes.
    repeat match goal with |- context [if ?c then _ else _] => destruct c end; lia. }
  destruct s as [|d [|e u]]; try apply L.
  destruct ((48 <=? d) && (d <=? 54)) eqn:E; [|apply L].
  apply andb_true_iff in E. destruct E as [E1 E2]. apply Z.leb_le in E1, E2. lia.
Qed.

(* everything after the distinguishing prefix is ignored: longer names, trailing garbage *)
Lemma decode_dow_prefix : forall p d t, In (p, d) dow_prefixes -> decode_dow (p ++ t) = d.
Proof.
  intros p d t H. rewrite decode_dow_spec.
  unfold dow_prefixes in H. cbn [In] in H.
  repeat (destruct H as [H|H]; [injection H as <- <-; destruct t as [|x [|y u]]; reflexivity|]).
  contradiction.
Qed.

(* ================================================================== constants *)
Lemma day_val : day = ns_day. Proof. reflexivity. Qed.
Lemma minute_val : minute = ns_minute. Proof. reflexivity. Qed.
Lemma week_val : week = ns_week. Proof. reflexivity. Qed.

Definition T62 : Z := 4611686018427387904.   (* 2^62 *)

Lemma toffset_local : forall c t, t + toffset c = local (s_utc c) t.
Proof. intros. unfold toffset, local. rewrite minute_val. reflexivity. Qed.

Lemma wday_of_dow : forall x, 0 <= x -> wday_of x = dow x.
Proof.
  intros x H. unfold wday_of, dow. rewrite Z.quot_div_nonneg by (unfold billion; lia).
  rewrite Z.div_div by (unfold billion; lia). reflexivity.
Qed.

Lemma rem_tod : forall x, 0 <= x -> Z.rem x day = tod x.
Proof. intros x H. unfold tod. rewrite day_val. apply Z.rem_mod_nonneg; unfold ns_day; lia. Qed.

Lemma tod_range : forall x, 0 <= tod x < ns_day.
Proof. intro x. unfold tod. apply Z.mod_pos_bound. unfold ns_day. lia. Qed.

Lemma dow_range : forall x, 0 <= dow x <= 6.
Proof. intro x. unfold dow. pose proof (Z.mod_pos_bound (x / ns_day + 4) 7). lia. Qed.

(* position in the week: x + 4 days = k weeks + week_pos x *)
Lemma week_pos_eq : forall x, exists k, x + 4 * ns_day = k * ns_week + week_pos x.
Proof.
  intro x. unfold week_pos, dow, tod.
  pose proof (Z.div_mod x ns_day ltac:(unfold ns_day; lia)) as E1.
  pose proof (Z.div_mod (x / ns_day + 4) 7 ltac:(lia)) as E2.
  exists ((x / ns_day + 4) / 7).
  set (q := x / ns_day) in *. set (r := x mod ns_day) in *.
  set (k := (q + 4) / 7) in *. set (wd := (q + 4) mod 7) in *.
  unfold ns_week, ns_day in *. lia.
Qed.

(* ================================================================== pure form of test *)
(* the value of Schedule::test in terms of local weekday and time of day *)
Definition test_w (sd ed st en : Z) (prev : bool) (wd td : Z) : bool :=
  if prev then negb (day_off sd ed wd && (td >? en))
  else day_on sd ed wd && ((st <=? td) && (td <=? en)).

Definition ranges_ok (c : sched) : Prop :=
  fits64 (toffset c) = true /\ - T62 <= s_start c < T62 /\ - T62 <= s_end c < T62.

Definition instant_ok (c : sched) (t : Z) : Prop := 0 <= local (s_utc c) t < T62.

Lemma add64_ok : forall a b, - W63 <= a + b < W63 -> add64 a b = Some (a + b).
Proof.
  intros a b H. unfold add64, fits64.
  destruct H as [H1 H2]. apply Z.leb_le in H1. apply Z.ltb_lt in H2. rewrite H1, H2. reflexivity.
Qed.

Lemma in_range_pure : forall c x, ranges_ok c -> 0 <= x < T62 ->
  in_range_o x (x - tod x) (s_start c) (s_end c)
  = Some ((s_start c <=? tod x) && (tod x <=? s_end c)).
Proof.
  intros c x (Hf & Hs & He) Hx. pose proof (tod_range x) as Ht.
  unfold in_range_o, T62, ns_day in *.
  rewrite !add64_ok by (unfold W63; lia).
  unfold in_range.
  assert (N : (x - tod x + s_end c =? errorticks) = false)
    by (apply Z.eqb_neq; unfold errorticks, W63; lia).
  rewrite N. cbn [negb]. f_equal. f_equal.
  - destruct (Z.leb_spec (x - tod x + s_start c) x); destruct (Z.leb_spec (s_start c) (tod x)); try reflexivity; lia.
  - destruct (Z.leb_spec x (x - tod x + s_end c)); destruct (Z.leb_spec (tod x) (s_end c)); try reflexivity; lia.
Qed.

Lemma test_o_daily : forall c prev t, ranges_ok c -> instant_ok c t -> s_sd c < 0 ->
  test_o c prev t = Some (daily_active (s_start c) (Some (s_end c)) (local (s_utc c) t)).
Proof.
  intros c prev t R I D. pose proof R as (Hf & Hs & He). unfold instant_ok in I.
  unfold test_o. rewrite Hf. cbn [negb].
  rewrite add64_ok by (rewrite toffset_local; unfold T62, W63 in *; lia).
  rewrite toffset_local. set (x := local (s_utc c) t) in *.
  rewrite rem_tod by lia.
  assert (Dn : (s_sd c <? 0) = true) by (apply Z.ltb_lt; assumption). rewrite Dn.
  rewrite in_range_pure by assumption.
  unfold daily_active. destruct ((s_start c <=? tod x) && (tod x <=? s_end c)); destruct prev; reflexivity.
Qed.

Lemma test_o_weekly : forall c prev t, ranges_ok c -> instant_ok c t -> 0 <= s_sd c ->
  test_o c prev t =
  Some (test_w (s_sd c) (s_ed c) (s_start c) (s_end c) prev
               (dow (local (s_utc c) t)) (tod (local (s_utc c) t))).
Proof.
  intros c prev t R I D. pose proof R as (Hf & Hs & He). unfold instant_ok in I.
  unfold test_o. rewrite Hf. cbn [negb].
  rewrite add64_ok by (rewrite toffset_local; unfold T62, W63 in *; lia).
  rewrite toffset_local. set (x := local (s_utc c) t) in *.
  rewrite rem_tod by lia. rewrite wday_of_dow by lia.
  assert (Dn : (s_sd c <? 0) = false) by (apply Z.ltb_ge; assumption). rewrite Dn.
  unfold test_w. destruct prev; cbn [negb].
  - destruct (day_off (s_sd c) (s_ed c) (dow x)); [|reflexivity].
    pose proof (tod_range x) as Ht.
    rewrite add64_ok by (unfold T62, W63, ns_day in *; lia).
    cbn [andb]. f_equal.
    destruct (Z.gtb_spec x (x - tod x + s_end c)); destruct (Z.gtb_spec (tod x) (s_end c)); try reflexivity; lia.
  - destruct (day_on (s_sd c) (s_ed c) (dow x)); [|reflexivity].
    rewrite in_range_pure by assumption. cbn [andb].
    destruct ((s_start c <=? tod x) && (tod x <=? s_end c)); reflexivity.
Qed.

(* ================================================================== weekly, start day < end day *)
(* the hypotheses of the partial theorem as a boolean on the configuration *)
Definition weekly_hyp (sd ed st en : Z) : bool :=
  (0 <=? sd) && (sd <? ed) && (ed <=? 6) && (0 <=? st) && (st + ns_minute <=? en)
  && (en + ns_minute <? ns_day).

Lemma weekly_hyp_prop : forall sd ed st en, weekly_hyp sd ed st en = true ->
  0 <= sd /\ sd < ed /\ ed <= 6 /\ 0 <= st /\ st + ns_minute <= en /\ en + ns_minute < ns_day.
Proof.
  intros sd ed st en H. unfold weekly_hyp in H.
  repeat (apply andb_true_iff in H; destruct H as [H ?]).
  repeat match goal with
  | H : (_ <=? _) = true |- _ => apply Z.leb_le in H
  | H : (_ <? _) = true |- _ => apply Z.ltb_lt in H
  end. lia.
Qed.

Ltac b2p :=
  repeat first
    [ rewrite andb_true_iff | rewrite orb_true_iff | rewrite negb_true_iff
    | rewrite andb_false_iff | rewrite orb_false_iff | rewrite negb_false_iff
    | rewrite Z.leb_le | rewrite Z.ltb_lt | rewrite Z.gtb_lt | rewrite Z.geb_le
    | rewrite Z.leb_gt | rewrite Z.ltb_ge | rewrite Z.eqb_eq | rewrite Z.eqb_neq
    | rewrite Z.gtb_ltb | rewrite Z.geb_leb ].

Ltac b2p_in H :=
  repeat first
    [ rewrite andb_true_iff in H | rewrite orb_true_iff in H | rewrite negb_true_iff in H
    | rewrite andb_false_iff in H | rewrite orb_false_iff in H | rewrite negb_false_iff in H
    | rewrite Z.leb_le in H | rewrite Z.ltb_lt in H
    | rewrite Z.leb_gt in H | rewrite Z.ltb_ge in H | rewrite Z.eqb_eq in H | rewrite Z.eqb_neq in H
    | rewrite Z.gtb_ltb in H | rewrite Z.geb_leb in H ].

Lemma weekly_active_simple : forall sd ed st en x, weekly_hyp sd ed st en = true ->
  weekly_active sd ed st (Some en) x
  = (sd * ns_day + st <=? week_pos x) && (week_pos x <=? ed * ns_day + en).
Proof.
  intros sd ed st en x H. apply weekly_hyp_prop in H.
  pose proof (tod_range x). pose proof (dow_range x).
  unfold weekly_active.
  assert (W0 : 0 <= week_pos x) by (unfold week_pos, ns_day in *; lia).
  assert (E1 : (sd * ns_day + st <=? ed * ns_day + en) = true) by (apply Z.leb_le; unfold ns_day, ns_minute in *; lia).
  rewrite E1.
  assert (E2 : (week_pos x + ns_week <=? ed * ns_day + en) = false)
    by (apply Z.leb_gt; unfold ns_week, ns_day, ns_minute in *; lia).
  rewrite E2. rewrite andb_false_r, orb_false_r. reflexivity.
Qed.

Lemma weekly_step : forall sd ed st en x x', weekly_hyp sd ed st en = true ->
  0 <= x -> x <= x' <= x + ns_minute ->
  test_w sd ed st en (weekly_active sd ed st (Some en) x) (dow x') (tod x')
  = weekly_active sd ed st (Some en) x'.
Proof.
  intros sd ed st en x x' H Hx Hxx.
  rewrite !weekly_active_simple by assumption.
  apply weekly_hyp_prop in H. destruct H as (H1 & H2 & H3 & H4 & H5 & H6).
  destruct (week_pos_eq x) as [k K]. destruct (week_pos_eq x') as [k' K'].
  pose proof (tod_range x) as T. pose proof (dow_range x) as D.
  pose proof (tod_range x') as T'. pose proof (dow_range x') as D'.
  assert (W : week_pos x = dow x * ns_day + tod x) by reflexivity.
  assert (W' : week_pos x' = dow x' * ns_day + tod x') by reflexivity.
  set (w := week_pos x) in *. set (w' := week_pos x') in *.
  set (wd := dow x) in *. set (td := tod x) in *. set (wd' := dow x') in *. set (td' := tod x') in *.
  clearbody w w' wd td wd' td'.
  unfold test_w, day_on, day_off.
  assert (G : (sd >? ed) = false) by (rewrite Z.gtb_ltb; apply Z.ltb_ge; lia).
  assert (L : (sd <? ed) = true) by (apply Z.ltb_lt; lia).
  rewrite G, L. cbn [andb orb].
  unfold ns_week, ns_day, ns_minute in *.
  apply Bool.eq_iff_eq_true.
  destruct ((sd * 86400000000000 + st <=? w) && (w <=? ed * 86400000000000 + en)) eqn:A.
  - b2p_in A. b2p. lia.
  - b2p_in A. b2p. lia.
Qed.

(* ================================================================== runs *)
Definition ranges_okb (c : sched) : bool :=
  fits64 (toffset c) && (- T62 <=? s_start c) && (s_start c <? T62)
  && (- T62 <=? s_end c) && (s_end c <? T62).

Definition instants_okb (c : sched) (ts : list Z) : bool :=
  forallb (fun t => (0 <=? local (s_utc c) t) && (local (s_utc c) t <? T62)) ts.

Lemma ranges_okb_prop : forall c, ranges_okb c = true -> ranges_ok c.
Proof.
  intros c H. unfold ranges_okb in H. repeat (apply andb_true_iff in H; destruct H as [H ?]).
  unfold ranges_ok.
  repeat match goal with
  | H : (_ <=? _) = true |- _ => apply Z.leb_le in H
  | H : (_ <? _) = true |- _ => apply Z.ltb_lt in H
  end.
  repeat split; try assumption.
  unfold fits64. apply andb_true_iff. split; [apply Z.leb_le | apply Z.ltb_lt]; assumption.
Qed.

Lemma instants_okb_cons : forall c t ts, instants_okb c (t :: ts) = true ->
  instant_ok c t /\ instants_okb c ts = true.
Proof.
  intros c t ts H. unfold instants_okb in H. cbn [forallb] in H.
  apply andb_true_iff in H. destruct H as [H1 H2]. apply andb_true_iff in H1. destruct H1 as [A B].
  apply Z.leb_le in A. apply Z.ltb_lt in B. split; [split; assumption | exact H2].
Qed.

Lemma all2_map_refl : forall (f : Z -> bool) ts,
  all2 (fun t b => Bool.eqb b (f t)) ts (map f ts) = true.
Proof.
  intros f ts. induction ts as [|t r IH]; [reflexivity|].
  cbn [map all2]. rewrite Bool.eqb_reflx. exact IH.
Qed.

Lemma ok_run_of_exact : forall utc sd ed st en ts,
  c24_ok_run utc sd ed st en ts (Some (map (fun t => active sd ed st en (local utc t)) ts)) = true.
Proof.
  intros. unfold c24_ok_run.
  destruct (negb _); [reflexivity|].
  apply (all2_map_refl (fun t => active sd ed st en (local utc t))).
Qed.

(* ---------------- daily *)
Lemma run_o_daily : forall c ts prev, ranges_okb c = true -> instants_okb c ts = true -> s_sd c < 0 ->
  run_o c prev ts
  = Some (map (fun t => active (s_sd c) (s_ed c) (s_start c) (Some (s_end c)) (local (s_utc c) t)) ts).
Proof.
  intros c ts. induction ts as [|t r IH]; intros prev R I D; [reflexivity|].
  apply instants_okb_cons in I. destruct I as [I1 I2].
  cbn [run_o map]. rewrite test_o_daily by (try apply ranges_okb_prop; assumption).
  rewrite IH by assumption. unfold active at 2.
  assert (Dn : (s_sd c <? 0) = true) by (apply Z.ltb_lt; assumption). rewrite Dn. reflexivity.
Qed.

(* ---------------- weekly *)
Lemma gaps_ok_cons : forall a b r, gaps_ok (a :: b :: r) = true ->
  a <= b <= a + ns_minute /\ gaps_ok (b :: r) = true.
Proof.
  intros a b r H. cbn [gaps_ok] in H. apply andb_true_iff in H. destruct H as [H1 H2].
  apply andb_true_iff in H1. destruct H1 as [A B]. apply Z.leb_le in A, B. split; [lia|exact H2].
Qed.

Lemma active_weekly : forall sd ed st en x, 0 <= sd ->
  active sd ed st en x = weekly_active sd ed st en x.
Proof.
  intros. unfold active. assert (E : (sd <? 0) = false) by (apply Z.ltb_ge; assumption).
  rewrite E. reflexivity.
Qed.

(* invariant: the flag fed into a poll is the window membership at the previous instant *)
Lemma run_o_weekly_from : forall c ts t prev,
  ranges_okb c = true -> weekly_hyp (s_sd c) (s_ed c) (s_start c) (s_end c) = true ->
  instant_ok c t -> instants_okb c ts = true -> gaps_ok (t :: ts) = true ->
  prev = weekly_active (s_sd c) (s_ed c) (s_start c) (Some (s_end c)) (local (s_utc c) t) ->
  run_o c prev ts
  = Some (map (fun u => active (s_sd c) (s_ed c) (s_start c) (Some (s_end c)) (local (s_utc c) u)) ts).
Proof.
  intros c ts. induction ts as [|t' r IH]; intros t prev R H It I G P; [reflexivity|].
  apply instants_okb_cons in I. destruct I as [I1 I2].
  apply gaps_ok_cons in G. destruct G as [G1 G2].
  pose proof (weekly_hyp_prop _ _ _ _ H) as (S0 & _).
  cbn [run_o map].
  rewrite test_o_weekly by (try apply ranges_okb_prop; assumption).
  rewrite P.
  rewrite weekly_step; try assumption.
  - rewrite (IH t' _ R H I1 I2 G2 eq_refl). rewrite active_weekly by assumption. reflexivity.
  - unfold instant_ok in It. lia.
  - unfold local. lia.
Qed.

Lemma run_o_weekly : forall c t0 ts prev0,
  ranges_okb c = true -> weekly_hyp (s_sd c) (s_ed c) (s_start c) (s_end c) = true ->
  instants_okb c (t0 :: ts) = true -> gaps_ok (t0 :: ts) = true ->
  prev0 = active (s_sd c) (s_ed c) (s_start c) (Some (s_end c)) (local (s_utc c) t0) ->
  run_o c prev0 (t0 :: ts)
  = Some (map (fun u => active (s_sd c) (s_ed c) (s_start c) (Some (s_end c)) (local (s_utc c) u)) (t0 :: ts)).
Proof.
  intros c t0 ts prev0 R H I G P.
  pose proof (weekly_hyp_prop _ _ _ _ H) as (S0 & _).
  rewrite active_weekly in P by assumption.
  pose proof (instants_okb_cons _ _ _ I) as [I1 _].
  apply (run_o_weekly_from c (t0 :: ts) t0 prev0); try assumption.
  cbn [gaps_ok]. rewrite Z.leb_refl. rewrite Z.sub_diag. cbn [andb].
  change (0 <=? ns_minute) with true. cbn [andb]. exact G.
Qed.

(* ================================================================== no end configured *)
(* a schedule without end_time and duration keeps errorticks as its end; on every day after
   1970-01-01 "today + _end" overflows: undefined behaviour instead of "no upper bound" *)
Lemma open_end_ub : forall c prev t,
  fits64 (toffset c) = true -> instant_ok c t -> s_sd c < 0 -> s_end c = errorticks ->
  ns_day <= local (s_utc c) t ->
  test_o c prev t = None.
Proof.
  intros c prev t Hf I D E L. unfold instant_ok in I.
  unfold test_o. rewrite Hf. cbn [negb].
  rewrite add64_ok by (rewrite toffset_local; unfold T62, W63 in *; lia).
  rewrite toffset_local. set (x := local (s_utc c) t) in *.
  rewrite rem_tod by lia.
  assert (Dn : (s_sd c <? 0) = true) by (apply Z.ltb_lt; assumption). rewrite Dn.
  unfold in_range_o.
  assert (N : add64 (x - tod x) (s_end c) = None).
  { unfold add64, fits64. rewrite E.
    assert (ns_day <= x - tod x).
    { unfold tod. pose proof (Z.div_mod x ns_day ltac:(unfold ns_day; lia)).
      assert (1 <= x / ns_day) by (apply Z.div_le_lower_bound; unfold ns_day in *; lia).
      unfold ns_day in *. lia. }
    assert (F : (x - tod x + errorticks <? W63) = false)
      by (apply Z.ltb_ge; unfold errorticks, W63, ns_day in *; lia).
    rewrite F. rewrite andb_false_r. reflexivity. }
  rewrite N. destruct (add64 (x - tod x) (s_start c)); reflexivity.
Qed.


(* ================================================================== statements for the Props file *)
Definition start_consistent (c : sched) (prev0 : bool) (ts : list Z) : bool :=
  match ts with
  | [] => true
  | t0 :: _ => Bool.eqb prev0 (active (s_sd c) (s_ed c) (s_start c) (Some (s_end c)) (local (s_utc c) t0))
  end.


Lemma daily_exact_b : forall c prev t,
  ranges_okb c = true -> instants_okb c [t] = true -> s_sd c < 0 ->
  test_o c prev t = Some (daily_active (s_start c) (Some (s_end c)) (local (s_utc c) t)).
Proof.
  intros c prev t R I D. apply instants_okb_cons in I. destruct I as [I _].
  apply test_o_daily; [apply ranges_okb_prop; exact R | exact I | exact D].
Qed.

Lemma daily_run_ok : forall c prev ts,
  ranges_okb c = true -> instants_okb c ts = true -> s_sd c < 0 ->
  c24_ok_run (s_utc c) (s_sd c) (s_ed c) (s_start c) (Some (s_end c)) ts (run_o c prev ts) = true.
Proof.
  intros c prev ts R I D. rewrite (run_o_daily c ts prev R I D). apply ok_run_of_exact.
Qed.

Lemma weekly_run_ok : forall c t0 ts prev0,
  ranges_okb c = true ->
  weekly_hyp (s_sd c) (s_ed c) (s_start c) (s_end c) = true ->
  instants_okb c (t0 :: ts) = true -> gaps_ok (t0 :: ts) = true ->
  start_consistent c prev0 (t0 :: ts) = true ->
  c24_ok_run (s_utc c) (s_sd c) (s_ed c) (s_start c) (Some (s_end c)) (t0 :: ts)
             (run_o c prev0 (t0 :: ts)) = true.
Proof.
  intros c t0 ts prev0 R H I G S. unfold start_consistent in S. apply Bool.eqb_prop in S.
  rewrite (run_o_weekly c t0 ts prev0 R H I G S). apply ok_run_of_exact.
Qed.

Lemma open_end_b : forall c prev t,
  fits64 (toffset c) = true -> instants_okb c [t] = true -> s_sd c < 0 -> s_end c = errorticks ->
  ns_day <= local (s_utc c) t ->
  test_o c prev t = None.
Proof.
  intros c prev t F I. apply instants_okb_cons in I. destruct I as [I _]. apply open_end_ub; assumption.
Qed.
