(* Configuration::create_schedule against the configuration oracle (C24). *)
From Coq Require Import ZArith List Bool Lia.
From F8 Require Import C24.Sched C24.Spec_C24 C24.SchedProofs.
Import ListNotations.
Local Open Scope Z_scope.

(* ================================================================== configuration *)
Definition observe (r : cs_result) : cfg_result :=
  match r with
  | CS_ub => R_crash
  | CS_invalid => R_invalid
  | CS_error => R_rejected
  | CS_ok s => R_sched (s_start s) (observe_end (s_end s)) (s_utc s) (s_sd s) (s_ed s)
  end.

Lemma digit_prop : forall b, digit b = true -> 48 <= b <= 57.
Proof.
  intros b H. unfold digit in H. apply andb_true_iff in H. destruct H as [A B].
  apply Z.leb_le in A, B. lia.
Qed.

Lemma parse2_digits : forall a b, 48 <= a <= 57 -> 48 <= b <= 57 ->
  parse2 a b = Some ((a - 48) * 10 + (b - 48)).
Proof.
  intros a b Ha Hb. unfold parse2, schar.
  assert (A : (a <? 128) = true) by (apply Z.ltb_lt; lia).
  assert (B : (b <? 128) = true) by (apply Z.ltb_lt; lia).
  rewrite A, B.
  assert (C : (a - 48 <? 0) = false) by (apply Z.ltb_ge; lia). rewrite C. reflexivity.
Qed.

Lemma hms_time : forall s v, hms s = Some v ->
  get_time_field (Some s) = TP_val v /\ 0 <= v < 400000 * billion.
Proof.
  intros s v H.
  destruct s as [|h0 [|h1 [|c1 [|m0 [|m1 [|c2 [|s0 [|s1 [|z r]]]]]]]]]; try discriminate H.
  unfold hms in H.
  destruct (digit h0 && digit h1 && digit m0 && digit m1 && digit s0 && digit s1 && (c1 =? 58) && (c2 =? 58)) eqn:E;
    [|discriminate H].
  repeat (apply andb_true_iff in E; destruct E as [E ?]).
  repeat match goal with H : digit _ = true |- _ => apply digit_prop in H end.
  injection H as <-.
  assert (Hh0 : 48 <= h0 <= 57) by (apply Z.leb_le in E; apply Z.leb_le in H7; lia).
  unfold get_time_field. rewrite !parse2_digits by assumption.
  set (X := ((h0 - 48) * 10 + (h1 - 48)) * 3600 + ((m0 - 48) * 10 + (m1 - 48)) * 60 + ((s0 - 48) * 10 + (s1 - 48))).
  assert (HX : 0 <= X < 400000) by (unfold X; lia).
  unfold s64, W64, W63, billion.
  rewrite (Z.mod_small X) by lia.
  rewrite (Z.mod_small (X * 1000000000)) by lia.
  rewrite (Z.mod_small (X * 1000000000 + 9223372036854775808)) by lia.
  split; [f_equal; lia | lia].
Qed.

Lemma create_schedule_ok : forall x,
  c24_ok_cfg (x_start x) (x_end x) (x_utc x) (x_dur x) (x_sd x) (x_ed x) (observe (create_schedule x)) = true.
Proof.
  intro x. unfold c24_ok_cfg.
  set (dur := match x_dur x with Some d => d | None => 0 end).
  set (utc := match x_utc x with Some u => u | None => 0 end).
  destruct ((0 <=? dur) && (dur <? 100000000)) eqn:Hd; cbn [negb]; [|reflexivity].
  apply andb_true_iff in Hd. destruct Hd as [D1 D2]. apply Z.leb_le in D1. apply Z.ltb_lt in D2.
  assert (SD : (match x_sd x with Some s => decode_dow s | None => -1 end)
               = (match x_sd x with Some s => spec_dow s | None => -1 end))
    by (destruct (x_sd x); [apply decode_dow_spec | reflexivity]).
  set (wsd := match x_sd x with Some s => spec_dow s | None => -1 end) in *.
  assert (Rsd : -1 <= wsd <= 6).
  { rewrite <- SD. destruct (x_sd x); [apply decode_dow_range | lia]. }
  assert (ED : (match x_ed x with Some s => decode_dow s | None => if wsd <? 0 then -1 else wsd end)
               = (match x_ed x with Some s => spec_dow s | None => wsd end)).
  { destruct (x_ed x); [apply decode_dow_spec|]. destruct (Z.ltb_spec wsd 0); lia. }
  unfold create_schedule. fold dur. fold utc. rewrite SD. rewrite ED.
  set (wed := match x_ed x with Some s => spec_dow s | None => wsd end).
  assert (DM : dur mod W32 = dur) by (apply Z.mod_small; unfold W32; lia). rewrite DM.
  destruct (x_start x) as [ss|].
  2:{ reflexivity. }
  destruct (hms ss) as [st|] eqn:Hs; [|reflexivity].
  apply hms_time in Hs. destruct Hs as [Gs Rs]. rewrite Gs.
  assert (NE : (st =? errorticks) = false)
    by (apply Z.eqb_neq; unfold errorticks, W63, billion in *; lia).
  rewrite NE.
  destruct (x_end x) as [es|].
  - destruct (hms es) as [e|] eqn:He; [|reflexivity].
    apply hms_time in He. destruct He as [Ge Re]. rewrite Ge.
    assert (NE2 : (e =? errorticks) = false)
      by (apply Z.eqb_neq; unfold errorticks, W63, billion in *; lia).
    rewrite NE2.
    destruct (Z.leb_spec e st) as [L|L].
    + reflexivity.
    + cbn [observe s_start s_end s_utc s_sd s_ed]. unfold observe_end. rewrite NE2.
      rewrite !Z.eqb_refl. cbn [andb].
      apply Z.ltb_lt in L. rewrite L. reflexivity.
  - change (get_time_field None) with (TP_val errorticks). cbv iota beta. rewrite Z.eqb_refl.
    destruct (Z.eqb_spec dur 0) as [Z0|NZ]; cbn [negb].
    + cbn [observe s_start s_end s_utc s_sd s_ed]. unfold observe_end. rewrite Z.eqb_refl.
      rewrite !Z.eqb_refl. reflexivity.
    + assert (F : fits64 (dur * minute) = true).
      { unfold fits64, minute, second, billion, W63.
        apply andb_true_iff. split; [apply Z.leb_le | apply Z.ltb_lt]; lia. }
      rewrite F.
      rewrite add64_ok by (unfold minute, second, billion, W63 in *; lia).
      cbn [observe s_start s_end s_utc s_sd s_ed]. unfold observe_end.
      assert (NE3 : (st + dur * minute =? errorticks) = false)
        by (apply Z.eqb_neq; unfold errorticks, minute, second, billion, W63 in *; lia).
      rewrite NE3. rewrite !Z.eqb_refl. cbn [andb].
      reflexivity.
Qed.
