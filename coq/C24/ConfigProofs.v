(* Configuration::create_schedule against the configuration oracle (C24). *)
From Coq Require Import ZArith List Bool Lia.
From F8 Require Import C24.Sched C24.Spec_C24 C24.SchedProofs.
Import ListNotations.
Local Open Scope Z_scope.

(* ================================================================== configuration *)
Definition observe (r : cs_result) : cfg_result :=
  match r with
  | CS_ub => R_crash
  | CS_invalid => R_invalid
  | CS_error => R_rejected
  | CS_ok s => R_sched (s_start s) (observe_end (s_end s)) (s_utc s) (s_sd s) (s_ed s)
  end.

Lemma digit_prop : forall b, digit b = true -> 48 <= b <= 57.
Proof.
  intros b H. unfold digit in H. apply andb_true_iff in H. destruct H as [A B].
  apply Z.leb_le in A, B. lia.
Qed.

Lemma parse2_digits : forall a b, 48 <= a <= 57 -> 48 <= b <= 57 ->
  parse2 a b = (a - 48) * 10 + (b - 48).
Proof.
  intros a b Ha Hb. unfold parse2, schar.
  assert (A : (a <? 128) = true) by (apply Z.ltb_lt; lia).
  assert (B : (b <? 128) = true) by (apply Z.ltb_lt; lia).
  rewrite A, B. lia.
Qed.

Lemma hms_time : forall s v, hms s = Some v ->
  get_time_field (Some s) = v /\ 0 <= v < 400000 * billion.
Proof.
  intros s v H.
  destruct s as [|h0 [|h1 [|c1 [|m0 [|m1 [|c2 [|s0 [|s1 [|z r]]]]]]]]]; try discriminate H.
  unfold hms in H.
  destruct (digit h0 && digit h1 && digit m0 && digit m1 && digit s0 && digit s1 && (c1 =? 58) && (c2 =? 58)) eqn:E;
    [|discriminate H].
  apply andb_true_iff in E. destruct E as [E C2]. apply andb_true_iff in E. destruct E as [E C1].
  apply andb_true_iff in E. destruct E as [E D6]. apply andb_true_iff in E. destruct E as [E D5].
  apply andb_true_iff in E. destruct E as [E D4]. apply andb_true_iff in E. destruct E as [E D3].
  apply andb_true_iff in E. destruct E as [D1 D2].
  apply digit_prop in D1, D2, D3, D4, D5, D6.
  injection H as <-.
  unfold get_time_field. rewrite !parse2_digits by assumption.
  set (X := ((h0 - 48) * 10 + (h1 - 48)) * 3600 + ((m0 - 48) * 10 + (m1 - 48)) * 60 + ((s0 - 48) * 10 + (s1 - 48))).
  assert (HX : 0 <= X < 400000) by (unfold X; lia).
  unfold s64, W64, W63, billion.
  rewrite (Z.mod_small X) by lia.
  rewrite (Z.mod_small (X * 1000000000)) by lia.
  rewrite (Z.mod_small (X * 1000000000 + 9223372036854775808)) by lia.
  split; lia.
Qed.

Definition denotes (d : denotation) (r : cfg_result) : Prop :=
  match d with
  | D_unjudged => True
  | D_invalid => r = R_invalid
  | D_rejected => r = R_rejected
  | D_sched st en utc sd ed => r = R_sched st en utc sd ed
  end.

(* whenever the attributes are well formed the configured schedule is the denoted one *)
Lemma create_schedule_denotes : forall x,
  denotes (denote (x_start x) (x_end x) (x_utc x) (x_dur x) (x_sd x) (x_ed x)) (observe (create_schedule x)).
Proof.
  intro x. unfold denote.
  set (dur := match x_dur x with Some d => d | None => 0 end).
  set (utc := match x_utc x with Some u => u | None => 0 end).
  destruct ((0 <=? dur) && (dur <? 100000000)) eqn:Hd; cbn [negb]; [|exact I].
  apply andb_true_iff in Hd. destruct Hd as [D1 D2]. apply Z.leb_le in D1. apply Z.ltb_lt in D2.
  assert (SD : (match x_sd x with Some s => decode_dow s | None => -1 end)
               = (match x_sd x with Some s => spec_dow s | None => -1 end))
    by (destruct (x_sd x); [apply decode_dow_spec | reflexivity]).
  set (wsd := match x_sd x with Some s => spec_dow s | None => -1 end) in *.
  assert (Rsd : -1 <= wsd <= 6).
  { rewrite <- SD. destruct (x_sd x); [apply decode_dow_range | lia]. }
  assert (ED : (match x_ed x with Some s => decode_dow s | None => if wsd <? 0 then -1 else wsd end)
               = (match x_ed x with Some s => spec_dow s | None => wsd end)).
  { destruct (x_ed x); [apply decode_dow_spec|]. destruct (Z.ltb_spec wsd 0); lia. }
  unfold create_schedule. fold dur. fold utc. rewrite SD. rewrite ED.
  set (wed := match x_ed x with Some s => spec_dow s | None => wsd end).
  assert (DM : dur mod W32 = dur) by (apply Z.mod_small; unfold W32; lia). rewrite DM.
  destruct (x_start x) as [ss|].
  2:{ reflexivity. }
  destruct (hms ss) as [st|] eqn:Hs; [|exact I].
  apply hms_time in Hs. destruct Hs as [Gs Rs]. rewrite Gs.
  assert (NE : (st =? errorticks) = false)
    by (apply Z.eqb_neq; unfold errorticks, W63, billion in *; lia).
  cbv zeta. rewrite NE.
  destruct (x_end x) as [es|].
  - destruct (hms es) as [e|] eqn:He; [|exact I].
    apply hms_time in He. destruct He as [Ge Re]. rewrite Ge.
    assert (NE2 : (e =? errorticks) = false)
      by (apply Z.eqb_neq; unfold errorticks, W63, billion in *; lia).
    rewrite NE2.
    destruct (Z.leb_spec e st) as [L|L].
    + reflexivity.
    + cbn [denotes observe s_start s_end s_utc s_sd s_ed]. unfold observe_end. rewrite NE2. reflexivity.
  - change (get_time_field None) with errorticks. rewrite Z.eqb_refl.
    destruct (Z.eqb_spec dur 0) as [Z0|NZ]; cbn [negb].
    + cbn [denotes observe s_start s_end s_utc s_sd s_ed]. unfold observe_end. rewrite Z.eqb_refl. reflexivity.
    + assert (F : fits64 (dur * minute) = true).
      { unfold fits64, minute, second, billion, W63.
        apply andb_true_iff. split; [apply Z.leb_le | apply Z.ltb_lt]; lia. }
      rewrite F.
      rewrite add64_ok by (unfold minute, second, billion, W63 in *; lia).
      cbn [denotes observe s_start s_end s_utc s_sd s_ed]. unfold observe_end.
      assert (NE3 : (st + dur * minute =? errorticks) = false)
        by (apply Z.eqb_neq; unfold errorticks, minute, second, billion, W63 in *; lia).
      rewrite NE3. rewrite minute_val. reflexivity.
Qed.

Lemma opt_eqb_refl : forall o, opt_eqb o o = true.
Proof. destruct o; [apply Z.eqb_refl | reflexivity]. Qed.

Lemma create_schedule_ok : forall x,
  c24_ok_cfg (x_start x) (x_end x) (x_utc x) (x_dur x) (x_sd x) (x_ed x) (observe (create_schedule x)) = true.
Proof.
  intro x. pose proof (create_schedule_denotes x) as H. unfold c24_ok_cfg.
  destruct (denote (x_start x) (x_end x) (x_utc x) (x_dur x) (x_sd x) (x_ed x)); cbn [denotes] in H.
  - reflexivity.
  - rewrite H. reflexivity.
  - rewrite H. reflexivity.
  - rewrite H. rewrite !Z.eqb_refl, opt_eqb_refl. reflexivity.
Qed.

(* ================================================================== configured and polled *)
Definition observe_run (r : cr_result) : cfgrun_result :=
  match r with
  | CR_ub => W_crash
  | CR_invalid => W_invalid
  | CR_error => W_rejected
  | CR_bits l => W_bits l
  end.

(* a daily schedule configured from well-formed attributes, polled at arbitrary instants with any
   initial flag, passes the oracle of the configured path *)
Lemma configured_daily_ok : forall x prev ts st e utc sd ed,
  denote (x_start x) (x_end x) (x_utc x) (x_dur x) (x_sd x) (x_ed x) = D_sched st (Some e) utc sd ed ->
  sd < 0 -> e < T62 -> fits64 (utc * minute) = true ->
  forallb (fun t => (0 <=? local utc t) && (local utc t <? T62)) ts = true ->
  c24_ok_cfgrun (x_start x) (x_end x) (x_utc x) (x_dur x) (x_sd x) (x_ed x) ts
                (observe_run (configured_run x prev ts)) = true.
Proof.
  intros x prev ts st e utc sd ed D Hsd He Hf Hi.
  pose proof (create_schedule_denotes x) as H. rewrite D in H. cbn [denotes] in H.
  unfold c24_ok_cfgrun. rewrite D. unfold configured_run.
  destruct (create_schedule x) as [| | |c]; try discriminate H.
  cbn [observe] in H. injection H as H1 H2 H3 H4 H5.
  assert (E : s_end c = e).
  { unfold observe_end in H2. destruct (s_end c =? errorticks); [discriminate H2 | injection H2 as H2; exact H2]. }
  assert (St : 0 <= st < 400000 * billion /\ st < e).
  { unfold denote in D.
    set (dur := match x_dur x with Some d => d | None => 0 end) in *.
    destruct ((0 <=? dur) && (dur <? 100000000)) eqn:Rg; cbn [negb] in D; [|discriminate D].
    apply andb_true_iff in Rg. destruct Rg as [R1 _]. apply Z.leb_le in R1.
    destruct (x_start x) as [ss|]; [|discriminate D].
    destruct (hms ss) as [st0|] eqn:Hs; [|discriminate D].
    apply hms_time in Hs. destruct Hs as [_ Rs].
    destruct (x_end x) as [es|].
    - destruct (hms es) as [e0|]; [|discriminate D].
      destruct (Z.leb_spec e0 st0); [discriminate D|]. injection D as <- <- _ _ _. lia.
    - injection D as <- De _ _ _.
      destruct (Z.eqb_spec dur 0) as [Z0|Z0]; [discriminate De|].
      injection De as <-. split; [exact Rs|]. unfold ns_minute. lia. }
  assert (R : ranges_okb c = true).
  { unfold ranges_okb, toffset. rewrite H1, H3, E. rewrite Hf. cbn [andb].
    destruct St as [[S1 S2] S3]. unfold T62, billion in *.
    repeat (apply andb_true_iff; split); try (apply Z.leb_le; lia); try (apply Z.ltb_lt; lia). }
  assert (I : instants_okb c ts = true) by (unfold instants_okb; rewrite H3; exact Hi).
  rewrite (run_o_daily c ts prev R I) by lia.
  cbn [observe_run]. rewrite H1, H3, H4, H5, E. apply ok_run_of_exact.
Qed.
