(* Basic facts about the schema model (C13/Schema.v) shared by the C13 and C14 proofs. *)
From Coq Require Import NArith PeanoNat List Bool Lia Permutation.
From F8 Require Import C13.SMap C13.SMapProofs C13.Schema.
Import ListNotations.
Local Open Scope N_scope.

(* ------------------------------------------------------------------ induction on item trees *)
Section RitemInd.
  Variable P : ritem -> Prop.
  Hypothesis Hf : forall n t r c, P (RField n t r c).
  Hypothesis Hg : forall n r c sub, Forall P sub -> P (RGroup n r c sub).
  Fixpoint ritem_ind2 (x : ritem) : P x :=
    match x with
    | RField n t r c => Hf n t r c
    | RGroup n r c sub =>
        Hg n r c sub ((fix go (l : list ritem) : Forall P l :=
                         match l with
                         | [] => Forall_nil P
                         | y :: tl => Forall_cons y (ritem_ind2 y) (go tl)
                         end) sub)
    end.
End RitemInd.

(* ------------------------------------------------------------------ numbering *)
Lemma number_from_In : forall {A : Type} (l : list A) s i x, In (i, x) (number_from s l) -> In x l /\ s <= i.
Proof.
  induction l as [|a l IH]; cbn; intros s i x H; [contradiction|].
  destruct H as [E|H].
  - inversion E; subst. split; [left; reflexivity | lia].
  - apply IH in H. destruct H. split; [right; assumption | lia].
Qed.

Lemma number_from_In_inv : forall {A : Type} (l : list A) s x, In x l -> exists i, In (i, x) (number_from s l).
Proof.
  induction l as [|a l IH]; cbn; intros s x H; [contradiction|].
  destruct H as [E|H].
  - subst. exists s. left. reflexivity.
  - destruct (IH (s + 1) x H) as [i Hi]. exists i. right. assumption.
Qed.

Lemma number_from_fst_NoDup : forall {A : Type} (l : list A) s, NoDup (map fst (number_from s l)).
Proof.
  induction l as [|a l IH]; cbn; intro s; constructor; [|apply IH].
  intro I. apply in_map_iff in I. destruct I as [[i x] [E I]]. cbn in E. subst i.
  apply number_from_In in I. lia.
Qed.

Lemma number_from_unique : forall {A : Type} (l : list A) s i x y,
  In (i, x) (number_from s l) -> In (i, y) (number_from s l) -> x = y.
Proof.
  induction l as [|a l IH]; cbn; intros s i x y H1 H2; [contradiction|].
  destruct H1 as [E1|H1], H2 as [E2|H2].
  - inversion E1; inversion E2; subst. reflexivity.
  - inversion E1; subst. apply number_from_In in H2. lia.
  - inversion E2; subst. apply number_from_In in H1. lia.
  - eapply IH; eauto.
Qed.

Lemma number_from_snd : forall {A : Type} (l : list A) s, map snd (number_from s l) = l.
Proof. induction l as [|a l IH]; cbn; intro s; [reflexivity|]. f_equal. apply IH. Qed.

Lemma number_from_length : forall {A : Type} (l : list A) s, length (number_from s l) = length l.
Proof. induction l as [|a l IH]; cbn; intro s; [reflexivity|]. f_equal. apply IH. Qed.

Lemma number_from_head : forall {A : Type} (a : A) l s, In (s, a) (number_from s (a :: l)).
Proof. intros. left. reflexivity. Qed.

(* ------------------------------------------------------------------ the list level_traits folds over *)
Lemma filter_partition_perm : forall {A : Type} (p : A -> bool) (l : list A),
  Permutation (filter p l ++ filter (fun x => negb (p x)) l) l.
Proof.
  induction l as [|a l IH]; cbn; [constructor|].
  destruct (p a); cbn.
  - constructor. exact IH.
  - apply Permutation_sym. apply Permutation_cons_app. apply Permutation_sym. exact IH.
Qed.

Definition lt_list (its : list ritem) : list (N * ritem) :=
  filter (fun p => is_group (snd p)) (number_from 1 its)
  ++ filter (fun p => negb (is_group (snd p))) (number_from 1 its).

Lemma lt_list_perm : forall its, Permutation (lt_list its) (number_from 1 its).
Proof. intro its. unfold lt_list. apply (filter_partition_perm (fun p => is_group (snd p))). Qed.

Lemma level_traits_fold : forall its,
  level_traits its = fold_left (fun m p => sm_ins [item_num (snd p)] (trait_of p) m) (lt_list its) [].
Proof. reflexivity. Qed.

Lemma trait_of_num : forall p, t_num (trait_of p) = item_num (snd p).
Proof. intros [i [n t r c|n r c sub]]; reflexivity. Qed.

Lemma trait_of_pos : forall p, t_pos (trait_of p) = fst p.
Proof. intros [i [n t r c|n r c sub]]; reflexivity. Qed.

Lemma level_traits_sorted : forall its, ssorted (sm_keys (level_traits its)).
Proof.
  intro its. rewrite level_traits_fold.
  apply (fold_ins_sorted (fun p : N * ritem => [item_num (snd p)]) trait_of). constructor.
Qed.

Lemma level_traits_In : forall its k t, In (k, t) (level_traits its) ->
  exists p, In p (number_from 1 its) /\ k = [item_num (snd p)] /\ t = trait_of p.
Proof.
  intros its k t H. rewrite level_traits_fold in H.
  apply (fold_ins_In (fun p : N * ritem => [item_num (snd p)]) trait_of) in H.
  destruct H as [[]|[p [I E]]]. inversion E; subst. exists p. split; auto.
  eapply Permutation_in; [apply lt_list_perm|]. assumption.
Qed.

Lemma level_traits_key : forall its k t, In (k, t) (level_traits its) -> k = [t_num t].
Proof.
  intros its k t H. apply level_traits_In in H. destruct H as [p [_ [E1 E2]]]. subst.
  rewrite trait_of_num. reflexivity.
Qed.

Lemma level_traits_mem : forall its x, In x its -> sm_mem [item_num x] (level_traits its) = true.
Proof.
  intros its x I. destruct (number_from_In_inv its 1 x I) as [i Hi].
  rewrite level_traits_fold.
  apply (fold_ins_mem (fun p : N * ritem => [item_num (snd p)]) trait_of (lt_list its) [] (i, x)); [constructor|].
  eapply Permutation_in; [apply Permutation_sym, lt_list_perm|]. assumption.
Qed.

Lemma nums_nodup_lt_list : forall its, NoDup (map (fun y => [item_num y]) its) ->
  NoDup (map (fun p : N * ritem => [item_num (snd p)]) (lt_list its)).
Proof.
  intros its ND.
  eapply Permutation_NoDup; [apply Permutation_sym; apply Permutation_map; apply lt_list_perm|].
  replace (map (fun p : N * ritem => [item_num (snd p)]) (number_from 1 its))
    with (map (fun y => [item_num y]) (map snd (number_from 1 its))) by (rewrite map_map; reflexivity).
  rewrite number_from_snd. assumption.
Qed.

(* with pairwise different numbers every item is found with its own trait *)
Lemma level_traits_find : forall its p, NoDup (map (fun y => [item_num y]) its) -> In p (number_from 1 its) ->
  sm_find [item_num (snd p)] (level_traits its) = Some (trait_of p).
Proof.
  intros its p ND I. rewrite level_traits_fold.
  apply (fold_ins_find (fun p : N * ritem => [item_num (snd p)]) trait_of (lt_list its) [] p).
  - constructor.
  - apply nums_nodup_lt_list. assumption.
  - intros. reflexivity.
  - eapply Permutation_in; [apply Permutation_sym, lt_list_perm|]. assumption.
Qed.

Lemma level_traits_length : forall its, NoDup (map (fun y => [item_num y]) its) ->
  length (level_traits its) = length its.
Proof.
  intros its ND. rewrite level_traits_fold.
  rewrite (fold_ins_length (fun p : N * ritem => [item_num (snd p)]) trait_of (lt_list its) []).
  - cbn. rewrite Nat.add_0_r. rewrite (Permutation_length (lt_list_perm its)). apply number_from_length.
  - constructor.
  - apply nums_nodup_lt_list. assumption.
  - intros. reflexivity.
Qed.

Lemma level_traits_nonempty : forall its, its <> [] -> level_traits its <> [].
Proof.
  intros its H. rewrite level_traits_fold. apply (fold_ins_nonempty (fun p : N * ritem => [item_num (snd p)]) trait_of).
  left. intro E. apply H. pose proof (Permutation_length (lt_list_perm its)) as L. rewrite E in L. cbn in L.
  rewrite number_from_length in L. destruct its; [reflexivity | discriminate].
Qed.

(* the own tree of a group item *)
Lemma item_sub_group : forall n r c sub, item_sub (RGroup n r c sub) = [([n], own_node sub)].
Proof. reflexivity. Qed.

(* two strictly sorted key lists with the same members are equal *)
Lemma ssorted_ext : forall l1 l2, ssorted l1 -> ssorted l2 -> (forall k, In k l1 <-> In k l2) -> l1 = l2.
Proof.
  induction l1 as [|a l1 IH]; intros l2 S1 S2 E.
  - destruct l2 as [|b l2]; [reflexivity|]. exfalso. apply (proj2 (E b)). left. reflexivity.
  - destruct l2 as [|b l2]; [exfalso; apply (proj1 (E a)); left; reflexivity|].
    inversion S1; subst. inversion S2; subst.
    assert (a = b).
    { destruct (proj1 (E a) (or_introl eq_refl)) as [X|X]; [auto|].
      destruct (proj2 (E b) (or_introl eq_refl)) as [Y|Y]; [auto|].
      pose proof (all_gt_In _ _ _ H1 Y) as L1. pose proof (all_gt_In _ _ _ H3 X) as L2.
      pose proof (lex_lt_trans _ _ _ L1 L2) as L3. rewrite lex_cmp_refl in L3. discriminate. }
    subst b. f_equal. apply IH; auto.
    intro k. split; intro I.
    + destruct (proj1 (E k) (or_intror I)) as [X|X]; [|assumption].
      subst k. exfalso. exact (all_gt_notin _ _ H1 I).
    + destruct (proj2 (E k) (or_intror I)) as [X|X]; [|assumption].
      subst k. exfalso. exact (all_gt_notin _ _ H3 I).
Qed.
