(* What the generic codec (runtime/message.cpp: MessageBase::add_field / encode / decode /
   decode_group) does with a message PROBE when it is driven by a given trait tree.  This is the
   part of the codec that depends on the generated metadata only: legality of a field in a
   level, the order of encoding (FieldTrait::_pos), the "first field of a group element has
   position 1" rule and the mandatory-field check.  It is used to predict, from the metadata the
   model says f8c generates, the outcome of round-tripping a probe through the real generated
   code -- and, applied to the specified metadata, says what the outcome has to be.
   A probe lists the populated fields of header and body in the schema's own order; field
   values do not matter here.  No proofs in this file. *)
From Coq Require Import NArith List Bool.
From F8 Require Import C13.SMap C13.Schema.
Import ListNotations.
Local Open Scope N_scope.

Inductive pnode :=
| PField (num : N)
| PGroup (num : N) (elems : list (list pnode)).

Definition pn_num (p : pnode) : N := match p with PField n => n | PGroup n _ => n end.

Definition pos_of (n : mnode) (k : N) : N :=
  match sm_find [k] (node_traits n) with Some t => t_pos t | None => 0 end.

(* building through the API: add_field throws InvalidField for a number that is not in the
   level's traits; a group needs its GroupBase (created by the generated constructors) *)
Fixpoint p_build (n : mnode) (p : pnode) : bool :=
  match p with
  | PField k => sm_mem [k] (node_traits n)
  | PGroup k elems =>
      sm_mem [k] (node_traits n)
      && match sm_find [k] (node_subs n) with
         | None => false
         | Some sn => forallb (fun e => forallb (p_build sn) e) elems
         end
  end.

Fixpoint incr (l : list N) : bool :=
  match l with
  | a :: tl => match tl with
               | b :: _ => (a <? b) && incr tl
               | [] => true
               end
  | [] => true
  end.

(* encode emits a level's fields in _pos order: the probe's own order must be increasing *)
Fixpoint p_order (n : mnode) (p : pnode) : bool :=
  match p with
  | PField _ => true
  | PGroup k elems =>
      match sm_find [k] (node_subs n) with
      | None => false
      | Some sn => forallb (fun e => incr (map (fun q => pos_of sn (pn_num q)) e)
                                     && forallb (p_order sn) e) elems
      end
  end.

Definition level_order (n : mnode) (ps : list pnode) : bool :=
  incr (map (fun q => pos_of n (pn_num q)) ps) && forallb (p_order n) ps.

(* FieldTraits::find_missing *)
Definition mandatory_ok (n : mnode) (ps : list pnode) : bool :=
  forallb (fun kv => negb (N.testbit (t_flags (snd kv)) 0)
                     || existsb (fun q => pn_num q =? t_num (snd kv)) ps) (node_traits n).

(* decode_group: the first field of every element must have position 1
   (MissingRepeatingGroupField), every element passes find_missing *)
Fixpoint p_dec (n : mnode) (p : pnode) : bool :=
  match p with
  | PField _ => true
  | PGroup k elems =>
      match sm_find [k] (node_subs n) with
      | None => false
      | Some sn => forallb (fun e => match e with
                                     | [] => false
                                     | q :: _ => pos_of sn (pn_num q) =? 1
                                     end
                                     && mandatory_ok sn e && forallb (p_dec sn) e) elems
      end
  end.

Definition level_dec (n : mnode) (ps : list pnode) : bool :=
  mandatory_ok n ps && forallb (p_dec n) ps.

Fixpoint p_nums (p : pnode) : list N :=
  match p with
  | PField k => [k]
  | PGroup k elems => k :: flat_map (fun e => flat_map p_nums e) elems
  end.

(* field classes whose value does not survive printing: Field<TZTimeOnly> and Field<TZTimestamp>
   (include/fix8/field.hpp 1554-1733) neither parse their text nor print anything ("TODO") *)
Definition lossy_of (t : tables) (k : N) : bool :=
  match sm_find [k] (tb_fields t) with
  | Some fe => (fe_cls fe =? 126) || (fe_cls fe =? 127)
  | None => false
  end.

(* outcome of: build header+body through the API, encode, compare the field order and the
   values with the probe's, decode the wire text, encode again.
   0 = round trip exact, 1 = cannot be built, 2 = encoded in another order,
   4 = a value is printed differently, 3 = the decoder rejects the message.
   `lossy` says which field numbers lose their value when printed: the specification passes
   (fun _ => false), the model of the pinned runtime passes lossy_of. *)
Definition probe_outcome (lossy : N -> bool) (h b : mnode) (ph pb : list pnode) : N :=
  if negb (forallb (p_build h) ph && forallb (p_build b) pb) then 1
  else if negb (level_order h ph && level_order b pb) then 2
  else if existsb lossy (flat_map p_nums ph ++ flat_map p_nums pb) then 4
  else if negb (level_dec h ph && level_dec b pb) then 3
  else 0.
