(* c13_meta_wf: the specified metadata of every valid schema is well-formed. *)
From Coq Require Import NArith PeanoNat List Bool Lia Permutation.
From F8 Require Import C13.SMap C13.SMapProofs C13.Schema C13.SchemaProofs C13.WfMeta.
Import ListNotations.
Local Open Scope N_scope.

(* ------------------------------------------------------------------ small facts *)
Lemma sm_sorted_ssorted : forall {V : Type} (m : list (key * V)), ssorted (sm_keys m) -> sm_sorted m = true.
Proof. intros. unfold sm_sorted. apply keys_sorted_ssorted. assumption. Qed.

Lemma nodup_N_true : forall l, NoDup l -> nodup_N l = true.
Proof.
  induction 1 as [|a l NI ND IH]; cbn; [reflexivity|]. rewrite IH, andb_true_r.
  apply negb_true_iff. destruct (existsb (N.eqb a) l) eqn:E; [|reflexivity].
  apply existsb_exists in E. destruct E as [b [I E]]. apply N.eqb_eq in E. subst. contradiction.
Qed.

Lemma NoDup_map_on : forall {A B : Type} (f : A -> B) (l : list A),
  NoDup l -> (forall a b, In a l -> In b l -> f a = f b -> a = b) -> NoDup (map f l).
Proof.
  induction 1 as [|a l NI ND IH]; cbn; intro INJ; constructor.
  - intro I. apply in_map_iff in I. destruct I as [b [E I]].
    assert (b = a) by (apply INJ; auto). subst. contradiction.
  - apply IH. intros; apply INJ; auto.
Qed.

Lemma number_from_upper : forall {A : Type} (l : list A) s i x,
  In (i, x) (number_from s l) -> i < s + N.of_nat (length l).
Proof.
  induction l as [|a l IH]; cbn [number_from length]; intros s i x H; [contradiction|].
  destruct H as [E|H].
  - inversion E; subst. lia.
  - apply IH in H. lia.
Qed.

Lemma special_bit3 : forall n r c, N.testbit (special n (mk_flags r false c)) 3 = false.
Proof.
  intros n r c. unfold special.
  destruct ((n =? 8) || (n =? 9) || (n =? 10)); [|destruct (n =? 35)];
    destruct r; destruct c; reflexivity.
Qed.

Lemma group_bit3 : forall r c, N.testbit (mk_flags r true c) 3 = true.
Proof. intros r c. destruct r; destruct c; reflexivity. Qed.

Lemma level_ok_parts : forall its, level_ok its = true ->
  its <> [] /\ NoDup (map (fun y => [item_num y]) its) /\ forallb ritems_ok its = true.
Proof.
  intros its H. unfold level_ok in H. apply andb_true_iff in H. destruct H as [H H3].
  apply andb_true_iff in H. destruct H as [H1 H2]. split; [|split].
  - intro E. subst. discriminate.
  - apply nodup_keys_NoDup. assumption.
  - assumption.
Qed.

Lemma ritems_ok_group : forall n r c sub, ritems_ok (RGroup n r c sub) = true -> level_ok sub = true.
Proof.
  intros n r c sub H. cbn in H. unfold level_ok.
  repeat (apply andb_true_iff in H; destruct H as [H ?]). rewrite H1, H0, H2. reflexivity.
Qed.

(* ------------------------------------------------------------------ the own tree of a valid level *)
Lemma wf_own_core : forall its, level_ok its = true ->
  Forall (fun x => forall n r c sub, x = RGroup n r c sub -> wf_node (own_node sub) = true) its ->
  wf_node (own_node its) = true.
Proof.
  intros its OK SUB. destruct (level_ok_parts its OK) as [NE [ND RO]].
  unfold own_node. cbn [wf_node].
  set (T := level_traits its). set (S := sm_of_list (flat_map item_sub its)).
  assert (P1 : sm_sorted T = true) by (apply sm_sorted_ssorted, level_traits_sorted).
  assert (P2 : trait_keys_ok T = true).
  { apply forallb_forall. intros [k t] I. cbn. apply level_traits_key in I. subst. apply key_eqb_refl. }
  assert (P3 : nodup_N (map (fun kv => t_pos (snd kv)) T) = true).
  { apply nodup_N_true. apply NoDup_map_on.
    - apply (NoDup_map_inv fst). apply ssorted_NoDup. apply level_traits_sorted.
    - intros [k1 t1] [k2 t2] I1 I2 E. cbn in E.
      apply level_traits_In in I1. apply level_traits_In in I2.
      destruct I1 as [[i1 x1] [J1 [K1 E1]]]. destruct I2 as [[i2 x2] [J2 [K2 E2]]]. subst.
      rewrite !trait_of_pos in E. cbn in E. subst i2.
      rewrite (number_from_unique _ _ _ _ _ J1 J2). reflexivity. }
  assert (P4 : forallb (fun kv => (1 <=? t_pos (snd kv)) && (t_pos (snd kv) <=? N.of_nat (length T))) T = true).
  { apply forallb_forall. intros [k t] I. cbn. unfold T. rewrite level_traits_length by assumption.
    apply level_traits_In in I. destruct I as [[i x] [J [_ ->]]]. rewrite trait_of_pos. cbn.
    pose proof (number_from_In _ _ _ _ J) as [_ L]. pose proof (number_from_upper _ _ _ _ J) as U.
    apply andb_true_iff. split; [apply N.leb_le | apply N.leb_le]; lia. }
  assert (P5 : sm_sorted S = true) by (apply sm_sorted_ssorted, sm_of_list_sorted).
  assert (P6 : forallb (fun kv => negb (N.testbit (t_flags (snd kv)) 3) || sm_mem (fst kv) S) T = true).
  { apply forallb_forall. intros [k t] I. cbn.
    apply level_traits_In in I. destruct I as [[i x] [J [-> ->]]]. cbn [snd].
    destruct x as [n ty r c|n r c sub].
    - cbn [trait_of snd t_flags]. rewrite special_bit3. reflexivity.
    - apply orb_true_iff. right. apply number_from_In in J. destruct J as [J _].
      unfold S. apply (sm_of_list_mem (flat_map item_sub its) ([n], own_node sub)).
      apply in_flat_map. exists (RGroup n r c sub). split; [assumption|]. left. reflexivity. }
  rewrite P1, P2, P3, P4, P5, P6. cbn [andb].
  assert (G : forall l, incl l S ->
     (fix go (l : list (key * mnode)) : bool :=
        match l with
        | [] => true
        | (k, sn) :: tl =>
            match sm_find k T with Some t => N.testbit (t_flags t) 3 | None => false end
            && negb (match node_traits sn with [] => true | _ => false end)
            && existsb (fun kv => t_pos (snd kv) =? 1) (node_traits sn)
            && wf_node sn && go tl
        end) l = true).
  { induction l as [|[k sn] l IHl]; intro INC; [reflexivity|].
    rewrite IHl by (intros y Hy; apply INC; right; assumption). rewrite andb_true_r.
    assert (I : In (k, sn) S) by (apply INC; left; reflexivity).
    unfold S in I. apply sm_of_list_In in I. apply in_flat_map in I. destruct I as [x [Ix Es]].
    destruct x as [n ty r c|n r c sub]; [contradiction|]. destruct Es as [Es|[]]. inversion Es; subst k sn.
    destruct (number_from_In_inv its 1 _ Ix) as [i Hi].
    pose proof (level_traits_find its (i, RGroup n r c sub) ND Hi) as F. cbn [snd item_num] in F.
    unfold T. rewrite F. cbn [trait_of snd t_flags].
    rewrite group_bit3. cbn [andb].
    assert (OKs : level_ok sub = true).
    { rewrite forallb_forall in RO. apply (ritems_ok_group n r c). apply RO. assumption. }
    destruct (level_ok_parts sub OKs) as [NEs [NDs _]].
    cbn [own_node node_traits].
    assert (NT : level_traits sub <> []) by (apply level_traits_nonempty; assumption).
    destruct (level_traits sub) as [|e0 rest] eqn:LT; [contradiction|]. cbn [negb andb]. rewrite <- LT.
    assert (X : existsb (fun kv => t_pos (snd kv) =? 1) (level_traits sub) = true).
    { destruct sub as [|y sub']; [contradiction|].
      apply existsb_exists. exists ([item_num y], trait_of (1, y)). split.
      - apply sm_find_In. apply (level_traits_find (y :: sub') (1, y) NDs). left. reflexivity.
      - cbn [snd]. rewrite trait_of_pos. reflexivity. }
    rewrite X. cbn [andb].
    rewrite Forall_forall in SUB. apply (SUB _ Ix n r c). reflexivity. }
  apply G. intros y Hy. assumption.
Qed.

Lemma wf_own_groups : forall x, ritems_ok x = true ->
  forall n r c sub, x = RGroup n r c sub -> wf_node (own_node sub) = true.
Proof.
  induction x as [n t r c|n r c sub IH] using ritem_ind2; intros OK n' r' c' sub' E; [discriminate|].
  inversion E; subst n' r' c' sub'.
  pose proof (ritems_ok_group _ _ _ _ OK) as OKs.
  apply wf_own_core; [assumption|].
  destruct (level_ok_parts sub OKs) as [_ [_ RO]]. rewrite forallb_forall in RO.
  rewrite Forall_forall in IH. apply Forall_forall. intros y Iy. apply IH; auto.
Qed.

Lemma wf_own_node_lemma : forall its, level_ok its = true -> wf_node (own_node its) = true.
Proof.
  intros its OK. apply wf_own_core; [assumption|].
  destruct (level_ok_parts its OK) as [_ [_ RO]]. rewrite forallb_forall in RO.
  apply Forall_forall. intros y Iy. apply wf_own_groups. auto.
Qed.

(* ------------------------------------------------------------------ subsequences keep sortedness *)
Inductive subseq {A : Type} : list A -> list A -> Prop :=
| sq_nil : forall l, subseq [] l
| sq_skip : forall a l1 l2, subseq l1 l2 -> subseq l1 (a :: l2)
| sq_take : forall a l1 l2, subseq l1 l2 -> subseq (a :: l1) (a :: l2).

Lemma subseq_In : forall {A : Type} (l1 l2 : list A) a, subseq l1 l2 -> In a l1 -> In a l2.
Proof. induction 1; cbn; intro I; [contradiction | right; auto | destruct I; [left; assumption | right; auto]]. Qed.

Lemma ssorted_subseq : forall l1 l2, subseq l1 l2 -> ssorted l2 -> ssorted l1.
Proof.
  induction 1; intro S; [constructor | inversion S; auto |].
  inversion S; subst. constructor; [|auto].
  apply all_gt_forall. intros k' I. eapply all_gt_In; eauto. eapply subseq_In; eauto.
Qed.

Lemma subseq_filter : forall {A : Type} (p : A -> bool) (l : list A), subseq (filter p l) l.
Proof. induction l as [|a l IH]; cbn; [constructor|]. destruct (p a); constructor; assumption. Qed.

(* ------------------------------------------------------------------ load_fields *)
Definition lf_step (m : list (key * fspec)) (fd : fielddef) : list (key * fspec) :=
  match type_code (fd_type fd) with
  | None => m
  | Some c => sm_ins [fd_num fd] (mkFspec (fd_num fd) (fd_name fd) c (fd_vals fd)) m
  end.

Lemma load_fields_inv : forall fl m,
  ssorted (sm_keys m) -> (forall k f, In (k, f) m -> k = [fs_num f]) ->
  ssorted (sm_keys (fold_left lf_step fl m)) /\ (forall k f, In (k, f) (fold_left lf_step fl m) -> k = [fs_num f]).
Proof.
  induction fl as [|fd fl IH]; cbn [fold_left]; intros m S K; [split; assumption|].
  apply IH; unfold lf_step; destruct (type_code (fd_type fd)); try assumption.
  - apply sm_ins_sorted; assumption.
  - intros k f I. apply sm_ins_In in I. destruct I as [E|I]; [inversion E; reflexivity | eapply K; eauto].
Qed.

Lemma load_fields_ok : forall fl,
  ssorted (sm_keys (load_fields fl)) /\ (forall k f, In (k, f) (load_fields fl) -> k = [fs_num f]).
Proof. intro fl. change (load_fields fl) with (fold_left lf_step fl []). apply (load_fields_inv fl []); [constructor | intros k f []]. Qed.

(* ------------------------------------------------------------------ realms *)
Lemma realm_fold_none : forall ty vs, fold_left (realm_step ty) vs None = None.
Proof. induction vs; cbn; auto. Qed.

Lemma realm_fold_inv : forall ty vs m r,
  ssorted (sm_keys m) -> (forall k v, In (k, v) m -> k = rkey (fst v)) ->
  fold_left (realm_step ty) vs (Some m) = Some r ->
  ssorted (sm_keys r) /\ (forall k v, In (k, v) r -> k = rkey (fst v)) /\ (vs <> [] \/ m <> [] -> r <> []).
Proof.
  induction vs as [|e vs IH]; cbn; intros m r S K H.
  - inversion H; subst. split; [assumption|]. split; [assumption|]. intros [X|X]; [contradiction X; reflexivity | assumption].
  - destruct (rval_of ty (ev_enum e)) as [v|]; [|rewrite realm_fold_none in H; discriminate].
    apply IH in H.
    + destruct H as [H1 [H2 H3]]. split; [assumption|]. split; [assumption|].
      intros _. apply H3. right. apply sm_ins_nonempty.
    + apply sm_ins_sorted. assumption.
    + intros k v0 I. apply sm_ins_In in I. destruct I as [E|I]; [inversion E; reflexivity | eapply K; eauto].
Qed.

Lemma realm_of_ok : forall f r, realm_of f = Some (Some r) -> realm_ok r = true.
Proof.
  intros f r H. unfold realm_of in H. destruct (fs_vals f) as [|e vs] eqn:V; [discriminate|].
  destruct (fold_left (realm_step (fs_ty f)) (e :: vs) (Some [])) as [m|] eqn:F; [|discriminate].
  inversion H; subst r. clear H.
  apply realm_fold_inv in F; [|constructor | intros k v []].
  destruct F as [F1 [F2 F3]]. unfold realm_ok. cbn [r_vals].
  rewrite sm_sorted_ssorted by assumption. cbn [andb].
  assert (NE : m <> []) by (apply F3; left; discriminate).
  destruct m as [|e0 m']; [contradiction|]. cbn [negb andb].
  apply forallb_forall. intros [k v] I. cbn. rewrite (F2 k v I). apply key_eqb_refl.
Qed.

(* ------------------------------------------------------------------ the field table *)
Lemma ftab_fold_none : forall used l, fold_left (ftab_step used) l None = None.
Proof.
  induction l as [|kv l IH]; cbn; [reflexivity|].
  unfold ftab_step at 2. destruct (existsb (N.eqb (fs_num (snd kv))) used); exact IH.
Qed.

Definition fe_from (kv : key * ftab_entry) (l : list (key * fspec)) : Prop :=
  exists f r, In (fst kv, f) l /\ realm_of f = Some r
              /\ snd kv = mkFe (fs_num f) (fs_name f) (cls_of_ty (fs_ty f)) r.

Lemma ftab_fold_inv : forall used l acc r,
  fold_left (ftab_step used) l (Some acc) = Some r ->
  exists r', r = acc ++ r' /\ subseq (sm_keys r') (sm_keys l) /\ Forall (fun kv => fe_from kv l) r'.
Proof.
  induction l as [|[k f] l IH]; cbn [fold_left]; intros acc r H.
  - inversion H; subst. exists []. rewrite app_nil_r. split; [reflexivity|]. split; constructor.
  - unfold ftab_step at 2 in H. cbn [snd fst] in H.
    destruct (existsb (N.eqb (fs_num f)) used).
    + destruct (realm_of f) as [rl|] eqn:R; [|rewrite ftab_fold_none in H; discriminate].
      apply IH in H. destruct H as [r' [E [SQ FA]]].
      exists ((k, mkFe (fs_num f) (fs_name f) (cls_of_ty (fs_ty f)) rl) :: r').
      split; [rewrite E, <- app_assoc; reflexivity|]. split; [cbn; constructor; assumption|].
      constructor.
      * exists f, rl. cbn. auto.
      * eapply Forall_impl; [|exact FA]. intros kv [f0 [r0 [I X]]]. exists f0, r0. split; [right; assumption | assumption].
    + apply IH in H. destruct H as [r' [E [SQ FA]]]. exists r'. split; [assumption|].
      split; [cbn; constructor; assumption|].
      eapply Forall_impl; [|exact FA]. intros kv [f0 [r0 [I X]]]. exists f0, r0. split; [right; assumption | assumption].
Qed.

(* ------------------------------------------------------------------ the message table and the nodes *)
Lemma mtab_init_sorted : ssorted (sm_keys mtab_init).
Proof. unfold mtab_init. repeat apply sm_ins_sorted. constructor. Qed.

Lemma mtab_of_ok : forall x,
  ssorted (sm_keys (mtab_of x))
  /\ (forall k e, In (k, e) (mtab_of x) -> k = me_type e)
  /\ sm_mem HEADER (mtab_of x) = true /\ sm_mem TRAILER (mtab_of x) = true
  /\ (forall k e, In (k, e) (mtab_of x) -> k = HEADER \/ k = TRAILER \/ exists mr, In mr (x_msgs x) /\ k = md_type (fst mr)).
Proof.
  intro x. unfold mtab_of.
  set (kf := fun mr : msgdef * list ritem => md_type (fst mr)).
  set (vf := fun mr : msgdef * list ritem => mkMe (md_type (fst mr)) (md_name (fst mr)) (md_admin (fst mr))).
  change (fold_left _ (x_msgs x) mtab_init) with (fold_left (fun m a => sm_ins (kf a) (vf a) m) (x_msgs x) mtab_init).
  assert (INI : forall k e, In (k, e) mtab_init -> (k = HEADER \/ k = TRAILER) /\ k = me_type e).
  { intros k e I. unfold mtab_init in I. apply sm_ins_In in I. destruct I as [E|I].
    - inversion E; subst. auto.
    - apply sm_ins_In in I. destruct I as [E|[]]. inversion E; subst. auto. }
  split; [apply fold_ins_sorted; apply mtab_init_sorted|].
  split; [|split; [|split]].
  - intros k e I. apply fold_ins_In in I. destruct I as [I|[a [_ E]]]; [apply INI; assumption|].
    inversion E; subst. reflexivity.
  - unfold sm_mem. erewrite fold_ins_keep; [reflexivity | apply mtab_init_sorted | vm_compute; reflexivity].
  - unfold sm_mem. erewrite fold_ins_keep; [reflexivity | apply mtab_init_sorted | vm_compute; reflexivity].
  - intros k e I. apply fold_ins_In in I. destruct I as [I|[a [Ia E]]].
    + destruct (INI _ _ I) as [[X|X] _]; auto.
    + inversion E; subst. right. right. exists a. auto.
Qed.

Definition node_init (x : xschema) : list (key * mnode) :=
  sm_ins TRAILER (own_node (x_trailer x)) (sm_ins HEADER (own_node (x_header x)) []).

Lemma nodes_of_own : forall x,
  nodes_of (fun its => Some (own_node its)) x
  = Some (fold_left (fun m (mr : msgdef * list ritem) => sm_ins (md_type (fst mr)) (own_node (snd mr)) m)
                    (x_msgs x) (node_init x)).
Proof.
  intro x. unfold nodes_of, node_init. generalize (sm_ins TRAILER (own_node (x_trailer x)) (sm_ins HEADER (own_node (x_header x)) [])).
  induction (x_msgs x) as [|mr l IH]; cbn; intro m; [reflexivity|]. apply IH.
Qed.

Lemma node_init_sorted : forall x, ssorted (sm_keys (node_init x)).
Proof. intro x. unfold node_init. repeat apply sm_ins_sorted. constructor. Qed.

Lemma node_init_find : forall x,
  sm_find HEADER (node_init x) = Some (own_node (x_header x))
  /\ sm_find TRAILER (node_init x) = Some (own_node (x_trailer x)).
Proof. intro x. unfold node_init. split; vm_compute; reflexivity. Qed.

(* ------------------------------------------------------------------ preamble fields *)
Lemma special_preamble : forall n r c, (n = 8 \/ n = 9 \/ n = 10 \/ n = 35) ->
  let fl := special n (mk_flags r false c) in
  N.testbit fl 0 = false /\ N.testbit fl 6 = true /\ N.testbit fl 3 = false.
Proof.
  intros n r c [ -> | [ -> | [ -> | -> ] ] ]; destruct r; destruct c; cbn; auto.
Qed.

Lemma preamble_ok_lemma : forall its n, level_ok its = true -> has_num n its = true ->
  (n = 8 \/ n = 9 \/ n = 10 \/ n = 35) -> preamble_ok n (own_node its) = true.
Proof.
  intros its n OK H NN. destruct (level_ok_parts its OK) as [_ [ND _]].
  unfold has_num in H. apply existsb_exists in H. destruct H as [y [Iy Hy]].
  apply andb_true_iff in Hy. destruct Hy as [G E]. apply N.eqb_eq in E.
  destruct y as [n0 ty r c|n0 r c sub]; [|discriminate]. cbn in E. subst n0.
  destruct (number_from_In_inv its 1 _ Iy) as [i Hi].
  pose proof (level_traits_find its _ ND Hi) as F. cbn [snd item_num] in F.
  unfold preamble_ok, own_node. cbn [node_traits]. rewrite F. cbn [trait_of snd t_flags].
  destruct (special_preamble n r c NN) as [A [B C]]. rewrite A, B, C. reflexivity.
Qed.

(* ------------------------------------------------------------------ the theorem *)
(* conversion must not unfold the 64 levels of fuel *)
Opaque FUEL expand expand_level expand_msgs.

Lemma expand_schema_parts : forall q s x, expand_schema q s = Some x ->
  x_fm x = load_fields (s_fields s) /\ x_comps x = load_comps (s_comps s).
Proof.
  intros q s x H. unfold expand_schema in H.
  destruct (expand_level false s (s_header s)); [|discriminate].
  destruct (expand_level false s (s_trailer s)); [|discriminate].
  destruct (expand_msgs q s); [|discriminate].
  inversion H. split; reflexivity.
Qed.

Lemma wf_schema_parts : forall s, wf_schema s = true ->
  exists x m, expand_schema false s = Some x /\ meta_of_schema s = Some m
    /\ level_ok (x_header x) = true /\ level_ok (x_trailer x) = true
    /\ forallb (fun mr => level_ok (snd mr)) (x_msgs x) = true
    /\ has_num 8 (x_header x) = true /\ has_num 9 (x_header x) = true /\ has_num 35 (x_header x) = true
    /\ has_num 10 (x_trailer x) = true.
Proof.
  intros s H. unfold wf_schema in H.
  destruct (expand_schema false s) as [x|]; [|discriminate].
  destruct (meta_of_schema s) as [m|]; [|discriminate].
  exists x, m. repeat (apply andb_true_iff in H; destruct H as [H ?]).
  repeat split; try reflexivity; try assumption;
    unfold level_ok; repeat (apply andb_true_iff; split); assumption.
Qed.

Lemma meta_wf_lemma : forall s, wf_schema s = true ->
  exists m, meta_of_schema s = Some m /\ wf_meta m = true.
Proof.
  intros s W. destruct (wf_schema_parts s W) as [x [m [EX [MS [OKh [OKt [OKm [H8 [H9 [H35 H10]]]]]]]]]].
  exists m. split; [assumption|].
  destruct (expand_schema_parts _ _ _ EX) as [FM CM].
  unfold meta_of_schema in MS. rewrite EX in MS.
  destruct (tables_of s x) as [t|] eqn:TB; [|discriminate].
  rewrite nodes_of_own in MS. inversion MS; subst m. clear MS.
  set (nodes := fold_left (fun m (mr : msgdef * list ritem) => sm_ins (md_type (fst mr)) (own_node (snd mr)) m)
                          (x_msgs x) (node_init x)).
  set (kf := fun mr : msgdef * list ritem => md_type (fst mr)).
  set (vf := fun mr : msgdef * list ritem => own_node (snd mr)).
  assert (NS : ssorted (sm_keys nodes)) by (apply (fold_ins_sorted kf vf); apply node_init_sorted).
  destruct (node_init_find x) as [FH FT].
  assert (NH : sm_find HEADER nodes = Some (own_node (x_header x)))
    by (apply (fold_ins_keep kf vf); [apply node_init_sorted | assumption]).
  assert (NT : sm_find TRAILER nodes = Some (own_node (x_trailer x)))
    by (apply (fold_ins_keep kf vf); [apply node_init_sorted | assumption]).
  unfold wf_meta. cbn [mt_tables mt_nodes].
  (* tables *)
  assert (WT : wf_tables t = true).
  { unfold tables_of in TB. destruct (version_of s) as [v|]; [|discriminate].
    destruct (fold_left (ftab_step (used_nums x)) (x_fm x) (Some [])) as [ft|] eqn:FTB; [|discriminate].
    inversion TB; subst t. clear TB. unfold wf_tables. cbn [tb_fields tb_msgs tb_comps].
    apply ftab_fold_inv in FTB. destruct FTB as [r' [E [SQ FA]]]. cbn in E. subst ft.
    destruct (load_fields_ok (s_fields s)) as [LS LK]. rewrite <- FM in LS, LK.
    destruct (mtab_of_ok x) as [M1 [M2 [M3 [M4 _]]]].
    rewrite Forall_forall in FA.
    rewrite (sm_sorted_ssorted r') by (eapply ssorted_subseq; eauto).
    rewrite (sm_sorted_ssorted (mtab_of x)) by assumption. rewrite M3, M4. cbn [andb].
    assert (A1 : forallb (fun kv : key * ftab_entry => key_eqb (fst kv) [fe_num (snd kv)]) r' = true).
    { apply forallb_forall. intros kv I. destruct (FA _ I) as [f [r [If [_ Es]]]].
      rewrite Es. cbn. rewrite (LK _ _ If). apply key_eqb_refl. }
    assert (A2 : forallb (fun kv : key * ftab_entry => match fe_realm (snd kv) with Some r => realm_ok r | None => true end) r' = true).
    { apply forallb_forall. intros kv I. destruct (FA _ I) as [f [r [_ [Rf Es]]]].
      rewrite Es. cbn. destruct r as [rl|]; [eapply realm_of_ok; eauto | reflexivity]. }
    assert (A3 : forallb (fun kv : key * mtab_entry => key_eqb (fst kv) (me_type (snd kv))) (mtab_of x) = true).
    { apply forallb_forall. intros [k e] I. cbn. rewrite (M2 _ _ I). apply key_eqb_refl. }
    rewrite A1, A2, A3. cbn [andb].
    apply keys_sorted_ssorted. apply (ssorted_subseq _ (sm_keys (x_comps x))); [apply subseq_filter|].
    rewrite CM. unfold load_comps. apply (fold_ins_sorted fst snd). constructor. }
  rewrite WT. rewrite (sm_sorted_ssorted nodes) by assumption. cbn [andb].
  (* every node is well-formed *)
  assert (WN : forallb (fun kn : key * mnode => wf_node (snd kn)) nodes = true).
  { apply forallb_forall. intros [k nd] I. cbn. unfold nodes in I.
    apply (fold_ins_In kf vf) in I. destruct I as [I|[mr [Imr E]]].
    - unfold node_init in I. apply sm_ins_In in I. destruct I as [E|I].
      + inversion E; subst. apply wf_own_node_lemma. assumption.
      + apply sm_ins_In in I. destruct I as [E|[]]. inversion E; subst. apply wf_own_node_lemma. assumption.
    - inversion E; subst. unfold vf. apply wf_own_node_lemma. rewrite forallb_forall in OKm. apply OKm. assumption. }
  rewrite WN. cbn [andb].
  (* every message table entry has a node *)
  assert (WM : forallb (fun kv : key * mtab_entry => sm_mem (fst kv) nodes) (tb_msgs t) = true).
  { unfold tables_of in TB. destruct (version_of s); [|discriminate].
    destruct (fold_left (ftab_step (used_nums x)) (x_fm x) (Some [])); [|discriminate].
    inversion TB; subst t. cbn [tb_msgs]. apply forallb_forall. intros [k e] I. cbn [fst].
    destruct (mtab_of_ok x) as [_ [_ [_ [_ M5]]]]. destruct (M5 _ _ I) as [->|[->|[mr [Imr ->]]]].
    - unfold sm_mem. rewrite NH. reflexivity.
    - unfold sm_mem. rewrite NT. reflexivity.
    - apply (fold_ins_mem kf vf (x_msgs x) (node_init x) mr); [apply node_init_sorted | assumption]. }
  rewrite WM. cbn [andb]. rewrite NH, NT.
  rewrite !preamble_ok_lemma; auto.
Qed.
