(* Property C13 as an executable predicate on observables: the tables and trait trees read back
   from the compiled output of f8c equal the specified ones (Schema.meta_of_schema), and every
   probe message behaves in the generated codec as the generic codec must behave on the
   SPECIFIED metadata (Probe.probe_outcome): probes that respect the schema round-trip exactly,
   probes lacking a mandatory field are rejected by the decoder. *)
From Coq Require Import NArith ZArith List Bool.
From F8 Require Import C13.SMap C13.Schema C13.Probe.
Import ListNotations.
Local Open Scope N_scope.

Fixpoint list_eqb {A : Type} (eq : A -> A -> bool) (l1 l2 : list A) : bool :=
  match l1, l2 with
  | [], [] => true
  | x :: t1, y :: t2 => eq x y && list_eqb eq t1 t2
  | _, _ => false
  end.

Definition trait_eqb (a b : trait) : bool :=
  (t_num a =? t_num b) && (t_ty a =? t_ty b) && (t_pos a =? t_pos b)
  && key_eqb (t_comp a) (t_comp b) && (t_flags a =? t_flags b).

Definition ktrait_eqb (a b : key * trait) : bool := key_eqb (fst a) (fst b) && trait_eqb (snd a) (snd b).

Fixpoint mnode_eqb (a b : mnode) : bool :=
  match a, b with
  | MNode t1 s1, MNode t2 s2 =>
      list_eqb ktrait_eqb t1 t2
      && (fix go (l1 l2 : list (key * mnode)) : bool :=
            match l1, l2 with
            | [], [] => true
            | (k1, n1) :: r1, (k2, n2) :: r2 => key_eqb k1 k2 && mnode_eqb n1 n2 && go r1 r2
            | _, _ => false
            end) s1 s2
  end.

Definition subs_eqb (a b : mnode) : bool :=
  list_eqb (fun x y => key_eqb (fst x) (fst y) && mnode_eqb (snd x) (snd y)) (node_subs a) (node_subs b).

Definition rval_eqb (a b : rval) : bool :=
  match a, b with
  | RInt x, RInt y => Z.eqb x y
  | RChar x, RChar y => x =? y
  | RStr x, RStr y => key_eqb x y
  | RFloat x, RFloat y => Z.eqb x y
  | _, _ => false
  end.

Definition realm_eqb (a b : realm) : bool :=
  Bool.eqb (r_range a) (r_range b) && (r_ty a =? r_ty b)
  && list_eqb (fun x y => rval_eqb (fst (snd x)) (fst (snd y)) && key_eqb (snd (snd x)) (snd (snd y)))
              (r_vals a) (r_vals b).

Definition fe_eqb (a b : ftab_entry) : bool :=
  (fe_num a =? fe_num b) && key_eqb (fe_name a) (fe_name b) && (fe_cls a =? fe_cls b)
  && match fe_realm a, fe_realm b with
     | None, None => true
     | Some x, Some y => realm_eqb x y
     | _, _ => false
     end.

Definition me_eqb (a b : mtab_entry) : bool :=
  key_eqb (me_type a) (me_type b) && key_eqb (me_name a) (me_name b) && Bool.eqb (me_admin a) (me_admin b).

Definition tables_eqb (a b : tables) : bool :=
  (tb_version a =? tb_version b) && key_eqb (tb_begin a) (tb_begin b)
  && list_eqb (fun x y => fe_eqb (snd x) (snd y)) (tb_fields a) (tb_fields b)
  && list_eqb (fun x y => me_eqb (snd x) (snd y)) (tb_msgs a) (tb_msgs b)
  && list_eqb key_eqb (tb_comps a) (tb_comps b).

(* the same predicates on an already computed specification (the driver evaluates
   meta_of_schema once per schema) *)
Definition c13_tables_ok_m (m : meta) (impl : tables) : bool := tables_eqb (mt_tables m) impl.

Definition c13_msg_ok_m (m : meta) (mtype : bytes) (impl : mnode)
           (probes : list (list pnode * list pnode)) (outs : list N) : bool :=
  match sm_find mtype (mt_nodes m), sm_find HEADER (mt_nodes m) with
  | Some n, Some h =>
      mnode_eqb n impl
      && list_eqb N.eqb (map (fun p => probe_outcome (fun _ => false) h n (fst p) (snd p)) probes) outs
  | _, _ => false
  end.

(* the tables read back from the generated code *)
Definition c13_tables_ok (s : schema) (impl : tables) : bool :=
  match meta_of_schema s with
  | Some m => c13_tables_ok_m m impl
  | None => false
  end.

(* the trait tree of one message table entry read back from the generated code, and the
   outcomes of its probes (header part, body part) *)
Definition c13_msg_ok (s : schema) (mtype : bytes) (impl : mnode)
           (probes : list (list pnode * list pnode)) (outs : list N) : bool :=
  match meta_of_schema s with
  | Some m => c13_msg_ok_m m mtype impl probes outs
  | None => false
  end.
