(* Strictly sorted association lists keyed by byte/number strings: the model of every
   std::map / presorted_set that f8c fills with "insert if absent" (FieldSpecMap, MessageSpecMap,
   Components, RealmMap, FieldTraits' Presence, GroupMap, CommonGroups, CommonGroupMap).
   Keys are lists of N compared lexicographically (a field number n is the key [n], a string is
   its bytes), which is std::less on unsigned / std::string::compare / strcmp.  No proofs here. *)
From Coq Require Import NArith List Bool.
Import ListNotations.
Local Open Scope N_scope.

Definition key := list N.

Fixpoint lex_cmp (a b : key) : comparison :=
  match a, b with
  | [], [] => Eq
  | [], _ :: _ => Lt
  | _ :: _, [] => Gt
  | x :: a', y :: b' =>
      match N.compare x y with
      | Eq => lex_cmp a' b'
      | c => c
      end
  end.

Definition key_eqb (a b : key) : bool := match lex_cmp a b with Eq => true | _ => false end.
Definition key_ltb (a b : key) : bool := match lex_cmp a b with Lt => true | _ => false end.

(* std::map::insert: keeps the existing element when the key is already present *)
Fixpoint sm_ins {V : Type} (k : key) (v : V) (m : list (key * V)) : list (key * V) :=
  match m with
  | [] => [(k, v)]
  | (k', v') :: tl =>
      match lex_cmp k k' with
      | Lt => (k, v) :: m
      | Eq => m
      | Gt => (k', v') :: sm_ins k v tl
      end
  end.

Fixpoint sm_find {V : Type} (k : key) (m : list (key * V)) : option V :=
  match m with
  | [] => None
  | (k', v') :: tl => if key_eqb k k' then Some v' else sm_find k tl
  end.

Definition sm_mem {V : Type} (k : key) (m : list (key * V)) : bool :=
  match sm_find k m with Some _ => true | None => false end.

(* replace the value of an existing key (used for "find, then modify through the iterator") *)
Fixpoint sm_set {V : Type} (k : key) (v : V) (m : list (key * V)) : list (key * V) :=
  match m with
  | [] => []
  | (k', v') :: tl => if key_eqb k k' then (k', v) :: tl else (k', v') :: sm_set k v tl
  end.

Definition sm_keys {V : Type} (m : list (key * V)) : list key := map fst m.
Definition sm_vals {V : Type} (m : list (key * V)) : list V := map snd m.

(* 1 + std::distance(begin, find(k)) : the "version" index of f8c's find_group *)
Fixpoint sm_index {V : Type} (k : key) (m : list (key * V)) : option N :=
  match m with
  | [] => None
  | (k', _) :: tl => if key_eqb k k' then Some 1
                     else match sm_index k tl with Some i => Some (i + 1) | None => None end
  end.

Fixpoint keys_sorted (l : list key) : bool :=
  match l with
  | [] => true
  | k :: tl => match tl with
               | [] => true
               | k' :: _ => key_ltb k k' && keys_sorted tl
               end
  end.

Definition sm_sorted {V : Type} (m : list (key * V)) : bool := keys_sorted (sm_keys m).

(* insert a whole list, first occurrence of a key wins *)
Definition sm_of_list {V : Type} (l : list (key * V)) : list (key * V) :=
  fold_left (fun m kv => sm_ins (fst kv) (snd kv) m) l [].

Fixpoint nodup_keys (l : list key) : bool :=
  match l with
  | [] => true
  | k :: tl => negb (existsb (key_eqb k) tl) && nodup_keys tl
  end.
