(* The model of what the pinned f8c generates (C14/GroupHash.f8c_meta: component expansion with
   the depth-3 quirk + groups resolved through the CommonGroupMap) coincides with the
   specification (C13/Schema.meta_of_schema) under two decidable premises; refutation and
   non-vacuity witnesses. *)
From Coq Require Import NArith PeanoNat List Bool Lia.
From F8 Require Import C13.SMap C13.SMapProofs C13.Schema C13.SchemaProofs C13.WfMeta C13.WfProofs
                       C13.Examples C13.Probe C14.GroupHash C14.GroupHashProofs.
Import ListNotations.
Local Open Scope N_scope.

(* conversion must not unfold the 64 levels of fuel (vm_compute is not affected) *)
Opaque FUEL expand expand_level expand_msgs f8c_node.

Definition levels_shallow (x : xschema) : bool :=
  (level_depth (x_header x) <? FUEL)%nat && (level_depth (x_trailer x) <? FUEL)%nat
  && forallb (fun mr : msgdef * list ritem => (level_depth (snd mr) <? FUEL)%nat) (x_msgs x).

Lemma fold_nodes_ext : forall (f g : list ritem -> option mnode) (l : list (msgdef * list ritem)) acc,
  (forall mr, In mr l -> f (snd mr) = g (snd mr)) ->
  fold_left (fun acc (mr : msgdef * list ritem) =>
               match acc, f (snd mr) with Some m, Some n => Some (sm_ins (md_type (fst mr)) n m) | _, _ => None end) l acc
  = fold_left (fun acc (mr : msgdef * list ritem) =>
               match acc, g (snd mr) with Some m, Some n => Some (sm_ins (md_type (fst mr)) n m) | _, _ => None end) l acc.
Proof.
  induction l as [|mr l IH]; cbn; intros acc H; [reflexivity|].
  rewrite (H mr (or_introl eq_refl)). apply IH. intros; apply H; right; assumption.
Qed.

Lemma conforms_partial_lemma : forall s x,
  expand_schema false s = Some x ->
  expand_msgs true s = expand_msgs false s ->
  defs_injective (schema_defs x) = true -> levels_shallow x = true ->
  f8c_meta s = meta_of_schema s.
Proof.
  intros s x EX Q INJ SH.
  assert (EXq : expand_schema true s = Some x).
  { unfold expand_schema in *. rewrite Q. exact EX. }
  unfold f8c_meta, meta_of_schema. rewrite EX, EXq.
  destruct (tables_of s x) as [t|]; [|reflexivity].
  unfold levels_shallow in SH. apply andb_true_iff in SH. destruct SH as [SH S3].
  apply andb_true_iff in SH. destruct SH as [S1 S2].
  apply Nat.ltb_lt in S1. apply Nat.ltb_lt in S2. rewrite forallb_forall in S3.
  assert (N : nodes_of (f8c_node FUEL (build_gm (schema_defs x))) x = nodes_of (fun its => Some (own_node its)) x).
  { unfold nodes_of.
    rewrite (sound_if_injective_lemma x (x_header x) INJ (or_introl eq_refl) S1).
    rewrite (sound_if_injective_lemma x (x_trailer x) INJ (or_intror (or_introl eq_refl)) S2).
    apply (fold_nodes_ext (f8c_node FUEL (build_gm (schema_defs x))) (fun its => Some (own_node its))).
    intros [m its] I. cbn [snd].
    apply sound_if_injective_lemma; [assumption | right; right; exists m; assumption|].
    apply Nat.ltb_lt. apply (S3 (m, its) I). }
  rewrite N. reflexivity.
Qed.

(* the premises are met by a schema with enumerations, a component used as required and as
   optional, and a group with a nested group shared by two messages; the conclusion holds *)
Lemma conforms_nonvacuous_lemma :
  wf_schema ex_clean = true
  /\ (exists x, expand_schema false ex_clean = Some x
                /\ expand_msgs true ex_clean = expand_msgs false ex_clean
                /\ defs_injective (schema_defs x) = true /\ levels_shallow x = true
                /\ length (schema_defs x) = 4%nat)
  /\ (exists m, meta_of_schema ex_clean = Some m /\ wf_meta m = true /\ length (mt_nodes m) = 5%nat).
Proof.
  split; [vm_compute; reflexivity|]. split.
  - eexists. split; [vm_compute; reflexivity|]. split; [vm_compute; reflexivity|].
    split; [vm_compute; reflexivity|]. split; vm_compute; reflexivity.
  - eexists. split; [vm_compute; reflexivity|]. split; vm_compute; reflexivity.
Qed.

(* refutation: a valid schema on which the pinned f8c does not implement the specification.
   Message OptOuter = [String; component Outer (required=N)], Outer = [OutA (Y); component Mid (Y)],
   Mid = [MidA (Y); component Inner (Y)], Inner = [InA (Y); InB (N)].  The specification makes all of
   Outer's fields optional; f8precomp.cpp:279 keeps MidA and InA mandatory, so a message that omits
   the optional component is rejected (probe outcome 3 instead of 0). *)
Definition OO : bytes := [79; 79].
Lemma nested_component_refuted_lemma :
  wf_schema ex_nested_comp = true
  /\ f8c_meta ex_nested_comp <> meta_of_schema ex_nested_comp
  /\ (exists mm ms h nm ns,
        f8c_meta ex_nested_comp = Some mm /\ meta_of_schema ex_nested_comp = Some ms
        /\ sm_find HEADER (mt_nodes ms) = Some h
        /\ sm_find OO (mt_nodes mm) = Some nm /\ sm_find OO (mt_nodes ms) = Some ns
        (* the only mandatory body field of OptOuter is its first item, field 2374 *)
        /\ probe_outcome (fun _ => false) h ns [PField 49; PField 56; PField 34; PField 52] [PField 2374] = 0
        /\ probe_outcome (fun _ => false) h nm [PField 49; PField 56; PField 34; PField 52] [PField 2374] = 3).
Proof.
  split; [vm_compute; reflexivity|]. split; [vm_compute; discriminate|].
  do 5 eexists. split; [vm_compute; reflexivity|]. split; [vm_compute; reflexivity|].
  split; [vm_compute; reflexivity|]. split; [vm_compute; reflexivity|]. split; [vm_compute; reflexivity|].
  split; vm_compute; reflexivity.
Qed.
