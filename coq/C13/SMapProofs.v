(* Lemmas about the sorted association lists of C13/SMap.v. *)
From Coq Require Import NArith List Bool Lia Permutation.
From F8 Require Import C13.SMap.
Import ListNotations.
Local Open Scope N_scope.

(* ------------------------------------------------------------------ the order *)
Lemma lex_cmp_refl : forall a, lex_cmp a a = Eq.
Proof. induction a as [|x a IH]; cbn; [reflexivity|]. rewrite N.compare_refl. exact IH. Qed.

Lemma lex_cmp_eq : forall a b, lex_cmp a b = Eq -> a = b.
Proof.
  induction a as [|x a IH]; destruct b as [|y b]; cbn; intro H; try discriminate; [reflexivity|].
  destruct (N.compare x y) eqn:C; try discriminate.
  apply N.compare_eq in C. subst. f_equal. apply IH. exact H.
Qed.

Lemma lex_cmp_antisym : forall a b, lex_cmp b a = CompOpp (lex_cmp a b).
Proof.
  induction a as [|x a IH]; destruct b as [|y b]; cbn; try reflexivity.
  rewrite (N.compare_antisym x y). destruct (N.compare x y); cbn; auto.
Qed.

Lemma lex_lt_trans : forall a b c, lex_cmp a b = Lt -> lex_cmp b c = Lt -> lex_cmp a c = Lt.
Proof.
  induction a as [|x a IH]; destruct b as [|y b]; destruct c as [|z c]; cbn; intros H1 H2;
    try discriminate; try reflexivity.
  destruct (N.compare x y) eqn:C1; try discriminate.
  - apply N.compare_eq in C1. subst y.
    destruct (N.compare x z) eqn:C2; try discriminate; try reflexivity.
    eapply IH; eauto.
  - destruct (N.compare y z) eqn:C2; try discriminate.
    + apply N.compare_eq in C2. subst z. rewrite C1. reflexivity.
    + pose proof (proj1 (N.compare_lt_iff x y) C1) as L1.
      pose proof (proj1 (N.compare_lt_iff y z) C2) as L2.
      assert (L3 : x < z) by (eapply N.lt_trans; eauto).
      apply N.compare_lt_iff in L3. rewrite L3. reflexivity.
Qed.

Lemma key_eqb_eq : forall a b, key_eqb a b = true -> a = b.
Proof. unfold key_eqb. intros a b H. destruct (lex_cmp a b) eqn:C; try discriminate. apply lex_cmp_eq; auto. Qed.

Lemma key_eqb_refl : forall a, key_eqb a a = true.
Proof. intro a. unfold key_eqb. rewrite lex_cmp_refl. reflexivity. Qed.

Lemma key_eqb_neq : forall a b, a <> b -> key_eqb a b = false.
Proof.
  intros a b H. destruct (key_eqb a b) eqn:E; [|reflexivity]. apply key_eqb_eq in E. contradiction.
Qed.

Lemma key_eqb_sym : forall a b, key_eqb a b = key_eqb b a.
Proof.
  intros a b. destruct (key_eqb a b) eqn:E.
  - apply key_eqb_eq in E. subst. symmetry. apply key_eqb_refl.
  - destruct (key_eqb b a) eqn:E2; [|reflexivity]. apply key_eqb_eq in E2. subst.
    rewrite key_eqb_refl in E. discriminate.
Qed.

Lemma key_eqb_single : forall a b : N, key_eqb [a] [b] = (a =? b).
Proof.
  intros a b. unfold key_eqb. cbn. destruct (N.compare a b) eqn:C.
  - apply N.compare_eq in C. subst. rewrite N.eqb_refl. reflexivity.
  - symmetry. apply N.eqb_neq. intro E. subst. rewrite N.compare_refl in C. discriminate.
  - symmetry. apply N.eqb_neq. intro E. subst. rewrite N.compare_refl in C. discriminate.
Qed.

Lemma key_ltb_lt : forall a b, key_ltb a b = true <-> lex_cmp a b = Lt.
Proof. intros a b. unfold key_ltb. destruct (lex_cmp a b); split; intro H; try discriminate; reflexivity. Qed.

(* ------------------------------------------------------------------ sortedness, as a proposition *)
Inductive all_gt (k : key) : list key -> Prop :=
| ag_nil : all_gt k []
| ag_cons : forall k' l, lex_cmp k k' = Lt -> all_gt k l -> all_gt k (k' :: l).

Inductive ssorted : list key -> Prop :=
| ss_nil : ssorted []
| ss_cons : forall k l, all_gt k l -> ssorted l -> ssorted (k :: l).

Lemma all_gt_trans : forall k k' l, lex_cmp k k' = Lt -> all_gt k' l -> all_gt k l.
Proof.
  intros k k' l H A. induction A; constructor; auto. eapply lex_lt_trans; eauto.
Qed.

Lemma keys_sorted_ssorted : forall l, keys_sorted l = true <-> ssorted l.
Proof.
  induction l as [|k l IH]; cbn; split; intro H; try constructor; try reflexivity.
  - destruct l as [|k' l']; [constructor|].
    apply andb_true_iff in H. destruct H as [H1 H2]. apply key_ltb_lt in H1.
    apply IH in H2. inversion H2; subst. constructor; auto. eapply all_gt_trans; eauto.
  - destruct l as [|k' l']; [constructor|].
    apply andb_true_iff in H. destruct H as [_ H2]. apply IH. exact H2.
  - inversion H; subst. destruct l as [|k' l']; [reflexivity|].
    inversion H2; subst. apply andb_true_iff. split; [apply key_ltb_lt; assumption|]. apply IH. assumption.
Qed.

Lemma all_gt_In : forall k l k', all_gt k l -> In k' l -> lex_cmp k k' = Lt.
Proof. intros k l k' A. induction A; cbn; intro H0; [contradiction|]. destruct H0 as [E|I]; subst; auto. Qed.

Lemma all_gt_notin : forall k l, all_gt k l -> ~ In k l.
Proof. intros k l A I. pose proof (all_gt_In _ _ _ A I) as H. rewrite lex_cmp_refl in H. discriminate. Qed.

Lemma ssorted_NoDup : forall l, ssorted l -> NoDup l.
Proof. induction 1; constructor; auto. apply all_gt_notin. assumption. Qed.

Lemma all_gt_forall : forall k l, (forall k', In k' l -> lex_cmp k k' = Lt) -> all_gt k l.
Proof. induction l; intros H; constructor; [apply H; left; reflexivity | apply IHl; intros; apply H; right; assumption]. Qed.

(* ------------------------------------------------------------------ sm_ins *)
Section Map.
  Context {V : Type}.
  Implicit Types m : list (key * V).

  Lemma sm_ins_keys_in : forall k v m k', In k' (sm_keys (sm_ins k v m)) -> k' = k \/ In k' (sm_keys m).
  Proof.
    induction m as [|[k0 v0] m IH]; cbn; intros k' H.
    - destruct H as [H|[]]; auto.
    - destruct (lex_cmp k k0); cbn in H.
      + right. exact H.
      + destruct H as [H|H]; auto.
      + destruct H as [H|H]; auto. apply IH in H. destruct H; auto.
  Qed.

  Lemma sm_ins_sorted : forall k v m, ssorted (sm_keys m) -> ssorted (sm_keys (sm_ins k v m)).
  Proof.
    induction m as [|[k0 v0] m IH]; cbn; intro S.
    - repeat constructor.
    - inversion S; subst. destruct (lex_cmp k k0) eqn:C; cbn.
      + exact S.
      + constructor; [|exact S]. constructor; [exact C|]. eapply all_gt_trans; eauto.
      + constructor; [|apply IH; assumption].
        apply all_gt_forall. intros k' I. apply sm_ins_keys_in in I. destruct I as [E|I].
        * subst. rewrite lex_cmp_antisym, C. reflexivity.
        * eapply all_gt_In; eauto.
  Qed.

  Lemma sm_ins_In : forall k v m kv, In kv (sm_ins k v m) -> kv = (k, v) \/ In kv m.
  Proof.
    induction m as [|[k0 v0] m IH]; cbn; intros kv H.
    - destruct H as [H|[]]; auto.
    - destruct (lex_cmp k k0); cbn in H.
      + right. exact H.
      + destruct H as [H|H]; auto.
      + destruct H as [H|H]; auto. apply IH in H. destruct H; auto.
  Qed.

  Lemma sm_ins_incl : forall k v m kv, In kv m -> In kv (sm_ins k v m).
  Proof.
    induction m as [|[k0 v0] m IH]; cbn; intros kv H; [contradiction|].
    destruct (lex_cmp k k0); cbn; auto. destruct H; auto.
  Qed.

  Lemma sm_ins_nonempty : forall k v m, sm_ins k v m <> [].
  Proof. intros k v [|[k0 v0] m]; cbn; [discriminate|]. destruct (lex_cmp k k0); discriminate. Qed.

  Lemma sm_find_notin : forall k m, ~ In k (sm_keys m) -> sm_find k m = None.
  Proof.
    induction m as [|[k0 v0] m IH]; cbn; intro H; [reflexivity|].
    destruct (key_eqb k k0) eqn:E.
    - apply key_eqb_eq in E. subst. exfalso. apply H. left. reflexivity.
    - apply IH. intro I. apply H. right. exact I.
  Qed.

  Lemma sm_find_In : forall k v m, sm_find k m = Some v -> In (k, v) m.
  Proof.
    induction m as [|[k0 v0] m IH]; cbn; intro H; [discriminate|].
    destruct (key_eqb k k0) eqn:E.
    - apply key_eqb_eq in E. inversion H. subst. left. reflexivity.
    - right. apply IH. exact H.
  Qed.

  Lemma sm_find_sorted_In : forall k v m, ssorted (sm_keys m) -> In (k, v) m -> sm_find k m = Some v.
  Proof.
    induction m as [|[k0 v0] m IH]; cbn; intros S I; [contradiction|].
    inversion S; subst. destruct I as [E|I].
    - inversion E; subst. rewrite key_eqb_refl. reflexivity.
    - destruct (key_eqb k k0) eqn:E.
      + apply key_eqb_eq in E. subst. exfalso. eapply all_gt_notin; eauto.
        change k0 with (fst (k0, v)). apply in_map. exact I.
      + apply IH; assumption.
  Qed.

  (* insert-if-absent *)
  Lemma sm_find_ins_same : forall k v m, ssorted (sm_keys m) ->
    sm_find k (sm_ins k v m) = match sm_find k m with Some v' => Some v' | None => Some v end.
  Proof.
    induction m as [|[k0 v0] m IH]; cbn; intro S.
    - rewrite key_eqb_refl. reflexivity.
    - inversion S; subst.
      assert (E : key_eqb k k0 = match lex_cmp k k0 with Eq => true | _ => false end) by reflexivity.
      rewrite E. destruct (lex_cmp k k0) eqn:C; cbn.
      + rewrite E. reflexivity.
      + rewrite key_eqb_refl. rewrite sm_find_notin; [reflexivity|].
        intro I. pose proof (all_gt_In _ _ _ H1 I) as L.
        pose proof (lex_lt_trans _ _ _ C L) as L2. rewrite lex_cmp_refl in L2. discriminate.
      + rewrite E. apply IH. assumption.
  Qed.

  Lemma sm_find_ins_other : forall k k' v m, k' <> k -> sm_find k' (sm_ins k v m) = sm_find k' m.
  Proof.
    induction m as [|[k0 v0] m IH]; cbn; intro N.
    - rewrite key_eqb_neq; auto.
    - destruct (lex_cmp k k0) eqn:C; cbn.
      + reflexivity.
      + rewrite (key_eqb_neq k' k); auto.
      + destruct (key_eqb k' k0); auto.
  Qed.

  Lemma sm_ins_absent_length : forall k v m, ssorted (sm_keys m) -> sm_find k m = None ->
    length (sm_ins k v m) = S (length m).
  Proof.
    induction m as [|[k0 v0] m IH]; cbn; intros S F; [reflexivity|].
    inversion S; subst. unfold key_eqb in F. destruct (lex_cmp k k0) eqn:C; cbn; try discriminate; auto.
  Qed.

  (* ---------------------------------------------------------------- sm_set *)
  Lemma sm_set_keys : forall k v m, sm_keys (sm_set k v m) = sm_keys m.
  Proof.
    induction m as [|[k0 v0] m IH]; cbn; [reflexivity|].
    destruct (key_eqb k k0); cbn; [reflexivity|]. f_equal. exact IH.
  Qed.

  Lemma sm_find_set_same : forall k v m, sm_mem k m = true -> sm_find k (sm_set k v m) = Some v.
  Proof.
    unfold sm_mem. induction m as [|[k0 v0] m IH]; cbn; intro H; [discriminate|].
    destruct (key_eqb k k0) eqn:E; cbn; rewrite E; [reflexivity|]. apply IH. exact H.
  Qed.

  Lemma sm_find_set_other : forall k k' v m, k' <> k -> sm_find k' (sm_set k v m) = sm_find k' m.
  Proof.
    induction m as [|[k0 v0] m IH]; cbn; intro N; [reflexivity|].
    destruct (key_eqb k k0) eqn:E; cbn.
    - apply key_eqb_eq in E. subst k0. rewrite key_eqb_neq; auto.
    - destruct (key_eqb k' k0); auto.
  Qed.

  Lemma sm_set_In : forall k v m kv, In kv (sm_set k v m) -> In kv m \/ (fst kv = k /\ snd kv = v).
  Proof.
    induction m as [|[k0 v0] m IH]; cbn; intros kv H; [contradiction|].
    destruct (key_eqb k k0) eqn:E; cbn in H.
    - apply key_eqb_eq in E. subst k0. destruct H as [H|H]; [subst; right; auto | left; right; assumption].
    - destruct H as [H|H]; [left; left; assumption|]. apply IH in H. destruct H; auto.
  Qed.

  (* ---------------------------------------------------------------- folds of sm_ins *)
  Lemma fold_ins_sorted : forall {A : Type} (kf : A -> key) (vf : A -> V) (l : list A) m,
    ssorted (sm_keys m) -> ssorted (sm_keys (fold_left (fun m a => sm_ins (kf a) (vf a) m) l m)).
  Proof. induction l as [|a l IH]; cbn; intros m S; [assumption|]. apply IH. apply sm_ins_sorted. assumption. Qed.

  Lemma fold_ins_In : forall {A : Type} (kf : A -> key) (vf : A -> V) (l : list A) m kv,
    In kv (fold_left (fun m a => sm_ins (kf a) (vf a) m) l m) ->
    In kv m \/ exists a, In a l /\ kv = (kf a, vf a).
  Proof.
    induction l as [|a l IH]; cbn; intros m kv H; [left; assumption|].
    apply IH in H. destruct H as [H|[b [I E]]].
    - apply sm_ins_In in H. destruct H as [H|H]; [right; exists a; auto | left; assumption].
    - right. exists b. auto.
  Qed.

  Lemma fold_ins_keep : forall {A : Type} (kf : A -> key) (vf : A -> V) (l : list A) m k v,
    ssorted (sm_keys m) -> sm_find k m = Some v ->
    sm_find k (fold_left (fun m a => sm_ins (kf a) (vf a) m) l m) = Some v.
  Proof.
    induction l as [|a l IH]; cbn; intros m k v S F; [assumption|].
    apply IH; [apply sm_ins_sorted; assumption|].
    destruct (key_eqb k (kf a)) eqn:E.
    - apply key_eqb_eq in E. subst k. rewrite sm_find_ins_same by assumption. rewrite F. reflexivity.
    - rewrite sm_find_ins_other; [assumption|]. intro X. subst. rewrite key_eqb_refl in E. discriminate.
  Qed.

  (* with pairwise different keys every element is found with its own value *)
  Lemma fold_ins_find : forall {A : Type} (kf : A -> key) (vf : A -> V) (l : list A) m a,
    ssorted (sm_keys m) -> NoDup (map kf l) -> (forall b, In b l -> sm_find (kf b) m = None) -> In a l ->
    sm_find (kf a) (fold_left (fun m a => sm_ins (kf a) (vf a) m) l m) = Some (vf a).
  Proof.
    induction l as [|b l IH]; cbn; intros m a S ND F I; [contradiction|].
    inversion ND; subst. destruct I as [E|I].
    - subst b. apply fold_ins_keep; [apply sm_ins_sorted; assumption|].
      rewrite sm_find_ins_same by assumption. rewrite F; auto.
    - apply IH; auto; [apply sm_ins_sorted; assumption|].
      intros c Ic. rewrite sm_find_ins_other; [apply F; auto|].
      intro X. apply H1. rewrite <- X. apply in_map. assumption.
  Qed.

  Lemma fold_ins_length : forall {A : Type} (kf : A -> key) (vf : A -> V) (l : list A) m,
    ssorted (sm_keys m) -> NoDup (map kf l) -> (forall b, In b l -> sm_find (kf b) m = None) ->
    length (fold_left (fun m a => sm_ins (kf a) (vf a) m) l m) = (length l + length m)%nat.
  Proof.
    induction l as [|b l IH]; cbn; intros m S ND F; [reflexivity|].
    inversion ND; subst. rewrite IH; [ | apply sm_ins_sorted; assumption | assumption | ].
    - rewrite sm_ins_absent_length; auto; try lia.
    - intros c Ic. rewrite sm_find_ins_other; [apply F; auto|].
      intro X. apply H1. rewrite <- X. apply in_map. assumption.
  Qed.

  Lemma fold_ins_nonempty : forall {A : Type} (kf : A -> key) (vf : A -> V) (l : list A) m,
    (l <> [] \/ m <> []) -> fold_left (fun m a => sm_ins (kf a) (vf a) m) l m <> [].
  Proof.
    induction l as [|b l IH]; cbn; intros m H.
    - destruct H as [H|H]; [contradiction H; reflexivity | assumption].
    - apply IH. right. apply sm_ins_nonempty.
  Qed.

  Lemma fold_ins_mem : forall {A : Type} (kf : A -> key) (vf : A -> V) (l : list A) m a,
    ssorted (sm_keys m) -> In a l ->
    sm_mem (kf a) (fold_left (fun m a => sm_ins (kf a) (vf a) m) l m) = true.
  Proof.
    induction l as [|b l IH]; cbn; intros m a S I; [contradiction|].
    destruct I as [E|I].
    - subst b. unfold sm_mem.
      destruct (sm_find (kf a) (sm_ins (kf a) (vf a) m)) eqn:F.
      + erewrite fold_ins_keep; eauto. apply sm_ins_sorted; assumption.
      + rewrite sm_find_ins_same in F by assumption. destruct (sm_find (kf a) m); discriminate.
    - apply IH; auto. apply sm_ins_sorted; assumption.
  Qed.
End Map.

(* sm_of_list specialisations *)
Lemma sm_of_list_fold : forall {V : Type} (l : list (key * V)),
  sm_of_list l = fold_left (fun m kv => sm_ins (fst kv) (snd kv) m) l [].
Proof. reflexivity. Qed.

Lemma sm_of_list_sorted : forall {V : Type} (l : list (key * V)), ssorted (sm_keys (sm_of_list l)).
Proof. intros. unfold sm_of_list. apply (fold_ins_sorted fst snd). constructor. Qed.

Lemma sm_of_list_In : forall {V : Type} (l : list (key * V)) kv, In kv (sm_of_list l) -> In kv l.
Proof.
  intros V l kv H. unfold sm_of_list in H. apply (fold_ins_In fst snd) in H.
  destruct H as [[]|[a [I E]]]. subst. destruct a; assumption.
Qed.

Lemma sm_of_list_mem : forall {V : Type} (l : list (key * V)) kv, In kv l -> sm_mem (fst kv) (sm_of_list l) = true.
Proof. intros. unfold sm_of_list. apply (fold_ins_mem fst snd); auto. constructor. Qed.

(* mapping the values commutes with insertion *)
Lemma sm_ins_map : forall {V W : Type} (f : V -> W) k v (m : list (key * V)),
  map (fun kv => (fst kv, f (snd kv))) (sm_ins k v m) = sm_ins k (f v) (map (fun kv => (fst kv, f (snd kv))) m).
Proof.
  induction m as [|[k0 v0] m IH]; cbn; [reflexivity|].
  destruct (lex_cmp k k0); cbn; try reflexivity. f_equal. exact IH.
Qed.

Lemma sm_of_list_map : forall {V W : Type} (f : V -> W) (l : list (key * V)),
  map (fun kv => (fst kv, f (snd kv))) (sm_of_list l) = sm_of_list (map (fun kv => (fst kv, f (snd kv))) l).
Proof.
  intros V W f l. unfold sm_of_list.
  assert (G : forall l m, map (fun kv => (fst kv, f (snd kv))) (fold_left (fun m kv => sm_ins (fst kv) (snd kv) m) l m)
              = fold_left (fun m kv => sm_ins (fst kv) (snd kv) m) (map (fun kv => (fst kv, f (snd kv))) l)
                          (map (fun kv => (fst kv, f (snd kv))) m)).
  { induction l0 as [|a l0 IH]; cbn; intro m; [reflexivity|]. rewrite IH. rewrite sm_ins_map. reflexivity. }
  apply (G l []).
Qed.

(* nodup_keys reflects NoDup *)
Lemma nodup_keys_NoDup : forall l, nodup_keys l = true -> NoDup l.
Proof.
  induction l as [|k l IH]; cbn; intro H; constructor.
  - apply andb_true_iff in H. destruct H as [H _]. intro I.
    apply negb_true_iff in H. assert (existsb (key_eqb k) l = true).
    { apply existsb_exists. exists k. split; auto. apply key_eqb_refl. }
    congruence.
  - apply IH. apply andb_true_iff in H. tauto.
Qed.
