(* FIX schemas as f8c reads them, and the SPECIFICATION of the tables f8c must generate from
   them (meta_of_schema).  The C++ text generation of f8c is not modelled: its output is
   compiled and the tables are read back from the running code and compared with this file's
   functions on every schema of the tie (translation validation).

   Transcribed from compiler/f8c.cpp (load_fields, load_messages, parse_groups,
   process_message_fields, process_special_traits, process_ordering, realm emission),
   compiler/f8precomp.cpp (component expansion) and compiler/f8cstatic.hpp (type table).
   Everything here is a total function; component/group nesting is bounded by explicit fuel
   (running out = None = "f8c reports an error").  No proofs in this file. *)
From Coq Require Import NArith ZArith List Bool.
From F8 Require Import C13.SMap.
Import ListNotations.
Local Open Scope N_scope.

Notation byte := N.
Definition bytes := list N.

(* ------------------------------------------------------------------ the schema (raw XML view) *)
Record enumval := mkEnum { ev_enum : bytes; ev_desc : bytes; ev_range : bool }.
Record fielddef := mkField { fd_num : N; fd_name : bytes; fd_type : bytes; fd_vals : list enumval }.

Inductive item :=
| IField (n : bytes) (req : bool)                      (* <field name= required=> *)
| IGroup (n : bytes) (req : bool) (sub : list item)    (* <group name= required=> ... *)
| IComp (n : bytes) (req : bool).                      (* <component name= required=> *)

Record msgdef := mkMsg { md_name : bytes; md_type : bytes; md_admin : bool; md_items : list item }.

Record schema := mkSchema {
  s_type : bytes; s_major : bytes; s_minor : bytes; s_rev : bytes;   (* <fix type= major= minor= servicepack=> *)
  s_fields : list fielddef;
  s_comps : list (bytes * list item);
  s_header : list item;
  s_trailer : list item;
  s_msgs : list msgdef }.

(* ------------------------------------------------------------------ field types (f8cstatic.hpp) *)
(* the keys are the upper-case ASCII type names, spelled as byte lists (Coq's string type is kept
   out of the extracted code) *)
Definition base_type_map : list (bytes * N) :=
  [
   ([73; 78; 84], 1) (* INT *);
   ([76; 69; 78; 71; 84; 72], 2) (* LENGTH *);
   ([84; 65; 71; 78; 85; 77], 3) (* TAGNUM *);
   ([83; 69; 81; 78; 85; 77], 4) (* SEQNUM *);
   ([78; 85; 77; 73; 78; 71; 82; 79; 85; 80], 5) (* NUMINGROUP *);
   ([68; 65; 89; 79; 70; 77; 79; 78; 84; 72], 6) (* DAYOFMONTH *);
   ([70; 76; 79; 65; 84], 9) (* FLOAT *);
   ([81; 84; 89], 10) (* QTY *);
   ([81; 85; 65; 78; 84; 73; 84; 89], 10) (* QUANTITY *);
   ([80; 82; 73; 67; 69], 11) (* PRICE *);
   ([80; 82; 73; 67; 69; 79; 70; 70; 83; 69; 84], 12) (* PRICEOFFSET *);
   ([65; 77; 84], 13) (* AMT *);
   ([80; 69; 82; 67; 69; 78; 84; 65; 71; 69], 14) (* PERCENTAGE *);
   ([67; 72; 65; 82], 7) (* CHAR *);
   ([66; 79; 79; 76; 69; 65; 78], 8) (* BOOLEAN *);
   ([83; 84; 82; 73; 78; 71], 15) (* STRING *);
   ([77; 85; 76; 84; 73; 80; 76; 69; 86; 65; 76; 85; 69; 67; 72; 65; 82], 16) (* MULTIPLEVALUECHAR *);
   ([77; 85; 76; 84; 73; 80; 76; 69; 67; 72; 65; 82; 86; 65; 76; 85; 69], 16) (* MULTIPLECHARVALUE *);
   ([77; 85; 76; 84; 73; 80; 76; 69; 83; 84; 82; 73; 78; 71; 86; 65; 76; 85; 69], 17) (* MULTIPLESTRINGVALUE *);
   ([77; 85; 76; 84; 73; 80; 76; 69; 86; 65; 76; 85; 69; 83; 84; 82; 73; 78; 71], 17) (* MULTIPLEVALUESTRING *);
   ([67; 79; 85; 78; 84; 82; 89], 18) (* COUNTRY *);
   ([67; 85; 82; 82; 69; 78; 67; 89], 19) (* CURRENCY *);
   ([69; 88; 67; 72; 65; 78; 71; 69], 20) (* EXCHANGE *);
   ([77; 79; 78; 84; 72; 89; 69; 65; 82], 21) (* MONTHYEAR *);
   ([85; 84; 67; 84; 73; 77; 69; 83; 84; 65; 77; 80], 22) (* UTCTIMESTAMP *);
   ([85; 84; 67; 84; 73; 77; 69], 23) (* UTCTIME *);
   ([85; 84; 67; 84; 73; 77; 69; 79; 78; 76; 89], 23) (* UTCTIMEONLY *);
   ([85; 84; 67; 68; 65; 84; 69], 24) (* UTCDATE *);
   ([85; 84; 67; 68; 65; 84; 69; 79; 78; 76; 89], 24) (* UTCDATEONLY *);
   ([76; 79; 67; 65; 76; 77; 75; 84; 68; 65; 84; 69], 25) (* LOCALMKTDATE *);
   ([84; 90; 84; 73; 77; 69; 79; 78; 76; 89], 26) (* TZTIMEONLY *);
   ([84; 90; 84; 73; 77; 69; 83; 84; 65; 77; 80], 27) (* TZTIMESTAMP *);
   ([88; 77; 76; 68; 65; 84; 65], 29) (* XMLDATA *);
   ([68; 65; 84; 65], 28) (* DATA *);
   ([80; 65; 84; 84; 69; 82; 78], 30) (* PATTERN *);
   ([76; 65; 78; 71; 85; 65; 71; 69], 35) (* LANGUAGE *);
   ([84; 69; 78; 79; 82], 31) (* TENOR *);
   ([82; 69; 83; 69; 82; 86; 69; 68; 49; 48; 48; 80; 76; 85; 83], 32) (* RESERVED100PLUS *);
   ([82; 69; 83; 69; 82; 86; 69; 68; 49; 48; 48; 48; 80; 76; 85; 83], 33) (* RESERVED1000PLUS *);
   ([82; 69; 83; 69; 82; 86; 69; 68; 52; 48; 48; 48; 80; 76; 85; 83], 34) (* RESERVED4000PLUS *)
  ].

Definition upper (b : bytes) : bytes := map (fun c => if (97 <=? c) && (c <=? 122) then c - 32 else c) b.

Definition type_code (t : bytes) : option N :=
  (fix go (l : list (bytes * N)) : option N :=
     match l with
     | [] => None
     | (s, c) :: tl => if key_eqb s (upper t) then Some c else go tl
     end) base_type_map.

Definition is_int_ty (t : N) : bool := (1 <=? t) && (t <=? 6).
Definition is_char_ty (t : N) : bool := (7 <=? t) && (t <=? 8).
Definition is_float_ty (t : N) : bool := (9 <=? t) && (t <=? 14).
Definition is_string_ty (t : N) : bool := (15 <=? t) && (t <=? 35).

(* the C++ class the generated `using Name = Field<T, num>` instantiates (TypeToCPP), as a code:
   1 int, 2 fp_type, 3 char, 4 f8String, 100+t = EnumType<t>, 0 = a type name that field.hpp does
   not define (pattern, Tenor): the generated code cannot compile *)
Definition cls_of_ty (t : N) : N :=
  if t =? 1 then 1
  else if is_int_ty t then 100 + t
  else if t =? 7 then 3
  else if t =? 8 then 108
  else if is_float_ty t then 2
  else if (15 <=? t) && (t <=? 20) then 4
  else if (21 <=? t) && (t <=? 27) then 100 + t
  else if (t =? 28) || (t =? 29) then 4
  else if (t =? 30) || (t =? 31) then 0
  else 4.

(* ------------------------------------------------------------------ load_fields *)
Record fspec := mkFspec { fs_num : N; fs_name : bytes; fs_ty : N; fs_vals : list enumval }.

Definition load_fields (fl : list fielddef) : list (key * fspec) :=
  fold_left (fun m fd =>
               match type_code (fd_type fd) with
               | None => m                                   (* warning: unknown type, skipped *)
               | Some c => sm_ins [fd_num fd] (mkFspec (fd_num fd) (fd_name fd) c (fd_vals fd)) m
               end) fl [].

(* FieldToNumMap: filled in field-number order, first name wins *)
Definition fton (fm : list (key * fspec)) : list (key * N) :=
  fold_left (fun m kv => sm_ins (fs_name (snd kv)) (fs_num (snd kv)) m) fm [].

Definition lookup_name (fm : list (key * fspec)) (ft : list (key * N)) (n : bytes) : option (N * N) :=
  match sm_find n ft with
  | Some num => match sm_find [num] fm with Some f => Some (fs_num f, fs_ty f) | None => None end
  | None => None
  end.

(* Components: std::map<string, element>, first definition of a name wins *)
Definition load_comps (cs : list (bytes * list item)) : list (key * list item) :=
  fold_left (fun m c => sm_ins (fst c) (snd c) m) cs [].

(* ------------------------------------------------------------------ component expansion *)
(* items after f8precomp: names resolved to numbers, `required` lowered by the enclosing
   component references, `component` attribute = innermost component name ([] = none) *)
Inductive ritem :=
| RField (num ty : N) (req : bool) (comp : bytes)
| RGroup (num : N) (req : bool) (comp : bytes) (sub : list ritem).

(* FIXT mode (f8c -x transport.xml application.xml): header, trailer and the transport's messages
   are expanded against the TRANSPORT's components, application messages against the application's
   (precompfixt); only the application's components are listed in the generated component table,
   and the `component` attribute a transport component leaves on its members is looked up BY NAME in
   that table.  The schema reader marks the transport's components with a leading '~' (126): such a
   component is not listed, and its members are attributed to the application component of the same
   name if there is one, to no component otherwise. *)
Definition TMARK : N := 126.
Definition is_tkey (k : key) : bool := match k with c :: _ => c =? TMARK | [] => false end.
Definition comp_attr (comps : list (key * list item)) (n : bytes) : bytes :=
  match n with
  | c :: rest => if c =? TMARK then (if sm_mem rest comps then rest else []) else n
  | [] => n
  end.

Section Expand.
  Variable lk : bytes -> option (N * N).
  Variable comps : list (key * list item).

  (* quirk = true reproduces f8precomp.cpp:279 `depth == 3 ? comp_required : comp_required && required`
     (direct children of a <message>): the `required` context of an enclosing component is
     dropped there.  quirk = false is the uniform rule (the specification). *)
  Fixpoint expand (fuel : nat) (quirk : bool) (ctx : bool) (compon : bytes) (its : list item)
    : option (list ritem) :=
    match fuel with
    | O => None
    | S f =>
      (fix go (l : list item) : option (list ritem) :=
         match l with
         | [] => Some []
         | it :: tl =>
           match (match it with
                  | IField n r =>
                      match lk n with
                      | Some (num, ty) => Some [RField num ty (r && ctx) compon]
                      | None => None
                      end
                  | IGroup n r sub =>
                      match lk n, expand f false ctx [] sub with
                      | Some (num, _), Some rs => Some [RGroup num (r && ctx) compon rs]
                      | _, _ => None
                      end
                  | IComp n r =>
                      match sm_find n comps with
                      | Some sub => expand f quirk (if quirk then r else r && ctx) (comp_attr comps n) sub
                      | None => None
                      end
                  end), go tl with
           | Some a, Some b => Some (a ++ b)
           | _, _ => None
           end
         end) its
    end.
End Expand.

Definition FUEL : nat := 64.

(* ------------------------------------------------------------------ traits of one level *)
Record trait := mkTrait { t_num : N; t_ty : N; t_pos : N; t_comp : bytes; t_flags : N }.

(* FieldTrait::TraitTypes bits: mandatory 1, present 2, position 4, group 8, component 16,
   suppress 32, automatic 64 *)
Definition mk_flags (req isgroup : bool) (comp : bytes) : N :=
  (if req then 1 else 0) + 4 + (if isgroup then 8 else 0) + (match comp with [] => 0 | _ => 16 end).

(* process_special_traits *)
Definition special (num flags : N) : N :=
  if (num =? 8) || (num =? 9) || (num =? 10) then N.lor (N.clearbit flags 0) 96
  else if num =? 35 then N.lor (N.clearbit flags 0) 64
  else flags.

Definition item_num (x : ritem) : N :=
  match x with RField n _ _ _ => n | RGroup n _ _ _ => n end.
Definition is_group (x : ritem) : bool :=
  match x with RGroup _ _ _ _ => true | _ => false end.

Fixpoint number_from {A : Type} (i : N) (l : list A) : list (N * A) :=
  match l with
  | [] => []
  | x :: tl => (i, x) :: number_from (i + 1) tl
  end.

Definition trait_of (p : N * ritem) : trait :=
  match snd p with
  | RField num ty req c => mkTrait num ty (fst p) c (special num (mk_flags req false c))
  | RGroup num req c _ => mkTrait num 1 (fst p) c (mk_flags req true c)
  end.

(* parse_groups adds the group count traits first, then process_message_fields the fields;
   FieldTraits::add refuses a number that is already there.  Position = XML sibling index
   (for a message process_ordering renumbers densely, which is the same thing when every
   sibling was added) *)
Definition level_traits (its : list ritem) : list (key * trait) :=
  let nl := number_from 1 its in
  fold_left (fun m p => sm_ins [item_num (snd p)] (trait_of p) m)
            (filter (fun p => is_group (snd p)) nl ++ filter (fun p => negb (is_group (snd p))) nl) [].

(* ------------------------------------------------------------------ the trait tree of a message *)
Inductive mnode := MNode (traits : list (key * trait)) (subs : list (key * mnode)).

Definition node_traits (n : mnode) := match n with MNode t _ => t end.
Definition node_subs (n : mnode) := match n with MNode _ s => s end.

(* a group item's own definition as a tree: its fields, and below it its nested groups *)
Fixpoint item_sub (x : ritem) : list (key * mnode) :=
  match x with
  | RField _ _ _ _ => []
  | RGroup num _ _ sub => [([num], MNode (level_traits sub) (sm_of_list (flat_map item_sub sub)))]
  end.

Definition own_node (its : list ritem) : mnode :=
  MNode (level_traits its) (sm_of_list (flat_map item_sub its)).

(* ------------------------------------------------------------------ realms *)
(* RFloat carries the value times 10^4 (the specification covers decimal texts with at most four
   fractional digits; f8c sorts and de-duplicates them as doubles, which is the same order) *)
Inductive rval := RInt (z : Z) | RChar (c : N) | RStr (b : bytes) | RFloat (z : Z).

Definition is_digit (c : N) : bool := (48 <=? c) && (c <=? 57).
Fixpoint digits_val (acc : N) (l : bytes) : option N :=
  match l with
  | [] => Some acc
  | c :: tl => if is_digit c then digits_val (acc * 10 + (c - 48)) tl else None
  end.
Definition parse_nat (l : bytes) : option N :=
  match l with [] => None | _ => digits_val 0 l end.
(* the enum texts this specification covers for int-typed fields: -?[0-9]+ *)
Definition parse_int (l : bytes) : option Z :=
  match l with
  | 45 :: tl => match parse_nat tl with Some n => Some (- Z.of_N n)%Z | None => None end
  | _ => match parse_nat l with Some n => Some (Z.of_N n) | None => None end
  end.

(* digits[.digits{0,4}] -> value * 10^4 *)
Fixpoint split_dot (l : bytes) (acc : bytes) : bytes * option bytes :=
  match l with
  | [] => (rev acc, None)
  | c :: tl => if c =? 46 then (rev acc, Some tl) else split_dot tl (c :: acc)
  end.
Definition parse_dec4 (l : bytes) : option Z :=
  match split_dot l [] with
  | (ip, None) => match parse_nat ip with Some n => Some (Z.of_N (n * 10000)) | None => None end
  | (ip, Some fr) =>
      if Nat.leb (length fr) 4 then
        match parse_nat ip, digits_val 0 (fr ++ repeat 48 (4 - length fr)) with
        | Some n, Some f => Some (Z.of_N (n * 10000 + f))
        | _, _ => None
        end
      else None
  end.

Definition rval_of (ty : N) (e : bytes) : option rval :=
  if is_int_ty ty then match parse_int e with Some z => Some (RInt z) | None => None end
  else if is_char_ty ty then Some (RChar (match e with c :: _ => c | [] => 0 end))   (* CharRealm(from[0]) *)
  else if is_float_ty ty then match parse_dec4 e with Some z => Some (RFloat z) | None => None end
  else if is_string_ty ty then Some (RStr e)
  else None.

(* sort key: std::less<int>, char, std::string *)
Definition rkey (v : rval) : key :=
  match v with
  | RInt z => [Z.to_N (z + 2147483648)]
  | RChar c => [c]
  | RStr b => b
  | RFloat z => [Z.to_N (z + 2147483648)]
  end.

Record realm := mkRealm { r_range : bool; r_ty : N; r_vals : list (key * (rval * bytes)) }.

Definition realm_step (ty : N) (acc : option (list (key * (rval * bytes)))) (e : enumval)
  : option (list (key * (rval * bytes))) :=
  match acc, rval_of ty (ev_enum e) with
  | Some m, Some v =>
      Some (sm_ins (rkey v) (v, match ev_desc e with [] => ev_enum e | d => d end) m)
  | _, _ => None
  end.

Definition realm_of (f : fspec) : option (option realm) :=
  match fs_vals f with
  | [] => Some None
  | vs =>
    match fold_left (realm_step (fs_ty f)) vs (Some []) with
    | Some m => Some (Some (mkRealm (existsb ev_range vs) (fs_ty f) m))
    | None => None
    end
  end.

(* ------------------------------------------------------------------ the generated tables *)
Record ftab_entry := mkFe { fe_num : N; fe_name : bytes; fe_cls : N; fe_realm : option realm }.
Record mtab_entry := mkMe { me_type : bytes; me_name : bytes; me_admin : bool }.

Record tables := mkTables {
  tb_version : N;
  tb_begin : bytes;
  tb_fields : list (key * ftab_entry);
  tb_msgs : list (key * mtab_entry);
  tb_comps : list key }.

Fixpoint item_nums (x : ritem) : list N :=
  match x with
  | RField n _ _ _ => [n]
  | RGroup n _ _ sub => n :: flat_map item_nums sub
  end.

(* the expanded schema: header, trailer and every message as item lists *)
Record xschema := mkX {
  x_fm : list (key * fspec);
  x_comps : list (key * list item);
  x_header : list ritem;
  x_trailer : list ritem;
  x_msgs : list (msgdef * list ritem) }.

Definition schema_lk (s : schema) : bytes -> option (N * N) :=
  lookup_name (load_fields (s_fields s)) (fton (load_fields (s_fields s))).

Definition expand_level (quirk : bool) (s : schema) (its : list item) : option (list ritem) :=
  expand (schema_lk s) (load_comps (s_comps s)) FUEL quirk true [] its.

(* (the field and component maps are built once for all messages) *)
Definition expand_msgs (quirk : bool) (s : schema) : option (list (msgdef * list ritem)) :=
  let lk := schema_lk s in
  let cs := load_comps (s_comps s) in
  fold_right (fun m acc => match acc, expand lk cs FUEL quirk true [] (md_items m) with
                           | Some l, Some r => Some ((m, r) :: l)
                           | _, _ => None end) (Some []) (s_msgs s).

Definition expand_schema (quirk : bool) (s : schema) : option xschema :=
  match expand_level false s (s_header s), expand_level false s (s_trailer s), expand_msgs quirk s with
  | Some h, Some t, Some ms => Some (mkX (load_fields (s_fields s)) (load_comps (s_comps s)) h t ms)
  | _, _, _ => None
  end.

Definition used_nums (x : xschema) : list N :=
  flat_map item_nums (x_header x) ++ flat_map item_nums (x_trailer x)
  ++ flat_map (fun mr => flat_map item_nums (snd mr)) (x_msgs x).

Definition HEADER : bytes := [104; 101; 97; 100; 101; 114].      (* "header" *)
Definition TRAILER : bytes := [116; 114; 97; 105; 108; 101; 114]. (* "trailer" *)

Definition version_of (s : schema) : option N :=
  match parse_nat (s_major s), parse_nat (s_minor s), parse_nat (s_rev s) with
  | Some a, Some b, Some c => Some (a * 1000 + b * 100 + c)
  | _, _, _ => None
  end.

Definition ftab_step (used : list N) (acc : option (list (key * ftab_entry))) (kv : key * fspec)
  : option (list (key * ftab_entry)) :=
  let f := snd kv in
  if existsb (N.eqb (fs_num f)) used then
    match acc, realm_of f with
    | Some l, Some r => Some (l ++ [(fst kv, mkFe (fs_num f) (fs_name f) (cls_of_ty (fs_ty f)) r)])
    | _, _ => None
    end
  else acc.

Definition mtab_init : list (key * mtab_entry) :=
  sm_ins TRAILER (mkMe TRAILER TRAILER false) (sm_ins HEADER (mkMe HEADER HEADER false) []).

Definition mtab_of (x : xschema) : list (key * mtab_entry) :=
  fold_left (fun m (mr : msgdef * list ritem) =>
               sm_ins (md_type (fst mr)) (mkMe (md_type (fst mr)) (md_name (fst mr)) (md_admin (fst mr))) m)
            (x_msgs x) mtab_init.

Definition tables_of (s : schema) (x : xschema) : option tables :=
  match version_of s, fold_left (ftab_step (used_nums x)) (x_fm x) (Some []) with
  | Some v, Some ft =>
    Some (mkTables v (s_type s ++ [46] ++ s_major s ++ [46] ++ s_minor s) ft (mtab_of x)
                   (filter (fun k => negb (is_tkey k)) (sm_keys (x_comps x))))
  | _, _ => None
  end.

(* metadata = tables + one trait tree per message table entry *)
Record meta := mkMeta { mt_tables : tables; mt_nodes : list (key * mnode) }.

Definition nodes_of (node : list ritem -> option mnode) (x : xschema) : option (list (key * mnode)) :=
  match node (x_header x), node (x_trailer x) with
  | Some h, Some t =>
    fold_left (fun acc (mr : msgdef * list ritem) =>
                 match acc, node (snd mr) with
                 | Some m, Some n => Some (sm_ins (md_type (fst mr)) n m)
                 | _, _ => None end)
              (x_msgs x) (Some (sm_ins TRAILER t (sm_ins HEADER h [])))
  | _, _ => None
  end.

(* THE SPECIFICATION: uniform component rule, every group described by its own definition *)
Definition meta_of_schema (s : schema) : option meta :=
  match expand_schema false s with
  | Some x =>
    match tables_of s x, nodes_of (fun its => Some (own_node its)) x with
    | Some t, Some n => Some (mkMeta t n)
    | _, _ => None
    end
  | None => None
  end.

(* ------------------------------------------------------------------ validity of a schema *)
Fixpoint ritems_ok (x : ritem) : bool :=
  match x with
  | RField n _ _ _ => (0 <? n) && (n <? 65536)
  | RGroup n _ _ sub =>
      (0 <? n) && (n <? 65536)
      && negb (match sub with [] => true | _ => false end)
      && nodup_keys (map (fun y => [item_num y]) sub)
      && forallb ritems_ok sub
  end.

Definition level_ok (its : list ritem) : bool :=
  negb (match its with [] => true | _ => false end)
  && nodup_keys (map (fun y => [item_num y]) its) && forallb ritems_ok its.

Definition has_num (n : N) (its : list ritem) : bool := existsb (fun y => negb (is_group y) && (item_num y =? n)) its.

Definition ident_ok (b : bytes) : bool :=
  match b with
  | [] => false
  | c :: _ => negb (is_digit c)
              && forallb (fun c => is_digit c || ((65 <=? c) && (c <=? 90)) || ((97 <=? c) && (c <=? 122)) || (c =? 95)) b
  end.

(* InPlaceReplaceInSet(ident_set, description, '_') *)
Definition ident_char (c : N) : bool :=
  is_digit c || ((65 <=? c) && (c <=? 90)) || ((97 <=? c) && (c <=? 122)) || (c =? 95).
Definition sanitize (b : bytes) : bytes := map (fun c => if ident_char c then c else 95) b.

Definition wf_schema (s : schema) : bool :=
  match expand_schema false s, meta_of_schema s with
  | Some x, Some _ =>
      level_ok (x_header x) && level_ok (x_trailer x)
      && forallb (fun mr => level_ok (snd mr)) (x_msgs x)
      && has_num 8 (x_header x) && has_num 9 (x_header x) && has_num 35 (x_header x)
      && has_num 10 (x_trailer x)
      (* field numbers and names are unique, names are identifiers, types are known *)
      && nodup_keys (map (fun f => [fd_num f]) (s_fields s))
      && nodup_keys (map fd_name (s_fields s))
      && forallb (fun f => ident_ok (fd_name f) && (0 <? fd_num f) && (fd_num f <? 65536)
                           && match type_code (fd_type f) with Some _ => true | None => false end) (s_fields s)
      (* message types and names are unique; every message type is a member of field 35's realm *)
      && nodup_keys (map md_type (s_msgs s))
      && nodup_keys (map md_name (s_msgs s) ++ map fd_name (s_fields s) ++ [HEADER; TRAILER])
      && forallb (fun m => ident_ok (md_name m) && negb (key_eqb (md_type m) HEADER) && negb (key_eqb (md_type m) TRAILER)
                           && match sm_find [35] (x_fm x) with
                              | Some f => existsb (fun e => key_eqb (ev_enum e) (md_type m)) (fs_vals f)
                              | None => false end) (s_msgs s)
      && nodup_keys (map fst (s_comps s))
      (* enumerations of char-typed fields are single 7-bit characters *)
      && forallb (fun f => match type_code (fd_type f) with
                           | Some ty => negb (is_char_ty ty)
                                        || forallb (fun e => match ev_enum e with [c] => c <? 128 | _ => false end) (fd_vals f)
                           | None => false end) (s_fields s)
      (* the value constants `Name_description` generated for one field are distinct identifiers *)
      && forallb (fun f => nodup_keys (map (fun e => sanitize (match ev_desc e with [] => ev_enum e | d => d end))
                                           (fd_vals f))) (s_fields s)
  | _, _ => false
  end.
