(* Well-formedness of generated metadata: what the codec relies on (sorted tables for the binary
   searches of GeneratedTable / presorted_set, key = number, unique positions for a deterministic
   encoding order, a group class with a first field behind every group trait, sorted realms for
   RealmBase::is_valid's binary_search, header/trailer preamble fields present and automatic).
   Boolean definitions only; the theorem is in C13/WfProofs.v. *)
From Coq Require Import NArith List Bool.
From F8 Require Import C13.SMap C13.Schema.
Import ListNotations.
Local Open Scope N_scope.

Fixpoint nodup_N (l : list N) : bool :=
  match l with
  | [] => true
  | a :: tl => negb (existsb (N.eqb a) tl) && nodup_N tl
  end.

Definition trait_keys_ok (m : list (key * trait)) : bool :=
  forallb (fun kv => key_eqb (fst kv) [t_num (snd kv)]) m.

Fixpoint wf_node (n : mnode) : bool :=
  match n with
  | MNode traits subs =>
      sm_sorted traits && trait_keys_ok traits
      && nodup_N (map (fun kv => t_pos (snd kv)) traits)
      && forallb (fun kv => (1 <=? t_pos (snd kv)) && (t_pos (snd kv) <=? N.of_nat (length traits))) traits
      && sm_sorted subs
      && forallb (fun kv => negb (N.testbit (t_flags (snd kv)) 3) || sm_mem (fst kv) subs) traits
      && (fix go (l : list (key * mnode)) : bool :=
            match l with
            | [] => true
            | (k, sn) :: tl =>
                match sm_find k traits with Some t => N.testbit (t_flags t) 3 | None => false end
                && negb (match node_traits sn with [] => true | _ => false end)
                && existsb (fun kv => t_pos (snd kv) =? 1) (node_traits sn)
                && wf_node sn && go tl
            end) subs
  end.

Definition realm_ok (r : realm) : bool :=
  sm_sorted (r_vals r) && negb (match r_vals r with [] => true | _ => false end)
  && forallb (fun kv => key_eqb (fst kv) (rkey (fst (snd kv)))) (r_vals r).

Definition wf_tables (t : tables) : bool :=
  sm_sorted (tb_fields t)
  && forallb (fun kv => key_eqb (fst kv) [fe_num (snd kv)]) (tb_fields t)
  && forallb (fun kv => match fe_realm (snd kv) with Some r => realm_ok r | None => true end) (tb_fields t)
  && sm_sorted (tb_msgs t)
  && forallb (fun kv => key_eqb (fst kv) (me_type (snd kv))) (tb_msgs t)
  && sm_mem HEADER (tb_msgs t) && sm_mem TRAILER (tb_msgs t)
  && keys_sorted (tb_comps t).

(* the preamble field n of header / trailer: a plain trait, not checked for presence, automatic *)
Definition preamble_ok (n : N) (nd : mnode) : bool :=
  match sm_find [n] (node_traits nd) with
  | Some t => negb (N.testbit (t_flags t) 0) && N.testbit (t_flags t) 6 && negb (N.testbit (t_flags t) 3)
  | None => false
  end.

Definition wf_meta (m : meta) : bool :=
  wf_tables (mt_tables m)
  && sm_sorted (mt_nodes m)
  && forallb (fun kn => wf_node (snd kn)) (mt_nodes m)
  && forallb (fun kv => sm_mem (fst kv) (mt_nodes m)) (tb_msgs (mt_tables m))
  && match sm_find HEADER (mt_nodes m), sm_find TRAILER (mt_nodes m) with
     | Some h, Some t => preamble_ok 8 h && preamble_ok 9 h && preamble_ok 35 h && preamble_ok 10 t
     | _, _ => false
     end.
