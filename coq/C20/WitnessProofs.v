(* C20: the refutation witnesses (on the run of the counterparty specification against the session model, small
   concrete schema C20/Example.v) and concrete instances of the hypotheses of the stream theorems.  Proofs only. *)
From Coq Require Import NArith ZArith List Bool Lia.
From F8 Require Import Sess.Bytes Sess.Msg Sess.Persist Sess.Session Sess.SimpleCodec Sess.Wire Sess.SessLemmas
  C20.Scenario C20.Peer C20.Spec_C20 C20.Classify C20.SessFacts C20.BurstProofs C20.HistoryProofs C20.CheckProofs C20.Example.
Import ListNotations.
Local Open Scope N_scope.

(* F26, step by step: expected numbers 1,2,3 | message 5: 4 | replay 3,4,5: 7 | message 6: refused, 7 never read;
   states: logon_sent, continuous, continuous, resend_request_sent ... *)
Lemma replay_only_fails :
  let '(ops, tr) := run_mini w_replay_only in
  c20_ok mini w_replay_only ops tr = false /\ alive ops tr = false /\ Spec_C20.delivered mini w_replay_only tr = false /\
  Spec_C20.aligned w_replay_only tr = false /\ c20_class ops tr = 2 /\
  recvs tr = [1; 2; 3; 4; 7; 7; 7] /\ states tr = [5; 1; 1; 12; 12; 12; 12].
Proof. vm_compute. repeat split. Qed.

Lemma high_logon_fails :
  let '(ops, tr) := run_mini w_high_logon in
  c20_ok mini w_high_logon ops tr = false /\ alive ops tr = false /\ c20_class ops tr = 1 /\
  recvs tr = [1; 1; 1] /\ states tr = [3; 7; 7].
Proof. vm_compute. repeat split. Qed.

(* a Reject above the expected number is not checked at all: 3 is never requested, never delivered; the session
   carries on "aligned" (expected numbers 1,2,3,4 | message 5: ResendRequest(4,0) ...) *)
Lemma reject_reveals_fails :
  let '(ops, tr) := run_mini w_reject_reveals in
  c20_ok mini w_reject_reveals ops tr = false /\ alive ops tr = true /\ Spec_C20.delivered mini w_reject_reveals tr = false /\
  Spec_C20.aligned w_reject_reveals tr = true /\ c20_class ops tr = 3 /\
  deliveries [68] 3 (all_events tr) = [] /\ recvs tr = [1; 2; 3; 4; 5; 6; 7].
Proof. vm_compute. repeat split. Qed.

Lemma with_gapfill_recovers :
  let '(ops, tr) := run_mini w_with_gapfill in
  c20_ok mini w_with_gapfill ops tr = true /\ c20_class ops tr = 0 /\
  recvs tr = [1; 2; 3; 4; 6; 7; 8] /\ states tr = [5; 1; 1; 12; 1; 1; 1].
Proof. vm_compute. repeat split. Qed.

Lemma no_loss_exact :
  let '(ops, tr) := run_mini w_no_loss in
  c20_ok mini w_no_loss ops tr = true /\ c20_exact mini w_no_loss tr = true /\ c20_class ops tr = 0.
Proof. vm_compute. repeat split. Qed.

(* the hypotheses of BurstProofs.gap_and_burst (with a GapFill in the burst) are met by the bytes of w_with_gapfill *)
Definition burst_w : list bitem := [BApp [68] 3 true; BGap 4 5; BApp [68] 5 true].

Definition instance_check (so : option sess) (c3 c4 : list bytes) : bool :=
  match so, c3 with
  | Some s, [rawg] =>
    ready_at s 3 &&
    match item_of dec_mini s rawg with Some g => bitem_eqb g (BApp [68] 5 false) | None => false end &&
    match items_of dec_mini s c4 with Some l => bitems_eqb l burst_w | None => false end &&
    tilesb 3 burst_w (5 + 1)
  | _, _ => false
  end.

Lemma instance_sound : forall so c3 c4, instance_check so c3 c4 = true ->
  exists s rawg,
    so = Some s /\ c3 = [rawg] /\
    good s /\ BurstProofs.aligned s 3 /\
    is_item dec_mini s rawg (BApp [68] 5 false) /\
    Forall2 (is_item dec_mini s) c4 burst_w /\
    tiles 3 burst_w (5 + 1) /\ forallb item_dup burst_w = true /\ has_gap burst_w = true.
Proof.
  intros so c3 c4 H. unfold instance_check in H.
  destruct so as [s|]; [|discriminate].
  destruct c3 as [|rawg [|x y]]; try discriminate.
  exists s, rawg.
  apply andb_true_iff in H; destruct H as [H H0].
  apply andb_true_iff in H; destruct H as [H H1].
  apply andb_true_iff in H; destruct H as [H H2].
  destruct (ready_at_sound _ _ H) as [G A].
  destruct (item_of dec_mini s rawg) as [g|] eqn:E1; [|discriminate]. apply bitem_eqb_eq in H2. subst g.
  destruct (items_of dec_mini s c4) as [l|] eqn:E2; [|discriminate]. apply bitems_eqb_eq in H1. subst l.
  split; [reflexivity|]. split; [reflexivity|]. split; [exact G|]. split; [exact A|].
  split; [apply item_of_sound; exact E1|]. split; [apply items_of_sound; exact E2|].
  split; [apply tilesb_sound; exact H0|]. split; reflexivity.
Qed.

Lemma gapfill_instance :
  exists s rawg,
    s_at3 = Some s /\ chunks_at w_with_gapfill 3 = [rawg] /\
    good s /\ BurstProofs.aligned s 3 /\
    is_item dec_mini s rawg (BApp [68] 5 false) /\
    Forall2 (is_item dec_mini s) (chunks_at w_with_gapfill 4) burst_w /\
    tiles 3 burst_w (5 + 1) /\ forallb item_dup burst_w = true /\ has_gap burst_w = true.
Proof. apply instance_sound. vm_compute. reflexivity. Qed.

(* ---- the gap is revealed by the counterparty's own ResendRequest, which the session also serves -------------------- *)
Lemma rr_reveals_recovers :
  let '(ops, tr) := run_mini w_rr_reveals in
  c20_ok mini w_rr_reveals ops tr = true /\ c20_class ops tr = 0 /\
  recvs tr = [1; 2; 3; 3; 4; 5; 6; 7] /\ states tr = [5; 1; 1; 1; 1; 1; 1; 1].
Proof. vm_compute. repeat split. Qed.

Definition burst_rr : list bitem := [BApp [68] 3 true; BGap 4 5].

(* state continuous (NOT resend_request_sent), one ahead of position 3 *)
Definition rr_check (so : option sess) (c5 : list bytes) : bool :=
  match so with
  | Some s =>
    s_reader s && s_active s && negb (s_shutdown s) && (s_state s =? st_continuous) && (s_next_recv s =? 3 + 1) &&
    match items_of dec_mini s c5 with Some l => bitems_eqb l burst_rr | None => false end &&
    tilesb 3 burst_rr (4 + 1)
  | None => false
  end.

Lemma rr_check_sound : forall so c5, rr_check so c5 = true ->
  exists s, so = Some s /\ good s /\ ahead s 3 /\ s_state s = st_continuous /\
            Forall2 (is_item dec_mini s) c5 burst_rr /\ tiles 3 burst_rr (4 + 1) /\
            forallb item_dup burst_rr = true /\ has_gap burst_rr = true.
Proof.
  intros so c5 H. unfold rr_check in H. destruct so as [s|]; [|discriminate]. exists s.
  apply andb_true_iff in H; destruct H as [H T]. apply andb_true_iff in H; destruct H as [H I].
  apply andb_true_iff in H; destruct H as [H N]. apply andb_true_iff in H; destruct H as [H St].
  apply andb_true_iff in H; destruct H as [H Sh]. apply andb_true_iff in H; destruct H as [R A].
  apply negb_true_iff in Sh. apply N.eqb_eq in St. apply N.eqb_eq in N.
  destruct (items_of dec_mini s c5) as [l|] eqn:E; [|discriminate]. apply bitems_eqb_eq in I. subst l.
  split; [reflexivity|]. split; [split; [exact R|split; [exact A|split; [exact Sh|left; exact St]]]|].
  split; [split; [left; exact St|exact N]|]. split; [exact St|].
  split; [apply items_of_sound; exact E|]. split; [apply tilesb_sound; exact T|]. split; reflexivity.
Qed.

Lemma rr_instance :
  exists s, s_after_rr = Some s /\ good s /\ ahead s 3 /\ s_state s = st_continuous /\
            Forall2 (is_item dec_mini s) (chunks_at w_rr_reveals 5) burst_rr /\ tiles 3 burst_rr (4 + 1) /\
            forallb item_dup burst_rr = true /\ has_gap burst_rr = true.
Proof. apply rr_check_sound. vm_compute. reflexivity. Qed.

Lemma rr_example :
  (let '(ops, tr) := run_mini w_rr_reveals in
   c20_ok mini w_rr_reveals ops tr = true /\ c20_class ops tr = 0 /\
   recvs tr = [1; 2; 3; 3; 4; 5; 6; 7] /\ states tr = [5; 1; 1; 1; 1; 1; 1; 1]) /\
  (exists s, s_after_rr = Some s /\ good s /\ ahead s 3 /\ s_state s = st_continuous /\
             Forall2 (is_item dec_mini s) (chunks_at w_rr_reveals 5) burst_rr /\ tiles 3 burst_rr (4 + 1) /\
             forallb item_dup burst_rr = true /\ has_gap burst_rr = true).
Proof. exact (conj rr_reveals_recovers rr_instance). Qed.
