(* C20: soundness of the executable classification (C20/Classify.v): what `item_of` / `items_of` / `tilesb`
   accept satisfies the hypotheses of the stream theorems.  Proofs only. *)
From Coq Require Import NArith ZArith List Bool Lia.
From F8 Require Import Sess.Bytes Sess.Msg Sess.Persist Sess.Session Sess.SessLemmas C20.Peer C20.Classify C20.SessFacts C20.BurstProofs.
Import ListNotations.
Local Open Scope N_scope.

Section Check.
Variable decode : bytes -> decode_result.

Lemma item_of_sound : forall s raw it, item_of decode s raw = Some it -> is_item decode s raw it.
Proof.
  intros s raw it. unfold item_of.
  destruct (raw_seq raw) as [q|] eqn:RS; [|discriminate].
  destruct (decode raw) as [m|] eqn:DE; [|discriminate].
  assert (AR : arrives decode raw q m) by (split; assumption).
  destruct (beq (m_type m) mt_reject) eqn:E1.
  { intro H. inversion H; subst. apply beq_eq in E1. exists m. split; assumption. }
  destruct (cid_ok s m) eqn:C; cbn [negb]; [|discriminate].
  destruct (beq (m_type m) mt_sequence_reset) eqn:E2.
  { destruct (get_field T_NewSeqNo (m_body m)) as [v|] eqn:NS; [|discriminate].
    intro H. inversion H; subst. apply beq_eq in E2. exists m, v. repeat split; assumption. }
  destruct (possdup m && negb (time_ok m)) eqn:PT; [discriminate|].
  assert (TO : possdup m = true -> time_ok m = true).
  { intro P. rewrite P in PT. cbn in PT. apply negb_false_iff in PT. exact PT. }
  destruct (beq (m_type m) mt_heartbeat) eqn:E3.
  { intro H. inversion H; subst. apply beq_eq in E3. exists m. repeat split; assumption. }
  destruct (is_session_type (m_type m)) eqn:E4; [discriminate|].
  intro H. inversion H; subst. exists m. repeat split; assumption.
Qed.

Lemma items_of_sound : forall s raws items, items_of decode s raws = Some items -> Forall2 (is_item decode s) raws items.
Proof.
  induction raws as [|raw raws IH]; intros items H; cbn [items_of] in H.
  - inversion H. constructor.
  - destruct (item_of decode s raw) as [it|] eqn:E1; [|discriminate].
    destruct (items_of decode s raws) as [l|] eqn:E2; [|discriminate].
    inversion H; subst. constructor; [apply item_of_sound; exact E1|apply IH; reflexivity].
Qed.

End Check.

Lemma tilesb_sound : forall l pos past, tilesb pos l past = true -> tiles pos l past.
Proof.
  induction l as [|it l IH]; intros pos past H; cbn [tilesb tiles] in *.
  - apply N.eqb_eq. exact H.
  - destruct it.
    + apply andb_true_iff in H. destruct H as [H1 H2]. apply N.eqb_eq in H1. split; [exact H1|apply IH; exact H2].
    + apply andb_true_iff in H. destruct H as [H1 H2]. apply N.eqb_eq in H1. split; [exact H1|apply IH; exact H2].
    + apply andb_true_iff in H. destruct H as [H1 H2]. apply N.eqb_eq in H1. split; [exact H1|apply IH; exact H2].
    + apply andb_true_iff in H. destruct H as [H H3]. apply andb_true_iff in H. destruct H as [H1 H2].
      apply N.eqb_eq in H1. apply N.ltb_lt in H2. split; [exact H1|]. split; [exact H2|apply IH; exact H3].
Qed.

Lemma bitem_eqb_eq : forall a b, bitem_eqb a b = true -> a = b.
Proof.
  intros a b H. destruct a, b; cbn [bitem_eqb] in H; try discriminate.
  - apply andb_true_iff in H. destruct H as [H H3]. apply andb_true_iff in H. destruct H as [H1 H2].
    apply beq_eq in H1. apply N.eqb_eq in H2. apply Bool.eqb_prop in H3. congruence.
  - apply andb_true_iff in H. destruct H as [H1 H2]. apply N.eqb_eq in H1. apply Bool.eqb_prop in H2. congruence.
  - apply N.eqb_eq in H. congruence.
  - apply andb_true_iff in H. destruct H as [H1 H2]. apply N.eqb_eq in H1. apply N.eqb_eq in H2. congruence.
Qed.
Lemma bitems_eqb_eq : forall a b, bitems_eqb a b = true -> a = b.
Proof.
  induction a as [|x a IH]; intros [|y b] H; cbn [bitems_eqb] in H; try discriminate; [reflexivity|].
  apply andb_true_iff in H. destruct H as [H1 H2]. apply bitem_eqb_eq in H1. apply IH in H2. congruence.
Qed.

Lemma ready_at_sound : forall s pos, ready_at s pos = true -> good s /\ aligned s pos.
Proof.
  intros s pos H. unfold ready_at in H.
  repeat (apply andb_true_iff in H; destruct H as [H ?]).
  apply negb_true_iff in H2. apply N.eqb_eq in H1. apply N.eqb_eq in H0.
  split; [|split; assumption]. split; [exact H|]. split; [exact H3|]. split; [exact H2|]. left. exact H1.
Qed.
