(* C20: run_with_peer IS the session model of coq/Sess driven by the history it records:
   the trace it returns equals Sess.Wire.run_history of the operations it returns.  Proofs only. *)
From Coq Require Import NArith ZArith List Bool Lia.
From F8 Require Import Sess.Bytes Sess.Msg Sess.Persist Sess.Session Sess.SimpleCodec Sess.Wire C20.Scenario C20.Peer.
Import ListNotations.
Local Open Scope N_scope.

Section Tie.
Variable sc : schema.

Notation dec0 := (simple_decode sc []).

Lemma step_op_wire : forall w o, step_op sc dec0 [] w o = run_op sc w o.
Proof.
  intros w o. unfold step_op. destruct o; try reflexivity.
  destruct (w_sess w) as [s|] eqn:E; [|reflexivity].
  cbn [run_op]. rewrite E. reflexivity.
Qed.

(* the world after a history *)
Fixpoint wafter (w : world) (l : list op) : world :=
  match l with
  | [] => w
  | o :: l' => let '(w1, _) := run_op sc w o in let '(w2, _) := snapshot w1 in wafter w2 l'
  end.

Lemma run_ops_snoc : forall l w o,
  run_ops sc w (l ++ [o]) =
  (run_ops sc w l ++ [let '(w1, evs) := run_op sc (wafter w l) o in let '(_, sn) := snapshot w1 in mkStep evs sn])%list.
Proof.
  induction l as [|o' l IH]; intros w o; cbn [app run_ops wafter].
  - destruct (run_op sc w o) as [w1 evs]. destruct (snapshot w1) as [w2 sn]. reflexivity.
  - destruct (run_op sc w o') as [w1 evs]. destruct (snapshot w1) as [w2 sn]. cbn [app]. rewrite IH. reflexivity.
Qed.

Lemma wafter_snoc : forall l w o,
  wafter w (l ++ [o]) = (let '(w1, _) := run_op sc (wafter w l) o in fst (snapshot w1)).
Proof.
  induction l as [|o' l IH]; intros w o; cbn [app wafter].
  - destruct (run_op sc w o) as [w1 evs]. destruct (snapshot w1) as [w2 sn]. reflexivity.
  - destruct (run_op sc w o') as [w1 evs]. destruct (snapshot w1) as [w2 sn]. apply IH.
Qed.

Definition ops_of (r : rst) : list op := rev (map snd (r_ops r)).
Definition tied (r : rst) : Prop :=
  r_w r = wafter world0 (ops_of r) /\ rev (r_tr r) = run_ops sc world0 (ops_of r).

Lemma tied_exec : forall r txt o r1 evs, tied r -> exec sc dec0 [] r txt o = (r1, evs) -> tied r1.
Proof.
  intros r txt o r1 evs [T1 T2] E. unfold exec in E. rewrite step_op_wire in E.
  destruct (run_op sc (r_w r) o) as [w1 ev1] eqn:R. destruct (snapshot w1) as [w2 sn] eqn:S.
  inversion E; subst. unfold tied, ops_of. cbn [r_w r_ops r_tr map snd rev].
  fold (ops_of r). rewrite wafter_snoc, run_ops_snoc. rewrite <- T1, R, S. cbn [fst].
  split; [reflexivity|]. rewrite T2. reflexivity.
Qed.

Lemma tied_with_pe : forall r p, tied r -> tied (r_with_pe p r).
Proof. intros r p T. exact T. Qed.

Lemma tied_react : forall fuel r evs, tied r -> tied (react sc dec0 [] fuel r evs).
Proof.
  induction fuel as [|f IH]; intros r evs T; cbn [react]; [exact T|].
  destruct (first_resend evs) as [[b e]|]; [|exact T].
  destruct (replay (r_pe r) b e) as [items d]. destruct items as [|i items]; [exact T|].
  match goal with |- tied (let '(r1, evs1) := ?X in _) => destruct X as [r1 evs1] eqn:E end.
  apply IH. eapply tied_exec; [|exact E]. apply tied_with_pe. exact T.
Qed.

Lemma tied_peer_send : forall r lost t body, tied r -> tied (peer_send sc dec0 [] r lost t body).
Proof.
  intros r lost t body T. unfold peer_send. destruct lost; [exact T|].
  match goal with |- tied (let '(r2, evs) := ?X in _) => destruct X as [r2 evs] eqn:E end.
  apply tied_react. eapply tied_exec; [|exact E]. exact T.
Qed.

Lemma tied_do_act : forall r a, tied r -> tied (do_act sc dec0 [] r a).
Proof.
  intros r a T. destruct a; cbn [do_act]; try exact T; try (apply tied_peer_send; exact T);
    try (apply tied_peer_send; destruct y; exact T).
  match goal with |- tied (let '(r1, evs) := ?X in _) => destruct X as [r1 evs] eqn:E end.
  apply tied_react. eapply tied_exec; [|exact E]. exact T.
Qed.

Lemma tied_fold : forall acts r, tied r -> tied (fold_left (do_act sc dec0 []) acts r).
Proof. induction acts as [|a acts IH]; intros r T; cbn [fold_left]; [exact T|]. apply IH. apply tied_do_act. exact T. Qed.

(* the trace returned by run_with_peer is Sess.Wire's trace of the history it returns *)
Theorem run_with_peer_is_run_history : forall acts,
  let '(ops, tr) := run_with_peer sc dec0 [] acts in tr = run_history sc ops.
Proof.
  intros acts. unfold run_with_peer, run_acts, run_history.
  assert (T : tied (fold_left (do_act sc dec0 []) acts rst0)) by (apply tied_fold; split; reflexivity).
  destruct T as [_ T2]. exact T2.
Qed.

End Tie.

(* ---- the counterparty's answer to a ResendRequest has the shape the stream theorems ask for -------------------- *)
From F8 Require Import C20.Classify C20.SessFacts C20.BurstProofs.

(* how the session classifies an item of the burst (every item carries PossDupFlag=Y) *)
Definition shape (i : item) : bitem :=
  match i with
  | IResend pm => if is_reject_type (pm_type pm) then BRej (pm_seq pm) else BApp (pm_type pm) (pm_seq pm) true
  | IGapFill g n => BGap g n
  end.

(* the remembered messages are numbered n, n+1, ..., past-1 *)
Fixpoint consec (l : list pmsg) (n past : N) : Prop :=
  match l with
  | [] => n = past
  | pm :: l' => pm_seq pm = n /\ consec l' (n + 1) past
  end.

Lemma replay_items_tiles : forall l gs past d n,
  consec l n past -> (match gs with Some g => g < n | None => True end) ->
  tiles (match gs with Some g => g | None => n end) (map shape (fst (replay_items l gs past d))) past /\
  forallb item_dup (map shape (fst (replay_items l gs past d))) = true.
Proof.
  induction l as [|pm l IH]; intros gs past d n C G; cbn [replay_items consec] in *.
  - subst n. destruct gs as [g|]; cbn [fst map shape tiles forallb item_dup]; repeat split; assumption.
  - destruct C as [Q C]. subst n.
    destruct (if is_reject_type (pm_type pm) then pop d else (negb (is_session_type (pm_type pm)), d)) as [resend d1] eqn:RS.
    destruct resend.
    + specialize (IH None past d1 (pm_seq pm + 1) C I). destruct (replay_items l None past d1) as [r d2]. cbn [fst] in *.
      destruct IH as [T D]. destruct gs as [g|]; cbn [app map shape tiles forallb item_dup fst].
      * split; [split; [reflexivity|]; split; [exact G|]|].
        -- destruct (is_reject_type (pm_type pm)); cbn [tiles]; (split; [reflexivity|exact T]).
        -- destruct (is_reject_type (pm_type pm)); cbn [item_dup andb]; exact D.
      * split.
        -- destruct (is_reject_type (pm_type pm)); cbn [tiles]; (split; [reflexivity|exact T]).
        -- destruct (is_reject_type (pm_type pm)); cbn [item_dup andb]; exact D.
    + destruct gs as [g|].
      * destruct (pop d1) as [split d2]. destruct split.
        -- assert (L : pm_seq pm < pm_seq pm + 1) by lia.
           specialize (IH (Some (pm_seq pm)) past d2 (pm_seq pm + 1) C L).
           destruct (replay_items l (Some (pm_seq pm)) past d2) as [r d3]. cbn [fst map shape tiles forallb item_dup] in *.
           destruct IH as [T D]. split; [|exact D]. split; [reflexivity|]. split; [lia|exact T].
        -- assert (L : g < pm_seq pm + 1) by lia. exact (IH (Some g) past d2 (pm_seq pm + 1) C L).
      * assert (L : pm_seq pm < pm_seq pm + 1) by lia.
        exact (IH (Some (pm_seq pm)) past d1 (pm_seq pm + 1) C L).
Qed.
