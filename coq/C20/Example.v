(* C20: a small concrete schema (the part of the FIX.4.2 / UTEST dictionary the counterparty uses) and the
   witness scenarios of the refutation theorems.  Definitions only. *)
From Coq Require Import NArith ZArith List Bool.
From F8 Require Import Sess.Bytes Sess.Msg Sess.Persist Sess.Session Sess.SimpleCodec Sess.Wire C20.Scenario C20.Peer.
Import ListNotations.
Local Open Scope N_scope.

Definition mini : schema :=
  mkSchema [70;73;88;46;52;46;50]                                              (* FIX.4.2 *)
    [(8,1); (9,2); (35,3); (49,4); (56,5); (34,10); (43,19); (52,21); (122,22)]
    [34; 49; 52; 56]
    []
    [ mkDef [48] true [(112,1)] [];                                            (* Heartbeat *)
      mkDef [49] true [(112,1)] [112];                                         (* TestRequest *)
      mkDef [50] true [(7,1); (16,2)] [7; 16];                                 (* ResendRequest *)
      mkDef [51] true [(45,1); (58,5)] [45];                                   (* Reject *)
      mkDef [52] true [(123,1); (36,2)] [36];                                  (* SequenceReset *)
      mkDef [53] true [(58,1)] [];                                             (* Logout *)
      mkDef [65] true [(98,1); (108,2); (141,5)] [98; 108];                    (* Logon *)
      mkDef [68] false [(11,3); (21,10); (55,20); (54,40); (60,42); (40,45)] [11; 21; 40; 54; 55; 60] ]   (* NewOrderSingle *)
    [[68]]
    [].

Definition body_D : list (N * bytes) :=
  [(11, [65]); (21, [49]); (55, [88]); (54, [49]);
   (60, [50;48;50;54;48;57;50;50;45;48;48;58;48;48;58;48;48;46;48;48;48]); (40, [49])].

Definition sp_I : startp := mkStart Initiator PFile [67;76;73] [83;82;86] (mkParams false true false false []) 30 0 0.
Definition sp_A : startp := mkStart Acceptor PFile [83;82;86] [67;76;73] (mkParams false true false false []) 30 0 0.

Definition D_ok : act := AMsg false [68] body_D.
Definition D_lost : act := AMsg true [68] body_D.
Definition H_lost : act := AMsg true [48] [].

(* DESIGN F26: logon (1), 2 arrives, 3 and 4 are lost, 5 arrives -> ResendRequest(3,0); replay 3,4,5; then 6, 7 *)
Definition w_replay_only : list act := [ASess [] (OStart sp_I None); ALogon; D_ok; D_lost; D_lost; D_ok; D_ok; D_ok].
(* the same, but 4 was a Heartbeat: the burst is replay 3, GapFill 4->5, replay 5 *)
Definition w_with_gapfill : list act := [ASess [] (OStart sp_I None); ALogon; D_ok; D_lost; H_lost; D_ok; D_ok; D_ok].
(* an acceptor that expects 1; the counterparty's Logon carries 4 *)
Definition w_high_logon : list act := [ASess [] (OStart sp_A None); APeerNum 4; ALogon; D_ok].
(* 3 is lost; the Reject numbered 4 arrives, then 5 and 6 *)
Definition w_reject_reveals : list act :=
  [ASess [] (OStart sp_I None); ALogon; D_ok; D_lost; AMsg false [51] [(45, [50])]; D_ok; D_ok].
(* both sides lost messages: the session has sent application message 2; the counterparty's 3 is lost; the
   counterparty's own ResendRequest [2,0], numbered 4, reveals the gap: the session sends ResendRequest(3,0) AND serves
   the counterparty's request from its persister (state resend_request_received -> continuous); the burst is
   replay 3, GapFill 4->5 *)
Definition spec_D20 : msgspec := mkSpec [68] [] body_D 0 false true.
Definition w_rr_reveals : list act :=
  [ASess [] (OStart sp_I None); ALogon; D_ok; ASess [] (OSend spec_D20); D_lost;
   AMsg false [50] [(7, [50]); (16, [48])]; D_ok; D_ok].
(* no loss *)
Definition w_no_loss : list act := [ASess [] (OStart sp_I None); ALogon; D_ok; AMsg false [48] []; D_ok; D_ok].

Definition run_mini (acts : list act) : list op * trace := run_with_peer mini (simple_decode mini []) [] acts.

Definition recvs (tr : trace) : list N :=
  flat_map (fun st => match st_snap st with Some sn => [sn_recv sn] | None => [] end) tr.
Definition states (tr : trace) : list N :=
  flat_map (fun st => match st_snap st with Some sn => [sn_state sn] | None => [] end) tr.

(* ---- concrete bytes and a concrete session state for the non-vacuity theorems ---------------------------------- *)
Definition dec_mini : bytes -> decode_result := simple_decode mini [].
Definition chunks_at (acts : list act) (k : nat) : list bytes :=
  match nth k (fst (run_mini acts)) OEmpty with OIn c => c | _ => [] end.
(* the session after START, the Logon exchange and message 2: continuous, expecting 3 *)
Definition s_at3 : option sess := w_sess (r_w (run_acts mini dec_mini [] [ASess [] (OStart sp_I None); ALogon; D_ok])).

(* the session right after it has processed the counterparty's ResendRequest of w_rr_reveals (operation 4 of the
   history), before the burst (operation 5) arrives *)
Definition s_after_rr : option sess :=
  match w_sess (r_w (run_acts mini dec_mini [] (firstn 5 w_rr_reveals))) with
  | Some s => Some (fst (feed mini dec_mini [] T0 (chunks_at w_rr_reveals 4) s))
  | None => None
  end.
