(* Property C20 "Sequence gaps are recovered with a conformant counterparty" as an executable predicate on
   observables.  Written from the property text: it does not call the session model and it does not call the
   counterparty specification (C20/Peer.v) -- it only shares the scenario syntax (C20/Scenario.v), the
   history/trace syntax (Sess.Wire) and the tag=value / framing utilities (Sess.Msg).

   Inputs: the scenario (what the counterparty numbered: which messages, which of them were lost), the history
   that was executed (the operations, among them the IN operations carrying the counterparty's bytes) and the
   trace of the session (either the real one or the model's).

     (alive)     the session never terminates for a sequence-number reason: every message the counterparty
                 transmitted is processed (one RET of Session::process per message) and process returns true --
                 unless the message was handed to the application (then the value is the application's) or is
                 a Reject (the default handle_reject answers false without ending the session) --, and the
                 session never writes a Logout;
     (delivered) every application message the counterparty numbered up to its last transmitted message is
                 handed to the application (a DELIVER event with its type and number) at least once;
     (aligned)   at the end of the history (every ResendRequest has been answered, nothing is outstanding) the
                 session's expected inbound number equals the number after the counterparty's last transmitted
                 message (= its next number, unless its last messages were lost and nothing was sent since).

   c20_exact is the stronger statement used for histories without loss: exactly one delivery per application
   message, none flagged PossDup. *)
From Coq Require Import NArith ZArith List Bool.
From F8 Require Import Sess.Bytes Sess.Msg Sess.Persist Sess.Session Sess.Wire C20.Scenario.
Import ListNotations.
Local Open Scope N_scope.

(* ---- what the counterparty numbered (from the scenario alone) ------------------------------------------------ *)
Record numbered := mkNum { nu_seq : N; nu_type : bytes; nu_lost : bool }.

Fixpoint numbering (acts : list act) (next : N) : list numbered :=
  match acts with
  | [] => []
  | APeerNum n :: r => numbering r n
  | ALogon :: r => mkNum next [65] false :: numbering r (next + 1)
  | ALogonR y :: r => let n := if y then 1 else next in mkNum n [65] false :: numbering r (n + 1)
  | AMsg lost t _ :: r => mkNum next t lost :: numbering r (next + 1)
  | _ :: r => numbering r next
  end.

(* the number after the last TRANSMITTED message *)
Fixpoint horizon (l : list numbered) (h : option N) : option N :=
  match l with
  | [] => h
  | x :: r => horizon r (if nu_lost x then h else Some (nu_seq x + 1))
  end.

Definition is_app (sc : schema) (t : bytes) : bool :=
  match find_def t (sc_msgs sc) with Some d => negb (d_admin d) | None => false end.

Definition owed (sc : schema) (acts : list act) : list numbered :=
  let l := numbering acts 1 in
  match horizon l None with
  | None => []
  | Some h => filter (fun x => is_app sc (nu_type x) && (nu_seq x <? h)) l
  end.

(* ---- what the session did --------------------------------------------------------------------------------------- *)
Definition all_events (tr : trace) : list event := flat_map st_events tr.

Definition deliveries (t : bytes) (q : N) (evs : list event) : list bool :=
  flat_map (fun e => match e with
                     | EDeliver t' q' pd => if beq t t' && (q =? q') then [pd] else []
                     | _ => []
                     end) evs.

Definition msg_type_of (raw : bytes) : bytes :=
  match tok_get [51;53] (tokens raw) with Some t => t | None => [] end.

(* the events of one operation cut at the RETs of Session::process: one segment per processed message *)
Fixpoint segments (evs cur : list event) : list (list event * Z) :=
  match evs with
  | [] => []
  | ERet z :: r => (rev cur, z) :: segments r []
  | e :: r => segments r (e :: cur)
  end.

Definition has_deliver (seg : list event) : bool :=
  existsb (fun e => match e with EDeliver _ _ _ => true | _ => false end) seg.

(* process returned true; or the message was handed to the application (then the value is the application's
   answer); or it is a Reject (default handle_reject answers false) *)
Fixpoint rets_ok (msgs : list bytes) (segs : list (list event * Z)) : bool :=
  match msgs, segs with
  | [], [] => true
  | raw :: ms, (seg, z) :: segs' =>
    ((z =? 1)%Z || has_deliver seg || beq (msg_type_of raw) [51]) && rets_ok ms segs'
  | _, _ => false
  end.

Definition writes_logout (evs : list event) : bool :=
  existsb (fun e => match e with EOut b => beq (msg_type_of b) [53] | _ => false end) evs.

Fixpoint alive (ops : list op) (tr : trace) : bool :=
  match ops, tr with
  | [], [] => true
  | o :: ops', st :: tr' =>
    negb (writes_logout (st_events st)) &&
    match o with
    | OIn chunks => rets_ok (fst (frames (concat chunks))) (segments (st_events st) [])
    | _ => true
    end && alive ops' tr'
  | _, _ => false
  end.

Fixpoint last_recv (tr : trace) (cur : option N) : option N :=
  match tr with
  | [] => cur
  | st :: tr' => last_recv tr' (match st_snap st with Some sn => Some (sn_recv sn) | None => cur end)
  end.

Fixpoint last_state (tr : trace) (cur : N) : N :=
  match tr with
  | [] => cur
  | st :: tr' => last_state tr' (match st_snap st with Some sn => sn_state sn | None => cur end)
  end.

(* not judged while the session is in its logon phase (just created: wait_for_logon / logon_sent) *)
Definition aligned (acts : list act) (tr : trace) : bool :=
  match horizon (numbering acts 1) None with
  | None => true
  | Some h =>
    let st := last_state tr 0 in
    if (st =? 3) || (st =? 5) || (st =? 0) then true
    else match last_recv tr None with Some r => r =? h | None => false end
  end.

(* the scenario itself is conformant: the counterparty transmits only after it has sent its Logon on the current
   connection (messages numbered while disconnected are LOST ones) *)
Fixpoint scn_conformant (acts : list act) (logged : bool) : bool :=
  match acts with
  | [] => true
  | ASess _ (OStart _ _) :: r => scn_conformant r false
  | ASess _ ORestart :: r => scn_conformant r false
  | ALogon :: r => negb logged && scn_conformant r true
  | ALogonR _ :: r => negb logged && scn_conformant r true
  | AMsg false _ _ :: r => logged && scn_conformant r logged
  | _ :: r => scn_conformant r logged
  end.

Definition delivered (sc : schema) (acts : list act) (tr : trace) : bool :=
  let evs := all_events tr in
  forallb (fun x => match deliveries (nu_type x) (nu_seq x) evs with [] => false | _ => true end) (owed sc acts).

Definition c20_ok (sc : schema) (acts : list act) (ops : list op) (tr : trace) : bool :=
  negb (scn_conformant acts false) || (alive ops tr && delivered sc acts tr && aligned acts tr).

(* exactly once, never PossDup *)
Definition c20_exact (sc : schema) (acts : list act) (tr : trace) : bool :=
  let evs := all_events tr in
  forallb (fun x => match deliveries (nu_type x) (nu_seq x) evs with [false] => true | _ => false end) (owed sc acts).

(* ---- classification of a history (the hypotheses of c20_gapfill_partial, negated) ------------------------------ *)
(* Read off the observables: the bytes the counterparty transmitted and the session's snapshots.
     1 = "Logon above expected": a Logon of the counterparty carries a number above the one the session expects
         (its expected number before the Logon; an acceptor's is the configured receive number, else the
         recovered control record, else what it shows);
     2 = "gap not closed by a GapFill": a message above the expected number, and the burst that answers the
         session's ResendRequest contains no SequenceReset-GapFill;
     3 = "gap revealed by a Reject": a Reject (35=3) arrives above the expected number;
     4 = "gap revealed by a Logout": a Logout (35=5) arrives above the expected number;
     5 = "gap revealed by a SequenceReset": a SequenceReset arrives above the expected number outside a burst;
     0 = none of these.  The first that applies in history order. *)
Definition fieldN (t : N) (raw : bytes) : option N :=
  match tok_get (dec t) (tokens raw) with Some v => undec v | None => None end.

Definition is_gapfill (raw : bytes) : bool := beq (msg_type_of raw) [52].

Record cst := mkC { c_sp : startp; c_recv : N; c_ctrl : option (N * N); c_state : N; c_gap : bool }.

Definition logon_expects (c : cst) : N :=
  match sp_role (c_sp c) with
  | Initiator => c_recv c
  | Acceptor =>
    if negb (sp_rs (c_sp c) =? 0) then sp_rs (c_sp c)
    else match sp_pk (c_sp c), c_ctrl c with
         | PFile, Some (_, b) => b
         | _, _ => c_recv c
         end
  end.

Definition observe (c : cst) (gap : bool) (st : step) : cst :=
  match st_snap st with
  | Some sn => mkC (c_sp c) (sn_recv sn) (sn_ctrl sn) (sn_state sn) gap
  | None => mkC (c_sp c) (c_recv c) (c_ctrl c) (c_state c) gap
  end.

Fixpoint classify (c : cst) (ops : list op) (tr : trace) : N :=
  match ops, tr with
  | o :: ops', st :: tr' =>
    match o with
    | OStart p _ => classify (observe (mkC p 0 None 0 false) false st) ops' tr'
    | OIn chunks =>
      let msgs := fst (frames (concat chunks)) in
      match msgs with
      | raw :: _ =>
        let q := match fieldN T_MsgSeqNum raw with Some q => q | None => 0 end in
        if beq (msg_type_of raw) [65] && (c_state c =? 3 (* wait_for_logon *) ) || beq (msg_type_of raw) [65] && (c_state c =? 5 (* logon_sent *)) then
          if (if beq (match tok_get (dec T_ResetSeqNumFlag) (tokens raw) with Some v => v | None => [] end) [89] then 1 else logon_expects c) <? q then 1 else classify (observe c false st) ops' tr'
        else if c_gap c then
          (* this burst answers the ResendRequest *)
          if existsb is_gapfill msgs then classify (observe c false st) ops' tr' else 2
        else if (c_recv c <? q) && beq (msg_type_of raw) [51] then 3
        else if (c_recv c <? q) && beq (msg_type_of raw) [53] then 4
        else if (c_recv c <? q) && is_gapfill raw then 5
        else if (c_recv c <? q) && negb (is_gapfill raw) then classify (observe c true st) ops' tr'
        else classify (observe c false st) ops' tr'
      | [] => classify (observe c (c_gap c) st) ops' tr'
      end
    | _ => classify (observe c (c_gap c) st) ops' tr'
    end
  | _, _ => if c_gap c then 2 else 0
  end.

Definition c20_class (ops : list op) (tr : trace) : N :=
  classify (mkC default_sp 0 None 0 false) ops tr.
