(* C20: how the session classifies one inbound message -- by the number Session::process scans from the raw
   bytes and by the decoded form --, as executable definitions.  They are the vocabulary of the theorems of
   C20/BurstProofs.v and C20/HistoryProofs.v, and `item_of` lets the hypotheses of those theorems be CHECKED on
   concrete bytes (witnesses in the Props file; every generated case in the correspondence run).
   Definitions only. *)
From Coq Require Import NArith ZArith List Bool.
From F8 Require Import Sess.Bytes Sess.Msg Sess.Persist Sess.Session C20.Peer.
Import ListNotations.
Local Open Scope N_scope.

(* ---- classification of an inbound message by its decoded form ------------------------------------------------ *)
Definition raw_seq (raw : bytes) : option N :=
  match find_after pat_34 raw with
  | Some rest => fast_atoi_u rest SOH 0
  | None => None
  end.

Definition fld_or_nil (o : option bytes) : bytes := match o with Some v => v | None => [] end.
Definition cid_ok (s : sess) (m : msg) : bool :=
  negb (pr_ec (s_par s)) ||
  (beq (fld_or_nil (get_field T_TargetCompID (m_hdr m))) (s_snd s) &&
   beq (fld_or_nil (get_field T_SenderCompID (m_hdr m))) (s_tgt s)).
Definition possdup (m : msg) : bool := bool_field (get_field T_PossDupFlag (m_hdr m)).
Definition time_ok (m : msg) : bool :=
  match get_field T_OrigSendingTime (m_hdr m), get_field T_SendingTime (m_hdr m) with
  | Some ost, Some st => negb (bgt ost st)
  | _, _ => true
  end.

(* one message of the stream as the session classifies it *)
Inductive bitem :=
| BApp (t : bytes) (q : N) (pd : bool)     (* application message of type t, number q, PossDupFlag pd *)
| BHb (q : N) (pd : bool)                  (* Heartbeat *)
| BRej (q : N)                             (* Reject *)
| BGap (q n : N).                          (* SequenceReset-GapFill, MsgSeqNum q, NewSeqNo n *)

Definition item_dup (it : bitem) : bool :=
  match it with BApp _ _ pd => pd | BHb _ pd => pd | _ => true end.
Definition item_is_gap (it : bitem) : bool := match it with BGap _ _ => true | _ => false end.
Definition has_gap (l : list bitem) : bool := existsb item_is_gap l.
(* the deliveries owed for a list of items: its application messages, in order *)
Definition item_dels (l : list bitem) : list (bytes * N * bool) :=
  flat_map (fun it => match it with BApp t q pd => [(t, q, pd)] | _ => [] end) l.
(* what Session::process returns for them: the router's answer for an application message, false for a
   Reject (default handle_reject), true otherwise *)
Definition item_rets (sc : schema) (l : list bitem) : list Z :=
  map (fun it => match it with
                 | BRej _ => 0%Z
                 | BApp t _ _ => if mem_bytes t (sc_routed sc) then 1%Z else 0%Z
                 | _ => 1%Z
                 end) l.


(* the item a raw message is for a session with the configuration of s; None = none of the classes *)
Definition item_of (decode : bytes -> decode_result) (s : sess) (raw : bytes) : option bitem :=
  match raw_seq raw, decode raw with
  | Some q, DecOk m =>
    if beq (m_type m) mt_reject then Some (BRej q)
    else if negb (cid_ok s m) then None
    else if beq (m_type m) mt_sequence_reset then
      match get_field T_NewSeqNo (m_body m) with
      | Some v => Some (BGap q (atoi_u v 0))
      | None => None
      end
    else if possdup m && negb (time_ok m) then None
    else if beq (m_type m) mt_heartbeat then Some (BHb q (possdup m))
    else if is_session_type (m_type m) then None
    else Some (BApp (m_type m) q (possdup m))
  | _, _ => None
  end.

Fixpoint items_of (decode : bytes -> decode_result) (s : sess) (raws : list bytes) : option (list bitem) :=
  match raws with
  | [] => Some []
  | raw :: r =>
    match item_of decode s raw, items_of decode s r with
    | Some it, Some l => Some (it :: l)
    | _, _ => None
    end
  end.

(* the items cover pos .. past-1 consecutively (boolean form of BurstProofs.tiles) *)
Fixpoint tilesb (pos : N) (l : list bitem) (past : N) : bool :=
  match l with
  | [] => pos =? past
  | BApp _ q _ :: r => (q =? pos) && tilesb (pos + 1) r past
  | BHb q _ :: r => (q =? pos) && tilesb (pos + 1) r past
  | BRej q :: r => (q =? pos) && tilesb (pos + 1) r past
  | BGap q n :: r => (q =? pos) && (pos <? n) && tilesb n r past
  end.

(* ---- boolean forms, for checking concrete instances --------------------------------------------------------------- *)
Definition bitem_eqb (a b : bitem) : bool :=
  match a, b with
  | BApp t q pd, BApp t' q' pd' => beq t t' && (q =? q') && Bool.eqb pd pd'
  | BHb q pd, BHb q' pd' => (q =? q') && Bool.eqb pd pd'
  | BRej q, BRej q' => q =? q'
  | BGap q n, BGap q' n' => (q =? q') && (n =? n')
  | _, _ => false
  end.
Fixpoint bitems_eqb (a b : list bitem) : bool :=
  match a, b with
  | [], [] => true
  | x :: a', y :: b' => bitem_eqb x y && bitems_eqb a' b'
  | _, _ => false
  end.
(* reader running, active, not shut down, state continuous, expecting pos *)
Definition ready_at (s : sess) (pos : N) : bool :=
  s_reader s && s_active s && negb (s_shutdown s) && (s_state s =? st_continuous) && (s_next_recv s =? pos).
