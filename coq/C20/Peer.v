(* C20: the FIX-conformant counterparty as a small executable specification, and `run_with_peer`:
   the session model of coq/Sess (Sess.Session / Sess.Wire, not edited) driven against it.

   The counterparty
     * numbers its messages consecutively (Logon included), whether they arrive or are lost;
     * remembers every message it numbered (type, body, original sending time);
     * answers a ResendRequest [B,E] (E = 0: up to its last number) at once, with ONE burst, in ascending
       order: remembered application messages are replayed with their original number, PossDupFlag=Y and
       OrigSendingTime = the original SendingTime; administrative messages (Logon, Heartbeat, TestRequest)
       are covered by SequenceReset-GapFill messages (MsgSeqNum = first number of the run, NewSeqNo = the
       number after the run, PossDupFlag=Y); a remembered Reject may be replayed or gap-filled (decision);
       a run of gap-filled numbers is one SequenceReset or several (decision);
     * then continues normally with its next number;
     * may itself ask for a resend of the session's messages (a numbered ResendRequest, scenario action `M 2 7=..,16=..`);
       what the session sends in answer is not inspected (only the session's own ResendRequests are answered);
     * its Logon carries its next number, whatever the session expects.
   Nondeterminism = the scenario: which messages are lost, and the list of decisions (Scenario.v).

   The run records the operations that were executed (START/RESTART/SEND... of the scenario and the IN
   operations that carry the counterparty's bytes) with their concrete text, so that the very same history
   can be given to the REAL session (harness h_sess), and the model's trace of that history.
   No proofs in this file. *)
From Coq Require Import NArith ZArith List Bool.
From F8 Require Import Sess.Bytes Sess.Msg Sess.Persist Sess.Session Sess.SimpleCodec Sess.Wire C20.Scenario.
Import ListNotations.
Local Open Scope N_scope.

(* ---- what the counterparty remembers ------------------------------------------------------------------ *)
Record pmsg := mkPM {
  pm_seq : N;
  pm_type : bytes;
  pm_body : list (N * bytes);
  pm_time : Z                       (* virtual time (ns) of the original transmission *)
}.

Record peer := mkPeer {
  pe_next : N;                      (* next outbound number *)
  pe_sent : list pmsg;              (* every message it numbered, ascending *)
  pe_snd : bytes;                   (* its SenderCompID *)
  pe_tgt : bytes;                   (* its TargetCompID *)
  pe_hb : N;                        (* HeartBtInt of its Logon *)
  pe_dec : list bool                (* decisions not yet consumed *)
}.

Definition peer0 : peer := mkPeer 1 [] [] [] 30 [].

Definition pe_with_next (n : N) (p : peer) : peer := mkPeer n (pe_sent p) (pe_snd p) (pe_tgt p) (pe_hb p) (pe_dec p).
Definition pe_with_dec (d : list bool) (p : peer) : peer := mkPeer (pe_next p) (pe_sent p) (pe_snd p) (pe_tgt p) (pe_hb p) d.
Definition pe_with_ids (a b : bytes) (hb : N) (p : peer) : peer := mkPeer (pe_next p) (pe_sent p) a b hb (pe_dec p).
(* number and remember one message *)
Definition pe_record (pm : pmsg) (p : peer) : peer :=
  mkPeer (pm_seq pm + 1) (pe_sent p ++ [pm])%list (pe_snd p) (pe_tgt p) (pe_hb p) (pe_dec p).

(* which remembered messages are replayed: everything that is not a session-level message *)
Definition is_session_type (t : bytes) : bool :=
  match t with
  | [c] => (c =? 48) || (c =? 49) || (c =? 50) || (c =? 51) || (c =? 52) || (c =? 53) || (c =? 65)
  | _ => false
  end.
Definition is_reject_type (t : bytes) : bool := beq t mt_reject.

Definition pop (d : list bool) : bool * list bool :=
  match d with [] => (false, []) | b :: d' => (b, d') end.

(* ---- the answer to a ResendRequest ----------------------------------------------------------------------- *)
Inductive item :=
| IResend (pm : pmsg)                (* original number, PossDupFlag=Y, OrigSendingTime *)
| IGapFill (from newseq : N).        (* SequenceReset-GapFill: MsgSeqNum = from, NewSeqNo = newseq *)

(* l: the remembered messages of the range, ascending; gs: first number of the open gap-fill run;
   past: the number after the range *)
Fixpoint replay_items (l : list pmsg) (gs : option N) (past : N) (d : list bool) : list item * list bool :=
  match l with
  | [] => (match gs with Some g => [IGapFill g past] | None => [] end, d)
  | pm :: l' =>
    let '(resend, d1) :=
      if is_reject_type (pm_type pm) then pop d
      else (negb (is_session_type (pm_type pm)), d) in
    if resend then
      let '(r, d2) := replay_items l' None past d1 in
      ((match gs with Some g => [IGapFill g (pm_seq pm)] | None => [] end ++ IResend pm :: r)%list, d2)
    else
      match gs with
      | None => replay_items l' (Some (pm_seq pm)) past d1
      | Some g =>
        let '(split, d2) := pop d1 in
        if split then
          let '(r, d3) := replay_items l' (Some (pm_seq pm)) past d2 in (IGapFill g (pm_seq pm) :: r, d3)
        else replay_items l' gs past d2
      end
  end.

Definition in_range (b e : N) (pm : pmsg) : bool := (b <=? pm_seq pm) && (pm_seq pm <=? e).

(* the burst that answers ResendRequest(b, e); nothing if the range is empty *)
Definition replay (p : peer) (b e : N) : list item * list bool :=
  let last := pe_next p - 1 in
  let e' := if e =? 0 then last else N.min e last in
  if (b =? 0) || (e' <? b) then ([], pe_dec p)
  else
    let l := filter (in_range b e') (pe_sent p) in
    (* numbers of the range that precede everything the counterparty remembers are gap-filled *)
    let gs := match l with
              | pm :: _ => if b <? pm_seq pm then Some b else None
              | [] => Some b
              end in
    replay_items l gs (e' + 1) (pe_dec p).

(* ---- wire form ------------------------------------------------------------------------------------------------ *)
Section Wire.
Variable sc : schema.

Definition add_all_body (l : list (N * bytes)) (m : msg) : msg :=
  fold_left (fun m tv => add_body' sc (fst tv) (snd tv) m) l m.

(* the message as the counterparty's engine builds it (dup: a retransmission) *)
Definition peer_msg (p : peer) (now : Z) (pm : pmsg) (dup : bool) : msg :=
  let m1 := add_hdr' sc T_SenderCompID (pe_snd p) (new_msg (pm_type pm)) in
  let m2 := add_hdr' sc T_TargetCompID (pe_tgt p) m1 in
  let m3 := add_hdr' sc T_MsgSeqNum (dec (pm_seq pm)) m2 in
  let m4 := if dup then add_hdr' sc T_OrigSendingTime (fmt_time (pm_time pm)) (add_hdr' sc T_PossDupFlag s_Y m3) else m3 in
  let m5 := add_hdr' sc T_SendingTime (fmt_time now) m4 in
  add_all_body (pm_body pm) m5.

Definition peer_wire (p : peer) (now : Z) (pm : pmsg) (dup : bool) : bytes := encode sc (peer_msg p now pm dup).

Definition gapfill_pm (from newseq : N) (now : Z) : pmsg :=
  mkPM from mt_sequence_reset [(T_GapFillFlag, s_Y); (T_NewSeqNo, dec newseq)] now.

Definition item_wire (p : peer) (now : Z) (i : item) : bytes :=
  match i with
  | IResend pm => peer_wire p now pm true
  | IGapFill g n => peer_wire p now (gapfill_pm g n now) true
  end.

Definition logon_pm (p : peer) (now : Z) : pmsg :=
  mkPM (pe_next p) mt_logon [(T_EncryptMethod, s_0); (T_HeartBtInt, dec (pe_hb p))] now.

End Wire.

(* ---- reading the session's output ------------------------------------------------------------------------ *)
Definition resend_of (e : event) : option (N * N) :=
  match e with
  | EOut b =>
    let t := tokens b in
    match tok_get (dec T_MsgType) t with
    | Some ty =>
      if beq ty mt_resend_request then
        match tok_get (dec T_BeginSeqNo) t, tok_get (dec T_EndSeqNo) t with
        | Some bv, Some ev =>
          match undec bv, undec ev with
          | Some b', Some e' => Some (b', e')
          | _, _ => None
          end
        | _, _ => None
        end
      else None
    | None => None
    end
  | _ => None
  end.

Fixpoint first_resend (evs : list event) : option (N * N) :=
  match evs with
  | [] => None
  | e :: evs' => match resend_of e with Some r => Some r | None => first_resend evs' end
  end.

(* ---- run_with_peer ------------------------------------------------------------------------------------------------ *)
Record rst := mkR {
  r_w : world;                       (* Sess.Wire world: the session, the clock, the disk *)
  r_pe : peer;
  r_ops : list (bytes * op);         (* executed operations, newest first, with their text *)
  r_tr : list step                   (* their steps, newest first *)
}.

Definition rst0 : rst := mkR world0 peer0 [] [].
Definition r_with_pe (p : peer) (r : rst) : rst := mkR (r_w r) p (r_ops r) (r_tr r).

Definition in_text (chunks : list bytes) : bytes := ([73;78;32] ++ join [44] (map hex chunks))%list.

Section Run.
Variable sc : schema.
Variable decode : bytes -> decode_result.
Variable fl : bytes.

(* Sess.Wire.run_op with the decoder as a parameter (for Sess.SimpleCodec it IS run_op: PeerProofs.step_op_wire) *)
Definition step_op (w : world) (o : op) : world * list event :=
  match o, w_sess w with
  | OIn chunks, Some s =>
    let '(s1, e1) := feed sc decode fl (w_now w) chunks s in (with_sess w s1, e1)
  | _, _ => run_op sc w o
  end.

Definition exec (r : rst) (txt : bytes) (o : op) : rst * list event :=
  let '(w1, evs) := step_op (r_w r) o in
  let '(w2, sn) := snapshot w1 in
  (mkR w2 (r_pe r) ((txt, o) :: r_ops r) (mkStep evs sn :: r_tr r), evs).

(* the counterparty looks at what the session wrote and answers a ResendRequest *)
Fixpoint react (fuel : nat) (r : rst) (evs : list event) : rst :=
  match fuel with
  | O => r
  | S f =>
    match first_resend evs with
    | None => r
    | Some (b, e) =>
      let '(items, d) := replay (r_pe r) b e in
      match items with
      | [] => r
      | _ =>
        let p := pe_with_dec d (r_pe r) in
        let chunks := map (item_wire sc p (w_now (r_w r))) items in
        let '(r1, evs1) := exec (r_with_pe p r) (in_text chunks) (OIn chunks) in
        react f r1 evs1
      end
    end
  end.

Definition react_fuel : nat := 3.

(* the counterparty numbers a message, remembers it and -- unless it is lost -- transmits it *)
Definition peer_send (r : rst) (lost : bool) (t : bytes) (body : list (N * bytes)) : rst :=
  let p := r_pe r in
  let now := w_now (r_w r) in
  let pm := mkPM (pe_next p) t body now in
  let r1 := r_with_pe (pe_record pm p) r in
  if lost then r1
  else
    let chunks := [peer_wire sc p now pm false] in
    let '(r2, evs) := exec r1 (in_text chunks) (OIn chunks) in
    react react_fuel r2 evs.

Definition do_act (r : rst) (a : act) : rst :=
  match a with
  | ASess txt o =>
    let p := match o with
             | OStart sp _ => pe_with_ids (sp_tgt sp) (sp_snd sp) (sp_hb sp) (r_pe r)
             | _ => r_pe r
             end in
    let '(r1, evs) := exec (r_with_pe p r) txt o in
    react react_fuel r1 evs
  | APeerNum n => r_with_pe (pe_with_next n (r_pe r)) r
  | ADecide l => r_with_pe (pe_with_dec (pe_dec (r_pe r) ++ l)%list (r_pe r)) r
  | ALogon =>
    let pm := logon_pm (r_pe r) (w_now (r_w r)) in
    peer_send r false (pm_type pm) (pm_body pm)
  | ALogonR y =>
    let r0 := if y then r_with_pe (pe_with_next 1 (r_pe r)) r else r in
    let pm := logon_pm (r_pe r0) (w_now (r_w r0)) in
    peer_send r0 false (pm_type pm) (pm_body pm ++ [(T_ResetSeqNumFlag, if y then s_Y else [78])])%list
  | AMsg lost t body => peer_send r lost t body
  end.

Definition run_acts (acts : list act) : rst := fold_left do_act acts rst0.

(* the history that was executed and the model's trace of it *)
Definition run_with_peer (acts : list act) : list op * trace :=
  let r := run_acts acts in (rev (map snd (r_ops r)), rev (r_tr r)).

Definition history_text (r : rst) : bytes := join [124] (rev (map fst (r_ops r))).

End Run.

(* ---- the executable instance: decoding = Sess.SimpleCodec, as in Sess.Wire ------------------------------------ *)
Definition c20_run (sc : schema) (line : bytes) : rst := run_acts sc (simple_decode sc []) [] (parse_scenario line).
(* the history line for harness h_sess *)
Definition c20_history_line (sc : schema) (line : bytes) : bytes := history_text (c20_run sc line).
(* the model's result line *)
Definition c20_model_line (sc : schema) (line : bytes) : bytes := render_trace (rev (r_tr (c20_run sc line))).
