(* C20: evaluation lemmas for the inbound path of the session model (Sess.Session.process and below) on
   messages classified by their decoded form.  Everything here holds for EVERY schema, EVERY decoder and EVERY
   session state satisfying the stated hypotheses.  Proofs only. *)
From Coq Require Import NArith ZArith List Bool Lia.
From F8 Require Import Sess.Bytes Sess.Msg Sess.Persist Sess.Session Sess.SessLemmas C20.Peer C20.Classify.
Import ListNotations.
Local Open Scope N_scope.

(* ---- the part of the session state the inbound sequence logic reads, which sends never touch -------------- *)
Definition cfg (s s' : sess) : Prop :=
  s_active s' = s_active s /\ s_reader s' = s_reader s /\ s_shutdown s' = s_shutdown s /\ s_closed s' = s_closed s /\
  s_snd s' = s_snd s /\ s_tgt s' = s_tgt s /\ s_par s' = s_par s /\ s_role s' = s_role s.
Definition frame (s s' : sess) : Prop :=
  s_state s' = s_state s /\ s_next_recv s' = s_next_recv s /\ cfg s s'.

Lemma cfg_refl : forall s, cfg s s.
Proof. intro; repeat split. Qed.
Lemma cfg_trans : forall a b c, cfg a b -> cfg b c -> cfg a c.
Proof. unfold cfg; intros a b c H1 H2; intuition congruence. Qed.
Lemma frame_refl : forall s, frame s s.
Proof. intro; repeat split. Qed.
Lemma frame_trans : forall a b c, frame a b -> frame b c -> frame a c.
Proof. unfold frame, cfg; intros a b c H1 H2; intuition congruence. Qed.
Lemma frame_cfg : forall a b, frame a b -> cfg a b.
Proof. unfold frame; tauto. Qed.

(* deliveries in an event list *)
Definition dels (evs : list event) : list (bytes * N * bool) :=
  flat_map (fun e => match e with EDeliver t q pd => [(t, q, pd)] | _ => [] end) evs.
Lemma dels_app : forall a b, dels (a ++ b) = (dels a ++ dels b)%list.
Proof. intros. unfold dels. apply flat_map_app. Qed.
(* return values of process in an event list *)
Definition retl (evs : list event) : list Z :=
  flat_map (fun e => match e with ERet z => [z] | _ => [] end) evs.
Lemma retl_app : forall a b, retl (a ++ b) = (retl a ++ retl b)%list.
Proof. intros. unfold retl. apply flat_map_app. Qed.
(* only writes to the socket *)
Definition outs_only (evs : list event) : Prop := dels evs = [] /\ retl evs = [].
Lemma outs_only_nil : outs_only [].
Proof. split; reflexivity. Qed.
Lemma outs_only_app : forall a b, outs_only a -> outs_only b -> outs_only (a ++ b).
Proof. unfold outs_only. intros a b [A1 A2] [B1 B2]. rewrite dels_app, retl_app, A1, A2, B1, B2. split; reflexivity. Qed.

Section Facts.
Variable sc : schema.

Lemma out_events_outs : forall b, outs_only (out_events b).
Proof.
  intros b. unfold out_events. destruct (frames b) as [ms rest].
  apply outs_only_app.
  - induction ms; [apply outs_only_nil|]. destruct IHms as [A B]. split; cbn; assumption.
  - destruct rest; split; reflexivity.
Qed.

Lemma send_process_frame : forall now s m ok s' e,
  send_process sc now s m = (ok, s', e) -> frame s s' /\ outs_only e.
Proof.
  intros now s m ok s' e. cbv beta delta [send_process]. cbv zeta.
  match goal with |- (match ?X with pair _ _ => _ end) = _ -> _ => destruct X as [m3 is_dup] end.
  match goal with |- (match ?X with pair _ _ => _ end) = _ -> _ => destruct X as [[[ok1 s1] evs] ptr] eqn:ES end.
  assert (Q : frame s s1 /\ outs_only evs).
  { destruct (m_eob m).
    - match type of ES with (match ?X with pair _ _ => _ end) = _ => destruct X as [tosend appended] end.
      destruct (s_closed s); inversion ES; subst; [destruct appended|]; (split; [repeat split|]);
        try apply outs_only_nil; apply out_events_outs.
    - inversion ES; subst. split; [repeat split|apply outs_only_nil]. }
  destruct Q as [Q1 Q2].
  destruct (negb ok1); [intro H; inversion H; subst; split; assumption|].
  destruct is_dup; intro H; inversion H; subst; (split; [|assumption]); [exact Q1|].
  eapply frame_trans; [exact Q1|].
  match goal with |- frame _ (if ?c then _ else _) => destruct c end; repeat split.
Qed.

Lemma send_frame : forall now s m c n ok s' e, send sc now s m c n = (ok, s', e) -> frame s s' /\ outs_only e.
Proof. intros until e. unfold send. apply send_process_frame. Qed.

Lemma update_persist_frame : forall s, frame s (update_persist_seqnums s).
Proof. intro s. unfold update_persist_seqnums. destruct (p_attached (s_per s)); repeat split. Qed.

End Facts.

(* ---- the monad -------------------------------------------------------------------------------------------------- *)
Lemma bind_inl : forall A B (x : M A) (f : A -> M B) s a s1 e1,
  x s = (inl a, s1, e1) ->
  bind x f s = (let '(r, s2, e2) := f a s1 in (r, s2, (e1 ++ e2)%list)).
Proof. intros. unfold bind. rewrite H. reflexivity. Qed.
Lemma bind_inr : forall A B (x : M A) (f : A -> M B) s ex s1 e1,
  x s = (inr ex, s1, e1) -> bind x f s = (inr ex, s1, e1).
Proof. intros. unfold bind. rewrite H. reflexivity. Qed.
Lemma bind_get : forall B (f : sess -> M B) s, bind get f s = f s s.
Proof. intros. unfold bind, get. destruct (f s s) as [[r s2] e2]. reflexivity. Qed.
Lemma bind_ret : forall A B (a : A) (f : A -> M B) s, bind (ret a) f s = f a s.
Proof. intros. unfold bind, ret. destruct (f a s) as [[r s2] e2]. reflexivity. Qed.
Lemma bind_modify : forall B g (f : unit -> M B) s, bind (modify g) f s = f tt (g s).
Proof. intros. unfold bind, modify. destruct (f tt (g s)) as [[r s2] e2]. reflexivity. Qed.

Section Inbound.
Variable sc : schema.
Variable decode : bytes -> decode_result.
Variable fl : bytes.
Variable now : Z.

Notation "x <- a ;; b" := (bind a (fun x => b)) (at level 61, a at next level, right associativity).
Notation "a ;;; b" := (bind a (fun _ => b)) (at level 61, right associativity).

Lemma compid_check_ok : forall s m, cid_ok s m = true -> compid_check m s = (inl tt, s, []).
Proof.
  intros s m H. unfold compid_check. rewrite bind_get. unfold cid_ok, fld_or_nil in H.
  destruct (pr_ec (s_par s)); [|reflexivity]. cbn [negb orb] in H.
  apply andb_true_iff in H. destruct H as [H1 H2]. rewrite H1, H2. reflexivity.
Qed.

Lemma sequence_check_eq : forall s m q, s_next_recv s = q -> sequence_check sc now q m s = (inl true, s, []).
Proof.
  intros s m q H. unfold sequence_check. rewrite bind_get. subst q. rewrite N.ltb_irrefl. reflexivity.
Qed.

Lemma sequence_check_low : forall s m q,
  q < s_next_recv s -> possdup m = true -> time_ok m = true ->
  sequence_check sc now q m s = (inl true, s, []).
Proof.
  intros s m q L P T. unfold sequence_check. rewrite bind_get.
  assert (E1 : s_next_recv s <? q = false) by (apply N.ltb_ge; lia). rewrite E1.
  assert (E2 : q <? s_next_recv s = true) by (apply N.ltb_lt; exact L). rewrite E2.
  unfold possdup in P. rewrite P. cbn [negb]. unfold time_ok in T.
  destruct (get_field T_OrigSendingTime (m_hdr m)) as [ost|]; [|reflexivity].
  destruct (get_field T_SendingTime (m_hdr m)) as [st|]; [|reflexivity].
  apply negb_true_iff in T. rewrite T. reflexivity.
Qed.

Lemma sequence_check_toolow : forall s m q,
  q < s_next_recv s -> possdup m = false ->
  exists txt, sequence_check sc now q m s = (inr (Exc txt true), s, []).
Proof.
  intros s m q L P. unfold sequence_check. rewrite bind_get.
  assert (E1 : s_next_recv s <? q = false) by (apply N.ltb_ge; lia). rewrite E1.
  assert (E2 : q <? s_next_recv s = true) by (apply N.ltb_lt; exact L). rewrite E2.
  unfold possdup in P. rewrite P. cbn [negb]. eexists. reflexivity.
Qed.

Lemma sequence_check_high : forall s m q ok s1 e1,
  s_next_recv s < q -> s_state s = st_continuous ->
  send sc now s (generate_resend_request sc (s_next_recv s) 0) 0 false = (ok, s1, e1) ->
  sequence_check sc now q m s = (inl false, w_state st_resend_request_sent s1, e1).
Proof.
  intros s m q ok s1 e1 L St Sd. unfold sequence_check. rewrite bind_get.
  assert (E1 : s_next_recv s <? q = true) by (apply N.ltb_lt; exact L). rewrite E1.
  rewrite St. cbn [N.eqb st_continuous Pos.eqb].
  unfold bind at 1. unfold do_send at 1. rewrite Sd.
  unfold set_state. rewrite bind_modify. cbn [ret]. rewrite app_nil_r. reflexivity.
Qed.

Lemma sequence_check_high_other : forall s m q,
  s_next_recv s < q -> s_state s <> st_continuous ->
  exists txt, sequence_check sc now q m s = (inr (Exc txt true), s, []).
Proof.
  intros s m q L St. unfold sequence_check. rewrite bind_get.
  assert (E1 : s_next_recv s <? q = true) by (apply N.ltb_lt; exact L). rewrite E1.
  apply N.eqb_neq in St. rewrite St. eexists. reflexivity.
Qed.

(* the states in which the session is past the logon phase and runs the sequence rules *)
Definition running (s : sess) : Prop := s_state s = st_continuous \/ s_state s = st_resend_request_sent.

Lemma running_est : forall s, running s -> is_established (s_state s) = true /\ (s_state s =? st_logon_received) = false.
Proof. intros s [H|H]; rewrite H; split; reflexivity. Qed.

(* enforce on a message that is not a SequenceReset = CompID check, then the sequence check *)
Lemma enforce_running : forall s m q,
  running s -> cid_ok s m = true -> beq (m_type m) mt_sequence_reset = false ->
  enforce sc now q m s =
  match sequence_check sc now q m s with
  | (inl b, s', e) => (inl (negb b), s', e)
  | (inr x, s', e) => (inr x, s', e)
  end.
Proof.
  intros s m q R C T. destruct (running_est s R) as [E1 E2].
  unfold enforce. rewrite bind_get. rewrite E1, E2. cbn [negb].
  rewrite (bind_inl _ _ _ _ _ _ _ _ (compid_check_ok s m C)). rewrite T. cbn [negb].
  unfold bind, ret. destruct (sequence_check sc now q m s) as [[[b|x] s'] e]; cbn [app]; rewrite ?app_nil_r; reflexivity.
Qed.

Lemma enforce_seqreset : forall s m q,
  running s -> cid_ok s m = true -> beq (m_type m) mt_sequence_reset = true ->
  enforce sc now q m s = (inl true, s, []).
Proof.
  intros s m q R C T. destruct (running_est s R) as [E1 E2].
  unfold enforce. rewrite bind_get. rewrite E1, E2. cbn [negb].
  rewrite (bind_inl _ _ _ _ _ _ _ _ (compid_check_ok s m C)). rewrite T. reflexivity.
Qed.

End Inbound.

(* ---- Session::process on a classified message ---------------------------------------------------------------------- *)
Section Proc.
Variable sc : schema.
Variable decode : bytes -> decode_result.
Variable fl : bytes.
Variable now : Z.

Notation "x <- a ;; b" := (bind a (fun x => b)) (at level 61, a at next level, right associativity).
Notation "a ;;; b" := (bind a (fun _ => b)) (at level 61, right associativity).

(* the raw bytes carry number q and decode to m *)
Definition arrives (raw : bytes) (q : N) (m : msg) : Prop := raw_seq raw = Some q /\ decode raw = DecOk m.

Definition live (s : sess) : Prop := s_active s = true /\ s_shutdown s = false /\ running s.

(* state and expected number afterwards; nothing else the inbound logic reads has changed *)
Definition post (s s' : sess) (st nr : N) : Prop := s_state s' = st /\ s_next_recv s' = nr /\ cfg s s'.

Lemma process_dispatch_ok : forall raw q m s r s1 e1,
  arrives raw q m -> dispatch sc decode now q m s = (inl (r, false), s1, e1) ->
  process sc decode fl now raw s = (r, update_persist_seqnums (w_next_recv (s_next_recv s1 + 1) s1), e1).
Proof.
  intros raw q m s r s1 e1 [A1 A2] D. unfold raw_seq in A1. unfold process.
  destruct (find_after pat_34 raw) as [rest|]; [|discriminate]. rewrite A1, A2.
  unfold process_body, process_catch.
  rewrite (bind_inl _ _ _ _ _ _ _ _ D). cbn [snd fst].
  rewrite !bind_modify. rewrite bind_ret. cbn [ret]. rewrite app_nil_r. reflexivity.
Qed.

Lemma process_dispatch_fatal : forall raw q m s txt s1 e1,
  arrives raw q m -> dispatch sc decode now q m s = (inr (Exc txt true), s1, e1) ->
  (s_state s1 =? st_logon_received) = false ->
  process sc decode fl now raw s = (false, stop s1, e1).
Proof.
  intros raw q m s txt s1 e1 [A1 A2] D St. unfold raw_seq in A1. unfold process.
  destruct (find_after pat_34 raw) as [rest|]; [|discriminate]. rewrite A1, A2.
  unfold process_body, process_catch.
  rewrite (bind_inr _ _ _ _ _ _ _ _ D). rewrite St. cbn [andb]. rewrite app_nil_r. reflexivity.
Qed.

Lemma post_finish : forall s s1 st nr,
  s_state s1 = st -> s_next_recv s1 = nr -> cfg s s1 ->
  post s (update_persist_seqnums (w_next_recv (s_next_recv s1 + 1) s1)) st (nr + 1).
Proof.
  intros s s1 st nr H1 H2 H3. subst st nr.
  destruct (update_persist_frame (w_next_recv (s_next_recv s1 + 1) s1)) as (F1 & F2 & F3).
  unfold post. rewrite F1, F2. cbn [s_state s_next_recv w_next_recv].
  split; [reflexivity|]. split; [reflexivity|].
  eapply cfg_trans; [exact H3|]. eapply cfg_trans; [|exact F3]. repeat split.
Qed.

(* ---- dispatch of application types ------------------------------------------------------------------------------ *)
Lemma dispatch_app : forall q m s,
  is_session_type (m_type m) = false -> s_active s = true ->
  dispatch sc decode now q m s = (r <- handle_application sc now q m ;; ret (r, false)) s.
Proof.
  intros q m s T A. unfold dispatch.
  assert (E : (s0 <- get ;; (if s_active s0 then handle_application sc now q m else ret false)) s = handle_application sc now q m s).
  { rewrite bind_get. rewrite A. reflexivity. }
  destruct (m_type m) as [|c [|c' l]].
  - unfold bind at 1. rewrite E. reflexivity.
  - cbn [is_session_type] in T.
    repeat (apply orb_false_elim in T; destruct T as [T ?]).
    repeat match goal with H : (c =? _) = false |- _ => rewrite H; clear H end.
    unfold bind at 1. rewrite E. reflexivity.
  - unfold bind at 1. rewrite E. reflexivity.
Qed.

Lemma handle_application_pass : forall q m s s1 e1,
  enforce sc now q m s = (inl false, s1, e1) ->
  handle_application sc now q m s =
  (inl (mem_bytes (m_type m) (sc_routed sc)), s1, (e1 ++ [EDeliver (m_type m) q (possdup m)])%list).
Proof.
  intros q m s s1 e1 EN. unfold handle_application. rewrite (bind_inl _ _ _ _ _ _ _ _ EN).
  unfold bind, emit, ret. cbn [app]. reflexivity.
Qed.
Lemma handle_application_block : forall q m s s1 e1,
  enforce sc now q m s = (inl true, s1, e1) -> handle_application sc now q m s = (inl true, s1, e1).
Proof.
  intros q m s s1 e1 EN. unfold handle_application. rewrite (bind_inl _ _ _ _ _ _ _ _ EN).
  cbn [ret]. rewrite app_nil_r. reflexivity.
Qed.
Lemma handle_application_exc : forall q m s x s1 e1,
  enforce sc now q m s = (inr x, s1, e1) -> handle_application sc now q m s = (inr x, s1, e1).
Proof. intros q m s x s1 e1 EN. unfold handle_application. apply (bind_inr _ _ _ _ _ _ _ _ EN). Qed.

(* in sequence, or a retransmission below the expected number: delivered *)
Lemma process_app_ok : forall raw q m s,
  arrives raw q m -> live s -> is_session_type (m_type m) = false -> cid_ok s m = true ->
  (q = s_next_recv s \/ (q < s_next_recv s /\ possdup m = true /\ time_ok m = true)) ->
  exists s', process sc decode fl now raw s =
             (mem_bytes (m_type m) (sc_routed sc), s', [EDeliver (m_type m) q (possdup m)]) /\
             post s s' (s_state s) (s_next_recv s + 1).
Proof.
  intros raw q m s A (Act & Sh & R) T C Q.
  assert (NSR : beq (m_type m) mt_sequence_reset = false).
  { destruct (beq (m_type m) mt_sequence_reset) eqn:E; [|reflexivity]. apply beq_eq in E. rewrite E in T. discriminate. }
  assert (SC : sequence_check sc now q m s = (inl true, s, [])).
  { destruct Q as [Q|(Q1 & Q2 & Q3)]; [apply sequence_check_eq; congruence|apply sequence_check_low; assumption]. }
  assert (EN : enforce sc now q m s = (inl false, s, [])).
  { rewrite enforce_running by assumption. rewrite SC. reflexivity. }
  assert (D : dispatch sc decode now q m s =
              (inl (mem_bytes (m_type m) (sc_routed sc), false), s, [EDeliver (m_type m) q (possdup m)])).
  { rewrite dispatch_app by assumption.
    rewrite (bind_inl _ _ _ _ _ _ _ _ (handle_application_pass _ _ _ _ _ EN)). reflexivity. }
  eexists. split; [apply (process_dispatch_ok _ _ _ _ _ _ _ A D)|].
  apply post_finish; [reflexivity|reflexivity|apply cfg_refl].
Qed.

(* the same with the resulting state spelled out (used by C21: nothing but next_recv and the persister changes) *)
Lemma process_app_inseq_explicit : forall raw q m s,
  arrives raw q m -> live s -> is_session_type (m_type m) = false -> cid_ok s m = true -> q = s_next_recv s ->
  process sc decode fl now raw s =
  (mem_bytes (m_type m) (sc_routed sc), update_persist_seqnums (w_next_recv (s_next_recv s + 1) s),
   [EDeliver (m_type m) q (possdup m)]).
Proof.
  intros raw q m s A (Act & Sh & R) T C Q.
  assert (NSR : beq (m_type m) mt_sequence_reset = false).
  { destruct (beq (m_type m) mt_sequence_reset) eqn:E; [|reflexivity]. apply beq_eq in E. rewrite E in T. discriminate. }
  assert (SC : sequence_check sc now q m s = (inl true, s, [])) by (apply sequence_check_eq; congruence).
  assert (EN : enforce sc now q m s = (inl false, s, [])).
  { rewrite enforce_running by assumption. rewrite SC. reflexivity. }
  assert (D : dispatch sc decode now q m s =
              (inl (mem_bytes (m_type m) (sc_routed sc), false), s, [EDeliver (m_type m) q (possdup m)])).
  { rewrite dispatch_app by assumption.
    rewrite (bind_inl _ _ _ _ _ _ _ _ (handle_application_pass _ _ _ _ _ EN)). reflexivity. }
  apply (process_dispatch_ok _ _ _ _ _ _ _ A D).
Qed.

(* above the expected number in state continuous: ResendRequest, not delivered, and the expected number is
   incremented all the same *)
Lemma process_app_high : forall raw q m s,
  arrives raw q m -> live s -> s_state s = st_continuous -> is_session_type (m_type m) = false -> cid_ok s m = true ->
  s_next_recv s < q ->
  exists s' e, process sc decode fl now raw s = (true, s', e) /\ outs_only e /\
               post s s' st_resend_request_sent (s_next_recv s + 1) /\
               (s_closed s = false -> exists e', e = e').
Proof.
  intros raw q m s A (Act & Sh & R) St T C Q.
  assert (NSR : beq (m_type m) mt_sequence_reset = false).
  { destruct (beq (m_type m) mt_sequence_reset) eqn:E; [|reflexivity]. apply beq_eq in E. rewrite E in T. discriminate. }
  destruct (send sc now s (generate_resend_request sc (s_next_recv s) 0) 0 false) as [[ok s1] e1] eqn:Sd.
  destruct (send_frame _ _ _ _ _ _ _ _ _ Sd) as [(F1 & F2 & F3) O].
  assert (EN : enforce sc now q m s = (inl true, w_state st_resend_request_sent s1, e1)).
  { rewrite enforce_running by assumption. rewrite (sequence_check_high _ _ _ _ _ _ _ _ Q St Sd). reflexivity. }
  assert (D : dispatch sc decode now q m s = (inl (true, false), w_state st_resend_request_sent s1, e1)).
  { rewrite dispatch_app by assumption.
    rewrite (bind_inl _ _ _ _ _ _ _ _ (handle_application_block _ _ _ _ _ EN)). cbn [ret]. rewrite !app_nil_r. reflexivity. }
  eexists. eexists. split; [apply (process_dispatch_ok _ _ _ _ _ _ _ A D)|]. split; [exact O|]. split.
  - apply post_finish; [reflexivity|exact F2|]. eapply cfg_trans; [exact F3|repeat split].
  - intros _. eexists. reflexivity.
Qed.

(* below the expected number without PossDupFlag: the session stops *)
Lemma process_app_toolow : forall raw q m s,
  arrives raw q m -> live s -> is_session_type (m_type m) = false -> cid_ok s m = true ->
  q < s_next_recv s -> possdup m = false ->
  exists s', process sc decode fl now raw s = (false, s', []) /\ s_shutdown s' = true /\ s_next_recv s' = s_next_recv s.
Proof.
  intros raw q m s A (Act & Sh & R) T C Q P.
  assert (NSR : beq (m_type m) mt_sequence_reset = false).
  { destruct (beq (m_type m) mt_sequence_reset) eqn:E; [|reflexivity]. apply beq_eq in E. rewrite E in T. discriminate. }
  destruct (sequence_check_toolow sc now s m q Q P) as [txt SC].
  assert (EN : enforce sc now q m s = (inr (Exc txt true), s, [])).
  { rewrite enforce_running by assumption. rewrite SC. reflexivity. }
  assert (D : dispatch sc decode now q m s = (inr (Exc txt true), s, [])).
  { rewrite dispatch_app by assumption.
    rewrite (bind_inr _ _ _ _ _ _ _ _ (handle_application_exc _ _ _ _ _ _ EN)). reflexivity. }
  destruct (running_est s R) as [_ E2].
  eexists. split; [apply (process_dispatch_fatal _ _ _ _ _ _ _ A D E2)|].
  unfold stop. rewrite Sh. split; reflexivity.
Qed.

(* ---- Reject: the default handle_reject; no rule is applied at all ---------------------------------------------- *)
Lemma process_reject : forall raw q m s,
  arrives raw q m -> m_type m = mt_reject ->
  exists s', process sc decode fl now raw s = (false, s', []) /\ post s s' (s_state s) (s_next_recv s + 1).
Proof.
  intros raw q m s A T.
  assert (D : dispatch sc decode now q m s = (inl (false, false), s, [])).
  { unfold dispatch. rewrite T. reflexivity. }
  eexists. split; [apply (process_dispatch_ok _ _ _ _ _ _ _ A D)|].
  apply post_finish; [reflexivity|reflexivity|apply cfg_refl].
Qed.

(* ---- Heartbeat ------------------------------------------------------------------------------------------------------- *)
Lemma process_heartbeat_ok : forall raw q m s,
  arrives raw q m -> live s -> m_type m = mt_heartbeat -> cid_ok s m = true ->
  (q = s_next_recv s \/ (q < s_next_recv s /\ possdup m = true /\ time_ok m = true)) ->
  exists s', process sc decode fl now raw s = (true, s', []) /\ post s s' (s_state s) (s_next_recv s + 1).
Proof.
  intros raw q m s A (Act & Sh & R) T C Q.
  assert (NSR : beq (m_type m) mt_sequence_reset = false) by (rewrite T; reflexivity).
  assert (SC : sequence_check sc now q m s = (inl true, s, [])).
  { destruct Q as [Q|(Q1 & Q2 & Q3)]; [apply sequence_check_eq; congruence|apply sequence_check_low; assumption]. }
  assert (EN : enforce sc now q m s = (inl false, s, [])).
  { rewrite enforce_running by assumption. rewrite SC. reflexivity. }
  assert (NT : (s_state s =? st_test_request_sent) = false) by (destruct R as [R|R]; rewrite R; reflexivity).
  assert (D : dispatch sc decode now q m s = (inl (true, false), s, [])).
  { unfold dispatch. rewrite T. cbn [mt_heartbeat N.eqb Pos.eqb].
    assert (HH : handle_heartbeat sc now q m s = (inl true, s, [])).
    { unfold handle_heartbeat. rewrite (bind_inl _ _ _ _ _ _ _ _ EN).
      rewrite bind_get. rewrite NT. rewrite bind_ret. reflexivity. }
    rewrite (bind_inl _ _ _ _ _ _ _ _ HH). reflexivity. }
  eexists. split; [apply (process_dispatch_ok _ _ _ _ _ _ _ A D)|].
  apply post_finish; [reflexivity|reflexivity|apply cfg_refl].
Qed.

Lemma process_heartbeat_high : forall raw q m s,
  arrives raw q m -> live s -> s_state s = st_continuous -> m_type m = mt_heartbeat -> cid_ok s m = true ->
  s_next_recv s < q ->
  exists s' e, process sc decode fl now raw s = (true, s', e) /\ outs_only e /\
               post s s' st_resend_request_sent (s_next_recv s + 1).
Proof.
  intros raw q m s A (Act & Sh & R) St T C Q.
  assert (NSR : beq (m_type m) mt_sequence_reset = false) by (rewrite T; reflexivity).
  destruct (send sc now s (generate_resend_request sc (s_next_recv s) 0) 0 false) as [[ok s1] e1] eqn:Sd.
  destruct (send_frame _ _ _ _ _ _ _ _ _ Sd) as [(F1 & F2 & F3) O].
  assert (EN : enforce sc now q m s = (inl true, w_state st_resend_request_sent s1, e1)).
  { rewrite enforce_running by assumption. rewrite (sequence_check_high _ _ _ _ _ _ _ _ Q St Sd). reflexivity. }
  assert (D : dispatch sc decode now q m s = (inl (true, false), w_state st_resend_request_sent s1, e1)).
  { unfold dispatch. rewrite T. cbn [mt_heartbeat N.eqb Pos.eqb].
    assert (HH : handle_heartbeat sc now q m s = (inl true, w_state st_resend_request_sent s1, e1)).
    { unfold handle_heartbeat. rewrite (bind_inl _ _ _ _ _ _ _ _ EN).
      rewrite bind_get. cbn [s_state w_state st_resend_request_sent st_test_request_sent N.eqb Pos.eqb].
      rewrite bind_ret. cbn [ret]. rewrite !app_nil_r. reflexivity. }
    rewrite (bind_inl _ _ _ _ _ _ _ _ HH). cbn [ret]. rewrite !app_nil_r. reflexivity. }
  eexists. eexists. split; [apply (process_dispatch_ok _ _ _ _ _ _ _ A D)|]. split; [exact O|].
  apply post_finish; [reflexivity|exact F2|]. eapply cfg_trans; [exact F3|repeat split].
Qed.

(* ---- SequenceReset (GapFill): exempt from the sequence rule; the expected number becomes NewSeqNo ------------ *)
Lemma process_gapfill : forall raw q m s v,
  arrives raw q m -> live s -> m_type m = mt_sequence_reset -> cid_ok s m = true ->
  get_field T_NewSeqNo (m_body m) = Some v -> s_next_recv s <= atoi_u v 0 -> 0 < atoi_u v 0 ->
  exists s', process sc decode fl now raw s = (true, s', []) /\ post s s' st_continuous (atoi_u v 0).
Proof.
  intros raw q m s v A (Act & Sh & R) T C NS LE POS.
  assert (SR : beq (m_type m) mt_sequence_reset = true) by (rewrite T; reflexivity).
  pose proof (enforce_seqreset sc now s m q R C SR) as EN.
  set (n := atoi_u v 0) in *.
  assert (D : dispatch sc decode now q m s = (inl (true, false), w_state st_continuous (w_next_recv (n - 1) s), [])).
  { unfold dispatch. rewrite T. cbn [mt_sequence_reset N.eqb Pos.eqb].
    assert (HH : handle_sequence_reset sc now q m s = (inl true, w_state st_continuous (w_next_recv (n - 1) s), [])).
    { unfold handle_sequence_reset.
      rewrite (bind_inl _ _ _ _ _ _ _ _ EN). cbn [app].
      rewrite bind_get. rewrite NS. fold n.
      assert (E : s_next_recv s <=? n = true) by (apply N.leb_le; exact LE). rewrite E.
      rewrite bind_modify. rewrite bind_get. cbn [s_state w_next_recv].
      destruct R as [R|R]; rewrite R; cbn [st_continuous st_resend_request_sent N.eqb Pos.eqb].
      - unfold bind, ret. cbn [app]. f_equal. f_equal.
        unfold w_state. cbn [s_state s_next_send s_next_recv s_active s_last_sent s_last_recv s_hb s_role s_snd s_tgt s_sci s_par s_batch s_per s_shutdown s_closed s_reader s_req_send s_req_recv w_next_recv].
        rewrite <- R. reflexivity.
      - unfold set_state, bind, modify, ret. cbn [app]. reflexivity. }
    rewrite (bind_inl _ _ _ _ _ _ _ _ HH). reflexivity. }
  eexists. split; [apply (process_dispatch_ok _ _ _ _ _ _ _ A D)|].
  assert (P : post s (update_persist_seqnums
                        (w_next_recv (s_next_recv (w_state st_continuous (w_next_recv (n - 1) s)) + 1)
                                     (w_state st_continuous (w_next_recv (n - 1) s)))) st_continuous (n - 1 + 1)).
  { apply post_finish; [reflexivity|reflexivity|repeat split]. }
  replace (n - 1 + 1) with n in P by lia. exact P.
Qed.

End Proc.
